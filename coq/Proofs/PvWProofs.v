(* The Paraver writer primitives GENERATED from src/emu/pv/pcf.c, prf.c, prv.c (Gen/PvW_gen.v, unit pvw) compute the
   primitives of the hand model Emu/PvDefs.v: same refusals, same resulting tables, same bytes written. *)
From Coq Require Import ZArith List Bool Lia.
From OV Require Import Base.CInt Emu.EmuCoreDefs Emu.MarkDefs Emu.PvDefs Emu.PvWPre Emu.PvWRelDefs.
From OV Require Gen.PvW_gen Gen.Pv_gen Gen.Prv_gen Emu.PrvPre Proofs.PvProofs Proofs.PvThms.
From Coq Require Import ZifyBool.
Import ListNotations.
Local Open Scope Z_scope.

Module G := PvW_gen.

Lemma bind_ok {A B} (m : M A) (f : A -> M B) sx g a g' : m sx g = Ok (a, g') -> bind m f sx g = f a sx g'.
Proof. intros H. unfold bind. rewrite H. reflexivity. Qed.
Lemma bind__ok {A B} (m : M A) (k : M B) sx g a g' : m sx g = Ok (a, g') -> bind_ m k sx g = k sx g'.
Proof. intros H. unfold bind_, bind. rewrite H. reflexivity. Qed.
Lemma bind_err {A B} (m : M A) (f : A -> M B) sx g e : m sx g = Err e -> bind m f sx g = Err e.
Proof. intros H. unfold bind. rewrite H. reflexivity. Qed.
Lemma bind__err {A B} (m : M A) (k : M B) sx g e : m sx g = Err e -> bind_ m k sx g = Err e.
Proof. intros H. unfold bind_, bind. rewrite H. reflexivity. Qed.
Lemma bind__ret (m : M unit) sx g : bind_ m (ret tt) sx g = m sx g.
Proof. unfold bind_, bind, ret. destruct (m sx g) as [[[] g']|e]; reflexivity. Qed.

(* ------------------------------------------------------------------ lists *)
Lemma find_idx_spec {A} (f : A -> bool) (l : list A) :
  match find_idx f l with
  | Some i => (i < length l)%nat /\ find f l = nth_error l i /\ (exists a, nth_error l i = Some a /\ f a = true)
  | None => find f l = None /\ forall a, In a l -> f a = false
  end.
Proof.
  induction l as [|a r IH]; cbn [find_idx find].
  - split; [reflexivity | intros a []].
  - destruct (f a) eqn:E.
    + cbn. split; [lia|]. split; [reflexivity|]. exists a. split; [reflexivity | exact E].
    + destruct (find_idx f r) as [i|].
      * destruct IH as (L & F & a' & N & T). cbn. split; [lia|]. split; [exact F|]. exists a'. split; assumption.
      * destruct IH as (F & N). split; [exact F|]. intros x [<-|H]; [exact E | apply N; exact H].
Qed.

Lemma find_map {A B} (g : A -> B) (f : B -> bool) (l : list A) :
  find f (map g l) = option_map g (find (fun a => f (g a)) l).
Proof. induction l as [|a r IH]; cbn; [reflexivity|]. destruct (f (g a)); [reflexivity | exact IH]. Qed.

Lemma update_length {A} (l : list A) i x : length (update l i x) = length l.
Proof. revert i. induction l as [|a r IH]; intros [|i]; cbn; try reflexivity. rewrite IH. reflexivity. Qed.

Lemma update_map {A B} (g : A -> B) (l : list A) i x : map g (update l i x) = update (map g l) i (g x).
Proof. revert i. induction l as [|a r IH]; intros [|i]; cbn; try reflexivity. rewrite IH. reflexivity. Qed.

Lemma nth_update_same {A} (l : list A) i x d : (i < length l)%nat -> nth i (update l i x) d = x.
Proof. revert i. induction l as [|a r IH]; intros [|i] H; cbn in *; try lia; [reflexivity | apply IH; lia]. Qed.

Lemma nth_error_update_same {A} (l : list A) i x : (i < length l)%nat -> nth_error (update l i x) i = Some x.
Proof. revert i. induction l as [|a r IH]; intros [|i] H; cbn in *; try lia; [reflexivity | apply IH; lia]. Qed.

Lemma slen_firstn (s : str) n : slen s < n -> firstn (Z.to_nat (n - 1)) s = s.
Proof. intros H. unfold slen in H. apply firstn_all2. lia. Qed.

Lemma update_update {A} (l : list A) i x y : update (update l i x) i y = update l i y.
Proof. revert i. induction l as [|a r IH]; intros [|i]; cbn; try reflexivity. rewrite IH. reflexivity. Qed.

(* ------------------------------------------------------------------ pcf.c *)
Ltac wstep :=
  cbn -[Nat.ltb Nat.eqb Z.leb Z.geb Z.ltb Z.eqb slen firstn Z.to_nat length app update nth nth_error find_idx cast_uint64 Z.add Z.mul Z.sub];
  rewrite ?Nat.ltb_irrefl, ?Nat.eqb_refl.
Lemma tset_new sx st h f o : h = length (w_types st) -> w_tnew st = Some o ->
  tset h f sx st = Ok (tt, upd_pcf st (w_types st) (Some (f o)) (w_vnew st)).
Proof. intros -> E. unfold tset. rewrite Nat.ltb_irrefl, Nat.eqb_refl, E. reflexivity. Qed.

Lemma tset_old sx st h f o : nth_error (w_types st) h = Some o ->
  tset h f sx st = Ok (tt, upd_pcf st (update (w_types st) h (f o)) (w_tnew st) (w_vnew st)).
Proof.
  intros E. unfold tset. assert (L : (h < length (w_types st))%nat) by (apply nth_error_Some; congruence).
  apply Nat.ltb_lt in L. rewrite L, E. reflexivity.
Qed.

Lemma tget_old st h o : nth_error (w_types st) h = Some o -> tget st h = Some o.
Proof.
  intros E. unfold tget. assert (L : (h < length (w_types st))%nat) by (apply nth_error_Some; congruence).
  apply Nat.ltb_lt in L. rewrite L. exact E.
Qed.

Definition frame_pcf (st st' : wstate) : Prop :=
  w_files st' = w_files st /\ w_pcf_f st' = w_pcf_f st /\ same_prf st st' /\ same_prv st st'.

Lemma frame_upd_pcf st a b c : frame_pcf st (upd_pcf st a b c).
Proof. repeat split. Qed.

Lemma frame_pcf_refl st : frame_pcf st st. Proof. repeat split. Qed.

Lemma model_find_type st id :
  PvDefs.pcf_find_type (abs_pcf st) id = option_map abs_type (find (fun o => ct_id o =? id) (w_types st)).
Proof. unfold PvDefs.pcf_find_type, abs_pcf. rewrite find_map. reflexivity. Qed.

Theorem pcf_find_type_eq sx st id :
  G.Pcf.pcf_find_type tt id sx st = Ok (find_idx (fun o => ct_id o =? id) (w_types st), st) /\
  match find_idx (fun o => ct_id o =? id) (w_types st) with
  | Some i => exists o, nth_error (w_types st) i = Some o /\ PvDefs.pcf_find_type (abs_pcf st) id = Some (abs_type o)
  | None => PvDefs.pcf_find_type (abs_pcf st) id = None
  end.
Proof.
  split; [reflexivity|]. rewrite model_find_type.
  pose proof (find_idx_spec (fun o => ct_id o =? id) (w_types st)) as H.
  destruct (find_idx (fun o => ct_id o =? id) (w_types st)) as [i|].
  - destruct H as (L & F & a & N & T). exists a. rewrite F, N. split; reflexivity.
  - destruct H as (F & _). rewrite F. reflexivity.
Qed.

Theorem pcf_add_type_eq sx st id label : e_calloc_ok sx = true ->
  exists r st', G.Pcf.pcf_add_type tt id label sx st = Ok (r, st') /\ frame_pcf st st' /\
    match PvDefs.pcf_add_type (abs_pcf st) id label with
    | Ok p' => r = Some (length (w_types st)) /\ abs_pcf st' = p'
    | Err _ => r = None /\ w_types st' = w_types st
    end.
Proof.
  intros Hc. unfold G.Pcf.pcf_add_type.
  destruct (pcf_find_type_eq sx st id) as [F M]. rewrite (bind_ok _ _ _ _ _ _ F).
  unfold PvDefs.pcf_add_type.
  destruct (find_idx (fun o => ct_id o =? id) (w_types st)) as [i|].
  - destruct M as (o & _ & M). rewrite M. exists None, st. split; [reflexivity|]. split; [apply frame_pcf_refl|]. split; reflexivity.
  - rewrite M. unfold ite at 1. cbn [is_null negb].
    assert (C : calloc_pcf_type sx st = Ok (Some (length (w_types st)), upd_pcf st (w_types st) (Some zero_ctype) (w_vnew st)))
      by (unfold calloc_pcf_type; rewrite Hc; reflexivity).
    rewrite (bind_ok _ _ _ _ _ _ C). unfold ite at 1. cbn [is_null].
    unfold bind_, bind, set_pcf_type_id, set_pcf_type_values, set_pcf_type_nvalues, on_type, snprintf_s, store_label,
      addr_pcf_type_label, hash_add_pcf_types_by_id, ite, ret, tset.
    do 6 wstep.
    rewrite Z.geb_leb. change MAXL with 512.
    destruct (512 <=? slen label) eqn:EL.
    + eexists None, _. split; [reflexivity|]. split; [repeat split|]. split; reflexivity.
    + do 2 wstep.
      eexists _, _. split; [reflexivity|]. split; [repeat split|]. split; [reflexivity|].
      unfold abs_pcf. cbn [w_types upd_pcf]. rewrite map_app. cbn [map abs_type ct_id ct_label ct_values zero_ctype].
      change (cast_uint64 512) with 512. rewrite slen_firstn by lia. reflexivity.
Qed.

(* PvDefs.pcf_add_value names the type by its id: with unique ids it is an update at the type's position *)
Lemma model_add_value l : forall h o v label nv,
  nth_error l h = Some o ->
  (forall j o', (j < h)%nat -> nth_error l j = Some o' -> ct_id o' <> ct_id o) ->
  PvDefs.pcf_add_value (map abs_type l) (ct_id o) v label =
  match find (fun x => fst x =? v) (ct_values o) with
  | Some _ => Err E_PCF_DUPVAL
  | None => if MAXL <=? slen label then Err E_PCF_LONG
            else Ok (map abs_type (update l h {| ct_id := ct_id o; ct_label := ct_label o; ct_nvalues := nv;
                                                 ct_values := ct_values o ++ [(v, label)] |}))
  end.
Proof.
  induction l as [|a r IH]; intros h o v label nv N U.
  - destruct h; discriminate.
  - destruct h as [|h].
    + cbn in N. inversion N; subst a. cbn [map PvDefs.pcf_add_value abs_type pt_id]. rewrite Z.eqb_refl.
      unfold PvDefs.pcf_find_value. change (pt_values (abs_type o)) with (ct_values o).
      destruct (find (fun x => fst x =? v) (ct_values o)); [reflexivity|]. change (pt_label (abs_type o)) with (ct_label o).
      destruct (MAXL <=? slen label); reflexivity.
    + cbn in N. cbn [map PvDefs.pcf_add_value]. cbn [abs_type pt_id].
      assert (D : ct_id a <> ct_id o) by (apply (U O a); [lia | reflexivity]).
      destruct (ct_id a =? ct_id o) eqn:E; [lia|].
      rewrite (IH h o v label nv N).
      2:{ intros j o' Lj Nj. apply (U (S j) o'); [lia | exact Nj]. }
      destruct (find (fun x => fst x =? v) (ct_values o)); [reflexivity|].
      destruct (MAXL <=? slen label); reflexivity.
Qed.

Theorem pcf_find_value_eq sx st h o v : nth_error (w_types st) h = Some o ->
  G.Pcf.pcf_find_value (Some h) v sx st =
    Ok (match find_idx (fun x => fst x =? v) (ct_values o) with Some i => Some (VAt h i) | None => None end, st) /\
  (PvDefs.pcf_find_value (abs_type o) v = None <-> find_idx (fun x => fst x =? v) (ct_values o) = None).
Proof.
  intros N. split.
  - unfold G.Pcf.pcf_find_value, bind, ret, hash_find_pcf_type_values. rewrite (tget_old st h o N). reflexivity.
  - unfold PvDefs.pcf_find_value. cbn [abs_type pt_values].
    pose proof (find_idx_spec (fun x => fst x =? v) (ct_values o)) as H.
    destruct (find_idx (fun x => fst x =? v) (ct_values o)) as [i|].
    + destruct H as (_ & F & a & Na & _). rewrite F, Na. split; discriminate.
    + destruct H as (F & _). rewrite F. split; reflexivity.
Qed.

Theorem pcf_add_value_eq sx st h o v label : e_calloc_ok sx = true ->
  nth_error (w_types st) h = Some o ->
  (forall j o', (j < h)%nat -> nth_error (w_types st) j = Some o' -> ct_id o' <> ct_id o) ->
  exists r st', G.Pcf.pcf_add_value (Some h) v label sx st = Ok (r, st') /\ frame_pcf st st' /\
    match PvDefs.pcf_add_value (abs_pcf st) (ct_id o) v label with
    | Ok p' => r = Some VNew /\ abs_pcf st' = p' /\
               (exists o', nth_error (w_types st') h = Some o' /\ ct_nvalues o' = ct_nvalues o + 1)
    | Err _ => r = None /\ w_types st' = w_types st
    end.
Proof.
  intros Hc N U. unfold G.Pcf.pcf_add_value.
  destruct (pcf_find_value_eq sx st h o v N) as [F _]. rewrite (bind_ok _ _ _ _ _ _ F).
  unfold abs_pcf. rewrite (model_add_value (w_types st) h o v label (ct_nvalues o + 1) N U).
  pose proof (find_idx_spec (fun x => fst x =? v) (ct_values o)) as H.
  destruct (find_idx (fun x => fst x =? v) (ct_values o)) as [i|].
  - destruct H as (_ & Fd & a & Na & _). rewrite Fd, Na.
    exists None, st. split; [reflexivity|]. split; [apply frame_pcf_refl|]. split; reflexivity.
  - destruct H as (Fd & _). rewrite Fd. unfold ite at 1. cbn [is_null negb].
    assert (C : calloc_pcf_value sx st = Ok (Some VNew, upd_pcf st (w_types st) (w_tnew st) (Some (0, []))))
      by (unfold calloc_pcf_value; rewrite Hc; reflexivity).
    rewrite (bind_ok _ _ _ _ _ _ C). unfold ite at 1. cbn [is_null].
    assert (L : (h < length (w_types st))%nat) by (apply nth_error_Some; congruence).
    pose proof L as Lb. apply Nat.ltb_lt in Lb.
    unfold bind_, bind, set_pcf_value_value, snprintf_s, store_label, addr_pcf_value_label, ite, ret, need,
      hash_add_pcf_type_values_by_value, set_pcf_type_nvalues, get_pcf_type_nvalues, on_type, tset, tobj, tget.
    do 3 wstep. rewrite Z.geb_leb. change MAXL with 512.
    destruct (512 <=? slen label) eqn:EL.
    + eexists None, _. split; [reflexivity|]. split; [repeat split|]. split; reflexivity.
    + wstep. rewrite Lb, N. do 2 wstep. rewrite update_length, Lb.
      rewrite nth_error_update_same by exact L. do 2 wstep.
      eexists _, _. split; [reflexivity|]. split; [repeat split|]. split; [reflexivity|].
      cbn [w_types upd_pcf]. rewrite update_update.
      change (cast_uint64 512) with 512. rewrite slen_firstn by lia.
      split; [reflexivity|]. eexists. rewrite nth_error_update_same by exact L. split; reflexivity.
Qed.

(* ------------------------------------------------------------------ prf.c *)
Lemma nth_map_abs_row l i : (i < length l)%nat -> nth i (map abs_row l) None = abs_row (nth i l zero_row).
Proof. intros H. rewrite (nth_indep _ None (abs_row zero_row)) by (rewrite map_length; exact H). apply map_nth. Qed.

Theorem prf_add_eq sx st l idx label : w_rows st = Some l -> w_nrows st = Z.of_nat (length l) ->
  match PvDefs.prf_add (abs_prf st) idx label with
  | Ok p' => exists st', G.Prf.prf_add tt idx label sx st = Ok (tt, st') /\ abs_prf st' = p' /\
                         (exists l', w_rows st' = Some l' /\ length l' = length l) /\
                         w_nrows st' = w_nrows st /\ w_prf_f st' = w_prf_f st /\ w_files st' = w_files st /\
                         same_pcf st st' /\ same_prv st st'
  | Err _ => G.Prf.prf_add tt idx label sx st = Err E_FAIL
  end.
Proof.
  intros R NR. unfold PvDefs.prf_add, abs_prf. rewrite R, map_length.
  unfold G.Prf.prf_add, bind, bind_, eval, need, ite, ret, fail, addr_prf_rows_at, get_prf_row_set, get_prf_nrows, robj, snprintf_s,
    store_label, addr_prf_row_label, set_prf_row_set, in_range.
  cbn [is_null negb]. rewrite NR, Z.geb_leb.
  destruct ((idx <? 0) || (Z.of_nat (length l) <=? idx)) eqn:EB; [reflexivity|].
  assert (L : (Z.to_nat idx < length l)%nat) by lia.
  rewrite nth_map_abs_row by exact L.
  rewrite R. unfold abs_row.
  destruct (r_set (nth (Z.to_nat idx) l zero_row) =? 0) eqn:ES; cbn [negb]; [|reflexivity].
  assert (IR : (0 <=? idx) && (idx <? Z.of_nat (length l)) = true) by lia. rewrite IR.
  rewrite Z.geb_leb. change MAXR with 512.
  destruct (512 <=? slen label) eqn:EL; [reflexivity|].
  unfold bind. cbn [w_rows upd_prf w_prf_f w_nrows]. rewrite update_length, IR.
  eexists. split; [reflexivity|]. cbn [w_rows upd_prf w_nrows w_prf_f w_files].
  split; [|split; [eexists; split; [reflexivity | rewrite !update_length; reflexivity] | repeat split]].
  rewrite update_update, update_map. f_equal. cbn [r_set r_label]. change (1 =? 0) with false. cbv iota.
  rewrite nth_update_same by exact L. cbn [r_label].
  change (cast_uint64 512) with 512. rewrite slen_firstn by lia. reflexivity.
Qed.

Lemma fwrite_run sx st i c bs : nth_error (w_files st) i = Some (c, true) ->
  fwrite (Some i) bs sx st = Ok (tt, upd_files st (update (w_files st) i (c ++ bs, true))).
Proof. intros H. unfold fwrite. rewrite H. reflexivity. Qed.

Lemma files_after st i x : (i < length (w_files st))%nat ->
  nth_error (w_files (upd_files st (update (w_files st) i x))) i = Some x.
Proof. intros H. cbn [w_files upd_files]. apply nth_error_update_same. exact H. Qed.

Lemma pad_left0 s : pad_left 0 SP s = s.
Proof. unfold pad_left. cbn. reflexivity. Qed.

Lemma all_set_rows l :
  all_set (map abs_row l) = if forallb (fun r => negb (r_set r =? 0)) l then Some (map r_label l) else None.
Proof.
  induction l as [|r l IH]; [reflexivity|]. cbn [map all_set forallb]. unfold abs_row at 1.
  destruct (r_set r =? 0); cbn [negb andb]; [reflexivity|]. rewrite IH.
  destruct (forallb (fun r0 => negb (r_set r0 =? 0)) l); reflexivity.
Qed.

Lemma skipn_cons_nth {A} k (l : list A) d : (k < length l)%nat -> skipn k l = nth k l d :: skipn (S k) l.
Proof. revert k. induction l as [|a r IH]; intros [|k] H; cbn in *; try lia; [reflexivity | apply IH; lia]. Qed.

Lemma update_same {A} (l : list A) i x : nth_error l i = Some x -> update l i x = l.
Proof. revert i. induction l as [|a r IH]; intros [|i] H; cbn in *; try discriminate; [inversion H; reflexivity | rewrite (IH i H); reflexivity]. Qed.

Lemma upd_files_twice st a b : upd_files (upd_files st a) b = upd_files st b.
Proof. reflexivity. Qed.

Lemma upd_files_eta st : upd_files st (w_files st) = st.
Proof. destruct st; reflexivity. Qed.

Section PrfLoops.
  Variable sx : wenv.
  Variable l : list crow.

  Lemma loop_check (body : Z -> M unit) st :
    (forall k, (k < length l)%nat ->
       body (Z.of_nat k) sx st = if r_set (nth k l zero_row) =? 0 then Err E_FAIL else Ok (tt, st)) ->
    forall n k, (k + n = length l)%nat ->
    loop_from n (Z.of_nat k) body sx st =
    if forallb (fun r => negb (r_set r =? 0)) (skipn k l) then Ok (tt, st) else Err E_FAIL.
  Proof.
    intros B. induction n as [|n IH]; intros k E.
    - rewrite skipn_all2 by lia. reflexivity.
    - cbn [loop_from]. assert (L : (k < length l)%nat) by lia.
      rewrite (skipn_cons_nth k l zero_row L). cbn [forallb].
      unfold bind_, bind. rewrite (B k L).
      destruct (r_set (nth k l zero_row) =? 0); cbn [negb andb]; [reflexivity|].
      replace (Z.of_nat k + 1) with (Z.of_nat (S k)) by lia. apply IH. lia.
  Qed.

  Lemma loop_write (body : Z -> M unit) i :
    (forall k st c, (k < length l)%nat -> w_rows st = Some l -> nth_error (w_files st) i = Some (c, true) ->
       body (Z.of_nat k) sx st = Ok (tt, upd_files st (update (w_files st) i (c ++ r_label (nth k l zero_row) ++ [NL], true)))) ->
    forall n k st c, (k + n = length l)%nat -> w_rows st = Some l -> nth_error (w_files st) i = Some (c, true) ->
    loop_from n (Z.of_nat k) body sx st =
    Ok (tt, upd_files st (update (w_files st) i (c ++ unlines (map r_label (skipn k l)), true))).
  Proof.
    intros B. induction n as [|n IH]; intros k st c E R F.
    - rewrite skipn_all2 by lia. cbn [map unlines concat loop_from ret]. rewrite app_nil_r.
      unfold ret. apply f_equal. apply f_equal. rewrite <- (upd_files_eta st) at 1. apply f_equal. symmetry. apply update_same. exact F.
    - cbn [loop_from]. assert (L : (k < length l)%nat) by lia.
      rewrite (skipn_cons_nth k l zero_row L). cbn [map].
      unfold bind_, bind. rewrite (B k st c L R F).
      assert (Li : (i < length (w_files st))%nat) by (apply nth_error_Some; congruence).
      replace (Z.of_nat k + 1) with (Z.of_nat (S k)) by lia.
      rewrite (IH (S k) _ (c ++ r_label (nth k l zero_row) ++ [NL])); [| lia | exact R | apply files_after; exact Li].
      cbn [w_files upd_files]. rewrite update_update. unfold unlines. cbn [map concat]. rewrite <- !app_assoc. reflexivity.
  Qed.
End PrfLoops.

Lemma bind_eval_run {A B} (f : wenv -> wstate -> A) (k : A -> M B) e g : bind (eval f) k e g = k (f e g) e g.
Proof. reflexivity. Qed.

Lemma fclose_run sx st i c : nth_error (w_files st) i = Some (c, true) ->
  fclose (Some i) sx st = Ok (tt, upd_files st (update (w_files st) i (c, false))).
Proof. intros H. unfold fclose. rewrite H. reflexivity. Qed.

Lemma fprintf_run sx st i c (f : wenv -> wstate -> ptr_file) items : f sx st = Some i ->
  nth_error (w_files st) i = Some (c, true) ->
  fprintf f items sx st = Ok (tt, upd_files st (update (w_files st) i (c ++ render (items sx st), true))).
Proof. intros F H. unfold fprintf. rewrite F. apply fwrite_run. exact H. Qed.

Theorem prf_close_eq sx st l i c : w_rows st = Some l -> w_nrows st = Z.of_nat (length l) ->
  w_prf_f st = Some i -> nth_error (w_files st) i = Some (c, true) ->
  match PvDefs.prf_close (abs_prf st) with
  | Ok text => G.Prf.prf_close tt sx st = Ok (tt, upd_files st (update (w_files st) i (c ++ text, false)))
  | Err _ => G.Prf.prf_close tt sx st = Err E_FAIL
  end.
Proof.
  intros R NR PF FI. unfold PvDefs.prf_close, abs_prf. rewrite R, all_set_rows.
  assert (Li : (i < length (w_files st))%nat) by (apply nth_error_Some; congruence).
  assert (CK : forall (k : M unit), bind_ (for_range (fun sx st => get_prf_nrows sx st tt)
             (fun i0 => bind (eval (fun _ _ => addr_prf_rows_at tt i0)) (fun row =>
                need (fun _ _ => negb (is_null row))
                  (ite (fun sx st => negb (negb (get_prf_row_set sx st row =? 0))) (fail E_FAIL) (ret tt))))) k sx st =
           if forallb (fun r => negb (r_set r =? 0)) l then k sx st else Err E_FAIL).
  { intros k. unfold bind_ at 1. unfold bind at 1. unfold for_range at 1. unfold get_prf_nrows at 1. rewrite NR, Nat2Z.id.
    change (loop_from (length l) 0) with (loop_from (length l) (Z.of_nat 0)). rewrite (loop_check sx l _ st) with (k := O); [| | lia].
    - cbn [skipn]. destruct (forallb (fun r => negb (r_set r =? 0)) l); reflexivity.
    - intros k0 Lk. unfold bind, eval, need, ite, fail, ret, addr_prf_rows_at, get_prf_row_set, robj. cbn [is_null negb].
      rewrite R, Nat2Z.id, negb_involutive. reflexivity. }
  unfold G.Prf.prf_close. rewrite CK. clear CK.
  destruct (forallb (fun r => negb (r_set r =? 0)) l); [|reflexivity].
  rewrite bind_eval_run. unfold get_prf_f. rewrite PF.
  erewrite bind__ok; [|apply (fprintf_run sx st i c); [reflexivity | exact FI]].
  erewrite bind__ok; [|eapply fprintf_run; [reflexivity | apply files_after; exact Li]].
  cbn [w_files upd_files]. rewrite update_update.
  erewrite bind__ok; [|eapply fprintf_run; [reflexivity | apply nth_error_update_same; exact Li]].
  cbn [w_files upd_files]. rewrite update_update.
  erewrite bind__ok; [|eapply fprintf_run; [reflexivity | apply nth_error_update_same; exact Li]].
  cbn [w_files upd_files]. rewrite update_update.
  unfold bind_ at 1. unfold bind at 1. unfold for_range at 1. unfold get_prf_nrows at 1. cbn [w_nrows upd_files].
  rewrite NR, Nat2Z.id. change (loop_from (length l) 0) with (loop_from (length l) (Z.of_nat 0)).
  erewrite (loop_write sx l _ i) with (k := O); [| | lia | exact R | apply nth_error_update_same; exact Li].
  2:{ intros k st0 c0 Lk R0 F0. unfold bind, eval, need, ret, addr_prf_rows_at. cbn [is_null negb].
      erewrite bind__ok; [|eapply fprintf_run; [reflexivity | exact F0]].
      unfold get_prf_row_label, robj. rewrite R0, Nat2Z.id. unfold render. cbn [flat_map render_item]. rewrite app_nil_r. reflexivity. }
  cbn [w_files upd_files skipn]. rewrite update_update.
  rewrite bind__ret. erewrite fclose_run; [|apply nth_error_update_same; exact Li].
  cbn [w_files upd_files]. rewrite update_update.
  rewrite !upd_files_twice. apply f_equal. apply f_equal. apply f_equal. apply f_equal. apply f_equal2; [|reflexivity].
  unfold render, get_prf_nrows. cbn [flat_map render_item w_nrows upd_files]. rewrite NR, pad_left0, !app_nil_r.
  unfold prf_text, unlines. cbn [map concat]. rewrite map_length. rewrite <- !app_assoc. reflexivity.
Qed.

(* ------------------------------------------------------------------ prv.c *)
Lemma check_flags_eq flags sx st :
  PvWPre.check_flags flags sx st = if PvDefs.check_flags flags then Ok (tt, st) else Err E_FAIL.
Proof.
  unfold PvWPre.check_flags, Prv_gen.check_flags, PrvPre.ite, PrvPre.fail, PrvPre.ret, PvDefs.check_flags, has_flag.
  change Prv_gen.c_PRV_EMITDUP with PRV_EMITDUP. change Prv_gen.c_PRV_SKIPDUPNULL with PRV_SKIPDUPNULL.
  change Prv_gen.c_PRV_SKIPDUP with PRV_SKIPDUP.
  destruct (Z.land flags PRV_EMITDUP =? 0), (Z.land flags PRV_SKIPDUPNULL =? 0), (Z.land flags PRV_SKIPDUP =? 0); reflexivity.
Qed.

Theorem prv_write_header_eq sx st i c duration nrows : nth_error (w_files st) i = Some (c, true) ->
  G.Prv.write_header (Some i) duration (cast_int32 nrows) sx st =
  Ok (tt, upd_files st (update (w_files st) i (c ++ prv_header duration nrows, true))).
Proof.
  intros F. unfold G.Prv.write_header. rewrite bind__ret.
  erewrite fprintf_run; [|reflexivity | exact F].
  unfold render, prv_header. cbn [flat_map render_item]. rewrite pad_left0, ?app_nil_r. rewrite <- ?app_assoc. reflexivity.
Qed.

Theorem prv_open_file_eq sx st i nrows : nth_error (w_files st) i = Some ([], true) ->
  exists st', G.Prv.prv_open_file tt nrows (Some i) sx st = Ok (tt, st') /\ abs_prv st' = prv_open nrows /\
              w_prv_file st' = Some i /\ w_cnew st' = w_cnew st /\ same_pcf st st' /\ same_prf st st'.
Proof.
  intros F. unfold G.Prv.prv_open_file.
  unfold bind_ at 1 2 3. unfold bind, zero_prv, set_prv_nrows, set_prv_file. rewrite bind__ret.
  erewrite prv_write_header_eq; [|exact F].
  eexists. split; [reflexivity|]. split; [|repeat split].
  assert (Li : (i < length (w_files st))%nat) by (apply nth_error_Some; congruence).
  unfold abs_prv, prv_open, file_bytes. cbn [w_prv_nrows w_time w_chans w_prv_file w_files upd_files upd_prv map].
  rewrite nth_update_same by exact Li. reflexivity.
Qed.

Theorem prv_get_id_eq sx st ty row : G.Prv.get_id sx st tt ty row = prv_get_id (abs_prv st) ty row.
Proof. reflexivity. Qed.

Lemma model_prv_find st id :
  prv_find (abs_prv st) id = option_map abs_chan (find (fun o => cc_id o =? id) (w_chans st)).
Proof. unfold prv_find, abs_prv. cbn [pv_chans]. rewrite find_map. reflexivity. Qed.

Theorem find_prv_chan_eq sx st id :
  G.Prv.find_prv_chan tt id sx st = Ok (find_idx (fun o => cc_id o =? id) (w_chans st), st) /\
  (prv_find (abs_prv st) id = None <-> find_idx (fun o => cc_id o =? id) (w_chans st) = None).
Proof.
  split; [reflexivity|]. rewrite model_prv_find.
  pose proof (find_idx_spec (fun o => cc_id o =? id) (w_chans st)) as H.
  destruct (find_idx (fun o => cc_id o =? id) (w_chans st)) as [i|].
  - destruct H as (_ & F & a & N & _). rewrite F, N. split; discriminate.
  - destruct H as (F & _). rewrite F. split; reflexivity.
Qed.

Theorem prv_write_line_eq sx st i c row1 ty v : w_prv_file st = Some i -> nth_error (w_files st) i = Some (c, true) ->
  G.Prv.write_line tt row1 ty v sx st =
  Ok (tt, upd_files st (update (w_files st) i (c ++ prv_line row1 (w_time st) ty v, true))).
Proof.
  intros PF F. unfold G.Prv.write_line. rewrite bind__ret.
  erewrite fprintf_run; [|unfold get_prv_file; exact PF | exact F].
  unfold render, prv_line, get_prv_time. cbn [flat_map render_item]. rewrite !pad_left0, ?app_nil_r. rewrite <- ?app_assoc. reflexivity.
Qed.

Theorem prv_register_eq sx st row ty bay chan flags : e_calloc_ok sx = true -> e_bay_ok sx = true ->
  match PvDefs.prv_register (abs_prv st) row ty flags with
  | Ok pv' => exists st', G.Prv.prv_register tt row ty bay chan flags sx st = Ok (tt, st') /\ abs_prv st' = pv' /\
                          w_cbs st' = w_cbs st ++ [(chan, length (w_chans st))] /\
                          w_files st' = w_files st /\ same_pcf st st' /\ same_prf st st'
  | Err _ => G.Prv.prv_register tt row ty bay chan flags sx st = Err E_FAIL
  end.
Proof.
  intros Hc Hb. unfold PvDefs.prv_register.
  remember (G.Prv.prv_register tt row ty bay chan flags sx st) as gr eqn:EG.
  unfold G.Prv.prv_register in EG.
  unfold need at 1 in EG. cbn [G.Prv.get_id_safe] in EG. rewrite bind_eval_run in EG. rewrite prv_get_id_eq in EG.
  destruct (find_prv_chan_eq sx st (prv_get_id (abs_prv st) ty row)) as [F M]. rewrite (bind_ok _ _ _ _ _ _ F) in EG.
  pose proof (find_idx_spec (fun o => cc_id o =? prv_get_id (abs_prv st) ty row) (w_chans st)) as H.
  rewrite model_prv_find.
  destruct (find_idx (fun o => cc_id o =? prv_get_id (abs_prv st) ty row) (w_chans st)) as [i|].
  - destruct H as (_ & Fd & a & N & _). rewrite Fd, N. exact EG.
  - destruct H as (Fd & _). rewrite Fd. cbn [option_map]. unfold ite at 1 in EG. cbn [is_null negb] in EG.
    assert (C : calloc_prv_chan sx st = Ok (Some (length (w_chans st)),
               upd_prv st (w_prv_file st) (w_time st) (w_prv_nrows st) (w_chans st) (Some zero_cchan) (w_cbs st)))
      by (unfold calloc_prv_chan; rewrite Hc; reflexivity).
    rewrite (bind_ok _ _ _ _ _ _ C) in EG. unfold ite at 1 in EG. cbn [is_null] in EG.
    unfold bind_ at 1 in EG. unfold bind at 1 in EG. rewrite check_flags_eq in EG.
    destruct (PvDefs.check_flags flags); cbn [negb]; [|exact EG].
    unfold bind_, bind, set_prv_chan_id, set_prv_chan_chan, set_prv_chan_row_base1, set_prv_chan_type, set_prv_chan_prv,
      set_prv_chan_last_value, set_prv_chan_last_value_set, set_prv_chan_flags, on_cnew, bay_add_cb, void_of_ptr_prv_chan,
      hash_add_prv_channels_by_id, ite, ret in EG.
    do 12 (cbn -[Nat.ltb Nat.eqb length app] in EG; rewrite ?Nat.eqb_refl in EG). rewrite Hb in EG.
    do 3 (cbn -[Nat.ltb Nat.eqb length app] in EG; rewrite ?Nat.eqb_refl in EG).
    rewrite EG. eexists. split; [reflexivity|]. cbn [w_cbs w_files upd_prv]. split; [|repeat split].
    unfold abs_prv. cbn [w_prv_nrows w_time w_chans w_prv_file upd_prv]. rewrite map_app. reflexivity.
Qed.

(* ------------------------------------------------------------------ pcf.c: the file text *)
Lemma noop_append st i c : nth_error (w_files st) i = Some (c, true) ->
  st = upd_files st (update (w_files st) i (c ++ [], true)).
Proof.
  intros F. rewrite app_nil_r. rewrite <- (upd_files_eta st) at 1. apply f_equal. symmetry. apply update_same. exact F.
Qed.

Lemma map_nth_seq {A B} (g : A -> B) (l : list A) d : map (fun j => g (nth j l d)) (seq 0 (length l)) = map g l.
Proof.
  induction l as [|a r IH]; [reflexivity|]. cbn [length seq map nth]. f_equal.
  rewrite <- seq_shift, map_map. exact IH.
Qed.

Section PcfText.
  Variable sx : wenv.
  Variable T : list ctype.
  Variable i : nat.
  Variable PFv : ptr_file.
  Definition Inv (st : wstate) : Prop := w_types st = T /\ w_pcf_f st = PFv.

  Lemma walk_append {A} (xs : list A) (body : A -> M unit) (txt : A -> str) :
    (forall a st c, In a xs -> Inv st -> nth_error (w_files st) i = Some (c, true) ->
       body a sx st = Ok (tt, upd_files st (update (w_files st) i (c ++ txt a, true)))) ->
    forall st c, Inv st -> nth_error (w_files st) i = Some (c, true) ->
    walk xs body sx st = Ok (tt, upd_files st (update (w_files st) i (c ++ concat (map txt xs), true))).
  Proof.
    induction xs as [|a r IH]; intros B st c WT F.
    - cbn [walk map concat]. unfold ret. apply f_equal. apply f_equal. apply noop_append. exact F.
    - cbn [walk map concat]. unfold bind_, bind. rewrite (B a st c (or_introl eq_refl) WT F).
      assert (Li : (i < length (w_files st))%nat) by (apply nth_error_Some; congruence).
      rewrite (IH (fun a' st' c' I' => B a' st' c' (or_intror I')) _ (c ++ txt a)); [| exact WT | apply files_after; exact Li].
      rewrite upd_files_twice. cbn [w_files upd_files]. rewrite update_update, <- app_assoc. reflexivity.
  Qed.

  Lemma write_type_run st c h o : Inv st -> nth_error T h = Some o -> nth_error (w_files st) i = Some (c, true) ->
    G.Pcf.write_type (Some i) (Some h) sx st =
    Ok (tt, upd_files st (update (w_files st) i (c ++ unlines (type_lines (abs_type o)), true))).
  Proof.
    intros IV N F. pose proof (proj1 IV) as WT. assert (Li : (i < length (w_files st))%nat) by (apply nth_error_Some; congruence).
    assert (TO : forall st', w_types st' = T -> tobj st' (Some h) = o).
    { intros st' W. unfold tobj. rewrite (tget_old st' h o); [reflexivity | rewrite W; exact N]. }
    unfold G.Pcf.write_type.
    erewrite bind__ok; [|eapply fprintf_run; [reflexivity | exact F]].
    erewrite bind__ok; [|eapply fprintf_run; [reflexivity | apply files_after; exact Li]].
    unfold need at 1. cbn [is_null negb andb].
    erewrite bind__ok; [|eapply fprintf_run; [reflexivity | cbn [w_files upd_files]; rewrite update_update; apply nth_error_update_same; exact Li]].
    erewrite bind__ok; [|eapply fprintf_run; [reflexivity | cbn [w_files upd_files]; rewrite !update_update; apply nth_error_update_same; exact Li]].
    unfold need at 1. cbn [is_null negb]. rewrite bind__ret.
    rewrite !upd_files_twice. cbn [w_files upd_files]. rewrite !update_update.
    unfold get_pcf_type_id, get_pcf_type_label. rewrite !TO by exact WT.
    unfold render. cbn [flat_map render_item]. rewrite ?app_nil_r.
    set (c1 := (((c ++ [10; 10]) ++ [69; 86; 69; 78; 84; 95; 84; 89; 80; 69; 10]) ++
                [48; 32] ++ pad_right 10 (dec (ct_id o)) ++ [32] ++ ct_label o ++ [10]) ++ [86; 65; 76; 85; 69; 83; 10]).
    set (st1 := upd_files st (update (w_files st) i (c1, true))).
    assert (W1 : w_types st1 = T) by exact WT.
    assert (F1 : nth_error (w_files st1) i = Some (c1, true)) by (apply files_after; exact Li).
    assert (TXT : c ++ unlines (type_lines (abs_type o)) = c1 ++ unlines (map value_line (ct_values o))).
    { unfold c1, type_lines, unlines, type_line, num_label. cbn [abs_type pt_id pt_label pt_values map concat app].
      rewrite <- !app_assoc. cbn [app]. rewrite <- ?app_assoc. cbn [app]. rewrite <- ?app_assoc. reflexivity. }
    rewrite TXT. unfold for_hh_pcf_value, get_pcf_type_values. rewrite (TO st1 W1).
    destruct (ct_values o) as [|v0 vs] eqn:EV.
    - cbn [map]. unfold unlines. cbn [map concat]. rewrite app_nil_r. reflexivity.
    - rewrite <- EV. rewrite Nat.sub_0_r.
      rewrite (walk_append _ _ (fun p => match p with Some (VAt _ j) => value_line (nth j (ct_values o) (0, [])) ++ [NL] | _ => [] end) ) with (c := c1);
        [| | exact IV | exact F1].
      + unfold st1. rewrite upd_files_twice. cbn [w_files upd_files]. rewrite update_update.
        fold st1. rewrite (TO st1 W1). rewrite map_map. cbv beta iota.
        rewrite (map_nth_seq (fun x => value_line x ++ [NL])). unfold unlines. rewrite map_map. reflexivity.
      + intros a st' c' I [W' _] F'. apply in_map_iff in I as (j & <- & _).
        rewrite bind__ret. erewrite fprintf_run; [|reflexivity | exact F'].
        unfold get_pcf_value_value, get_pcf_value_label, vobj. rewrite (TO st' W').
        unfold render, value_line, num_label. cbn [flat_map render_item]. rewrite ?app_nil_r, <- ?app_assoc. reflexivity.
  Qed.
End PcfText.

Lemma unlines_app a b : unlines (a ++ b) = unlines a ++ unlines b.
Proof. unfold unlines. rewrite map_app, concat_app. reflexivity. Qed.

Lemma unlines_flat_map {A} (f : A -> list str) l : unlines (flat_map f l) = concat (map (fun x => unlines (f x)) l).
Proof. induction l as [|a r IH]; [reflexivity|]. cbn [flat_map map concat]. rewrite unlines_app, IH. reflexivity. Qed.

Theorem pcf_write_types_eq sx st i c : w_pcf_f st = Some i -> nth_error (w_files st) i = Some (c, true) ->
  G.Pcf.write_types tt sx st =
  Ok (tt, upd_files st (update (w_files st) i (c ++ unlines (flat_map type_lines (abs_pcf st)), true))).
Proof.
  intros PF F. unfold G.Pcf.write_types. rewrite bind__ret. unfold for_hh_pcf_type, get_pcf_types.
  rewrite unlines_flat_map. unfold abs_pcf. rewrite map_map.
  destruct (w_types st) as [|t0 ts] eqn:ET.
  - cbn [map concat]. apply f_equal. apply f_equal. apply noop_append. exact F.
  - rewrite <- ET. rewrite Nat.sub_0_r.
    rewrite (walk_append sx (w_types st) i (Some i) _ _
               (fun p => match p with Some h => unlines (type_lines (abs_type (nth h (w_types st) zero_ctype))) | None => [] end))
      with (c := c); [| | split; [reflexivity | exact PF] | exact F].
    + rewrite map_map. rewrite (map_nth_seq (fun o => unlines (type_lines (abs_type o)))). reflexivity.
    + intros a st' c' I IV F'. apply in_map_iff in I as (h & <- & I). apply in_seq in I.
      rewrite bind__ret. rewrite bind_eval_run. unfold get_pcf_f. rewrite (proj2 IV).
      apply (write_type_run sx (w_types st) i (Some i) st' c' h); [exact IV | | exact F'].
      apply nth_error_nth'. lia.
Qed.

Theorem pcf_close_eq sx st i c : w_pcf_f st = Some i -> nth_error (w_files st) i = Some (c, true) ->
  G.Pcf.pcf_close tt sx st = Ok (tt, upd_files st (update (w_files st) i (c ++ pcf_text (abs_pcf st), false))).
Proof.
  intros PF F. assert (Li : (i < length (w_files st))%nat) by (apply nth_error_Some; congruence).
  unfold G.Pcf.pcf_close.
  erewrite bind__ok; [| rewrite bind_eval_run; unfold get_pcf_f; rewrite PF; unfold G.Pcf.write_header; rewrite bind__ret;
                        eapply fprintf_run; [reflexivity | exact F]].
  erewrite bind__ok; [| rewrite bind_eval_run; unfold get_pcf_f; cbn [w_pcf_f upd_files]; rewrite PF; unfold write_colors;
                        eapply fwrite_run; apply files_after; exact Li].
  rewrite upd_files_twice. cbn [w_files upd_files]. rewrite update_update.
  erewrite bind__ok; [| eapply pcf_write_types_eq; [exact PF | apply files_after; exact Li]].
  rewrite upd_files_twice. cbn [w_files upd_files]. rewrite update_update.
  rewrite bind__ret. rewrite bind_eval_run. unfold get_pcf_f. cbn [w_pcf_f upd_files]. rewrite PF.
  erewrite fclose_run; [|apply files_after; exact Li].
  rewrite upd_files_twice. cbn [w_files upd_files]. rewrite update_update.
  apply f_equal. apply f_equal. apply f_equal. apply f_equal. apply f_equal2; [|reflexivity].
  unfold pcf_text, pcf_preamble, render. cbn [flat_map render_item]. rewrite app_nil_r.
  rewrite Nat2Z.id, firstn_all. rewrite <- !app_assoc. reflexivity.
Qed.

Lemma map_abs_zero n : map abs_row (repeat zero_row n) = repeat None n.
Proof. induction n as [|n IH]; [reflexivity|]. cbn [repeat map]. rewrite IH. reflexivity. Qed.

Theorem prf_open_eq sx st path nrows : e_calloc_ok sx = true -> e_fopen_ok sx = true -> 0 <= nrows < 2 ^ 63 ->
  exists st', G.Prf.prf_open tt path nrows sx st = Ok (tt, st') /\ abs_prf st' = PvDefs.prf_open (Z.to_nat nrows) /\
              w_nrows st' = nrows /\ w_rows st' = Some (repeat zero_row (Z.to_nat nrows)) /\
              w_prf_f st' = Some (length (w_files st)) /\ w_files st' = w_files st ++ [([], true)] /\
              same_pcf st st' /\ same_prv st st'.
Proof.
  intros Hc Hf Hn. unfold G.Prf.prf_open, bind_, bind, zero_prf, fopen_into_prf_f, ite, set_prf_nrows, calloc_into_prf_rows,
    get_prf_f, get_prf_rows, ret, fail.
  rewrite Hf, Hc. cbn [w_prf_f w_rows w_nrows w_files upd_prf upd_files is_null].
  eexists. split; [reflexivity|]. unfold abs_prf. cbn [w_prf_f w_rows w_nrows w_files upd_prf upd_files].
  rewrite (wrapu_small 64) by lia. rewrite map_abs_zero. repeat split.
Qed.

Theorem prf_open_fails sx st path nrows : e_fopen_ok sx = false \/ (e_fopen_ok sx = true /\ e_calloc_ok sx = false) ->
  G.Prf.prf_open tt path nrows sx st = Err E_FAIL.
Proof.
  intros [Hf|[Hf Hc]]; unfold G.Prf.prf_open, bind_, bind, zero_prf, fopen_into_prf_f, ite, set_prf_nrows, calloc_into_prf_rows,
    get_prf_f, get_prf_rows, ret, fail; rewrite Hf; try rewrite Hc; reflexivity.
Qed.

(* ------------------------------------------------------------------ the refusals, for the generated code *)
Theorem gen_pcf_dup_type_refused sx st id l : e_calloc_ok sx = true -> PvProofs.declared (abs_pcf st) id ->
  exists st', G.Pcf.pcf_add_type tt id l sx st = Ok (None, st') /\ w_types st' = w_types st.
Proof.
  intros Hc D. destruct (pcf_add_type_eq sx st id l Hc) as (r & st' & E & _ & M).
  rewrite (PvProofs.pcf_add_type_dup _ _ l D) in M. destruct M as [-> W]. exists st'. split; assumption.
Qed.

Theorem gen_pcf_long_type_refused sx st id l : e_calloc_ok sx = true -> MAXL <= slen l ->
  exists st', G.Pcf.pcf_add_type tt id l sx st = Ok (None, st') /\ w_types st' = w_types st.
Proof.
  intros Hc L. destruct (pcf_add_type_eq sx st id l Hc) as (r & st' & E & _ & M).
  destruct (PvThms.pcf_long_refused (abs_pcf st) id 0 l L) as [N _].
  destruct (PvDefs.pcf_add_type (abs_pcf st) id l) as [p'|e]; [exfalso; apply (N p'); reflexivity|].
  destruct M as [-> W]. exists st'. split; assumption.
Qed.

Theorem gen_pcf_dup_value_refused sx st h o v l k : e_calloc_ok sx = true -> nth_error (w_types st) h = Some o ->
  find_idx (fun x => fst x =? v) (ct_values o) = Some k ->
  G.Pcf.pcf_add_value (Some h) v l sx st = Ok (None, st).
Proof.
  intros Hc N Fk. unfold G.Pcf.pcf_add_value.
  destruct (pcf_find_value_eq sx st h o v N) as [F _]. rewrite (bind_ok _ _ _ _ _ _ F). rewrite Fk. reflexivity.
Qed.

Theorem gen_pcf_long_value_refused sx st h o v l : e_calloc_ok sx = true -> nth_error (w_types st) h = Some o ->
  (forall j o', (j < h)%nat -> nth_error (w_types st) j = Some o' -> ct_id o' <> ct_id o) -> MAXL <= slen l ->
  exists st', G.Pcf.pcf_add_value (Some h) v l sx st = Ok (None, st') /\ w_types st' = w_types st.
Proof.
  intros Hc N U L. destruct (pcf_add_value_eq sx st h o v l Hc N U) as (r & st' & E & _ & M).
  destruct (PvThms.pcf_long_refused (abs_pcf st) (ct_id o) v l L) as [_ NV].
  destruct (PvDefs.pcf_add_value (abs_pcf st) (ct_id o) v l) as [p'|e]; [exfalso; apply (NV p'); reflexivity|].
  destruct M as [-> W]. exists st'. split; assumption.
Qed.

Theorem gen_prf_bounds_refused sx st l idx label : w_rows st = Some l -> w_nrows st = Z.of_nat (length l) ->
  idx < 0 \/ w_nrows st <= idx -> G.Prf.prf_add tt idx label sx st = Err E_FAIL.
Proof.
  intros R NR B. pose proof (prf_add_eq sx st l idx label R NR) as H.
  unfold PvDefs.prf_add, abs_prf in H. rewrite R, map_length in H.
  destruct ((idx <? 0) || (Z.of_nat (length l) <=? idx)) eqn:E; [exact H | lia].
Qed.

Theorem gen_prf_long_refused sx st l idx label : w_rows st = Some l -> w_nrows st = Z.of_nat (length l) ->
  MAXR <= slen label -> G.Prf.prf_add tt idx label sx st = Err E_FAIL.
Proof.
  intros R NR L. pose proof (prf_add_eq sx st l idx label R NR) as H.
  unfold PvDefs.prf_add in H. destruct ((idx <? 0) || (Z.of_nat (length (abs_prf st)) <=? idx)); [exact H|].
  destruct (nth (Z.to_nat idx) (abs_prf st) None); [exact H|].
  destruct (MAXR <=? slen label) eqn:E; [exact H | lia].
Qed.

Theorem gen_prf_twice_refused sx st l idx label label' st1 : w_rows st = Some l -> w_nrows st = Z.of_nat (length l) ->
  G.Prf.prf_add tt idx label sx st = Ok (tt, st1) -> G.Prf.prf_add tt idx label' sx st1 = Err E_FAIL.
Proof.
  intros R NR E1. pose proof (prf_add_eq sx st l idx label R NR) as H.
  destruct (PvDefs.prf_add (abs_prf st) idx label) as [p'|e] eqn:EM; [|congruence].
  destruct H as (st' & E' & A & (l' & R' & LL) & NR' & _). rewrite E1 in E'. inversion E'; subst st'.
  pose proof (prf_add_eq sx st1 l' idx label' R' ltac:(rewrite NR', NR, LL; reflexivity)) as H2.
  rewrite A in H2. rewrite (PvProofs.prf_add_twice _ _ _ label' _ EM) in H2. exact H2.
Qed.

Theorem gen_prf_unset_refused sx st l i c : w_rows st = Some l -> w_nrows st = Z.of_nat (length l) ->
  w_prf_f st = Some i -> nth_error (w_files st) i = Some (c, true) ->
  In None (abs_prf st) -> G.Prf.prf_close tt sx st = Err E_FAIL.
Proof.
  intros R NR PF F U. pose proof (prf_close_eq sx st l i c R NR PF F) as H.
  rewrite (PvProofs.prf_close_unset _ U) in H. exact H.
Qed.

Theorem gen_prv_dup_channel_refused sx st row ty bay chan fl fl' bay' chan' st1 :
  e_calloc_ok sx = true -> e_bay_ok sx = true ->
  G.Prv.prv_register tt row ty bay chan fl sx st = Ok (tt, st1) ->
  G.Prv.prv_register tt row ty bay' chan' fl' sx st1 = Err E_FAIL.
Proof.
  intros Hc Hb E1. pose proof (prv_register_eq sx st row ty bay chan fl Hc Hb) as H.
  destruct (PvDefs.prv_register (abs_prv st) row ty fl) as [pv'|e] eqn:EM; [|congruence].
  destruct H as (st' & E' & A & _). rewrite E1 in E'. inversion E'; subst st'.
  pose proof (prv_register_eq sx st1 row ty bay' chan' fl' Hc Hb) as H2.
  rewrite A in H2. rewrite (PvThms.prv_register_twice _ _ _ _ fl' _ EM) in H2. exact H2.
Qed.

Theorem gen_prv_bad_flags_refused sx st row ty bay chan fl : e_calloc_ok sx = true -> e_bay_ok sx = true ->
  PvDefs.check_flags fl = false -> G.Prv.prv_register tt row ty bay chan fl sx st = Err E_FAIL.
Proof.
  intros Hc Hb Fl. pose proof (prv_register_eq sx st row ty bay chan fl Hc Hb) as H.
  unfold PvDefs.prv_register in H. rewrite Fl in H.
  destruct (prv_find (abs_prv st) (prv_get_id (abs_prv st) ty row)); exact H.
Qed.
