(* C20: the reference sort of the sort-module model is qsort(cmp_int64) with cmp_int64 translated from
   sort.c (coq/Gen/Cmp_sortmod_gen.v). *)
From Coq Require Import ZArith List Bool Lia String.
From Coq Require Import ZifyBool.
From OV Require Import Base.CInt Emu.CmpPre Gen.Cmp_sortmod_gen Proofs.CmpBase Emu.SortDefs.
Import ListNotations.
Local Open Scope Z_scope.

Local Open Scope string_scope.
Lemma sortmod_prelude_as_modelled :
  cmp_int64_prelude = ["int64_t aa = *(const int64_t *) a"; "int64_t bb = *(const int64_t *) b"] /\
  cmp_int64_sig = "int (const void *, const void *) | const void * a, const void * b".
Proof. repeat split; reflexivity. Qed.
Local Close Scope string_scope.

Lemma cmp_int64_core_cmp3 a b : cmp_int64_core a b = cmp3 a b.
Proof. unfold cmp_int64_core. three. Qed.

Fixpoint insert_src (x : Z) (l : list Z) : list Z :=
  match l with
  | [] => [x]
  | y :: t => if cmp_int64_core x y <=? 0 then x :: y :: t else y :: insert_src x t
  end.
Fixpoint isort_src (l : list Z) : list Z :=
  match l with [] => [] | x :: r => insert_src x (isort_src r) end.

Lemma isort_from_source l : isort l = isort_src l.
Proof.
  induction l as [|x r IH]; cbn [isort isort_src]; [reflexivity|]. rewrite IH.
  generalize (isort_src r). intro s.
  induction s as [|y t IHs]; cbn [insert insert_src]; [reflexivity|].
  rewrite cmp_int64_core_cmp3, cmp3_le, IHs. reflexivity.
Qed.
