(* The mux callbacks on a well-formed two-level wiring: shape of the wiring (static), consistency of
   the per-channel callback lists with the enabled flags (dynamic), and what cb_select / cb_input do. *)
From Coq Require Import ZArith List Bool Lia PeanoNat.
From OV Require Import Emu.EmuCoreDefs Emu.BayDefs Proofs.EmitProofs Proofs.BayBasics.
Import ListNotations.
Local Open Scope nat_scope.

(* ---------------------------------------------------------------- shape (static) *)

(* Two levels, as built by track.c / model_thread.c / model_cpu.c: select and input channels are not
   outputs of any mux; outputs are unshared, single, DIRTY_WRITE + ALLOW_DUP; a select channel is
   never an input channel (thread state / CPU th_running vs. the models' raw channels). *)
Record Shape (b : bay) : Prop := {
  sh_len : length (b_dcbs b) = length (b_chans b);
  sh_sel : forall m mx, imux b m mx -> mx_sel mx < length (b_chans b) /\ ~ is_out b (mx_sel mx);
  sh_out : forall m mx, imux b m mx -> exists ch, chan_at b (mx_out mx) = Some ch /\ out_props ch;
  sh_ins : forall m mx i c, imux b m mx -> nth_error (mx_ins mx) i = Some c -> c < length (b_chans b) /\ ~ is_out b c;
  sh_en : forall m mx, imux b m mx -> length (mx_en mx) = length (mx_ins mx);
  sh_ins_nodup : forall m mx, imux b m mx -> NoDup (mx_ins mx);
  sh_out_inj : forall m m' mx mx', imux b m mx -> imux b m' mx' -> mx_out mx = mx_out mx' -> m = m';
  sh_sel_in : forall m m' mx mx' i, imux b m mx -> imux b m' mx' -> nth_error (mx_ins mx') i <> Some (mx_sel mx)
}.

Lemma mstat_fields mx mx' : mstat mx = mstat mx' ->
  mx_init mx = mx_init mx' /\ mx_sel mx = mx_sel mx' /\ mx_out mx = mx_out mx' /\ mx_fun mx = mx_fun mx' /\
  mx_def mx = mx_def mx' /\ mx_ins mx = mx_ins mx' /\ length (mx_en mx) = length (mx_en mx').
Proof. unfold mstat. intros H. inversion H. repeat split; assumption. Qed.

Lemma skel_imux b b' m mx' : skel b' = skel b -> imux b' m mx' -> exists mx, imux b m mx /\ mstat mx = mstat mx'.
Proof.
  intros Hs [H1 H2]. destruct (skel_mux _ _ _ _ Hs H1) as (mx & Hm & E). exists mx. split; [|exact E].
  split; [exact Hm|]. destruct (mstat_fields _ _ E) as (E1 & _). congruence.
Qed.

Lemma skel_sym_out b b' c : skel b' = skel b -> is_out b' c -> is_out b c.
Proof.
  intros Hs (m & mx' & Hi & Ho). destruct (skel_imux _ _ _ _ Hs Hi) as (mx & Hi' & E).
  destruct (mstat_fields _ _ E) as (_ & _ & E3 & _). exists m, mx. split; [exact Hi'|congruence].
Qed.

Lemma Shape_skel b b' : skel b' = skel b -> length (b_dcbs b') = length (b_dcbs b) -> Shape b -> Shape b'.
Proof.
  intros Hs Hl S. pose proof (skel_len_chans _ _ Hs) as Hlc.
  assert (Hs' : skel b = skel b') by (symmetry; exact Hs).
  constructor.
  - rewrite Hl, Hlc. apply (sh_len _ S).
  - intros m mx' Hi. destruct (skel_imux _ _ _ _ Hs Hi) as (mx & Hi' & E).
    destruct (mstat_fields _ _ E) as (_ & E2 & _). rewrite <- E2, Hlc.
    destruct (sh_sel _ S m mx Hi') as [A B]. split; [exact A|]. intros Ho. apply B. apply (skel_sym_out _ _ _ Hs Ho).
  - intros m mx' Hi. destruct (skel_imux _ _ _ _ Hs Hi) as (mx & Hi' & E).
    destruct (mstat_fields _ _ E) as (_ & _ & E3 & _). rewrite <- E3.
    destruct (sh_out _ S m mx Hi') as (ch & Hc & Hp).
    destruct (skel_chan b' b (mx_out mx) ch Hs' Hc) as (ch' & Hc' & Ep).
    exists ch'. split; [exact Hc'|]. unfold out_props, cprops in *. inversion Ep. destruct Hp as (P1 & P2 & P3). repeat split; congruence.
  - intros m mx' i c Hi Hn. destruct (skel_imux _ _ _ _ Hs Hi) as (mx & Hi' & E).
    destruct (mstat_fields _ _ E) as (_ & _ & _ & _ & _ & E6 & _). rewrite <- E6 in Hn. rewrite Hlc.
    destruct (sh_ins _ S m mx i c Hi' Hn) as [A B]. split; [exact A|]. intros Ho. apply B. apply (skel_sym_out _ _ _ Hs Ho).
  - intros m mx' Hi. destruct (skel_imux _ _ _ _ Hs Hi) as (mx & Hi' & E).
    destruct (mstat_fields _ _ E) as (_ & _ & _ & _ & _ & E6 & E7). rewrite <- E6, <- E7. apply (sh_en _ S m mx Hi').
  - intros m mx' Hi. destruct (skel_imux _ _ _ _ Hs Hi) as (mx & Hi' & E).
    destruct (mstat_fields _ _ E) as (_ & _ & _ & _ & _ & E6 & _). rewrite <- E6. apply (sh_ins_nodup _ S m mx Hi').
  - intros m m' mx1 mx2 Hi1 Hi2 Ho. destruct (skel_imux _ _ _ _ Hs Hi1) as (mxa & Hia & Ea).
    destruct (skel_imux _ _ _ _ Hs Hi2) as (mxb & Hib & Eb).
    destruct (mstat_fields _ _ Ea) as (_ & _ & A3 & _). destruct (mstat_fields _ _ Eb) as (_ & _ & B3 & _).
    apply (sh_out_inj _ S m m' mxa mxb Hia Hib). congruence.
  - intros m m' mx1 mx2 i Hi1 Hi2. destruct (skel_imux _ _ _ _ Hs Hi1) as (mxa & Hia & Ea).
    destruct (skel_imux _ _ _ _ Hs Hi2) as (mxb & Hib & Eb).
    destruct (mstat_fields _ _ Ea) as (_ & A2 & _). destruct (mstat_fields _ _ Eb) as (_ & _ & _ & _ & _ & B6 & _).
    rewrite <- B6, <- A2. apply (sh_sel_in _ S m m' mxa mxb i Hia Hib).
Qed.

(* ---------------------------------------------------------------- callback lists (dynamic) *)

Record Cbs (b : bay) : Prop := {
  g_sel : forall c m, In (DSelect m) (dcbs_of b c) <-> exists mx, imux b m mx /\ mx_sel mx = c;
  g_in : forall c m i, In (DInput m i) (dcbs_of b c) <->
                       exists mx, imux b m mx /\ nth_error (mx_ins mx) i = Some c /\ en_at mx i;
  g_res : forall c m, ~ In (DReselect m) (dcbs_of b c);
  g_nodup : forall c, NoDup (dcbs_of b c);
  g_one : forall m mx i, imux b m mx -> en_at mx i -> mx_selected mx = Some i;
  g_range : forall m mx i, imux b m mx -> mx_selected mx = Some i -> i < length (mx_ins mx)
}.

Lemma out_no_cbs b c : Shape b -> Cbs b -> is_out b c -> dcbs_of b c = [].
Proof.
  intros S G Ho. destruct (dcbs_of b c) as [|d l] eqn:E; [reflexivity|exfalso].
  assert (Hin : In d (dcbs_of b c)) by (rewrite E; left; reflexivity).
  destruct d as [m|m i|m].
  - apply (g_sel _ G) in Hin. destruct Hin as (mx & Hi & Hs). destruct (sh_sel _ S m mx Hi) as [_ B]. apply B. rewrite Hs. exact Ho.
  - apply (g_in _ G) in Hin. destruct Hin as (mx & Hi & Hn & _). destruct (sh_ins _ S m mx i c Hi Hn) as [_ B]. apply B. exact Ho.
  - apply (g_res _ G) in Hin. exact Hin.
Qed.

(* ---------------------------------------------------------------- the outcome of a select function *)

Lemma run_select_lt f n v i : run_select f n v = Ok (Some i) -> i < n.
Proof.
  unfold run_select. destruct v as [x|]; [|discriminate]. destruct f.
  - destruct ((x <? 0)%Z || (Z.of_nat n <=? x)%Z) eqn:E; [discriminate|]. intros H. inversion H.
    apply orb_false_iff in E. destruct E as [E1 E2]. apply Z.ltb_ge in E1. apply Z.leb_gt in E2. lia.
  - destruct (Nat.eqb n 1) eqn:E; cbn; [|discriminate]. apply Nat.eqb_eq in E. destruct (x =? 1)%Z; intros H; inversion H. lia.
  - destruct (Nat.eqb n 1) eqn:E; cbn; [|discriminate]. apply Nat.eqb_eq in E.
    destruct ((x =? 1)%Z || (x =? 4)%Z || (x =? 5)%Z); intros H; inversion H. lia.
  - discriminate.
Qed.

Lemma run_select_in_lt b mx v i : run_select_in b mx v = Ok (Some i) -> i < length (mx_ins mx).
Proof.
  unfold run_select_in. destruct (mx_fun mx) as [| | |g]; try apply run_select_lt.
  destruct (g (input_values b mx) v) as [[j|]|]; try discriminate.
  destruct (Nat.ltb j (length (mx_ins mx))) eqn:E; [|discriminate]. intros H. inversion H; subst. apply Nat.ltb_lt. exact E.
Qed.

Lemma run_select_in_chans b b' mx v : b_chans b' = b_chans b -> run_select_in b' mx v = run_select_in b mx v.
Proof. intros H. unfold run_select_in, input_values. rewrite H. reflexivity. Qed.

(* ---------------------------------------------------------------- one mux changes its enabled inputs *)

(* b' is b where mux m became mx' (same static part) and the callback lists changed only in the
   cb_input's of m, which are exactly the enabled ones of mx' *)
Record MuxUpd (b b' : bay) (m : nat) (mx mx' : mux) : Prop := {
  mu_chans : b_chans b' = b_chans b;
  mu_dirty : b_dirty b' = b_dirty b;
  mu_skel : skel b' = skel b;
  mu_len : length (b_dcbs b') = length (b_dcbs b);
  mu_m : mux_at b' m = Some mx';
  mu_stat : mstat mx' = mstat mx;
  mu_other : forall m', m' <> m -> mux_at b' m' = mux_at b m';
  mu_cbs_other : forall c d, (forall j, d <> DInput m j) -> (In d (dcbs_of b' c) <-> In d (dcbs_of b c));
  mu_cbs_m : forall c j, In (DInput m j) (dcbs_of b' c) <-> nth_error (mx_ins mx') j = Some c /\ en_at mx' j;
  mu_nodup : forall c, NoDup (dcbs_of b' c);
  mu_same : forall c, (forall j, nth_error (mx_ins mx) j <> Some c) -> dcbs_of b' c = dcbs_of b c
}.

Lemma imux_upd b b' m mx mx' m0 mx0 : imux b m mx -> MuxUpd b b' m mx mx' ->
  imux b' m0 mx0 -> (m0 = m /\ mx0 = mx') \/ (m0 <> m /\ imux b m0 mx0).
Proof.
  intros Hi U [H1 H2]. destruct (Nat.eq_dec m0 m) as [->|Hne].
  - left. split; [reflexivity|]. rewrite (mu_m _ _ _ _ _ U) in H1. congruence.
  - right. split; [exact Hne|]. rewrite (mu_other _ _ _ _ _ U m0 Hne) in H1. split; assumption.
Qed.

Lemma imux_upd_m b b' m mx mx' : imux b m mx -> MuxUpd b b' m mx mx' -> imux b' m mx'.
Proof.
  intros [H1 H2] U. split; [apply (mu_m _ _ _ _ _ U)|].
  destruct (mstat_fields _ _ (mu_stat _ _ _ _ _ U)) as (E1 & _). congruence.
Qed.

Lemma imux_upd_other b b' m mx mx' m0 mx0 : MuxUpd b b' m mx mx' -> m0 <> m -> imux b m0 mx0 -> imux b' m0 mx0.
Proof. intros U Hne [H1 H2]. split; [rewrite (mu_other _ _ _ _ _ U m0 Hne); exact H1|exact H2]. Qed.

Lemma Cbs_upd b b' m mx mx' :
  Cbs b -> imux b m mx -> MuxUpd b b' m mx mx' ->
  (forall j, en_at mx' j -> mx_selected mx' = Some j) ->
  (forall j, mx_selected mx' = Some j -> j < length (mx_ins mx')) ->
  Cbs b'.
Proof.
  intros G Hi U Hone Hrange.
  destruct (mstat_fields _ _ (mu_stat _ _ _ _ _ U)) as (E1 & E2 & E3 & E4 & E5 & E6 & E7).
  pose proof (imux_upd_m _ _ _ _ _ Hi U) as Hi'.
  constructor.
  - intros c m0. rewrite (mu_cbs_other _ _ _ _ _ U c (DSelect m0)) by (intros j; discriminate).
    rewrite (g_sel _ G). split.
    + intros (mx0 & Hi0 & Hs). destruct (Nat.eq_dec m0 m) as [->|Hne].
      * exists mx'. split; [exact Hi'|]. destruct Hi as [A _], Hi0 as [B _]. rewrite A in B. inversion B; subst. congruence.
      * exists mx0. split; [apply (imux_upd_other _ _ _ _ _ _ _ U Hne Hi0)|exact Hs].
    + intros (mx0 & Hi0 & Hs). destruct (imux_upd _ _ _ _ _ _ _ Hi U Hi0) as [[-> ->]|[Hne Hi1]].
      * exists mx. split; [exact Hi|congruence].
      * exists mx0. split; assumption.
  - intros c m0 i. destruct (Nat.eq_dec m0 m) as [->|Hne].
    + rewrite (mu_cbs_m _ _ _ _ _ U). split.
      * intros [A B]. exists mx'. repeat split; try assumption; apply Hi'.
      * intros (mx0 & Hi0 & A & B). destruct (imux_upd _ _ _ _ _ _ _ Hi U Hi0) as [[_ ->]|[Hne _]]; [split; assumption|congruence].
    + rewrite (mu_cbs_other _ _ _ _ _ U c (DInput m0 i)) by (intros j H; inversion H; congruence).
      rewrite (g_in _ G). split.
      * intros (mx0 & Hi0 & A & B). exists mx0. split; [apply (imux_upd_other _ _ _ _ _ _ _ U Hne Hi0)|split; assumption].
      * intros (mx0 & Hi0 & A & B). destruct (imux_upd _ _ _ _ _ _ _ Hi U Hi0) as [[-> _]|[_ Hi1]]; [congruence|].
        exists mx0. repeat split; try assumption; apply Hi1.
  - intros c m0 Hin. apply (mu_cbs_other _ _ _ _ _ U c (DReselect m0)) in Hin; [|intros j; discriminate].
    apply (g_res _ G c m0 Hin).
  - apply (mu_nodup _ _ _ _ _ U).
  - intros m0 mx0 i Hi0 He. destruct (imux_upd _ _ _ _ _ _ _ Hi U Hi0) as [[-> ->]|[Hne Hi1]].
    + apply Hone. exact He.
    + apply (g_one _ G m0 mx0 i Hi1 He).
  - intros m0 mx0 i Hi0 He. destruct (imux_upd _ _ _ _ _ _ _ Hi U Hi0) as [[-> ->]|[Hne Hi1]].
    + apply Hrange. exact He.
    + apply (g_range _ G m0 mx0 i Hi1 He).
Qed.

Lemma MuxUpd_refl b m mx : Cbs b -> imux b m mx -> MuxUpd b b m mx mx.
Proof.
  intros G Hi. constructor; try reflexivity; try tauto.
  - apply Hi.
  - intros c j. rewrite (g_in _ G). split.
    + intros (mx0 & [A _] & B & C). destruct Hi as [A' _]. rewrite A' in A. inversion A; subst. split; assumption.
    + intros [A B]. exists mx. repeat split; try assumption; apply Hi.
  - apply (g_nodup _ G).
Qed.

(* en flags after update *)
Lemma en_at_update en i j v : i < length en ->
  (nth_error (update en i v) j = Some true <-> (j = i /\ v = true) \/ (j <> i /\ nth_error en j = Some true)).
Proof.
  intros Hlt. destruct (Nat.eq_dec j i) as [->|Hne].
  - rewrite nth_error_update_same by exact Hlt. split.
    + intros H. inversion H. left. split; reflexivity.
    + intros [[_ ->]|[H _]]; [reflexivity|congruence].
  - rewrite nth_error_update_other by congruence. split.
    + intros H. right. split; assumption.
    + intros [[H _]|[_ H]]; [congruence|exact H].
Qed.

(* the set_dcbs + set_mux combination used by enable / disable *)
Lemma MuxUpd_step b m mx en' c l :
  Shape b -> Cbs b -> imux b m mx -> c < length (b_chans b) ->
  length en' = length (mx_en mx) ->
  (exists j, nth_error (mx_ins mx) j = Some c) ->
  NoDup l ->
  (forall d, (forall j, d <> DInput m j) -> (In d l <-> In d (dcbs_of b c))) ->
  (forall j, In (DInput m j) l <-> nth_error (mx_ins mx) j = Some c /\ nth_error en' j = Some true) ->
  (forall j c', c' <> c -> nth_error (mx_ins mx) j = Some c' -> (nth_error en' j = Some true <-> en_at mx j)) ->
  MuxUpd b (set_dcbs (set_mux b m (mux_with_en mx en')) c l) m mx (mux_with_en mx en').
Proof.
  intros S G Hi Hc Hlen Hcin Hnd Hoth Hm Hrest.
  assert (Hlm : m < length (b_muxes b)) by (apply (nth_error_Some_lt _ _ mx); apply Hi).
  assert (Hld : c < length (b_dcbs b)) by (rewrite (sh_len _ S); exact Hc).
  constructor.
  - reflexivity.
  - reflexivity.
  - rewrite skel_set_dcbs. apply (skel_set_mux b m _ mx); [apply Hi|apply mstat_with_en; exact Hlen].
  - unfold set_dcbs. cbn. apply length_update.
  - unfold mux_at, set_dcbs. cbn. apply nth_error_update_same. exact Hlm.
  - apply mstat_with_en. exact Hlen.
  - intros m' Hne. unfold mux_at, set_dcbs. cbn. apply nth_error_update_other. congruence.
  - intros c0 d Hd. destruct (Nat.eq_dec c0 c) as [->|Hne].
    + rewrite dcbs_of_set_dcbs_same by exact Hld. apply Hoth. exact Hd.
    + rewrite dcbs_of_set_dcbs_other by congruence. reflexivity.
  - intros c0 j. cbn [mux_with_en mx_ins mx_en]. unfold en_at. cbn [mux_with_en mx_en].
    destruct (Nat.eq_dec c0 c) as [->|Hne].
    + rewrite dcbs_of_set_dcbs_same by exact Hld. apply Hm.
    + rewrite dcbs_of_set_dcbs_other by congruence.
      change (dcbs_of (set_mux b m (mux_with_en mx en')) c0) with (dcbs_of b c0).
      rewrite (g_in _ G). split.
      * intros (mx0 & [A _] & B & Cc). destruct Hi as [A' _]. rewrite A' in A. inversion A; subst mx0.
        split; [exact B|]. apply (Hrest j c0 Hne B). exact Cc.
      * intros [A B]. exists mx. split; [exact Hi|]. split; [exact A|]. apply (Hrest j c0 Hne A). exact B.
  - intros c0. destruct (Nat.eq_dec c0 c) as [->|Hne].
    + rewrite dcbs_of_set_dcbs_same by exact Hld. exact Hnd.
    + rewrite dcbs_of_set_dcbs_other by congruence. apply (g_nodup _ G).
  - intros c0 Hno. destruct (Nat.eq_dec c0 c) as [->|Hne].
    + destruct Hcin as [j Hj]. exfalso. apply (Hno j Hj).
    + rewrite dcbs_of_set_dcbs_other by congruence. reflexivity.
Qed.

Lemma MuxUpd_trans b b1 b2 m mx mx1 mx2 :
  MuxUpd b b1 m mx mx1 -> MuxUpd b1 b2 m mx1 mx2 -> MuxUpd b b2 m mx mx2.
Proof.
  intros U1 U2.
  destruct (mstat_fields _ _ (mu_stat _ _ _ _ _ U1)) as (_ & _ & _ & _ & _ & E6 & _).
  constructor.
  - rewrite (mu_chans _ _ _ _ _ U2). apply (mu_chans _ _ _ _ _ U1).
  - rewrite (mu_dirty _ _ _ _ _ U2). apply (mu_dirty _ _ _ _ _ U1).
  - rewrite (mu_skel _ _ _ _ _ U2). apply (mu_skel _ _ _ _ _ U1).
  - rewrite (mu_len _ _ _ _ _ U2). apply (mu_len _ _ _ _ _ U1).
  - apply (mu_m _ _ _ _ _ U2).
  - rewrite (mu_stat _ _ _ _ _ U2). apply (mu_stat _ _ _ _ _ U1).
  - intros m' Hne. rewrite (mu_other _ _ _ _ _ U2 m' Hne). apply (mu_other _ _ _ _ _ U1 m' Hne).
  - intros c d Hd. rewrite (mu_cbs_other _ _ _ _ _ U2 c d Hd). apply (mu_cbs_other _ _ _ _ _ U1 c d Hd).
  - apply (mu_cbs_m _ _ _ _ _ U2).
  - apply (mu_nodup _ _ _ _ _ U2).
  - intros c Hno. rewrite (mu_same _ _ _ _ _ U2 c); [apply (mu_same _ _ _ _ _ U1 c Hno)|].
    rewrite E6. exact Hno.
Qed.

Lemma MuxUpd_selected b b' m mx mx' s :
  MuxUpd b b' m mx mx' -> MuxUpd b (set_selected b' m s) m mx (mux_with_selected mx' s).
Proof.
  intros U. unfold set_selected. pose proof (mu_m _ _ _ _ _ U) as Hm. unfold mux_at in Hm. rewrite Hm.
  assert (Hlm : m < length (b_muxes b')) by (apply (nth_error_Some_lt _ _ mx'); exact Hm).
  constructor.
  - apply (mu_chans _ _ _ _ _ U).
  - apply (mu_dirty _ _ _ _ _ U).
  - rewrite (skel_set_mux b' m _ mx' Hm); [apply (mu_skel _ _ _ _ _ U)|reflexivity].
  - apply (mu_len _ _ _ _ _ U).
  - apply mux_at_set_mux_same. exact Hlm.
  - apply (mu_stat _ _ _ _ _ U).
  - intros m' Hne. rewrite mux_at_set_mux_other by congruence. apply (mu_other _ _ _ _ _ U m' Hne).
  - apply (mu_cbs_other _ _ _ _ _ U).
  - apply (mu_cbs_m _ _ _ _ _ U).
  - apply (mu_nodup _ _ _ _ _ U).
  - apply (mu_same _ _ _ _ _ U).
Qed.

(* ---------------------------------------------------------------- disable the previous input *)

Definition no_en (mx : mux) : Prop := forall j, ~ en_at mx j.

Lemma clear_previous b m mx :
  Shape b -> Cbs b -> imux b m mx ->
  exists b1 mx1,
    match mx_selected mx with
    | Some old => match disable_input b m old with Ok b1 => Ok (set_selected b1 m None) | Err e => Err e end
    | None => Ok b
    end = Ok b1 /\
    MuxUpd b b1 m mx mx1 /\ no_en mx1 /\ mx_selected mx1 = None.
Proof.
  intros S G Hi. destruct (mx_selected mx) as [old|] eqn:Hsel.
  - pose proof (g_range _ G m mx old Hi Hsel) as Hr.
    pose proof (sh_en _ S m mx Hi) as Hlen.
    unfold disable_input. destruct Hi as [Hm Hinit]. unfold mux_at in Hm. rewrite Hm.
    destruct (nth_error (mx_en mx) old) as [en|] eqn:Hen.
    2:{ apply nth_error_None in Hen. lia. }
    destruct (nth_error (mx_ins mx) old) as [c|] eqn:Hin.
    2:{ apply nth_error_None in Hin. lia. }
    assert (Hi : imux b m mx) by (split; assumption).
    destruct en.
    + (* enabled: remove its callback *)
      set (en' := update (mx_en mx) old false).
      set (l := remove_dcb (DInput m old) (dcbs_of b c)).
      assert (U : MuxUpd b (set_dcbs (set_mux b m (mux_with_en mx en')) c l) m mx (mux_with_en mx en')).
      { apply MuxUpd_step; try assumption.
        - apply (sh_ins _ S m mx old c Hi Hin).
        - apply length_update.
        - exists old. exact Hin.
        - apply nodup_remove_dcb. apply (g_nodup _ G).
        - intros d Hd. unfold l. rewrite in_remove_dcb by apply (g_nodup _ G). split; [tauto|].
          intros H. split; [exact H|]. apply Hd.
        - intros j. unfold l, en'. rewrite in_remove_dcb by apply (g_nodup _ G).
          rewrite en_at_update by lia. rewrite (g_in _ G). split.
          + intros [(mx0 & [A _] & B & Cc) Hne]. unfold mux_at in A; rewrite Hm in A. inversion A; subst mx0.
            split; [exact B|]. right. split; [congruence|exact Cc].
          + intros [A [[_ B]|[B Cc]]]; [discriminate|]. split; [|congruence].
            exists mx. repeat split; assumption.
        - intros j c' Hne Hj. unfold en'. rewrite en_at_update by lia. unfold en_at. split.
          + intros [[_ H]|[_ H]]; [discriminate|exact H].
          + intros H. right. split; [|exact H]. intros ->. congruence. }
      eexists. eexists. split; [reflexivity|]. split; [apply MuxUpd_selected; exact U|]. split.
      * intros j He. unfold en_at in He. cbn [mux_with_selected mux_with_en mx_en] in He. unfold en' in He.
        apply en_at_update in He; [|lia]. destruct He as [[_ He]|[Hne He]]; [discriminate|].
        pose proof (g_one _ G m mx j Hi He). congruence.
      * reflexivity.
    + (* already disabled: nothing is enabled at all *)
      eexists. eexists. split; [reflexivity|]. split; [apply MuxUpd_selected; apply MuxUpd_refl; assumption|].
      split; [|reflexivity].
      intros j He. unfold en_at in He. cbn [mux_with_selected mx_en] in He.
      pose proof (g_one _ G m mx j Hi He) as H. rewrite Hsel in H. inversion H; subst. congruence.
  - exists b, mx. split; [reflexivity|]. split; [apply MuxUpd_refl; assumption|]. split; [|exact Hsel].
    intros j He. pose proof (g_one _ G m mx j Hi He). congruence.
Qed.

(* ---------------------------------------------------------------- enable the new input *)

Definition only_en (mx : mux) (i : nat) : Prop := forall j, en_at mx j <-> j = i.

Lemma select_new b m mx i :
  Shape b -> Cbs b -> imux b m mx -> no_en mx -> i < length (mx_ins mx) ->
  exists b2 mx2,
    enable_input b m i = Ok b2 /\
    MuxUpd b (set_selected b2 m (Some i)) m mx mx2 /\ only_en mx2 i /\ mx_selected mx2 = Some i.
Proof.
  intros S G Hi Hno Hr. pose proof (sh_en _ S m mx Hi) as Hlen.
  unfold enable_input. destruct Hi as [Hm Hinit]. unfold mux_at in Hm. rewrite Hm.
  destruct (nth_error (mx_en mx) i) as [en|] eqn:Hen.
  2:{ apply nth_error_None in Hen. lia. }
  destruct (nth_error (mx_ins mx) i) as [c|] eqn:Hin.
  2:{ apply nth_error_None in Hin. lia. }
  assert (Hi : imux b m mx) by (split; assumption).
  destruct en; [exfalso; apply (Hno i); exact Hen|].
  set (en' := update (mx_en mx) i true).
  set (l := dcbs_of b c ++ [DInput m i]).
  assert (Hnotin : forall j, ~ In (DInput m j) (dcbs_of b c)).
  { intros j H. apply (g_in _ G) in H. destruct H as (mx0 & [A _] & B & Cc). unfold mux_at in A; rewrite Hm in A. inversion A; subst. apply (Hno j Cc). }
  assert (U : MuxUpd b (set_dcbs (set_mux b m (mux_with_en mx en')) c l) m mx (mux_with_en mx en')).
  { apply MuxUpd_step; try assumption.
    - apply (sh_ins _ S m mx i c Hi Hin).
    - apply length_update.
    - exists i. exact Hin.
    - unfold l. apply NoDup_app_single'; [apply (g_nodup _ G)|apply Hnotin].
    - intros d Hd. unfold l. rewrite in_app_iff. cbn. split; [intros [H|[H|[]]]; [exact H|exfalso; apply (Hd i); congruence]|tauto].
    - intros j. unfold l, en'. rewrite in_app_iff, en_at_update by lia. cbn. split.
      + intros [H|[H|[]]]; [exfalso; apply (Hnotin j H)|]. inversion H; subst. split; [exact Hin|left; split; reflexivity].
      + intros [A [[-> _]|[_ B]]]; [right; left; reflexivity|exfalso; apply (Hno j B)].
    - intros j c' Hne Hj. unfold en'. rewrite en_at_update by lia. unfold en_at. split.
      + intros [[-> _]|[_ H]]; [congruence|exact H].
      + intros H. exfalso. apply (Hno j H). }
  eexists. eexists. split; [reflexivity|]. split; [apply MuxUpd_selected; exact U|]. split; [|reflexivity].
  intros j. unfold en_at. cbn [mux_with_selected mux_with_en mx_en]. unfold en'. rewrite en_at_update by lia. split.
  - intros [[-> _]|[_ H]]; [reflexivity|exfalso; apply (Hno j H)].
  - intros ->. left. split; reflexivity.
Qed.
