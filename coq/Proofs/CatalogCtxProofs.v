(* C18: every listed event is processed in a legal context (by running the model on one context per event). *)
From Coq Require Import ZArith List Bool.
From OV Require Import Emu.EmuCoreDefs Emu.CatalogCtxDefs.
From OV Require Gen.Tables_gen.
Import ListNotations.
Local Open Scope Z_scope.

Lemma unprocessed_nil : unprocessed = [].
Proof. vm_compute. reflexivity. Qed.

Lemma flat_map_nil {A B} (f : A -> list B) (l : list A) : flat_map f l = [] -> forall x, In x l -> f x = [].
Proof.
  induction l as [|a l IH]; cbn [flat_map]; intros H x Hx; [contradiction|].
  apply app_eq_nil in H as [Ha Hl]. destruct Hx as [<-|Hx]; [exact Ha|now apply IH].
Qed.

Theorem listed_processed m sig desc :
  In (m, sig, desc) Tables_gen.evdescs -> processed m (nth 1 sig 0) (nth 2 sig 0) = true.
Proof.
  intros Hin. pose proof (flat_map_nil _ _ unprocessed_nil (m, sig, desc) Hin) as H. cbv beta iota zeta in H.
  destruct (processed m (nth 1 sig 0) (nth 2 sig 0)); [reflexivity|discriminate H].
Qed.
