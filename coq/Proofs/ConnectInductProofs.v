(* First step of the induction over the number of threads for the wiring theorems: the first loop of
   ConnectProofs.sys_state (system.c: thread_init_end of every thread) for EVERY number of threads, in closed form. *)
From Coq Require Import ZArith List Bool Lia String.
From OV Require Import Base.CInt Emu.EmuCoreDefs Emu.ConnectPre.
From OV Require Gen.Connect_gen Proofs.ConnectProofs Proofs.ConnectComposeProofs.
Import ListNotations.

Module G := Connect_gen.
Module CP := ConnectProofs.
Module CC := ConnectComposeProofs.

Lemma find_set_other l a b y : caddr_eqb b a = false ->
  find (fun e => caddr_eqb (fst e) a) (pend_set l b y) = find (fun e : caddr * (bool * bool * bool) => caddr_eqb (fst e) a) l.
Proof.
  intros Hne. induction l as [|[d z] r IH]; cbn; [rewrite Hne; reflexivity|].
  destruct (caddr_eqb d b) eqn:E; cbn.
  - apply CC.caddr_eqb_eq in E. subst d. rewrite Hne. reflexivity.
  - destruct (caddr_eqb d a); [reflexivity|exact IH].
Qed.
Lemma find_set_same l a x : find (fun e => caddr_eqb (fst e) a) (pend_set l a x) = Some (a, x).
Proof.
  induction l as [|[d z] r IH]; cbn; [rewrite CC.caddr_eqb_refl; reflexivity|].
  destruct (caddr_eqb d a) eqn:E; cbn; [rewrite CC.caddr_eqb_refl; reflexivity|rewrite E; exact IH].
Qed.

(* what thread_init_end(t) does to the table of chan_init'ed objects: the three system channels of thread t are
   initialised SINGLE, then the TID channel gets IGNORE_DUP *)
Definition z3 : bool * bool * bool := (false, false, false).
Definition th_pend (t : nat) (l : list (caddr * (bool * bool * bool))) :=
  pend_set (pend_set (pend_set (pend_set l (ASysTh t 0) z3) (ASysTh t 1) z3) (ASysTh t 2) z3) (ASysTh t 1) (false, false, true).
Definition th_inited_step (st : cstate) (t : nat) : cstate :=
  with_inited (with_pend st (th_pend t (cs_pend st))) ((false, t) :: cs_inited st).

Lemma thread_init_end_step sx st t :
  G.thread_init_end (Some t) sx st = Ok (tt, th_inited_step st t).
Proof.
  unfold G.thread_init_end, need, bind_. unfold bind, eval, ite, fail, ret.
  cbn [is_null negb get_thread__gindex get_thread__meta].
  assert (E : (Z.of_nat t <? 0)%Z = false) by (apply Z.ltb_ge; lia). rewrite E.
  unfold for_range, zrange. change (Z.to_nat (G.c_TH_CHAN_MAX - 0)) with 3%nat.
  cbn [seq map for_list Z.add Z.of_nat Pos.of_succ_nat Pos.succ]. unfold bind, ret.
  unfold chan_init, addr_thread_chan_at. change (cast_uint32 G.c_CHAN_SINGLE =? T_STACK)%Z with false.
  cbn [Z.to_nat Pos.to_nat Pos.iter_op Nat.add cs_pend with_pend].
  change (Z.to_nat G.c_TH_CHAN_TID) with 1%nat.
  unfold chan_prop_set, pend_get. cbn [cs_pend with_pend].
  rewrite find_set_other by (cbn; rewrite Nat.eqb_refl; reflexivity). rewrite find_set_same.
  change (cast_uint32 G.c_CHAN_IGNORE_DUP =? P_ALLOW_DUP)%Z with false. change (cast_uint32 G.c_CHAN_IGNORE_DUP =? P_IGNORE_DUP)%Z with true.
  cbn [Z.eqb negb]. unfold set_thread_is_init. cbn [Z.eqb].
  unfold th_inited_step, th_pend, z3. destruct st; reflexivity.
Qed.

(* the loop, for EVERY number of threads n (and every first index k, every start state).  Induction on n, generalised over
   k and the start state; induction hypothesis: the loop over seq (S k) n from ANY state st' is Ok (fold_left th_inited_step
   (seq (S k) n) st'); the step is thread_init_end_step, which holds in every state. *)
Theorem thread_init_loop (sx : static) : forall n k st,
  CP.fold_res (fun st t => CP.run1 sx (G.thread_init_end (Some t)) st) (seq k n) st = Ok (fold_left th_inited_step (seq k n) st).
Proof.
  induction n as [|n IH]; intros k st; [reflexivity|].
  cbn [seq CP.fold_res fold_left]. unfold CP.run1 at 1. rewrite thread_init_end_step. apply IH.
Qed.

(* what the closed form says: after the loop over n threads, the three system channels of every thread t < n are
   chan_init'ed SINGLE, the TID channel with IGNORE_DUP, and thread t is marked initialised; the bay is untouched *)
Lemma fold_bay n : forall k st, cs_bay (fold_left th_inited_step (seq k n) st) = cs_bay st.
Proof. induction n as [|n IH]; intros k st; [reflexivity|]. cbn [seq fold_left]. rewrite IH. destruct st; reflexivity. Qed.

Lemma th_pend_get_other l t a : (forall w, caddr_eqb (ASysTh t w) a = false) ->
  find (fun e => caddr_eqb (fst e) a) (th_pend t l) = find (fun e : caddr * (bool * bool * bool) => caddr_eqb (fst e) a) l.
Proof. intros H. unfold th_pend. rewrite !find_set_other by apply H. reflexivity. Qed.

Lemma th_pend_get l t w : (w < 3)%nat ->
  find (fun e => caddr_eqb (fst e) (ASysTh t w)) (th_pend t l) = Some (ASysTh t w, (false, false, Nat.eqb w 1)).
Proof.
  intros Hw. unfold th_pend. destruct w as [|[|[|w]]]; try lia.
  - rewrite !find_set_other by (cbn; rewrite Nat.eqb_refl; reflexivity). apply find_set_same.
  - apply find_set_same.
  - rewrite find_set_other by (cbn; rewrite Nat.eqb_refl; reflexivity). apply find_set_same.
Qed.

Theorem thread_init_loop_pend n : forall k st t w, (k <= t < k + n)%nat -> (w < 3)%nat ->
  pend_get (fold_left th_inited_step (seq k n) st) (ASysTh t w) = Some (false, false, Nat.eqb w 1).
Proof.
  induction n as [|n IH]; intros k st t w Ht Hw; [lia|]. cbn [seq fold_left].
  destruct (Nat.eq_dec t k) as [->|Hne].
  - (* later iterations do not touch thread k *)
    assert (Hkeep : forall m j s, (k < j)%nat ->
              pend_get (fold_left th_inited_step (seq j m) s) (ASysTh k w) = pend_get s (ASysTh k w)).
    { induction m as [|m IHm]; intros j s Hj; [reflexivity|]. cbn [seq fold_left]. rewrite IHm by lia.
      unfold pend_get, th_inited_step. cbn [cs_pend with_pend with_inited].
      rewrite th_pend_get_other; [reflexivity|].
      intros w'. cbn. assert (E : Nat.eqb j k = false) by (apply Nat.eqb_neq; lia). rewrite E. reflexivity. }
    rewrite Hkeep by lia. unfold pend_get, th_inited_step. cbn [cs_pend with_pend with_inited].
    rewrite th_pend_get by exact Hw. reflexivity.
  - apply IH; [lia|exact Hw].
Qed.
