(* C13: the events the decoders produce only carry labelled values; the dumped channel specs satisfy the static conditions. *)
From Coq Require Import ZArith List Bool Lia.
From OV Require Import Emu.EmuCoreDefs Emu.DecodeDefs Emu.MarkDefs Emu.LabelDefs Emu.TableFactsDefs Proofs.EmuCoreProofs Proofs.EmuCoreWf
  Proofs.LabelProofs.
From OV Require Gen.Tables_gen.
Import ListNotations.
Local Open Scope Z_scope.

Lemma chan_pos_from_spec cs m i : forall g k,
  chan_pos_from cs m i g = Some k ->
  (g <= k < g + length cs)%nat /\ cs_model (nth (k - g) cs null_spec) = m /\ cs_index (nth (k - g) cs null_spec) = i.
Proof.
  induction cs as [|sp r IH]; intros g k H; cbn [chan_pos_from] in H; [discriminate|].
  destruct ((cs_model sp =? m) && (cs_index sp =? i)) eqn:E.
  - injection H as <-. apply andb_prop in E as [Em Ei]. apply Z.eqb_eq in Em, Ei. rewrite Nat.sub_diag. cbn [nth length]. repeat split; auto; lia.
  - destruct (IH _ _ H) as (Hr & Hm & Hi). cbn [length]. split; [lia|].
    replace (k - g)%nat with (S (k - S g)) by lia. cbn [nth]. auto.
Qed.

Lemma chan_pos_spec cs m i k :
  chan_pos cs m i = Some k -> (k < length cs)%nat /\ cs_model (nth k cs null_spec) = m /\ cs_index (nth k cs null_spec) = i.
Proof.
  unfold chan_pos. intros H. destruct (chan_pos_from_spec _ _ _ _ _ H) as (Hr & Hm & Hi). rewrite Nat.sub_0_r in *. split; [lia|auto].
Qed.

(* value x is fine on the channel (m, i) whatever the task types are *)
Definition mi_ok (m i x : Z) : bool := negb (type_chan m i) && (negb (static_chan m i) || static_labelled m i x).
Definition mi_plain (m i : Z) : bool := negb (type_chan m i) && negb (static_chan m i).

Lemma mi_ok_static sx k m i x :
  cs_model (spec_of sx k) = m -> cs_index (spec_of sx k) = i -> mi_ok m i x = true -> chan_static_ok sx k x.
Proof.
  intros Hm Hi H. unfold chan_static_ok. cbv zeta. rewrite Hm, Hi. unfold mi_ok in H.
  apply andb_prop in H as [Ht Hs]. apply negb_true_iff in Ht. split; [exact Ht|]. intros E. rewrite E in Hs. exact Hs.
Qed.

Definition row_ok (row : Z * Z * Z * Z * Tables_gen.action * Z) : bool :=
  let '(m, c, v, ch, a, x) := row in match a with Tables_gen.IGN => true | _ => mi_ok m ch x end.

Lemma table_rows_ok : forallb row_ok Tables_gen.table = true.
Proof. vm_compute. reflexivity. Qed.

Lemma table_lookup_ok tb m c v ch a x :
  forallb row_ok tb = true -> table_lookup tb m c v = Some (ch, a, x) -> conv_action a = IGN \/ mi_ok m ch x = true.
Proof.
  induction tb as [|[[[[[m' c'] v'] ch'] a'] x'] tb IH]; cbn [table_lookup forallb]; intros F H; [discriminate|].
  apply andb_prop in F as [F0 F]. destruct ((m =? m') && (c =? c') && (v =? v')) eqn:E.
  - injection H as <- <- <-. apply andb_prop in E as [E _]. apply andb_prop in E as [Em _]. apply Z.eqb_eq in Em. subst.
    cbn [row_ok] in F0. destruct a'; cbn [conv_action]; auto.
  - now apply IH.
Qed.

Lemma fixed_values_ok :
  mi_ok M_OVNI Tables_gen.c_ovni_CH_FLUSH Tables_gen.c_ovni_ST_FLUSHING = true /\
  mi_ok M_KERNEL Tables_gen.c_kernel_CH_CS Tables_gen.c_kernel_ST_CSOUT = true /\
  mi_ok M_NOSV Tables_gen.c_nosv_CH_SUBSYSTEM Tables_gen.c_nosv_ST_TASK_BODY = true /\
  mi_ok M_NANOS6 Tables_gen.c_nanos6_CH_SUBSYSTEM Tables_gen.c_nanos6_ST_TASK_BODY = true /\
  forallb (fun i => mi_plain M_NOSV i) [Tables_gen.c_nosv_CH_BODYID; Tables_gen.c_nosv_CH_TASKID; Tables_gen.c_nosv_CH_APPID; Tables_gen.c_nosv_CH_RANK] = true /\
  forallb (fun i => mi_plain M_NANOS6 i) [Tables_gen.c_nanos6_CH_TASKID; Tables_gen.c_nanos6_CH_RANK] = true /\
  static_chan M_NOSV Tables_gen.c_nosv_CH_TYPE = false /\ static_chan M_NANOS6 Tables_gen.c_nanos6_CH_TYPE = false.
Proof. vm_compute. repeat split. Qed.

Lemma static_chan_models m i : static_chan m i = true -> In m (map (fun '(m', _, _) => m') Tables_gen.labels).
Proof.
  unfold static_chan. rewrite existsb_exists. intros [[[m' i'] x'] [Hin E]]. apply andb_prop in E as [Em _]. apply Z.eqb_eq in Em. subst.
  apply in_map_iff. exists (m', i', x'). auto.
Qed.

Lemma mark_model_plain i x : mi_ok MARK_MODEL i x = true.
Proof.
  unfold mi_ok. assert (T : type_chan MARK_MODEL i = false) by reflexivity. rewrite T. cbn [negb andb].
  destruct (static_chan MARK_MODEL i) eqn:E; [|reflexivity]. exfalso. apply static_chan_models in E.
  revert E. vm_compute. intuition discriminate.
Qed.

(* the channels the task handlers write exist when their model is enabled *)
Definition nosv_fields : list Z :=
  [Tables_gen.c_nosv_CH_SUBSYSTEM; Tables_gen.c_nosv_CH_BODYID; Tables_gen.c_nosv_CH_TASKID; Tables_gen.c_nosv_CH_TYPE;
   Tables_gen.c_nosv_CH_APPID; Tables_gen.c_nosv_CH_RANK].
Definition nanos6_fields : list Z :=
  [Tables_gen.c_nanos6_CH_SUBSYSTEM; Tables_gen.c_nanos6_CH_TASKID; Tables_gen.c_nanos6_CH_TYPE; Tables_gen.c_nanos6_CH_RANK].

Definition foundb (cs : list chanspec) (m : Z) (l : list Z) : bool :=
  forallb (fun i => match chan_pos cs m i with Some _ => true | None => false end) l.

Definition tasks_found (en : list Z) (cs : list chanspec) : Prop :=
  (memz M_NOSV en = true -> foundb cs M_NOSV nosv_fields = true) /\
  (memz M_NANOS6 en = true -> foundb cs M_NANOS6 nanos6_fields = true).

Lemma chan_of_found sx m i :
  (match chan_pos (s_chans sx) m i with Some _ => true | None => false end) = true ->
  cs_model (spec_of sx (chan_of (s_chans sx) m i)) = m /\ cs_index (spec_of sx (chan_of (s_chans sx) m i)) = i.
Proof.
  unfold chan_of, spec_of. destruct (chan_pos (s_chans sx) m i) as [k|] eqn:E; [|discriminate]. intros _.
  now destruct (chan_pos_spec _ _ _ _ E).
Qed.

Lemma plain_of sx k m i : cs_model (spec_of sx k) = m -> cs_index (spec_of sx k) = i -> mi_plain m i = true -> plain_chan sx k.
Proof.
  intros Hm Hi H. unfold plain_chan. cbv zeta. rewrite Hm, Hi. unfold mi_plain in H. apply andb_prop in H as [A B].
  apply negb_true_iff in A, B. auto.
Qed.

Lemma nosv_cfg_ok sx : foundb (s_chans sx) M_NOSV nosv_fields = true -> cfg_ok sx (nosv_cfg (s_chans sx)).
Proof.
  unfold foundb, nosv_fields. cbn [forallb]. intros F.
  repeat (apply andb_prop in F as [?F0 F]).
  destruct fixed_values_ok as (_ & _ & Vss & _ & Vpl & _ & Vty & _).
  cbn [forallb] in Vpl. repeat (apply andb_prop in Vpl as [?P Vpl]).
  split; cbn [nosv_cfg tc_ss tc_ssval tc_chans].
  - destruct (chan_of_found sx _ _ F0) as [Hm Hi]. now apply (mi_ok_static sx _ _ _ _ Hm Hi).
  - intros f k Hin. cbn [In] in Hin.
    destruct Hin as [E|[E|[E|[E|[E|[]]]]]]; injection E as <- <-.
    + destruct (chan_of_found sx _ _ F1). eapply plain_of; eauto.
    + destruct (chan_of_found sx _ _ F2). eapply plain_of; eauto.
    + destruct (chan_of_found sx _ _ F3) as [Hm Hi]. rewrite Hm, Hi. exact Vty.
    + destruct (chan_of_found sx _ _ F4). eapply plain_of; eauto.
    + destruct (chan_of_found sx _ _ F5). eapply plain_of; eauto.
Qed.

Lemma nanos6_cfg_ok sx : foundb (s_chans sx) M_NANOS6 nanos6_fields = true -> cfg_ok sx (nanos6_cfg (s_chans sx)).
Proof.
  unfold foundb, nanos6_fields. cbn [forallb]. intros F.
  repeat (apply andb_prop in F as [?F0 F]).
  destruct fixed_values_ok as (_ & _ & _ & Vss & _ & Vpl & _ & Vty).
  cbn [forallb] in Vpl. repeat (apply andb_prop in Vpl as [?P Vpl]).
  split; cbn [nanos6_cfg tc_ss tc_ssval tc_chans].
  - destruct (chan_of_found sx _ _ F0) as [Hm Hi]. now apply (mi_ok_static sx _ _ _ _ Hm Hi).
  - intros f k Hin. cbn [In] in Hin.
    destruct Hin as [E|[E|[E|[]]]]; injection E as <- <-.
    + destruct (chan_of_found sx _ _ F1). eapply plain_of; eauto.
    + destruct (chan_of_found sx _ _ F2) as [Hm Hi]. rewrite Hm, Hi. exact Vty.
    + destruct (chan_of_found sx _ _ F3). eapply plain_of; eauto.
Qed.

Ltac walk :=
  repeat match goal with
  | |- ev_ok _ (if ?b then _ else _) => destruct b eqn:?
  | |- ev_ok _ (match ?o with Some _ => _ | None => _ end) => destruct o eqn:?
  | |- ev_ok _ (let '(_, _) := ?p in _) => destruct p
  end.

Ltac by_pos :=
  match goal with
  | Hp : chan_pos (s_chans ?sx) ?m ?i = Some ?k |- _ =>
    let Hm := fresh "Hm" in let Hi := fresh "Hi" in
    destruct (chan_pos_spec _ _ _ _ Hp) as (_ & Hm & Hi); fold (spec_of sx k) in Hm, Hi
  end.

Theorem decode_all_ev_ok en sx m c v p j aux :
  tasks_found en (s_chans sx) -> ev_ok sx (decode_all en (s_chans sx) m c v p j aux).
Proof.
  intros [Fv F6].
  destruct fixed_values_ok as (Vfl & Vcs & _).
  unfold decode_all.
  destruct ((m =? M_OVNI) && (c =? 77)).
  { (* marks *) destruct (memz M_OVNI en); [|exact I]. unfold decode_mark. walk; try exact I; cbn [ev_ok]; right;
      by_pos; eapply mi_ok_static; eauto; apply mark_model_plain. }
  unfold decode_full. destruct (negb (memz m en)) eqn:En; [exact I|]. apply negb_false_iff in En.
  destruct (decode_task (s_chans sx) m c v p j aux) as [e|] eqn:Et.
  { unfold decode_task in Et.
    repeat match type of Et with
    | (if ?b then _ else _) = _ => destruct b eqn:?
    | None = Some _ => discriminate Et
    | Some _ = Some _ => injection Et as <-
    end; walk; try exact I; cbn [ev_ok];
    repeat match goal with H : (_ =? _) = true |- _ => apply Z.eqb_eq in H; subst end.
    all: try (apply nosv_cfg_ok; now apply Fv).
    all: try (apply nanos6_cfg_ok; now apply F6). }
  unfold decode. rewrite En. cbn [negb].
  destruct (m =? M_OVNI).
  { unfold decode_ovni. walk; try exact I; cbn [ev_ok]; try exact I.
    right. by_pos. eapply mi_ok_static; eauto. }
  destruct (m =? M_KERNEL).
  { walk; try exact I; cbn [ev_ok]; by_pos; eapply mi_ok_static; eauto. }
  destruct (negb _); [exact I|].
  destruct (table_lookup Tables_gen.table m c v) as [[[ch a] x]|] eqn:Etab; [|exact I].
  destruct (chan_pos (s_chans sx) m ch) as [k|] eqn:Ep; [|exact I]. cbn [ev_ok].
  destruct (table_lookup_ok _ _ _ _ _ _ _ table_rows_ok Etab) as [Hi|Hok]; [now left|right].
  by_pos. eapply mi_ok_static; eauto.
Qed.

(* ---------------------------------------------------------------- static conditions, decided on the dumped specs *)

Definition val_static_okb (sp : chanspec) (v : value) : bool :=
  match v with None => true | Some x => mi_ok (cs_model sp) (cs_index sp) x end.
Definition spec_okb (sp : chanspec) : bool :=
  negb (has_flag (cs_flags sp) PRV_NEXT) && val_static_okb sp (cs_cpudef sp) && val_static_okb sp (cs_init sp).
Definition chans_okb (cs : list chanspec) : bool := forallb spec_okb cs.

Lemma spec_of_cases sx k : In (spec_of sx k) (s_chans sx) \/ spec_of sx k = null_spec.
Proof.
  unfold spec_of. destruct (Nat.lt_ge_cases k (length (s_chans sx))) as [H|H]; [left; now apply nth_In|right; now apply nth_overflow].
Qed.

Lemma chans_okb_static sx : chans_okb (s_chans sx) = true -> StaticOk sx.
Proof.
  intros H. unfold chans_okb in H. rewrite forallb_forall in H.
  assert (G : forall k, spec_okb (spec_of sx k) = true).
  { intros k. destruct (spec_of_cases sx k) as [Hin|E0]; [now apply H|rewrite E0; reflexivity]. }
  split; intros k; specialize (G k); unfold spec_okb in G; apply andb_prop in G as [G Gi]; apply andb_prop in G as [Gn Gd].
  - now apply negb_true_iff in Gn.
  - intros x E. rewrite E in Gd. cbn [val_static_okb] in Gd. eapply mi_ok_static; eauto.
  - intros x E. rewrite E in Gi. cbn [val_static_okb] in Gi. eapply mi_ok_static; eauto.
Qed.

Lemma mark_chans_okb ms : chans_okb (mark_chans ms) = true.
Proof.
  unfold chans_okb, mark_chans. apply forallb_forall. intros sp H. apply in_map_iff in H as [mt [<- _]]. reflexivity.
Qed.

Lemma dumped_chans_ok :
  forallb (fun en => chans_okb (mk_chans en) &&
                     (negb (memz M_NOSV en) || foundb (mk_chans en) M_NOSV nosv_fields) &&
                     (negb (memz M_NANOS6 en) || foundb (mk_chans en) M_NANOS6 nanos6_fields)) (sublists all_models) = true.
Proof. vm_compute. reflexivity. Qed.

Lemma chan_pos_from_app a b m i : forall g k, chan_pos_from a m i g = Some k -> chan_pos_from (a ++ b) m i g = Some k.
Proof.
  induction a as [|sp r IH]; intros g k H; cbn [chan_pos_from app] in *; [discriminate|].
  destruct ((cs_model sp =? m) && (cs_index sp =? i)); [exact H|now apply IH].
Qed.

Lemma foundb_app a b m l : foundb a m l = true -> foundb (a ++ b) m l = true.
Proof.
  unfold foundb. rewrite !forallb_forall. intros H i Hi. specialize (H i Hi). unfold chan_pos in *.
  destruct (chan_pos_from a m i 0) as [k|] eqn:E; [|discriminate]. now rewrite (chan_pos_from_app _ b _ _ _ _ E).
Qed.

(* the channel specs of any emulation: a subset of the eight models, plus the mark types of the trace *)
Theorem specs_of_any_trace sx en ms :
  In en (sublists all_models) -> s_chans sx = mk_chans en ++ mark_chans ms ->
  StaticOk sx /\ tasks_found en (s_chans sx).
Proof.
  intros Hen Hcs. pose proof dumped_chans_ok as D. rewrite forallb_forall in D. specialize (D en Hen).
  apply andb_prop in D as [D D6]. apply andb_prop in D as [Dc Dv]. split.
  - apply chans_okb_static. rewrite Hcs. unfold chans_okb. rewrite forallb_app. fold (chans_okb (mk_chans en)).
    fold (chans_okb (mark_chans ms)). now rewrite Dc, mark_chans_okb.
  - rewrite Hcs. split; intros E; apply foundb_app.
    + rewrite E in Dv. exact Dv.
    + rewrite E in D6. exact D6.
Qed.

(* ---------------------------------------------------------------- whole runs *)

Lemma init_linv sx : StaticOk sx -> LInv sx (init sx).
Proof.
  intros SO. split; cbn [init types tasks threads].
  - intros t k x Hx. unfold raw_of in Hx. cbn [init threads] in Hx.
    destruct (Nat.lt_ge_cases t (length (s_threads sx))) as [Ht|Ht].
    + rewrite (nth_map_const' _ (init_thread sx) dummy_thread t Ht) in Hx. cbn [init_thread t_raw] in Hx.
      destruct (Nat.lt_ge_cases k (length (s_chans sx))) as [Hk|Hk].
      * change empty_raw with ((fun sp => {| r_stk := []; r_val := cs_init sp |}) null_spec) in Hx.
        rewrite map_nth in Hx. fold (spec_of sx k) in Hx. unfold contents in Hx. cbn [r_stk r_val app] in Hx.
        destruct (cs_init (spec_of sx k)) as [x0|] eqn:Ei; [|contradiction]. destruct Hx as [<-|[]].
        apply chan_static_val_ok. now apply (so_init _ SO).
      * rewrite nth_overflow in Hx by (rewrite map_length; exact Hk). contradiction.
    + assert (E : nth t (map (fun _ : thread_info => init_thread sx) (s_threads sx)) dummy_thread = dummy_thread)
        by (apply nth_overflow; rewrite map_length; exact Ht).
      rewrite E in Hx. cbn in Hx. destruct k; contradiction.
  - intros tk [].
  - intros t c H. destruct (Nat.lt_ge_cases t (length (s_threads sx))) as [Ht|Ht].
    + rewrite (nth_map_const' _ (init_thread sx) dummy_thread t Ht) in H. discriminate.
    + rewrite nth_overflow in H by (rewrite map_length; exact Ht). discriminate.
Qed.

Lemma slot_labelled_mono sx tys tys' s v : incl tys tys' -> slot_labelled sx tys s v -> slot_labelled sx tys' s v.
Proof.
  intros Hi [H|H]; [now left|right]. destruct s as [t w|t k|c w|c k]; try exact H; now apply (val_ok_mono sx tys).
Qed.

Theorem run_values_labelled sx : StaticOk sx -> forall evs st st' tl,
  Forall (fun e => ev_ok sx (snd e)) evs -> LInv sx st ->
  run_from sx st evs = Ok (st', tl) ->
  LInv sx st' /\ incl (types st) (types st') /\
  forall tm l, In (tm, l) tl ->
    exists s, In s (slots sx) /\ key_of sx s = (l_cpu l, l_row l, l_type l) /\ slot_labelled sx (types st') s (l_val l).
Proof.
  intros SO. induction evs as [|[[tm who] ev] evs IH]; cbn [run_from]; intros st st' tl F L H.
  - injection H as <- <-. split; [exact L|]. split; [apply incl_refl|intros ? ? []].
  - destruct (step sx st who ev) as [[st1 ls]|] eqn:Es; [|discriminate H].
    destruct (run_from sx st1 evs) as [[st2 ls2]|] eqn:Er; [|discriminate H].
    injection H as <- <-. inversion F as [|? ? Fe Fr]; subst. cbn [snd] in Fe.
    destruct (step_values_labelled _ _ _ _ _ _ SO Fe L Es) as (L1 & I1 & V1).
    destruct (IH _ _ _ Fr L1 Er) as (L2 & I2 & V2).
    split; [exact L2|]. split; [eapply incl_tran; eauto|].
    intros tm' l Hin. apply in_app_or in Hin as [Hin|Hin].
    + apply in_map_iff in Hin as [l0 [E Hl]]. injection E as _ El. rewrite <- El.
      destruct (V1 l0 Hl) as (s & Hs & Hk & Hv). exists s. repeat split; auto. now apply (slot_labelled_mono sx (types st1)).
    + now apply (V2 tm').
Qed.

(* raw events as the player delivers them: time, thread, (model, category, value), payload, jumbo flag, gid of a type label *)
Definition raw_event := (Z * nat * (Z * Z * Z) * list Z * bool * Z)%type.
Definition decode_events (en : list Z) (cs : list chanspec) (revs : list raw_event) : list (Z * nat * event) :=
  map (fun '(tm, who, (m, c, v), p, j, aux) => (tm, who, decode_all en cs m c v p j aux)) revs.

Theorem values_labelled sx en ms revs st tl :
  In en (sublists all_models) -> s_chans sx = mk_chans en ++ mark_chans ms ->
  run_from sx (init sx) (decode_events en (s_chans sx) revs) = Ok (st, tl) ->
  forall tm l, In (tm, l) tl ->
    exists s, In s (slots sx) /\ key_of sx s = (l_cpu l, l_row l, l_type l) /\ slot_labelled sx (types st) s (l_val l).
Proof.
  intros Hen Hcs H. destruct (specs_of_any_trace sx en ms Hen Hcs) as [SO TF].
  refine (proj2 (proj2 (run_values_labelled sx SO _ _ _ _ _ (init_linv sx SO) H))).
  unfold decode_events. apply Forall_forall. intros e He. apply in_map_iff in He as [[[[[[tm who] [[m c] v]] p] j] aux] [<- _]].
  cbn [snd]. now apply decode_all_ev_ok.
Qed.
