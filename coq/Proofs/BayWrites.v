(* A batch of handler writes on distinct clean channels: which are accepted and what they leave. *)
From Coq Require Import ZArith List Bool Lia PeanoNat.
From OV Require Import Emu.EmuCoreDefs Emu.BayDefs Proofs.EmitProofs Proofs.BayBasics.
Import ListNotations.
Local Open Scope nat_scope.

Definition wop_chan (w : wop) : nat := match w with WSet c _ | WPush c _ | WPop c _ => c end.

Definition dirtied (ch : chan) : chan := with_dirty ch true.

(* effect of one write on a clean channel: None = refused, Some ch' with ch' clean = ignored duplicate *)
Definition wop_effect (ch : chan) (w : wop) : option chan :=
  match w with
  | WSet _ v =>
    if c_stack ch then None else
    match dup_check ch v with
    | Some (Ok _) => Some ch
    | Some (Err _) => None
    | None => Some (dirtied (with_val ch v))
    end
  | WPush _ v =>
    if negb (c_stack ch) then None else
    match dup_check ch v with
    | Some (Ok _) => Some ch
    | Some (Err _) => None
    | None => if Nat.leb MAX_CHAN_STACK (length (c_stk ch)) then None else Some (dirtied (with_stk ch (v :: c_stk ch)))
    end
  | WPop _ v =>
    if negb (c_stack ch) then None else
    match c_stk ch with
    | [] => None
    | x :: rest => if value_eqb x v then Some (dirtied (with_stk ch rest)) else None
    end
  end.

Definition wrote (b : bay) (c : nat) (ch' : chan) : bay :=
  if c_dirty ch' then set_dirty_list (set_chan b c ch') (b_dirty b ++ [c]) else b.

Lemma mark_dirty_clean b c ch : c_dirty ch = false ->
  mark_dirty b c ch = Ok (set_dirty_list (set_chan b c (dirtied ch)) (b_dirty b ++ [c])).
Proof. intros H. unfold mark_dirty. rewrite H. reflexivity. Qed.

Lemma apply_wop_clean b w ch ch' :
  chan_at b (wop_chan w) = Some ch -> c_dirty ch = false -> wop_effect ch w = Some ch' ->
  apply_wop b w = Ok (wrote b (wop_chan w) ch').
Proof.
  intros Hc Hd He. unfold chan_at in Hc. destruct w as [c v|c v|c v]; cbn [wop_chan apply_wop wop_effect] in *.
  - unfold chan_set. rewrite Hc. destruct (c_stack ch); [discriminate|]. rewrite Hd. cbn [andb].
    destruct (dup_check ch v) as [[[]|]|].
    + inversion He; subst. unfold wrote. rewrite Hd. reflexivity.
    + discriminate.
    + inversion He; subst. unfold wrote. cbn [c_dirty dirtied with_dirty]. apply mark_dirty_clean. exact Hd.
  - unfold chan_push. rewrite Hc. destruct (negb (c_stack ch)); [discriminate|]. rewrite Hd. cbn [andb].
    destruct (dup_check ch v) as [[[]|]|].
    + inversion He; subst. unfold wrote. rewrite Hd. reflexivity.
    + discriminate.
    + destruct (Nat.leb MAX_CHAN_STACK (length (c_stk ch))); [discriminate|].
      inversion He; subst. unfold wrote. cbn [c_dirty dirtied with_dirty]. apply mark_dirty_clean. exact Hd.
  - unfold chan_pop. rewrite Hc. destruct (negb (c_stack ch)); [discriminate|]. rewrite Hd. cbn [andb].
    destruct (c_stk ch) as [|x rest]; [discriminate|]. destruct (value_eqb x v); [|discriminate].
    inversion He; subst. unfold wrote. cbn [c_dirty dirtied with_dirty]. apply mark_dirty_clean. exact Hd.
Qed.

Lemma wrote_muxes b c ch : b_muxes (wrote b c ch) = b_muxes b.
Proof. unfold wrote. destruct (c_dirty ch); reflexivity. Qed.
Lemma wrote_dcbs b c ch : b_dcbs (wrote b c ch) = b_dcbs b.
Proof. unfold wrote. destruct (c_dirty ch); reflexivity. Qed.
Lemma wrote_other b c ch c' : c <> c' -> chan_at (wrote b c ch) c' = chan_at b c'.
Proof.
  intros H. unfold wrote. destruct (c_dirty ch); [|reflexivity].
  change (chan_at (set_chan b c ch) c' = chan_at b c'). apply chan_at_set_chan_other. exact H.
Qed.
Lemma wrote_same b c ch0 ch : chan_at b c = Some ch0 -> (c_dirty ch = false -> ch = ch0) -> chan_at (wrote b c ch) c = Some ch.
Proof.
  intros H Hcl. unfold wrote. destruct (c_dirty ch) eqn:E.
  - change (chan_at (set_chan b c ch) c = Some ch). apply chan_at_set_chan_same. apply (nth_error_Some_lt _ _ ch0). exact H.
  - rewrite (Hcl eq_refl). exact H.
Qed.
Lemma wrote_dirty b c ch : b_dirty (wrote b c ch) = b_dirty b ++ (if c_dirty ch then [c] else []).
Proof. unfold wrote. destruct (c_dirty ch); [reflexivity|rewrite app_nil_r; reflexivity]. Qed.

(* an ignored write leaves the channel as it was *)
Lemma effect_clean_same ch w ch' : c_dirty ch = false -> wop_effect ch w = Some ch' -> c_dirty ch' = false -> ch' = ch.
Proof.
  intros Hd He Hc. destruct w as [c v|c v|c v]; cbn [wop_effect] in He.
  - destruct (c_stack ch); [discriminate|]. destruct (dup_check ch v) as [[[]|]|]; inversion He; subst; [reflexivity|discriminate].
  - destruct (negb (c_stack ch)); [discriminate|]. destruct (dup_check ch v) as [[[]|]|]; [inversion He; reflexivity|discriminate|].
    destruct (Nat.leb MAX_CHAN_STACK (length (c_stk ch))); [discriminate|]. inversion He; subst. discriminate.
  - destruct (negb (c_stack ch)); [discriminate|]. destruct (c_stk ch) as [|x rest]; [discriminate|].
    destruct (value_eqb x v); [|discriminate]. inversion He; subst. discriminate.
Qed.

Lemma apply_writes_clean : forall ws b,
  NoDup (map wop_chan ws) ->
  (forall w, In w ws -> exists ch ch', chan_at b (wop_chan w) = Some ch /\ c_dirty ch = false /\ wop_effect ch w = Some ch') ->
  exists b', apply_writes b ws = Ok b' /\
    b_muxes b' = b_muxes b /\ b_dcbs b' = b_dcbs b /\
    (forall c, ~ In c (map wop_chan ws) -> chan_at b' c = chan_at b c) /\
    (forall w ch ch', In w ws -> chan_at b (wop_chan w) = Some ch -> wop_effect ch w = Some ch' ->
                      chan_at b' (wop_chan w) = Some ch') /\
    exists D, b_dirty b' = b_dirty b ++ D /\ NoDup D /\
      (forall c, In c D <-> exists w ch ch', In w ws /\ wop_chan w = c /\ chan_at b c = Some ch /\
                                            wop_effect ch w = Some ch' /\ c_dirty ch' = true).
Proof.
  induction ws as [|w ws IH]; intros b Hnd Hall.
  - exists b. split; [reflexivity|]. split; [reflexivity|]. split; [reflexivity|]. split; [reflexivity|].
    split; [intros w ch ch' []|]. exists []. split; [rewrite app_nil_r; reflexivity|]. split; [constructor|].
    intros c. split; [intros []|intros (w & _ & _ & [] & _)].
  - cbn [map] in Hnd. inversion Hnd as [|? ? Hw Hnd']; subst.
    destruct (Hall w (or_introl eq_refl)) as (ch & ch' & Hc & Hd & He).
    cbn [apply_writes]. rewrite (apply_wop_clean b w ch ch' Hc Hd He).
    set (b1 := wrote b (wop_chan w) ch').
    assert (Hoth : forall c, c <> wop_chan w -> chan_at b1 c = chan_at b c) by (intros c Hne; apply wrote_other; congruence).
    destruct (IH b1 Hnd') as (b' & E & Em & Ed & Ho & Hi & D & ED & HndD & HD).
    { intros w' Hw'. destruct (Hall w' (or_intror Hw')) as (c1 & c1' & A1 & A2 & A3).
      exists c1, c1'. split; [|split; assumption]. rewrite Hoth; [exact A1|].
      intros E. apply Hw. rewrite <- E. apply in_map. exact Hw'. }
    exists b'. split; [exact E|]. split; [rewrite Em; apply wrote_muxes|]. split; [rewrite Ed; apply wrote_dcbs|].
    assert (Hsame : chan_at b1 (wop_chan w) = Some ch').
    { apply (wrote_same b _ ch ch' Hc). intros Hcl. apply (effect_clean_same ch w ch' Hd He Hcl). }
    split; [|split].
    + intros c Hn. rewrite Ho by (intros H; apply Hn; right; exact H). apply Hoth. intros ->. apply Hn. left. reflexivity.
    + intros w' c1 c1' [<-|Hw'] A1 A3.
      * rewrite Ho by exact Hw. rewrite Hc in A1. inversion A1; subst c1. rewrite He in A3. inversion A3; subst c1'. exact Hsame.
      * apply (Hi w' c1 c1' Hw'); [|exact A3]. rewrite Hoth; [exact A1|]. intros E'. apply Hw. rewrite <- E'. apply in_map. exact Hw'.
    + exists ((if c_dirty ch' then [wop_chan w] else []) ++ D). split.
      { rewrite ED. unfold b1. rewrite wrote_dirty, app_assoc. reflexivity. }
      assert (HDin : forall c, In c D -> In c (map wop_chan ws)).
      { intros c Hc'. apply HD in Hc'. destruct Hc' as (w' & _ & _ & Hw' & <- & _). apply in_map. exact Hw'. }
      split.
      { destruct (c_dirty ch'); [|exact HndD]. cbn. constructor; [|exact HndD]. intros H. apply Hw. apply HDin. exact H. }
      intros c. rewrite in_app_iff, HD. split.
      * intros [H|(w' & c1 & c1' & Hw' & Ec & A1 & A3 & A4)].
        -- destruct (c_dirty ch') eqn:Edy; [|destruct H]. destruct H as [<-|[]].
           exists w, ch, ch'. split; [left; reflexivity|]. repeat split; assumption.
        -- exists w', c1, c1'. split; [right; exact Hw'|]. split; [exact Ec|]. split; [|split; assumption].
           rewrite <- Hoth; [exact A1|]. intros E'. apply Hw. rewrite <- E', <- Ec. apply in_map. exact Hw'.
      * intros (w' & c1 & c1' & [<-|Hw'] & Ec & A1 & A3 & A4).
        -- left. rewrite Ec in Hc. rewrite Hc in A1. inversion A1; subst c1. rewrite He in A3. inversion A3; subst c1'. rewrite A4. left. exact Ec.
        -- right. exists w', c1, c1'. split; [exact Hw'|]. split; [exact Ec|]. split; [|split; assumption].
           rewrite Hoth; [exact A1|]. intros E'. apply Hw. rewrite <- E', <- Ec. apply in_map. exact Hw'.
Qed.
