(* ovni_mark_type / ovni_mark_label GENERATED from src/rt/ovni.c (Gen/RtMark_gen.v, unit rtmark) compute the tree-level
   model of the runtime mark API, Rt/MarkJsonDefs.v (mark_type_tree / mark_label_tree inside the metadata state machine
   mstep): same die(), same new metadata tree.  ovni_mark_push / pop / set are the functions of Gen/RtBuf_gen.v (unit
   rtbuf), proved equal to RtBufDefs.mark in Proofs/RtBufGenProofs.v; their value-0 refusal is restated here. *)
From Coq Require Import ZArith List Bool Lia.
From OV Require Import Base.CInt Emu.VersionDefs Rt.RtMetaDefs Rt.RtMetaPre Rt.RtMarkPre Rt.MarkJsonDefs Proofs.RtMetaProofs
  Proofs.RtMetaGenProofs.
From OV Require Gen.RtMark_gen Gen.RtMeta_gen.
From Coq Require Import ZifyBool.
Import ListNotations.
Local Open Scope Z_scope.

Module GM := RtMark_gen.

(* ------------------------------------------------------------------ the two decimal renderers agree *)
Lemma digits_of_rdigits f : forall n acc, 0 <= n -> digits_of f n acc = rev (rdigits f n) ++ acc.
Proof.
  induction f as [|f IH]; intros n acc Hn; cbn [digits_of rdigits]; [reflexivity|].
  destruct (n <? 10) eqn:E.
  - cbn [rev app]. f_equal. f_equal. apply Z.mod_small. lia.
  - rewrite IH by (apply Z.div_pos; lia). cbn [rev]. rewrite <- app_assoc. reflexivity.
Qed.

Lemma render_same z : RtMetaPre.render_int z = MarkJsonDefs.render_int z.
Proof.
  unfold RtMetaPre.render_int, MarkJsonDefs.render_int, render_num. destruct (z <? 0) eqn:E.
  - rewrite digits_of_rdigits by lia. rewrite app_nil_r. reflexivity.
  - rewrite digits_of_rdigits by lia. rewrite app_nil_r. reflexivity.
Qed.

(* ------------------------------------------------------------------ the keys snprintf builds *)
Definition F_key : str := [111; 118; 110; 105; 46; 109; 97; 114; 107; 46; 37; 100].
Definition F_title : str := F_key ++ [46; 116; 105; 116; 108; 101].
Definition F_chan : str := F_key ++ [46; 99; 104; 97; 110; 95; 116; 121; 112; 101].
Definition F_label : str := F_key ++ [46; 108; 97; 98; 101; 108; 115; 46; 37; 108; 100].

Lemma key_eq t : format F_key [AInt t] = mark_key t.
Proof.
  unfold F_key, mark_key, dotted, k_ovni, k_mark. cbn [format arg_text app Z.eqb Pos.eqb]. rewrite render_same, app_nil_r. reflexivity.
Qed.
Lemma key_title_eq t : format F_title [AInt t] = dotted (mark_key t) k_title.
Proof.
  unfold F_title, F_key, mark_key, dotted, k_ovni, k_mark, k_title. cbn [format arg_text app Z.eqb Pos.eqb]. rewrite render_same.
  rewrite <- ?app_assoc. reflexivity.
Qed.
Lemma key_chan_eq t : format F_chan [AInt t] = dotted (mark_key t) k_chan_type.
Proof.
  unfold F_chan, F_key, mark_key, dotted, k_ovni, k_mark, k_chan_type. cbn [format arg_text app Z.eqb Pos.eqb]. rewrite render_same.
  rewrite <- ?app_assoc. reflexivity.
Qed.
Lemma key_label_eq t v : format F_label [AInt t; AInt v] = dotted (dotted (mark_key t) k_labels) (MarkJsonDefs.render_int v).
Proof.
  unfold F_label, F_key, mark_key, dotted, k_ovni, k_mark, k_labels. cbn [format arg_text app Z.eqb Pos.eqb]. rewrite !render_same.
  rewrite app_nil_r, <- ?app_assoc. cbn [app]. rewrite <- ?app_assoc. reflexivity.
Qed.

(* ------------------------------------------------------------------ on a live thread: the generated code = the tree model *)
Definition live (st : rstate) (fs : fields) : Prop := r_finished st = 0 /\ r_ready st <> 0 /\ r_meta st = Some fs.

Lemma gtm_live sx st fs : live st fs -> GM.get_thread_metadata sx st = ROk (Some tt, st).
Proof.
  intros (F & R & M). unfold GM.get_thread_metadata. cbv [ite bind eval ret fail get_rthread_finished get_rthread_ready
    get_rthread_meta json_value_get_object is_null]. rewrite F, M. destruct (r_ready st =? 0) eqn:E; [lia|]. reflexivity.
Qed.

Lemma live_meta st fs fs' : live st fs -> live (with_meta_ st (Some fs')) fs'.
Proof. intros (F & R & M). repeat split; assumption. Qed.

Lemma snp sx st size f args : c_snprintf size f args sx st =
  ROk ((Z.of_nat (length (format f (args sx st))), Some (firstn (Z.to_nat (size - 1)) (format f (args sx st)))), st).
Proof. reflexivity. Qed.

Lemma dotget_live sx st fs k : r_meta st = Some fs ->
  json_object_dotget_value sx st (Some tt) (Some k) = match dotget fs k with Some j => Some (JVal j) | None => None end.
Proof. intros M. unfold json_object_dotget_value. rewrite M. reflexivity. Qed.

Lemma dotset_live sx st fs k v : r_meta st = Some fs ->
  or_die (json_object_dotset_string (Some tt) (Some k) (Some v)) sx st =
  match dotset fs k (jstr v) with Some fs' => ROk (tt, with_meta_ st (Some fs')) | None => RErr E_DIE end.
Proof.
  intros M. unfold or_die, json_object_dotset_string, root_dotset. rewrite M.
  destruct (dotset fs k (jstr v)); reflexivity.
Qed.

Definition c0free (o : option str) : Prop := match o with Some (c :: _) => c <> 0 | _ => True end.

Theorem mark_type_tree_from_source sx st fs t flags title : live st fs -> c0free title ->
  GM.ovni_mark_type t flags title sx st =
  match mark_type_tree fs t (stack_flag flags) title with
  | None => RErr E_DIE
  | Some fs' => ROk (tt, with_meta_ st (Some fs'))
  end.
Proof.
  intros L C0. pose proof L as (_ & _ & M). unfold GM.ovni_mark_type, mark_type_tree.
  unfold ite at 1. rewrite Z.geb_leb. destruct ((t <? 0) || (100 <=? t)) eqn:ER; [reflexivity|].
  unfold need at 1. destruct title as [[|c ti]|]; cbn [is_null negb]; [reflexivity | | reflexivity].
  unfold ite at 1. cbn [is_null negb orb char_at Z.to_nat nth]. cbn in C0. destruct (c =? 0) eqn:EC; [lia|].
  unfold bind at 1. rewrite (gtm_live sx st fs L).
  change [111; 118; 110; 105; 46; 109; 97; 114; 107; 46; 37; 100] with F_key.
  unfold bind at 1. rewrite snp. rewrite key_eq. unfold bind at 1, eval at 1. cbn [fst snd].
  unfold ite at 1. rewrite Z.geb_leb. fold (MarkJsonDefs.slen (mark_key t)). change 128 with KEYBUF.
  destruct (KEYBUF <=? MarkJsonDefs.slen (mark_key t)) eqn:E1; [reflexivity|].
  rewrite firstn_short by (unfold MarkJsonDefs.slen, KEYBUF in *; lia).
  unfold bind at 1, eval at 1. rewrite (dotget_live sx st fs _ M).
  destruct (dotget fs (mark_key t)); [reflexivity|]. unfold ite at 1. cbn [is_null negb].
  change [111; 118; 110; 105; 46; 109; 97; 114; 107; 46; 37; 100; 46; 116; 105; 116; 108; 101] with F_title.
  unfold bind at 1. rewrite snp, key_title_eq. unfold bind at 1, eval at 1. cbn [fst snd].
  unfold ite at 1. rewrite Z.geb_leb. fold (MarkJsonDefs.slen (dotted (mark_key t) k_title)).
  destruct (KEYBUF <=? MarkJsonDefs.slen (dotted (mark_key t) k_title)) eqn:E2; [reflexivity|].
  rewrite firstn_short by (unfold MarkJsonDefs.slen, KEYBUF in *; lia).
  unfold bind_ at 1, bind at 1. rewrite (dotset_live sx st fs _ _ M).
  destruct (dotset fs (dotted (mark_key t) k_title) (jstr (c :: ti))) as [fs1|]; [|reflexivity].
  unfold bind at 1, eval at 1.
  change [111; 118; 110; 105; 46; 109; 97; 114; 107; 46; 37; 100; 46; 99; 104; 97; 110; 95; 116; 121; 112; 101] with F_chan.
  unfold bind at 1. rewrite snp, key_chan_eq. unfold bind at 1, eval at 1. cbn [fst snd].
  unfold ite at 1. rewrite Z.geb_leb. fold (MarkJsonDefs.slen (dotted (mark_key t) k_chan_type)).
  destruct (KEYBUF <=? MarkJsonDefs.slen (dotted (mark_key t) k_chan_type)) eqn:E3; [reflexivity|].
  rewrite firstn_short by (unfold MarkJsonDefs.slen, KEYBUF in *; lia).
  unfold bind_, bind, ret. unfold stack_flag. change GM.c_OVNI_MARK_STACK with OVNI_MARK_STACK.
  change [115; 116; 97; 99; 107] with s_stack. change [115; 105; 110; 103; 108; 101] with s_single.
  destruct (negb (Z.land flags OVNI_MARK_STACK =? 0)); unfold str_lit;
    rewrite (dotset_live sx (with_meta_ st (Some fs1)) fs1 _ _ eq_refl);
    match goal with |- context [dotset fs1 ?k ?v] => destruct (dotset fs1 k v) end; reflexivity.
Qed.

Theorem mark_label_tree_from_source sx st fs t v label : live st fs -> c0free label ->
  GM.ovni_mark_label t v label sx st =
  match mark_label_tree fs t v label with
  | None => RErr E_DIE
  | Some fs' => ROk (tt, with_meta_ st (Some fs'))
  end.
Proof.
  intros L C0. pose proof L as (_ & _ & M). unfold GM.ovni_mark_label, mark_label_tree.
  unfold ite at 1. rewrite Z.geb_leb. destruct ((t <? 0) || (100 <=? t)) eqn:ER; [reflexivity|].
  unfold ite at 1. destruct (v <=? 0) eqn:EV; [reflexivity|].
  unfold need at 1. destruct label as [[|c la]|]; cbn [is_null negb]; [reflexivity | | reflexivity].
  unfold ite at 1. cbn [is_null negb orb char_at Z.to_nat nth]. cbn in C0. destruct (c =? 0) eqn:EC; [lia|].
  unfold bind at 1. rewrite (gtm_live sx st fs L).
  change [111; 118; 110; 105; 46; 109; 97; 114; 107; 46; 37; 100] with F_key.
  unfold bind at 1. rewrite snp. rewrite key_eq. unfold bind at 1, eval at 1. cbn [fst snd].
  unfold ite at 1. rewrite Z.geb_leb. fold (MarkJsonDefs.slen (mark_key t)). change 128 with KEYBUF.
  destruct (KEYBUF <=? MarkJsonDefs.slen (mark_key t)) eqn:E1; [reflexivity|].
  rewrite firstn_short by (unfold MarkJsonDefs.slen, KEYBUF in *; lia).
  unfold bind at 1, eval at 1. rewrite (dotget_live sx st fs _ M).
  destruct (dotget fs (mark_key t)); [|reflexivity]. unfold ite at 1. cbn [is_null].
  change [111; 118; 110; 105; 46; 109; 97; 114; 107; 46; 37; 100; 46; 108; 97; 98; 101; 108; 115; 46; 37; 108; 100] with F_label.
  unfold bind at 1. rewrite snp, key_label_eq. unfold bind at 1, eval at 1. cbn [fst snd].
  unfold ite at 1. rewrite Z.geb_leb.
  fold (MarkJsonDefs.slen (dotted (dotted (mark_key t) k_labels) (MarkJsonDefs.render_int v))).
  destruct (KEYBUF <=? MarkJsonDefs.slen (dotted (dotted (mark_key t) k_labels) (MarkJsonDefs.render_int v))) eqn:E2; [reflexivity|].
  rewrite firstn_short by (unfold MarkJsonDefs.slen, KEYBUF in *; lia).
  unfold bind at 1, eval at 1. rewrite (dotget_live sx st fs _ M).
  destruct (dotget fs (dotted (dotted (mark_key t) k_labels) (MarkJsonDefs.render_int v))); [reflexivity|].
  unfold ite at 1. cbn [is_null negb]. unfold bind_, bind, ret. rewrite (dotset_live sx st fs _ _ M).
  destruct (dotset fs (dotted (dotted (mark_key t) k_labels) (MarkJsonDefs.render_int v)) (jstr (c :: la))); reflexivity.
Qed.

(* a thread that is not live: both die (the generated code checks its arguments first, the gate second: die() either way) *)
Lemma mark_type_dead sx st t flags title : (r_finished st <> 0 \/ r_ready st = 0) -> GM.ovni_mark_type t flags title sx st = RErr E_DIE.
Proof.
  intros D. unfold GM.ovni_mark_type. unfold ite at 1. destruct ((t <? 0) || (t >=? 100)); [reflexivity|].
  unfold need at 1. destruct title as [[|c ti]|]; cbn [is_null negb]; try reflexivity.
  unfold ite at 1. cbn [is_null negb orb]. match goal with |- (if ?x then _ else _) = _ => destruct x end; [reflexivity|].
  unfold bind at 1. unfold GM.get_thread_metadata. cbv [ite fail get_rthread_finished get_rthread_ready].
  destruct (r_finished st =? 0) eqn:F; cbn [negb]; [|reflexivity].
  destruct (r_ready st =? 0) eqn:R; cbn [negb]; [reflexivity|]. lia.
Qed.
Lemma mark_label_dead sx st t v label : (r_finished st <> 0 \/ r_ready st = 0) -> GM.ovni_mark_label t v label sx st = RErr E_DIE.
Proof.
  intros D. unfold GM.ovni_mark_label. unfold ite at 1. destruct ((t <? 0) || (t >=? 100)); [reflexivity|].
  unfold ite at 1. destruct (v <=? 0); [reflexivity|].
  unfold need at 1. destruct label as [[|c la]|]; cbn [is_null negb]; try reflexivity.
  unfold ite at 1. cbn [is_null negb orb]. match goal with |- (if ?x then _ else _) = _ => destruct x end; [reflexivity|].
  unfold bind at 1. unfold GM.get_thread_metadata. cbv [ite fail get_rthread_finished get_rthread_ready].
  destruct (r_finished st =? 0) eqn:F; cbn [negb]; [|reflexivity].
  destruct (r_ready st =? 0) eqn:R; cbn [negb]; [reflexivity|]. lia.
Qed.

(* ------------------------------------------------------------------ inside the metadata state machine *)
Lemma ascii_c0free o : opt_ascii o = true -> c0free o.
Proof.
  destruct o as [[|c r]|]; cbn; auto. intros H. apply andb_prop in H as [H _]. lia.
Qed.

Lemma gate_cases s th node out :
  if attr_gate (tget (st_threads s) th)
  then live (rs_of s th node out) (t_meta (tget (st_threads s) th))
  else (r_finished (rs_of s th node out) <> 0 \/ r_ready (rs_of s th node out) = 0).
Proof.
  unfold attr_gate, live, rs_of. destruct (tget (st_threads s) th) as [rd fin tid cpus rank meta].
  cbn [t_ready t_finished t_meta r_finished r_ready r_meta]. destruct fin, rd; cbn; auto; repeat split; try lia.
Qed.

Theorem mark_type_from_source sx s th node out t flags title :
  agrees sx th out (GM.ovni_mark_type t flags title sx (rs_of s th node out)) (mstep RtMeta_gen.src_cfg s th (MMarkType t flags title)) no_val.
Proof.
  unfold mstep. destruct (m_in_dom (MMarkType t flags title)) eqn:D; cbn [negb]; [|exact I].
  cbn [m_in_dom] in D. apply andb_prop in D as [_ DA]. apply ascii_c0free in DA.
  unfold mark_store. pose proof (gate_cases s th node out) as GC.
  destruct (attr_gate (tget (st_threads s) th)) eqn:G; cbn [negb].
  - rewrite (mark_type_tree_from_source sx _ _ t flags title GC DA).
    destruct (mark_type_tree (t_meta (tget (st_threads s) th)) t (stack_flag flags) title) as [fs'|]; [|reflexivity].
    cbn [agrees]. exists tt, node. split; [|reflexivity].
    rewrite (rs_of_with_meta _ _ _ _ _ G). cbn [wpath]. rewrite app_nil_r. reflexivity.
  - apply mark_type_dead. exact GC.
Qed.

Theorem mark_label_from_source sx s th node out t v label :
  agrees sx th out (GM.ovni_mark_label t v label sx (rs_of s th node out)) (mstep RtMeta_gen.src_cfg s th (MMarkLabel t v label)) no_val.
Proof.
  unfold mstep. destruct (m_in_dom (MMarkLabel t v label)) eqn:D; cbn [negb]; [|exact I].
  cbn [m_in_dom] in D. apply andb_prop in D as [_ DA]. apply ascii_c0free in DA.
  unfold mark_store. pose proof (gate_cases s th node out) as GC.
  destruct (attr_gate (tget (st_threads s) th)) eqn:G; cbn [negb].
  - rewrite (mark_label_tree_from_source sx _ _ t v label GC DA).
    destruct (mark_label_tree (t_meta (tget (st_threads s) th)) t v label) as [fs'|]; [|reflexivity].
    cbn [agrees]. exists tt, node. split; [|reflexivity].
    rewrite (rs_of_with_meta _ _ _ _ _ G). cbn [wpath]. rewrite app_nil_r. reflexivity.
  - apply mark_label_dead. exact GC.
Qed.

(* ------------------------------------------------------------------ the refusals, for the generated code *)
Theorem gen_type_range_refused sx st t flags title : t < 0 \/ 100 <= t -> GM.ovni_mark_type t flags title sx st = RErr E_DIE.
Proof. intros H. unfold GM.ovni_mark_type. unfold ite at 1. destruct ((t <? 0) || (t >=? 100)) eqn:E; [reflexivity | lia]. Qed.

Theorem gen_empty_title_refused sx st t flags :
  GM.ovni_mark_type t flags None sx st = RErr E_DIE /\ GM.ovni_mark_type t flags (Some []) sx st = RErr E_DIE.
Proof. split; unfold GM.ovni_mark_type; unfold ite at 1; destruct ((t <? 0) || (t >=? 100)); reflexivity. Qed.

Theorem gen_type_redefinition_refused sx st fs t flags title j : live st fs -> c0free title ->
  dotget fs (mark_key t) = Some j -> GM.ovni_mark_type t flags title sx st = RErr E_DIE.
Proof.
  intros L C D. rewrite (mark_type_tree_from_source sx st fs t flags title L C). unfold mark_type_tree.
  destruct ((t <? 0) || (100 <=? t)); [reflexivity|]. destruct title as [[|c r]|]; try reflexivity.
  destruct (KEYBUF <=? MarkJsonDefs.slen (mark_key t)); [reflexivity|]. rewrite D. reflexivity.
Qed.

Theorem gen_label_refusals sx st fs t v label : live st fs -> c0free label ->
  (v <= 0 -> GM.ovni_mark_label t v label sx st = RErr E_DIE) /\
  (dotget fs (mark_key t) = None -> GM.ovni_mark_label t v label sx st = RErr E_DIE) /\
  (forall j, dotget fs (dotted (dotted (mark_key t) k_labels) (MarkJsonDefs.render_int v)) = Some j ->
             GM.ovni_mark_label t v label sx st = RErr E_DIE).
Proof.
  intros L C. rewrite (mark_label_tree_from_source sx st fs t v label L C). unfold mark_label_tree.
  split; [|split].
  - intros H. destruct ((t <? 0) || (100 <=? t)); [reflexivity|]. destruct (v <=? 0) eqn:E; [reflexivity | lia].
  - intros D. destruct ((t <? 0) || (100 <=? t)); [reflexivity|]. destruct (v <=? 0); [reflexivity|].
    destruct label as [[|c r]|]; try reflexivity. destruct (KEYBUF <=? MarkJsonDefs.slen (mark_key t)); [reflexivity|].
    rewrite D. reflexivity.
  - intros j D. destruct ((t <? 0) || (100 <=? t)); [reflexivity|]. destruct (v <=? 0); [reflexivity|].
    destruct label as [[|c r]|]; try reflexivity. destruct (KEYBUF <=? MarkJsonDefs.slen (mark_key t)); [reflexivity|].
    destruct (dotget fs (mark_key t)); [|reflexivity].
    destruct (KEYBUF <=? MarkJsonDefs.slen (dotted (dotted (mark_key t) k_labels) (MarkJsonDefs.render_int v))); [reflexivity|].
    rewrite D. reflexivity.
Qed.

(* ------------------------------------------------------------------ push / pop / set: the functions of unit rtbuf *)
From OV Require Rt.RtBufPre Rt.RtBufDefs Rt.RtBufApiDefs Gen.RtBuf_gen Proofs.RtBufGenProofs.

Theorem gen_zero_value_refused fuel ty sx g :
  RtBuf_gen.ovni_mark_push fuel ty 0 sx g = RtBufPre.Err RtBufPre.E_DIE /\
  RtBuf_gen.ovni_mark_pop fuel ty 0 sx g = RtBufPre.Err RtBufPre.E_DIE /\
  RtBuf_gen.ovni_mark_set fuel ty 0 sx g = RtBufPre.Err RtBufPre.E_DIE.
Proof. repeat split. Qed.
