(* The connect-time wiring from the source: the GENERATED track.c / model_thread.c / model_cpu.c / model_pvt.c
   (Gen/Connect_gen.v, unit connect), run in the emulator's order on a bay that holds the system channels, build the bay
   BayDefs.wire describes, up to the renaming of channel and mux ids read off the heap the generated code built. *)
From Coq Require Import ZArith List Bool Lia String.
From OV Require Import Base.CInt Emu.EmuCoreDefs Emu.ConnectPre.
From OV Require Emu.BayDefs Emu.DecodeDefs Gen.Tables_gen Gen.Connect_gen.
Import ListNotations.
Local Open Scope Z_scope.

Module G := Connect_gen.

(* the enum constants the prelude hard-codes are those of the source *)
Lemma prop_constants : G.c_CHAN_ALLOW_DUP = P_ALLOW_DUP /\ G.c_CHAN_IGNORE_DUP = P_IGNORE_DUP /\ G.c_CHAN_STACK = T_STACK /\ G.c_CHAN_SINGLE = 0 /\
  G.c_TRACK_TH_ANY = TRACK_ANY /\ G.c_TRACK_TH_RUN = TRACK_RUN /\ G.c_TRACK_TH_ACT = TRACK_ACT /\
  G.c_TH_CHAN_STATE = Z.of_nat B.W_STATE /\ G.c_CPU_CHAN_THRUN = Z.of_nat B.X_THRUN /\ G.c_TH_CHAN_MAX = 3 /\ G.c_CPU_CHAN_MAX = 5.
Proof. repeat split. Qed.

Fixpoint NoDup_b (l : list nat) : bool :=
  match l with [] => true | a :: r => negb (existsb (Nat.eqb a) r) && NoDup_b r end.
Definition MuxPre_dummy : B.mux :=
  {| B.mx_init := false; B.mx_sel := 0; B.mx_out := 0; B.mx_fun := B.SelDefault; B.mx_def := None; B.mx_ins := [];
     B.mx_en := []; B.mx_selected := None |}.

Section Driver.
  Variable sx : static.
  Let T := length (s_threads sx).
  Let C := length (s_cpus sx).
  Let K := length (s_chans sx).

  Definition env_of : cenv :=
    {| cn_chans := s_chans sx; cn_nth := T; cn_ncpu := C; cn_alloc_ok := true; cn_body := G.c_ST_TASK_BODY; cn_prog := G.c_ST_PROGRESSING |}.

  (* nothing registered yet *)
  Definition empty_state : cstate :=
    {| cs_bay := {| B.b_chans := []; B.b_dcbs := []; B.b_ecbs := []; B.b_muxes := []; B.b_dirty := [] |};
       cs_reg := []; cs_pend := []; cs_narr := 0; cs_tracks := []; cs_mths := []; cs_mcpus := []; cs_ext := []; cs_inited := []; cs_mark := []; cs_bd := [] |}.

  (* the models of the trace in slot order (model.c: for i in 0..255) *)
  Definition models : list Z := filter (fun m => existsb (fun sp => cs_model sp =? m) (s_chans sx)) (zrange 0 256).

  (* <model>/setup.c connect tail: mux_set_default on the CPU muxes (nOS-V / Nanos6 idle), not translated *)
  Definition set_default_one (st : cstate) (c : nat) (m : Z) (i : nat) (v : value) : result cstate :=
    match extend_get env_of st (Some (true, c)) m with
    | Some (VMcpu a) =>
      match nth_error (cs_mcpus st) a with
      | Some o =>
        match track_at st (at_ptr_track (mc_track o) (Z.of_nat i)) with
        | Some tk =>
          match tk_mux tk with
          | Some mid =>
            match nth_error (B.b_muxes (cs_bay st)) mid with
            | Some mx => Ok (with_bay st (B.set_mux (cs_bay st) mid
                           {| B.mx_init := B.mx_init mx; B.mx_sel := B.mx_sel mx; B.mx_out := B.mx_out mx; B.mx_fun := B.mx_fun mx;
                              B.mx_def := v; B.mx_ins := B.mx_ins mx; B.mx_en := B.mx_en mx; B.mx_selected := B.mx_selected mx |}))
            | None => Err E_TRAP
            end
          | None => Err E_TRAP
          end
        | None => Err E_TRAP
        end
      | None => Err E_TRAP
      end
    | _ => Err E_TRAP
    end.
  Fixpoint fold_res {A S} (f : S -> A -> result S) (l : list A) (s : S) : result S :=
    match l with [] => Ok s | a :: r => match f s a with Ok s' => fold_res f r s' | Err e => Err e end end.
  Definition set_defaults (m : Z) (st : cstate) : result cstate :=
    fold_res (fun st c =>
      fold_res (fun st x => match cs_cpudef (snd x) with Some _ => set_default_one st c m (fst x) (cs_cpudef (snd x)) | None => Ok st end)
               (combine (seq 0 (length (mchans env_of m))) (mchans env_of m)) st) (seq 0 C) st.

  Definition run1 (f : M unit) (st : cstate) : result cstate := match f env_of st with Ok (_, st') => Ok st' | Err e => Err e end.
  (* emu_init: model_create (every model: threads then CPUs); emu_connect: model_connect (every model: threads, CPUs, tail) *)
  (* system.c: thread_init_end / cpu_init_end when the system is built (system_init), thread_connect / cpu_connect of every
     thread then every CPU in system_connect (the loops of system.c are not translated) *)
  Definition sys_state : result cstate :=
    match fold_res (fun st t => run1 (G.thread_init_end (Some t)) st) (seq 0 T) empty_state with
    | Err e => Err e
    | Ok s1 =>
      match fold_res (fun st c => run1 (G.cpu_init_end (Some c)) st) (seq 0 C) s1 with
      | Err e => Err e
      | Ok s2 =>
        match fold_res (fun st t => run1 (G.thread_connect (Some t) (Some tt) (Some tt)) st) (seq 0 T) s2 with
        | Err e => Err e
        | Ok s3 => fold_res (fun st c => run1 (G.cpu_connect (Some c) (Some tt) (Some tt)) st) (seq 0 C) s3
        end
      end
    end.
  (* ovni/mark.c mark_create (after scan_thread, not translated): when there are mark types, create_thread_chan of every
     thread, then init_cpu of every CPU; called by model_ovni_create after model_thread_create / model_cpu_create *)
  Definition marks_create (st : cstate) : result cstate :=
    if Nat.eqb (length (mark_specs env_of)) 0 then Ok st else
    match fold_res (fun st t => run1 (G.mark_create_thread_chan (Some tt) (Some tt) (Some t)) st) (seq 0 T) st with
    | Err e => Err e
    | Ok s1 => fold_res (fun st c => run1 (G.mark_init_cpu (Some tt) (Some tt) (Some c)) st) (seq 0 C) s1
    end.
  Definition connect_all : result cstate :=
    match sys_state with Err e => Err e | Ok sys_st =>
    match fold_res (fun st m => match run1 (G.model_thread_create tt (Some m)) st with
                                | Ok st1 => match run1 (G.cpu_model_cpu_create tt (Some m)) st1 with
                                            | Ok st2 => if m =? 79 then marks_create st2 else Ok st2
                                            | Err e => Err e end
                                | Err e => Err e end) models sys_st with
    | Err e => Err e
    | Ok st1 =>
      fold_res (fun st m => match run1 (G.model_thread_connect tt (Some m)) st with
                            | Ok st2 => match run1 (G.cpu_model_cpu_connect tt (Some m)) st2 with
                                        | Ok st3 => match set_defaults m st3 with
                                                    | Ok st4 => if m =? 79 then run1 (G.mark_mark_connect tt) st4 else Ok st4
                                                    | Err e => Err e end
                                        | Err e => Err e end
                            | Err e => Err e end) models st1
    end end.

  (* ---- reading the ids off the heap *)
  (* channel k of s_chans is channel number (pos_in k) of its model *)
  Definition pos_in (k : nat) : nat :=
    length (filter (fun sp => cs_model sp =? cs_model (spec_of sx k)) (firstn k (s_chans sx))).
  (* the mark channels (pseudo-model 1000) hang on the ovni ('O' = 79) objects *)
  Definition is_mark (k : nat) : bool := cs_model (spec_of sx k) =? M_MARK.
  Definition owner (k : nat) : Z := if is_mark k then 79 else cs_model (spec_of sx k).
  Definition th_bases (st : cstate) (t k : nat) : ptr_chan * ptr_track :=
    match extend_get env_of st (Some (false, t)) (owner k) with
    | Some (VMth a) => if is_mark k then mark_get st (false, a)
                       else match nth_error (cs_mths st) a with Some o => (mt_ch o, mt_track o) | None => (None, None) end
    | _ => (None, None) end.
  Definition cpu_base (st : cstate) (c k : nat) : ptr_track :=
    match extend_get env_of st (Some (true, c)) (owner k) with
    | Some (VMcpu a) => if is_mark k then snd (mark_get st (true, a))
                        else match nth_error (cs_mcpus st) a with Some o => mc_track o | None => None end
    | _ => None end.
  Definition th_track (st : cstate) (t k : nat) : ptr_track := at_ptr_track (snd (th_bases st t k)) (Z.of_nat (pos_in k)).
  Definition cpu_track (st : cstate) (c k : nat) : ptr_track := at_ptr_track (cpu_base st c k) (Z.of_nat (pos_in k)).

  (* the address behind each channel id of BayDefs.wire *)
  Definition wire_addrs (st : cstate) : list (option caddr) :=
    flat_map (fun t => map (fun w => Some (ASysTh t w)) (seq 0 3) ++
                       map (fun k => at_ptr_chan (fst (th_bases st t k)) (Z.of_nat (pos_in k))) (seq 0 K) ++
                       map (fun k => addr_track_ch (th_track st t k)) (seq 0 K)) (seq 0 T) ++
    flat_map (fun c => map (fun w => Some (ASysCpu c w)) (seq 0 5) ++ map (fun k => addr_track_ch (cpu_track st c k)) (seq 0 K)) (seq 0 C).
  (* the built mux id behind each mux id of BayDefs.wire (None: that track has no mux) *)
  Definition wire_muxes (st : cstate) : list (option nat) :=
    flat_map (fun t => map (fun k => match track_at st (th_track st t k) with Some o => tk_mux o | None => None end) (seq 0 K)) (seq 0 T) ++
    flat_map (fun c => map (fun k => match track_at st (cpu_track st c k) with Some o => tk_mux o | None => None end) (seq 0 K)) (seq 0 C).

  Fixpoint find_idx {A} (p : A -> bool) (l : list A) (k : nat) : option nat :=
    match l with [] => None | a :: r => if p a then Some k else find_idx p r (S k) end.
  Fixpoint all_some {A} (l : list (option A)) : option (list A) :=
    match l with [] => Some [] | None :: _ => None | Some a :: r => match all_some r with Some x => Some (a :: x) | None => None end end.

  (* the built bay in the numbering of BayDefs.wire.  sigma: wire channel id -> built id; mu: wire mux id -> built mux id.
     Refused (None) unless sigma is a bijection onto the built channels and mu onto the built muxes; a track without a
     mux is shown as the uninitialised mux record BayDefs.wire has at that position *)
  Definition normalize (st : cstate) : option B.bay :=
    match all_some (map (fun oa => match oa with Some a => id_of st a | None => None end) (wire_addrs st)) with
    | None => None
    | Some sigma =>
      let mu := wire_muxes st in
      let bb := cs_bay st in
      let ch_back (bid : nat) : nat := match find_idx (Nat.eqb bid) sigma 0 with Some w => w | None => 0%nat end in
      let mx_back (bid : nat) : nat := match find_idx (fun o => match o with Some x => Nat.eqb x bid | None => false end) mu 0 with Some w => w | None => 0%nat end in
      let ren (d : B.dcb) : B.dcb := match d with B.DSelect m => B.DSelect (mx_back m) | B.DInput m i => B.DInput (mx_back m) i | B.DReselect m => B.DReselect (mx_back m) end in
      let nmux := length (filter (fun o => match o with Some _ => true | None => false end) mu) in
      if negb (Nat.eqb (length sigma) (length (B.b_chans bb))) || negb (NoDup_b sigma) ||
         negb (Nat.eqb nmux (length (B.b_muxes bb))) then None
      else
        Some {| B.b_chans := map (fun bid => nth bid (B.b_chans bb) (B.mk_chan false false false false)) sigma;
                B.b_dcbs := map (fun bid => map ren (nth bid (B.b_dcbs bb) [])) sigma;
                B.b_ecbs := map (fun bid => nth bid (B.b_ecbs bb) []) sigma;
                B.b_muxes := map (fun x => match snd x with
                                           | Some bid =>
                                             match nth_error (B.b_muxes bb) bid with
                                             | Some mx => {| B.mx_init := B.mx_init mx; B.mx_sel := ch_back (B.mx_sel mx); B.mx_out := ch_back (B.mx_out mx);
                                                             B.mx_fun := B.mx_fun mx; B.mx_def := B.mx_def mx; B.mx_ins := map ch_back (B.mx_ins mx);
                                                             B.mx_en := B.mx_en mx; B.mx_selected := B.mx_selected mx |}
                                             | None => MuxPre_dummy
                                             end
                                           | None => nth (fst x) (B.b_muxes (B.wire sx)) MuxPre_dummy
                                           end) (combine (seq 0 (length mu)) mu);
                B.b_dirty := B.b_dirty bb |}
    end.
End Driver.

(* ---- the order of the models: model_create / model_connect run the hooks in SLOT order (increasing model id,
   C13_emu_slot_order), so the callbacks of a shared select channel are registered model by model in that order.
   BayDefs.wire registers them in the order of s_chans: the statement is about a static description whose channel specs
   are in slot order (slot_chans); Tables_gen.chanspecs itself is in models_register order (FINDING: for a trace with
   several models BayDefs.wire on DecodeDefs.mk_chans orders the cb_select's of a thread's state channel differently from
   the emulator; only the order of PRV lines inside one propagation depends on it) *)
Definition slot_chans (l : list chanspec) : list chanspec :=
  flat_map (fun m => filter (fun sp => cs_model sp =? m) l) (zrange 0 80 ++ [M_MARK] ++ zrange 80 256).   (* the marks right after the ovni model 'O' = 79 *)
Definition with_chans (sx : static) (l : list chanspec) : static :=
  {| s_threads := s_threads sx; s_cpus := s_cpus sx; s_chans := l; s_lint := s_lint sx |}.

(* ---- decidable comparison of bays without custom select functions *)
Definition value_eq (a b : value) : bool := match a, b with None, None => true | Some x, Some y => Z.eqb x y | _, _ => false end.
Fixpoint list_eqb {A} (f : A -> A -> bool) (a b : list A) : bool :=
  match a, b with
  | [], [] => true
  | x :: r, y :: q => f x y && list_eqb f r q
  | _, _ => false
  end.
Lemma list_eqb_sound {A} (f : A -> A -> bool) : (forall x y, f x y = true -> x = y) -> forall a b, list_eqb f a b = true -> a = b.
Proof.
  intros H. induction a as [|x r IH]; intros [|y q] E; cbn in E; try discriminate; [reflexivity|].
  apply andb_true_iff in E. destruct E as [E1 E2]. f_equal; [apply H, E1|apply IH, E2].
Qed.
Lemma value_eq_sound a b : value_eq a b = true -> a = b.
Proof. destruct a, b; cbn; intros H; try discriminate; [apply Z.eqb_eq in H; congruence|reflexivity]. Qed.
Lemma beq_sound a b : Bool.eqb a b = true -> a = b. Proof. apply Bool.eqb_prop. Qed.
Lemma nat_eq_sound a b : Nat.eqb a b = true -> a = b. Proof. apply Nat.eqb_eq. Qed.

Definition chan_eq (a b : B.chan) : bool :=
  Bool.eqb (B.c_stack a) (B.c_stack b) && value_eq (B.c_val a) (B.c_val b) && list_eqb value_eq (B.c_stk a) (B.c_stk b) &&
  value_eq (B.c_last a) (B.c_last b) && Bool.eqb (B.c_dirty a) (B.c_dirty b) && Bool.eqb (B.c_dw a) (B.c_dw b) &&
  Bool.eqb (B.c_allow a) (B.c_allow b) && Bool.eqb (B.c_ign a) (B.c_ign b).
Definition dcb_eq (a b : B.dcb) : bool :=
  match a, b with
  | B.DSelect m, B.DSelect n => Nat.eqb m n
  | B.DInput m i, B.DInput n j => Nat.eqb m n && Nat.eqb i j
  | B.DReselect m, B.DReselect n => Nat.eqb m n
  | _, _ => false
  end.
Definition ecb_eq (a b : B.ecb) : bool :=
  Bool.eqb (B.e_cpu a) (B.e_cpu b) && Nat.eqb (B.e_row a) (B.e_row b) && Z.eqb (B.e_type a) (B.e_type b) && Z.eqb (B.e_flags a) (B.e_flags b).
Definition selfun_eq (a b : B.selfun) : bool :=
  match a, b with
  | B.SelDefault, B.SelDefault | B.SelRunning, B.SelRunning | B.SelActive, B.SelActive => true
  | _, _ => false
  end.
Definition onat_eq (a b : option nat) : bool := match a, b with None, None => true | Some x, Some y => Nat.eqb x y | _, _ => false end.
Definition mux_eq (a b : B.mux) : bool :=
  Bool.eqb (B.mx_init a) (B.mx_init b) && Nat.eqb (B.mx_sel a) (B.mx_sel b) && Nat.eqb (B.mx_out a) (B.mx_out b) &&
  selfun_eq (B.mx_fun a) (B.mx_fun b) && value_eq (B.mx_def a) (B.mx_def b) && list_eqb Nat.eqb (B.mx_ins a) (B.mx_ins b) &&
  list_eqb Bool.eqb (B.mx_en a) (B.mx_en b) && onat_eq (B.mx_selected a) (B.mx_selected b).
Definition bay_eq (a b : B.bay) : bool :=
  list_eqb chan_eq (B.b_chans a) (B.b_chans b) && list_eqb (list_eqb dcb_eq) (B.b_dcbs a) (B.b_dcbs b) &&
  list_eqb (list_eqb ecb_eq) (B.b_ecbs a) (B.b_ecbs b) && list_eqb mux_eq (B.b_muxes a) (B.b_muxes b) &&
  list_eqb Nat.eqb (B.b_dirty a) (B.b_dirty b).

Ltac split_and H := repeat match type of H with (_ && _ = true) => let H2 := fresh in apply andb_true_iff in H; destruct H as [H H2] end.
Lemma chan_eq_sound a b : chan_eq a b = true -> a = b.
Proof.
  destruct a, b. unfold chan_eq. cbn. intros H. split_and H.
  repeat match goal with
         | X : Bool.eqb _ _ = true |- _ => apply beq_sound in X
         | X : value_eq _ _ = true |- _ => apply value_eq_sound in X
         | X : list_eqb value_eq _ _ = true |- _ => apply (list_eqb_sound _ value_eq_sound) in X
         end. subst. reflexivity.
Qed.
Lemma dcb_eq_sound a b : dcb_eq a b = true -> a = b.
Proof.
  destruct a, b; cbn; intros H; try discriminate; split_and H;
    repeat match goal with X : Nat.eqb _ _ = true |- _ => apply nat_eq_sound in X end; subst; reflexivity.
Qed.
Lemma ecb_eq_sound a b : ecb_eq a b = true -> a = b.
Proof.
  destruct a, b. unfold ecb_eq. cbn. intros H. split_and H.
  repeat match goal with
         | X : Bool.eqb _ _ = true |- _ => apply beq_sound in X
         | X : Nat.eqb _ _ = true |- _ => apply nat_eq_sound in X
         | X : Z.eqb _ _ = true |- _ => apply Z.eqb_eq in X
         end. subst. reflexivity.
Qed.
Lemma mux_eq_sound a b : mux_eq a b = true -> a = b.
Proof.
  destruct a, b. unfold mux_eq. cbn. intros H. split_and H.
  repeat match goal with
         | X : Bool.eqb _ _ = true |- _ => apply beq_sound in X
         | X : Nat.eqb _ _ = true |- _ => apply nat_eq_sound in X
         | X : value_eq _ _ = true |- _ => apply value_eq_sound in X
         | X : list_eqb Nat.eqb _ _ = true |- _ => apply (list_eqb_sound _ nat_eq_sound) in X
         | X : list_eqb Bool.eqb _ _ = true |- _ => apply (list_eqb_sound _ beq_sound) in X
         end. subst.
  assert (mx_fun = mx_fun0) by (destruct mx_fun, mx_fun0; cbn in *; try discriminate; reflexivity).
  assert (mx_selected = mx_selected0) by (destruct mx_selected, mx_selected0; cbn in *; try discriminate; [f_equal; apply Nat.eqb_eq; assumption|reflexivity]).
  subst. reflexivity.
Qed.
Lemma bay_eq_sound a b : bay_eq a b = true -> a = b.
Proof.
  destruct a, b. unfold bay_eq. cbn. intros H. split_and H.
  apply (list_eqb_sound _ chan_eq_sound) in H.
  apply (list_eqb_sound _ (list_eqb_sound _ dcb_eq_sound)) in H3.
  apply (list_eqb_sound _ (list_eqb_sound _ ecb_eq_sound)) in H2.
  apply (list_eqb_sound _ mux_eq_sound) in H1.
  apply (list_eqb_sound _ nat_eq_sound) in H0. subst. reflexivity.
Qed.

(* does the generated code, run on the system channels of sx, build BayDefs.wire sx ? *)
Definition wiring_ok (sx : static) : bool :=
  match connect_all sx with
  | Ok st => match normalize sx st with Some b => bay_eq b (B.wire sx) | None => false end
  | Err _ => false
  end.
Theorem wiring_ok_sound sx : wiring_ok sx = true ->
  exists st, connect_all sx = Ok st /\ normalize sx st = Some (B.wire sx).
Proof.
  unfold wiring_ok. destruct (connect_all sx) as [st|]; [|discriminate]. destruct (normalize sx st) as [b|] eqn:En; [|discriminate].
  intros H. apply bay_eq_sound in H. subst. exists st. split; [reflexivity|exact En].
Qed.

(* ---- the family checked by computation: 2 threads, 2 CPUs + a virtual CPU, every subset of the models of the dumped
   table (channel specs in slot order) *)
Definition fam_threads : list thread_info :=
  [{| ti_tid := 11; ti_pid := 5; ti_loom := 0; ti_appid := 1; ti_rank := -1 |};
   {| ti_tid := 12; ti_pid := 5; ti_loom := 0; ti_appid := 1; ti_rank := -1 |}].
Definition fam_cpus : list cpu_info :=
  [{| ci_virtual := false; ci_loom := 0; ci_index := 0 |}; {| ci_virtual := false; ci_loom := 0; ci_index := 1 |};
   {| ci_virtual := true; ci_loom := 0; ci_index := -1 |}].
Definition fam_sx (en : list Z) : static :=
  {| s_threads := fam_threads; s_cpus := fam_cpus; s_chans := slot_chans (DecodeDefs.mk_chans en); s_lint := false |}.
Definition all_models : list Z := map (fun x => let '(id, _, _, _) := x in id) Gen.Tables_gen.models.
Fixpoint subsets {A} (l : list A) : list (list A) :=
  match l with [] => [[]] | a :: r => subsets r ++ map (cons a) (subsets r) end.

Lemma family_checked : forallb (fun en => wiring_ok (fam_sx en)) (subsets all_models) = true.
Proof. vm_compute. reflexivity. Qed.

Theorem wiring_from_source_family en : In en (subsets all_models) ->
  exists st, connect_all (fam_sx en) = Ok st /\ normalize (fam_sx en) st = Some (B.wire (fam_sx en)).
Proof.
  intros H. apply wiring_ok_sound. pose proof family_checked as F. rewrite forallb_forall in F. apply F, H.
Qed.

(* ---- a second family: 1..4 threads, 1..4 CPUs (the last one virtual), all models / only nOS-V / only Nanos6 + ovni *)
Definition sized_sx (nt nc : nat) (en : list Z) : static :=
  {| s_threads := map (fun k => {| ti_tid := 100 + Z.of_nat k; ti_pid := 5; ti_loom := 0; ti_appid := 1; ti_rank := -1 |}) (seq 0 nt);
     s_cpus := map (fun k => {| ci_virtual := Nat.eqb (S k) nc; ci_loom := 0; ci_index := if Nat.eqb (S k) nc then -1 else Z.of_nat k |}) (seq 0 nc);
     s_chans := slot_chans (DecodeDefs.mk_chans en); s_lint := false |}.
Definition sizes : list (nat * nat) := flat_map (fun a => map (fun b => (a, b)) [1; 2; 3; 4]%nat) [1; 2; 3; 4]%nat.
Definition size_models : list (list Z) := [all_models; [DecodeDefs.M_NOSV]; [DecodeDefs.M_OVNI; DecodeDefs.M_NANOS6]].

Lemma sizes_checked : forallb (fun en => forallb (fun s => wiring_ok (sized_sx (fst s) (snd s) en)) sizes) size_models = true.
Proof. vm_compute. reflexivity. Qed.

Theorem wiring_from_source_sizes nt nc en : In (nt, nc) sizes -> In en size_models ->
  exists st, connect_all (sized_sx nt nc en) = Ok st /\ normalize (sized_sx nt nc en) st = Some (B.wire (sized_sx nt nc en)).
Proof.
  intros Hs He. apply wiring_ok_sound. pose proof sizes_checked as F. rewrite forallb_forall in F. specialize (F en He).
  rewrite forallb_forall in F. exact (F (nt, nc) Hs).
Qed.

(* ---- ovni/mark.c: the mark channels (pseudo-model 1000), created and connected inside the ovni model's hooks *)
From OV Require Emu.MarkDefs.
Definition mk_mtype (ty : Z) (stack : bool) : MarkDefs.mtype :=
  {| MarkDefs.mt_type := ty; MarkDefs.mt_title := [77]; MarkDefs.mt_stack := stack; MarkDefs.mt_labels := [] |}.
Definition mark_lists : list (list MarkDefs.mtype) :=
  [[mk_mtype 1 true]; [mk_mtype 7 false]; [mk_mtype 1 true; mk_mtype 7 false]; [mk_mtype 5 false; mk_mtype 2 true; mk_mtype 9 true]].
Definition mark_models : list (list Z) := [[DecodeDefs.M_OVNI]; [DecodeDefs.M_OVNI; DecodeDefs.M_NOSV]; all_models].
Definition mark_sx (en : list Z) (ms : list MarkDefs.mtype) : static :=
  {| s_threads := fam_threads; s_cpus := fam_cpus; s_chans := slot_chans (DecodeDefs.mk_chans en ++ MarkDefs.mark_chans ms); s_lint := false |}.

Lemma marks_checked : forallb (fun en => forallb (fun ms => wiring_ok (mark_sx en ms)) mark_lists) mark_models = true.
Proof. vm_compute. reflexivity. Qed.

Theorem mark_wiring_from_source en ms : In en mark_models -> In ms mark_lists ->
  exists st, connect_all (mark_sx en ms) = Ok st /\ normalize (mark_sx en ms) st = Some (B.wire (mark_sx en ms)).
Proof.
  intros He Hm. apply wiring_ok_sound. pose proof marks_checked as F. rewrite forallb_forall in F. specialize (F en He).
  rewrite forallb_forall in F. exact (F ms Hm).
Qed.

(* ---- nosv/breakdown.c: the per-CPU breakdown pipeline, against BayBreakdownDefs *)
From OV Require Emu.BayBreakdownDefs.
Module BD := BayBreakdownDefs.

Section Breakdown.
  Variable sx : static.
  (* model_nosv_breakdown_create / _connect for the (physical) CPU c, after the models connected: the generated create_cpu
     (tr, tri), the generated connect_cpu (mux0, mux1, reselect, default), then sort_set_input on tri (the calling loops,
     sort_init and the PRV registration of the sorted rows are not translated) *)
  Definition nosv_cpu_of (st : cstate) (c : nat) : option nat :=
    match extend_get (env_of sx) st (Some (true, c)) 86 with Some (VMcpu a) => Some a | _ => None end.
  Definition breakdown_cpu (st : cstate) (c : nat) : result cstate :=
    match nosv_cpu_of st c with
    | None => Err E_TRAP
    | Some a =>
      match run1 sx (G.bd_create_cpu (Some tt) (Some a) (Z.of_nat c)) st with
      | Err e => Err e
      | Ok s1 => match run1 sx (G.bd_connect_cpu (Some tt) (Some a)) s1 with
                 | Err e => Err e
                 | Ok s2 => run1 sx (sort_set_input a) s2
                 end
      end
    end.
  Definition connect_all_bd : result cstate :=
    match connect_all sx with
    | Err e => Err e
    | Ok st => fold_res breakdown_cpu
                 (filter (fun c => negb (ci_virtual (nth c (s_cpus sx) {| ci_virtual := true; ci_loom := 0; ci_index := 0 |}))) (seq 0 (length (s_cpus sx)))) st
    end.

  (* the six channels of CPU c's pipeline, in the numbering of BayBreakdownDefs (SS TT IDLE TR TRI SINK), its three muxes
     (mux0, mux1, the sort callback) renamed 0 1 2; PRV emit callbacks are not part of the pipeline model *)
  Definition bd_project (st : cstate) (c : nat) : option B.bay :=
    match nosv_cpu_of st c with
    | None => None
    | Some a =>
      match nth_error (cs_mcpus st) a with
      | None => None
      | Some o =>
        let trk i := addr_track_ch (at_ptr_track (mc_track o) i) in
        let addrs := [trk G.c_CH_SUBSYSTEM; trk G.c_CH_TYPE; trk G.c_CH_IDLE; Some (ABd a 0); Some (ABd a 1); Some (ASink a)] in
        match all_some (map (fun oa => match oa with Some x => id_of st x | None => None end) addrs),
              all_some [bd_get st (a, 0%nat); bd_get st (a, 1%nat); bd_get st (a, 2%nat)] with
        | Some sigma, Some mu =>
          let bb := cs_bay st in
          let ch_back (bid : nat) : option nat := find_idx (Nat.eqb bid) sigma 0 in
          let mx_back (bid : nat) : option nat := find_idx (Nat.eqb bid) mu 0 in
          let ren (d : B.dcb) : option B.dcb :=
            match d with
            | B.DSelect m => option_map B.DSelect (mx_back m)
            | B.DInput m i => option_map (fun x => B.DInput x i) (mx_back m)
            | B.DReselect m => option_map B.DReselect (mx_back m)
            end in
          match all_some (map (fun bid => all_some (map ren (nth bid (B.b_dcbs bb) []))) sigma),
                all_some (map (fun bid => match nth_error (B.b_muxes bb) bid with
                                          | Some mx =>
                                            match ch_back (B.mx_sel mx), ch_back (B.mx_out mx), all_some (map ch_back (B.mx_ins mx)) with
                                            | Some s', Some o', Some ins' =>
                                              Some {| B.mx_init := B.mx_init mx; B.mx_sel := s'; B.mx_out := o'; B.mx_fun := B.mx_fun mx; B.mx_def := B.mx_def mx;
                                                      B.mx_ins := ins'; B.mx_en := B.mx_en mx; B.mx_selected := B.mx_selected mx |}
                                            | _, _, _ => None
                                            end
                                          | None => None
                                          end) mu) with
          | Some dcbs, Some muxes =>
            Some {| B.b_chans := map (fun bid => nth bid (B.b_chans bb) (B.mk_chan false false false false)) sigma;
                    B.b_dcbs := dcbs; B.b_ecbs := map (fun _ => []) sigma; B.b_muxes := muxes; B.b_dirty := [] |}
          | _, _ => None
          end
        | _, _ => None
        end
      end
    end.
End Breakdown.

Definition bd_sx : static :=
  {| s_threads := fam_threads; s_cpus := fam_cpus; s_chans := slot_chans (DecodeDefs.mk_chans [DecodeDefs.M_OVNI; DecodeDefs.M_NOSV]); s_lint := false |}.

Definition bd_expected : B.bay := BD.bd_bay true G.c_ST_TASK_BODY G.c_ST_UNKNOWN_SS G.c_ST_PROGRESSING BD.bd_init.
Definition bd_fam_sx (en : list Z) : static :=
  {| s_threads := fam_threads; s_cpus := fam_cpus; s_chans := slot_chans (DecodeDefs.mk_chans en); s_lint := false |}.
Definition bd_models : list (list Z) := [[DecodeDefs.M_OVNI; DecodeDefs.M_NOSV]; all_models].

Theorem breakdown_wiring_from_source en c : In en bd_models -> In c [0; 1]%nat ->
  match connect_all_bd (bd_fam_sx en) with Ok st => bd_project (bd_fam_sx en) st c | Err _ => None end = Some bd_expected.
Proof. intros [<-|[<-|[]]] [<-|[<-|[]]]; vm_compute; reflexivity. Qed.

Lemma bd_constants : G.c_ST_TASK_BODY = 11 /\ G.c_ST_UNKNOWN_SS = 2 /\ G.c_ST_PROGRESSING = 100 /\
  G.c_CH_SUBSYSTEM = 4 /\ G.c_CH_TYPE = 2 /\ G.c_CH_IDLE = 6.
Proof. repeat split. Qed.
