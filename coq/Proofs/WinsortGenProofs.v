(* ovnisort.c regenerated from the source (Gen/Winsort_gen.v, translate/units/winsort.py) against the
   window-sort model of C16 (Tools/WinsortDefs.v). *)
From Coq Require Import ZArith List Bool Arith Lia ZifyNat ZifyBool Permutation.
From OV Require Import Base.CInt Emu.HeapDefs Tools.WinsortDefs Tools.WinsortPre.
From OV Require Import Proofs.HeapProofs Proofs.PlayerProofs.
From OV Require Proofs.WinsortProofs.
From OV Require Gen.Winsort_gen.
Import ListNotations.
Local Open Scope Z_scope.

(* ------------------------------------------------------------------ readings of ring_reset / ring_add *)

Definition m_ring_add (g : cring) (e : ptr_ev) : cring :=
  let t1 := r_tail g + 1 in
  let t2 := if t1 >=? r_size g then 0 else t1 in
  let h1 := if r_head g =? t2 then t2 + 1 else r_head g in
  let h2 := if h1 >=? r_size g then 0 else h1 in
  mk_cring h2 t2 (r_size g) (upd (r_ev g) (Z.to_nat (r_tail g)) e).

Lemma ring_reset_gen sx st :
  Winsort_gen.ring_reset (Some tt) sx st = Done tt (with_ring st (mk_cring 0 0 (r_size (ring st)) (r_ev (ring st)))).
Proof. reflexivity. Qed.

Lemma ring_add_gen sx st e :
  0 <= r_tail (ring st) < Z.of_nat (length (r_ev (ring st))) ->
  Winsort_gen.ring_add (Some tt) e sx st = Done tt (with_ring st (m_ring_add (ring st) e)).
Proof.
  intros Ht. unfold Winsort_gen.ring_add, m_ring_add.
  unfold need, ite, bind_, bind, ret, set_ring_ev_at, set_ring_tail, set_ring_head, putr,
    get_ring_tail, get_ring_head, get_ring_size.
  cbn [is_null negb andb].
  destruct (Z.leb_spec 0 (r_tail (ring st))); [|lia].
  destruct (Z.ltb_spec (r_tail (ring st)) (Z.of_nat (length (r_ev (ring st))))); [|lia].
  cbn [andb]. destruct st as [f g p s]. destruct g as [h t n ev]. cbn [ring with_ring r_head r_tail r_size r_ev file plan scratch].
  cbv zeta.
  destruct (t + 1 >=? n); cbn [ring with_ring r_head r_tail r_size r_ev file plan scratch].
  - destruct (h =? 0); cbn [ring with_ring r_head r_tail r_size r_ev file plan scratch].
    + destruct (0 + 1 >=? n); reflexivity.
    + destruct (h >=? n); reflexivity.
  - destruct (h =? t + 1); cbn [ring with_ring r_head r_tail r_size r_ev file plan scratch].
    + destruct (t + 1 + 1 >=? n); reflexivity.
    + destruct (h >=? n); reflexivity.
Qed.

(* ------------------------------------------------------------------ (1) the circular buffer holds the last n-1 events *)

(* after len events the event with index k sits in slot k mod n; head and tail are the slots of the oldest
   remembered event and of the next one; the ring remembers the last min len (n-1) events *)
Definition remembered (n len : nat) : nat := Nat.min len (n - 1).

Record Rep (n len : nat) (g : cring) : Prop := {
  rp_n : (1 <= n)%nat;
  rp_size : r_size g = Z.of_nat n;
  rp_len : length (r_ev g) = n;
  rp_tail : exists q t, len = (q * n + t)%nat /\ (t < n)%nat /\ r_tail g = Z.of_nat t;
  rp_head : exists q h, (len - remembered n len = q * n + h)%nat /\ (h < n)%nat /\ r_head g = Z.of_nat h;
  rp_ev : forall k q s, (len - remembered n len <= k < len)%nat -> k = (q * n + s)%nat -> (s < n)%nat ->
                        nth s (r_ev g) None = Some k
}.

Lemma rep_reset n g : (1 <= n)%nat -> r_size g = Z.of_nat n -> length (r_ev g) = n ->
  Rep n 0 (mk_cring 0 0 (r_size g) (r_ev g)).
Proof.
  intros Hn Hs Hl. constructor; cbn [r_size r_ev r_tail r_head]; auto.
  - exists O, O. lia.
  - exists O, O. unfold remembered. lia.
  - intros. lia.
Qed.

Lemma div_unique_nat n q1 s1 q2 s2 : (s1 < n)%nat -> (s2 < n)%nat -> (q1 * n + s1 = q2 * n + s2)%nat -> q1 = q2 /\ s1 = s2.
Proof.
  intros H1 H2 E.
  assert (q1 = q2).
  { destruct (Nat.lt_trichotomy q1 q2) as [L|[L|L]]; [|exact L|]; exfalso; nia. }
  subst. lia.
Qed.

Theorem rep_add n len g : Rep n len g -> Rep n (S len) (m_ring_add g (Some len)).
Proof.
  intros [Hn Hs Hl (qt & t & Et & Ht & Htail) (qh & h & Eh & Hh & Hhead) Hev].
  unfold m_ring_add. rewrite Hs, Htail, Hhead. cbv zeta.
  assert (Hc : remembered n (S len) = if (len <? n - 1)%nat then S len else (n - 1)%nat).
  { unfold remembered. destruct (Nat.ltb_spec len (n - 1)); lia. }
  assert (Hc0 : remembered n len = if (len <? n - 1)%nat then len else (n - 1)%nat).
  { unfold remembered. destruct (Nat.ltb_spec len (n - 1)); lia. }
  constructor; cbn [r_size r_ev r_tail r_head]; auto.
  - rewrite length_upd. exact Hl.
  - destruct (Z.geb_spec (Z.of_nat t + 1) (Z.of_nat n)).
    + exists (S qt), O. assert (t = (n - 1)%nat) by lia. subst t. repeat split; try lia; cbn [Nat.mul]; lia.
    + exists qt, (S t). repeat split; lia.
  - (* head *)
    destruct (Nat.ltb_spec len (n - 1)) as [Hsmall|Hfull].
    + (* not full: head stays 0, tail = len + 1 <= n - 1 *)
      rewrite Hc0 in Eh. assert (qh = O /\ h = O) as [-> ->] by nia.
      assert (qt = O) by nia. subst qt. assert (t = len) by lia. subst t.
      exists O, O. rewrite Hc.
      destruct (Z.geb_spec (Z.of_nat len + 1) (Z.of_nat n)); [lia|].
      destruct (Z.eqb_spec (Z.of_nat 0) (Z.of_nat len + 1)); [lia|].
      destruct (Z.geb_spec (Z.of_nat 0) (Z.of_nat n)); lia.
    + (* full: the oldest entry is dropped *)
      rewrite Hc0 in Eh. rewrite Hc.
      (* len - (n-1) = qh n + h, len = qt n + t: h = t + 1 mod n *)
      destruct (Z.geb_spec (Z.of_nat t + 1) (Z.of_nat n)) as [Hw|Hw].
      * (* t = n - 1: new tail 0; old head = (len - n + 1) mod n = 0 *)
        assert (t = (n - 1)%nat) by lia. subst t.
        assert (Hq : (qh * n + h = qt * n + 0)%nat) by nia.
        destruct (div_unique_nat n qh h qt O Hh ltac:(lia) Hq) as [-> ->].
        destruct (Z.eqb_spec (Z.of_nat 0) 0); [|lia].
        destruct (Z.geb_spec (0 + 1) (Z.of_nat n)).
        -- exists (S qt), O. cbn [Nat.mul] in *. repeat split; lia.
        -- exists qt, 1%nat. cbn [Nat.mul] in *. repeat split; lia.
      * assert (Hqt : (1 <= qt)%nat) by (destruct qt; [cbn [Nat.mul] in Et; lia|lia]).
        destruct qt as [|qt']; [lia|].
        assert (Hq : (qh * n + h = qt' * n + (t + 1))%nat) by (cbn [Nat.mul] in Et; lia).
        destruct (div_unique_nat n qh h qt' (t + 1)%nat Hh ltac:(lia) Hq) as [-> ->].
        destruct (Z.eqb_spec (Z.of_nat (t + 1)) (Z.of_nat t + 1)); [|lia].
        destruct (Z.geb_spec (Z.of_nat t + 1 + 1) (Z.of_nat n)).
        -- exists (S qt'), O. cbn [Nat.mul] in *. repeat split; lia.
        -- exists qt', (t + 2)%nat. cbn [Nat.mul] in *. repeat split; lia.
  - (* entries *)
    intros k q s Hk Ek Hs'. rewrite Nat2Z.id.
    destruct (Nat.eq_dec k len) as [->|Hne].
    + assert (Hq : (q * n + s = qt * n + t)%nat) by lia.
      destruct (div_unique_nat n q s qt t Hs' Ht Hq) as [-> ->].
      apply nth_upd_same. lia.
    + assert (s <> t).
      { intros ->. (* k = q n + t < len = qt n + t, and len - k <= n - 1 < n *)
        assert (Hlt : (q < qt)%nat) by nia.
        replace qt with (q + S (qt - q - 1))%nat in Et by lia.
        rewrite Nat.mul_add_distr_r in Et. cbn [Nat.mul] in Et.
        rewrite Hc in Hk. destruct (Nat.ltb_spec len (n - 1)); nia. }
      rewrite nth_upd_other by auto. apply (Hev k q s); auto.
      rewrite Hc in Hk. rewrite Hc0. destruct (len <? n - 1)%nat; lia.
Qed.

(* ------------------------------------------------------------------ (2) find_destination *)

Lemma wrap_dec_lt x n : 0 < n -> (if x mod n - 1 <? 0 then n - 1 else x mod n - 1) = (x - 1) mod n.
Proof.
  intros Hn. pose proof (Z.mod_pos_bound x n Hn). pose proof (Z.mod_pos_bound (x-1) n Hn).
  pose proof (Z.div_mod x n ltac:(lia)). pose proof (Z.div_mod (x-1) n ltac:(lia)).
  destruct (Z.ltb_spec (x mod n - 1) 0).
  - assert (x mod n = 0) by lia. apply Z.mod_unique with (q := x / n - 1); [left; lia|nia].
  - apply Z.mod_unique with (q := x / n); [left; lia|nia].
Qed.

Lemma wrap_dec_ge x n : 0 < n -> (if x mod n - 1 >=? 0 then x mod n - 1 else n - 1) = (x - 1) mod n.
Proof.
  intros Hn. rewrite <- (wrap_dec_lt x n Hn).
  destruct (Z.geb_spec (x mod n - 1) 0); destruct (Z.ltb_spec (x mod n - 1) 0); lia.
Qed.

Lemma mod_shift_neq x d n : 0 < d < n -> (x - d) mod n <> x mod n.
Proof.
  intros Hd E. assert (Hn : 0 < n) by lia.
  pose proof (Z.div_mod x n ltac:(lia)). pose proof (Z.div_mod (x-d) n ltac:(lia)).
  rewrite E in H0. assert (n * (x / n - (x - d) / n) = d) by lia.
  assert (0 < x / n - (x - d) / n) by nia. nia.
Qed.

(* slot of the j-th newest event *)
Definition slotZ (n len : nat) (j : nat) : Z := (Z.of_nat len - 1 - Z.of_nat j) mod Z.of_nat n.

Lemma rep_tailZ n len g : Rep n len g -> r_tail g = Z.of_nat len mod Z.of_nat n.
Proof.
  intros [Hn _ _ (q & t & E & Ht & Hq) _ _]. rewrite Hq.
  apply Z.mod_unique with (q := Z.of_nat q); [left; lia|nia].
Qed.

Lemma rep_headZ n len g : Rep n len g -> r_head g = (Z.of_nat len - Z.of_nat (remembered n len)) mod Z.of_nat n.
Proof.
  intros [Hn _ _ _ (q & h & E & Hh & Hq) _]. rewrite Hq.
  assert (remembered n len <= len)%nat by (unfold remembered; lia).
  apply Z.mod_unique with (q := Z.of_nat q); [left; lia|nia].
Qed.

Lemma rep_entry n len g j : Rep n len g -> (j < remembered n len)%nat ->
  ix_ptr_ev (r_ev g) (slotZ n len j) = Some (len - 1 - j)%nat.
Proof.
  intros R Hj. destruct R as [Hn _ _ _ _ Hev].
  assert (Hr : (remembered n len <= len)%nat) by (unfold remembered; lia).
  unfold ix_ptr_ev, slotZ.
  replace (Z.of_nat len - 1 - Z.of_nat j) with (Z.of_nat (len - 1 - j)) by lia.
  rewrite <- Nat2Z.inj_mod, Nat2Z.id.
  apply (Hev (len - 1 - j)%nat ((len - 1 - j) / n)%nat ((len - 1 - j) mod n)%nat).
  - lia.
  - rewrite Nat.mul_comm. apply Nat.div_mod. lia.
  - apply Nat.mod_upper_bound. lia.
Qed.

Lemma skipn_nth_cons {A} (l : list A) d : forall j, (j < length l)%nat -> skipn j l = nth j l d :: skipn (S j) l.
Proof.
  induction l as [|a t IH]; intros [|j] H; cbn [length] in H; try lia; cbn [skipn nth]; [reflexivity|].
  apply IH. lia.
Qed.

Lemma nth_firstn_lt {A} (l : list A) d : forall c j, (j < c)%nat -> nth j (firstn c l) d = nth j l d.
Proof.
  induction l as [|a t IH]; intros [|c] [|j] H; cbn [firstn nth]; try lia; try reflexivity.
  apply IH. lia.
Qed.

Section FdLoop.
  Variables (n len : nat) (sx : wenv) (st : wstate_c) (rd : list ev) (m : Z).
  Let c := remembered n len.
  Let N := Z.of_nat n.
  Variable cond : Z -> wenv -> wstate_c -> bool.
  Variable next : Z -> wenv -> wstate_c -> Z.
  Variable body : Z -> (Z * Z) -> M (lres (Z * Z)).
  Hypothesis Hn : (2 <= n)%nat.
  Hypothesis Hlen : (c <= length rd)%nat.
  Hypothesis Hcond : forall i, cond i sx st = negb (i =? slotZ n len c).
  Hypothesis Hnext : forall i, next i sx st = if i - 1 <? 0 then N - 1 else i - 1.
  Hypothesis Hbody : forall j lc nb, (j < c)%nat ->
    body (slotZ n len j) (lc, nb) sx st =
    if clock (nth j rd ev0) <? m then Done (LRet (slotZ n len j)) st
    else Done (LCont (clock (nth j rd ev0), nb + 1)) st.

  Lemma fd_loop : forall d j fuel lc, (j + d = c)%nat -> (d < fuel)%nat ->
    exists lc', for_go fuel cond next body (slotZ n len j) (lc, Z.of_nat j) sx st =
    match find_lower m (skipn j (firstn c rd)) j with
    | Some nb => Done (LRet (slotZ n len nb)) st
    | None => Done (LCont (lc', Z.of_nat c)) st
    end.
  Proof.
    assert (Hc : (c <= n - 1)%nat) by (unfold c, remembered; lia).
    induction d as [|d IH]; intros j fuel lc Hj Hf.
    - assert (j = c) by lia. subst j. destruct fuel as [|f]; [lia|]. cbn [for_go].
      rewrite Hcond, Z.eqb_refl. cbn [negb].
      rewrite skipn_all2 by (rewrite firstn_length; lia). cbn [find_lower]. exists lc. reflexivity.
    - destruct fuel as [|f]; [lia|]. cbn [for_go]. rewrite Hcond.
      assert (Hne : slotZ n len j <> slotZ n len c).
      { unfold slotZ. replace (Z.of_nat len - 1 - Z.of_nat c) with (Z.of_nat len - 1 - Z.of_nat j - Z.of_nat (c - j)) by lia.
        intros E. symmetry in E. revert E. apply mod_shift_neq. lia. }
      destruct (Z.eqb_spec (slotZ n len j) (slotZ n len c)); [contradiction|]. cbn [negb].
      rewrite (Hbody j lc (Z.of_nat j)) by lia.
      rewrite (skipn_nth_cons (firstn c rd) ev0 j) by (rewrite firstn_length; lia).
      rewrite nth_firstn_lt by lia. cbn [find_lower].
      destruct (clock (nth j rd ev0) <? m).
      + exists lc. reflexivity.
      + rewrite Hnext.
        assert (En : (if slotZ n len j - 1 <? 0 then N - 1 else slotZ n len j - 1) = slotZ n len (S j)).
        { unfold slotZ, N. rewrite wrap_dec_lt by lia. f_equal. lia. }
        rewrite En. replace (Z.of_nat j + 1) with (Z.of_nat (S j)) by lia.
        apply IH; lia.
  Qed.
End FdLoop.

Lemma if_same (b : bool) : (if b then true else true) = true.
Proof. destruct b; reflexivity. Qed.

Lemma find_lower_bound m l : forall i j, find_lower m l i = Some j -> (i <= j < i + length l)%nat.
Proof.
  induction l as [|e t IH]; cbn [find_lower length]; intros i j H; [discriminate|].
  destruct (clock e <? m); [inversion H; lia|]. apply IH in H. lia.
Qed.

Theorem find_destination_gen n len sx st rd m :
  (2 <= n)%nat -> Rep n len (ring st) -> (1 <= len)%nat -> length rd = len ->
  (forall j, (j < len)%nat -> nth j rd ev0 = nth (len - 1 - j) (file st) ev0) ->
  exists i0, Winsort_gen.find_destination (Some tt) m sx st = Done i0 st /\
    match WinsortDefs.find_destination n rd m with
    | Some w => 0 <= i0 /\ ix_ptr_ev (r_ev (ring st)) i0 = Some (len - w)%nat /\ (1 <= w <= len)%nat /\
                i0 = Z.of_nat (len - w) mod Z.of_nat n /\ (w <= remembered n len)%nat
    | None => i0 = -1
    end.
Proof.
  intros Hn R Hl1 Hrd Habs.
  pose proof (rep_tailZ _ _ _ R) as Ht. pose proof (rep_headZ _ _ _ R) as Hh. pose proof (rp_size _ _ _ R) as Hs.
  unfold Winsort_gen.find_destination.
  unfold need, ite, bind, eval, ret, fail, for_loop. cbn [is_null negb andb].
  unfold get_ring_tail, get_ring_head, get_ring_size, get_ring_ev.
  rewrite !if_same. cbn [andb].
  set (c := remembered n len).
  assert (Hc : (c <= n - 1)%nat /\ (c <= len)%nat) by (unfold c, remembered; lia).
  assert (Estart : (if r_tail (ring st) - 1 >=? 0 then r_tail (ring st) - 1 else r_size (ring st) - 1) = slotZ n len 0).
  { rewrite Ht, Hs, wrap_dec_ge by lia. unfold slotZ. f_equal. lia. }
  assert (Eend : (if r_head (ring st) - 1 >=? 0 then r_head (ring st) - 1 else r_size (ring st) - 1) = slotZ n len c).
  { rewrite Hh, Hs, wrap_dec_ge by lia. unfold slotZ. f_equal. fold c. lia. }
  rewrite Estart, Eend.
  assert (Ering : firstn (n - 1) rd = firstn c rd).
  { unfold c, remembered. destruct (Nat.le_ge_cases len (n - 1)).
    - rewrite Nat.min_l by lia. rewrite !firstn_all2 by lia. reflexivity.
    - rewrite Nat.min_r by lia. reflexivity. }
  match goal with |- context [for_go ?f ?cd ?nx ?bd _ _ sx st] =>
    destruct (fd_loop n len sx st rd m cd nx bd Hn) with (d := c) (j := O) (fuel := f) (lc := cast_uint64 0) as [lc' EL]
  end.
  - fold c. lia.
  - intros i. reflexivity.
  - intros i. cbv beta. rewrite Hs. reflexivity.
  - intros j lc nb Hj. fold c in Hj. cbv beta iota.
    rewrite (rep_entry n len (ring st) j R Hj). cbn [is_null negb].
    unfold get_ovni_ev_header_clock, ev_at. rewrite <- (Habs j) by lia. reflexivity.
  - reflexivity.
  - unfold loop_fuel. rewrite Hs, Nat2Z.id. lia.
  - change (Z.of_nat 0) with 0 in EL. rewrite EL. clear EL. fold c.
    unfold WinsortDefs.find_destination. rewrite Ering. cbn [skipn].
    destruct (find_lower m (firstn c rd) 0) as [nb|] eqn:F.
    + apply find_lower_bound in F. rewrite firstn_length, Hrd in F. rewrite Nat.min_l in F by lia.
      exists (slotZ n len nb). split; [reflexivity|]. split; [|split; [|split; [|split]]].
      * unfold slotZ. apply Z.mod_pos_bound. lia.
      * rewrite (rep_entry n len (ring st) nb R) by (fold c; lia). f_equal. lia.
      * lia.
      * unfold slotZ. f_equal. lia.
      * fold c. lia.
    + rewrite firstn_length, Hrd, Nat.min_l by lia. rewrite Hs.
      destruct (Nat.ltb_spec c (n - 1)) as [Hsm|Hfl].
      * assert (Ec : c = len) by (unfold c, remembered in *; lia).
        destruct (Z.ltb_spec (Z.of_nat c) (Z.of_nat n - 1)); [|lia].
        rewrite Hh, Ht. fold c. rewrite Ec. rewrite Z.sub_diag, Z.mod_0_l by lia. cbn [Z.eqb negb].
        rewrite Z.mod_small by lia.
        destruct (Z.geb_spec (Z.of_nat len) (Z.of_nat n - 1)); [lia|].
        exists 0. split; [reflexivity|]. split; [lia|]. split; [|split; [lia|split]].
        -- pose proof (rep_entry n len (ring st) (len - 1)%nat R ltac:(fold c; lia)) as He.
           unfold slotZ in He. replace (Z.of_nat len - 1 - Z.of_nat (len - 1)) with 0 in He by lia.
           rewrite Z.mod_0_l in He by lia. rewrite He. f_equal. lia.
        -- rewrite Nat.sub_diag. rewrite Z.mod_0_l by lia. reflexivity.
        -- fold c. lia.
      * destruct (Z.ltb_spec (Z.of_nat c) (Z.of_nat n - 1)); [lia|].
        exists (-1). split; reflexivity.
Qed.

(* ------------------------------------------------------------------ (3, partial) execute_sort_plan: the refusal *)

Lemma min_clock_head_le a t : min_clock (a :: t) <= clock a.
Proof. pose proof (WinsortProofs.min_clock_le (a :: t)) as H. inversion H; assumption. Qed.

(* the clock execute_sort_plan looks a destination for is the minimum clock of the region body, and when the
   model finds no destination for it the generated function returns -1 before anything is written *)
Theorem execute_sort_plan_nodest n len sx st rd b :
  (2 <= n)%nat -> Rep n len (ring st) -> (1 <= len)%nat -> length rd = len ->
  (forall j, (j < len)%nat -> nth j rd ev0 = nth (len - 1 - j) (file st) ev0) ->
  sp_bad0 (plan st) = Some b -> sp_next (plan st) = Some len -> (b < len)%nat -> (len <= length (file st))%nat ->
  WinsortDefs.find_destination n rd (min_clock (between st (Some b) (Some len))) = None ->
  Winsort_gen.execute_sort_plan (Some tt) sx st = Fail E_FAIL.
Proof.
  intros Hn R Hl1 Hrd Habs Hb Hnx Hbl Hfl Hnone.
  unfold Winsort_gen.execute_sort_plan.
  unfold need, ite, bind, bind_, eval. cbn [is_null negb andb].
  unfold get_sortplan_bad0, get_sortplan_next, get_sortplan_bad0_header_clock, get_sortplan_r, find_min_clock.
  rewrite Hb, Hnx. cbn [is_null negb andb ev_at].
  set (mc := min_clock (between st (Some b) (Some len))) in *.
  assert (Hmc : mc <= clock (nth b (file st) ev0)).
  { unfold mc, between, idx.
    rewrite (skipn_nth_cons (file st) ev0 b) by lia.
    destruct (len - b)%nat as [|k] eqn:E; [lia|]. cbn [firstn]. apply min_clock_head_le. }
  destruct (find_destination_gen n len sx st rd mc Hn R Hl1 Hrd Habs) as [i0 [E1 E2]].
  rewrite Hnone in E2. subst i0.
  destruct (Z.ltb_spec mc (clock (nth b (file st) ev0))).
  - rewrite E1. reflexivity.
  - assert (Eq : clock (nth b (file st) ev0) = mc) by lia. rewrite Eq, E1. reflexivity.
Qed.

(* ------------------------------------------------------------------ (3) execute_sort_plan: the success path *)

Definition slotK (n k : nat) : Z := Z.of_nat k mod Z.of_nat n.

Lemma wrap_inc x n : 0 < n -> (if x mod n + 1 >=? n then 0 else x mod n + 1) = (x + 1) mod n.
Proof.
  intros Hn. pose proof (Z.mod_pos_bound x n Hn). pose proof (Z.div_mod x n ltac:(lia)).
  destruct (Z.geb_spec (x mod n + 1) n).
  - apply Z.mod_unique with (q := x / n + 1); [left; lia|nia].
  - apply Z.mod_unique with (q := x / n); [left; lia|nia].
Qed.

Lemma rem_inc x n : 0 < n -> c_rem (x mod n + 1) n = (x + 1) mod n.
Proof.
  intros Hn. pose proof (Z.mod_pos_bound x n Hn). unfold c_rem.
  rewrite Z.rem_mod_nonneg by lia. rewrite Zplus_mod_idemp_l. reflexivity.
Qed.

Lemma rep_entryK n len g k : Rep n len g -> (len - remembered n len <= k < len)%nat ->
  ix_ptr_ev (r_ev g) (slotK n k) = Some k.
Proof.
  intros R Hk. pose proof (rep_entry n len g (len - 1 - k)%nat R ltac:(lia)) as H.
  unfold slotZ in H. unfold slotK.
  replace (Z.of_nat len - 1 - Z.of_nat (len - 1 - k)) with (Z.of_nat k) in H by lia.
  rewrite H. f_equal. lia.
Qed.

Lemma slotK_range n k : (1 <= n)%nat -> 0 <= slotK n k < Z.of_nat n.
Proof. intros. unfold slotK. apply Z.mod_pos_bound. lia. Qed.

Lemma slotK_neq n k len : (k < len)%nat -> (len - k < n)%nat -> slotK n k <> slotK n len.
Proof.
  intros H1 H2. unfold slotK. replace (Z.of_nat k) with (Z.of_nat len - Z.of_nat (len - k)) by lia.
  apply mod_shift_neq. lia.
Qed.

Lemma upd_same {A} (l : list A) d : forall i, (i < length l)%nat -> upd l i (nth i l d) = l.
Proof.
  induction l as [|a t IH]; intros [|i] H; cbn [length] in H; try lia; cbn [upd nth]; [reflexivity|].
  rewrite IH by lia. reflexivity.
Qed.

(* rebuild_ring re-points the entries at the events they already designate (pointers are event indices) *)
Lemma rebuild_id n len g : Rep n len g -> forall d k fuel,
  (k + d = len)%nat -> (len - remembered n len <= k)%nat -> (d < fuel)%nat ->
  rebuild fuel g (slotK n k) k len = Some g.
Proof.
  intros R. pose proof (rep_tailZ _ _ _ R) as Ht. pose proof (rp_size _ _ _ R) as Hs.
  pose proof (rp_n _ _ _ R) as Hn. pose proof (rp_len _ _ _ R) as Hl.
  assert (Hc : (remembered n len <= n - 1)%nat) by (unfold remembered; lia).
  induction d as [|d IH]; intros k fuel Hk Hlo Hf; (destruct fuel as [|f]; [lia|]); cbn [rebuild].
  - assert (k = len) by lia. subst k. rewrite Ht. unfold slotK. rewrite Z.eqb_refl, Nat.eqb_refl. reflexivity.
  - rewrite Ht. fold (slotK n len).
    destruct (Z.eqb_spec (slotK n k) (slotK n len)) as [E|_]; [exfalso; revert E; apply slotK_neq; lia|].
    destruct (Nat.leb_spec len k); [lia|].
    pose proof (rep_entryK n len g k R ltac:(lia)) as He. unfold ix_ptr_ev in He.
    pose proof (slotK_range n k Hn) as Hr.
    rewrite <- He. rewrite upd_same by (rewrite Hl; lia).
    rewrite ?Hs.
    assert (Eg : mk_cring (r_head g) (slotK n len) (Z.of_nat n) (r_ev g) = g).
    { unfold slotK. rewrite <- Ht, <- Hs. destruct g; reflexivity. }
    rewrite Eg.
    unfold slotK at 1 2. rewrite wrap_inc by lia.
    replace (Z.of_nat k + 1) with (Z.of_nat (S k)) by lia. fold (slotK n (S k)).
    apply IH; lia.
Qed.

Section RcLoop.
  Variables (n len a : nat) (sx : wenv) (st : wstate_c).
  Variable cond : Z -> wenv -> wstate_c -> bool.
  Variable next : Z -> wenv -> wstate_c -> Z.
  Variable body : Z -> Z -> M (lres Z).
  Hypothesis Hn : (2 <= n)%nat.
  Hypothesis Hw : (len - a < n)%nat.
  Hypothesis Hfile : (len <= length (file st))%nat.
  Hypothesis Hcond : forall i, cond i sx st = negb (i =? slotK n len).
  Hypothesis Hnext : forall i, next i sx st = c_rem (i + 1) (Z.of_nat n).
  Hypothesis Hbody : forall k last, (a <= k < len)%nat ->
    body (slotK n k) last sx st =
    if clock (nth k (file st) ev0) <? last then Fail E_DIE else Done (LCont (clock (nth k (file st) ev0))) st.

  Lemma rc_loop : forall d k fuel last, (k + d = len)%nat -> (a <= k)%nat -> (d < fuel)%nat ->
    if sorted_from last (firstn d (skipn k (file st)))
    then exists last', for_go fuel cond next body (slotK n k) last sx st = Done (LCont last') st
    else for_go fuel cond next body (slotK n k) last sx st = Fail E_DIE.
  Proof.
    induction d as [|d IH]; intros k fuel last Hk Ha Hf; (destruct fuel as [|f]; [lia|]); cbn [for_go]; rewrite Hcond.
    - assert (k = len) by lia. subst k. rewrite Z.eqb_refl. cbn [negb firstn sorted_from]. eauto.
    - destruct (Z.eqb_spec (slotK n k) (slotK n len)) as [E|_]; [exfalso; revert E; apply slotK_neq; lia|].
      cbn [negb]. rewrite (Hbody k last) by lia.
      rewrite (skipn_nth_cons (file st) ev0 k) by lia. cbn [firstn sorted_from].
      destruct (clock (nth k (file st) ev0) <? last); [reflexivity|].
      rewrite Hnext. unfold slotK at 1 2. rewrite rem_inc by lia.
      replace (Z.of_nat k + 1) with (Z.of_nat (S k)) by lia. fold (slotK n (S k)).
      apply IH; lia.
  Qed.
End RcLoop.

(* ring_check from slot(a): dies iff the events a .. len-1 of the file are not in clock order (from 0) *)
Lemma ring_check_gen n len a sx st :
  (2 <= n)%nat -> Rep n len (ring st) -> (len - remembered n len <= a <= len)%nat -> (len <= length (file st))%nat ->
  Winsort_gen.ring_check (Some tt) (slotK n a) sx st =
  if sorted_from 0 (firstn (len - a) (skipn a (file st))) then Done tt st else Fail E_DIE.
Proof.
  intros Hn R Ha Hfl.
  pose proof (rep_tailZ _ _ _ R) as Ht. pose proof (rp_size _ _ _ R) as Hs.
  assert (Hc : (remembered n len <= n - 1)%nat) by (unfold remembered; lia).
  unfold Winsort_gen.ring_check.
  unfold need, ite, bind, eval, ret, fail, for_loop. cbn [is_null negb andb].
  unfold get_ring_tail, get_ring_size, get_ring_ev.
  change (cast_uint64 0) with 0.
  match goal with |- context [for_go ?f ?cd ?nx ?bd _ _ sx st] =>
    pose proof (rc_loop n len a sx st cd nx bd Hn ltac:(lia) Hfl) as L
  end.
  specialize (L ltac:(intros i; cbv beta; rewrite Ht; reflexivity)).
  specialize (L ltac:(intros i; cbv beta; rewrite Hs; reflexivity)).
  assert (Hb : forall k last, (a <= k < len)%nat ->
    (fun (i : Z) (c_ : Z) => let last_clock := c_ in
       fun (sx0 : wenv) (st0 : wstate_c) =>
         if negb (is_null (ix_ptr_ev (r_ev (ring st0)) i)) then
           (fun (sx1 : wenv) (st1 : wstate_c) =>
              if get_ovni_ev_header_clock sx1 st1 (ix_ptr_ev (r_ev (ring st1)) i) <? last_clock then Fail E_DIE
              else Done (LCont (get_ovni_ev_header_clock sx1 st1 (ix_ptr_ev (r_ev (ring st1)) i))) st1) sx0 st0
         else Fail E_TRAP) (slotK n k) last sx st =
    if clock (nth k (file st) ev0) <? last then Fail E_DIE else Done (LCont (clock (nth k (file st) ev0))) st).
  { intros k last Hk. cbv beta zeta. rewrite (rep_entryK n len (ring st) k R) by lia. reflexivity. }
  specialize (L Hb (len - a)%nat a (loop_fuel sx st) 0 ltac:(lia) ltac:(lia)
                ltac:(unfold loop_fuel; rewrite Hs, Nat2Z.id; lia)).
  destruct (sorted_from 0 (firstn (len - a) (skipn a (file st)))).
  - destruct L as [last' L]. rewrite L. reflexivity.
  - rewrite L. reflexivity.
Qed.

(* bytes and events *)
Lemma total_size_app l1 l2 : total_size (l1 ++ l2) = total_size l1 + total_size l2.
Proof. unfold total_size. induction l1 as [|e t IH]; cbn [app fold_right]; [reflexivity|]. rewrite IH. lia. Qed.

Lemma firstn_add {A} (l : list A) a w : firstn (a + w) l = firstn a l ++ firstn w (skipn a l).
Proof.
  revert l. induction a as [|a IH]; intros l; [reflexivity|].
  destruct l as [|x t]; cbn [Nat.add firstn skipn app]; [rewrite firstn_nil; reflexivity|]. rewrite IH. reflexivity.
Qed.

Definition sizes_ok (l : list ev) : Prop := Forall (fun e => 0 < esize e) l.

Lemma total_size_nonneg l : sizes_ok l -> 0 <= total_size l.
Proof. unfold total_size. induction 1; cbn [fold_right]; lia. Qed.

Lemma take_bytes_exact l : sizes_ok l -> forall w, (w <= length l)%nat ->
  take_bytes l (total_size (firstn w l)) = Some (firstn w l).
Proof.
  induction 1 as [|e t He Ht IH]; intros w Hw.
  - destruct w; reflexivity.
  - destruct w as [|w]; [reflexivity|]. cbn [firstn total_size fold_right length] in *. fold (total_size (firstn w t)).
    pose proof (total_size_nonneg (firstn w t)) as Hnn.
    assert (sizes_ok (firstn w t)) by (apply WinsortProofs.Forall_firstn'; exact Ht). specialize (Hnn H).
    cbn [take_bytes].
    destruct (Z.eqb_spec (esize e + total_size (firstn w t)) 0); [lia|].
    destruct (Z.leb_spec (esize e) (esize e + total_size (firstn w t))); [|lia].
    replace (esize e + total_size (firstn w t) - esize e) with (total_size (firstn w t)) by lia.
    rewrite IH by lia. reflexivity.
Qed.

(* the processed prefix of the model (newest first) is the first len events of the file *)
Definition Abs (st : wstate_c) (len : nat) (rd : list ev) : Prop :=
  rd = rev (firstn len (file st)) /\ (len <= length (file st))%nat.

Lemma abs_length st len rd : Abs st len rd -> length rd = len.
Proof. intros [-> H]. rewrite rev_length, firstn_length. lia. Qed.

Lemma abs_nth st len rd : Abs st len rd -> forall j, (j < len)%nat -> nth j rd ev0 = nth (len - 1 - j) (file st) ev0.
Proof.
  intros [-> H] j Hj. rewrite rev_nth by (rewrite firstn_length; lia).
  rewrite firstn_length, Nat.min_l by lia. rewrite nth_firstn_lt by lia. f_equal. lia.
Qed.

(* the k / w newest processed events, oldest first, are a slice of the file *)
Lemma abs_slice st len rd w : Abs st len rd -> (w <= len)%nat ->
  rev (firstn w rd) = firstn w (skipn (len - w) (file st)) /\ skipn w rd = rev (firstn (len - w) (file st)).
Proof.
  intros [-> H] Hw. split.
  - rewrite firstn_rev, rev_involutive, firstn_length, Nat.min_l by lia.
    rewrite skipn_firstn_comm. f_equal. lia.
  - rewrite skipn_rev, firstn_length, Nat.min_l by lia. rewrite firstn_firstn. f_equal. f_equal. lia.
Qed.

Lemma cast_uint64_small z : 0 <= z < 2 ^ 64 -> cast_uint64 z = z.
Proof. intros H. unfold cast_uint64. apply wrapu_small. exact H. Qed.
Lemma cast_int64_small' z : - 2 ^ 63 <= z < 2 ^ 63 -> cast_int64 z = z.
Proof. intros H. unfold cast_int64. apply wraps_small; [lia|]. exact H. Qed.

Lemma sizes_firstn k l : sizes_ok l -> sizes_ok (firstn k l).
Proof. apply WinsortProofs.Forall_firstn'. Qed.
Lemma sizes_skipn k l : sizes_ok l -> sizes_ok (skipn k l).
Proof.
  unfold sizes_ok. rewrite !Forall_forall. intros H x Hx. apply H.
  rewrite <- (firstn_skipn k l). apply in_or_app. auto.
Qed.
Lemma sizes_app l1 l2 : sizes_ok l1 -> sizes_ok l2 -> sizes_ok (l1 ++ l2).
Proof. unfold sizes_ok. intros. apply Forall_app. auto. Qed.
Lemma sizes_perm l l' : Permutation l l' -> sizes_ok l -> sizes_ok l'.
Proof. unfold sizes_ok. intros P H. rewrite Forall_forall in *. intros x Hx. apply H. eapply Permutation_in; [apply Permutation_sym; exact P|exact Hx]. Qed.

Lemma overwrite_facts (f : list ev) a w sorted :
  (a + w <= length f)%nat -> Permutation (firstn w (skipn a f)) sorted ->
  let f' := firstn a f ++ sorted ++ skipn (a + length sorted) f in
  firstn (a + w) f' = firstn a f ++ sorted /\ skipn (a + w) f' = skipn (a + w) f /\
  length f' = length f /\ total_size f' = total_size f /\ (sizes_ok f -> sizes_ok f').
Proof.
  intros Hl P f'.
  assert (Hls : length sorted = w).
  { rewrite <- (Permutation_length P), firstn_length, skipn_length. lia. }
  assert (Hla : length (firstn a f) = a) by (rewrite firstn_length; lia).
  assert (Ef : f = firstn a f ++ firstn w (skipn a f) ++ skipn (a + w) f).
  { rewrite app_assoc, <- firstn_add. symmetry. apply firstn_skipn. }
  unfold f'. rewrite Hls. repeat split.
  - rewrite app_assoc. replace (a + w)%nat with (length (firstn a f ++ sorted) + 0)%nat by (rewrite app_length; lia).
    rewrite firstn_app_2. cbn [firstn]. rewrite app_nil_r. reflexivity.
  - rewrite app_assoc. rewrite skipn_app. rewrite skipn_all2 by (rewrite app_length; lia).
    rewrite app_length, Hla, Hls, Nat.sub_diag. reflexivity.
  - rewrite !app_length, Hla, Hls, skipn_length. lia.
  - rewrite !total_size_app. rewrite <- (WinsortProofs.total_size_perm _ _ P). rewrite <- !total_size_app, <- Ef. reflexivity.
  - intros Hs. apply sizes_app; [apply sizes_firstn; exact Hs|]. apply sizes_app; [|apply sizes_skipn; exact Hs].
    apply (sizes_perm _ _ P). apply sizes_firstn, sizes_skipn. exact Hs.
Qed.

Theorem execute_sort_plan_gen n len k sx st rd :
  (2 <= n)%nat -> Rep n len (ring st) -> Abs st len rd -> (1 <= k <= len)%nat ->
  sp_bad0 (plan st) = Some (len - k)%nat -> sp_next (plan st) = Some len ->
  sizes_ok (file st) -> total_size (file st) < 2 ^ 63 ->
  match exec_plan_r n k rd with
  | PlanNoDest => Winsort_gen.execute_sort_plan (Some tt) sx st = Fail E_FAIL
  | PlanDie _ => Winsort_gen.execute_sort_plan (Some tt) sx st = Fail E_DIE
  | PlanOk rd' =>
      exists st', Winsort_gen.execute_sort_plan (Some tt) sx st = Done tt st' /\
        ring st' = ring st /\ plan st' = plan st /\ Abs st' len rd' /\
        skipn len (file st') = skipn len (file st) /\ length (file st') = length (file st) /\
        sizes_ok (file st') /\ total_size (file st') = total_size (file st)
  end.
Proof.
  intros Hn R A Hk Hb Hnx Hsz Htot.
  pose proof (abs_length _ _ _ A) as Hrd. pose proof (abs_nth _ _ _ A) as Habs.
  destruct A as [Erd Hfl]. assert (A : Abs st len rd) by (split; assumption).
  unfold exec_plan_r.
  destruct (abs_slice st len rd k A ltac:(lia)) as [Ebody _]. rewrite Ebody.
  assert (Ebtw : firstn k (skipn (len - k) (file st)) = between st (Some (len - k)%nat) (Some len)).
  { unfold between, idx. f_equal. lia. }
  rewrite Ebtw. set (mc := min_clock (between st (Some (len - k)%nat) (Some len))).
  destruct (WinsortDefs.find_destination n rd mc) as [w|] eqn:FD.
  2:{ apply (execute_sort_plan_nodest n len sx st rd (len - k)%nat); auto; lia. }
  destruct (find_destination_gen n len sx st rd mc Hn R ltac:(lia) Hrd Habs) as [i0 [E1 E2]].
  rewrite FD in E2. destruct E2 as (Hi0 & Hix & Hw & Hslot & Hwc).
  destruct (abs_slice st len rd w A ltac:(lia)) as [Ewin Eskip]. rewrite Ewin, Eskip.
  set (a := (len - w)%nat) in *.
  set (window := firstn w (skipn a (file st))).
  assert (Hmc : mc <= clock (nth (len - k) (file st) ev0)).
  { unfold mc, between, idx. rewrite (skipn_nth_cons (file st) ev0 (len - k)) by lia.
    destruct (len - (len - k))%nat as [|k'] eqn:E; [lia|]. cbn [firstn]. apply min_clock_head_le. }
  (* sizes *)
  assert (Hlenw : length window = w) by (unfold window; rewrite firstn_length, skipn_length; lia).
  assert (Esplit : firstn len (file st) = firstn a (file st) ++ window).
  { unfold window. replace len with (a + w)%nat at 1 by lia. apply firstn_add. }
  assert (Hwpos : 0 < total_size window).
  { unfold window. destruct w as [|w']; [lia|].
    rewrite (skipn_nth_cons (file st) ev0 a) by lia. cbn [firstn total_size fold_right].
    assert (0 < esize (nth a (file st) ev0)).
    { unfold sizes_ok in Hsz. rewrite Forall_forall in Hsz. apply Hsz. apply nth_In. lia. }
    pose proof (total_size_nonneg (firstn w' (skipn (S a) (file st))) (sizes_firstn _ _ (sizes_skipn _ _ Hsz))) as Hnn.
    unfold total_size in Hnn. lia. }
  assert (Hwle : total_size window <= total_size (file st)).
  { replace (total_size (file st)) with (total_size (firstn len (file st) ++ skipn len (file st))) by (rewrite firstn_skipn; reflexivity).
    rewrite total_size_app, Esplit, total_size_app.
    pose proof (total_size_nonneg _ (sizes_firstn a _ Hsz)).
    pose proof (total_size_nonneg _ (sizes_skipn len _ Hsz)). lia. }
  assert (Ebuf : cast_uint64 (total_size (firstn len (file st)) - total_size (firstn a (file st))) = total_size window).
  { rewrite Esplit, total_size_app. replace (total_size (firstn a (file st)) + total_size window - total_size (firstn a (file st))) with (total_size window) by lia.
    apply cast_uint64_small. change (2 ^ 64) with 18446744073709551616. change (2 ^ 63) with 9223372036854775808 in Htot. lia. }
  set (sorted := isort_by clock window).
  assert (Psort : Permutation window sorted) by apply WinsortProofs.isort_perm.
  assert (Hlens : length sorted = w) by (rewrite <- (Permutation_length Psort); exact Hlenw).
  assert (Etot : total_size sorted = total_size window) by (symmetry; apply WinsortProofs.total_size_perm; exact Psort).
  set (file' := firstn a (file st) ++ sorted ++ skipn (a + length sorted) (file st)).
  set (st3 := mk_wc file' (ring st) (plan st) sorted).
  assert (Eexec : Winsort_gen.execute_sort_plan (Some tt) sx st = if ring_check sorted then Done tt st3 else Fail E_DIE).
  { unfold Winsort_gen.execute_sort_plan.
    unfold need, ite, bind, bind_, eval, ret, fail. cbn [is_null negb andb].
    unfold get_sortplan_bad0, get_sortplan_next, get_sortplan_bad0_header_clock, get_sortplan_r, get_sortplan_r_ev,
      get_sortplan_fd, get_sortplan_base, find_min_clock.
    rewrite Hb, Hnx. cbn [is_null negb andb ev_at]. fold mc.
    assert (Common : forall c0, c0 = mc ->
      match Winsort_gen.find_destination (Some tt) c0 sx st with Done i st' => Done i st' | Fail e => Fail e end = Done i0 st).
    { intros c0 ->. rewrite E1. reflexivity. }
    destruct (Z.ltb_spec mc (clock (nth (len - k) (file st) ev0))) as [Hlt|Hge].
    all: [> rewrite E1 | replace (clock (nth (len - k) (file st) ev0)) with mc by lia; rewrite E1 ].
    all: destruct (Z.ltb_spec i0 0); [lia|].
    all: rewrite Hix; cbn [is_null negb andb]; unfold ptr_addr; rewrite Hnx, Ebuf.
    all: change (cast_uint64 0) with 0; destruct (Z.leb_spec (total_size window) 0); [lia|].
    all: unfold malloc, ret; cbn [is_null negb]; unfold bind.
    all: unfold sort_buf; rewrite cast_int64_small' by (change (2 ^ 63) with 9223372036854775808 in *; lia).
    all: unfold window at 1; rewrite (take_bytes_exact (skipn a (file st)) (sizes_skipn _ _ Hsz) w) by (rewrite skipn_length; lia).
    all: fold window; fold sorted.
    all: unfold write_stream; cbn [scratch file ring plan]; rewrite Etot, Z.eqb_refl; fold file'; fold st3.
    all: unfold free, ret, rebuild_ring; cbn [plan st3]; rewrite Hnx.
    all: replace i0 with (slotK n a) by (unfold slotK, a; symmetry; exact Hslot).
    all: change (ring st3) with (ring st); assert (Hc1 : (remembered n len <= n - 1)%nat) by (unfold remembered; lia).
    all: rewrite (rebuild_id n len (ring st) R w a) by (try (rewrite (rp_size _ _ _ R), Nat2Z.id); lia).
    all: change (with_ring st3 (ring st)) with st3.
    all: rewrite (ring_check_gen n len a sx st3 Hn R) by (try (unfold st3, file'; cbn [file]; rewrite !app_length, firstn_length, skipn_length); lia).
    all: replace (firstn (len - a) (skipn a (file st3))) with sorted; [unfold ring_check; destruct (sorted_from 0 sorted); reflexivity|].
    all: unfold st3, file'; cbn [file]; rewrite skipn_app, firstn_length, Nat.min_l by lia.
    all: rewrite skipn_all2 by (rewrite firstn_length; lia); rewrite Nat.sub_diag; cbn [skipn app].
    all: rewrite firstn_app, Hlens; replace (len - a)%nat with w by lia; rewrite firstn_all2 by lia.
    all: rewrite Nat.sub_diag; cbn [firstn]; rewrite app_nil_r; reflexivity. }
  rewrite Eexec.
  destruct (overwrite_facts (file st) a w sorted ltac:(lia) Psort) as (F1 & F2 & F3 & F4 & F5).
  replace (a + w)%nat with len in F1, F2 by lia. fold file' in F1, F2, F3, F4, F5.
  destruct (ring_check sorted); [|reflexivity].
  exists st3. split; [reflexivity|]. split; [reflexivity|]. split; [reflexivity|].
  unfold Abs, st3. cbn [file]. repeat split; auto.
  - rewrite F1, rev_app_distr. reflexivity.
  - lia.
Qed.

(* ------------------------------------------------------------------ (4) the per-event body of stream_winsort = the region machine *)

(* the char state and the plan markers against the model's region state *)
Definition StRel (st : wstate_c) (len : nat) (s : Z) (ws : wst) : Prop :=
  (s = 83 /\ ws = WS) \/ (s = 85 /\ ws = WU) \/
  (exists k, s = 88 /\ ws = WX k /\ (1 <= k <= len)%nat /\ sp_bad0 (plan st) = Some (len - k)%nat).

Record Inv (n : nat) (st : wstate_c) (len : nat) (w : wstate) (c : Z * Z * Z) : Prop := {
  iv_rep : Rep n len (ring st);
  iv_abs : Abs st len (w_rd w);
  iv_sizes : sizes_ok (file st);
  iv_total : total_size (file st) < 2 ^ 63;
  iv_st : StRel st len (fst (fst c)) (w_st w)
}.

Lemma b2z_test (b : bool) : negb (b2z b =? 0) = b.
Proof. destruct b; reflexivity. Qed.

Lemma starts_gen k st : Winsort_gen.starts_unsorted_region (Some k) st (Some k) = b2z (starts_unsorted_region (nth k (file st) ev0)).
Proof. reflexivity. Qed.
Lemma ends_gen k st : Winsort_gen.ends_unsorted_region (Some k) st (Some k) = b2z (ends_unsorted_region (nth k (file st) ev0)).
Proof. reflexivity. Qed.
Lemma starts_safe k st : Winsort_gen.starts_unsorted_region_safe (Some k) st (Some k) = true.
Proof. unfold Winsort_gen.starts_unsorted_region_safe. cbn [is_null negb]. rewrite !if_same. reflexivity. Qed.
Lemma ends_safe k st : Winsort_gen.ends_unsorted_region_safe (Some k) st (Some k) = true.
Proof. unfold Winsort_gen.ends_unsorted_region_safe. cbn [is_null negb]. rewrite !if_same. reflexivity. Qed.

Lemma firstn_S_snoc {A} (l : list A) d : forall k, (k < length l)%nat -> firstn (S k) l = firstn k l ++ [nth k l d].
Proof.
  induction l as [|a t IH]; intros [|k] H; cbn [length] in H; try lia; [reflexivity|].
  change (firstn (S (S k)) (a :: t)) with (a :: firstn (S k) t). rewrite IH by lia. reflexivity.
Qed.

Theorem ring_from_source :
  (forall sx st n, (1 <= n)%nat -> r_size (ring st) = Z.of_nat n -> length (r_ev (ring st)) = n ->
     exists g, Winsort_gen.ring_reset (Some tt) sx st = Done tt (with_ring st g) /\ Rep n 0 g) /\
  (forall sx st n len, Rep n len (ring st) ->
     exists g, Winsort_gen.ring_add (Some tt) (Some len) sx st = Done tt (with_ring st g) /\ Rep n (S len) g).
Proof.
  split.
  - intros sx st n Hn Hs Hl. eexists. split; [apply ring_reset_gen|]. apply rep_reset; assumption.
  - intros sx st n len R. exists (m_ring_add (ring st) (Some len)). split; [|apply rep_add; exact R].
    apply ring_add_gen. destruct R as [Hn _ Hl (q & t & _ & Ht & Htail) _ _]. rewrite Htail, Hl. lia.
Qed.

(* ring_add of the delivered event moves the whole invariant one event forward *)
Lemma add_step n st len rd sx :
  Rep n len (ring st) -> Abs st len rd -> (len < length (file st))%nat ->
  exists st', Winsort_gen.ring_add (Some tt) (Some len) sx st = Done tt st' /\
    Rep n (S len) (ring st') /\ file st' = file st /\ plan st' = plan st /\
    Abs st' (S len) (nth len (file st) ev0 :: rd).
Proof.
  intros R [-> Hfl] Hlt.
  destruct ring_from_source as [_ Hadd]. destruct (Hadd sx st n len R) as [g [E Rg]].
  exists (with_ring st g). split; [exact E|]. split; [exact Rg|]. split; [reflexivity|]. split; [reflexivity|].
  split; [|cbn [with_ring file]; lia]. cbn [with_ring file].
  rewrite (firstn_S_snoc (file st) ev0 len Hlt), rev_app_distr. reflexivity.
Qed.

Lemma nth_hd_skipn {A} (l : list A) d : forall k, nth k l d = hd d (skipn k l).
Proof. induction l as [|a t IH]; intros [|k]; cbn [nth skipn hd]; auto. Qed.

Lemma nth_of_skipn {A} (l l' : list A) d k : skipn k l = skipn k l' -> nth k l d = nth k l' d.
Proof. intros E. rewrite !nth_hd_skipn, E. reflexivity. Qed.

Lemma skipn_S_tl {A} (l : list A) : forall k, skipn (S k) l = tl (skipn k l).
Proof. induction l as [|a t IH]; intros [|k]; cbn [skipn tl]; auto. rewrite <- IH. reflexivity. Qed.

Lemma skipn_S_of {A} (l l' : list A) k : skipn k l = skipn k l' -> skipn (S k) l = skipn (S k) l'.
Proof. intros E. rewrite !skipn_S_tl, E. reflexivity. Qed.

Lemma finish_add n st len rd sx c' ws' :
  Rep n len (ring st) -> Abs st len rd -> sizes_ok (file st) -> total_size (file st) < 2 ^ 63 ->
  (len < length (file st))%nat ->
  (forall st', plan st' = plan st -> StRel st' (S len) (fst (fst c')) ws') ->
  exists st', bind_ (Winsort_gen.ring_add (Some tt) (Some len)) (ret (LCont c')) sx st = Done (LCont c') st' /\
    Inv n st' (S len) (mkw ws' (nth len (file st) ev0 :: rd)) c' /\ file st' = file st.
Proof.
  intros R A Hsz Htot Hlt HS.
  destruct (add_step n st len rd sx R A Hlt) as (st' & E & R' & Ef & Ep & A').
  exists st'. unfold bind_, bind, ret. rewrite E. split; [reflexivity|]. split; [|exact Ef].
  constructor; cbn [w_rd w_st]; auto; try (rewrite Ef; assumption).
Qed.

Theorem body_step n st len w c :
  (2 <= n)%nat -> Inv n st len w c -> (len < length (file st))%nat ->
  match wstep n w (nth len (file st) ev0), Winsort_gen.stream_winsort_body (Some tt) (Some tt) c (Some len) st with
  | Some w', Done (LCont c') st' =>
      Inv n st' (S len) w' c' /\ skipn (S len) (file st') = skipn (S len) (file st) /\
      length (file st') = length (file st)
  | None, Fail _ => True
  | _, _ => False
  end.
Proof.
  intros Hn [R A Hsz Htot HS] Hlt. destruct c as [[s er] up]. destruct w as [ws rd]. cbn [fst w_rd w_st] in *.
  set (e := nth len (file st) ev0).
  unfold Winsort_gen.stream_winsort_body. unfold bind, eval, need, ite, stream_ev.
  rewrite ?starts_safe, ?ends_safe, ?starts_gen, ?ends_gen, ?b2z_test. fold e. rewrite ?if_same.
  unfold wstep. cbn [w_st w_rd].
  destruct HS as [[-> ->]|[[-> ->]|(k & -> & -> & Hk & Hb)]].
  - (* S *)
    change (83 =? 83) with true. change (83 =? 85) with false. change (83 =? 88) with false. cbn [andb].
    destruct (starts_unsorted_region e).
    + change (cast_int8 85) with 85.
      destruct (finish_add n st len rd (Some len) (85, er, up) WU R A Hsz Htot Hlt) as (st' & E & I & Ef).
      { intros st' _. right. left. split; reflexivity. }
      unfold bind_, bind, ret in E. unfold bind_, bind, ret. rewrite E. rewrite Ef. auto.
    + destruct (finish_add n st len rd (Some len) (83, er, up) WS R A Hsz Htot Hlt) as (st' & E & I & Ef).
      { intros st' _. left. split; reflexivity. }
      unfold bind_, bind, ret in E. unfold bind_, bind, ret. rewrite E. rewrite Ef. auto.
  - (* U *)
    change (85 =? 83) with false. change (85 =? 85) with true. cbn [andb].
    destruct (ends_unsorted_region e).
    + change (cast_int8 83) with 83.
      destruct (finish_add n st len rd (Some len) (83, cast_uint64 (er + 1), up) WS R A Hsz Htot Hlt) as (st' & E & I & Ef).
      { intros st' _. left. split; reflexivity. }
      unfold bind_, bind, ret in E. unfold bind_, bind, ret. rewrite E. rewrite Ef. auto.
    + change (cast_int8 88) with 88. unfold bind_ at 1. unfold bind at 1. unfold set_sortplan_bad0, sp_local, putsp.
      set (st1 := mk_wc (file st) (ring st) (mk_csp (Some len) (sp_next (plan st)) (sp_fd (plan st))) (scratch st)).
      destruct (finish_add n st1 len rd (Some len) (88, er, up) (WX 1) R A Hsz Htot Hlt) as (st' & E & I & Ef).
      { intros st' Hp. right. right. exists 1%nat. repeat split; try lia. rewrite Hp. cbn [plan st1 sp_bad0]. f_equal. lia. }
      rewrite E. rewrite Ef. auto.
  - (* X *)
    change (88 =? 83) with false. change (88 =? 85) with false. change (88 =? 88) with true. cbn [andb].
    destruct (ends_unsorted_region e).
    + unfold bind_ at 1. unfold bind at 1. unfold set_sortplan_next at 1. unfold sp_local, putsp. cbv beta iota.
      set (st1 := mk_wc (file st) (ring st) (mk_csp (sp_bad0 (plan st)) (Some len) (sp_fd (plan st))) (scratch st)).
      pose proof (execute_sort_plan_gen n len k (Some len) st1 rd Hn R A Hk Hb eq_refl Hsz Htot) as X.
      unfold exec_plan. destruct (exec_plan_r n k rd) as [rd'| |rd'].
      * destruct X as (st2 & E2 & Er & Ep & A2 & Fs & Fl & Fz & Ft).
        unfold bind_ at 1. unfold bind at 1. rewrite E2.
        unfold bind_ at 1. unfold bind at 1. unfold set_sortplan_next, putsp.
        unfold bind_ at 1. unfold bind at 1. unfold set_sortplan_bad0, putsp. cbn [plan sp_bad0 sp_next sp_fd file ring scratch].
        change (cast_int8 83) with 83.
        set (st3 := mk_wc (file st2) (ring st2) (mk_csp None None (sp_fd (plan st2))) (scratch st2)).
        assert (R3 : Rep n len (ring st3)) by (cbn [st3 ring]; rewrite Er; exact R).
        assert (Hlt3 : (len < length (file st3))%nat) by (cbn [st3 file]; rewrite Fl; exact Hlt).
        destruct (finish_add n st3 len rd' (Some len) (83, er, cast_uint64 1) WS R3 A2 Fz ltac:(cbn [st3 file]; rewrite Ft; exact Htot) Hlt3)
          as (st' & E & I & Ef).
        { intros st' _. left. split; reflexivity. }
        rewrite E. cbn [st3 file] in I, Ef.
        rewrite (nth_of_skipn (file st2) (file st) ev0 len Fs) in I. fold e in I.
        split; [exact I|]. rewrite Ef. split; [apply skipn_S_of; exact Fs|exact Fl].
      * unfold bind_, bind, set_sortplan_next, putsp. cbv beta iota. fold st1. rewrite X. exact I.
      * unfold bind_, bind, set_sortplan_next, putsp. cbv beta iota. fold st1. rewrite X. exact I.
    + destruct (finish_add n st len rd (Some len) (88, er, up) (WX (S k)) R A Hsz Htot Hlt) as (st' & E & I & Ef).
      { intros st' Hp. right. right. exists (S k). repeat split; try lia. rewrite Hp, Hb. reflexivity. }
      unfold bind_, bind, ret in E. unfold bind_, bind, ret. rewrite E. rewrite Ef. auto.
Qed.

(* ------------------------------------------------------------------ whole streams *)

Notation gen_step := (run_step Winsort_gen.stream_winsort_body).

Lemma fold_fail {C} (body : ptr_stream -> ptr_ring -> C -> M (lres C)) l e : fold_left (run_step body) l (Fail e) = Fail e.
Proof. induction l as [|k t IH]; cbn [fold_left run_step]; auto. Qed.

Lemma run_fold n : (2 <= n)%nat -> forall rest st len w c,
  Inv n st len w c -> skipn len (file st) = rest ->
  match wrun n w rest, fold_left gen_step (seq len (length rest)) (Done c st) with
  | Some w', Done c' st' => Inv n st' (len + length rest) w' c' /\ length (file st') = length (file st)
  | None, Fail _ => True
  | _, _ => False
  end.
Proof.
  intros Hn. induction rest as [|e t IH]; intros st len w c I Hr.
  - cbn [wrun length seq fold_left]. rewrite Nat.add_0_r. auto.
  - assert (Hlt : (len < length (file st))%nat).
    { pose proof (f_equal (@length ev) Hr) as HL. rewrite skipn_length in HL. cbn [length] in HL. lia. }
    assert (He : nth len (file st) ev0 = e /\ skipn (S len) (file st) = t).
    { rewrite (skipn_nth_cons (file st) ev0 len Hlt) in Hr. inversion Hr. auto. }
    destruct He as [He Ht].
    cbn [wrun length seq fold_left].
    change (gen_step (Done c st) len) with
      (match Winsort_gen.stream_winsort_body (Some tt) (Some tt) c (Some len) st with
       | Done (LCont c') st' => Done c' st' | Done (LRet _) _ => Fail E_TRAP | Fail x => Fail x end).
    pose proof (body_step n st len w c Hn I Hlt) as B. rewrite He in B.
    destruct (wstep n w e) as [w'|].
    + destruct (Winsort_gen.stream_winsort_body (Some tt) (Some tt) c (Some len) st) as [[v|c'] st'|x]; try contradiction.
      destruct B as (I' & Fs & Fl).
      specialize (IH st' (S len) w' c' I' ltac:(rewrite Fs; exact Ht)).
      destruct (wrun n w' t) as [w''|].
      * destruct (fold_left gen_step (seq (S len) (length t)) (Done c' st')) as [c'' st''|x]; [|contradiction].
        destruct IH as [I'' L'']. split; [|lia]. replace (len + S (length t))%nat with (S len + length t)%nat by lia. exact I''.
      * exact IH.
    + destruct (Winsort_gen.stream_winsort_body (Some tt) (Some tt) c (Some len) st) as [[v|c'] st'|x]; try contradiction.
      rewrite fold_fail. constructor.
Qed.

(* ovnisort -n n on one stream, from the source: ring_reset, then the fold of the translated body *)
Definition gen_winsort (n : nat) (evs : list ev) : option (list ev) :=
  match evs with
  | [] => empty_stream_result
  | _ => run_winsort Winsort_gen.ring_reset Winsort_gen.stream_winsort_body Winsort_gen.stream_winsort_init n evs
  end.

Theorem winsort_from_source n evs :
  (2 <= n)%nat -> sizes_ok evs -> total_size evs < 2 ^ 63 -> gen_winsort n evs = winsort n evs.
Proof.
  intros Hn Hsz Htot. unfold gen_winsort, winsort. destruct evs as [|e0 t]; [reflexivity|].
  set (evs := e0 :: t) in *. unfold run_winsort.
  rewrite ring_reset_gen. set (st1 := with_ring _ _).
  assert (I : Inv n st1 0 winit Winsort_gen.stream_winsort_init).
  { constructor.
    - apply rep_reset; [lia|reflexivity|]. cbn. apply repeat_length.
    - split; [reflexivity|lia].
    - exact Hsz.
    - exact Htot.
    - left. split; reflexivity. }
  pose proof (run_fold n Hn evs st1 0%nat winit Winsort_gen.stream_winsort_init I eq_refl) as F.
  change (file st1) with evs in F.
  destruct (wrun n winit evs) as [w'|].
  - destruct (fold_left gen_step (seq 0 (length evs)) (Done Winsort_gen.stream_winsort_init st1)) as [c' st'|x]; [|contradiction].
    destruct F as [[_ [Ea Hl] _ _ _] Fl]. cbn [Nat.add] in Ea. rewrite Ea, rev_involutive.
    rewrite firstn_all2 by (change (file st1) with evs in Fl; lia). reflexivity.
  - destruct (fold_left gen_step (seq 0 (length evs)) (Done Winsort_gen.stream_winsort_init st1)) as [c' st'|x]; [contradiction|reflexivity].
Qed.

(* the C16 theorems apply to the generated code *)
Theorem gen_sorts n evs : (2 <= n)%nat -> sizes_ok evs -> total_size evs < 2 ^ 63 ->
  pre n evs -> gen_winsort n evs = Some (ssort evs).
Proof. intros. rewrite winsort_from_source by assumption. apply WinsortProofs.winsort_is_ssort. assumption. Qed.

Theorem gen_postconditions n evs out : (2 <= n)%nat -> sizes_ok evs -> total_size evs < 2 ^ 63 ->
  pre n evs -> gen_winsort n evs = Some out ->
  Permutation evs out /\ sorted out /\ stable evs out /\ prefix_untouched evs out /\
  length out = length evs /\ total_size out = total_size evs /\
  check_mode out = true /\
  (Forall (fun e => clk_ok e = true) evs -> loader_accepts out = true).
Proof. intros Hn Hs Ht Hp E. rewrite winsort_from_source in E by assumption. exact (WinsortProofs.winsort_post n evs out Hp E). Qed.

Theorem gen_never_loses n evs out : (2 <= n)%nat -> sizes_ok evs -> total_size evs < 2 ^ 63 ->
  gen_winsort n evs = Some out -> Permutation evs out /\ total_size out = total_size evs.
Proof. intros Hn Hs Ht E. rewrite winsort_from_source in E by assumption. exact (WinsortProofs.winsort_permutation_always n evs out E). Qed.

(* ------------------------------------------------------------------ stream_check (-c) = check_mode *)

Definition gen_check (evs : list ev) : bool :=
  run_check Winsort_gen.stream_check_init Winsort_gen.stream_check_body Winsort_gen.stream_check_end evs.

Lemma check_fold st : forall m k p bj last, (k + m <= length (file st))%nat ->
  exists p' bj' last',
    fold_left (run_cstep Winsort_gen.stream_check_body) (seq k m) (Done (p, bj, last) st) = Done (p', bj', last') st /\
    (bj' =? 0) = ((bj =? 0) && sorted_from last (firstn m (skipn k (file st)))).
Proof.
  induction m as [|m IH]; intros k p bj last Hk.
  - cbn [seq fold_left firstn sorted_from]. exists p, bj, last. rewrite andb_true_r. auto.
  - cbn [seq fold_left]. rewrite (skipn_nth_cons (file st) ev0 k) by lia. cbn [firstn sorted_from].
    assert (Es : run_cstep Winsort_gen.stream_check_body (Done (p, bj, last) st) k =
      (if clock (nth k (file st) ev0) <? last
       then Done (Some k, 1, clock (nth k (file st) ev0)) st
       else Done (Some k, bj, clock (nth k (file st) ev0)) st)).
    { unfold run_cstep, Winsort_gen.stream_check_body, bind, eval, ite, ret, stream_ev, ovni_ev_get_clock, ev_at.
      destruct (clock (nth k (file st) ev0) <? last); reflexivity. }
    rewrite Es. clear Es.
    destruct (clock (nth k (file st) ev0) <? last).
    + destruct (IH (S k) (Some k) 1 (clock (nth k (file st) ev0)) ltac:(lia)) as (p' & bj' & last' & E & B).
      exists p', bj', last'. split; [exact E|]. rewrite B. cbn [Z.eqb andb]. rewrite andb_false_r. reflexivity.
    + destruct (IH (S k) (Some k) bj (clock (nth k (file st) ev0)) ltac:(lia)) as (p' & bj' & last' & E & B).
      exists p', bj', last'. split; [exact E|exact B].
Qed.

Theorem check_from_source evs : gen_check evs = check_mode evs.
Proof.
  unfold gen_check, run_check, check_mode. destruct evs as [|e t]; [reflexivity|].
  set (st0 := winsort_state0 1 (e :: t)).
  change (Winsort_gen.stream_check_init (Some tt) (Some 0%nat) st0) with (Done (LCont ((Some 0%nat : ptr_ev), 0, clock e)) st0).
  cbn [length]. replace (S (length t) - 1)%nat with (length t) by lia.
  destruct (check_fold st0 (length t) 1 (Some 0%nat) 0 (clock e)) as (p' & bj' & last' & E & B).
  { cbn. lia. }
  rewrite E. cbn [st0 winsort_state0 file skipn] in B. rewrite firstn_all in B. cbn [Z.eqb andb] in B.
  unfold Winsort_gen.stream_check_end, ite, fail, ret. rewrite <- B.
  destruct (bj' =? 0); reflexivity.
Qed.
