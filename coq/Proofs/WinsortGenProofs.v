(* ovnisort.c regenerated from the source (Gen/Winsort_gen.v, translate/units/winsort.py) against the
   window-sort model of C16 (Tools/WinsortDefs.v). *)
From Coq Require Import ZArith List Bool Arith Lia ZifyNat ZifyBool Permutation.
From OV Require Import Base.CInt Emu.HeapDefs Tools.WinsortDefs Tools.WinsortPre.
From OV Require Import Proofs.HeapProofs Proofs.PlayerProofs.
From OV Require Proofs.WinsortProofs.
From OV Require Gen.Winsort_gen.
Import ListNotations.
Local Open Scope Z_scope.

(* ------------------------------------------------------------------ readings of ring_reset / ring_add *)

Definition m_ring_add (g : cring) (e : ptr_ev) : cring :=
  let t1 := r_tail g + 1 in
  let t2 := if t1 >=? r_size g then 0 else t1 in
  let h1 := if r_head g =? t2 then t2 + 1 else r_head g in
  let h2 := if h1 >=? r_size g then 0 else h1 in
  mk_cring h2 t2 (r_size g) (upd (r_ev g) (Z.to_nat (r_tail g)) e).

Lemma ring_reset_gen sx st :
  Winsort_gen.ring_reset (Some tt) sx st = Done tt (with_ring st (mk_cring 0 0 (r_size (ring st)) (r_ev (ring st)))).
Proof. reflexivity. Qed.

Lemma ring_add_gen sx st e :
  0 <= r_tail (ring st) < Z.of_nat (length (r_ev (ring st))) ->
  Winsort_gen.ring_add (Some tt) e sx st = Done tt (with_ring st (m_ring_add (ring st) e)).
Proof.
  intros Ht. unfold Winsort_gen.ring_add, m_ring_add.
  unfold need, ite, bind_, bind, ret, set_ring_ev_at, set_ring_tail, set_ring_head, putr,
    get_ring_tail, get_ring_head, get_ring_size.
  cbn [is_null negb andb].
  destruct (Z.leb_spec 0 (r_tail (ring st))); [|lia].
  destruct (Z.ltb_spec (r_tail (ring st)) (Z.of_nat (length (r_ev (ring st))))); [|lia].
  cbn [andb]. destruct st as [f g p s]. destruct g as [h t n ev]. cbn [ring with_ring r_head r_tail r_size r_ev file plan scratch].
  cbv zeta.
  destruct (t + 1 >=? n); cbn [ring with_ring r_head r_tail r_size r_ev file plan scratch].
  - destruct (h =? 0); cbn [ring with_ring r_head r_tail r_size r_ev file plan scratch].
    + destruct (0 + 1 >=? n); reflexivity.
    + destruct (h >=? n); reflexivity.
  - destruct (h =? t + 1); cbn [ring with_ring r_head r_tail r_size r_ev file plan scratch].
    + destruct (t + 1 + 1 >=? n); reflexivity.
    + destruct (h >=? n); reflexivity.
Qed.

(* ------------------------------------------------------------------ (1) the circular buffer holds the last n-1 events *)

(* after len events the event with index k sits in slot k mod n; head and tail are the slots of the oldest
   remembered event and of the next one; the ring remembers the last min len (n-1) events *)
Definition remembered (n len : nat) : nat := Nat.min len (n - 1).

Record Rep (n len : nat) (g : cring) : Prop := {
  rp_n : (1 <= n)%nat;
  rp_size : r_size g = Z.of_nat n;
  rp_len : length (r_ev g) = n;
  rp_tail : exists q t, len = (q * n + t)%nat /\ (t < n)%nat /\ r_tail g = Z.of_nat t;
  rp_head : exists q h, (len - remembered n len = q * n + h)%nat /\ (h < n)%nat /\ r_head g = Z.of_nat h;
  rp_ev : forall k q s, (len - remembered n len <= k < len)%nat -> k = (q * n + s)%nat -> (s < n)%nat ->
                        nth s (r_ev g) None = Some k
}.

Lemma rep_reset n g : (1 <= n)%nat -> r_size g = Z.of_nat n -> length (r_ev g) = n ->
  Rep n 0 (mk_cring 0 0 (r_size g) (r_ev g)).
Proof.
  intros Hn Hs Hl. constructor; cbn [r_size r_ev r_tail r_head]; auto.
  - exists O, O. lia.
  - exists O, O. unfold remembered. lia.
  - intros. lia.
Qed.

Lemma div_unique_nat n q1 s1 q2 s2 : (s1 < n)%nat -> (s2 < n)%nat -> (q1 * n + s1 = q2 * n + s2)%nat -> q1 = q2 /\ s1 = s2.
Proof.
  intros H1 H2 E.
  assert (q1 = q2).
  { destruct (Nat.lt_trichotomy q1 q2) as [L|[L|L]]; [|exact L|]; exfalso; nia. }
  subst. lia.
Qed.

Theorem rep_add n len g : Rep n len g -> Rep n (S len) (m_ring_add g (Some len)).
Proof.
  intros [Hn Hs Hl (qt & t & Et & Ht & Htail) (qh & h & Eh & Hh & Hhead) Hev].
  unfold m_ring_add. rewrite Hs, Htail, Hhead. cbv zeta.
  assert (Hc : remembered n (S len) = if (len <? n - 1)%nat then S len else (n - 1)%nat).
  { unfold remembered. destruct (Nat.ltb_spec len (n - 1)); lia. }
  assert (Hc0 : remembered n len = if (len <? n - 1)%nat then len else (n - 1)%nat).
  { unfold remembered. destruct (Nat.ltb_spec len (n - 1)); lia. }
  constructor; cbn [r_size r_ev r_tail r_head]; auto.
  - rewrite length_upd. exact Hl.
  - destruct (Z.geb_spec (Z.of_nat t + 1) (Z.of_nat n)).
    + exists (S qt), O. assert (t = (n - 1)%nat) by lia. subst t. repeat split; try lia; cbn [Nat.mul]; lia.
    + exists qt, (S t). repeat split; lia.
  - (* head *)
    destruct (Nat.ltb_spec len (n - 1)) as [Hsmall|Hfull].
    + (* not full: head stays 0, tail = len + 1 <= n - 1 *)
      rewrite Hc0 in Eh. assert (qh = O /\ h = O) as [-> ->] by nia.
      assert (qt = O) by nia. subst qt. assert (t = len) by lia. subst t.
      exists O, O. rewrite Hc.
      destruct (Z.geb_spec (Z.of_nat len + 1) (Z.of_nat n)); [lia|].
      destruct (Z.eqb_spec (Z.of_nat 0) (Z.of_nat len + 1)); [lia|].
      destruct (Z.geb_spec (Z.of_nat 0) (Z.of_nat n)); lia.
    + (* full: the oldest entry is dropped *)
      rewrite Hc0 in Eh. rewrite Hc.
      (* len - (n-1) = qh n + h, len = qt n + t: h = t + 1 mod n *)
      destruct (Z.geb_spec (Z.of_nat t + 1) (Z.of_nat n)) as [Hw|Hw].
      * (* t = n - 1: new tail 0; old head = (len - n + 1) mod n = 0 *)
        assert (t = (n - 1)%nat) by lia. subst t.
        assert (Hq : (qh * n + h = qt * n + 0)%nat) by nia.
        destruct (div_unique_nat n qh h qt O Hh ltac:(lia) Hq) as [-> ->].
        destruct (Z.eqb_spec (Z.of_nat 0) 0); [|lia].
        destruct (Z.geb_spec (0 + 1) (Z.of_nat n)).
        -- exists (S qt), O. cbn [Nat.mul] in *. repeat split; lia.
        -- exists qt, 1%nat. cbn [Nat.mul] in *. repeat split; lia.
      * assert (Hqt : (1 <= qt)%nat) by (destruct qt; [cbn [Nat.mul] in Et; lia|lia]).
        destruct qt as [|qt']; [lia|].
        assert (Hq : (qh * n + h = qt' * n + (t + 1))%nat) by (cbn [Nat.mul] in Et; lia).
        destruct (div_unique_nat n qh h qt' (t + 1)%nat Hh ltac:(lia) Hq) as [-> ->].
        destruct (Z.eqb_spec (Z.of_nat (t + 1)) (Z.of_nat t + 1)); [|lia].
        destruct (Z.geb_spec (Z.of_nat t + 1 + 1) (Z.of_nat n)).
        -- exists (S qt'), O. cbn [Nat.mul] in *. repeat split; lia.
        -- exists qt', (t + 2)%nat. cbn [Nat.mul] in *. repeat split; lia.
  - (* entries *)
    intros k q s Hk Ek Hs'. rewrite Nat2Z.id.
    destruct (Nat.eq_dec k len) as [->|Hne].
    + assert (Hq : (q * n + s = qt * n + t)%nat) by lia.
      destruct (div_unique_nat n q s qt t Hs' Ht Hq) as [-> ->].
      apply nth_upd_same. lia.
    + assert (s <> t).
      { intros ->. (* k = q n + t < len = qt n + t, and len - k <= n - 1 < n *)
        assert (Hlt : (q < qt)%nat) by nia.
        replace qt with (q + S (qt - q - 1))%nat in Et by lia.
        rewrite Nat.mul_add_distr_r in Et. cbn [Nat.mul] in Et.
        rewrite Hc in Hk. destruct (Nat.ltb_spec len (n - 1)); nia. }
      rewrite nth_upd_other by auto. apply (Hev k q s); auto.
      rewrite Hc in Hk. rewrite Hc0. destruct (len <? n - 1)%nat; lia.
Qed.

(* ------------------------------------------------------------------ (2) find_destination *)

Lemma wrap_dec_lt x n : 0 < n -> (if x mod n - 1 <? 0 then n - 1 else x mod n - 1) = (x - 1) mod n.
Proof.
  intros Hn. pose proof (Z.mod_pos_bound x n Hn). pose proof (Z.mod_pos_bound (x-1) n Hn).
  pose proof (Z.div_mod x n ltac:(lia)). pose proof (Z.div_mod (x-1) n ltac:(lia)).
  destruct (Z.ltb_spec (x mod n - 1) 0).
  - assert (x mod n = 0) by lia. apply Z.mod_unique with (q := x / n - 1); [left; lia|nia].
  - apply Z.mod_unique with (q := x / n); [left; lia|nia].
Qed.

Lemma wrap_dec_ge x n : 0 < n -> (if x mod n - 1 >=? 0 then x mod n - 1 else n - 1) = (x - 1) mod n.
Proof.
  intros Hn. rewrite <- (wrap_dec_lt x n Hn).
  destruct (Z.geb_spec (x mod n - 1) 0); destruct (Z.ltb_spec (x mod n - 1) 0); lia.
Qed.

Lemma mod_shift_neq x d n : 0 < d < n -> (x - d) mod n <> x mod n.
Proof.
  intros Hd E. assert (Hn : 0 < n) by lia.
  pose proof (Z.div_mod x n ltac:(lia)). pose proof (Z.div_mod (x-d) n ltac:(lia)).
  rewrite E in H0. assert (n * (x / n - (x - d) / n) = d) by lia.
  assert (0 < x / n - (x - d) / n) by nia. nia.
Qed.

(* slot of the j-th newest event *)
Definition slotZ (n len : nat) (j : nat) : Z := (Z.of_nat len - 1 - Z.of_nat j) mod Z.of_nat n.

Lemma rep_tailZ n len g : Rep n len g -> r_tail g = Z.of_nat len mod Z.of_nat n.
Proof.
  intros [Hn _ _ (q & t & E & Ht & Hq) _ _]. rewrite Hq.
  apply Z.mod_unique with (q := Z.of_nat q); [left; lia|nia].
Qed.

Lemma rep_headZ n len g : Rep n len g -> r_head g = (Z.of_nat len - Z.of_nat (remembered n len)) mod Z.of_nat n.
Proof.
  intros [Hn _ _ _ (q & h & E & Hh & Hq) _]. rewrite Hq.
  assert (remembered n len <= len)%nat by (unfold remembered; lia).
  apply Z.mod_unique with (q := Z.of_nat q); [left; lia|nia].
Qed.

Lemma rep_entry n len g j : Rep n len g -> (j < remembered n len)%nat ->
  ix_ptr_ev (r_ev g) (slotZ n len j) = Some (len - 1 - j)%nat.
Proof.
  intros R Hj. destruct R as [Hn _ _ _ _ Hev].
  assert (Hr : (remembered n len <= len)%nat) by (unfold remembered; lia).
  unfold ix_ptr_ev, slotZ.
  replace (Z.of_nat len - 1 - Z.of_nat j) with (Z.of_nat (len - 1 - j)) by lia.
  rewrite <- Nat2Z.inj_mod, Nat2Z.id.
  apply (Hev (len - 1 - j)%nat ((len - 1 - j) / n)%nat ((len - 1 - j) mod n)%nat).
  - lia.
  - rewrite Nat.mul_comm. apply Nat.div_mod. lia.
  - apply Nat.mod_upper_bound. lia.
Qed.

Lemma skipn_nth_cons {A} (l : list A) d : forall j, (j < length l)%nat -> skipn j l = nth j l d :: skipn (S j) l.
Proof.
  induction l as [|a t IH]; intros [|j] H; cbn [length] in H; try lia; cbn [skipn nth]; [reflexivity|].
  apply IH. lia.
Qed.

Lemma nth_firstn_lt {A} (l : list A) d : forall c j, (j < c)%nat -> nth j (firstn c l) d = nth j l d.
Proof.
  induction l as [|a t IH]; intros [|c] [|j] H; cbn [firstn nth]; try lia; try reflexivity.
  apply IH. lia.
Qed.

Section FdLoop.
  Variables (n len : nat) (sx : wenv) (st : wstate_c) (rd : list ev) (m : Z).
  Let c := remembered n len.
  Let N := Z.of_nat n.
  Variable cond : Z -> wenv -> wstate_c -> bool.
  Variable next : Z -> wenv -> wstate_c -> Z.
  Variable body : Z -> (Z * Z) -> M (lres (Z * Z)).
  Hypothesis Hn : (2 <= n)%nat.
  Hypothesis Hlen : (c <= length rd)%nat.
  Hypothesis Hcond : forall i, cond i sx st = negb (i =? slotZ n len c).
  Hypothesis Hnext : forall i, next i sx st = if i - 1 <? 0 then N - 1 else i - 1.
  Hypothesis Hbody : forall j lc nb, (j < c)%nat ->
    body (slotZ n len j) (lc, nb) sx st =
    if clock (nth j rd ev0) <? m then Done (LRet (slotZ n len j)) st
    else Done (LCont (clock (nth j rd ev0), nb + 1)) st.

  Lemma fd_loop : forall d j fuel lc, (j + d = c)%nat -> (d < fuel)%nat ->
    exists lc', for_go fuel cond next body (slotZ n len j) (lc, Z.of_nat j) sx st =
    match find_lower m (skipn j (firstn c rd)) j with
    | Some nb => Done (LRet (slotZ n len nb)) st
    | None => Done (LCont (lc', Z.of_nat c)) st
    end.
  Proof.
    assert (Hc : (c <= n - 1)%nat) by (unfold c, remembered; lia).
    induction d as [|d IH]; intros j fuel lc Hj Hf.
    - assert (j = c) by lia. subst j. destruct fuel as [|f]; [lia|]. cbn [for_go].
      rewrite Hcond, Z.eqb_refl. cbn [negb].
      rewrite skipn_all2 by (rewrite firstn_length; lia). cbn [find_lower]. exists lc. reflexivity.
    - destruct fuel as [|f]; [lia|]. cbn [for_go]. rewrite Hcond.
      assert (Hne : slotZ n len j <> slotZ n len c).
      { unfold slotZ. replace (Z.of_nat len - 1 - Z.of_nat c) with (Z.of_nat len - 1 - Z.of_nat j - Z.of_nat (c - j)) by lia.
        intros E. symmetry in E. revert E. apply mod_shift_neq. lia. }
      destruct (Z.eqb_spec (slotZ n len j) (slotZ n len c)); [contradiction|]. cbn [negb].
      rewrite (Hbody j lc (Z.of_nat j)) by lia.
      rewrite (skipn_nth_cons (firstn c rd) ev0 j) by (rewrite firstn_length; lia).
      rewrite nth_firstn_lt by lia. cbn [find_lower].
      destruct (clock (nth j rd ev0) <? m).
      + exists lc. reflexivity.
      + rewrite Hnext.
        assert (En : (if slotZ n len j - 1 <? 0 then N - 1 else slotZ n len j - 1) = slotZ n len (S j)).
        { unfold slotZ, N. rewrite wrap_dec_lt by lia. f_equal. lia. }
        rewrite En. replace (Z.of_nat j + 1) with (Z.of_nat (S j)) by lia.
        apply IH; lia.
  Qed.
End FdLoop.

Lemma if_same (b : bool) : (if b then true else true) = true.
Proof. destruct b; reflexivity. Qed.

Lemma find_lower_bound m l : forall i j, find_lower m l i = Some j -> (i <= j < i + length l)%nat.
Proof.
  induction l as [|e t IH]; cbn [find_lower length]; intros i j H; [discriminate|].
  destruct (clock e <? m); [inversion H; lia|]. apply IH in H. lia.
Qed.

Theorem find_destination_gen n len sx st rd m :
  (2 <= n)%nat -> Rep n len (ring st) -> (1 <= len)%nat -> length rd = len ->
  (forall j, (j < len)%nat -> nth j rd ev0 = nth (len - 1 - j) (file st) ev0) ->
  exists i0, Winsort_gen.find_destination (Some tt) m sx st = Done i0 st /\
    match WinsortDefs.find_destination n rd m with
    | Some w => 0 <= i0 /\ ix_ptr_ev (r_ev (ring st)) i0 = Some (len - w)%nat /\ (1 <= w <= len)%nat
    | None => i0 = -1
    end.
Proof.
  intros Hn R Hl1 Hrd Habs.
  pose proof (rep_tailZ _ _ _ R) as Ht. pose proof (rep_headZ _ _ _ R) as Hh. pose proof (rp_size _ _ _ R) as Hs.
  unfold Winsort_gen.find_destination.
  unfold need, ite, bind, eval, ret, fail, for_loop. cbn [is_null negb andb].
  unfold get_ring_tail, get_ring_head, get_ring_size, get_ring_ev.
  rewrite !if_same. cbn [andb].
  set (c := remembered n len).
  assert (Hc : (c <= n - 1)%nat /\ (c <= len)%nat) by (unfold c, remembered; lia).
  assert (Estart : (if r_tail (ring st) - 1 >=? 0 then r_tail (ring st) - 1 else r_size (ring st) - 1) = slotZ n len 0).
  { rewrite Ht, Hs, wrap_dec_ge by lia. unfold slotZ. f_equal. lia. }
  assert (Eend : (if r_head (ring st) - 1 >=? 0 then r_head (ring st) - 1 else r_size (ring st) - 1) = slotZ n len c).
  { rewrite Hh, Hs, wrap_dec_ge by lia. unfold slotZ. f_equal. fold c. lia. }
  rewrite Estart, Eend.
  assert (Ering : firstn (n - 1) rd = firstn c rd).
  { unfold c, remembered. destruct (Nat.le_ge_cases len (n - 1)).
    - rewrite Nat.min_l by lia. rewrite !firstn_all2 by lia. reflexivity.
    - rewrite Nat.min_r by lia. reflexivity. }
  match goal with |- context [for_go ?f ?cd ?nx ?bd _ _ sx st] =>
    destruct (fd_loop n len sx st rd m cd nx bd Hn) with (d := c) (j := O) (fuel := f) (lc := cast_uint64 0) as [lc' EL]
  end.
  - fold c. lia.
  - intros i. reflexivity.
  - intros i. cbv beta. rewrite Hs. reflexivity.
  - intros j lc nb Hj. fold c in Hj. cbv beta iota.
    rewrite (rep_entry n len (ring st) j R Hj). cbn [is_null negb].
    unfold get_ovni_ev_header_clock, ev_at. rewrite <- (Habs j) by lia. reflexivity.
  - reflexivity.
  - unfold loop_fuel. rewrite Hs, Nat2Z.id. lia.
  - change (Z.of_nat 0) with 0 in EL. rewrite EL. clear EL. fold c.
    unfold WinsortDefs.find_destination. rewrite Ering. cbn [skipn].
    destruct (find_lower m (firstn c rd) 0) as [nb|] eqn:F.
    + apply find_lower_bound in F. rewrite firstn_length, Hrd in F. rewrite Nat.min_l in F by lia.
      exists (slotZ n len nb). split; [reflexivity|]. split; [|split].
      * unfold slotZ. apply Z.mod_pos_bound. lia.
      * rewrite (rep_entry n len (ring st) nb R) by (fold c; lia). f_equal. lia.
      * lia.
    + rewrite firstn_length, Hrd, Nat.min_l by lia. rewrite Hs.
      destruct (Nat.ltb_spec c (n - 1)) as [Hsm|Hfl].
      * assert (Ec : c = len) by (unfold c, remembered in *; lia).
        destruct (Z.ltb_spec (Z.of_nat c) (Z.of_nat n - 1)); [|lia].
        rewrite Hh, Ht. fold c. rewrite Ec. rewrite Z.sub_diag, Z.mod_0_l by lia. cbn [Z.eqb negb].
        rewrite Z.mod_small by lia.
        destruct (Z.geb_spec (Z.of_nat len) (Z.of_nat n - 1)); [lia|].
        exists 0. split; [reflexivity|]. split; [lia|]. split; [|lia].
        pose proof (rep_entry n len (ring st) (len - 1)%nat R ltac:(fold c; lia)) as He.
        unfold slotZ in He. replace (Z.of_nat len - 1 - Z.of_nat (len - 1)) with 0 in He by lia.
        rewrite Z.mod_0_l in He by lia. rewrite He. f_equal. lia.
      * destruct (Z.ltb_spec (Z.of_nat c) (Z.of_nat n - 1)); [lia|].
        exists (-1). split; reflexivity.
Qed.

(* ------------------------------------------------------------------ (3, partial) execute_sort_plan: the refusal *)

Lemma min_clock_head_le a t : min_clock (a :: t) <= clock a.
Proof. pose proof (WinsortProofs.min_clock_le (a :: t)) as H. inversion H; assumption. Qed.

(* the clock execute_sort_plan looks a destination for is the minimum clock of the region body, and when the
   model finds no destination for it the generated function returns -1 before anything is written *)
Theorem execute_sort_plan_nodest n len sx st rd b :
  (2 <= n)%nat -> Rep n len (ring st) -> (1 <= len)%nat -> length rd = len ->
  (forall j, (j < len)%nat -> nth j rd ev0 = nth (len - 1 - j) (file st) ev0) ->
  sp_bad0 (plan st) = Some b -> sp_next (plan st) = Some len -> (b < len)%nat -> (len <= length (file st))%nat ->
  WinsortDefs.find_destination n rd (min_clock (between st (Some b) (Some len))) = None ->
  Winsort_gen.execute_sort_plan (Some tt) sx st = Fail E_FAIL.
Proof.
  intros Hn R Hl1 Hrd Habs Hb Hnx Hbl Hfl Hnone.
  unfold Winsort_gen.execute_sort_plan.
  unfold need, ite, bind, bind_, eval. cbn [is_null negb andb].
  unfold get_sortplan_bad0, get_sortplan_next, get_sortplan_bad0_header_clock, get_sortplan_r, find_min_clock.
  rewrite Hb, Hnx. cbn [is_null negb andb ev_at].
  set (mc := min_clock (between st (Some b) (Some len))) in *.
  assert (Hmc : mc <= clock (nth b (file st) ev0)).
  { unfold mc, between, idx.
    rewrite (skipn_nth_cons (file st) ev0 b) by lia.
    destruct (len - b)%nat as [|k] eqn:E; [lia|]. cbn [firstn]. apply min_clock_head_le. }
  destruct (find_destination_gen n len sx st rd mc Hn R Hl1 Hrd Habs) as [i0 [E1 E2]].
  rewrite Hnone in E2. subst i0.
  destruct (Z.ltb_spec mc (clock (nth b (file st) ev0))).
  - rewrite E1. reflexivity.
  - assert (Eq : clock (nth b (file st) ev0) = mc) by lia. rewrite Eq, E1. reflexivity.
Qed.

(* ------------------------------------------------------------------ a hand-written driver around the generated functions *)
(* NOT translated: the per-event body of stream_winsort (locals st / sp by value / counters) and its
   `while (stream_step)` loop.  This driver restates them by hand around the GENERATED starts/ends_unsorted_region,
   execute_sort_plan and ring_add, so that whole runs can be executed (examples in Props/Properties_C16.v). *)
Definition set_plan (st : wstate_c) (p : csp) : wstate_c := mk_wc (file st) (ring st) p (scratch st).

Definition drive_step (acc : res Z) (k : nat) : res Z :=
  match acc with
  | Fail e => Fail e
  | Done stc st =>
    let e := Some k in
    let r1 :=
      if (stc =? 83) && negb (Winsort_gen.starts_unsorted_region tt st e =? 0) then Done 85 st
      else if stc =? 85 then
        (if negb (Winsort_gen.ends_unsorted_region tt st e =? 0) then Done 83 st
         else Done 88 (set_plan st (mk_csp e (sp_next (plan st)) (sp_fd (plan st)))))
      else if (stc =? 88) && negb (Winsort_gen.ends_unsorted_region tt st e =? 0) then
        match Winsort_gen.execute_sort_plan (Some tt) tt (set_plan st (mk_csp (sp_bad0 (plan st)) e (sp_fd (plan st)))) with
        | Done _ st' => Done 83 (set_plan st' (mk_csp None None (sp_fd (plan st'))))
        | Fail x => Fail x
        end
      else Done stc st in
    match r1 with
    | Fail x => Fail x
    | Done stc' st' => match Winsort_gen.ring_add (Some tt) e tt st' with Done _ st'' => Done stc' st'' | Fail x => Fail x end
    end
  end.

(* ovnisort -n n on one non-empty stream: Some file' = exit status 0 *)
Definition drive (n : nat) (evs : list ev) : option (list ev) :=
  let st0 := mk_wc evs (mk_cring 0 0 (Z.of_nat n) (repeat None n)) (mk_csp None None 3) [] in
  match Winsort_gen.ring_reset (Some tt) tt st0 with
  | Fail _ => None
  | Done _ st1 =>
    match fold_left drive_step (seq 0 (length evs)) (Done 83 st1) with
    | Done _ st => Some (file st)
    | Fail _ => None
    end
  end.

Theorem ring_from_source :
  (forall sx st n, (1 <= n)%nat -> r_size (ring st) = Z.of_nat n -> length (r_ev (ring st)) = n ->
     exists g, Winsort_gen.ring_reset (Some tt) sx st = Done tt (with_ring st g) /\ Rep n 0 g) /\
  (forall sx st n len, Rep n len (ring st) ->
     exists g, Winsort_gen.ring_add (Some tt) (Some len) sx st = Done tt (with_ring st g) /\ Rep n (S len) g).
Proof.
  split.
  - intros sx st n Hn Hs Hl. eexists. split; [apply ring_reset_gen|]. apply rep_reset; assumption.
  - intros sx st n len R. exists (m_ring_add (ring st) (Some len)). split; [|apply rep_add; exact R].
    apply ring_add_gen. destruct R as [Hn _ Hl (q & t & _ & Ht & Htail) _ _]. rewrite Htail, Hl. lia.
Qed.
