(* The generated src/emu/sort.c (Gen/SortC_gen.v, unit sortc) computes what the model Emu/SortDefs.v says:
   sort_replace for every array / old / new (die and out-of-bounds outcomes included), sort_cb_input = input_changed. *)
From Coq Require Import ZArith List Bool Lia String.
From OV Require Import Base.CInt Emu.EmuCoreDefs Emu.SortCPre.
From OV Require Emu.SortDefs Gen.SortC_gen Proofs.SortProofs.
Import ListNotations.
Local Open Scope Z_scope.

Module G := SortC_gen.

Lemma constants : G.c_VALUE_INT64 = 1 /\ G.c_CHAN_SINGLE = 0 /\ G.c_CHAN_DIRTY_WRITE = P_DIRTY_WRITE /\ G.c_CHAN_ALLOW_DUP = P_ALLOW_DUP.
Proof. repeat split. Qed.

(* ---- lists *)
Lemma update_length {A} (l : list A) n x : length (update l n x) = length l.
Proof. revert n. induction l as [|a l IH]; intros [|n]; simpl; auto. Qed.

Lemma update_split {A} (l : list A) j v : (j < length l)%nat -> update l j v = firstn j l ++ v :: skipn (S j) l.
Proof.
  revert j. induction l as [|a l IH]; intros [|j] H; simpl in *; try lia; [reflexivity|].
  f_equal. apply IH. lia.
Qed.

Lemma skipn_cons {A} (l : list A) j x r d : skipn j l = x :: r -> nth j l d = x /\ skipn (S j) l = r /\ (j < length l)%nat.
Proof.
  revert j. induction l as [|a l IH]; intros [|j] H; simpl in *; try discriminate.
  - injection H as <- <-. repeat split. lia.
  - destruct (IH j H) as (H1 & H2 & H3). repeat split; auto. lia.
Qed.

Lemma skipn_nil_len {A} (l : list A) j : skipn j l = [] -> (length l <= j)%nat.
Proof. revert j. induction l as [|a l IH]; intros [|j] H; simpl in *; try lia; [discriminate|]. apply IH in H. lia. Qed.

Lemma firstn_S_nth {A} (l : list A) j d : (j < length l)%nat -> firstn (S j) l = firstn j l ++ [nth j l d].
Proof.
  revert j. induction l as [|a l IH]; intros [|j] H; simpl in *; try lia; [reflexivity|]. f_equal. apply IH. lia.
Qed.

Lemma shift_right_acc new rp acc : SD.shift_right new rp acc = SD.shift_right new rp [] ++ acc.
Proof.
  revert acc. induction rp as [|y t IH]; intros acc; simpl; [reflexivity|].
  destruct (y >? new).
  - rewrite (IH (y :: acc)), (IH [y]). rewrite <- app_assoc. reflexivity.
  - rewrite <- !app_assoc. reflexivity.
Qed.

Lemma shr_step (l : list Z) k v : (S k < length l)%nat ->
  firstn k (update l (S k) v) = firstn k l /\ skipn (S k) (update l (S k) v) = v :: skipn (S (S k)) l.
Proof.
  intros H. rewrite update_split by exact H. split.
  - rewrite firstn_app, firstn_firstn, firstn_length. replace (Nat.min k (S k)) with k by lia.
    replace (k - Nat.min (S k) (length l))%nat with 0%nat by lia. rewrite firstn_O, app_nil_r. reflexivity.
  - rewrite skipn_app, firstn_length. replace (S k - Nat.min (S k) (length l))%nat with 0%nat by lia.
    rewrite (skipn_all2 (firstn (S k) l)) by (rewrite firstn_length; lia). reflexivity.
Qed.

Section Loops.
  Variable sx : senv.
  Variables old new : Z.
  Definition len (st : sstate) : nat := length (ss_sorted st).

  (* ---- for (; arr[i] < old; i++) ; *)
  Lemma skip_run (cond : Z -> M bool) (body : Z -> M Z) :
    (forall j st, cond (Z.of_nat j) sx st =
                  if Nat.ltb j (len st) then Ok (nth j (ss_sorted st) 0 <? old, st) else Err E_TRAP) ->
    (forall j st, body (Z.of_nat j) sx st = Ok (Z.of_nat (S j), st)) ->
    forall fuel j st, (length (ss_sorted st) - j < fuel)%nat ->
      while_fuel fuel (Z.of_nat j) cond body sx st =
      match SD.skip_lt old (skipn j (ss_sorted st)) with
      | Some (p, _) => Ok (Z.of_nat (j + length p), st)
      | None => Err E_TRAP
      end.
  Proof.
    intros Hc Hb. induction fuel as [|f IH]; intros j st Hf; [lia|].
    cbn [while_fuel]. unfold bind. rewrite Hc. unfold len.
    destruct (skipn j (ss_sorted st)) as [|x r] eqn:Es.
    - apply skipn_nil_len in Es. destruct (Nat.ltb j (length (ss_sorted st))) eqn:E; [apply Nat.ltb_lt in E; lia|reflexivity].
    - destruct (skipn_cons _ _ _ _ 0 Es) as (Hn & Hs & Hl).
      destruct (Nat.ltb j (length (ss_sorted st))) eqn:E; [|apply Nat.ltb_ge in E; lia].
      rewrite Hn. cbn [SD.skip_lt]. destruct (x <? old).
      + rewrite Hb. rewrite IH by lia. rewrite Hs.
        destruct (SD.skip_lt old r) as [[p s]|]; [|reflexivity]. simpl length. rewrite Nat.add_succ_r. reflexivity.
      + unfold ret. simpl length. rewrite Nat.add_0_r. reflexivity.
  Qed.

  (* ---- for (; i < n - 1 && arr[i + 1] <= new; i++) arr[i] = arr[i + 1];   arr[i] = new; *)
  Lemma shl_run (N : nat) (cond : Z -> M bool) (body : Z -> M Z) (fin : Z -> M unit) :
    (forall j st, len st = N -> (j < N)%nat ->
       cond (Z.of_nat j) sx st = Ok (Nat.ltb (S j) N && (nth (S j) (ss_sorted st) 0 <=? new), st)) ->
    (forall j st, len st = N -> (S j < N)%nat ->
       body (Z.of_nat j) sx st = Ok (Z.of_nat (S j), with_sorted st (update (ss_sorted st) j (nth (S j) (ss_sorted st) 0)))) ->
    (forall j st, (j < len st)%nat -> fin (Z.of_nat j) sx st = Ok (tt, with_sorted st (update (ss_sorted st) j new))) ->
    forall fuel j st, len st = N -> (j < N)%nat -> (N - j < fuel)%nat ->
      bind (while_fuel fuel (Z.of_nat j) cond body) fin sx st =
      Ok (tt, with_sorted st (firstn j (ss_sorted st) ++ SD.shift_left new (skipn (S j) (ss_sorted st)))).
  Proof.
    intros Hc Hb Hfin. induction fuel as [|f IH]; intros j st HN Hj Hf; [lia|].
    unfold bind in *. cbn [while_fuel]. unfold bind. rewrite Hc by assumption.
    assert (Hj' : (j < len st)%nat) by lia.
    destruct (skipn (S j) (ss_sorted st)) as [|y t] eqn:Es.
    - pose proof (skipn_nil_len _ _ Es) as Hlen. destruct (Nat.ltb (S j) N) eqn:E; [apply Nat.ltb_lt in E; unfold len in *; lia|].
      cbn [andb]. unfold ret. rewrite Hfin by exact Hj'. rewrite update_split by exact Hj'.
      clear Es. assert (E2 : skipn (S j) (ss_sorted st) = []) by (apply skipn_all2; unfold len in *; lia). rewrite E2. reflexivity.
    - destruct (skipn_cons _ _ _ _ 0 Es) as (Hn & Hs & Hl).
      destruct (Nat.ltb (S j) N) eqn:E; [|apply Nat.ltb_ge in E; unfold len in *; lia].
      rewrite Hn. cbn [andb SD.shift_left]. destruct (y <=? new).
      + rewrite Hb by (unfold len in *; lia).
        set (st1 := with_sorted st (update (ss_sorted st) j (nth (S j) (ss_sorted st) 0))).
        assert (Hl1 : len st1 = N) by (unfold len, st1 in *; cbn; rewrite update_length; exact HN).
        specialize (IH (S j) st1 Hl1 ltac:(unfold len in *; lia) ltac:(lia)).
        rewrite IH. f_equal. f_equal. unfold st1. cbn [ss_sorted with_sorted mk].
        rewrite Hn. rewrite update_split by exact Hj'.
        rewrite (firstn_S_nth _ j 0) by (rewrite app_length, firstn_length; simpl; unfold len in *; lia).
        rewrite firstn_app, firstn_firstn, Nat.min_id. rewrite firstn_length. replace (j - Nat.min j (length (ss_sorted st)))%nat with 0%nat by lia.
        simpl firstn. rewrite app_nil_r.
        rewrite app_nth2 by (rewrite firstn_length; unfold len in *; lia). rewrite firstn_length. replace (j - Nat.min j (length (ss_sorted st)))%nat with 0%nat by (unfold len in *; lia).
        simpl nth.
        assert (E3 : skipn (S (S j)) (firstn j (ss_sorted st) ++ y :: skipn (S j) (ss_sorted st)) = t).
        { rewrite skipn_app. rewrite firstn_length. replace (S (S j) - Nat.min j (length (ss_sorted st)))%nat with 2%nat by (unfold len in *; lia).
          rewrite (skipn_all2 (firstn j (ss_sorted st))) by (rewrite firstn_length; lia). rewrite Es. reflexivity. }
        rewrite E3. rewrite <- app_assoc. reflexivity.
      + unfold ret. rewrite Hfin by exact Hj'. rewrite update_split by exact Hj'. rewrite Es. reflexivity.
  Qed.

  (* ---- for (; i > 0 && arr[i - 1] > new; i--) arr[i] = arr[i - 1];   arr[i] = new; *)
  Lemma shr_run (cond : Z -> M bool) (body : Z -> M Z) (fin : Z -> M unit) :
    (forall j st, (j < len st)%nat ->
       cond (Z.of_nat j) sx st = Ok (match j with O => false | S k => nth k (ss_sorted st) 0 >? new end, st)) ->
    (forall k st, (S k < len st)%nat ->
       body (Z.of_nat (S k)) sx st = Ok (Z.of_nat k, with_sorted st (update (ss_sorted st) (S k) (nth k (ss_sorted st) 0)))) ->
    (forall j st, (j < len st)%nat -> fin (Z.of_nat j) sx st = Ok (tt, with_sorted st (update (ss_sorted st) j new))) ->
    forall j fuel st, (j < len st)%nat -> (j < fuel)%nat ->
      bind (while_fuel fuel (Z.of_nat j) cond body) fin sx st =
      Ok (tt, with_sorted st (SD.shift_right new (rev (firstn j (ss_sorted st))) [] ++ skipn (S j) (ss_sorted st))).
  Proof.
    intros Hc Hb Hfin. induction j as [|k IH]; intros fuel st Hj Hf; (destruct fuel as [|f]; [lia|]).
    - unfold bind. cbn [while_fuel]. unfold bind. rewrite Hc by exact Hj. unfold ret. rewrite Hfin by exact Hj.
      rewrite update_split by exact Hj. reflexivity.
    - unfold bind in *. cbn [while_fuel]. unfold bind. rewrite Hc by exact Hj.
      rewrite (firstn_S_nth _ k 0) by (unfold len in Hj; lia). rewrite rev_app_distr. simpl rev. simpl app. cbn [SD.shift_right].
      destruct (nth k (ss_sorted st) 0 >? new).
      + rewrite Hb by exact Hj.
        set (st1 := with_sorted st (update (ss_sorted st) (S k) (nth k (ss_sorted st) 0))).
        assert (Hl1 : len st1 = len st) by (unfold len, st1; cbn; apply update_length).
        specialize (IH f st1). rewrite Hl1 in IH. specialize (IH ltac:(lia) ltac:(lia)). rewrite IH.
        f_equal. f_equal. unfold st1. cbn [ss_sorted with_sorted mk].
        destruct (shr_step (ss_sorted st) k (nth k (ss_sorted st) 0) Hj) as [E1 E2]. rewrite E1, E2.
        rewrite (shift_right_acc new _ [nth k (ss_sorted st) 0]). rewrite <- app_assoc. reflexivity.
      + unfold ret. rewrite Hfin by exact Hj. rewrite update_split by exact Hj.
        rewrite (firstn_S_nth _ k 0) by (unfold len in Hj; lia). rewrite rev_involutive. rewrite <- !app_assoc. reflexivity.
  Qed.
End Loops.

(* ---- sort_replace *)
Lemma skip_lt_spec old l p s : SD.skip_lt old l = Some (p, s) -> l = p ++ s /\ s <> [].
Proof.
  revert p s. induction l as [|x r IH]; intros p s H; simpl in H; [discriminate|].
  destruct (x <? old).
  - destruct (SD.skip_lt old r) as [[p' s']|]; [|discriminate]. injection H as <- <-.
    destruct (IH p' s' eq_refl) as [E N]. split; [simpl; f_equal; exact E|exact N].
  - injection H as <- <-. split; [reflexivity|discriminate].
Qed.

Lemma firstn_exact {A} (l1 l2 : list A) : firstn (length l1) (l1 ++ l2) = l1.
Proof. induction l1; simpl; [reflexivity|]. f_equal. assumption. Qed.
Lemma skipn_exact {A} (l1 : list A) x l2 : skipn (S (length l1)) (l1 ++ x :: l2) = l2.
Proof. induction l1; simpl; [reflexivity|]. assumption. Qed.

Lemma split_at {A} (a L : list A) x t k : a = L ++ x :: t -> length L = k -> firstn k a = L /\ skipn (S k) a = t.
Proof. intros -> <-. split; [apply firstn_exact|apply skipn_exact]. Qed.

Lemma inb_nat sx st j : inb_ptr_i64 sx st (Some ASorted) (Z.of_nat j) = Nat.ltb j (length (ss_sorted st)).
Proof.
  unfold inb_ptr_i64, arr_of. destruct (Nat.ltb j (length (ss_sorted st))) eqn:E.
  - apply Nat.ltb_lt in E. apply andb_true_iff. split; [apply Z.leb_le|apply Z.ltb_lt]; lia.
  - apply Nat.ltb_ge in E. apply andb_false_iff. right. apply Z.ltb_ge. lia.
Qed.
Lemma rd_nat sx st j : rd_ptr_i64 sx st (Some ASorted) (Z.of_nat j) = nth j (ss_sorted st) 0.
Proof. unfold rd_ptr_i64, arr_of. rewrite Nat2Z.id. reflexivity. Qed.
Lemma wr_nat sx st j v : (j < length (ss_sorted st))%nat ->
  wr_ptr_i64 (fun _ _ => Some ASorted) (fun _ _ => Z.of_nat j) (fun _ _ => v) sx st = Ok (tt, with_sorted st (update (ss_sorted st) j v)).
Proof.
  intros H. unfold wr_ptr_i64. rewrite inb_nat. apply Nat.ltb_lt in H. rewrite H. rewrite Nat2Z.id. reflexivity.
Qed.
Lemma quot2 k : Z.quot (Z.of_nat k) 2 = Z.of_nat (Nat.div k 2).
Proof. rewrite Z.quot_div_nonneg by lia. change 2 with (Z.of_nat 2). rewrite <- Nat2Z.inj_div. reflexivity. Qed.

Ltac munf := cbv beta delta [bind_ bind ite need eval ret fail].

Lemma bound_ok st : (length (ss_sorted st) < loop_bound st)%nat.
Proof. unfold loop_bound. lia. Qed.

Lemma ltb_pred j n : (Z.of_nat j <? Z.of_nat n - 1) = Nat.ltb (S j) n.
Proof.
  destruct (Nat.ltb (S j) n) eqn:E; [apply Nat.ltb_lt in E; apply Z.ltb_lt; lia|apply Nat.ltb_ge in E; apply Z.ltb_ge; lia].
Qed.

Theorem sort_replace_from_source sx st old new :
  G.sort_replace (Some ASorted) (Z.of_nat (length (ss_sorted st))) old new sx st =
  match SD.sort_replace (ss_sorted st) old new with
  | SD.SR_ok a' => Ok (tt, with_sorted st a')
  | SD.SR_die => Err E_DIE
  | SD.SR_oob => Err E_TRAP
  end.
Proof.
  pose proof (bound_ok st) as Hbound. remember (ss_sorted st) as a eqn:Ha0. unfold G.sort_replace, SD.sort_replace. munf.
  destruct (old =? new) eqn:Eon; [reflexivity|]. cbn [negb].
  assert (Hskipc : forall j st', (fun (i : Z) (sx0 : senv) (st0 : sstate) =>
             if inb_ptr_i64 sx0 st0 (Some ASorted) i then Ok (rd_ptr_i64 sx0 st0 (Some ASorted) i <? old, st0) else Err E_TRAP) (Z.of_nat j) sx st' =
             if Nat.ltb j (len st') then Ok (nth j (ss_sorted st') 0 <? old, st') else Err E_TRAP).
  { intros j st'. cbv beta. rewrite inb_nat, rd_nat. reflexivity. }
  assert (Hskipb : forall j st', (fun (i : Z) (_ : senv) (st0 : sstate) => Ok (i + 1, st0)) (Z.of_nat j) sx st' = Ok (Z.of_nat (S j), st')).
  { intros j st'. cbv beta. f_equal. f_equal. lia. }
  assert (Hfin : forall j st', (j < len st')%nat ->
            (fun a1 sx0 st0 => match wr_ptr_i64 (fun _ _ => Some ASorted) (fun _ _ => a1) (fun _ _ => new) sx0 st0 with
                               | Ok (_, st'0) => Ok (tt, st'0) | Err e => Err e end) (Z.of_nat j) sx st' =
            Ok (tt, with_sorted st' (update (ss_sorted st') j new))).
  { intros j st' Hj. cbv beta. rewrite wr_nat by exact Hj. reflexivity. }
  set (FIN := fun a1 : Z => bind_ (wr_ptr_i64 (fun _ _ => Some ASorted) (fun _ _ => a1) (fun _ _ => new)) (ret tt)).
  destruct (old <? new) eqn:Elt.
  - (* old < new *)
    rewrite quot2. rewrite inb_nat. rewrite <- Ha0.
    destruct a as [|x0 r0] eqn:Ea; [reflexivity|]. rewrite <- Ea in *.
    assert (Hm : (Nat.div (length a) 2 < length a)%nat) by (apply Nat.div_lt; [rewrite Ea; simpl; lia|lia]).
    apply Nat.ltb_lt in Hm. rewrite Hm. apply Nat.ltb_lt in Hm.
    rewrite rd_nat. rewrite <- Ha0.
    assert (Ei : (if nth (Nat.div (length a) 2) a 0 <? old then Z.of_nat (Nat.div (length a) 2) else 0) = Z.of_nat (SD.start_index a old)).
    { unfold SD.start_index. destruct (nth (Nat.div (length a) 2) a 0 <? old); reflexivity. }
    rewrite Ei. set (j0 := SD.start_index a old).
    assert (Hj0 : (j0 <= length a)%nat) by (unfold j0, SD.start_index; destruct (nth _ a 0 <? old); lia).
    unfold for_while at 1.
    rewrite (skip_run sx old _ _ Hskipc Hskipb) by (rewrite <- Ha0; lia).
    unfold SD.sort_replace_from. rewrite <- Ha0. fold j0.
    destruct (SD.skip_lt old (skipn j0 a)) as [[p s]|] eqn:Esk; [|reflexivity].
    destruct (skip_lt_spec _ _ _ _ Esk) as [Hsp Hne]. destruct s as [|xs tail]; [congruence|].
    assert (Ha : a = (firstn j0 a ++ p) ++ xs :: tail) by (rewrite <- app_assoc, <- Hsp; symmetry; apply firstn_skipn).
    assert (Hlen : length (firstn j0 a ++ p) = (j0 + length p)%nat) by (rewrite app_length, firstn_length; lia).
    assert (Hl2 : length a = (j0 + length p + S (length tail))%nat) by (rewrite Ha at 1; rewrite app_length, Hlen; reflexivity).
    assert (Hi : (j0 + length p < length a)%nat) by lia.
    unfold for_while.
    etransitivity.
    + match goal with |- context [while_fuel ?fu ?i ?c ?b sx st] =>
        transitivity (bind (while_fuel fu i c b) FIN sx st); [reflexivity|];
        apply (shl_run sx new (length a) c b FIN) with (j := (j0 + length p)%nat) end.
      * intros j st' HN Hj. cbv beta. replace (Z.of_nat j + 1) with (Z.of_nat (S j)) by lia. rewrite inb_nat, rd_nat, ltb_pred.
        unfold len in HN. rewrite HN. destruct (Nat.ltb (S j) (length a)); reflexivity.
      * intros j st' HN Hj. cbv beta. replace (Z.of_nat j + 1) with (Z.of_nat (S j)) by lia. unfold wr_ptr_i64. cbv beta.
        rewrite !inb_nat, !rd_nat. unfold len in HN. rewrite HN.
        assert (H1 : Nat.ltb (S j) (length a) = true) by (apply Nat.ltb_lt; lia).
        assert (H2 : Nat.ltb j (length a) = true) by (apply Nat.ltb_lt; lia).
        rewrite H1, H2. rewrite Nat2Z.id. reflexivity.
      * intros j st' Hj. unfold FIN, bind_, bind, ret. rewrite wr_nat by exact Hj. reflexivity.
      * unfold len. rewrite <- Ha0. reflexivity.
      * exact Hi.
      * lia.
    + destruct (split_at a _ xs tail _ Ha Hlen) as [F1 F2]. rewrite <- Ha0. rewrite F1, F2. rewrite <- app_assoc. reflexivity.
  - (* new < old *)
    unfold for_while at 1.
    pose proof (skip_run sx old _ _ Hskipc Hskipb (loop_bound st) 0%nat st) as Hs0. simpl Z.of_nat in Hs0.
    rewrite Hs0 by (rewrite <- Ha0; lia). clear Hs0.
    rewrite <- Ha0. simpl skipn.
    destruct a as [|x0 r0] eqn:Ea; [reflexivity|]. rewrite <- Ea in *.
    destruct (SD.skip_lt old a) as [[p s]|] eqn:Esk; [|reflexivity].
    destruct (skip_lt_spec _ _ _ _ Esk) as [Hsp Hne]. destruct s as [|xs tail]; [congruence|].
    assert (Hl2 : length a = (length p + S (length tail))%nat) by (rewrite Hsp at 1; rewrite app_length; reflexivity).
    unfold for_while. simpl Nat.add.
    etransitivity.
    + match goal with |- context [while_fuel ?fu ?i ?c ?b sx st] =>
        transitivity (bind (while_fuel fu i c b) FIN sx st); [reflexivity|];
        apply (shr_run sx new c b FIN) with (j := length p) end.
      * intros j st' Hj. cbv beta. destruct j as [|k].
        -- reflexivity.
        -- replace (Z.of_nat (S k) - 1) with (Z.of_nat k) by lia. rewrite inb_nat, rd_nat.
           assert (H1 : Nat.ltb k (length (ss_sorted st')) = true) by (apply Nat.ltb_lt; unfold len in Hj; lia).
           rewrite H1. assert (H2 : (Z.of_nat (S k) >? 0) = true) by (apply Z.gtb_lt; lia). rewrite H2. reflexivity.
      * intros k st' Hj. cbv beta. replace (Z.of_nat (S k) - 1) with (Z.of_nat k) by lia. unfold wr_ptr_i64. cbv beta.
        rewrite !inb_nat, !rd_nat.
        assert (H1 : Nat.ltb k (length (ss_sorted st')) = true) by (apply Nat.ltb_lt; unfold len in Hj; lia).
        assert (H2 : Nat.ltb (S k) (length (ss_sorted st')) = true) by (apply Nat.ltb_lt; unfold len in Hj; lia).
        rewrite H1, H2. rewrite Nat2Z.id. reflexivity.
      * intros j st' Hj. unfold FIN, bind_, bind, ret. rewrite wr_nat by exact Hj. reflexivity.
      * unfold len. rewrite <- Ha0. lia.
      * lia.
    + destruct (split_at a p xs tail _ Hsp eq_refl) as [F1 F2]. rewrite <- Ha0. rewrite F1, F2. reflexivity.
Qed.

(* ---- sort_cb_input *)
Lemma update_upd {A} (l : list A) i x : update l i x = SD.upd i x l.
Proof. revert i. induction l as [|a l IH]; intros [|i]; simpl; auto. f_equal. apply IH. Qed.

Definition all_has : bool * bool * bool * bool := (true, true, true, true).

(* the output loop: for each row, chan_set unless the channel already holds the value *)
Definition out_step (st : sstate) (k : nat) : sstate :=
  let s := nth k (ss_sorted st) 0 in
  if SD.value_eqb (nth k (ss_outs st) SD.VNull) (SD.VInt s) then st
  else with_outs st (update (ss_outs st) k (SD.VInt s)) (ss_writes st ++ [(k, s)]).

Lemma out_step_sorted st k : ss_sorted (out_step st k) = ss_sorted st /\ length (ss_outs (out_step st k)) = length (ss_outs st) /\
  ss_has (out_step st k) = ss_has st /\ ss_values (out_step st k) = ss_values st /\ ss_n (out_step st k) = ss_n st /\
  ss_copied (out_step st k) = ss_copied st /\ ss_pend (out_step st k) = ss_pend st /\ ss_regs (out_step st k) = ss_regs st.
Proof.
  unfold out_step. destruct (SD.value_eqb _ _); cbn; repeat split; try reflexivity. apply update_length.
Qed.

Lemma shr_stepV {A} (l : list A) k v : (k < length l)%nat ->
  firstn (S k) (update l k v) = firstn k l ++ [v] /\ skipn (S k) (update l k v) = skipn (S k) l.
Proof.
  intros H. rewrite update_split by exact H. split.
  - rewrite firstn_app, firstn_firstn, firstn_length. replace (Nat.min (S k) k) with k by lia.
    replace (S k - Nat.min k (length l))%nat with 1%nat by lia. reflexivity.
  - rewrite skipn_app, firstn_length. replace (S k - Nat.min k (length l))%nat with 1%nat by lia.
    rewrite (skipn_all2 (firstn k l)) by (rewrite firstn_length; lia). reflexivity.
Qed.

Lemma out_loop sx (body : Z -> unit -> M unit) :
  (forall k st, (k < length (ss_sorted st))%nat -> (k < length (ss_outs st))%nat -> ss_has st = all_has ->
     body (Z.of_nat k) tt sx st = Ok (tt, out_step st k)) ->
  forall m k st, length (ss_sorted st) = (k + m)%nat -> length (ss_outs st) = (k + m)%nat -> ss_has st = all_has ->
    for_list (map (fun j => Z.of_nat j) (seq k m)) tt body sx st =
    let (os, ws) := SD.write_outputs k (skipn k (ss_outs st)) (skipn k (ss_sorted st)) in
    Ok (tt, with_outs st (firstn k (ss_outs st) ++ os) (ss_writes st ++ ws)).
Proof.
  intros Hb. induction m as [|m IH]; intros k st Hs Ho Hh.
  - cbn [seq map for_list]. rewrite !skipn_all2 by lia. cbn [SD.write_outputs]. unfold ret.
    rewrite app_nil_r. rewrite firstn_all2 by lia. rewrite app_nil_r. destruct st; reflexivity.
  - cbn [seq map for_list]. unfold bind. rewrite Hb by (try exact Hh; lia).
    destruct (out_step_sorted st k) as (E1 & E2 & E3 & _).
    rewrite (IH (S k) (out_step st k)) by (rewrite ?E1, ?E2, ?E3; try exact Hh; lia).
    rewrite E1.
    destruct (skipn k (ss_outs st)) as [|o outs'] eqn:Eo; [apply skipn_nil_len in Eo; lia|].
    destruct (skipn k (ss_sorted st)) as [|s sorted'] eqn:Es; [apply skipn_nil_len in Es; lia|].
    destruct (skipn_cons _ _ _ _ SD.VNull Eo) as (Ho1 & Ho2 & Ho3).
    destruct (skipn_cons _ _ _ _ 0 Es) as (Hs1 & Hs2 & Hs3).
    cbn [SD.write_outputs]. rewrite Hs2.
    unfold out_step. rewrite Ho1, Hs1.
    destruct (SD.value_eqb o (SD.VInt s)) eqn:Ee.
    + rewrite Ho2. destruct (SD.write_outputs (S k) outs' sorted') as [os ws].
      f_equal. f_equal. rewrite (firstn_S_nth _ k SD.VNull) by lia. rewrite Ho1. rewrite <- app_assoc. reflexivity.
    + cbn [ss_outs ss_writes with_outs mk].
      destruct (shr_stepV (ss_outs st) k (SD.VInt s) Ho3) as [F1 F2]. rewrite F2, Ho2.
      destruct (SD.write_outputs (S k) outs' sorted') as [os ws].
      rewrite F1. rewrite <- !app_assoc. reflexivity.
Qed.

Lemma shift_left_length new t : length (SD.shift_left new t) = S (length t).
Proof. induction t as [|y t IH]; simpl; [reflexivity|]. destruct (y <=? new); simpl; [rewrite IH|]; reflexivity. Qed.
Lemma shift_right_length new rp acc : length (SD.shift_right new rp acc) = S (length rp + length acc).
Proof.
  revert acc. induction rp as [|y t IH]; intros acc; simpl; [reflexivity|].
  destruct (y >? new); [rewrite IH; simpl; lia|]. rewrite !app_length, rev_length. simpl. lia.
Qed.
Lemma sort_replace_length a old new a' : SD.sort_replace a old new = SD.SR_ok a' -> length a' = length a.
Proof.
  unfold SD.sort_replace, SD.sort_replace_from. destruct (old =? new); [discriminate|].
  destruct a as [|x0 r0] eqn:Ea; [discriminate|]. rewrite <- Ea.
  destruct (old <? new).
  - set (j := SD.start_index a old).
    assert (Hj : (j <= length a)%nat) by (unfold j, SD.start_index; destruct (nth _ a 0 <? old); [apply Nat.lt_le_incl, Nat.div_lt; [rewrite Ea; simpl; lia|lia]|lia]).
    destruct (SD.skip_lt old (skipn j a)) as [[p s]|] eqn:E; [|discriminate]. destruct s as [|x t]; [discriminate|].
    intros H. injection H as <-. destruct (skip_lt_spec _ _ _ _ E) as [Hs _].
    rewrite !app_length, shift_left_length, firstn_length. apply (f_equal (@length Z)) in Hs. rewrite skipn_length, app_length in Hs. simpl in Hs. lia.
  - destruct (SD.skip_lt old a) as [[p s]|] eqn:E; [|discriminate]. destruct s as [|x t]; [discriminate|].
    intros H. injection H as <-. destruct (skip_lt_spec _ _ _ _ E) as [Hs _].
    rewrite app_length, shift_right_length, rev_length. apply (f_equal (@length Z)) in Hs. rewrite app_length in Hs. simpl in Hs. simpl. lia.
Qed.

(* the C state represents the module state *)
Definition rep (st : sstate) (m : SD.sortmod) : Prop :=
  ss_values st = SD.m_values m /\ ss_sorted st = SD.m_sorted m /\ ss_copied st = b2z (SD.m_copied m) /\ ss_outs st = SD.m_outputs m /\
  ss_has st = all_has /\ ss_n st = Z.of_nat (length (SD.m_values m)).
Definition sized (m : SD.sortmod) : Prop :=
  length (SD.m_sorted m) = length (SD.m_values m) /\ length (SD.m_outputs m) = length (SD.m_values m) /\
  8 * Z.of_nat (length (SD.m_values m)) < 2 ^ 64.

Lemma inb_natV sx st j : inb_ptr_i64 sx st (Some AVal) (Z.of_nat j) = Nat.ltb j (length (ss_values st)).
Proof.
  unfold inb_ptr_i64, arr_of. destruct (Nat.ltb j (length (ss_values st))) eqn:E.
  - apply Nat.ltb_lt in E. apply andb_true_iff. split; [apply Z.leb_le|apply Z.ltb_lt]; lia.
  - apply Nat.ltb_ge in E. apply andb_false_iff. right. apply Z.ltb_ge. lia.
Qed.
Lemma rd_natV sx st j : rd_ptr_i64 sx st (Some AVal) (Z.of_nat j) = nth j (ss_values st) 0.
Proof. unfold rd_ptr_i64, arr_of. rewrite Nat2Z.id. reflexivity. Qed.

Lemma out_body_ok sx st k :
  (k < length (ss_sorted st))%nat -> (k < length (ss_outs st))%nat -> ss_has st = all_has ->
  (fun (i : Z) (_ : unit) =>
     need (fun sx st => andb (negb (is_null (Some tt : ptr_sort))) (inb_ptr_i64 sx st (get_sort__sorted sx st (Some tt)) i))
       (bind (eval (fun sx st => value_int64 sx st (rd_ptr_i64 sx st (get_sort__sorted sx st (Some tt)) i))) (fun val =>
          bind (need (fun sx st => negb (is_null (Some tt : ptr_sort)))
                  (bind (eval (fun sx st => at_ptr_chan (get_sort__outputs sx st (Some tt)) i)) (fun a1_ => chan_read a1_))) (fun last =>
            ite (fun sx st => negb (Z.eqb (value_is_equal sx st last val) 0))
              (ret tt)
              (bind_ (need (fun sx st => negb (is_null (Some tt : ptr_sort)))
                        (bind (eval (fun sx st => at_ptr_chan (get_sort__outputs sx st (Some tt)) i)) (fun a1_ => chan_set a1_ val)))
                     (ret tt)))))) (Z.of_nat k) tt sx st = Ok (tt, out_step st k).
Proof.
  intros H1 H2 Hh. cbv beta. munf. unfold get_sort__sorted, get_sort__outputs. rewrite Hh. cbn [all_has is_null negb andb at_ptr_chan].
  rewrite inb_nat. apply Nat.ltb_lt in H1. rewrite H1. rewrite rd_nat. unfold value_int64, chan_read, out_inb.
  change (0 + Z.of_nat k) with (Z.of_nat k).
  assert (E : (0 <=? Z.of_nat k) && (Z.of_nat k <? Z.of_nat (length (ss_outs st))) = true)
    by (apply andb_true_iff; split; [apply Z.leb_le|apply Z.ltb_lt]; lia).
  rewrite E. rewrite Nat2Z.id. unfold value_is_equal, out_step.
  destruct (SD.value_eqb (nth k (ss_outs st) SD.VNull) (SD.VInt (nth k (ss_sorted st) 0))); cbn [b2z Z.eqb negb].
  - reflexivity.
  - unfold get_sort__outputs. rewrite Hh. cbn [all_has at_ptr_chan]. change (0 + Z.of_nat k) with (Z.of_nat k).
    unfold chan_set, out_inb. rewrite E. rewrite Nat2Z.id. reflexivity.
Qed.

Lemma cast_u64_small z : 0 <= z < 2 ^ 64 -> cast_uint64 z = z.
Proof. intros H. unfold cast_uint64, wrapu. apply Z.mod_small. exact H. Qed.

Definition final_state (st : sstate) (i : nat) (new : Z) (sorted' : list Z) (os : list SD.value) (ws : list (nat * Z)) : sstate :=
  mk st (SD.upd i new (ss_values st)) sorted' (ss_n st) 1 (ss_has st) os (ss_writes st ++ ws) (ss_pend st) (ss_regs st).

Lemma cb_run v alloc st m i : rep st m -> sized m ->
  G.sort_cb_input (Some CIn) (Some (inl (Z.of_nat i))) {| sn_in := v; sn_alloc_ok := alloc |} st =
  let new := SD.to_i64 v in
  let old := nth i (SD.m_values m) 0 in
  if Nat.ltb i (length (SD.m_values m)) then
    if old =? new then Ok (tt, st) else
    match (if SD.m_copied m then SD.sort_replace (SD.m_sorted m) old new else SD.SR_ok (SD.isort (SD.upd i new (SD.m_values m)))) with
    | SD.SR_ok sorted' => let (os, ws) := SD.write_outputs 0 (SD.m_outputs m) sorted' in Ok (tt, final_state st i new sorted' os ws)
    | SD.SR_die => Err E_DIE
    | SD.SR_oob => Err E_TRAP
    end
  else Err E_TRAP.
Proof.
  intros (Hv & Hs & Hc & Ho & Hh & Hn) (L1 & L2 & L3).
  set (sx := {| sn_in := v; sn_alloc_ok := alloc |}).
  unfold G.sort_cb_input.
  cbv beta delta [bind_ bind ite need eval ret fail].
  cbn [ptr_sinput_of_void is_null negb]. unfold get_sort_input__sort, get_sort_input__index.
  unfold for_range.
  match goal with |- context [for_list _ tt ?b] => set (body := b) end.
  unfold chan_read at 1. cbn [sn_in sx].
  assert (Enew : (if fld_cvalue_type v =? G.c_VALUE_INT64 then fld_cvalue_i v else 0) = SD.to_i64 v) by (destruct v; reflexivity).
  rewrite Enew. cbv zeta. set (new := SD.to_i64 v).
  unfold get_sort__values. rewrite Hh. cbn [all_has is_null negb andb].
  rewrite inb_natV, rd_natV. rewrite Hv.
  destruct (Nat.ltb i (length (SD.m_values m))) eqn:E; [|reflexivity]. apply Nat.ltb_lt in E.
  set (old := nth i (SD.m_values m) 0).
  destruct (old =? new) eqn:Eon; [reflexivity|].
  (* sort->values[index] = new *)
  assert (Ewr : wr_ptr_i64 (fun (_ : senv) (st0 : sstate) => match ss_has st0 with (_, _, true, _) => Some AVal | (_, _, false, _) => None end)
                  (fun _ _ => Z.of_nat i) (fun _ _ => new) sx st = Ok (tt, with_values st (update (ss_values st) i new))).
  { unfold wr_ptr_i64. rewrite Hh. cbn [all_has]. rewrite inb_natV, Hv. apply Nat.ltb_lt in E. rewrite E. rewrite Nat2Z.id. reflexivity. }
  rewrite Ewr. set (st1 := with_values st (update (ss_values st) i new)).
  assert (Hh1 : ss_has st1 = all_has) by exact Hh.
  assert (Hlen1 : length (ss_values st1) = length (SD.m_values m)) by (unfold st1; cbn; rewrite update_length, Hv; reflexivity).
  assert (Hn1 : ss_n st1 = Z.of_nat (length (SD.m_values m))) by exact Hn.
  assert (Hloop : forall st2, ss_has st2 = all_has -> length (ss_sorted st2) = length (SD.m_values m) -> ss_outs st2 = SD.m_outputs m ->
            ss_n st2 = Z.of_nat (length (SD.m_values m)) ->
            for_list (zrange 0 (get_sort__n sx st2 (Some tt))) tt body sx st2 =
            let (os, ws) := SD.write_outputs 0 (SD.m_outputs m) (ss_sorted st2) in Ok (tt, with_outs st2 os (ss_writes st2 ++ ws))).
  { intros st2 H2 Hl2 Ho2 Hn2. unfold get_sort__n. rewrite Hn2. unfold zrange. rewrite Z.sub_0_r, Nat2Z.id.
    change (map (fun k : nat => 0 + Z.of_nat k)) with (map (fun k : nat => Z.of_nat k)).
    rewrite (out_loop sx body) with (k := 0%nat).
    - simpl skipn. simpl firstn. rewrite Ho2. reflexivity.
    - intros k st3 K1 K2 K3. apply out_body_ok; assumption.
    - simpl. exact Hl2.
    - simpl. rewrite Ho2. exact L2.
    - exact H2. }
  unfold get_sort__copied. change (ss_copied st1) with (ss_copied st). rewrite Hc.
  destruct (SD.m_copied m) eqn:Ecp; cbn [b2z Z.eqb negb].
  - (* incremental path *)
    unfold get_sort__sorted at 1. rewrite Hh1. cbn [all_has].
    assert (En : get_sort__n sx st1 (Some tt) = Z.of_nat (length (ss_sorted st1))).
    { unfold get_sort__n. rewrite Hn1. change (ss_sorted st1) with (ss_sorted st). rewrite Hs, L1. reflexivity. }
    rewrite En. rewrite sort_replace_from_source. change (ss_sorted st1) with (ss_sorted st). rewrite Hs.
    destruct (SD.sort_replace (SD.m_sorted m) old new) as [a'| |] eqn:Esr; [|reflexivity|reflexivity].
    rewrite Hloop.
    + cbn [ss_sorted with_sorted mk].
      destruct (SD.write_outputs 0 (SD.m_outputs m) a') as [os ws]. f_equal. f_equal.
      unfold final_state, with_outs, with_sorted, st1, with_values, mk. cbn. rewrite Hc, update_upd. reflexivity.
    + exact Hh.
    + cbn. rewrite (sort_replace_length _ _ _ _ Esr). exact L1.
    + exact Ho.
    + exact Hn.
  - (* first time: memcpy + qsort *)
    unfold get_sort__sorted at 1. rewrite Hh1. cbn [all_has void_of_ptr_i64 option_map].
    unfold memcpy. unfold get_sort__n at 1. rewrite Hn1.
    rewrite (cast_u64_small (Z.of_nat (length (SD.m_values m)))) by lia.
    rewrite (cast_u64_small (Z.of_nat (length (SD.m_values m)) * 8)) by lia.
    rewrite Hlen1. change (ss_sorted st1) with (ss_sorted st). rewrite Hs, L1.
    rewrite Z.mul_comm, Z.eqb_refl, Nat.eqb_refl. cbn [andb].
    set (st2 := with_sorted st1 (ss_values st1)).
    unfold get_sort__sorted at 1. change (ss_has st2) with (ss_has st). rewrite Hh. cbn [all_has void_of_ptr_i64 option_map].
    unfold qsort, fn_cmp_int64. unfold get_sort__n at 1. change (ss_n st2) with (ss_n st). rewrite Hn.
    rewrite (cast_u64_small (Z.of_nat (length (SD.m_values m)))) by lia.
    change (ss_sorted st2) with (ss_values st1). rewrite Hlen1, Z.eqb_refl. cbn [Z.eqb andb].
    unfold set_sort_copied. change ((8 =? 8)%positive) with true. cbv iota beta.
    rewrite Hloop.
    + cbn [ss_sorted with_sorted with_copied mk]. unfold st1 at 1. cbn [ss_values with_values mk]. rewrite Hv, update_upd.
      destruct (SD.write_outputs 0 (SD.m_outputs m) (SD.isort (SD.upd i new (SD.m_values m)))) as [os ws]. f_equal. f_equal.
      unfold final_state, with_outs, with_copied, with_sorted, st2, st1, with_values, with_sorted, mk. cbn. rewrite Hv, update_upd. reflexivity.
    + exact Hh.
    + cbn. rewrite SortProofs.isort_length, update_length, Hv. reflexivity.
    + exact Ho.
    + exact Hn.
Qed.

Theorem sort_cb_input_from_source v alloc st m i : rep st m -> sized m ->
  match SD.input_changed m i v with
  | SD.M_ok m' ws =>
    exists st', G.sort_cb_input (Some CIn) (Some (inl (Z.of_nat i))) {| sn_in := v; sn_alloc_ok := alloc |} st = Ok (tt, st') /\
                rep st' m' /\ ss_writes st' = ss_writes st ++ ws /\ ss_pend st' = ss_pend st /\ ss_regs st' = ss_regs st
  | SD.M_err => exists e, G.sort_cb_input (Some CIn) (Some (inl (Z.of_nat i))) {| sn_in := v; sn_alloc_ok := alloc |} st = Err e
  end.
Proof.
  intros Hr Hz. rewrite (cb_run v alloc st m i Hr Hz). destruct Hr as (Hv & Hs & Hc & Ho & Hh & Hn).
  unfold SD.input_changed. cbv zeta.
  destruct (Nat.leb (length (SD.m_values m)) i) eqn:Ele.
  { apply Nat.leb_le in Ele. assert (E : Nat.ltb i (length (SD.m_values m)) = false) by (apply Nat.ltb_ge; exact Ele). rewrite E. eexists; reflexivity. }
  apply Nat.leb_gt in Ele. assert (E : Nat.ltb i (length (SD.m_values m)) = true) by (apply Nat.ltb_lt; exact Ele). rewrite E.
  destruct (nth i (SD.m_values m) 0 =? SD.to_i64 v).
  { exists st. split; [reflexivity|]. split; [repeat split; assumption|]. split; [symmetry; apply app_nil_r|]. split; reflexivity. }
  destruct (if SD.m_copied m then _ else _) as [sorted'| |]; try (eexists; reflexivity).
  destruct (SD.write_outputs 0 (SD.m_outputs m) sorted') as [os ws].
  eexists. split; [reflexivity|]. split; [|split; [reflexivity|split; reflexivity]].
  unfold rep, final_state, mk. cbn. rewrite Hv, Hh, Hn, SortProofs.upd_length. repeat split; reflexivity.
Qed.

(* ---- with the model's theorems: the generated sort_replace is correct on sorted arrays *)
Theorem sort_replace_generated_correct sx st old new :
  Sorted.Sorted Z.le (ss_sorted st) -> In old (ss_sorted st) -> old <> new ->
  exists a', G.sort_replace (Some ASorted) (Z.of_nat (length (ss_sorted st))) old new sx st = Ok (tt, with_sorted st a') /\
             Sorted.Sorted Z.le a' /\ Permutation.Permutation a' (new :: SD.remove_one old (ss_sorted st)).
Proof.
  intros H1 H2 H3. destruct (SortProofs.replace_ok (ss_sorted st) old new H1 H2 H3) as (a' & E & S & P).
  exists a'. split; [|split; assumption]. rewrite sort_replace_from_source, E. reflexivity.
Qed.

(* ---- examples *)
Definition ex_state (vals : list Z) : sstate :=
  {| ss_values := vals; ss_sorted := SD.isort vals; ss_n := Z.of_nat (length vals); ss_copied := 1; ss_has := all_has;
     ss_outs := map SD.VInt (SD.isort vals); ss_writes := []; ss_pend := []; ss_regs := [] |}.
Definition ex_env (v : SD.value) : senv := {| sn_in := v; sn_alloc_ok := true |}.
Definition ex_init (n : Z) : result sstate :=
  match G.sort_init (Some tt) (Some tt) n (Some EmptyString) (ex_env SD.VNull)
          {| ss_values := [7]; ss_sorted := [7]; ss_n := 1; ss_copied := 1; ss_has := all_has; ss_outs := [SD.VInt 7]; ss_writes := []; ss_pend := []; ss_regs := [] |} with
  | Ok (_, st) => Ok st | Err e => Err e end.
