(* The buffer functions GENERATED from src/rt/ovni.c (Gen/RtBuf_gen.v, unit rtbuf) compute the hand model
   Rt/RtBufDefs.v with fx = true (the code after the repair 417af60), for every capacity 64 <= cap < 2^63.

   Part 1: what each generated function does to the state of Rt/RtBufPre.v (explicit results).
   Part 2: the representation relation Rep is kept by every step; generated = model, function by function
           (flush_evbuf, ovni_clock_now, ovni_payload_add, add_flush_events, ovni_ev_add, ovni_ev_add_jumbo, ovni_flush,
           ovni_ev_emit / ovni_ev_jumbo_emit, the three mark emitters).
   Part 3: one API call = RtBufDefs.step, whole call sequences = RtBufDefs.run; C01_fidelity / C02_valid_stream_always
           restated for the generated code. *)
From Coq Require Import ZArith List Bool Lia.
From OV Require Import Base.CInt Rt.RtBufPre Rt.CodecPre Gen.Codec_gen Rt.CodecDefs Rt.RtBufDefs Rt.RtBufApiDefs
  Proofs.CodecProofs Proofs.RtBufProofs.
From OV Require Gen.RtBuf_gen.
From Coq Require Import ZifyBool.
Import ListNotations.
Local Open Scope Z_scope.
Ltac Zify.zify_post_hook ::= Z.div_mod_to_equations.

Module D := RtBufDefs.

Ltac munf := unfold bind_, bind, ite, eval, ret, fail.

(* ------------------------------------------------------------------ part 1: lists and casts *)

Lemma u64_small z : 0 <= z < 2 ^ 64 -> cast_uint64 z = z.
Proof. intros H. apply wrapu_small. exact H. Qed.

Lemma nth_upd_same {A} (l : list A) n x d : (n < length l)%nat -> nth n (upd_nth l n x) d = x.
Proof. revert n. induction l as [|a r IH]; intros [|n] H; cbn in *; try lia; [reflexivity | apply IH; lia]. Qed.

Lemma nth_upd_other {A} (l : list A) n k x d : n <> k -> nth k (upd_nth l n x) d = nth k l d.
Proof. revert n k. induction l as [|a r IH]; intros [|n] [|k] H; cbn; try reflexivity; try congruence. apply IH. congruence. Qed.

Lemma upd_length {A} (l : list A) n x : length (upd_nth l n x) = length l.
Proof. revert n. induction l as [|a r IH]; intros [|n]; cbn; try reflexivity. rewrite IH. reflexivity. Qed.

Lemma upd_upd {A} (l : list A) n x y : upd_nth (upd_nth l n x) n y = upd_nth l n y.
Proof. revert n. induction l as [|a r IH]; intros [|n]; cbn; try reflexivity. rewrite IH. reflexivity. Qed.

Lemma upd_app_last {A} (l : list A) x y : upd_nth (l ++ [x]) (length l) y = l ++ [y].
Proof. induction l as [|a r IH]; cbn; [reflexivity | rewrite IH; reflexivity]. Qed.

Lemma upd_app_l {A} (l r : list A) n x : (n < length l)%nat -> upd_nth (l ++ r) n x = upd_nth l n x ++ r.
Proof. revert n. induction l as [|a l IH]; intros [|n] H; cbn in *; try lia; [reflexivity | rewrite IH by lia; reflexivity]. Qed.

Lemma firstn_splice_end (l bs : list Z) (off : Z) :
  0 <= off -> (Z.to_nat off <= length l)%nat ->
  firstn (Z.to_nat (off + zlength bs)) (splice l off bs) = firstn (Z.to_nat off) l ++ bs.
Proof.
  intros H0 H. unfold splice. rewrite app_assoc. apply firstn_exact.
  rewrite app_length, firstn_length, zlength_len. lia.
Qed.

Lemma splice_length_ge (l bs : list Z) off : 0 <= off -> (Z.to_nat off <= length l)%nat ->
  zlength (splice l off bs) >= off + zlength bs.
Proof.
  intros H0 H. unfold splice. rewrite !zlength_app. rewrite (zlength_len (firstn _ _)), firstn_length.
  pose proof (zlength_nonneg (skipn (Z.to_nat off + length bs) l)). lia.
Qed.

(* ------------------------------------------------------------------ part 1: the generated functions, run *)

Section Run.
  Variable cap : Z.
  Hypothesis Hcap : 64 <= cap < 2 ^ 63.
  Let sx := env_of cap.

  Definition gflush (g : rstate) : rstate :=
    with_evlen (with_wr g (g_buf_bytes g :: g_wr g)) 0.

  Lemma flush_run g : 0 <= g_evlen g <= zlength (g_evbuf g) -> G.flush_evbuf sx g = Ok (tt, gflush g).
  Proof.
    intros H. unfold G.flush_evbuf. munf. unfold write_evbuf, get_ovni_rthread_evbuf, get_ovni_rthread_evlen, set_ovni_rthread_evlen.
    destruct ((0 <=? 0) && (0 <=? g_evlen g) && (0 + g_evlen g <=? zlength (g_evbuf g))) eqn:E; [|lia].
    reflexivity.
  Qed.

  Lemma clock_run g : G.ovni_clock_now sx g =
    match g_clk g with [] => Err E_NOCLOCK | t :: r => Ok (t, with_clk g r) end.
  Proof. reflexivity. Qed.

  (* memcpy(&evbuf[evlen], <bytes>, n); evlen += n *)
  Definition gpush (g : rstate) (bs : list Z) : rstate :=
    with_evlen (with_evbuf g (splice (g_evbuf g) (g_evlen g) bs)) (g_evlen g + zlength bs).

  Lemma push_run g src n bs (k : M unit) :
    src_bytes g src n = Some bs -> zlength bs = n ->
    0 <= g_evlen g <= zlength (g_evbuf g) -> g_evlen g + n <= cap ->
    bind_ (bind (eval (fun sx st => void_of_bptr (addr_ovni_rthread_evbuf_at rthread (get_ovni_rthread_evlen sx st rthread))))
                (fun a1_ => memcpy a1_ src n))
          (bind_ (set_ovni_rthread_evlen rthread (fun sx st => cast_uint64 (Z.add (get_ovni_rthread_evlen sx st rthread) n))) k) sx g
    = k sx (gpush g bs).
  Proof.
    intros Hs Hn H1 H2. pose proof (zlength_nonneg bs) as Hnn. munf. unfold memcpy, void_of_bptr, addr_ovni_rthread_evbuf_at, get_ovni_rthread_evlen.
    rewrite Hs. change (e_cap sx) with cap.
    destruct ((0 <=? g_evlen g) && (g_evlen g <=? zlength (g_evbuf g)) && (g_evlen g + n <=? cap)) eqn:E; [|lia].
    unfold set_ovni_rthread_evlen. cbn [g_evlen with_evbuf]. rewrite u64_small by lia.
    unfold gpush. rewrite Hn. reflexivity.
  Qed.

  (* events in the store *)
  Definition has_ev (g : rstate) (p : ptr_ovni_ev) (ev : ovni_ev) : Prop :=
    (p < length (g_evs g))%nat /\ ld g p = ev.

  Lemma upd_ev_run g p f : (p < length (g_evs g))%nat ->
    upd_ev p f sx g = Ok (tt, with_evs g (upd_nth (g_evs g) p (f (ld g p)))).
  Proof. intros H. unfold upd_ev. destruct (Nat.ltb p (length (g_evs g))) eqn:E; [reflexivity|]. apply Nat.ltb_ge in E. lia. Qed.

  Definition gset (g : rstate) (p : ptr_ovni_ev) (ev : ovni_ev) : rstate := with_evs g (upd_nth (g_evs g) p ev).

  Lemma has_ev_gset g p ev : (p < length (g_evs g))%nat -> has_ev (gset g p ev) p ev.
  Proof. intros H. split; cbn [gset g_evs with_evs]; [rewrite upd_length; exact H | unfold ld; cbn [g_evs with_evs]; apply nth_upd_same; exact H]. Qed.

  Lemma gset_gset g p a b : gset (gset g p a) p b = gset g p b.
  Proof. unfold gset. cbn [g_evs with_evs]. rewrite upd_upd. reflexivity. Qed.

  Lemma set_clock_run g p ev t : has_ev g p ev ->
    G.ovni_ev_set_clock p t sx g = Ok (tt, gset g p (ovni_ev_set_clock ev t)).
  Proof.
    intros [L E]. unfold G.ovni_ev_set_clock. munf. unfold set_ovni_ev_header_clock. rewrite upd_ev_run by exact L.
    rewrite E. reflexivity.
  Qed.

  Lemma set_mcv_run g p ev m c v : has_ev g p ev -> byte m -> byte c -> byte v ->
    G.ovni_ev_set_mcv p (mcv_str m c v) sx g = Ok (tt, gset g p (ovni_ev_set_mcv ev m c v)).
  Proof.
    intros [L E] Hm Hc Hv. unfold G.ovni_ev_set_mcv.
    change (ix (mcv_str m c v) 0) with m. change (ix (mcv_str m c v) 1) with c. change (ix (mcv_str m c v) 2) with v.
    unfold byte in *. rewrite !(wrapu_small 8) by (change (2 ^ 8) with 256; lia).
    munf. unfold set_ovni_ev_header_model, set_ovni_ev_header_category, set_ovni_ev_header_value.
    rewrite upd_ev_run by exact L.
    rewrite upd_ev_run by (cbn [g_evs with_evs]; rewrite upd_length; exact L).
    rewrite upd_ev_run by (cbn [g_evs with_evs]; rewrite !upd_length; exact L).
    unfold ld. cbn [g_evs with_evs]. rewrite !nth_upd_same by (rewrite ?upd_length; exact L).
    rewrite !upd_upd. fold (ld g p). rewrite E.
    cbn [h_flags h_model h_category h_value h_clock ev_payload]. reflexivity.
  Qed.

  Lemma new_ev_run g : new_ovni_ev sx g = Ok (length (g_evs g), with_evs g (g_evs g ++ [ev_zero])).
  Proof. reflexivity. Qed.

  Lemma has_ev_new g : has_ev (with_evs g (g_evs g ++ [ev_zero])) (length (g_evs g)) ev_zero.
  Proof.
    split; cbn [g_evs with_evs]; [rewrite app_length; cbn; lia|].
    unfold ld. cbn [g_evs with_evs]. rewrite app_nth2 by lia. rewrite Nat.sub_diag. reflexivity.
  Qed.

  Lemma land240_small fl : 0 <= fl < 16 -> Z.land fl 240 = 0.
  Proof.
    intros H. assert (I : In fl (zrange 0 16)) by (apply in_zrange; lia).
    cbn in I. repeat (destruct I as [<-|I]; [reflexivity|]). contradiction.
  Qed.

  Lemma built_flags pl ev : built pl ev -> 0 <= h_flags ev < 16.
  Proof. intros (Hf & _ & Hn). rewrite Hf. apply nibble_range. lia. Qed.

  (* ovni_payload_add(ev, buf, |buf|) on an event built through the API *)
  Lemma payload_add_run g p pl ev bs : has_ev g p ev -> built pl ev -> zlength bs < 2 ^ 31 ->
    G.ovni_payload_add p (P_data bs) (zlength bs) sx g =
    match ovni_payload_add ev bs with Die => Err E_DIE | Ret ev' => Ok (tt, gset g p ev') end.
  Proof.
    intros [L E] B Hb. pose proof (built_size pl ev B) as [Hs HJ]. pose proof (built_flags pl ev B) as Hfl.
    pose proof (zlength_nonneg bs) as Hn0. pose proof (zlength_nonneg pl) as Hp0.
    assert (Hp16 : zlength pl <= 16) by (destruct B as (_ & _ & Hn); lia).
    unfold G.ovni_payload_add, ovni_payload_add. munf.
    unfold get_ovni_ev_header_flags, RtBufPre.ovni_payload_size. rewrite E.
    change G.c_OVNI_EV_JUMBO with c_OVNI_EV_JUMBO. rewrite HJ. cbn [Z.eqb negb].
    destruct (zlength bs <? 2) eqn:E2; [reflexivity|].
    rewrite Hs. rewrite !(u64_small (zlength pl)) by lia. rewrite !(u64_small (zlength bs)) by lia.
    rewrite !(u64_small (zlength pl + zlength bs)) by lia.
    change G.k_sizeof_union_ovni_ev_payload with c_sizeof_union_ovni_ev_payload.
    destruct (zlength pl + zlength bs >? c_sizeof_union_ovni_ev_payload) eqn:E3; [reflexivity|].
    change c_sizeof_union_ovni_ev_payload with 16 in E3.
    unfold memcpy, void_of_bptr, addr_ovni_ev_payload_u8_at, src_bytes.
    destruct ((0 <=? zlength bs) && (zlength bs <=? zlength bs)) eqn:E4; [|lia].
    change c_sizeof_union_ovni_ev_payload with 16.
    destruct ((0 <=? zlength pl) && (zlength pl + zlength bs <=? 16)) eqn:E5; [|lia].
    rewrite zlength_to_nat, firstn_all.
    rewrite upd_ev_run by exact L. rewrite E.
    unfold set_ovni_ev_header_flags.
    rewrite upd_ev_run by (cbn [g_evs with_evs]; rewrite upd_length; exact L).
    unfold ld. cbn [g_evs with_evs]. rewrite !nth_upd_same by exact L. rewrite upd_upd.
    cbn [h_flags set_payload].
    change (cast_uint64 1) with 1. change (cast_uint64 15) with 15.
    rewrite (land240_small _ Hfl). change (cast_uint64 0) with 0.
    rewrite (u64_small (zlength pl + zlength bs - 1)) by lia.
    reflexivity.
  Qed.
End Run.

(* ------------------------------------------------------------------ part 2: generated = model *)

Lemma bind_ok {A B} (m : M A) (f : A -> M B) sx g a g' : m sx g = Ok (a, g') -> bind m f sx g = f a sx g'.
Proof. intros H. unfold bind. rewrite H. reflexivity. Qed.
Lemma bind__ok {A B} (m : M A) (k : M B) sx g a g' : m sx g = Ok (a, g') -> bind_ m k sx g = k sx g'.
Proof. intros H. unfold bind_, bind. rewrite H. reflexivity. Qed.
Lemma bind_err {A B} (m : M A) (f : A -> M B) sx g e : m sx g = Err e -> bind m f sx g = Err e.
Proof. intros H. unfold bind. rewrite H. reflexivity. Qed.
Lemma bind__err {A B} (m : M A) (k : M B) sx g e : m sx g = Err e -> bind_ m k sx g = Err e.
Proof. intros H. unfold bind_, bind. rewrite H. reflexivity. Qed.
Lemma bind__ret (m : M unit) sx g : bind_ m (ret tt) sx g = m sx g.
Proof. unfold bind_, bind, ret. destruct (m sx g) as [[[] g']|e]; reflexivity. Qed.

(* every event of g is still there, unchanged, in g' *)
Definition evs_ext (g g' : rstate) : Prop := forall p ev, has_ev g p ev -> has_ev g' p ev.

Lemma ext_refl g : evs_ext g g. Proof. intros p ev H. exact H. Qed.
Lemma ext_trans a b c : evs_ext a b -> evs_ext b c -> evs_ext a c.
Proof. intros H1 H2 p ev H. apply H2, H1, H. Qed.
Lemma ext_same_evs g g' : g_evs g' = g_evs g -> evs_ext g g'.
Proof. intros E p ev [L H]. unfold has_ev, ld in *. rewrite E. split; assumption. Qed.
Definition galloc (g : rstate) : rstate := with_evs g (g_evs g ++ [ev_zero]).
Lemma ext_alloc g : evs_ext g (galloc g).
Proof.
  intros p ev [L H]. unfold has_ev, ld, galloc in *. cbn [g_evs with_evs]. rewrite app_length. split; [lia|].
  rewrite app_nth1 by exact L. exact H.
Qed.
Lemma ext_gset g0 g q e : evs_ext g0 g -> (length (g_evs g0) <= q)%nat -> evs_ext g0 (gset g q e).
Proof.
  intros X Hq p ev H. pose proof H as [L _]. destruct (X p ev H) as [L' H'].
  unfold has_ev, ld, gset in *. cbn [g_evs with_evs]. rewrite upd_length. split; [exact L'|].
  rewrite nth_upd_other by lia. exact H'.
Qed.
Lemma has_ev_gset_other g p ev q e : has_ev g p ev -> p <> q -> has_ev (gset g q e) p ev.
Proof.
  intros [L H] N. unfold has_ev, ld, gset in *. cbn [g_evs with_evs]. rewrite upd_length. split; [exact L|].
  rewrite nth_upd_other by congruence. exact H.
Qed.
Lemma has_ev_same_evs g g' p ev : g_evs g' = g_evs g -> has_ev g p ev -> has_ev g' p ev.
Proof. intros E. apply ext_same_evs. exact E. Qed.

Lemma image_len ev n : length (ev_payload ev) = 16%nat -> 0 <= n <= 28 -> zlength (ev_image ev n) = n.
Proof.
  intros L H. unfold ev_image, struct_bytes. rewrite zlength_len, firstn_length.
  rewrite !app_length, le_bytes_length, L. cbn [length]. lia.
Qed.

Lemma built_payload_len pl ev : built pl ev -> length (ev_payload ev) = 16%nat.
Proof.
  intros (_ & Hp & Hn). rewrite Hp, app_length, repeat_length. pose proof (zlength_len pl). lia.
Qed.

Section Sim.
  Variable cap : Z.
  Hypothesis Hcap : 64 <= cap < 2 ^ 63.
  Local Notation sx := (env_of cap).

  Definition RE (g0 : rstate) (g' : rstate) (s' : rt) : Prop := Rep cap g' s' /\ evs_ext g0 g'.

  Lemma Rep_ready g s : Rep cap g s -> (g_ready g =? 0) = negb (ready s).
  Proof. intros (H & _). exact H. Qed.

  Lemma Rep_bounds g s : Rep cap g s -> ready s = true ->
    g_evlen g = evlen s /\ 0 <= g_evlen g <= zlength (g_evbuf g) /\ g_evlen g < cap.
  Proof.
    intros (_ & _ & _ & H) R. destruct (H R) as (E & B & Z & F). split; [exact E|]. rewrite E. split; [|lia].
    split; [lia|]. unfold g_buf_bytes in F. rewrite E in F.
    assert (L : length (firstn (Z.to_nat (evlen s)) (g_evbuf g)) = Z.to_nat (evlen s)).
    { rewrite F. rewrite <- zlength_to_nat. rewrite Z. reflexivity. }
    rewrite firstn_length in L. rewrite zlength_len. lia.
  Qed.

  Lemma Rep_evs g s l : Rep cap g s -> Rep cap (with_evs g l) s.
  Proof. intros H. exact H. Qed.

  Lemma Rep_clk g s r : Rep cap g s -> Rep cap (with_clk g r) (set_clk s r).
  Proof. intros (A & B & C & E). repeat split; try assumption; cbn in *; apply E; assumption. Qed.

  Lemma Rep_flush g s : Rep cap g s -> ready s = true -> Rep cap (gflush g) (D.flush_evbuf s).
  Proof.
    intros (A & B & C & E) R. destruct (E R) as (E1 & E2 & E3 & E4).
    unfold gflush, D.flush_evbuf, Rep. cbn [g_ready g_wr g_clk g_evlen g_evbuf with_evlen with_wr ready wr clk evlen].
    rewrite E4, B. repeat split; try assumption; try lia.
  Qed.

  Lemma Rep_push g s bs : Rep cap g s -> ready s = true -> evlen s + zlength bs < cap ->
    Rep cap (gpush g bs) (D.append s bs (zlength bs)).
  Proof.
    intros H R L. pose proof (Rep_bounds g s H R) as (Eq & Bd & _). destruct H as (A & B & C & E).
    destruct (E R) as (E1 & E2 & E3 & E4). pose proof (zlength_nonneg bs) as Hn.
    unfold gpush, Rep. rewrite !buf_bytes_append, zlength_app.
    cbn [g_ready g_wr g_clk g_evlen g_evbuf with_evlen with_evbuf ready wr clk evlen D.append].
    repeat split; try assumption; try lia.
    unfold g_buf_bytes. cbn [g_evlen g_evbuf with_evlen with_evbuf].
    rewrite firstn_splice_end.
    - unfold g_buf_bytes in E4. rewrite E4. reflexivity.
    - lia.
    - rewrite zlength_len in Bd. lia.
  Qed.

  (* the buffer-full tests *)
  Lemma full_test e n : 0 <= e < cap -> 0 <= n < 2 ^ 33 ->
    Z.geb (cast_uint64 (e + n)) (cast_uint64 (e_cap sx)) = (e + n >=? cap).
  Proof. intros He Hn. change (e_cap sx) with cap. rewrite !u64_small by lia. reflexivity. Qed.

  Lemma set_hclock_run g p ev t : has_ev g p ev ->
    set_ovni_ev_header_clock p (fun _ _ => t) sx g = Ok (tt, gset g p (ovni_ev_set_clock ev t)).
  Proof. intros [L E]. unfold set_ovni_ev_header_clock. rewrite upd_ev_run by exact L. rewrite E. reflexivity. Qed.

  Lemma marker_built v t : built [] (marker v t).
  Proof. unfold built. cbn. repeat split. left. reflexivity. Qed.

  Lemma same_outcome_mono {A} (R R' : rstate -> A -> Prop) r m :
    (forall g a, R g a -> R' g a) -> same_outcome R r m -> same_outcome R' r m.
  Proof. intros H. destruct r as [[[] g]|e], m; cbn; auto. Qed.

  Lemma byte79 : byte 79. Proof. unfold byte. lia. Qed.
  Lemma byte70 : byte 70. Proof. unfold byte. lia. Qed.
  Lemma byte77 : byte 77. Proof. unfold byte. lia. Qed.
  Lemma byte91 : byte 91. Proof. unfold byte. lia. Qed.
  Lemma byte93 : byte 93. Proof. unfold byte. lia. Qed.
  Lemma byte61 : byte 61. Proof. unfold byte. lia. Qed.

  Section Rec.
    Variable rec_g : ptr_ovni_ev -> M unit.
    Variable rec_m : ovni_ev -> rt -> rres rt.
    Hypothesis IH : forall p g s v t, Rep cap g s -> has_ev g p (marker v t) ->
      same_outcome (RE g) (rec_g p sx g) (rec_m (marker v t) s).

    (* pre.clock = t0; set_mcv(&pre, "OF["); post.clock = t1; set_mcv(&post, "OF]"); add(&pre); add(&post) *)
    Lemma markers_tail g0 g s pre post t0 t1 :
      Rep cap g s -> has_ev g pre ev_zero -> has_ev g post ev_zero -> pre <> post ->
      (length (g_evs g0) <= pre)%nat -> (length (g_evs g0) <= post)%nat -> evs_ext g0 g ->
      same_outcome (RE g0)
        (bind_ (set_ovni_ev_header_clock pre (fun _ _ => t0))
          (bind_ (G.ovni_ev_set_mcv pre [(79); (70); (91); (0)])
            (bind_ (set_ovni_ev_header_clock post (fun _ _ => t1))
              (bind_ (G.ovni_ev_set_mcv post [(79); (70); (93); (0)])
                (bind_ (rec_g pre) (bind_ (rec_g post) (ret tt)))))) sx g)
        (rbind (rec_m (marker c_LB t0) s) (rec_m (marker c_RB t1))).
    Proof.
      intros R Hpre Hpost N Lp Lq X.
      rewrite (bind__ok _ _ _ _ _ _ (set_hclock_run g pre ev_zero t0 Hpre)).
      set (g1 := gset g pre (ovni_ev_set_clock ev_zero t0)).
      assert (H1 : has_ev g1 pre (ovni_ev_set_clock ev_zero t0)) by (apply has_ev_gset; apply Hpre).
      change [(79); (70); (91); (0)] with (mcv_str 79 70 91).
      rewrite (bind__ok _ _ _ _ _ _ (set_mcv_run cap g1 pre _ 79 70 91 H1 byte79 byte70 byte91)).
      unfold g1. rewrite gset_gset.
      change (ovni_ev_set_mcv (ovni_ev_set_clock ev_zero t0) 79 70 91) with (marker c_LB t0).
      set (g2 := gset g pre (marker c_LB t0)).
      assert (H2 : has_ev g2 post ev_zero) by (apply has_ev_gset_other; [exact Hpost | congruence]).
      rewrite (bind__ok _ _ _ _ _ _ (set_hclock_run g2 post ev_zero t1 H2)).
      set (g3 := gset g2 post (ovni_ev_set_clock ev_zero t1)).
      assert (H3 : has_ev g3 post (ovni_ev_set_clock ev_zero t1)) by (apply has_ev_gset; apply H2).
      change [(79); (70); (93); (0)] with (mcv_str 79 70 93).
      rewrite (bind__ok _ _ _ _ _ _ (set_mcv_run cap g3 post _ 79 70 93 H3 byte79 byte70 byte93)).
      unfold g3. rewrite gset_gset.
      change (ovni_ev_set_mcv (ovni_ev_set_clock ev_zero t1) 79 70 93) with (marker c_RB t1).
      set (g4 := gset g2 post (marker c_RB t1)).
      assert (P4 : has_ev g4 pre (marker c_LB t0)).
      { apply has_ev_gset_other; [|exact N]. apply has_ev_gset. apply Hpre. }
      assert (Q4 : has_ev g4 post (marker c_RB t1)) by (apply has_ev_gset; apply H2).
      assert (R4 : Rep cap g4 s) by exact R.
      assert (X4 : evs_ext g0 g4).
      { apply ext_gset; [|exact Lq]. apply ext_gset; [exact X | exact Lp]. }
      pose proof (IH pre g4 s c_LB t0 R4 P4) as I1.
      destruct (rec_g pre sx g4) as [[[] g5]|e] eqn:Eg.
      - rewrite (bind__ok _ _ _ _ _ _ Eg). rewrite bind__ret.
        destruct (rec_m (marker c_LB t0) s) as [s5| | |]; cbn [same_outcome] in I1; try contradiction.
        destruct I1 as [R5 X5]. cbn [rbind].
        pose proof (IH post g5 s5 c_RB t1 R5 (X5 _ _ Q4)) as I2.
        eapply same_outcome_mono; [|exact I2].
        intros g6 s6 [R6 X6]. split; [exact R6|]. eapply ext_trans; [exact X4|]. eapply ext_trans; [exact X5 | exact X6].
      - rewrite (bind__err _ _ _ _ _ Eg).
        destruct (rec_m (marker c_LB t0) s) as [s5| | |]; cbn [same_outcome rbind] in *; try contradiction; exact I1.
    Qed.

    Lemma afe_sim t0 t1 g s : Rep cap g s -> ready s = true ->
      same_outcome (RE g) (G.add_flush_events rec_g t0 t1 sx g) (D.add_flush_events true cap rec_m t0 t1 s).
    Proof.
      intros R Rd. pose proof (Rep_bounds g s R Rd) as (Eq & Bd & Lt).
      unfold G.add_flush_events.
      rewrite (bind_ok _ _ _ _ _ _ (new_ev_run cap g)). fold (galloc g).
      rewrite (bind_ok _ _ _ _ _ _ (new_ev_run cap (galloc g))). fold (galloc (galloc g)).
      set (pre := length (g_evs g)). set (post := length (g_evs (galloc g))). set (g2 := galloc (galloc g)).
      assert (Hpre : has_ev g2 pre ev_zero) by (apply ext_alloc; apply has_ev_new).
      assert (Hpost : has_ev g2 post ev_zero) by apply has_ev_new.
      assert (N : pre <> post) by (unfold pre, post, galloc; cbn [g_evs with_evs]; rewrite app_length; cbn; lia).
      assert (Lq : (length (g_evs g) <= post)%nat) by (unfold post, galloc; cbn [g_evs with_evs]; rewrite app_length; lia).
      assert (X2 : evs_ext g g2) by (eapply ext_trans; apply ext_alloc).
      assert (R2 : Rep cap g2 s) by exact R.
      unfold ite.
      assert (C : Z.geb (cast_uint64 (Z.add (cast_uint64 (Z.add (get_ovni_rthread_evlen sx g2 rthread) G.k_sizeof_struct_ovni_ev_header))
                    G.k_sizeof_struct_ovni_ev_header)) (cast_uint64 (e_cap sx)) = (evlen s + 24 >=? cap)).
      { unfold get_ovni_rthread_evlen. change (g_evlen g2) with (g_evlen g). change G.k_sizeof_struct_ovni_ev_header with 12.
        change (e_cap sx) with cap. rewrite Eq in *. rewrite (u64_small (evlen s + 12)) by lia.
        rewrite !u64_small by lia. f_equal. lia. }
      rewrite C. unfold D.add_flush_events. cbn [andb].
      change (c_sizeof_struct_ovni_ev_header + c_sizeof_struct_ovni_ev_header) with 24.
      destruct (evlen s + 24 >=? cap) eqn:E24.
      - assert (B2 : 0 <= g_evlen g2 <= zlength (g_evbuf g2)) by exact Bd.
        rewrite (bind__ok _ _ _ _ _ _ (flush_run cap g2 B2)).
        unfold clock_now. change (clk (D.flush_evbuf s)) with (clk s).
        assert (CK : g_clk (gflush g2) = clk s) by (destruct R as (_ & _ & CKK & _); exact CKK).
        destruct (clk s) as [|t r] eqn:EC.
        + rewrite (bind_err _ _ _ _ E_NOCLOCK); [reflexivity|]. rewrite clock_run. rewrite CK. reflexivity.
        + assert (CR : G.ovni_clock_now sx (gflush g2) = Ok (t, with_clk (gflush g2) r)) by (rewrite clock_run, CK; reflexivity).
          rewrite (bind_ok _ _ _ _ _ _ CR). cbn [rbind].
          apply markers_tail; try assumption.
          * apply Rep_clk. apply Rep_flush; assumption.
          * unfold pre. lia.
      - apply markers_tail; try assumption. unfold pre. lia.
    Qed.
  End Rec.

  Lemma bind_eval {A B} (f : renv -> rstate -> A) (k : A -> M B) e g : bind (eval f) k e g = k (f e g) e g.
  Proof. reflexivity. Qed.

  Lemma src_ev_bytes g p ev n : has_ev g p ev -> 0 <= n <= 28 -> src_bytes g (V_ev p) n = Some (ev_image ev n).
  Proof.
    intros [L E] H. unfold src_bytes. destruct (Nat.ltb p (length (g_evs g))) eqn:EL; [|apply Nat.ltb_ge in EL; lia].
    cbn [andb]. change c_sizeof_struct_ovni_ev with 28. destruct ((0 <=? n) && (n <=? 28)) eqn:E2; [|lia].
    rewrite E. reflexivity.
  Qed.

  Lemma src_data_bytes g bs : src_bytes g (V_bytes (P_data bs)) (zlength bs) = Some bs.
  Proof.
    unfold src_bytes. pose proof (zlength_nonneg bs). destruct ((0 <=? zlength bs) && (zlength bs <=? zlength bs)) eqn:E; [|lia].
    rewrite zlength_to_nat, firstn_all. reflexivity.
  Qed.

  Lemma Rep_push' g s bs n : Rep cap g s -> ready s = true -> n = zlength bs -> evlen s + n < cap ->
    Rep cap (gpush g bs) (D.append s bs n).
  Proof. intros R Rd -> L. apply Rep_push; assumption. Qed.

  Lemma clk_eq g s : Rep cap g s -> g_clk g = clk s.
  Proof. intros (_ & _ & C & _). exact C. Qed.

  (* t0 = ovni_clock_now(); flush_evbuf(); t1 = ovni_clock_now();  on both sides *)
  Lemma measured_flush {A} g s (kg : Z -> Z -> M unit) (km : Z -> Z -> rt -> rres A) (R' : rstate -> A -> Prop) :
    Rep cap g s -> ready s = true ->
    (forall t0 t1 r, clk s = t0 :: t1 :: r ->
       same_outcome R' (kg t0 t1 sx (with_clk (gflush (with_clk g (t1 :: r))) r))
                       (km t0 t1 (set_clk (D.flush_evbuf (set_clk s (t1 :: r))) r))) ->
    same_outcome R'
      (bind G.ovni_clock_now (fun t0 => bind_ G.flush_evbuf (bind G.ovni_clock_now (fun t1 => kg t0 t1))) sx g)
      (rbind (clock_now s) (fun '(t0, s1) => let s2 := D.flush_evbuf s1 in rbind (clock_now s2) (fun '(t1, s3) => km t0 t1 s3))).
  Proof.
    intros R Rd K. pose proof (Rep_bounds g s R Rd) as (Eq & Bd & Lt). pose proof (clk_eq g s R) as CK.
    unfold clock_now at 1. destruct (clk s) as [|t0 r] eqn:EC.
    - rewrite (bind_err _ _ _ _ E_NOCLOCK); [reflexivity|]. rewrite clock_run, CK. reflexivity.
    - assert (CR : G.ovni_clock_now sx g = Ok (t0, with_clk g r)) by (rewrite clock_run, CK; reflexivity).
      rewrite (bind_ok _ _ _ _ _ _ CR). cbn [rbind].
      assert (B2 : 0 <= g_evlen (with_clk g r) <= zlength (g_evbuf (with_clk g r))) by exact Bd.
      rewrite (bind__ok _ _ _ _ _ _ (flush_run cap (with_clk g r) B2)).
      unfold clock_now. change (clk (D.flush_evbuf (set_clk s r))) with r.
      destruct r as [|t1 r'].
      + rewrite (bind_err _ _ _ _ E_NOCLOCK); reflexivity.
      + rewrite (bind_ok _ _ _ _ t1 (with_clk (gflush (with_clk g (t1 :: r'))) r')); [|reflexivity].
        cbn [rbind]. apply K. reflexivity.
  Qed.

  Lemma flushed_state g s t1 r : Rep cap g s -> ready s = true ->
    let g3 := with_clk (gflush (with_clk g (t1 :: r))) r in
    let s3 := set_clk (D.flush_evbuf (set_clk s (t1 :: r))) r in
    Rep cap g3 s3 /\ ready s3 = true /\ evlen s3 = 0 /\ g_evlen g3 = 0 /\ g_evs g3 = g_evs g.
  Proof.
    intros R Rd g3 s3. split.
    { apply Rep_clk. apply Rep_flush; [|exact Rd]. apply Rep_clk. exact R. }
    repeat split. exact Rd.
  Qed.

  Lemma ev_add_sim fuel : forall p g s pl ev, Rep cap g s -> has_ev g p ev -> built pl ev ->
    same_outcome (RE g) (G.ovni_ev_add fuel p sx g) (D.ovni_ev_add true cap fuel ev s).
  Proof.
    induction fuel as [|f IHf]; intros p g s pl ev R Hp B.
    - reflexivity.
    - cbn [G.ovni_ev_add D.ovni_ev_add]. unfold ite at 1. unfold get_ovni_rthread_ready.
      rewrite negb_involutive, (Rep_ready g s R).
      destruct (ready s) eqn:Rd; cbn [negb]; [|reflexivity].
      pose proof (Rep_bounds g s R Rd) as (Eq & Bd & Lt).
      rewrite !bind_eval. unfold RtBufPre.ovni_ev_size. rewrite (proj2 Hp).
      rewrite (ovni_ev_size_built pl ev B).
      assert (Hsz : 12 <= 12 + zlength pl <= 28) by (pose proof (zlength_nonneg pl); destruct B as (_ & _ & Hn); lia).
      set (sz := 12 + zlength pl) in *.
      assert (ZL : zlength (ev_image ev sz) = sz) by (apply image_len; [apply (built_payload_len pl ev B) | lia]).
      unfold ite. unfold get_ovni_rthread_evlen at 1. rewrite Eq. rewrite full_test by lia.
      unfold add_with_flush. cbn [appends].
      destruct (evlen s + sz >=? cap) eqn:EF.
      + apply (measured_flush g s
                 (fun t0 t1 => bind (eval (fun _ _ => 1)) (fun flushed => _))
                 (fun t0 t1 s3 => D.add_flush_events true cap (D.ovni_ev_add true cap f) t0 t1 (D.append s3 (ev_image ev sz) sz)));
          [exact R | exact Rd |].
        intros t0 t1 r EC. rewrite bind_eval.
        destruct (flushed_state g s t1 r R Rd) as (R3 & Rd3 & E3 & G3 & V3).
        set (g3 := with_clk (gflush (with_clk g (t1 :: r))) r) in *.
        set (s3 := set_clk (D.flush_evbuf (set_clk s (t1 :: r))) r) in *.
        assert (Hp3 : has_ev g3 p ev) by (apply (has_ev_same_evs g g3); assumption).
        rewrite (push_run cap Hcap g3 _ sz (ev_image ev sz) _ (src_ev_bytes g3 p ev sz Hp3 ltac:(lia)) ZL);
          [| rewrite G3; pose proof (zlength_nonneg (g_evbuf g3)); lia | rewrite G3; lia].
        rewrite bind__ret.
        eapply same_outcome_mono; [|apply (afe_sim (G.ovni_ev_add f) (D.ovni_ev_add true cap f))].
        * intros g' s' [R' X']. split; [exact R'|]. eapply ext_trans; [|exact X']. apply ext_same_evs. exact V3.
        * intros q g0 s0 v t R0 H0. apply (IHf q g0 s0 [] (marker v t) R0 H0 (marker_built v t)).
        * apply Rep_push'; [exact R3 | exact Rd3 | symmetry; exact ZL | rewrite E3; lia].
        * exact Rd3.
      + rewrite (push_run cap Hcap g _ sz (ev_image ev sz) _ (src_ev_bytes g p ev sz Hp ltac:(lia)) ZL); [| exact Bd | lia].
        cbn [ret same_outcome]. split; [|apply ext_same_evs; reflexivity].
        apply Rep_push'; [exact R | exact Rd | symmetry; exact ZL | lia].
  Qed.

  Lemma set_jumbo_run g p ev1 : has_ev g p ev1 -> h_flags ev1 = 3 ->
    set_ovni_ev_header_flags p (fun sx st => cast_uint8 (Z.lor (get_ovni_ev_header_flags sx st p) G.c_OVNI_EV_JUMBO)) sx g
    = Ok (tt, gset g p (set_flags ev1 (Z.lor (h_flags ev1) c_OVNI_EV_JUMBO))).
  Proof.
    intros [L E] F. unfold set_ovni_ev_header_flags, get_ovni_ev_header_flags. rewrite upd_ev_run by exact L.
    rewrite E, F. reflexivity.
  Qed.

  Lemma jumbo_tail g s p ev1 data (k : M unit) :
    Rep cap g s -> ready s = true -> has_ev g p ev1 -> h_flags ev1 = 3 -> length (ev_payload ev1) = 16%nat ->
    evlen s + (16 + zlength data) < cap ->
    let ev2 := set_flags ev1 (Z.lor (h_flags ev1) c_OVNI_EV_JUMBO) in
    let g' := gpush (gpush (gset g p ev2) (ev_image ev2 16)) data in
    bind_ (set_ovni_ev_header_flags p (fun sx st => cast_uint8 (Z.lor (get_ovni_ev_header_flags sx st p) G.c_OVNI_EV_JUMBO)))
      (bind_ (bind (eval (fun sx st => void_of_bptr (addr_ovni_rthread_evbuf_at rthread (get_ovni_rthread_evlen sx st rthread))))
                   (fun a1_ => memcpy a1_ (void_of_ptr_ovni_ev p) 16))
        (bind_ (set_ovni_rthread_evlen rthread (fun sx st => cast_uint64 (Z.add (get_ovni_rthread_evlen sx st rthread) 16)))
          (bind_ (bind (eval (fun sx st => void_of_bptr (addr_ovni_rthread_evbuf_at rthread (get_ovni_rthread_evlen sx st rthread))))
                       (fun a1_ => memcpy a1_ (void_of_bptr (P_data data)) (zlength data)))
            (bind_ (set_ovni_rthread_evlen rthread (fun sx st => cast_uint64 (Z.add (get_ovni_rthread_evlen sx st rthread) (zlength data)))) k)))) sx g
    = k sx g' /\ Rep cap g' (D.append (D.append s (ev_image ev2 16) 16) data (zlength data)) /\ g_evs g' = g_evs (gset g p ev2).
  Proof.
    intros R Rd Hp F L16 Lt ev2 g'. pose proof (Rep_bounds g s R Rd) as (Eq & Bd & _).
    pose proof (zlength_nonneg data) as Hd.
    rewrite (bind__ok _ _ _ _ _ _ (set_jumbo_run g p ev1 Hp F)). fold ev2.
    set (g1 := gset g p ev2).
    assert (H1 : has_ev g1 p ev2) by (apply has_ev_gset; apply Hp).
    assert (ZL : zlength (ev_image ev2 16) = 16) by (apply image_len; [exact L16 | lia]).
    assert (R1 : Rep cap g1 s) by exact R.
    rewrite (push_run cap Hcap g1 _ 16 (ev_image ev2 16) _ (src_ev_bytes g1 p ev2 16 H1 ltac:(lia)) ZL);
      [| exact Bd | change (g_evlen g1) with (g_evlen g); lia].
    set (g2 := gpush g1 (ev_image ev2 16)).
    assert (R2 : Rep cap g2 (D.append s (ev_image ev2 16) 16)) by (apply Rep_push'; [exact R1 | exact Rd | symmetry; exact ZL | lia]).
    pose proof (Rep_bounds g2 _ R2 Rd) as (Eq2 & Bd2 & _).
    rewrite (push_run cap Hcap g2 _ (zlength data) data _ (src_data_bytes g2 data) eq_refl);
      [| exact Bd2 | rewrite Eq2; cbn [evlen D.append]; lia].
    split; [reflexivity|]. split; [|reflexivity].
    apply Rep_push'; [exact R2 | exact Rd | reflexivity | cbn [evlen D.append]; lia].
  Qed.

  Lemma ev_add_IH fuel : forall q g0 s0 v t, Rep cap g0 s0 -> has_ev g0 q (marker v t) ->
    same_outcome (RE g0) (G.ovni_ev_add fuel q sx g0) (D.ovni_ev_add true cap fuel (marker v t) s0).
  Proof. intros q g0 s0 v t R0 H0. apply (ev_add_sim fuel q g0 s0 [] (marker v t) R0 H0 (marker_built v t)). Qed.

  Lemma add_jumbo_sim fuel p g s ev data : Rep cap g s -> has_ev g p ev -> built [] ev -> zlength data < 2 ^ 32 ->
    same_outcome (Rep cap) (G.ovni_ev_add_jumbo fuel p (P_data data) (zlength data) sx g)
                 (D.ovni_ev_add_jumbo true cap fuel ev data s).
  Proof.
    intros R Hp B Hd. pose proof (zlength_nonneg data) as Hd0.
    unfold G.ovni_ev_add_jumbo, D.ovni_ev_add_jumbo. unfold ite at 1. unfold get_ovni_rthread_ready.
    rewrite negb_involutive, (Rep_ready g s R).
    destruct (ready s) eqn:Rd; cbn [negb]; [|reflexivity].
    pose proof (Rep_bounds g s R Rd) as (Eq & Bd & Lt).
    rewrite bind_eval. unfold ite at 1. unfold RtBufPre.ovni_payload_size at 1. rewrite (proj2 Hp).
    destruct (built_size [] ev B) as [Hs HJ]. rewrite Hs. change (zlength (@nil Z)) with 0. cbn [Z.eqb negb].
    set (ch := le_bytes 4 (zlength data)).
    assert (ZC : zlength ch = 4) by (unfold ch; rewrite zlength_le_bytes; reflexivity).
    set (ev1 := set_flags (set_payload ev (([] ++ ch) ++ repeat 0 (16 - length ([] ++ ch)))) (nibble (zlength ([] ++ ch)))).
    assert (PAm : ovni_payload_add ev ch = Ret ev1).
    { rewrite (payload_add_built [] ev ch B). cbn [app]. rewrite ZC. reflexivity. }
    assert (B1 : built ch ev1) by (apply (built_after [] ev ch B); rewrite ZC; cbn; lia).
    pose proof (payload_add_run cap g p [] ev ch Hp B ltac:(rewrite ZC; lia)) as PA.
    rewrite ZC, PAm in PA. change (cast_int32 G.k_sizeof_uint32_t) with 4. unfold bytes_of_uint32. fold ch.
    rewrite (bind__ok _ _ _ _ _ _ PA). rewrite PAm.
    set (g1 := gset g p ev1).
    assert (H1 : has_ev g1 p ev1) by (apply has_ev_gset; apply Hp).
    assert (R1 : Rep cap g1 s) by exact R.
    rewrite !bind_eval. unfold RtBufPre.ovni_ev_size. rewrite (proj2 H1).
    rewrite (ovni_ev_size_built ch ev1 B1). rewrite ZC. change (12 + 4) with 16.
    rewrite (u64_small (16 + zlength data)) by lia.
    unfold ite at 1. change (e_cap sx) with cap. rewrite (u64_small cap) by lia.
    destruct (16 + zlength data >=? cap) eqn:ED; [reflexivity|].
    assert (F1 : h_flags ev1 = 3) by (unfold ev1; cbn [h_flags set_flags app]; rewrite ZC; reflexivity).
    assert (L1 : length (ev_payload ev1) = 16%nat) by (apply (built_payload_len ch ev1 B1)).
    unfold ite. unfold get_ovni_rthread_evlen at 1. change (g_evlen g1) with (g_evlen g). rewrite Eq.
    change (cast_uint64 cap) with (cast_uint64 (e_cap sx)). rewrite full_test by lia.
    unfold add_with_flush. cbn [appends].
    set (ev2 := set_flags ev1 (Z.lor (h_flags ev1) c_OVNI_EV_JUMBO)).
    destruct (evlen s + (16 + zlength data) >=? cap) eqn:EF.
    - apply (measured_flush g1 s
               (fun t0 t1 => bind (eval (fun _ _ => 1)) (fun flushed => _))
               (fun t0 t1 s3 => D.add_flush_events true cap (D.ovni_ev_add true cap fuel) t0 t1
                                  (D.append (D.append s3 (ev_image ev2 16) 16) data (zlength data))));
        [exact R1 | exact Rd |].
      intros t0 t1 r EC. rewrite bind_eval.
      destruct (flushed_state g1 s t1 r R1 Rd) as (R3 & Rd3 & E3 & G3 & V3).
      set (g3 := with_clk (gflush (with_clk g1 (t1 :: r))) r) in *.
      set (s3 := set_clk (D.flush_evbuf (set_clk s (t1 :: r))) r) in *.
      assert (Hp3 : has_ev g3 p ev1) by (apply (has_ev_same_evs g1 g3); assumption).
      destruct (jumbo_tail g3 s3 p ev1 data (bind_ (G.add_flush_events (G.ovni_ev_add fuel) t0 t1) (ret tt))
                  R3 Rd3 Hp3 F1 L1 ltac:(rewrite E3; lia)) as (T1 & T2 & _).
      rewrite T1. rewrite bind__ret.
      eapply same_outcome_mono; [|apply (afe_sim (G.ovni_ev_add fuel) (D.ovni_ev_add true cap fuel) (ev_add_IH fuel))].
      + intros g' s' [R' _]. exact R'.
      + exact T2.
      + exact Rd3.
    - destruct (jumbo_tail g1 s p ev1 data (ret tt) R1 Rd H1 F1 L1 ltac:(lia)) as (T1 & T2 & _).
      rewrite T1. exact T2.
  Qed.

  Lemma two_adds fuel g4 s pre post t0 t1 :
    Rep cap g4 s -> has_ev g4 pre (marker c_LB t0) -> has_ev g4 post (marker c_RB t1) ->
    same_outcome (Rep cap) (bind_ (G.ovni_ev_add fuel pre) (bind_ (G.ovni_ev_add fuel post) (ret tt)) sx g4)
      (rbind (D.ovni_ev_add true cap fuel (marker c_LB t0) s) (D.ovni_ev_add true cap fuel (marker c_RB t1))).
  Proof.
    intros R4 P4 Q4. pose proof (ev_add_IH fuel pre g4 s c_LB t0 R4 P4) as I1.
    destruct (G.ovni_ev_add fuel pre sx g4) as [[[] g5]|e] eqn:Eg.
    - rewrite (bind__ok _ _ _ _ _ _ Eg). rewrite bind__ret.
      destruct (D.ovni_ev_add true cap fuel (marker c_LB t0) s) as [s5| | |]; cbn [same_outcome] in I1; try contradiction.
      destruct I1 as [R5 X5]. cbn [rbind].
      pose proof (ev_add_IH fuel post g5 s5 c_RB t1 R5 (X5 _ _ Q4)) as I2.
      eapply same_outcome_mono; [|exact I2]. intros g6 s6 [R6 _]. exact R6.
    - rewrite (bind__err _ _ _ _ _ Eg).
      destruct (D.ovni_ev_add true cap fuel (marker c_LB t0) s) as [s5| | |]; cbn [same_outcome rbind] in *; try contradiction; exact I1.
  Qed.

  Lemma flush_sim fuel g s : Rep cap g s ->
    same_outcome (Rep cap) (G.ovni_flush fuel sx g) (D.ovni_flush true cap fuel s).
  Proof.
    intros R. unfold G.ovni_flush, D.ovni_flush.
    rewrite (bind_ok _ _ _ _ _ _ (new_ev_run cap g)). fold (galloc g).
    rewrite (bind_ok _ _ _ _ _ _ (new_ev_run cap (galloc g))). fold (galloc (galloc g)).
    set (pre := length (g_evs g)). set (post := length (g_evs (galloc g))). set (g2 := galloc (galloc g)).
    assert (Hpre : has_ev g2 pre ev_zero) by (apply ext_alloc; apply has_ev_new).
    assert (Hpost : has_ev g2 post ev_zero) by apply has_ev_new.
    assert (N : pre <> post) by (unfold pre, post, galloc; cbn [g_evs with_evs]; rewrite app_length; cbn; lia).
    assert (R2 : Rep cap g2 s) by exact R.
    unfold ite at 1. unfold get_ovni_rthread_ready. change (g_ready g2) with (g_ready g).
    rewrite negb_involutive, (Rep_ready g s R).
    destruct (ready s) eqn:Rd; cbn [negb]; [|reflexivity].
    unfold ite at 1. change (get_ovni_rproc_st sx g2 rproc) with G.c_ST_READY. rewrite Z.eqb_refl. cbn [negb].
    pose proof (Rep_bounds g s R Rd) as (Eq & Bd & Lt). pose proof (clk_eq g s R) as CK.
    unfold clock_now at 1. destruct (clk s) as [|t0 r] eqn:EC.
    - rewrite (bind_err _ _ _ _ E_NOCLOCK); [reflexivity|]. rewrite clock_run. change (g_clk g2) with (g_clk g). rewrite CK. reflexivity.
    - assert (CR : G.ovni_clock_now sx g2 = Ok (t0, with_clk g2 r)).
      { rewrite clock_run. change (g_clk g2) with (g_clk g). rewrite CK. reflexivity. }
      rewrite (bind_ok _ _ _ _ _ _ CR). cbn [rbind].
      set (g3 := with_clk g2 r).
      assert (H3 : has_ev g3 pre ev_zero) by (apply (has_ev_same_evs g2 g3); [reflexivity | exact Hpre]).
      rewrite (bind__ok _ _ _ _ _ _ (set_clock_run cap g3 pre ev_zero t0 H3)).
      set (g3a := gset g3 pre (ovni_ev_set_clock ev_zero t0)).
      assert (H3a : has_ev g3a pre (ovni_ev_set_clock ev_zero t0)) by (apply has_ev_gset; apply H3).
      change [(79); (70); (91); (0)] with (mcv_str 79 70 91).
      rewrite (bind__ok _ _ _ _ _ _ (set_mcv_run cap g3a pre _ 79 70 91 H3a byte79 byte70 byte91)).
      unfold g3a. rewrite gset_gset.
      change (ovni_ev_set_mcv (ovni_ev_set_clock ev_zero t0) 79 70 91) with (marker c_LB t0).
      set (g4 := gset g3 pre (marker c_LB t0)).
      assert (B4 : 0 <= g_evlen g4 <= zlength (g_evbuf g4)) by exact Bd.
      rewrite (bind__ok _ _ _ _ _ _ (flush_run cap g4 B4)).
      unfold clock_now. change (clk (D.flush_evbuf (set_clk s r))) with r.
      destruct r as [|t1 r'].
      + rewrite (bind_err _ _ _ _ E_NOCLOCK); reflexivity.
      + rewrite (bind_ok _ _ _ _ t1 (with_clk (gflush g4) r')); [|reflexivity].
        cbn [rbind].
        set (g6 := with_clk (gflush g4) r').
        assert (P6 : has_ev g6 pre (marker c_LB t0)).
        { apply (has_ev_same_evs g4 g6); [reflexivity|]. apply has_ev_gset. apply H3. }
        assert (Q6 : has_ev g6 post ev_zero).
        { apply (has_ev_same_evs g4 g6); [reflexivity|]. apply has_ev_gset_other; [|congruence].
          apply (has_ev_same_evs g2 g3); [reflexivity | exact Hpost]. }
        rewrite (bind__ok _ _ _ _ _ _ (set_clock_run cap g6 post ev_zero t1 Q6)).
        set (g6a := gset g6 post (ovni_ev_set_clock ev_zero t1)).
        assert (H6a : has_ev g6a post (ovni_ev_set_clock ev_zero t1)) by (apply has_ev_gset; apply Q6).
        change [(79); (70); (93); (0)] with (mcv_str 79 70 93).
        rewrite (bind__ok _ _ _ _ _ _ (set_mcv_run cap g6a post _ 79 70 93 H6a byte79 byte70 byte93)).
        unfold g6a. rewrite gset_gset.
        change (ovni_ev_set_mcv (ovni_ev_set_clock ev_zero t1) 79 70 93) with (marker c_RB t1).
        apply two_adds.
        * apply (Rep_clk (gflush g4) (D.flush_evbuf (set_clk s (t1 :: r'))) r').
          apply (Rep_flush g4 (set_clk s (t1 :: r'))); [|exact Rd].
          apply (Rep_clk g2 s (t1 :: r')). exact R2.
        * apply has_ev_gset_other; [exact P6 | exact N].
        * apply has_ev_gset. apply Q6.
  Qed.

  (* ------------------------------------------------------------------ part 3: API calls *)

  Definition same_buf (g g' : rstate) : Prop :=
    g_ready g' = g_ready g /\ g_evlen g' = g_evlen g /\ g_evbuf g' = g_evbuf g /\ g_wr g' = g_wr g /\ g_clk g' = g_clk g.

  Lemma Rep_same_buf g g' s : same_buf g g' -> Rep cap g s -> Rep cap g' s.
  Proof. intros (A & B & C & D0 & E) R. unfold Rep, g_buf_bytes in *. rewrite A, B, C, D0, E. exact R. Qed.

  Lemma same_buf_refl g : same_buf g g. Proof. repeat split. Qed.
  Lemma same_buf_trans a b c : same_buf a b -> same_buf b c -> same_buf a c.
  Proof. intros (A1 & A2 & A3 & A4 & A5) (B1 & B2 & B3 & B4 & B5). repeat split; congruence. Qed.

  Lemma payload_adds_run p : forall chunks pl e g, has_ev g p e -> built pl e ->
    forallb (fun ch => zlength ch <? 2 ^ 31) chunks = true ->
    match build_from (Ret e) chunks with
    | Die => payload_adds p chunks sx g = Err E_DIE
    | Ret e' => exists g', payload_adds p chunks sx g = Ok (tt, g') /\ has_ev g' p e' /\ same_buf g g' /\
                           built (pl ++ concat chunks) e'
    end.
  Proof.
    induction chunks as [|ch r IH]; intros pl e g Hp B Hc.
    - cbn [build_from fold_left payload_adds concat]. exists g. rewrite app_nil_r.
      split; [reflexivity|]. split; [exact Hp|]. split; [apply same_buf_refl | exact B].
    - cbn [forallb] in Hc. apply andb_prop in Hc as [Hc1 Hc2].
      cbn [build_from fold_left payload_adds]. fold (build_from (ovni_payload_add e ch) r).
      pose proof (payload_add_run cap g p pl e ch Hp B ltac:(lia)) as PA.
      destruct (ovni_payload_add e ch) as [e1|] eqn:EP.
      + assert (B1 : built (pl ++ ch) e1).
        { rewrite (payload_add_built pl e ch B) in EP.
          destruct ((zlength ch <? 2) || (zlength pl + zlength ch >? 16)) eqn:EC; [discriminate|].
          inversion EP; subst e1. apply built_after; [exact B | lia | lia]. }
        assert (H1 : has_ev (gset g p e1) p e1) by (apply has_ev_gset; apply Hp).
        specialize (IH (pl ++ ch) e1 (gset g p e1) H1 B1 Hc2).
        destruct (build_from (Ret e1) r) as [e'|].
        * destruct IH as (g' & E' & H' & S' & B'). exists g'.
          rewrite (bind__ok _ _ _ _ _ _ PA). split; [exact E'|]. split; [exact H'|].
          split; [eapply same_buf_trans; [|exact S']; repeat split|].
          cbn [concat]. rewrite app_assoc. exact B'.
        * rewrite (bind__ok _ _ _ _ _ _ PA). exact IH.
      + rewrite build_from_die. apply bind__err. exact PA.
  Qed.

  Definition RL (g' : rstate) (a : rt * list uev) : Prop := Rep cap g' (fst a).

  Lemma outcome_log {R0 : rstate -> rt -> Prop} r m (L : list uev) :
    (forall g' s', R0 g' s' -> Rep cap g' s') -> same_outcome R0 r m ->
    same_outcome RL r (rbind m (fun s2 => ROk (s2, L))).
  Proof. intros H. unfold RL. destruct r as [[[] g']|e], m; cbn; auto. Qed.

  Lemma byteb_byte b : byteb b = true -> byte b.
  Proof. unfold byteb, byte. lia. Qed.

  Lemma emit_sim m c v chunks g s log : Rep cap g s -> op_cb (Emit m c v chunks) = true ->
    same_outcome RL (api_call (Emit m c v chunks) sx g) (step true cap (Emit m c v chunks) (s, log)).
  Proof.
    intros R W. unfold op_cb in W. cbn [op_wfb] in W.
    apply andb_prop in W as [W Wc]. apply andb_prop in W as [W _]. apply andb_prop in W as [W Wv].
    apply andb_prop in W as [Wm Wcc]. apply byteb_byte in Wm, Wcc, Wv.
    cbn [api_call step].
    rewrite (bind_ok _ _ _ _ _ _ (new_ev_run cap g)). fold (galloc g).
    set (p := length (g_evs g)). set (g1 := galloc g).
    assert (H1 : has_ev g1 p ev_zero) by apply has_ev_new.
    rewrite (bind__ok _ _ _ _ _ _ (set_mcv_run cap g1 p _ m c v H1 Wm Wcc Wv)).
    set (g2 := gset g1 p (ovni_ev_set_mcv ev_zero m c v)).
    assert (H2 : has_ev g2 p (ovni_ev_set_mcv ev_zero m c v)) by (apply has_ev_gset; apply H1).
    pose proof (payload_adds_run p chunks [] _ g2 H2 (built_zero m c v) Wc) as PR.
    change (build m c v chunks) with (build_from (Ret (ovni_ev_set_mcv ev_zero m c v)) chunks).
    destruct (build_from (Ret (ovni_ev_set_mcv ev_zero m c v)) chunks) as [e3|].
    2:{ rewrite (bind__err _ _ _ _ _ PR). reflexivity. }
    destruct PR as (g3 & PR & H3 & SB & B3). rewrite (bind__ok _ _ _ _ _ _ PR). cbn [app] in B3.
    assert (R3 : Rep cap g3 s) by (apply (Rep_same_buf g2 g3 s SB); exact R).
    pose proof (clk_eq g3 s R3) as CK.
    unfold clock_now. destruct (clk s) as [|t r] eqn:EC.
    - rewrite (bind_err _ _ _ _ E_NOCLOCK); [reflexivity|]. rewrite clock_run, CK. reflexivity.
    - assert (CR : G.ovni_clock_now sx g3 = Ok (t, with_clk g3 r)) by (rewrite clock_run, CK; reflexivity).
      rewrite (bind_ok _ _ _ _ _ _ CR). cbn [rbind].
      set (g4 := with_clk g3 r).
      assert (H4 : has_ev g4 p e3) by (apply (has_ev_same_evs g3 g4); [reflexivity | exact H3]).
      rewrite (bind__ok _ _ _ _ _ _ (set_clock_run cap g4 p e3 t H4)).
      unfold G.ovni_ev_emit. rewrite bind__ret.
      eapply outcome_log; [|apply (ev_add_sim FUEL p _ (set_clk s r) (concat chunks) (ovni_ev_set_clock e3 t))].
      + intros g' s' [R' _]. exact R'.
      + apply (Rep_clk g3 s r R3).
      + apply has_ev_gset. apply H4.
      + apply built_set_clock. exact B3.
  Qed.

  Lemma jumbo_emit_sim m c v data g s log : Rep cap g s -> op_cb (JumboEmit m c v data) = true ->
    same_outcome RL (api_call (JumboEmit m c v data) sx g) (step true cap (JumboEmit m c v data) (s, log)).
  Proof.
    intros R W. unfold op_cb in W. cbn [op_wfb] in W. rewrite andb_true_r in W.
    apply andb_prop in W as [W Wd]. apply andb_prop in W as [W _]. apply andb_prop in W as [W Wv].
    apply andb_prop in W as [Wm Wcc]. apply byteb_byte in Wm, Wcc, Wv.
    cbn [api_call step].
    rewrite (bind_ok _ _ _ _ _ _ (new_ev_run cap g)). fold (galloc g).
    set (p := length (g_evs g)). set (g1 := galloc g).
    assert (H1 : has_ev g1 p ev_zero) by apply has_ev_new.
    rewrite (bind__ok _ _ _ _ _ _ (set_mcv_run cap g1 p _ m c v H1 Wm Wcc Wv)).
    set (g2 := gset g1 p (ovni_ev_set_mcv ev_zero m c v)).
    assert (H2 : has_ev g2 p (ovni_ev_set_mcv ev_zero m c v)) by (apply has_ev_gset; apply H1).
    assert (R2 : Rep cap g2 s) by exact R.
    pose proof (clk_eq g2 s R2) as CK.
    unfold clock_now. destruct (clk s) as [|t r] eqn:EC.
    - rewrite (bind_err _ _ _ _ E_NOCLOCK); [reflexivity|]. rewrite clock_run, CK. reflexivity.
    - assert (CR : G.ovni_clock_now sx g2 = Ok (t, with_clk g2 r)) by (rewrite clock_run, CK; reflexivity).
      rewrite (bind_ok _ _ _ _ _ _ CR). cbn [rbind].
      set (g4 := with_clk g2 r).
      assert (H4 : has_ev g4 p (ovni_ev_set_mcv ev_zero m c v)) by (apply (has_ev_same_evs g2 g4); [reflexivity | exact H2]).
      rewrite (bind__ok _ _ _ _ _ _ (set_clock_run cap g4 p _ t H4)).
      unfold G.ovni_ev_jumbo_emit. rewrite bind__ret.
      eapply outcome_log; [|apply (add_jumbo_sim FUEL p _ (set_clk s r) (ovni_ev_set_clock (ovni_ev_set_mcv ev_zero m c v) t) data)].
      + intros g' s' R'. exact R'.
      + apply (Rep_clk g2 s r R2).
      + apply has_ev_gset. apply H4.
      + apply built_set_clock. apply built_zero.
      + lia.
  Qed.

  (* the three mark emitters have one shape: the generated bodies are this term with their "OM?" literal *)
  Definition gmark (lit : cstr) (fuel_ : nat) (type_ value : Z) : M unit :=
    ite (fun sx st => (Z.eqb value (0)))
    (fail E_DIE)
    (bind new_ovni_ev (fun ev =>
        bind G.ovni_clock_now (fun now_ =>
          bind_ (G.ovni_ev_set_clock ev now_)
          (bind_ (G.ovni_ev_set_mcv ev lit)
            (bind_ (G.ovni_payload_add ev (bytes_of_int64 value) (cast_int32 G.k_sizeof_int64_t))
              (bind_ (G.ovni_payload_add ev (bytes_of_int32 type_) (cast_int32 G.k_sizeof_int32_t))
                (bind_ (G.ovni_ev_add fuel_ ev)
                  (ret tt)))))))).

  Lemma mark_push_shape : G.ovni_mark_push = gmark (mcv_str 79 77 91). Proof. reflexivity. Qed.
  Lemma mark_pop_shape : G.ovni_mark_pop = gmark (mcv_str 79 77 93). Proof. reflexivity. Qed.
  Lemma mark_set_shape : G.ovni_mark_set = gmark (mcv_str 79 77 61). Proof. reflexivity. Qed.

  Lemma gmark_sim v ty va g s log : byte v -> Rep cap g s ->
    same_outcome RL (gmark (mcv_str 79 77 v) FUEL ty va sx g) (mark true cap v ty va (s, log)).
  Proof.
    intros Bv R. unfold gmark, mark. unfold ite. destruct (va =? 0); [reflexivity|].
    rewrite (bind_ok _ _ _ _ _ _ (new_ev_run cap g)). fold (galloc g).
    set (p := length (g_evs g)). set (g1 := galloc g).
    assert (H1 : has_ev g1 p ev_zero) by apply has_ev_new.
    assert (R1 : Rep cap g1 s) by exact R.
    pose proof (clk_eq g1 s R1) as CK.
    unfold clock_now. destruct (clk s) as [|t r] eqn:EC.
    { rewrite (bind_err _ _ _ _ E_NOCLOCK); [reflexivity|]. rewrite clock_run, CK. reflexivity. }
    assert (CR : G.ovni_clock_now sx g1 = Ok (t, with_clk g1 r)) by (rewrite clock_run, CK; reflexivity).
    rewrite (bind_ok _ _ _ _ _ _ CR). cbn [rbind].
    set (g2 := with_clk g1 r).
    assert (H2 : has_ev g2 p ev_zero) by (apply (has_ev_same_evs g1 g2); [reflexivity | exact H1]).
    rewrite (bind__ok _ _ _ _ _ _ (set_clock_run cap g2 p ev_zero t H2)).
    set (g3 := gset g2 p (ovni_ev_set_clock ev_zero t)).
    assert (H3 : has_ev g3 p (ovni_ev_set_clock ev_zero t)) by (apply has_ev_gset; apply H2).
    rewrite (bind__ok _ _ _ _ _ _ (set_mcv_run cap g3 p _ 79 77 v H3 byte79 byte77 Bv)).
    unfold g3. rewrite gset_gset.
    set (e2 := ovni_ev_set_mcv (ovni_ev_set_clock ev_zero t) 79 77 v).
    set (g4 := gset g2 p e2).
    assert (H4 : has_ev g4 p e2) by (apply has_ev_gset; apply H2).
    assert (B2 : built [] e2) by (unfold built; cbn; repeat split; left; reflexivity).
    set (ch1 := le_bytes 8 va). set (ch2 := le_bytes 4 ty).
    assert (ZC1 : zlength ch1 = 8) by (unfold ch1; rewrite zlength_le_bytes; reflexivity).
    assert (ZC2 : zlength ch2 = 4) by (unfold ch2; rewrite zlength_le_bytes; reflexivity).
    set (e3 := set_flags (set_payload e2 (([] ++ ch1) ++ repeat 0 (16 - length ([] ++ ch1)))) (nibble (zlength ([] ++ ch1)))).
    assert (PAm1 : ovni_payload_add e2 ch1 = Ret e3).
    { rewrite (payload_add_built [] e2 ch1 B2). cbn [app]. rewrite ZC1. reflexivity. }
    assert (B3 : built ch1 e3) by (apply (built_after [] e2 ch1 B2); rewrite ZC1; cbn; lia).
    set (e4 := set_flags (set_payload e3 ((ch1 ++ ch2) ++ repeat 0 (16 - length (ch1 ++ ch2)))) (nibble (zlength (ch1 ++ ch2)))).
    assert (PAm2 : ovni_payload_add e3 ch2 = Ret e4).
    { rewrite (payload_add_built ch1 e3 ch2 B3). rewrite ZC1, ZC2. reflexivity. }
    assert (B4 : built (ch1 ++ ch2) e4) by (apply (built_after ch1 e3 ch2 B3); rewrite ?ZC1, ?ZC2; lia).
    pose proof (payload_add_run cap g4 p [] e2 ch1 H4 B2 ltac:(rewrite ZC1; lia)) as PA1.
    rewrite ZC1, PAm1 in PA1.
    change (cast_int32 G.k_sizeof_int64_t) with 8. unfold bytes_of_int64. fold ch1.
    rewrite (bind__ok _ _ _ _ _ _ PA1).
    set (g5 := gset g4 p e3).
    assert (H5 : has_ev g5 p e3) by (apply has_ev_gset; apply H4).
    pose proof (payload_add_run cap g5 p ch1 e3 ch2 H5 B3 ltac:(rewrite ZC2; lia)) as PA2.
    rewrite ZC2, PAm2 in PA2.
    change (cast_int32 G.k_sizeof_int32_t) with 4. unfold bytes_of_int32. fold ch2.
    rewrite (bind__ok _ _ _ _ _ _ PA2).
    set (g6 := gset g5 p e4).
    assert (H6 : has_ev g6 p e4) by (apply has_ev_gset; apply H5).
    rewrite bind__ret.
    (* the model builds the event first and sets the clock last *)
    assert (BM : build c_O c_M v (mark_payload ty va) = Ret (set_flags (set_payload
               (set_flags (set_payload (ovni_ev_set_mcv ev_zero c_O c_M v) (([] ++ ch1) ++ repeat 0 (16 - length ([] ++ ch1)))) (nibble (zlength ([] ++ ch1))))
               ((ch1 ++ ch2) ++ repeat 0 (16 - length (ch1 ++ ch2)))) (nibble (zlength (ch1 ++ ch2))))).
    { unfold build, mark_payload. cbn [fold_left]. fold ch1 ch2.
      rewrite (payload_add_built [] _ ch1 (built_zero c_O c_M v)). cbn [app]. rewrite ZC1.
      change ((8 <? 2) || (zlength (@nil Z) + 8 >? 16)) with false. cbv iota.
      rewrite (payload_add_built ch1 _ ch2).
      - rewrite ZC1, ZC2. reflexivity.
      - apply (built_after [] _ ch1 (built_zero c_O c_M v)); rewrite ZC1; cbn; lia. }
    rewrite BM.
    eapply outcome_log; [|apply (ev_add_sim FUEL p g6 (set_clk s r) (ch1 ++ ch2) e4)].
    - intros g' s' [R' _]. exact R'.
    - apply (Rep_clk g1 s r R1).
    - exact H6.
    - exact B4.
  Qed.

  Theorem step_sim o g s log : Rep cap g s -> op_cb o = true ->
    same_outcome RL (api_call o sx g) (step true cap o (s, log)).
  Proof.
    intros R W. destruct o as [m c v chunks|m c v data| |ty va|ty va|ty va|].
    - apply emit_sim; assumption.
    - apply jumbo_emit_sim; assumption.
    - cbn [api_call step]. eapply outcome_log; [|apply flush_sim; exact R]. auto.
    - cbn [api_call step]. rewrite mark_push_shape. apply gmark_sim; [apply byte91 | exact R].
    - cbn [api_call step]. rewrite mark_pop_shape. apply gmark_sim; [apply byte93 | exact R].
    - cbn [api_call step]. rewrite mark_set_shape. apply gmark_sim; [apply byte61 | exact R].
    - cbn [api_call step]. unfold thread_free_prim, thread_free. rewrite (Rep_ready g s R).
      destruct R as (_ & Wr & Ck & _).
      destruct (ready s); cbn [negb rbind same_outcome]; [|reflexivity].
      unfold RL, Rep. cbn. repeat split; try assumption. discriminate. discriminate. discriminate. discriminate.
  Qed.

  Theorem run_from_sim ops : forall g s log, Rep cap g s -> forallb op_cb ops = true ->
    same_outcome RL (api_run ops sx g) (run_from true cap ops (s, log)).
  Proof.
    induction ops as [|o r IH]; intros g s log R W.
    - exact R.
    - cbn [forallb] in W. apply andb_prop in W as [W1 W2]. cbn [api_run run_from].
      pose proof (step_sim o g s log R W1) as S1.
      destruct (api_call o sx g) as [[[] g1]|e] eqn:Eg;
        destruct (step true cap o (s, log)) as [[s1 log1]| | |]; cbn [same_outcome] in S1; try contradiction.
      + rewrite (bind__ok _ _ _ _ _ _ Eg). cbn [rbind]. apply IH; assumption.
      + rewrite (bind__err _ _ _ _ _ Eg). exact S1.
      + rewrite (bind__err _ _ _ _ _ Eg). exact S1.
      + rewrite (bind__err _ _ _ _ _ Eg). exact S1.
  Qed.

  Lemma Rep_init clock : Rep cap (g_init clock) (thread_init clock).
  Proof. unfold Rep. cbn. repeat split; try reflexivity; lia. Qed.

  Theorem run_sim ops clock : forallb op_cb ops = true ->
    same_outcome RL (api_run ops sx (g_init clock)) (run true cap ops clock).
  Proof. intros W. unfold run. apply run_from_sim; [apply Rep_init | exact W]. Qed.
End Sim.

(* ------------------------------------------------------------------ the statements of Props/ *)

Lemma op_cb_wf ops : forallb op_cb ops = true -> forallb op_wfb ops = true.
Proof.
  induction ops as [|o r IH]; cbn [forallb]; [reflexivity|]. intros H. apply andb_prop in H as [H1 H2].
  unfold op_cb in H1. apply andb_prop in H1 as [H1 _]. rewrite H1, (IH H2). reflexivity.
Qed.

Theorem buffer_ops_from_source cap o g s log :
  64 <= cap < 2 ^ 63 -> op_cb o = true -> Rep cap g s ->
  match api_call o (env_of cap) g, step true cap o (s, log) with
  | Ok (_, g'), ROk (s', _) => Rep cap g' s'
  | Err e, RAbort => e = E_DIE
  | Err e, RNoClock => e = E_NOCLOCK
  | Err e, RNoFuel => e = E_NOFUEL
  | _, _ => False
  end.
Proof.
  intros Hc W R. pose proof (step_sim cap Hc o g s log R W) as H.
  destruct (api_call o (env_of cap) g) as [[[] g']|e]; destruct (step true cap o (s, log)) as [[s' l']| | |]; exact H.
Qed.

(* what Rep says about the bytes *)
Theorem rep_same_bytes cap g s : Rep cap g s ->
  g_disk_bytes g = disk_bytes s /\ g_clk g = clk s /\ (g_ready g <> 0 <-> ready s = true) /\
  (ready s = true -> g_evlen g = evlen s /\ g_buf_bytes g = buf_bytes s).
Proof.
  intros (A & B & C & E). split; [unfold g_disk_bytes, disk_bytes; rewrite B; reflexivity|]. split; [exact C|]. split.
  - destruct (ready s); cbn in A; split; intros; try lia; try discriminate.
  - intros Rd. destruct (E Rd) as (E1 & _ & _ & E4). split; assumption.
Qed.

Theorem runs_from_source cap ops clock :
  64 <= cap < 2 ^ 63 -> forallb op_cb ops = true ->
  match api_run ops (env_of cap) (g_init clock), run true cap ops clock with
  | Ok (_, g'), ROk (s', _) => Rep cap g' s'
  | Err e, RAbort => e = E_DIE
  | Err e, RNoClock => e = E_NOCLOCK
  | Err e, RNoFuel => e = E_NOFUEL
  | _, _ => False
  end.
Proof.
  intros Hc W. pose proof (run_sim cap Hc ops clock W) as H.
  destruct (api_run ops (env_of cap) (g_init clock)) as [[[] g']|e]; destruct (run true cap ops clock) as [[s' l']| | |]; exact H.
Qed.

(* C01_fidelity and C02_valid_stream_always for the generated code *)
Theorem generated_code_fidelity cap ops clock g' :
  64 <= cap < 2 ^ 63 -> forallb op_cb ops = true -> existsb is_free ops = false -> clock_u64b clock = true ->
  api_run ops (env_of cap) (g_init clock) = Ok (tt, g') ->
  exists s log, run true cap ops clock = ROk (s, log) /\ fidelity log (g_disk_bytes g' ++ g_buf_bytes g').
Proof.
  intros Hc W NF CK H. pose proof (runs_from_source cap ops clock Hc W) as S. rewrite H in S.
  destruct (run true cap ops clock) as [[s log]| | |] eqn:ER; try contradiction.
  exists s, log. split; [reflexivity|].
  pose proof (op_cb_wf ops W) as WF.
  destruct (run_summary true cap ops clock s log ltac:(lia) WF NF CK ER) as (_ & dl & bl & (Rd & _) & _).
  destruct (rep_same_bytes cap g' s S) as (D1 & _ & _ & D2). destruct (D2 Rd) as (_ & D3).
  rewrite D1, D3. apply (fidelity_no_free true cap ops clock s log); try assumption. lia.
Qed.

Theorem generated_code_valid_stream cap ops clock g' :
  64 <= cap < 2 ^ 63 -> forallb op_cb ops = true -> existsb is_free ops = false -> clock_okb clock = true ->
  forallb user_flush_free ops = true ->
  api_run ops (env_of cap) (g_init clock) = Ok (tt, g') ->
  valid_stream (g_disk_bytes g') = true /\ valid_stream (g_disk_bytes g' ++ g_buf_bytes g') = true.
Proof.
  intros Hc W NF CK UF H. pose proof (runs_from_source cap ops clock Hc W) as S. rewrite H in S.
  destruct (run true cap ops clock) as [[s log]| | |] eqn:ER; try contradiction.
  pose proof (op_cb_wf ops W) as WF.
  destruct (clock_ok_parts clock CK) as [CU _].
  destruct (run_summary true cap ops clock s log ltac:(lia) WF NF CU ER) as (_ & dl & bl & (Rd & _) & _).
  destruct (rep_same_bytes cap g' s S) as (D1 & _ & _ & D2). destruct (D2 Rd) as (_ & D3).
  rewrite D1, D3. apply (valid_no_free cap ops clock s log); try assumption. lia.
Qed.

(* the generated code never runs out of fuel and never traps (E_TRAP = invalid memory access): its only failures are
   die() and an exhausted clock input *)
Theorem generated_code_failures cap ops clock e :
  64 <= cap < 2 ^ 63 -> forallb op_cb ops = true ->
  api_run ops (env_of cap) (g_init clock) = Err e -> e = E_DIE \/ e = E_NOCLOCK.
Proof.
  intros Hc W H. pose proof (runs_from_source cap ops clock Hc W) as S. rewrite H in S.
  pose proof (run_never_out_of_fuel true cap ops clock) as NF.
  destruct (run true cap ops clock) as [[s log]| | |] eqn:ER; try contradiction; auto.
  exfalso. apply NF; [lia | apply op_cb_wf; exact W | reflexivity].
Qed.
