(* PRV emission: last-value map, emit, emit_all, and the timeline reconstructed from lines. *)
From Coq Require Import ZArith List Bool Lia.
From OV Require Import Emu.EmuCoreDefs.
Import ListNotations.
Local Open Scope Z_scope.

(* ---------------------------------------------------------------- keys *)

Lemma key_eqb_eq (a b : key) : key_eqb a b = true <-> a = b.
Proof.
  destruct a as [[c1 r1] t1], b as [[c2 r2] t2]. unfold key_eqb.
  rewrite !andb_true_iff, Bool.eqb_true_iff, Nat.eqb_eq, Z.eqb_eq.
  split; [intros [[-> ->] ->]; reflexivity|intros H; inversion H; auto].
Qed.

Lemma key_eqb_refl (a : key) : key_eqb a a = true.
Proof. apply key_eqb_eq. reflexivity. Qed.

Lemma key_eqb_neq (a b : key) : a <> b -> key_eqb a b = false.
Proof. intros H. destruct (key_eqb a b) eqn:E; [apply key_eqb_eq in E; contradiction|reflexivity]. Qed.

Lemma key_eqb_sym (a b : key) : key_eqb a b = key_eqb b a.
Proof.
  destruct (key_eqb a b) eqn:E.
  - apply key_eqb_eq in E. subst. symmetry. apply key_eqb_refl.
  - destruct (key_eqb b a) eqn:E2; [|reflexivity]. apply key_eqb_eq in E2. subst. rewrite key_eqb_refl in E. discriminate.
Qed.

Lemma last_get_set_same m k v : last_get (last_set m k v) k = Some v.
Proof.
  induction m as [|[k' v'] m IH]; cbn.
  - rewrite key_eqb_refl. reflexivity.
  - destruct (key_eqb k k') eqn:E; cbn.
    + rewrite key_eqb_refl. reflexivity.
    + rewrite E. exact IH.
Qed.

Lemma last_get_set_other m k k' v : k <> k' -> last_get (last_set m k v) k' = last_get m k'.
Proof.
  intros Hne. induction m as [|[k0 v0] m IH]; cbn.
  - rewrite (key_eqb_neq k' k) by congruence. reflexivity.
  - destruct (key_eqb k k0) eqn:E; cbn.
    + apply key_eqb_eq in E. subst k0. rewrite (key_eqb_neq k' k) by congruence. reflexivity.
    + destruct (key_eqb k' k0); [reflexivity|exact IH].
Qed.

Lemma value_eqb_eq (a b : value) : value_eqb a b = true <-> a = b.
Proof.
  destruct a, b; cbn; try (split; congruence).
  rewrite Z.eqb_eq. split; congruence.
Qed.

Lemma value_eqb_refl (a : value) : value_eqb a a = true.
Proof. apply value_eqb_eq. reflexivity. Qed.

(* ---------------------------------------------------------------- what a line shows *)

Definition line_key (l : line) : key := (l_cpu l, l_row l, l_type l).

(* value shown for key k after the lines ls (chronological), starting from z *)
Definition shown_from (z : Z) (ls : list line) (k : key) : Z :=
  fold_left (fun acc l => if key_eqb (line_key l) k then l_val l else acc) ls z.

Definition shown (ls : list line) (k : key) : Z := shown_from 0 ls k.

Lemma shown_from_app z a b k : shown_from z (a ++ b) k = shown_from (shown_from z a k) b k.
Proof. unfold shown_from. apply fold_left_app. Qed.

Lemma shown_from_nil z k : shown_from z [] k = z.
Proof. reflexivity. Qed.

(* printed value of a channel value under the PRV flags *)
Definition printed (flags : Z) (v : value) : Z :=
  match v with
  | None => 0
  | Some x => if has_flag flags PRV_NEXT then x + 1 else x
  end.

Definition care (flags : Z) : bool := negb (has_flag flags PRV_EMITDUP).

(* ---------------------------------------------------------------- emit *)

Lemma shown_single cpu row type x :
  let k := (cpu, row, type) in
  let l := {| l_cpu := cpu; l_row := row; l_type := type; l_val := x |} in
  (forall z, shown_from z [l] k = x) /\ (forall k', k' <> k -> forall z, shown_from z [l] k' = z).
Proof.
  cbv zeta. split.
  - intros z. unfold shown_from. cbn [fold_left]. unfold line_key. cbn [l_cpu l_row l_type l_val].
    rewrite key_eqb_refl. reflexivity.
  - intros k' Hne z. unfold shown_from. cbn [fold_left]. unfold line_key. cbn [l_cpu l_row l_type l_val].
    rewrite (key_eqb_neq (cpu, row, type) k') by congruence. reflexivity.
Qed.

Lemma emit_spec last cpu row type flags v last' ls :
  emit last cpu row type flags v = Ok (last', ls) ->
  let k := (cpu, row, type) in
  (* emitted *)
  ((forall z, shown_from z ls k = printed flags v) /\
   (forall k', k' <> k -> forall z, shown_from z ls k' = z) /\
   last' = (if care flags then last_set last k v else last))
  \/
  (* skipped as a duplicate *)
  (care flags = true /\ last_get last k = Some v /\ ls = [] /\ last' = last).
Proof.
  unfold emit. cbv zeta.
  set (k := (cpu, row, type)).
  set (dup := match last_get last k with Some v0 => value_eqb v v0 | None => false end).
  fold (care flags).
  assert (Hdup : dup = true -> last_get last k = Some v).
  { unfold dup. destruct (last_get last k) as [v0|]; [|discriminate]. intros H. apply value_eqb_eq in H. subst. reflexivity. }
  destruct (care flags && dup && has_flag flags PRV_SKIPDUP) eqn:E1.
  { intros H. inversion H; subst. right. apply andb_true_iff in E1. destruct E1 as [E1 _]. apply andb_true_iff in E1. destruct E1 as [Hc Hd].
    repeat split; auto. }
  destruct (care flags && dup && has_flag flags PRV_SKIPDUPNULL && match v with None => true | _ => false end) eqn:E2.
  { intros H. inversion H; subst. right. apply andb_true_iff in E2. destruct E2 as [E2 _]. apply andb_true_iff in E2. destruct E2 as [E2 _].
    apply andb_true_iff in E2. destruct E2 as [Hc Hd]. repeat split; auto. }
  destruct (care flags && dup && negb (has_flag flags PRV_SKIPDUP) && negb (has_flag flags PRV_SKIPDUPNULL)) eqn:E3; [discriminate|].
  destruct v as [x|].
  - destruct (negb (has_flag flags PRV_ZERO) && ((if has_flag flags PRV_NEXT then x + 1 else x) =? 0)); [discriminate|].
    intros H. inversion H; subst. left.
    destruct (shown_single cpu row type (if has_flag flags PRV_NEXT then x + 1 else x)) as [H1 H2].
    repeat split; auto.
  - intros H. inversion H; subst. left.
    destruct (shown_single cpu row type 0) as [H1 H2]. repeat split; auto.
Qed.

(* ---------------------------------------------------------------- emit_all *)

Definition req_key (r : req) : key := fst (fst r).

Lemma emit_all_spec rs : forall last last' ls,
  NoDup (map req_key rs) ->
  emit_all last rs = Ok (last', ls) ->
  (forall k, ~ In k (map req_key rs) -> last_get last' k = last_get last k /\ forall z, shown_from z ls k = z) /\
  (forall k f v, In (k, f, v) rs ->
     ((forall z, shown_from z ls k = printed f v) /\
      last_get last' k = (if care f then Some v else last_get last k))
     \/
     (care f = true /\ last_get last k = Some v /\ (forall z, shown_from z ls k = z) /\ last_get last' k = Some v)).
Proof.
  induction rs as [|[[[[cpu row] type] f0] v0] rs IH]; intros last last' ls Hnd H.
  - cbn in H. inversion H; subst. split; [intros k _; split; [reflexivity|intros z; reflexivity]|intros k f v []].
  - cbn [emit_all] in H.
    destruct (emit last cpu row type f0 v0) as [[last1 l1]|e] eqn:E1; [|discriminate].
    destruct (emit_all last1 rs) as [[last2 l2]|e] eqn:E2; [|discriminate].
    inversion H; subst last' ls. clear H.
    cbn [map] in Hnd. inversion Hnd as [|? ? Hnotin Hnd']; subst.
    change (req_key (cpu, row, type, f0, v0)) with (cpu, row, type) in Hnotin.
    set (k0 := (cpu, row, type)) in *.
    destruct (IH last1 last2 l2 Hnd' E2) as [IHa IHb].
    pose proof (emit_spec _ _ _ _ _ _ _ _ E1) as Hs. cbv zeta in Hs. fold k0 in Hs.
    split.
    + intros k Hk. cbn [map In] in Hk.
      assert (Hne : k <> k0) by (intros ->; apply Hk; left; reflexivity).
      assert (Hk' : ~ In k (map req_key rs)) by (intros Hin; apply Hk; right; exact Hin).
      destruct (IHa k Hk') as [Hl Hs2].
      destruct Hs as [(Hs1 & Hs1' & Hlast) | (Hc & Hg & Hnil & Hlast)].
      * split.
        -- rewrite Hl, Hlast. destruct (care f0); [apply last_get_set_other; congruence|reflexivity].
        -- intros z. rewrite shown_from_app, Hs2. apply Hs1'. exact Hne.
      * subst. split; [rewrite Hl; reflexivity|intros z; cbn [app]; apply Hs2].
    + intros k f v Hin. destruct Hin as [Heq | Hin].
      * inversion Heq; subst. clear Heq. fold k0.
        destruct (IHa k0 Hnotin) as [Hl Hs2].
        destruct Hs as [(Hs1 & Hs1' & Hlast) | (Hc & Hg & Hnil & Hlast)].
        -- left. split.
           ++ intros z. rewrite shown_from_app, Hs2. apply Hs1.
           ++ rewrite Hl, Hlast. destruct (care f); [apply last_get_set_same|reflexivity].
        -- right. subst. split; [exact Hc|]. split; [exact Hg|].
           split; [intros z; cbn [app]; apply Hs2|rewrite Hl; exact Hg].
      * assert (Hne : k <> k0).
        { intros ->. apply Hnotin. apply in_map_iff. exists (k0, f, v). split; [reflexivity|exact Hin]. }
        assert (Hl1 : last_get last1 k = last_get last k).
        { destruct Hs as [(_ & _ & Hlast) | (_ & _ & _ & Hlast)]; subst; [|reflexivity].
          destruct (care f0); [apply last_get_set_other; congruence|reflexivity]. }
        assert (Hs1 : forall z, shown_from z l1 k = z).
        { destruct Hs as [(_ & Hs1' & _) | (_ & _ & Hnil & _)]; [intros z; apply Hs1'; exact Hne|subst; intros z; reflexivity]. }
        destruct (IHb k f v Hin) as [(Ha & Hb) | (Hc & Hg & Ha & Hb)].
        -- left. split; [intros z; rewrite shown_from_app, Hs1; apply Ha|rewrite Hb, Hl1; reflexivity].
        -- right. split; [exact Hc|]. split; [rewrite <- Hl1; exact Hg|].
           split; [intros z; rewrite shown_from_app, Hs1; apply Ha|exact Hb].
Qed.
