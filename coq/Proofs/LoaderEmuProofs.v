(* Proofs about Emu/EmuEvDefs.v (emu_ev.c, model_event, ovniemu's verdict) and
   Emu/LoaderMetaDefs.v (metadata gates) for C12. *)
From OV Require Import Base.CInt Emu.LoaderPre Gen.Loader_gen Emu.StreamDefs Emu.LoaderSpec Emu.VersionDefs
  Emu.EmuEvDefs Emu.LoaderMetaDefs Proofs.StreamProofs.
From Coq Require Import ZifyBool.
Local Open Scope Z_scope.
Ltac Zify.zify_post_hook ::= Z.div_mod_to_equations.

(* ------------------------------------------------------------------ *)
(* emu_ev                                                              *)

(* repaired: nothing survives from the previous event *)
Lemma emu_ev_prev_irrelevant p1 p2 oev : emu_ev p1 oev = emu_ev p2 oev.
Proof. unfold emu_ev, emu_ev_with. reflexivity. Qed.

Lemma emu_ev_is_jumbo prev oev :
  e_is_jumbo (emu_ev prev oev) = true -> has_jumbo_flag oev = true.
Proof.
  unfold emu_ev, emu_ev_with.
  destruct (cast_uint64 (ovni_payload_size oev) >? 0); cbn [e_is_jumbo]; [tauto|discriminate].
Qed.

Lemma emu_ev_not_jumbo prev oev :
  has_jumbo_flag oev = false -> e_is_jumbo (emu_ev prev oev) = false.
Proof.
  intros H. destruct (e_is_jumbo (emu_ev prev oev)) eqn:E; [|reflexivity].
  apply emu_ev_is_jumbo in E. congruence.
Qed.

(* as found: a normal event with a payload inherits is_jumbo = 1 from a preceding jumbo event *)
Definition ev_jumbo_VYc : list Z := [19; 86; 89; 99; 10; 0; 0; 0; 0; 0; 0; 0; 5; 0; 0; 0; 1; 0; 0; 0; 0].   (* VYc+ typeid 1, label "" *)
Definition ev_plain_VYc : list Z := [3; 86; 89; 99; 12; 0; 0; 0; 0; 0; 0; 0; 2; 0; 0; 0].                  (* VYc with a 4-byte payload *)

Lemma emu_ev_old_carries_jumbo :
  exists prev oev, has_jumbo_flag oev = false /\ e_is_jumbo (emu_ev_old prev oev) = true.
Proof.
  exists (emu_ev_old emu_ev_zero (mk_evp ev_jumbo_VYc 0 zero_junk)), (mk_evp ev_plain_VYc 0 zero_junk).
  split; vm_compute; reflexivity.
Qed.

(* ------------------------------------------------------------------ *)
(* one stream through the emulator                                     *)

Section Emulate.
  Variables registered enabled : list Z.
  Variable handler : emu_ev_t -> bool.

  Definition decoded (bs : bytes) (junk : Z -> Z) (r : ev_rec) : emu_ev_t :=
    emu_ev emu_ev_zero (mk_evp bs (fst (fst r)) junk).

  Lemma emu_events_ok bs junk : forall evs prev,
    emu_events emu_ev registered enabled handler bs junk prev evs = EvOk ->
    forall r, In r evs -> model_event registered enabled handler (decoded bs junk r) = EvOk.
  Proof.
    induction evs as [|[[off s] c] evs IH]; intros prev H r Hin; [contradiction|].
    cbn [emu_events] in H.
    destruct (model_event registered enabled handler (emu_ev prev (mk_evp bs off junk))) eqn:Em; try discriminate.
    destruct Hin as [<-|Hin].
    - unfold decoded. cbn [fst]. rewrite (emu_ev_prev_irrelevant emu_ev_zero prev). exact Em.
    - eapply IH; eassumption.
  Qed.

  Lemma emulate_ok bs junk :
    emulate emu_ev registered enabled handler bs junk = FinishedOk ->
    exists evs, run bs junk false = Run VEnd evs /\
                forall r, In r evs -> model_event registered enabled handler (decoded bs junk r) = EvOk.
  Proof.
    unfold emulate. destruct (run bs junk false) as [e|v evs] eqn:Er; [discriminate|].
    destruct v; try discriminate.
    destruct (emu_events emu_ev registered enabled handler bs junk emu_ev_zero evs) eqn:Ee; try discriminate.
    intros _. exists evs. split; [reflexivity|]. eapply emu_events_ok. exact Ee.
  Qed.

  (* C12: a structurally invalid stream is never emulated as ok *)
  Theorem invalid_never_ok bs junk :
    blen bs < 2 ^ 63 -> (forall evs, ~ valid_obs bs true evs) ->
    emulate emu_ev registered enabled handler bs junk = FinishedWithErrors.
  Proof.
    intros Hsz Hn. destruct (emulate emu_ev registered enabled handler bs junk) eqn:E; [|reflexivity].
    exfalso. destruct (emulate_ok bs junk E) as (evs & Hr & _).
    apply (Hn evs). apply (run_accept_iff bs junk false evs Hsz). exact Hr.
  Qed.

  (* C12: an event of a model that is not enabled (not required by the trace) *)
  Theorem not_enabled_never_ok bs junk evs r :
    run bs junk false = Run VEnd evs -> In r evs ->
    mem (e_m (decoded bs junk r)) enabled = false ->
    emulate emu_ev registered enabled handler bs junk = FinishedWithErrors.
  Proof.
    intros Hr Hin Hm. destruct (emulate emu_ev registered enabled handler bs junk) eqn:E; [|reflexivity].
    exfalso. destruct (emulate_ok bs junk E) as (evs' & Hr' & Hall).
    assert (evs' = evs) by congruence. subst evs'.
    specialize (Hall r Hin). unfold model_event in Hall. rewrite Hm in Hall.
    destruct (negb (mem (e_m (decoded bs junk r)) registered)); discriminate.
  Qed.

  (* C12: a task-type-create event (VYc / 6Yc) that is not a jumbo event *)
  Theorem nonjumbo_type_create_never_ok bs junk evs r :
    handler_checks_jumbo handler ->
    run bs junk false = Run VEnd evs -> In r evs ->
    is_type_create (decoded bs junk r) = true ->
    has_jumbo_flag (mk_evp bs (fst (fst r)) junk) = false ->
    emulate emu_ev registered enabled handler bs junk = FinishedWithErrors.
  Proof.
    intros Hh Hr Hin Ht Hf. destruct (emulate emu_ev registered enabled handler bs junk) eqn:E; [|reflexivity].
    exfalso. destruct (emulate_ok bs junk E) as (evs' & Hr' & Hall).
    assert (evs' = evs) by congruence. subst evs'.
    specialize (Hall r Hin). unfold model_event in Hall.
    assert (Hj : e_is_jumbo (decoded bs junk r) = false) by (apply emu_ev_not_jumbo; exact Hf).
    rewrite (Hh _ Ht Hj) in Hall.
    destruct (negb (mem (e_m (decoded bs junk r)) registered)); [discriminate|].
    destruct (negb (mem (e_m (decoded bs junk r)) enabled)); discriminate.
  Qed.
End Emulate.

(* as found: the same check in the handler, yet a non-jumbo VYc right after a jumbo event is
   emulated as ok *)
Lemma jumbo_checking_handler_checks : handler_checks_jumbo jumbo_checking_handler.
Proof. intros e Ht Hj. unfold jumbo_checking_handler. rewrite Ht. exact Hj. Qed.

Lemma old_accepts_nonjumbo_type_create :
  exists bs evs r,
    run bs zero_junk false = Run VEnd evs /\ In r evs /\
    is_type_create (decoded bs zero_junk r) = true /\
    has_jumbo_flag (mk_evp bs (fst (fst r)) zero_junk) = false /\
    emulate emu_ev_old [V_MODEL] [V_MODEL] jumbo_checking_handler bs zero_junk = FinishedOk.
Proof.
  exists (hdr ++ ev_jumbo_VYc ++ ev_plain_VYc), [(8, 21, 10); (29, 16, 12)], (29, 16, 12).
  split; [vm_compute; reflexivity|]. split; [right; left; reflexivity|].
  split; [vm_compute; reflexivity|]. split; vm_compute; reflexivity.
Qed.

Example new_rejects_that_trace :
  emulate emu_ev [V_MODEL] [V_MODEL] jumbo_checking_handler (hdr ++ ev_jumbo_VYc ++ ev_plain_VYc) zero_junk = FinishedWithErrors.
Proof. vm_compute. reflexivity. Qed.

Example new_accepts_jumbo_type_create :
  emulate emu_ev [V_MODEL] [V_MODEL] jumbo_checking_handler (hdr ++ ev_jumbo_VYc) zero_junk = FinishedOk.
Proof. vm_compute. reflexivity. Qed.

(* ------------------------------------------------------------------ *)
(* metadata gates                                                      *)

Ltac gates :=
  unfold meta_rejected, meta_check;
  repeat (match goal with
          | |- context [match j_string ?x with _ => _ end] => destruct (j_string x) eqn:?
          | |- context [if negb ?c then _ else _] => destruct c eqn:?; cbn [negb]
          | |- context [if ?a && ?b then _ else _] => destruct a eqn:?; destruct b eqn:?; cbn [andb]
          | |- context [if ?c then _ else _] => destruct c eqn:?
          end);
  try reflexivity; try congruence; try discriminate; try lia.

Lemma meta_unparsable m a : m_parses m = false -> meta_check m a = MetaErr MUnparsable.
Proof. intros H. unfold meta_check. rewrite H. reflexivity. Qed.

Lemma meta_not_object m a : m_is_object m = false -> meta_rejected (meta_check m a) = true.
Proof. intros H. gates. Qed.

Lemma meta_no_version m a : m_version m = JMissing -> meta_rejected (meta_check m a) = true.
Proof. intros H. unfold meta_rejected, meta_check. rewrite H. cbn [j_present negb]. destruct (negb (m_parses m)), (negb (m_is_object m)); reflexivity. Qed.

Lemma meta_version_mismatch m a : j_number (m_version m) <> METADATA_VERSION -> meta_rejected (meta_check m a) = true.
Proof. intros H. gates. Qed.

Lemma meta_no_part m a : j_string (m_part m) = None -> meta_rejected (meta_check m a) = true.
Proof. intros H. unfold meta_rejected, meta_check. rewrite H. repeat (match goal with |- context [if ?c then _ else _] => destruct c end); reflexivity. Qed.

(* from here on the stream is a thread stream: ovni.part = "thread" *)
Definition is_thread (m : meta) : Prop := j_string (m_part m) = Some str_thread.

Lemma thread_part m : is_thread m -> forall part, j_string (m_part m) = Some part -> list_Z_eqb part str_thread = true.
Proof. intros H part Hp. unfold is_thread in H. rewrite H in Hp. inversion Hp. reflexivity. Qed.

Ltac thread_gates Ht :=
  unfold meta_rejected, meta_check;
  repeat (match goal with
          | |- context [match j_string (m_part ?m) with _ => _ end] =>
            let E := fresh "Ep" in destruct (j_string (m_part m)) eqn:E; [rewrite (thread_part m Ht _ E); cbn [negb]|]
          | |- context [match j_string ?x with _ => _ end] => destruct (j_string x) eqn:?
          | |- context [if negb ?c then _ else _] => destruct c eqn:?; cbn [negb]
          | |- context [if ?a && ?b then _ else _] => destruct a eqn:?; destruct b eqn:?; cbn [andb]
          | |- context [if ?c then _ else _] => destruct c eqn:?
          end);
  try reflexivity; try congruence; try discriminate; try lia.

Lemma meta_no_loom m a : is_thread m -> j_string (m_loom m) = None -> meta_rejected (meta_check m a) = true.
Proof. intros Ht H. thread_gates Ht. Qed.

Lemma meta_no_pid m a : is_thread m -> j_number (m_pid m) <= 0 -> meta_rejected (meta_check m a) = true.
Proof. intros Ht H. thread_gates Ht. Qed.

Lemma meta_no_tid m a : is_thread m -> j_number (m_tid m) <= 0 -> meta_rejected (meta_check m a) = true.
Proof. intros Ht H. thread_gates Ht. Qed.

Lemma meta_not_finished m a : is_thread m -> j_number (m_finished m) <> 1 -> meta_rejected (meta_check m a) = true.
Proof. intros Ht H. thread_gates Ht. Qed.

Lemma meta_no_require m a : is_thread m -> j_is_object (m_require m) = false -> meta_rejected (meta_check m a) = true.
Proof. intros Ht H. thread_gates Ht. Qed.

Lemma meta_no_app_id m : is_thread m -> meta_rejected (meta_check m false) = true.
Proof. intros Ht. thread_gates Ht. Qed.

Lemma meta_bad_app_id m a : is_thread m -> j_present (m_app_id m) = true -> j_number (m_app_id m) <= 0 ->
  meta_rejected (meta_check m a) = true.
Proof. intros Ht Hp H. thread_gates Ht. Qed.

Lemma meta_no_lib_version m a : is_thread m -> j_string (m_lib_version m) = None -> meta_rejected (meta_check m a) = true.
Proof. intros Ht H. thread_gates Ht. Qed.

(* a missing key makes the look-ups fail: number 0, string NULL *)
Lemma missing_number : j_number JMissing = 0. Proof. reflexivity. Qed.
Lemma missing_string : j_string JMissing = None. Proof. reflexivity. Qed.
Lemma missing_object : j_is_object JMissing = false. Proof. reflexivity. Qed.

Example meta_example_ok : meta_check meta_example true = MetaOk.
Proof. vm_compute. reflexivity. Qed.
Example meta_example_thread : is_thread meta_example.
Proof. reflexivity. Qed.
