(* C18 (decode clause): the generated print_arg (Gen/EvSpec_gen.v, unit evspec) = the argument renderer of the hand model
   Tools/EvSpecDefs.v, for every argument type, payload and remaining buffer length; never an out-of-bounds read. *)
From OV Require Import Base.CInt Tools.EvSpecDefs Tools.EvSpecPre Gen.EvSpec_gen Proofs.EvSpecProofs.
From Coq Require Import ZifyBool.
Local Open Scope Z_scope.
Ltac Zify.zify_post_hook ::= Z.div_mod_to_equations.

Definition bytes_ok (l : list Z) : Prop := Forall (fun b => 0 <= b <= 255) l.

(* ------------------------------------------------------------------ the shape of the generated function *)
Definition tail_block (fmt : cfmt) (a : sarg) : M Z :=
  bind (get_cursor_len tt) (fun l1 =>
    bind (snprintf_c tt (cast_uint64 l1) fmt a) (fun n =>
      bind (get_cursor_len tt) (fun l2 =>
        ite (Z.geb n l2) (fail E_FAIL) (bind_ (advance_out tt n) (ret 0))))).
Definition int_block (t : aty) (bits : Z) (arg : ptr_arg) (fmt : cfmt) (payload : ptr_u8) : M Z :=
  bind (load t (u8_index payload (get_ev_arg_offset arg))) (fun data => tail_block fmt (AInt bits data)).
Definition str_block (arg : ptr_arg) (fmt : cfmt) (payload : ptr_u8) : M Z :=
  tail_block fmt (AStr (u8_index payload (get_ev_arg_offset arg))).
Definition guards (arg : ptr_arg) (ev : ptr_ev) (payload : ptr_u8) : M unit :=
  ite (Z.gtb (get_emu_ev_payload_size ev) 0)
    (ite (Z.gtb (cast_uint64 (Z.add (get_ev_arg_offset arg) (get_ev_arg_size arg))) (get_emu_ev_payload_size ev)) (fail E_FAIL)
      (ite (andb (Z.eqb (get_ev_arg_type arg) (cast_uint32 c_STR))
                 (is_null (memchr_c (u8_index payload (get_ev_arg_offset arg)) 0
                                    (cast_uint64 (Z.sub (get_emu_ev_payload_size ev) (get_ev_arg_offset arg))))))
        (fail E_FAIL) (ret tt)))
    (ret tt).
Definition dispatch (arg : ptr_arg) (fmt : cfmt) (payload : ptr_u8) : M Z :=
  let sw := get_ev_arg_type arg in
  ite (Z.eqb sw (cast_uint32 c_U8)) (int_block U8 32 arg fmt payload)
  (ite (Z.eqb sw (cast_uint32 c_U16)) (int_block U16 32 arg fmt payload)
  (ite (Z.eqb sw (cast_uint32 c_U32)) (int_block U32 32 arg fmt payload)
  (ite (Z.eqb sw (cast_uint32 c_U64)) (int_block U64 64 arg fmt payload)
  (ite (Z.eqb sw (cast_uint32 c_I8)) (int_block I8 32 arg fmt payload)
  (ite (Z.eqb sw (cast_uint32 c_I16)) (int_block I16 32 arg fmt payload)
  (ite (Z.eqb sw (cast_uint32 c_I32)) (int_block I32 32 arg fmt payload)
  (ite (Z.eqb sw (cast_uint32 c_I64)) (int_block I64 64 arg fmt payload)
  (ite (Z.eqb sw (cast_uint32 c_STR)) (str_block arg fmt payload) (fail E_FAIL))))))))).

(* by computation: the generated term is exactly this composition (each CASE expansion is one int_block) *)
Lemma print_arg_shape arg fmt ev :
  EvSpec_gen.print_arg arg fmt tt ev =
  (let payload := get_emu_ev_payload ev in
   ite (is_null payload) (fail E_FAIL) (bind_ (guards arg ev payload) (dispatch arg fmt payload))).
Proof. reflexivity. Qed.

(* ------------------------------------------------------------------ the common tail: snprintf, room test, advance *)
Lemma tail_spec fmt a st : 0 <= o_len st < 2 ^ 31 ->
  tail_block fmt a st =
  match fmt_text fmt a with
  | TText t => if Z.of_nat (length t) <? o_len st
               then OOk (0, mkO (o_buf st ++ t) [0] (o_len st - Z.of_nat (length t)))
               else OErr E_FAIL
  | TOob => OErr E_OOB
  | TUnsup => OErr E_UNSUP
  end.
Proof.
  intros Hl. unfold tail_block, bind, get_cursor_len, snprintf_c.
  assert (C : cast_uint64 (o_len st) = o_len st) by (apply wrapu_small; lia). rewrite C.
  destruct (fmt_text fmt a) as [t| |]; try reflexivity.
  cbn [o_len o_buf o_pend]. unfold ite.
  destruct (Z.of_nat (length t) <? o_len st) eqn:E.
  - replace (Z.of_nat (length t) >=? o_len st) with false by lia.
    replace (o_len st <=? 0) with false by lia.
    assert (F : firstn (Z.to_nat (o_len st - 1)) t = t) by (apply firstn_all2; lia). rewrite F.
    unfold bind_, bind, advance_out, bind_, bind, add_cursor_out, get_cursor_len, set_cursor_len, ret. cbn [o_len o_buf o_pend].
    rewrite app_length. cbn [length].
    replace ((0 <=? Z.of_nat (length t)) && (Z.of_nat (length t) <=? Z.of_nat (length t + 1))) with true by lia.
    cbn [o_len o_buf o_pend]. rewrite Nat2Z.id, firstn_app_exact, skipn_app_exact.
    assert (C2 : cast_int32 (o_len st - Z.of_nat (length t)) = o_len st - Z.of_nat (length t)) by (apply wraps_small; lia).
    rewrite C2. reflexivity.
  - replace (Z.of_nat (length t) >=? o_len st) with true by lia. reflexivity.
Qed.

(* ------------------------------------------------------------------ integers read from the payload *)
Lemma le_val_range bs : bytes_ok bs -> 0 <= le_val bs < 256 ^ Z.of_nat (length bs).
Proof.
  induction 1 as [|b r Hb Hr IH]; [cbn; lia|].
  cbn [le_val length]. rewrite Nat2Z.inj_succ, Z.pow_succ_r by lia. lia.
Qed.

Lemma dec_int_range t bs : ty_is_str t = false -> length bs = ty_size t -> bytes_ok bs ->
  if ty_signed t then - 2 ^ (ty_bits t - 1) <= dec_int t bs < 2 ^ (ty_bits t - 1) else 0 <= dec_int t bs < 2 ^ ty_bits t.
Proof.
  intros Hs Hl Hb. pose proof (le_val_range bs Hb) as R. rewrite Hl in R. unfold dec_int.
  destruct t; try discriminate; cbn [ty_signed ty_bits ty_size andb] in *;
    match goal with |- context [?a <=? le_val bs] => destruct (a <=? le_val bs) eqn:E | _ => idtac end;
    change (256 ^ Z.of_nat 1) with 256 in R; change (256 ^ Z.of_nat 2) with 65536 in R; change (256 ^ Z.of_nat 4) with 4294967296 in R;
    change (256 ^ Z.of_nat 8) with 18446744073709551616 in R; lia.
Qed.

Lemma Forall_firstn_ {A} (P : A -> Prop) n : forall l, Forall P l -> Forall P (firstn n l).
Proof. induction n as [|n IH]; intros l H; [constructor|]. destruct H; cbn [firstn]; constructor; auto. Qed.
Lemma Forall_skipn_ {A} (P : A -> Prop) n : forall l, Forall P l -> Forall P (skipn n l).
Proof. induction n as [|n IH]; intros l H; [exact H|]. destruct H; cbn [skipn]; [constructor|auto]. Qed.
Lemma bytes_ok_region b o n : bytes_ok b -> bytes_ok (region b o n).
Proof. intros H. unfold region, bytes_ok. apply Forall_firstn_, Forall_skipn_. exact H. Qed.

Lemma existsb_nul_sym l : existsb (Z.eqb 0) l = existsb (fun c => c =? 0) l.
Proof. induction l as [|x l IH]; cbn [existsb]; [reflexivity|]. rewrite IH, Z.eqb_sym. reflexivity. Qed.

Lemma udec_sdec z : 0 <= z -> sdec z = udec z.
Proof. intros H. unfold sdec. destruct (z <? 0) eqn:E; [lia|reflexivity]. Qed.

(* ------------------------------------------------------------------ the theorem *)
Definition fmt_in_use (f : option (list Z)) : Prop := f = None \/ f = Some FMT_LLX.

Theorem print_arg_from_source : forall (a : arg) (f : option (list Z)) (pl : option (list Z)) (st : ostate),
  a_size a = ty_size (a_type a) -> Z.of_nat (a_off a + a_size a) < 2 ^ 63 ->
  fmt_in_use f -> pl <> Some [] -> (forall p, pl = Some p -> bytes_ok p /\ Z.of_nat (length p) < 2 ^ 63) -> 0 <= o_len st < 2 ^ 31 ->
  EvSpec_gen.print_arg a (cfmt_of f (a_type a)) tt (ev_of pl) st =
  match EvSpecDefs.print_arg a f pl (o_len st) with
  | PErr => OErr E_FAIL
  | PUnsup => OErr E_UNSUP
  | POk t => OOk (0, mkO (o_buf st ++ t) [0] (o_len st - Z.of_nat (length t)))
  end.
Proof.
  intros a f pl st Hsz Hoff Hf Hne Hb Hl.
  rewrite print_arg_shape. cbv zeta. unfold EvSpecDefs.print_arg, ev_of, get_emu_ev_payload. cbn [e_payload e_psize].
  destruct pl as [p|]; [|reflexivity]. destruct (Hb p eq_refl) as [Hb' Hlp]. clear Hb. rename Hb' into Hb. cbn [is_null ite].
  assert (Hp : (0 < length p)%nat) by (destruct p; [congruence|cbn; lia]).
  unfold bind_, bind. unfold guards, get_emu_ev_payload_size, get_ev_arg_offset, get_ev_arg_size, get_ev_arg_type. cbn [e_psize].
  replace (Z.of_nat (length p) >? 0) with true by lia. cbn [ite].
  assert (C1 : cast_uint64 (Z.of_nat (a_off a) + Z.of_nat (a_size a)) = Z.of_nat (a_off a + a_size a)) by (rewrite Nat2Z.inj_add in *; apply wrapu_small; lia).
  rewrite C1. unfold decode_arg.
  destruct (length p <? a_off a + a_size a)%nat eqn:E1.
  - apply Nat.ltb_lt in E1. replace (Z.of_nat (a_off a + a_size a) >? Z.of_nat (length p)) with true by lia. reflexivity.
  - apply Nat.ltb_ge in E1. replace (Z.of_nat (a_off a + a_size a) >? Z.of_nat (length p)) with false by lia. cbn [ite].
    assert (C2 : cast_uint64 (Z.of_nat (length p) - Z.of_nat (a_off a)) = Z.of_nat (length p - a_off a)) by (rewrite Nat2Z.inj_sub by lia; apply wrapu_small; lia).
    rewrite C2. unfold u8_index, memchr_c, region. rewrite Z.add_0_l, !Nat2Z.id.
    assert (FA : firstn (length p - a_off a) (skipn (a_off a) p) = skipn (a_off a) p) by (apply firstn_all2; rewrite skipn_length; lia).
    rewrite FA, existsb_nul_sym.
    unfold dispatch, get_ev_arg_type. cbv zeta.
    assert (Hfmt : forall t, a_type a = t -> ty_is_str t = false ->
              int_block t (if match t with U64 | I64 => true | _ => false end then 64 else 32) a (cfmt_of f t) (Some (p, 0)) st =
              match (if fmt_supported f a then
                       let tx := show f (VInt (dec_int t (firstn (a_size a) (skipn (a_off a) p)))) in
                       if Z.of_nat (length tx) <? o_len st then POk tx else PErr
                     else PUnsup) with
              | PErr => OErr E_FAIL | PUnsup => OErr E_UNSUP
              | POk tx => OOk (0, mkO (o_buf st ++ tx) [0] (o_len st - Z.of_nat (length tx))) end).
    { intros t Ht Hns. unfold int_block, bind, load, u8_index, get_ev_arg_offset. rewrite Z.add_0_l.
      assert (Hs2 : a_size a = ty_size t) by congruence.
      replace ((0 <=? Z.of_nat (a_off a)) && (Z.of_nat (a_off a) + Z.of_nat (ty_size t) <=? Z.of_nat (length p))) with true by lia.
      unfold ret. unfold region. rewrite !Nat2Z.id. rewrite <- Hs2.
      set (v := dec_int t (firstn (a_size a) (skipn (a_off a) p))).
      assert (Hv : if ty_signed t then - 2 ^ (ty_bits t - 1) <= v < 2 ^ (ty_bits t - 1) else 0 <= v < 2 ^ ty_bits t).
      { apply dec_int_range; [exact Hns| |].
        - rewrite firstn_length, skipn_length. lia.
        - pose proof (bytes_ok_region p (Z.of_nat (a_off a)) (Z.of_nat (a_size a)) Hb) as R. unfold region in R. rewrite !Nat2Z.id in R. exact R. }
      rewrite tail_spec by exact Hl. unfold fmt_supported. rewrite Ht.
      destruct Hf as [-> | ->].
      + (* the format inferred from the type *)
        destruct t; try discriminate; cbn [cfmt_of type_fmt show ty_signed ty_bits] in *; unfold fmt_text;
          cbn [list_eqb F_U F_LU F_D F_LD F_S F_LLX FMT_LLX Z.eqb Pos.eqb andb];
          [ replace (v mod 2 ^ 32) with v by lia | replace (v mod 2 ^ 32) with v by lia | replace (v mod 2 ^ 32) with v by lia
          | replace (v mod 2 ^ 64) with v by lia
          | replace (cast_int32 v) with v by (symmetry; apply wraps_small; lia) | replace (cast_int32 v) with v by (symmetry; apply wraps_small; lia)
          | replace (cast_int32 v) with v by (symmetry; apply wraps_small; lia) | replace (cast_int64 v) with v by (symmetry; apply wraps_small; lia) ];
          rewrite ?udec_sdec by lia;
          match goal with |- context [Z.of_nat (length ?tx) <? o_len st] => destruct (Z.of_nat (length tx) <? o_len st) end; reflexivity.
      + (* "%#llx" *)
        destruct t; try discriminate; cbn [cfmt_of show]; unfold fmt_text;
          cbn [list_eqb F_U F_LU F_D F_LD F_S F_LLX FMT_LLX Z.eqb Pos.eqb andb]; try reflexivity;
          match goal with |- context [Z.of_nat (length ?tx) <? o_len st] => destruct (Z.of_nat (length tx) <? o_len st) end; reflexivity. }
    destruct (a_type a) eqn:Ht; cbn [ty_code];
      change (cast_uint32 c_U8) with 0; change (cast_uint32 c_U16) with 1; change (cast_uint32 c_U32) with 2; change (cast_uint32 c_U64) with 3;
      change (cast_uint32 c_I8) with 4; change (cast_uint32 c_I16) with 5; change (cast_uint32 c_I32) with 6; change (cast_uint32 c_I64) with 7;
      change (cast_uint32 c_STR) with 8; cbn [Z.eqb Pos.eqb andb ite is_null];
      try exact (Hfmt _ eq_refl eq_refl).
    (* str *)
    destruct (existsb (fun c => c =? 0) (skipn (a_off a) p)) eqn:En; cbn [is_null ite negb]; [|reflexivity].
    change (ret tt st) with (OOk (tt, st)). cbv beta iota. unfold str_block. rewrite tail_spec by exact Hl. unfold fmt_supported, u8_index, get_ev_arg_offset. rewrite Ht, Z.add_0_l.
    destruct Hf as [-> | ->]; cbn [cfmt_of type_fmt show]; unfold fmt_text; cbn [list_eqb F_U F_LU F_D F_LD F_S F_LLX FMT_LLX Z.eqb Pos.eqb andb]; [|reflexivity].
    rewrite Nat2Z.id, En. replace (0 <=? Z.of_nat (a_off a)) with true by lia. cbn [andb].
    destruct (Z.of_nat (length (cstr (skipn (a_off a) p))) <? o_len st); reflexivity.
Qed.

(* ------------------------------------------------------------------ ev_spec_print with the generated argument renderer *)
(* PARTIAL: the walk over the description (ev_spec_print, format_region, parse_printf_format, parse_arg_name,
   ev_spec_find_arg) is still the hand model of EvSpecDefs.v; what is generated is the rendering of every argument.
   render_gen is EvSpecDefs.render with print_arg replaced by the generated function (run on an empty output cursor of the
   current remaining length); a custom format other than "#llx" falls back to the hand model (which answers Unsupported). *)
Inductive gpres := GP (r : pres) | GOob | GTrap.

Definition in_use_b (f : option (list Z)) : bool := match f with None => true | Some x => list_eqb x FMT_LLX end.

Definition print_arg_gen (a : arg) (f : option (list Z)) (pl : option (list Z)) (len : Z) : gpres :=
  if in_use_b f then
    match EvSpec_gen.print_arg a (cfmt_of f (a_type a)) tt (ev_of pl) (mkO [] [] len) with
    | OOk (_, st') => GP (POk (o_buf st'))
    | OErr e => if Nat.eqb e E_FAIL then GP PErr else if Nat.eqb e E_UNSUP then GP PUnsup else if Nat.eqb e E_OOB then GOob else GTrap
    end
  else GP (EvSpecDefs.print_arg a f pl len).

Inductive gfres := GF (r : fres) | GFBad.
Definition format_region_gen (sp : spec) (pl : option (list Z)) (r : list Z) (len : Z) : gfres :=
  match parse_region r with
  | None => GF FErr
  | Some (Pct, r') => GF (FOk [CH_PCT] r')
  | Some (Lit _, _) => GF FErr
  | Some (Arg fmt nm, r') =>
    match find_arg sp nm with
    | None => GF FErr
    | Some a =>
      match print_arg_gen a fmt pl len with
      | GP PErr => GF FErr
      | GP PUnsup => GF FUnsup
      | GP (POk t) => GF (FOk t r')
      | _ => GFBad
      end
    end
  end.

(* None = an out-of-bounds read or a libc contract violation somewhere *)
Fixpoint render_loop_gen (fuel : nat) (sp : spec) (pl : option (list Z)) (inp : list Z) (len : Z) : option outcome :=
  match inp with
  | [] => Some (Ok [])
  | c :: r =>
    if len <=? 0 then Some Err
    else
      match fuel with
      | O => Some Unsupported
      | S f =>
        if c =? CH_PCT then
          match format_region_gen sp pl r len with
          | GFBad => None
          | GF FErr => Some Err
          | GF FUnsup => Some Unsupported
          | GF (FOk t r') => option_map (prepend t) (render_loop_gen f sp pl r' (len - Z.of_nat (length t)))
          end
        else option_map (prepend [c]) (render_loop_gen f sp pl r (len - 1))
      end
  end.
Definition render_gen (sp : spec) (desc : list Z) (pl : option (list Z)) : option outcome :=
  let d := cstr desc in render_loop_gen (length d) sp (norm_payload pl) d (OUTLEN - 1).

Definition arg_ok (a : arg) : Prop := a_size a = ty_size (a_type a) /\ Z.of_nat (a_off a + a_size a) < 2 ^ 63.
Definition payload_ok (pl : option (list Z)) : Prop := forall p, pl = Some p -> bytes_ok p /\ Z.of_nat (length p) < 2 ^ 63.

Lemma in_use_b_spec f : in_use_b f = true -> fmt_in_use f.
Proof. destruct f as [x|]; cbn; [|left; reflexivity]. intros H. apply list_eqb_eq in H. subst. right. reflexivity. Qed.

Lemma print_arg_gen_eq a f pl len : arg_ok a -> pl <> Some [] -> payload_ok pl -> 0 <= len < 2 ^ 31 ->
  print_arg_gen a f pl len = GP (EvSpecDefs.print_arg a f pl len).
Proof.
  intros [A1 A2] Hne Hp Hl. unfold print_arg_gen. destruct (in_use_b f) eqn:U; [|reflexivity].
  rewrite (print_arg_from_source a f pl (mkO [] [] len) A1 A2 (in_use_b_spec f U) Hne Hp Hl). cbn [o_len o_buf].
  destruct (EvSpecDefs.print_arg a f pl len); reflexivity.
Qed.

Lemma find_arg_in sp nm a : find_arg sp nm = Some a -> In a (s_args sp).
Proof. unfold find_arg. intros H. apply find_some in H. tauto. Qed.

Lemma print_arg_ok_len a f pl len t : EvSpecDefs.print_arg a f pl len = POk t -> Z.of_nat (length t) < len.
Proof.
  unfold EvSpecDefs.print_arg. destruct pl; [|discriminate]. destruct (decode_arg a l); [|discriminate].
  destruct (fmt_supported f a); [|discriminate]. destruct (Z.of_nat (length (show f v)) <? len) eqn:E; [|discriminate].
  intros H. injection H as <-. lia.
Qed.

Lemma render_loop_gen_eq sp pl : Forall arg_ok (s_args sp) -> pl <> Some [] -> payload_ok pl ->
  forall fuel inp len, len < 2 ^ 31 -> render_loop_gen fuel sp pl inp len = Some (render_loop fuel sp pl inp len).
Proof.
  intros Ha Hne Hp. induction fuel as [|fuel IH]; intros inp len Hl; destruct inp as [|c r]; cbn [render_loop_gen render_loop]; try reflexivity.
  - destruct (len <=? 0); reflexivity.
  - destruct (len <=? 0) eqn:E0; [reflexivity|]. destruct (c =? CH_PCT).
    + unfold format_region_gen, format_region. destruct (parse_region r) as [[[l| |fmt nm] r']|]; try reflexivity.
      * rewrite IH by (cbn; lia). cbn [option_map]. reflexivity.
      * destruct (find_arg sp nm) as [a|] eqn:F; [|reflexivity].
        assert (Hok : arg_ok a) by (rewrite Forall_forall in Ha; apply Ha; eapply find_arg_in; eauto).
        rewrite (print_arg_gen_eq a fmt pl len Hok Hne Hp ltac:(lia)).
        destruct (EvSpecDefs.print_arg a fmt pl len) as [| |t] eqn:P; try reflexivity.
        pose proof (print_arg_ok_len _ _ _ _ _ P). rewrite IH by lia. reflexivity.
    + rewrite IH by lia. reflexivity.
Qed.

Lemma norm_payload_ne pl : norm_payload pl <> Some [].
Proof. destruct pl as [[|x p]|]; cbn; congruence. Qed.
Lemma norm_payload_ok pl : payload_ok pl -> payload_ok (norm_payload pl).
Proof. intros H p E. destruct pl as [[|x q]|]; cbn in E; try discriminate. apply H. exact E. Qed.

Theorem render_gen_eq_partial : forall sp desc pl,
  Forall arg_ok (s_args sp) -> payload_ok pl -> render_gen sp desc pl = Some (render sp desc pl).
Proof.
  intros sp desc pl Ha Hp. unfold render_gen, render.
  apply render_loop_gen_eq; [exact Ha|apply norm_payload_ne|apply norm_payload_ok; exact Hp|unfold OUTLEN; lia].
Qed.

(* every listed event: the arguments of the compiled declaration are laid out as print_arg expects *)
Definition args_okb (sp : spec) : bool :=
  forallb (fun a => Nat.eqb (a_size a) (ty_size (a_type a)) && (Z.of_nat (a_off a + a_size a) <? 2 ^ 63)) (s_args sp).
Lemma args_okb_spec sp : args_okb sp = true -> Forall arg_ok (s_args sp).
Proof.
  unfold args_okb. rewrite forallb_forall, Forall_forall. intros H a Ha. specialize (H a Ha).
  apply andb_true_iff in H. destruct H as [H1 H2]. apply Nat.eqb_eq in H1. split; [exact H1|lia].
Qed.
Lemma evdescs_args_ok :
  forallb (fun e => match compile (snd (fst e)) with Some sp => args_okb sp | None => true end) Tables_gen.evdescs = true.
Proof. vm_compute. reflexivity. Qed.

Theorem dump_print_from_source_partial : forall m sig desc sp pl,
  In (m, sig, desc) Tables_gen.evdescs -> compile sig = Some sp -> payload_ok pl ->
  render_gen sp desc pl = Some (render sp desc pl).
Proof.
  intros m sig desc sp pl Hin Hc Hp. apply render_gen_eq_partial; [|exact Hp]. apply args_okb_spec.
  pose proof evdescs_args_ok as E. rewrite forallb_forall in E. specialize (E _ Hin). cbn [fst snd] in E. rewrite Hc in E. exact E.
Qed.

(* ------------------------------------------------------------------ the finding still holds for the generated renderer *)
Lemma long_label_computed_gen :
  match long_decl with
  | Some (m, sig, desc) =>
    match compile sig with
    | Some sp =>
      str_last (s_args sp) && vals_okb (map a_type (s_args sp)) long_label &&
      match render_gen sp desc (payload_of sp long_label) with Some Err => true | _ => false end
    | None => false
    end
  | None => false
  end = true.
Proof. vm_compute. reflexivity. Qed.

Theorem dump_unbounded_refuted_gen :
  exists m sig desc sp vals,
    In (m, sig, desc) Tables_gen.evdescs /\ compile sig = Some sp /\ str_last (s_args sp) = true /\
    vals_ok (map a_type (s_args sp)) vals /\ render_gen sp desc (payload_of sp vals) = Some Err.
Proof.
  pose proof long_label_computed_gen as H. unfold long_decl in H.
  destruct (find _ Tables_gen.evdescs) as [[[m sig] desc]|] eqn:E; [|discriminate H].
  apply find_some in E. destruct E as [Hin _].
  destruct (compile sig) as [sp|] eqn:C; [|discriminate H].
  apply andb_true_iff in H. destruct H as [H H3]. apply andb_true_iff in H. destruct H as [H1 H2].
  exists m, sig, desc, sp, long_label.
  split; [exact Hin|]. split; [exact C|]. split; [exact H1|]. split; [apply vals_okb_iff; exact H2|].
  destruct (render_gen sp desc (payload_of sp long_label)) as [[| |]|]; try discriminate H3. reflexivity.
Qed.

(* ------------------------------------------------------------------ examples *)
(* 6Yc(u32 typeid, str label) jumbo: an EMPTY label (seed C18-6: `n <= 0` refused it) and labels around the buffer size *)
Definition sig_6Yc : list Z := [54; 89; 99; 43; 40; 117; 51; 50; 32; 116; 121; 112; 101; 105; 100; 44; 32; 115; 116; 114; 32; 108; 97; 98; 101; 108; 41].
Definition desc_Yc : list Z := [99;114;101;97;116;101;115;32;116;97;115;107;32;116;121;112;101;32;37;123;116;121;112;101;105;100;125;32;119;105;116;104;32;108;97;98;101;108;32;34;37;123;108;97;98;101;108;125;34].
Definition gen_dump (vals : list value) : option outcome :=
  match compile sig_6Yc with Some sp => render_gen sp desc_Yc (payload_of sp vals) | None => None end.

Example ex_empty_label :
  gen_dump [VInt 7; VStr []] = Some (Ok [99;114;101;97;116;101;115;32;116;97;115;107;32;116;121;112;101;32;55;32;119;105;116;104;32;108;97;98;101;108;32;34;34]).
Proof. vm_compute. reflexivity. Qed.
Example ex_labels_990_991 :
  (match gen_dump [VInt 7; VStr (repeat 65 990)] with Some (Ok t) => length t = 1023%nat | _ => False end) /\
  gen_dump [VInt 7; VStr (repeat 65 991)] = Some Err.
Proof. vm_compute. split; reflexivity. Qed.
(* a payload that ends before the argument: refused, never read (the defect repaired by 0435199) *)
Example ex_short_payload :
  match compile sig_6Yc with
  | Some sp => render_gen sp desc_Yc (Some [4; 0; 0; 0; 7; 0]) = Some Err /\ render_gen sp desc_Yc (Some [5; 0; 0; 0; 7; 0; 0; 0; 65]) = Some Err
  | None => False
  end.
Proof. vm_compute. split; reflexivity. Qed.
