(* static_of_system describes the system MetaDefs builds; what find_cpu / find_remote find in it. *)
From Coq Require Import ZArith List Bool Lia.
From OV Require Import Base.CInt Emu.EmuCoreDefs Emu.DecodeDefs Emu.MarkDefs Emu.PvDefs Emu.SysStaticDefs Proofs.PvProofs Proofs.PvThms.
From OV Require Emu.MetaDefs.
Import ListNotations.
Local Open Scope Z_scope.

(* ------------------------------------------------------------------ lists *)
Lemma mnumber_in {A} (l : list A) g x : In (g, x) (MetaDefs.number l) -> exists k, g = Z.of_nat k /\ nth_error l k = Some x.
Proof.
  unfold MetaDefs.number. intros H. apply (In_nth _ _ (0, x)) in H as (k & Hk & E).
  rewrite combine_length, map_length, seq_length, Nat.min_id in Hk.
  rewrite combine_nth in E by now rewrite map_length, seq_length.
  injection E as E1 E2. rewrite (nth_indep _ 0 (Z.of_nat 0)), map_nth, seq_nth in E1 by (rewrite ?map_length, ?seq_length; lia).
  exists k. split; [cbn in E1; lia|]. rewrite <- E2. now apply nth_error_nth'.
Qed.

Lemma mnumber_nth {A} (l : list A) k x : nth_error l k = Some x -> In (Z.of_nat k, x) (MetaDefs.number l).
Proof.
  intros H. assert (Hk : (k < length l)%nat) by (apply nth_error_Some; congruence).
  unfold MetaDefs.number.
  assert (E : nth k (combine (map Z.of_nat (seq 0 (length l))) l) (Z.of_nat 0, x) = (Z.of_nat k, x)).
  { rewrite combine_nth by now rewrite map_length, seq_length. rewrite map_nth, seq_nth by exact Hk. f_equal. now apply nth_error_nth. }
  rewrite <- E. apply nth_In. now rewrite combine_length, map_length, seq_length, Nat.min_id.
Qed.

Lemma map_flat_map_in {A B B' C} (F : B -> C) (F' : B' -> C) (G : A -> list B) (G' : A -> list B') l :
  (forall x, In x l -> map F (G x) = map F' (G' x)) -> map F (flat_map G l) = map F' (flat_map G' l).
Proof.
  induction l as [|a l IH]; intros H; [reflexivity|]. cbn [flat_map]. rewrite !map_app, H by now left.
  f_equal. apply IH. intros x Hx. apply H. now right.
Qed.

Lemma map_flat_map_combine {A B B' C I} (F : B -> C) (F' : B' -> C) (G : I * A -> list B) (G' : A -> list B') :
  (forall i x, map F (G (i, x)) = map F' (G' x)) ->
  forall l idx, length idx = length l -> map F (flat_map G (combine idx l)) = map F' (flat_map G' l).
Proof.
  intros H. induction l as [|a l IH]; intros [|i idx] L; try discriminate; [reflexivity|].
  cbn [combine flat_map]. rewrite !map_app, H. f_equal. apply IH. cbn in L. lia.
Qed.

Lemma combine_flat_map {A B C} (G : A -> list B) (G' : A -> list C) l :
  (forall x, In x l -> length (G x) = length (G' x)) ->
  combine (flat_map G l) (flat_map G' l) = flat_map (fun x => combine (G x) (G' x)) l.
Proof.
  induction l as [|a l IH]; intros H; [reflexivity|]. cbn [flat_map].
  assert (E : forall (u : list B) (v : list C) u' v', length u = length v -> combine (u ++ u') (v ++ v') = combine u v ++ combine u' v').
  { induction u as [|x u IHu]; intros [|y v] u' v' L; try discriminate; [reflexivity|]. cbn [app combine]. f_equal. apply IHu. cbn in L. lia. }
  rewrite E by (apply H; now left). f_equal. apply IH. intros x Hx. apply H. now right.
Qed.

Lemma cpu_part (l : MetaDefs.name) k (cs : list (Z * Z)) :
  map (fun x : cpu_info * Z => (ci_virtual (fst x), Z.of_nat (ci_loom (fst x)), if ci_virtual (fst x) then 0 else snd x))
      (combine (map (fun c : Z * Z => {| ci_virtual := false; ci_loom := Z.to_nat (Z.of_nat k); ci_index := fst c |}) cs) (map (fun c : Z * Z => snd c) cs)) =
  map (fun x : Z * MetaDefs.name * option (Z * Z) => let '(g, _, c) := x in match c with Some (_, ph) => (false, g, ph) | None => (true, g, 0) end)
      (map (fun c : Z * Z => (Z.of_nat k, l, Some c)) cs).
Proof.
  induction cs as [|[i ph] cs IHc]; [reflexivity|]. cbn [map combine fst snd ci_virtual ci_loom]. f_equal; [now rewrite Nat2Z.id|exact IHc].
Qed.

(* ------------------------------------------------------------------ A.1: the same system *)
Theorem static_same_system sys rankf en ms lint : same_system sys (static_of_system sys rankf en ms lint) (sys_phy sys).
Proof.
  split; cbn [static_of_system s_threads s_cpus].
  - unfold sys_threads, MetaDefs.thread_list, MetaDefs.number. apply map_flat_map_combine; [|now rewrite map_length, seq_length].
    intros g [[l ps] cs]. apply map_flat_map_in. intros [[p a] ts] _. rewrite !map_map. reflexivity.
  - unfold sys_cpus, sys_phy, MetaDefs.cpu_list. rewrite combine_flat_map.
    + apply map_flat_map_in. intros [g [[l ps] cs]] Hin. apply mnumber_in in Hin as (k & -> & _).
      assert (E : forall (u : list (Z * Z)) u' (v : list Z) v', length u = length v -> combine (map (fun c => {| ci_virtual := false; ci_loom := Z.to_nat (Z.of_nat k); ci_index := fst c |}) u ++ u') (v ++ v') =
                    combine (map (fun c : Z * Z => {| ci_virtual := false; ci_loom := Z.to_nat (Z.of_nat k); ci_index := fst c |}) u) v ++ combine u' v').
      { induction u as [|x u IHu]; intros u' [|y v] v' L; try discriminate; [reflexivity|]. cbn [map app combine]. f_equal. apply IHu. cbn in L. lia. }
      rewrite E by now rewrite map_length. rewrite !map_app. f_equal.
      * apply cpu_part.
      * cbn [combine map fst snd ci_virtual ci_loom]. now rewrite Nat2Z.id.
    + intros [g [[l ps] cs]] _. now rewrite !app_length, !map_length.
Qed.

(* ------------------------------------------------------------------ A.1: find_cpu *)
Lemma find_cpu_from_spec cpus loom idx : forall k,
  find_cpu_from cpus loom idx k <> None <-> exists ci, In ci cpus /\ ci_loom ci = loom /\ ci_index ci = idx.
Proof.
  induction cpus as [|c r IH]; intros k; cbn [find_cpu_from].
  - split; [congruence|intros (ci & [] & _)].
  - destruct (Nat.eqb (ci_loom c) loom && (ci_index c =? idx)) eqn:E.
    + apply andb_true_iff in E as [E1 E2]. apply Nat.eqb_eq in E1. apply Z.eqb_eq in E2. split; [|discriminate].
      intros _. exists c. split; [now left|auto].
    + rewrite IH. split.
      * intros (ci & Hin & H). exists ci. split; [now right|exact H].
      * intros (ci & [<-|Hin] & H1 & H2); [|exists ci; auto]. rewrite H1, H2, Nat.eqb_refl, Z.eqb_refl in E. discriminate.
Qed.

Lemma in_sys_cpus sys ci : In ci (sys_cpus sys) <->
  exists k l ps cs, nth_error sys k = Some (l, ps, cs) /\ ci_loom ci = k /\
    ((ci_virtual ci = true /\ ci_index ci = -1) \/ (ci_virtual ci = false /\ In (ci_index ci) (map fst cs))).
Proof.
  unfold sys_cpus. rewrite in_flat_map. split.
  - intros ([g [[l ps] cs]] & Hg & H). apply mnumber_in in Hg as (k & -> & Hk). exists k, l, ps, cs. split; [exact Hk|].
    apply in_app_or in H as [H|[<-|[]]].
    + apply in_map_iff in H as (c & <- & Hc). cbn. rewrite Nat2Z.id. split; [reflexivity|]. right. split; [reflexivity|]. now apply in_map.
    + cbn. rewrite Nat2Z.id. auto.
  - intros (k & l & ps & cs & Hk & Hl & H). exists (Z.of_nat k, (l, ps, cs)). split; [now apply mnumber_nth|].
    apply in_or_app. destruct ci as [v lo ix]. cbn in *. subst lo. rewrite Nat2Z.id. destruct H as [[-> ->]|[-> H]].
    + right. now left.
    + left. apply in_map_iff in H as (c & <- & Hc). apply in_map_iff. exists c. auto.
Qed.

(* find_cpu on the loom at position k succeeds exactly for the registered indices of that loom, and -1 (its virtual CPU) *)
Theorem find_cpu_of_system sys rankf en ms lint k l ps cs idx : nth_error sys k = Some (l, ps, cs) ->
  (find_cpu (static_of_system sys rankf en ms lint) k idx <> None <-> (In idx (map fst cs) \/ idx = -1)).
Proof.
  intros Hk. unfold find_cpu. cbn [static_of_system s_cpus]. rewrite find_cpu_from_spec. split.
  - intros (ci & Hin & Hl & Hi). apply in_sys_cpus in Hin as (k' & l' & ps' & cs' & Hk' & Hl' & H).
    rewrite Hl in Hl'. subst k'. pose proof (eq_trans (eq_sym Hk) Hk') as E2. injection E2 as <- <- <-. rewrite <- Hi. destruct H as [[_ H]|[_ H]]; auto.
  - intros [H| ->].
    + exists {| ci_virtual := false; ci_loom := k; ci_index := idx |}. split; [|auto]. apply in_sys_cpus. exists k, l, ps, cs. cbn. auto.
    + exists {| ci_virtual := true; ci_loom := k; ci_index := -1 |}. split; [|auto]. apply in_sys_cpus. exists k, l, ps, cs. cbn. auto.
Qed.

(* ------------------------------------------------------------------ A.1: find_remote, for any static description *)
Lemma find_tid_from_spec l p tid : forall k,
  match find_tid_from l p tid k with
  | Some g => exists i ti, g = (k + i)%nat /\ nth_error l i = Some ti /\ p ti = true /\ ti_tid ti = tid /\
                           forall j tj, (j < i)%nat -> nth_error l j = Some tj -> p tj && (ti_tid tj =? tid) = false
  | None => forall ti, In ti l -> p ti && (ti_tid ti =? tid) = false
  end.
Proof.
  induction l as [|t r IH]; intros k; cbn [find_tid_from]; [intros ti []|].
  destruct (p t && (ti_tid t =? tid)) eqn:E.
  - apply andb_true_iff in E as [E1 E2]. apply Z.eqb_eq in E2. exists O, t. split; [lia|]. split; [reflexivity|]. split; [exact E1|]. split; [exact E2|]. intros j tj Hj. lia.
  - specialize (IH (S k)). destruct (find_tid_from r p tid (S k)) as [g|].
    + destruct IH as (i & ti & -> & Hn & Hp & Ht & Hm). exists (S i), ti. split; [lia|]. split; [exact Hn|]. split; [exact Hp|]. split; [exact Ht|].
      intros [|j] tj Hj Hn'; [cbn in Hn'; injection Hn' as <-; exact E|]. apply (Hm j); [lia|exact Hn'].
    + intros ti [<-|Hin]; [exact E|now apply IH].
Qed.

(* find_remote sx who tid: a thread of who's loom with that tid - the first such thread of who's process if there is one,
   else the first of the loom; None exactly when the loom has no thread with that tid *)
Theorem find_remote_spec sx who tid me : nth_error (s_threads sx) who = Some me ->
  match find_remote sx who tid with
  | Some g => exists ti, nth_error (s_threads sx) g = Some ti /\ ti_tid ti = tid /\ ti_loom ti = ti_loom me /\
                ((exists tj, In tj (s_threads sx) /\ ti_loom tj = ti_loom me /\ ti_pid tj = ti_pid me /\ ti_tid tj = tid) -> ti_pid ti = ti_pid me)
  | None => forall ti, In ti (s_threads sx) -> ti_loom ti = ti_loom me -> ti_tid ti <> tid
  end.
Proof.
  intros Hme. unfold find_remote, nth_opt. rewrite Hme.
  pose proof (find_tid_from_spec (s_threads sx) (fun ti => Nat.eqb (ti_loom ti) (ti_loom me) && (ti_pid ti =? ti_pid me)) tid 0) as S1.
  destruct (find_tid_from (s_threads sx) _ tid 0) as [g|].
  - destruct S1 as (i & ti & -> & Hn & Hp & Ht & _). apply andb_true_iff in Hp as [P1 P2]. apply Nat.eqb_eq in P1. apply Z.eqb_eq in P2.
    exists ti. cbn [plus]. split; [exact Hn|]. split; [exact Ht|]. split; [exact P1|]. intros _. exact P2.
  - pose proof (find_tid_from_spec (s_threads sx) (fun ti => Nat.eqb (ti_loom ti) (ti_loom me)) tid 0) as S2.
    destruct (find_tid_from (s_threads sx) _ tid 0) as [g|].
    + destruct S2 as (i & ti & -> & Hn & Hp & Ht & _). apply Nat.eqb_eq in Hp. exists ti. cbn [plus]. split; [exact Hn|]. split; [exact Ht|]. split; [exact Hp|].
      intros (tj & Hj & L & P & T). specialize (S1 tj Hj). rewrite L, P, T, Nat.eqb_refl, !Z.eqb_refl in S1. discriminate.
    + intros ti Hin L T. specialize (S2 ti Hin). rewrite L, T, Nat.eqb_refl, Z.eqb_refl in S2. discriminate.
Qed.

(* ------------------------------------------------------------------ A.3: what the merge guarantees about ids *)
From OV Require Proofs.MetaProofs Proofs.MetaBuildProofs.

Lemma build_positive m sys : MetaDefs.build m = MetaDefs.Ok sys ->
  forall k, In k (MetaDefs.keys m) -> 0 < snd k /\ 0 < snd (fst k).
Proof.
  rewrite MetaProofs.build_raw. destruct (MetaDefs.raw m) as [st| |] eqn:R; cbn [MetaDefs.bind]; try discriminate. intros _ k Hk.
  apply MetaProofs.raw_ok in R as (_ & _ & P & _ & _ & T).
  unfold MetaProofs.cT in T. rewrite MetaProofs.keys_claims in T. apply MetaProofs.cT_ok in T as (_ & _ & Tp).
  split; [now apply Tp|].
  unfold MetaProofs.cP in P. rewrite MetaProofs.proc_claims in P.
  apply (MetaProofs.collect_ok MetaDefs.pkey_dec MetaDefs.valid_proc MetaDefs.no_confl MetaProofs.no_confl_sym MetaProofs.no_confl_irrefl) in P.
  destruct P as (_ & _ & V & _). specialize (V (fst k)). rewrite MetaProofs.map_pkey_keys in V.
  specialize (V (in_map _ _ _ Hk)). unfold MetaDefs.valid_proc in V. now apply Z.ltb_lt in V.
Qed.

Lemma in_sys_threads sys rankf ti : In ti (sys_threads sys rankf) <->
  exists k l ps cs p a ts, nth_error sys k = Some (l, ps, cs) /\ In (p, a, ts) ps /\ In (ti_tid ti) ts /\
    ti = {| ti_tid := ti_tid ti; ti_pid := p; ti_loom := k; ti_appid := a; ti_rank := rankf (l, p) |}.
Proof.
  unfold sys_threads. rewrite in_flat_map. split.
  - intros ([g [[l ps] cs]] & Hg & H). apply mnumber_in in Hg as (k & -> & Hk). apply in_flat_map in H as ([[p a] ts] & Hp & H).
    apply in_map_iff in H as (t & <- & Ht). exists k, l, ps, cs, p, a, ts. cbn. rewrite Nat2Z.id. auto.
  - intros (k & l & ps & cs & p & a & ts & Hk & Hp & Ht & E). exists (Z.of_nat k, (l, ps, cs)). split; [now apply mnumber_nth|].
    apply in_flat_map. exists (p, a, ts). split; [exact Hp|]. apply in_map_iff. exists (ti_tid ti). split; [|exact Ht]. rewrite Nat2Z.id. symmetry. exact E.
Qed.

Lemma in_thread_list sys l p t a : In (l, p, t, a) (MetaDefs.thread_list sys) <-> exists ps cs ts, In (l, ps, cs) sys /\ In (p, a, ts) ps /\ In t ts.
Proof.
  unfold MetaDefs.thread_list. rewrite in_flat_map. split.
  - intros ([[l' ps] cs] & Hs & H). apply in_flat_map in H as ([[p' a'] ts] & Hp & H). apply in_map_iff in H as (t' & E & Ht).
    injection E as -> -> -> ->. exists ps, cs, ts. auto.
  - intros (ps & cs & ts & Hs & Hp & Ht). exists (l, ps, cs). split; [exact Hs|]. apply in_flat_map. exists (p, a, ts). split; [exact Hp|].
    apply in_map_iff. exists t. auto.
Qed.

(* the static description of a one-stream trace, as C02_conformant_accepted wants it, from the metadata the merge accepts:
   the only thread of the built system, its ids, and find_cpu for every CPU index some stream of its loom registers *)
Theorem static_from_metadata m sys rankf en ms lint l pid tid a :
  MetaDefs.build m = MetaDefs.Ok sys -> MetaDefs.thread_list sys = [(l, pid, tid, a)] ->
  let sx := static_of_system sys rankf en ms lint in
  exists ti, s_threads sx = [ti] /\ ti_tid ti = tid /\ ti_pid ti = pid /\ ti_appid ti = a /\ ti_tid ti <> 0 /\ ti_pid ti <> 0 /\
    s_chans sx = mk_chans en ++ mark_chans ms /\ s_lint sx = lint /\
    forall idx ph, In (l, Some (idx, ph)) (MetaDefs.cpu_claims m) -> find_cpu sx (ti_loom ti) idx <> None.
Proof.
  intros B TL sx.
  destruct (static_same_system sys rankf en ms lint) as [S1 _]. fold sx in S1. rewrite TL in S1. cbn [map] in S1.
  destruct (s_threads sx) as [|ti [|ti2 r]] eqn:Eth; cbn [map] in S1; try discriminate. injection S1 as Ea Et.
  assert (Hin : In ti (sys_threads sys rankf)) by (change (sys_threads sys rankf) with (s_threads sx); rewrite Eth; now left).
  apply in_sys_threads in Hin as (k & l' & ps & cs & p & a' & ts & Hk & Hp & Ht & Eti).
  assert (Hl : In (l', p, ti_tid ti, a') (MetaDefs.thread_list sys)).
  { apply in_thread_list. exists ps, cs, ts. split; [eapply nth_error_In; exact Hk|auto]. }
  rewrite TL in Hl. destruct Hl as [E|[]]. injection E as <- <- _ <-.
  destruct (MetaBuildProofs.build_describes m sys B) as (_ & _ & D).
  destruct (D l ps cs (nth_error_In _ _ Hk)) as (Dc & _ & _ & Dt).
  destruct (Dt pid a ts Hp) as (Dk & _).
  assert (Kin : In (l, pid, tid) (MetaDefs.keys m)) by (apply Dk; rewrite <- Et; exact Ht).
  destruct (build_positive m sys B _ Kin) as [Pt Pp]. cbn [fst snd] in Pt, Pp.
  assert (Epid : ti_pid ti = pid) by (rewrite Eti; reflexivity).
  assert (Eloom : ti_loom ti = k) by (rewrite Eti; reflexivity).
  exists ti. split; [reflexivity|]. split; [exact Et|]. split; [exact Epid|]. split; [exact Ea|]. split; [lia|]. split; [lia|].
  split; [reflexivity|]. split; [reflexivity|].
  intros idx ph Hc. rewrite Eloom. apply (find_cpu_of_system sys rankf en ms lint k l ps cs idx Hk). left.
  apply Dc in Hc. now apply (in_map fst) in Hc.
Qed.

(* the same for the metadata a protocol-following program writes (C02_metadata_builds_system) *)
From OV Require Rt.RtMetaDefs Proofs.RtMetaProofs Proofs.RtMetaBuildProofs Emu.VersionDefs.

Theorem static_from_runtime_metadata c tr :
  VersionDefs.version_parse (Some (RtMetaDefs.c_model_version c)) <> None ->
  (forall p, In p tr -> RtMetaDefs.meta_conformant p = true /\ RtMetaDefs.completed (fst (RtMetaDefs.run c p)) = true) ->
  RtMetaDefs.trace_ok tr ->
  exists sys, MetaDefs.build (RtMetaDefs.trace_metas tr) = MetaDefs.Ok sys /\
    forall rankf en ms lint l pid tid a, MetaDefs.thread_list sys = [(l, pid, tid, a)] ->
      let sx := static_of_system sys rankf en ms lint in
      exists ti, s_threads sx = [ti] /\ ti_tid ti = tid /\ ti_pid ti = pid /\ ti_appid ti = a /\ ti_tid ti <> 0 /\ ti_pid ti <> 0 /\
        s_chans sx = mk_chans en ++ mark_chans ms /\ s_lint sx = lint /\
        forall idx ph, In (l, Some (idx, ph)) (MetaDefs.cpu_claims (RtMetaDefs.trace_metas tr)) -> find_cpu sx (ti_loom ti) idx <> None.
Proof.
  intros V P T. destruct (RtMetaBuildProofs.metadata_builds_system c tr V P T) as (_ & sys & B & _).
  exists sys. split; [exact B|]. intros rankf en ms lint l pid tid a TL. now apply static_from_metadata.
Qed.
