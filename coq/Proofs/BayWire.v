(* The wiring built by BayDefs.wire: where each logical channel / mux sits, and that the result is
   a well-formed two-level wiring (Shape) with consistent callback lists (Cbs). *)
From Coq Require Import ZArith List Bool Lia PeanoNat.
From OV Require Import Emu.EmuCoreDefs Emu.BayDefs Proofs.EmitProofs Proofs.BayBasics Proofs.BayMux.
Import ListNotations.
Local Open Scope nat_scope.

(* ---------------------------------------------------------------- uniform blocks *)

Lemma length_concat_map {A} (f : nat -> list A) len : (forall i, length (f i) = len) ->
  forall n s, length (concat (map f (seq s n))) = n * len.
Proof.
  intros Hf. induction n as [|n IH]; intros s; cbn; [reflexivity|]. rewrite app_length, Hf, IH. reflexivity.
Qed.

Lemma nth_error_concat_map {A} (f : nat -> list A) len : (forall i, length (f i) = len) ->
  forall n s t j, t < n -> j < len -> nth_error (concat (map f (seq s n))) (t * len + j) = nth_error (f (s + t)) j.
Proof.
  intros Hf. induction n as [|n IH]; intros s t j Ht Hj; [lia|].
  cbn [seq map concat]. destruct t as [|t].
  - cbn. rewrite nth_error_app1 by (rewrite Hf; exact Hj). rewrite Nat.add_0_r. reflexivity.
  - rewrite nth_error_app2 by (rewrite Hf; cbn; lia). rewrite Hf.
    replace (S t * len + j - len) with (t * len + j) by (cbn; lia).
    rewrite IH by lia. f_equal. f_equal. lia.
Qed.

Lemma decompose m len n : m < n * len -> exists t j, t < n /\ j < len /\ m = t * len + j.
Proof.
  intros H. assert (Hl : len <> 0) by (intros ->; lia).
  exists (m / len), (m mod len). split; [apply Nat.div_lt_upper_bound; [exact Hl|lia]|].
  split; [apply Nat.mod_upper_bound; exact Hl|]. rewrite (Nat.div_mod m len Hl) at 1. lia.
Qed.

Lemma uniq_decomp len t j t' j' : j < len -> j' < len -> t * len + j = t' * len + j' -> t = t' /\ j = j'.
Proof. intros H1 H2 E. assert (t = t') by nia. subst. split; [reflexivity|lia]. Qed.

Lemma NoDup_map_inj' {A B} (f : A -> B) l : (forall a b, f a = f b -> a = b) -> NoDup l -> NoDup (map f l).
Proof.
  intros Hf. induction l as [|x l IH]; intros H; cbn; [constructor|]. inversion H as [|? ? Hx Hl]; subst. constructor.
  - intros Hin. apply in_map_iff in Hin. destruct Hin as (y & E & Hy). apply Hf in E. subst. contradiction.
  - apply IH. exact Hl.
Qed.

(* ---------------------------------------------------------------- logical channels and muxes *)

Inductive lch := CTh (t w : nat) | CRaw (t k : nat) | CTrk (t k : nat) | CCpu (c w : nat) | CCtrk (c k : nat).
Inductive lmx := MTh (t k : nat) | MCpu (c k : nat).

Section Wire.
  Variable sx : static.
  Let T := length (s_threads sx).
  Let C := length (s_cpus sx).
  Let K := length (s_chans sx).
  Let TB := th_block sx.
  Let CB := cpu_block sx.

  Definition cid (l : lch) : nat :=
    match l with
    | CTh t w => ch_th sx t w | CRaw t k => ch_raw sx t k | CTrk t k => ch_trk sx t k
    | CCpu c w => ch_cpu sx c w | CCtrk c k => ch_ctrk sx c k
    end.
  Definition cvalid (l : lch) : Prop :=
    match l with
    | CTh t w => t < T /\ w < 3 | CRaw t k => t < T /\ k < K | CTrk t k => t < T /\ k < K
    | CCpu c w => c < C /\ w < 5 | CCtrk c k => c < C /\ k < K
    end.
  Definition mid (l : lmx) : nat := match l with MTh t k => mx_th sx t k | MCpu c k => mx_cpu sx c k end.
  Definition mvalid (l : lmx) : Prop := match l with MTh t k => t < T /\ k < K | MCpu c k => c < C /\ k < K end.

  (* offset inside the block *)
  Definition coff (l : lch) : nat :=
    match l with CTh _ w => w | CRaw _ k => 3 + k | CTrk _ k => 3 + K + k | CCpu _ w => w | CCtrk _ k => 5 + k end.
  Definition cblk (l : lch) : nat := match l with CTh t _ | CRaw t _ | CTrk t _ => t | CCpu c _ | CCtrk c _ => c end.
  Definition is_cpu (l : lch) : bool := match l with CCpu _ _ | CCtrk _ _ => true | _ => false end.

  Lemma cid_form l : cid l = if is_cpu l then T * TB + cblk l * CB + coff l else cblk l * TB + coff l.
  Proof. destruct l; unfold cid, is_cpu, cblk, coff, ch_th, ch_raw, ch_trk, ch_cpu, ch_ctrk, TB, CB, T, K; lia. Qed.

  Lemma coff_lt l : cvalid l -> coff l < (if is_cpu l then CB else TB).
  Proof. destruct l; cbn; unfold TB, CB, th_block, cpu_block; fold K; intros [H1 H2]; lia. Qed.

  Lemma cblk_lt l : cvalid l -> cblk l < (if is_cpu l then C else T).
  Proof. destruct l; cbn; intros [H1 H2]; exact H1. Qed.

  Definition nchans : nat := T * TB + C * CB.

  Lemma cid_lt l : cvalid l -> cid l < nchans.
  Proof.
    intros H. rewrite cid_form. pose proof (coff_lt l H). pose proof (cblk_lt l H). unfold nchans.
    destruct (is_cpu l); nia.
  Qed.

  Lemma coff_inj l l' : is_cpu l = is_cpu l' -> cvalid l -> cvalid l' -> cblk l = cblk l' -> coff l = coff l' -> l = l'.
  Proof.
    destruct l, l'; cbn; try discriminate; intros _ [A1 A2] [B1 B2] E1 E2; subst; try (f_equal; lia); lia.
  Qed.

  Lemma cid_inj l l' : cvalid l -> cvalid l' -> cid l = cid l' -> l = l'.
  Proof.
    intros V V' E. rewrite !cid_form in E.
    pose proof (coff_lt l V) as O1. pose proof (coff_lt l' V') as O2.
    pose proof (cblk_lt l V) as B1. pose proof (cblk_lt l' V') as B2.
    destruct (is_cpu l) eqn:I1, (is_cpu l') eqn:I2.
    - assert (E' : cblk l * CB + coff l = cblk l' * CB + coff l') by lia.
      destruct (uniq_decomp CB _ _ _ _ O1 O2 E') as [X Y]. apply coff_inj; congruence.
    - exfalso. nia.
    - exfalso. nia.
    - destruct (uniq_decomp TB _ _ _ _ O1 O2 E) as [X Y]. apply coff_inj; congruence.
  Qed.

  (* every channel index is some logical channel *)
  Lemma off_th j : j < TB -> forall t, t < T -> exists l, cvalid l /\ is_cpu l = false /\ cblk l = t /\ coff l = j.
  Proof.
    intros Hj t Ht. unfold TB, th_block in Hj. fold K in Hj.
    destruct (Nat.lt_ge_cases j 3) as [H|H]; [exists (CTh t j); cbn; auto|].
    destruct (Nat.lt_ge_cases j (3 + K)) as [H'|H'].
    - exists (CRaw t (j - 3)). cbn. repeat split; lia.
    - exists (CTrk t (j - 3 - K)). cbn. repeat split; lia.
  Qed.

  Lemma off_cpu j : j < CB -> forall c, c < C -> exists l, cvalid l /\ is_cpu l = true /\ cblk l = c /\ coff l = j.
  Proof.
    intros Hj c Hc. unfold CB, cpu_block in Hj. fold K in Hj.
    destruct (Nat.lt_ge_cases j 5) as [H|H]; [exists (CCpu c j); cbn; auto|].
    exists (CCtrk c (j - 5)). cbn. repeat split; lia.
  Qed.

  Lemma cid_cover n : n < nchans -> exists l, cvalid l /\ cid l = n.
  Proof.
    intros H. unfold nchans in H. destruct (Nat.lt_ge_cases n (T * TB)) as [H1|H1].
    - destruct (decompose n TB T H1) as (t & j & Ht & Hj & ->).
      destruct (off_th j Hj t Ht) as (l & V & I & Bk & O). exists l. split; [exact V|]. rewrite cid_form, I, Bk, O. reflexivity.
    - assert (H2 : n - T * TB < C * CB) by lia.
      destruct (decompose _ CB C H2) as (c & j & Hc & Hj & E).
      destruct (off_cpu j Hj c Hc) as (l & V & I & Bk & O). exists l. split; [exact V|]. rewrite cid_form, I, Bk, O. lia.
  Qed.

  (* ---- the contents of the wire at each logical channel *)
  Definition wchan (l : lch) : chan :=
    match l with
    | CTh _ 1 => mk_chan false false false true
    | CTh _ _ => mk_chan false false false false
    | CRaw _ k => let sp := spec_of sx k in mk_chan (cs_stack sp) false (cs_dup sp) false
    | CTrk _ k => let sp := spec_of sx k in mk_chan false (tracked sp) (tracked sp) false
    | CCpu _ _ => mk_chan false false false true
    | CCtrk _ _ => mk_chan false true true false
    end.
  Definition wdcbs (l : lch) : list dcb :=
    match l with
    | CTh t 2 => flat_map (fun k => if tracked (spec_of sx k) then [DSelect (mx_th sx t k)] else []) (seq 0 K)
    | CCpu c 3 => map (fun k => DSelect (mx_cpu sx c k)) (seq 0 K)
    | _ => []
    end.
  Definition wecbs (l : lch) : list ecb :=
    match l with
    | CTh t w => if Nat.ltb w 3 then [ecb_of sx (STh t w)] else []
    | CRaw t k => if tracked (spec_of sx k) then [] else [ecb_of sx (STr t k)]
    | CTrk t k => if tracked (spec_of sx k) then [ecb_of sx (STr t k)] else []
    | CCpu c 0 => [ecb_of sx (SCpu c 2)]
    | CCpu c 1 => [ecb_of sx (SCpu c 1)]
    | CCpu c 2 => [ecb_of sx (SCpu c 0)]
    | CCpu c _ => []
    | CCtrk c k => [ecb_of sx (SCr c k)]
    end.

  Lemma len_thread_chans : length (thread_chans sx) = TB.
  Proof. unfold thread_chans. cbn [app length]. rewrite app_length, !map_length. unfold TB, th_block. lia. Qed.
  Lemma len_cpu_chans : length (cpu_chans sx) = CB.
  Proof. unfold cpu_chans. rewrite app_length, repeat_length, map_length. reflexivity. Qed.
  Lemma len_thread_dcbs t : length (thread_dcbs sx t) = TB.
  Proof. unfold thread_dcbs. cbn [app length]. rewrite app_length, !map_length. unfold TB, th_block. lia. Qed.
  Lemma len_cpu_dcbs c : length (cpu_dcbs sx c) = CB.
  Proof. unfold cpu_dcbs. cbn [app length]. rewrite map_length. reflexivity. Qed.
  Lemma len_thread_ecbs t : length (thread_ecbs sx t) = TB.
  Proof. unfold thread_ecbs. cbn [app length]. rewrite app_length, !map_length. unfold seqK. rewrite seq_length. unfold TB, th_block. lia. Qed.
  Lemma len_cpu_ecbs c : length (cpu_ecbs sx c) = CB.
  Proof. unfold cpu_ecbs. cbn [app length]. rewrite map_length. unfold seqK. rewrite seq_length. reflexivity. Qed.

  (* index into a two-part concat at a logical channel *)
  Lemma nth_two {A} (f g : nat -> list A) l :
    (forall i, length (f i) = TB) -> (forall i, length (g i) = CB) -> cvalid l ->
    nth_error (concat (map f (seq 0 T)) ++ concat (map g (seq 0 C))) (cid l) =
    if is_cpu l then nth_error (g (cblk l)) (coff l) else nth_error (f (cblk l)) (coff l).
  Proof.
    intros Hf Hg V. rewrite cid_form. pose proof (coff_lt l V) as O. pose proof (cblk_lt l V) as Bk.
    destruct (is_cpu l).
    - rewrite nth_error_app2 by (rewrite (length_concat_map f TB Hf); lia).
      rewrite (length_concat_map f TB Hf).
      replace (T * TB + cblk l * CB + coff l - T * TB) with (cblk l * CB + coff l) by lia.
      rewrite (nth_error_concat_map g CB Hg C 0 _ _ Bk O). reflexivity.
    - rewrite nth_error_app1 by (rewrite (length_concat_map f TB Hf); nia).
      rewrite (nth_error_concat_map f TB Hf T 0 _ _ Bk O). reflexivity.
  Qed.

  Lemma nth_error_map_seq {A} (f : nat -> A) n k : k < n -> nth_error (map f (seq 0 n)) k = Some (f k).
  Proof. intros H. rewrite (map_nth_error f k (seq 0 n) (d:=k)); [reflexivity|]. rewrite nth_error_nth' with (d := 0) by (rewrite seq_length; exact H). rewrite seq_nth by exact H. reflexivity. Qed.

  Lemma nth_error_map_chans {A} (f : chanspec -> A) k : k < K -> nth_error (map f (s_chans sx)) k = Some (f (spec_of sx k)).
  Proof.
    intros H. unfold spec_of. destruct (nth_error (s_chans sx) k) as [sp|] eqn:E.
    - rewrite (map_nth_error f k _ E). f_equal. f_equal. symmetry. apply nth_error_nth. exact E.
    - apply nth_error_None in E. fold K in E. lia.
  Qed.

  Lemma wire_chan l : cvalid l -> chan_at (wire sx) (cid l) = Some (wchan l).
  Proof.
    intros V. unfold chan_at, wire. cbn [b_chans]. fold T C.
    rewrite (nth_two (fun _ => thread_chans sx) (fun _ => cpu_chans sx) l (fun _ => len_thread_chans) (fun _ => len_cpu_chans) V).
    destruct l as [t w|t k|t k|c w|c k]; cbn [is_cpu cblk coff wchan]; destruct V as [V1 V2].
    - unfold thread_chans. destruct w as [|[|[|w]]]; try lia; reflexivity.
    - unfold thread_chans. rewrite nth_error_app2 by (cbn; lia). cbn [length]. replace (3 + k - 3) with k by lia.
      rewrite nth_error_app1 by (rewrite map_length; exact V2). apply nth_error_map_chans. exact V2.
    - unfold thread_chans. rewrite nth_error_app2 by (cbn; lia). cbn [length]. replace (3 + K + k - 3) with (K + k) by lia.
      rewrite nth_error_app2 by (rewrite map_length; fold K; lia). rewrite map_length. fold K. replace (K + k - K) with k by lia.
      apply nth_error_map_chans. exact V2.
    - unfold cpu_chans. rewrite nth_error_app1 by (rewrite repeat_length; exact V2).
      destruct w as [|[|[|[|[|w]]]]]; try lia; reflexivity.
    - unfold cpu_chans. rewrite nth_error_app2 by (rewrite repeat_length; lia). rewrite repeat_length. replace (5 + k - 5) with k by lia.
      rewrite (nth_error_map_chans (fun _ => mk_chan false true true false) k V2). reflexivity.
  Qed.

  Lemma wire_dcbs l : cvalid l -> dcbs_of (wire sx) (cid l) = wdcbs l.
  Proof.
    intros V. unfold dcbs_of, wire. cbn [b_dcbs]. rewrite nth_nth_error. fold T C.
    rewrite (nth_two (thread_dcbs sx) (cpu_dcbs sx) l len_thread_dcbs len_cpu_dcbs V).
    destruct l as [t w|t k|t k|c w|c k]; cbn [is_cpu cblk coff wdcbs]; destruct V as [V1 V2].
    - unfold thread_dcbs. destruct w as [|[|[|w]]]; try lia; reflexivity.
    - unfold thread_dcbs. rewrite nth_error_app2 by (cbn; lia). cbn [length]. replace (3 + k - 3) with k by lia.
      rewrite nth_error_app1 by (rewrite map_length; exact V2). rewrite (nth_error_map_chans (fun _ => @nil dcb) k V2). reflexivity.
    - unfold thread_dcbs. rewrite nth_error_app2 by (cbn; lia). cbn [length]. replace (3 + K + k - 3) with (K + k) by lia.
      rewrite nth_error_app2 by (rewrite map_length; fold K; lia). rewrite map_length. fold K. replace (K + k - K) with k by lia.
      rewrite (nth_error_map_chans (fun _ => @nil dcb) k V2). reflexivity.
    - unfold cpu_dcbs. destruct w as [|[|[|[|[|w]]]]]; try lia; reflexivity.
    - unfold cpu_dcbs. rewrite nth_error_app2 by (cbn; lia). cbn [length]. replace (5 + k - 5) with k by lia.
      rewrite (nth_error_map_chans (fun _ => @nil dcb) k V2). reflexivity.
  Qed.

  Lemma wire_ecbs l : cvalid l -> ecbs_of (wire sx) (cid l) = wecbs l.
  Proof.
    intros V. unfold ecbs_of, wire. cbn [b_ecbs]. rewrite nth_nth_error. fold T C.
    rewrite (nth_two (thread_ecbs sx) (cpu_ecbs sx) l len_thread_ecbs len_cpu_ecbs V).
    destruct l as [t w|t k|t k|c w|c k]; cbn [is_cpu cblk coff wecbs]; destruct V as [V1 V2].
    - unfold thread_ecbs. destruct w as [|[|[|w]]]; try lia; reflexivity.
    - unfold thread_ecbs, seqK. fold K. rewrite nth_error_app2 by (cbn; lia). cbn [length]. replace (3 + k - 3) with k by lia.
      rewrite nth_error_app1 by (rewrite map_length, seq_length; exact V2). rewrite nth_error_map_seq by exact V2. reflexivity.
    - unfold thread_ecbs, seqK. fold K. rewrite nth_error_app2 by (cbn; lia). cbn [length]. replace (3 + K + k - 3) with (K + k) by lia.
      rewrite nth_error_app2 by (rewrite map_length, seq_length; lia). rewrite map_length, seq_length. replace (K + k - K) with k by lia.
      rewrite nth_error_map_seq by exact V2. reflexivity.
    - unfold cpu_ecbs. destruct w as [|[|[|[|[|w]]]]]; try lia; reflexivity.
    - unfold cpu_ecbs, seqK. fold K. rewrite nth_error_app2 by (cbn; lia). cbn [length]. replace (5 + k - 5) with k by lia.
      rewrite nth_error_map_seq by exact V2. reflexivity.
  Qed.

  Lemma len_wire_chans : length (b_chans (wire sx)) = nchans.
  Proof.
    unfold wire. cbn [b_chans]. fold T C. rewrite app_length.
    rewrite (length_concat_map (fun _ => thread_chans sx) TB (fun _ => len_thread_chans)).
    rewrite (length_concat_map (fun _ => cpu_chans sx) CB (fun _ => len_cpu_chans)). reflexivity.
  Qed.
  Lemma len_wire_dcbs : length (b_dcbs (wire sx)) = nchans.
  Proof.
    unfold wire. cbn [b_dcbs]. fold T C. rewrite app_length.
    rewrite (length_concat_map (thread_dcbs sx) TB len_thread_dcbs), (length_concat_map (cpu_dcbs sx) CB len_cpu_dcbs). reflexivity.
  Qed.

  (* ---- muxes *)
  Definition wmux (l : lmx) : mux := match l with MTh t k => thread_mux sx t k | MCpu c k => cpu_mux sx c k end.

  Lemma len_mux_blk (f : nat -> nat -> mux) i : length (map (f i) (seq 0 K)) = K.
  Proof. rewrite map_length, seq_length. reflexivity. Qed.

  Definition nmuxes : nat := T * K + C * K.

  Lemma wire_muxes_eq : b_muxes (wire sx) =
    concat (map (fun t => map (thread_mux sx t) (seq 0 K)) (seq 0 T)) ++ concat (map (fun c => map (cpu_mux sx c) (seq 0 K)) (seq 0 C)).
  Proof. unfold wire. cbn [b_muxes]. rewrite !flat_map_concat_map. reflexivity. Qed.

  Lemma wire_mux l : mvalid l -> mux_at (wire sx) (mid l) = Some (wmux l).
  Proof.
    intros V. unfold mux_at. rewrite wire_muxes_eq. destruct l as [t k|c k]; destruct V as [V1 V2]; cbn [mid wmux].
    - unfold mx_th. fold K. rewrite nth_error_app1.
      + rewrite (nth_error_concat_map _ K (len_mux_blk (thread_mux sx)) T 0 t k V1 V2). cbn. apply nth_error_map_seq. exact V2.
      + rewrite (length_concat_map _ K (len_mux_blk (thread_mux sx))). nia.
    - unfold mx_cpu. fold T K. rewrite nth_error_app2 by (rewrite (length_concat_map _ K (len_mux_blk (thread_mux sx))); lia).
      rewrite (length_concat_map _ K (len_mux_blk (thread_mux sx))). replace (T * K + c * K + k - T * K) with (c * K + k) by lia.
      rewrite (nth_error_concat_map _ K (len_mux_blk (cpu_mux sx)) C 0 c k V1 V2). cbn. apply nth_error_map_seq. exact V2.
  Qed.

  Lemma len_wire_muxes : length (b_muxes (wire sx)) = nmuxes.
  Proof.
    rewrite wire_muxes_eq, app_length, (length_concat_map _ K (len_mux_blk (thread_mux sx))), (length_concat_map _ K (len_mux_blk (cpu_mux sx))). reflexivity.
  Qed.

  Lemma mid_cover m : m < nmuxes -> exists l, mvalid l /\ mid l = m.
  Proof.
    intros H. unfold nmuxes in H. destruct (Nat.lt_ge_cases m (T * K)) as [H1|H1].
    - destruct (decompose m K T H1) as (t & k & Ht & Hk & ->). exists (MTh t k). cbn. unfold mx_th. fold K. auto.
    - assert (H2 : m - T * K < C * K) by lia. destruct (decompose _ K C H2) as (c & k & Hc & Hk & E).
      exists (MCpu c k). cbn. unfold mx_cpu. fold T K. split; [auto|lia].
  Qed.

  Lemma mid_inj l l' : mvalid l -> mvalid l' -> mid l = mid l' -> l = l'.
  Proof.
    destruct l as [t k|c k], l' as [t' k'|c' k']; cbn; unfold mx_th, mx_cpu; fold T K; intros [A1 A2] [B1 B2] E.
    - destruct (uniq_decomp K _ _ _ _ A2 B2 E). subst. reflexivity.
    - exfalso. nia.
    - exfalso. nia.
    - assert (E' : c * K + k = c' * K + k') by lia. destruct (uniq_decomp K _ _ _ _ A2 B2 E'). subst. reflexivity.
  Qed.

  Lemma wire_imux m mx : imux (wire sx) m mx -> exists l, mvalid l /\ mid l = m /\ mx = wmux l.
  Proof.
    intros [H1 H2]. assert (Hlt : m < nmuxes) by (rewrite <- len_wire_muxes; apply (nth_error_Some_lt _ _ mx); exact H1).
    destruct (mid_cover m Hlt) as (l & V & E). exists l. split; [exact V|]. split; [exact E|].
    rewrite <- E, (wire_mux l V) in H1. inversion H1. reflexivity.
  Qed.

  (* outputs *)
  Definition mout (l : lmx) : lch := match l with MTh t k => CTrk t k | MCpu c k => CCtrk c k end.
  Definition msel (l : lmx) : lch := match l with MTh t _ => CTh t 2 | MCpu c _ => CCpu c 3 end.

  Lemma wmux_out l : mx_out (wmux l) = cid (mout l). Proof. destruct l; reflexivity. Qed.
  Lemma wmux_sel l : mx_sel (wmux l) = cid (msel l). Proof. destruct l; reflexivity. Qed.
  Lemma mout_valid l : mvalid l -> cvalid (mout l). Proof. destruct l; cbn; tauto. Qed.
  Lemma msel_valid l : mvalid l -> cvalid (msel l). Proof. destruct l; unfold cvalid, mvalid, msel; intros [A B]; split; try assumption; lia. Qed.

  Lemma wmux_ins l j c : mvalid l -> nth_error (mx_ins (wmux l)) j = Some c ->
    exists t k, c = cid (CRaw t k) /\ cvalid (CRaw t k) /\ (match l with MTh t' k' => t = t' /\ k = k' /\ j = 0 | MCpu _ k' => k = k' /\ j = t end).
  Proof.
    destruct l as [t k|c0 k]; intros [V1 V2] H; cbn [wmux thread_mux cpu_mux mx_ins] in H.
    - destruct j as [|j]; cbn in H; [|destruct j; discriminate]. inversion H. exists t, k. cbn. auto.
    - fold T in H. assert (Hj : j < T).
      { apply nth_error_Some_lt in H. rewrite map_length, seq_length in H. exact H. }
      rewrite nth_error_map_seq in H by exact Hj. inversion H. exists j, k. cbn. auto.
  Qed.

  Lemma is_out_wire c : is_out (wire sx) c -> exists l, mvalid l /\ c = cid (mout l).
  Proof.
    intros (m & mx & Hi & Ho). destruct (wire_imux m mx Hi) as (l & V & _ & ->). exists l. split; [exact V|]. rewrite <- Ho. apply wmux_out.
  Qed.

  Lemma not_out l : cvalid l -> (match l with CTrk _ _ | CCtrk _ _ => False | _ => True end) -> ~ is_out (wire sx) (cid l).
  Proof.
    intros V Hk Ho. destruct (is_out_wire _ Ho) as (lm & Vm & E). apply cid_inj in E; [|exact V|apply mout_valid; exact Vm].
    subst l. destruct lm; exact Hk.
  Qed.

  Hypothesis Tpos : 0 < T.

  Theorem wire_shape : Shape (wire sx).
  Proof.
    constructor.
    - rewrite len_wire_dcbs, len_wire_chans. reflexivity.
    - intros m mx Hi. destruct (wire_imux m mx Hi) as (l & V & _ & ->). rewrite wmux_sel, len_wire_chans.
      split; [apply cid_lt; apply msel_valid; exact V|]. apply not_out; [apply msel_valid; exact V|destruct l; exact I].
    - intros m mx Hi. destruct (wire_imux m mx Hi) as (l & V & _ & ->). rewrite wmux_out.
      exists (wchan (mout l)). split; [apply wire_chan; apply mout_valid; exact V|].
      destruct Hi as [_ Hinit]. destruct l as [t k|c k]; cbn [mout wchan]; unfold out_props; cbn.
      + cbn in Hinit. rewrite Hinit. auto.
      + auto.
    - intros m mx i c Hi Hn. destruct (wire_imux m mx Hi) as (l & V & _ & ->).
      destruct (wmux_ins l i c V Hn) as (t & k & -> & Vr & _). rewrite len_wire_chans.
      split; [apply cid_lt; exact Vr|apply not_out; [exact Vr|exact I]].
    - intros m mx Hi. destruct (wire_imux m mx Hi) as (l & V & _ & ->). destruct l; cbn; [reflexivity|rewrite !map_length; reflexivity].
    - intros m mx Hi. destruct (wire_imux m mx Hi) as (l & V & _ & ->). destruct l as [t k|c k]; cbn.
      + constructor; [intros []|constructor].
      + apply NoDup_map_inj'; [|apply seq_NoDup].
        intros a b E. unfold ch_raw in E. fold K in E. assert (a * th_block sx = b * th_block sx) by lia.
        unfold th_block in H. nia.
    - intros m m' mx mx' Hi Hi' E. destruct (wire_imux m mx Hi) as (l & V & <- & ->). destruct (wire_imux m' mx' Hi') as (l' & V' & <- & ->).
      rewrite !wmux_out in E. apply cid_inj in E; [|apply mout_valid; exact V|apply mout_valid; exact V'].
      f_equal. destruct l, l'; cbn in E; inversion E; reflexivity.
    - intros m m' mx mx' i Hi Hi' E. destruct (wire_imux m mx Hi) as (l & V & _ & ->). destruct (wire_imux m' mx' Hi') as (l' & V' & _ & ->).
      destruct (wmux_ins l' i _ V' E) as (t & k & E2 & Vr & _). rewrite wmux_sel in E2.
      apply cid_inj in E2; [|apply msel_valid; exact V|exact Vr]. destruct l; discriminate.
  Qed.

  Lemma dcbs_of_out_of_range (b : bay) c : length (b_dcbs b) <= c -> dcbs_of b c = [].
  Proof. intros H. unfold dcbs_of. apply nth_overflow. exact H. Qed.

  Lemma in_wdcbs l d : cvalid l -> In d (wdcbs l) ->
    exists lm, mvalid lm /\ d = DSelect (mid lm) /\ msel lm = l /\ mx_init (wmux lm) = true.
  Proof.
    intros V H. destruct l as [t w|t k|t k|c w|c k]; try (destruct H; fail).
    - destruct w as [|[|[|w]]]; try (destruct H; fail). cbn [wdcbs] in H. apply in_flat_map in H. destruct H as (k & Hk & Hd).
      apply in_seq in Hk. destruct (tracked (spec_of sx k)) eqn:Et; [|destruct Hd]. destruct Hd as [<-|[]].
      exists (MTh t k). cbn. destruct V as [V1 _]. repeat split; try assumption; lia.
    - destruct w as [|[|[|[|w]]]]; try (destruct H; fail). cbn [wdcbs] in H. apply in_map_iff in H. destruct H as (k & <- & Hk).
      apply in_seq in Hk. exists (MCpu c k). cbn. destruct V as [V1 _]. repeat split; try assumption; lia.
  Qed.

  Theorem wire_cbs : Cbs (wire sx).
  Proof.
    assert (Hnoin : forall c m i, ~ In (DInput m i) (dcbs_of (wire sx) c)).
    { intros c m i H. destruct (Nat.lt_ge_cases c nchans) as [Hc|Hc].
      - destruct (cid_cover c Hc) as (l & V & <-). rewrite (wire_dcbs l V) in H.
        destruct (in_wdcbs l _ V H) as (lm & _ & E & _). discriminate.
      - rewrite dcbs_of_out_of_range in H by (rewrite len_wire_dcbs; exact Hc). destruct H. }
    assert (Hnoen : forall m mx i, imux (wire sx) m mx -> ~ en_at mx i).
    { intros m mx i Hi He. destruct (wire_imux m mx Hi) as (l & V & _ & ->). unfold en_at in He. destruct l as [t k|c k]; cbn in He.
      - destruct i as [|[|i]]; discriminate.
      - fold T in He. destruct (Nat.lt_ge_cases i T) as [Hl|Hl].
        + rewrite nth_error_map_seq in He by exact Hl. discriminate.
        + assert (X : nth_error (map (fun _ : nat => false) (seq 0 T)) i = None) by (apply nth_error_None; rewrite map_length, seq_length; exact Hl).
          rewrite X in He. discriminate. }
    constructor.
    - intros c m. split.
      + intros H. destruct (Nat.lt_ge_cases c nchans) as [Hc|Hc].
        * destruct (cid_cover c Hc) as (l & V & <-). rewrite (wire_dcbs l V) in H.
          destruct (in_wdcbs l _ V H) as (lm & Vm & E & Es & Ei). inversion E; subst m.
          exists (wmux lm). split; [split; [apply wire_mux; exact Vm|exact Ei]|]. rewrite wmux_sel, Es. reflexivity.
        * rewrite dcbs_of_out_of_range in H by (rewrite len_wire_dcbs; exact Hc). destruct H.
      + intros (mx & Hi & Hs). destruct (wire_imux m mx Hi) as (l & V & <- & ->). rewrite wmux_sel in Hs. subst c.
        rewrite (wire_dcbs _ (msel_valid l V)). destruct Hi as [_ Hinit]. destruct l as [t k|c k]; cbn [msel wdcbs mid]; destruct V as [V1 V2].
        * apply in_flat_map. exists k. split; [apply in_seq; fold K; lia|]. cbn in Hinit. rewrite Hinit. left. reflexivity.
        * apply in_map_iff. exists k. split; [reflexivity|apply in_seq; fold K; lia].
    - intros c m i. split; [intros H; exfalso; apply (Hnoin c m i H)|].
      intros (mx & Hi & _ & He). exfalso. apply (Hnoen m mx i Hi He).
    - intros c m H. destruct (Nat.lt_ge_cases c nchans) as [Hc|Hc].
      + destruct (cid_cover c Hc) as (l & V & <-). rewrite (wire_dcbs l V) in H.
        destruct (in_wdcbs l _ V H) as (lm & _ & E & _). discriminate.
      + rewrite dcbs_of_out_of_range in H by (rewrite len_wire_dcbs; exact Hc). destruct H.
    - intros c. destruct (Nat.lt_ge_cases c nchans) as [Hc|Hc].
      + destruct (cid_cover c Hc) as (l & V & <-). rewrite (wire_dcbs l V).
        destruct l as [t w|t k|t k|c0 w|c0 k]; try constructor.
        * destruct w as [|[|[|w]]]; try constructor. cbn [wdcbs].
          assert (G : forall n s, NoDup (flat_map (fun k => if tracked (spec_of sx k) then [DSelect (mx_th sx t k)] else []) (seq s n)) /\
                                  forall d, In d (flat_map (fun k => if tracked (spec_of sx k) then [DSelect (mx_th sx t k)] else []) (seq s n)) -> exists k, s <= k /\ d = DSelect (mx_th sx t k)).
          { induction n as [|n IH]; intros s; cbn; [split; [constructor|intros d []]|].
            destruct (IH (S s)) as [N1 N2]. destruct (tracked (spec_of sx s)); cbn.
            - split.
              + constructor; [|exact N1]. intros H. destruct (N2 _ H) as (k & Hk & E). inversion E. unfold mx_th in *. lia.
              + intros d [<-|H]; [exists s; auto|]. destruct (N2 d H) as (k & Hk & E). exists k. split; [lia|exact E].
            - split; [exact N1|]. intros d H. destruct (N2 d H) as (k & Hk & E). exists k. split; [lia|exact E]. }
          apply G.
        * destruct w as [|[|[|[|w]]]]; try constructor. cbn [wdcbs].
          apply NoDup_map_inj'; [|apply seq_NoDup]. intros a b E. inversion E. unfold mx_cpu in *. lia.
      + rewrite dcbs_of_out_of_range by (rewrite len_wire_dcbs; exact Hc). constructor.
    - intros m mx i Hi He. exfalso. apply (Hnoen m mx i Hi He).
    - intros m mx i Hi Hs. destruct (wire_imux m mx Hi) as (l & V & _ & ->). destruct l as [t k|c k]; cbn in *.
      + inversion Hs. lia.
      + inversion Hs. rewrite map_length, seq_length. exact Tpos.
  Qed.
End Wire.
