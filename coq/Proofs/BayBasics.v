(* Basic facts about the mechanical layer (coq/Emu/BayDefs.v): list updates, the static skeleton
   of a bay (what no operation changes), and what each channel operation does. *)
From Coq Require Import ZArith List Bool Lia PeanoNat.
From OV Require Import Emu.EmuCoreDefs Emu.BayDefs Proofs.EmitProofs.
Import ListNotations.
Local Open Scope nat_scope.

(* ---------------------------------------------------------------- lists *)

Lemma nth_error_update_same {A} (l : list A) n x : n < length l -> nth_error (update l n x) n = Some x.
Proof. revert n. induction l as [|a l IH]; intros [|n] H; cbn in *; try lia; auto. apply IH. lia. Qed.

Lemma nth_error_update_other {A} (l : list A) n m x : n <> m -> nth_error (update l n x) m = nth_error l m.
Proof. revert n m. induction l as [|a l IH]; intros [|n] [|m] H; cbn; auto; try congruence. Qed.

Lemma length_update {A} (l : list A) n x : length (update l n x) = length l.
Proof. revert n. induction l as [|a l IH]; intros [|n]; cbn; auto. Qed.

Lemma nth_error_Some_lt {A} (l : list A) n x : nth_error l n = Some x -> n < length l.
Proof. intros H. apply nth_error_Some. congruence. Qed.

Lemma nth_nth_error {A} (l : list A) n d : nth n l d = match nth_error l n with Some x => x | None => d end.
Proof. revert n. induction l as [|a l IH]; intros [|n]; cbn; auto. Qed.

Lemma map_update' {A B} (f : A -> B) (l : list A) n x : f x = match nth_error l n with Some y => f y | None => f x end ->
  map f (update l n x) = map f l.
Proof.
  revert n. induction l as [|a l IH]; intros [|n] H; cbn in *; auto.
  - rewrite H. reflexivity.
  - rewrite IH; auto.
Qed.

Lemma nth_error_map_inv {A B} (f : A -> B) (l : list A) n y :
  nth_error (map f l) n = Some y -> exists x, nth_error l n = Some x /\ f x = y.
Proof.
  revert n. induction l as [|a l IH]; intros [|n] H; cbn in *; try discriminate.
  - inversion H. eauto.
  - eauto.
Qed.

(* ---------------------------------------------------------------- accessors *)

Definition chan_at (b : bay) (c : nat) : option chan := nth_error (b_chans b) c.
Definition mux_at (b : bay) (m : nat) : option mux := nth_error (b_muxes b) m.
Definition imux (b : bay) (m : nat) (mx : mux) : Prop := mux_at b m = Some mx /\ mx_init mx = true.
Definition is_out (b : bay) (c : nat) : Prop := exists m mx, imux b m mx /\ mx_out mx = c.
Definition en_at (mx : mux) (i : nat) : Prop := nth_error (mx_en mx) i = Some true.

(* ---------------------------------------------------------------- the static skeleton *)

Definition cprops (ch : chan) : bool * bool * bool * bool := (c_stack ch, c_dw ch, c_allow ch, c_ign ch).
Definition mstat (mx : mux) := (mx_init mx, mx_sel mx, mx_out mx, mx_fun mx, mx_def mx, mx_ins mx, length (mx_en mx)).
Definition skel (b : bay) :=
  (map cprops (b_chans b), b_ecbs b, map mstat (b_muxes b), length (b_dcbs b)).

Lemma skel_chan b b' c ch' : skel b' = skel b -> chan_at b' c = Some ch' ->
  exists ch, chan_at b c = Some ch /\ cprops ch = cprops ch'.
Proof.
  unfold skel, chan_at. intros H Hc. inversion H as [[H1 H2 H3 H4]].
  assert (E : nth_error (map cprops (b_chans b')) c = Some (cprops ch')) by (apply map_nth_error; exact Hc).
  rewrite H1 in E. apply nth_error_map_inv in E. destruct E as (ch & E1 & E2). eauto.
Qed.

Lemma skel_mux b b' m mx' : skel b' = skel b -> mux_at b' m = Some mx' ->
  exists mx, mux_at b m = Some mx /\ mstat mx = mstat mx'.
Proof.
  unfold skel, mux_at. intros H Hc. inversion H as [[H1 H2 H3 H4]].
  assert (E : nth_error (map mstat (b_muxes b')) m = Some (mstat mx')) by (apply map_nth_error; exact Hc).
  rewrite H3 in E. apply nth_error_map_inv in E. destruct E as (mx & E1 & E2). eauto.
Qed.

Lemma skel_len_chans b b' : skel b' = skel b -> length (b_chans b') = length (b_chans b).
Proof. unfold skel. intros H. inversion H as [[H1 H2 H3 H4]]. rewrite <- (map_length cprops), H1, map_length. reflexivity. Qed.

Lemma skel_ecbs b b' : skel b' = skel b -> b_ecbs b' = b_ecbs b.
Proof. unfold skel. intros H. inversion H. reflexivity. Qed.

Lemma skel_set_chan b c ch ch0 : chan_at b c = Some ch0 -> cprops ch = cprops ch0 -> skel (set_chan b c ch) = skel b.
Proof.
  intros H E. unfold skel, set_chan. cbn [b_chans b_ecbs b_muxes b_dcbs]. f_equal. f_equal. f_equal.
  apply map_update'. unfold chan_at in H. rewrite H. exact E.
Qed.

Lemma skel_set_mux b m mx mx0 : mux_at b m = Some mx0 -> mstat mx = mstat mx0 -> skel (set_mux b m mx) = skel b.
Proof.
  intros H E. unfold skel, set_mux. cbn [b_chans b_ecbs b_muxes b_dcbs]. f_equal. f_equal.
  apply map_update'. unfold mux_at in H. rewrite H. exact E.
Qed.

Lemma skel_set_dcbs b c l : skel (set_dcbs b c l) = skel b.
Proof. unfold skel, set_dcbs. cbn [b_chans b_ecbs b_muxes b_dcbs]. rewrite length_update. reflexivity. Qed.

Lemma skel_set_dirty_list b l : skel (set_dirty_list b l) = skel b.
Proof. reflexivity. Qed.

(* ---------------------------------------------------------------- reading through the setters *)

Lemma chan_at_set_chan_same b c ch : c < length (b_chans b) -> chan_at (set_chan b c ch) c = Some ch.
Proof. intros H. unfold chan_at, set_chan. cbn. apply nth_error_update_same. exact H. Qed.
Lemma chan_at_set_chan_other b c c' ch : c <> c' -> chan_at (set_chan b c ch) c' = chan_at b c'.
Proof. intros H. unfold chan_at, set_chan. cbn. apply nth_error_update_other. exact H. Qed.
Lemma mux_at_set_mux_same b m mx : m < length (b_muxes b) -> mux_at (set_mux b m mx) m = Some mx.
Proof. intros H. unfold mux_at, set_mux. cbn. apply nth_error_update_same. exact H. Qed.
Lemma mux_at_set_mux_other b m m' mx : m <> m' -> mux_at (set_mux b m mx) m' = mux_at b m'.
Proof. intros H. unfold mux_at, set_mux. cbn. apply nth_error_update_other. exact H. Qed.

Lemma dcbs_of_set_dcbs_same b c l : c < length (b_dcbs b) -> dcbs_of (set_dcbs b c l) c = l.
Proof.
  intros H. unfold dcbs_of, set_dcbs. cbn. rewrite nth_nth_error, nth_error_update_same by exact H. reflexivity.
Qed.
Lemma dcbs_of_set_dcbs_other b c c' l : c <> c' -> dcbs_of (set_dcbs b c l) c' = dcbs_of b c'.
Proof.
  intros H. unfold dcbs_of, set_dcbs. cbn. rewrite !nth_nth_error, nth_error_update_other by exact H. reflexivity.
Qed.

(* ---------------------------------------------------------------- dcb equality *)

Lemma dcb_eqb_eq a b : dcb_eqb a b = true <-> a = b.
Proof.
  destruct a, b; cbn; try (split; [discriminate|congruence]).
  - rewrite Nat.eqb_eq. split; congruence.
  - rewrite andb_true_iff, !Nat.eqb_eq. split; [intros [-> ->]; reflexivity|intros H; inversion H; auto].
  - rewrite Nat.eqb_eq. split; congruence.
Qed.

Lemma dcb_eqb_refl a : dcb_eqb a a = true.
Proof. apply dcb_eqb_eq. reflexivity. Qed.

Lemma dcbs_eqb_refl l : dcbs_eqb l l = true.
Proof. induction l as [|a l IH]; cbn; [reflexivity|]. rewrite dcb_eqb_refl, IH. reflexivity. Qed.

Lemma dcb_eq_dec (a b : dcb) : {a = b} + {a <> b}.
Proof. destruct (dcb_eqb a b) eqn:E; [left; apply dcb_eqb_eq; exact E|right; intros H; apply dcb_eqb_eq in H; congruence]. Qed.

Lemma in_remove_dcb d x l : NoDup l -> (In x (remove_dcb d l) <-> In x l /\ x <> d).
Proof.
  induction l as [|a l IH]; intros Hnd; cbn.
  - tauto.
  - inversion Hnd as [|? ? Hn Hnd']; subst. destruct (dcb_eqb d a) eqn:E.
    + apply dcb_eqb_eq in E. subst a. split.
      * intros H. split; [right; exact H|intros ->; contradiction].
      * intros [[H|H] Hne]; [congruence|exact H].
    + assert (Hda : d <> a) by (intros ->; rewrite dcb_eqb_refl in E; discriminate).
      cbn. rewrite IH by exact Hnd'. split.
      * intros [H|[H1 H2]]; [subst; split; [left; reflexivity|congruence]|split; [right; exact H1|exact H2]].
      * intros [[H|H] Hne]; [left; exact H|right; split; assumption].
Qed.

Lemma nodup_remove_dcb d l : NoDup l -> NoDup (remove_dcb d l).
Proof.
  induction l as [|a l IH]; intros Hnd; cbn; [constructor|].
  inversion Hnd as [|? ? Hn Hnd']; subst. destruct (dcb_eqb d a); [exact Hnd'|].
  constructor; [|apply IH; exact Hnd']. intros H. apply in_remove_dcb in H; [|exact Hnd']. tauto.
Qed.

Lemma remove_dcb_notin d l : ~ In d l -> remove_dcb d l = l.
Proof.
  induction l as [|a l IH]; intros H; cbn; [reflexivity|].
  destruct (dcb_eqb d a) eqn:E; [apply dcb_eqb_eq in E; subst; exfalso; apply H; left; reflexivity|].
  rewrite IH; [reflexivity|]. intros Hin. apply H. right. exact Hin.
Qed.

(* ---------------------------------------------------------------- chan_set on a mux output *)

(* an output channel: single, CHAN_DIRTY_WRITE and CHAN_ALLOW_DUP (mux_init) *)
Definition out_props (ch : chan) : Prop := c_stack ch = false /\ c_dw ch = true /\ c_allow ch = true.

Definition out_written (ch : chan) (v : value) : chan := with_dirty (with_val ch v) true.

Lemma chan_set_out b c v ch :
  chan_at b c = Some ch -> out_props ch ->
  chan_set b c v =
  Ok (if c_dirty ch then set_chan b c (with_val ch v)
      else set_dirty_list (set_chan b c (out_written ch v)) (b_dirty b ++ [c])).
Proof.
  intros Hc (Hs & Hd & Ha). unfold chan_set. unfold chan_at in Hc. rewrite Hc, Hs, Hd.
  rewrite andb_false_r. unfold dup_check. rewrite Ha. cbn [negb andb].
  unfold mark_dirty. cbn [c_dirty with_val c_dw]. rewrite Hd.
  destruct (c_dirty ch); reflexivity.
Qed.

Lemma with_val_dirty_written ch v : c_dirty ch = true -> with_val ch v = out_written ch v.
Proof. intros H. unfold out_written, with_dirty, with_val. cbn. rewrite H. reflexivity. Qed.

(* uniform statement: the output holds v and is dirty; it enters the dirty list if it was clean *)
Lemma chan_set_out' b c v ch :
  chan_at b c = Some ch -> out_props ch ->
  chan_set b c v =
  Ok (set_dirty_list (set_chan b c (out_written ch v)) (if c_dirty ch then b_dirty b else b_dirty b ++ [c])).
Proof.
  intros Hc Hp. rewrite (chan_set_out b c v ch Hc Hp). destruct (c_dirty ch) eqn:E; [|reflexivity].
  rewrite with_val_dirty_written by exact E. destruct b; reflexivity.
Qed.

Lemma cprops_out_written ch v : cprops (out_written ch v) = cprops ch.
Proof. reflexivity. Qed.

(* ---------------------------------------------------------------- skeleton preserved by every operation *)

Lemma skel_mark_dirty b c ch ch0 b' : chan_at b c = Some ch0 -> cprops ch = cprops ch0 ->
  mark_dirty b c ch = Ok b' -> skel b' = skel b.
Proof.
  intros Hc Hp. unfold mark_dirty. destruct (c_dirty ch).
  - destruct (c_dw ch); [|discriminate]. intros H. inversion H. apply (skel_set_chan b c ch ch0); assumption.
  - intros H. inversion H. rewrite skel_set_dirty_list. apply (skel_set_chan b c _ ch0); assumption.
Qed.

Lemma skel_chan_set b c v b' : chan_set b c v = Ok b' -> skel b' = skel b.
Proof.
  unfold chan_set. destruct (nth_error (b_chans b) c) as [ch|] eqn:Hc; [|discriminate].
  destruct (c_stack ch); [discriminate|]. destruct (c_dirty ch && negb (c_dw ch)); [discriminate|].
  destruct (dup_check ch v) as [[[]|]|].
  - intros H. inversion H. reflexivity.
  - discriminate.
  - apply (skel_mark_dirty b c _ ch); [exact Hc|reflexivity].
Qed.

Lemma skel_chan_push b c v b' : chan_push b c v = Ok b' -> skel b' = skel b.
Proof.
  unfold chan_push. destruct (nth_error (b_chans b) c) as [ch|] eqn:Hc; [|discriminate].
  destruct (negb (c_stack ch)); [discriminate|]. destruct (c_dirty ch && negb (c_dw ch)); [discriminate|].
  destruct (dup_check ch v) as [[[]|]|].
  - intros H. inversion H. reflexivity.
  - discriminate.
  - destruct (Nat.leb MAX_CHAN_STACK (length (c_stk ch))); [discriminate|].
    apply (skel_mark_dirty b c _ ch); [exact Hc|reflexivity].
Qed.

Lemma skel_chan_pop b c v b' : chan_pop b c v = Ok b' -> skel b' = skel b.
Proof.
  unfold chan_pop. destruct (nth_error (b_chans b) c) as [ch|] eqn:Hc; [|discriminate].
  destruct (negb (c_stack ch)); [discriminate|]. destruct (c_dirty ch && negb (c_dw ch)); [discriminate|].
  destruct (c_stk ch) as [|x rest]; [discriminate|]. destruct (value_eqb x v); [|discriminate].
  apply (skel_mark_dirty b c _ ch); [exact Hc|reflexivity].
Qed.

Lemma skel_apply_wop b w b' : apply_wop b w = Ok b' -> skel b' = skel b.
Proof. destruct w; cbn; [apply skel_chan_set|apply skel_chan_push|apply skel_chan_pop]. Qed.

Lemma skel_apply_writes ws : forall b b', apply_writes b ws = Ok b' -> skel b' = skel b.
Proof.
  induction ws as [|w ws IH]; intros b b' H; cbn in H.
  - inversion H. reflexivity.
  - destruct (apply_wop b w) as [b1|] eqn:E; [|discriminate].
    rewrite (IH _ _ H). apply (skel_apply_wop _ _ _ E).
Qed.

Lemma mstat_with_en mx en : length en = length (mx_en mx) -> mstat (mux_with_en mx en) = mstat mx.
Proof. intros H. unfold mstat, mux_with_en. cbn. rewrite H. reflexivity. Qed.

Lemma skel_enable_input b m i b' : enable_input b m i = Ok b' -> skel b' = skel b.
Proof.
  unfold enable_input. destruct (nth_error (b_muxes b) m) as [mx|] eqn:Hm; [|discriminate].
  destruct (nth_error (mx_en mx) i) as [en|]; [|discriminate].
  destruct (nth_error (mx_ins mx) i) as [c|]; [|discriminate].
  destruct en; intros H; inversion H; [reflexivity|].
  rewrite skel_set_dcbs. apply (skel_set_mux b m _ mx Hm). apply mstat_with_en. apply length_update.
Qed.

Lemma skel_disable_input b m i b' : disable_input b m i = Ok b' -> skel b' = skel b.
Proof.
  unfold disable_input. destruct (nth_error (b_muxes b) m) as [mx|] eqn:Hm; [|discriminate].
  destruct (nth_error (mx_en mx) i) as [en|]; [|discriminate].
  destruct (nth_error (mx_ins mx) i) as [c|]; [|discriminate].
  destruct en; intros H; inversion H; [|reflexivity].
  rewrite skel_set_dcbs. apply (skel_set_mux b m _ mx Hm). apply mstat_with_en. apply length_update.
Qed.

Lemma skel_set_selected b m s : skel (set_selected b m s) = skel b.
Proof.
  unfold set_selected. destruct (nth_error (b_muxes b) m) as [mx|] eqn:Hm; [|reflexivity].
  apply (skel_set_mux b m _ mx Hm). reflexivity.
Qed.

Lemma skel_cb_select b m b' : cb_select b m = Ok b' -> skel b' = skel b.
Proof.
  unfold cb_select. destruct (nth_error (b_muxes b) m) as [mx|] eqn:Hm; [|discriminate].
  destruct (negb (mx_init mx)); [discriminate|].
  destruct (read_chan b (mx_sel mx)) as [selv|]; [|discriminate].
  destruct (match mx_selected mx with
            | Some old => match disable_input b m old with Ok b1 => Ok (set_selected b1 m None) | Err e => Err e end
            | None => Ok b end) as [b1|] eqn:E1; [|discriminate].
  assert (S1 : skel b1 = skel b).
  { destruct (mx_selected mx) as [old|]; [|inversion E1; reflexivity].
    destruct (disable_input b m old) as [b0|] eqn:E0; [|discriminate]. inversion E1.
    rewrite skel_set_selected. apply (skel_disable_input _ _ _ _ E0). }
  destruct (run_select_in b1 mx selv) as [[i|]|]; [| |discriminate].
  - destruct (enable_input b1 m i) as [b2|] eqn:E2; [|discriminate].
    destruct (nth_error (mx_ins mx) i) as [ic|]; [|discriminate].
    destruct (read_chan (set_selected b2 m (Some i)) ic) as [v|]; [|discriminate].
    intros H. rewrite (skel_chan_set _ _ _ _ H), skel_set_selected, (skel_enable_input _ _ _ _ E2). exact S1.
  - intros H. rewrite (skel_chan_set _ _ _ _ H). exact S1.
Qed.

Lemma skel_cb_input b m i b' : cb_input b m i = Ok b' -> skel b' = skel b.
Proof.
  unfold cb_input. destruct (nth_error (b_muxes b) m) as [mx|]; [|discriminate].
  destruct (nth_error (mx_ins mx) i) as [ic|]; [|discriminate].
  destruct (read_chan b ic) as [v|]; [|discriminate]. apply skel_chan_set.
Qed.

Lemma skel_run_dcb b d b' : run_dcb b d = Ok b' -> skel b' = skel b.
Proof. destruct d; cbn; [apply skel_cb_select|apply skel_cb_input|apply skel_cb_select]. Qed.

Lemma skel_walk_from c : forall fuel b d b', walk_from fuel b c d = Ok b' -> skel b' = skel b.
Proof.
  induction fuel as [|f IH]; intros b d b' H; cbn in H; [discriminate|].
  destruct (run_dcb b d) as [b1|] eqn:E; [|discriminate].
  destruct (next_after d (dcbs_of b1 c)) as [[d'|]|]; [| |discriminate].
  - rewrite (IH _ _ _ H). apply (skel_run_dcb _ _ _ E).
  - inversion H; subst. apply (skel_run_dcb _ _ _ E).
Qed.

Lemma skel_run_cbs c b b' : run_cbs b c = Ok b' -> skel b' = skel b.
Proof.
  unfold run_cbs. destruct (dcbs_of b c) as [|d l]; [intros H; inversion H; reflexivity|]. apply skel_walk_from.
Qed.

Lemma skel_dirty_phase fuel : forall i b b', dirty_phase fuel i b = Ok b' -> skel b' = skel b.
Proof.
  induction fuel as [|f IH]; intros i b b' H; cbn in H; [discriminate|].
  destruct (nth_error (b_dirty b) i) as [c|]; [|inversion H; reflexivity].
  destruct (run_cbs b c) as [b1|] eqn:E; [|discriminate].
  rewrite (IH _ _ _ H). apply (skel_run_cbs _ _ _ E).
Qed.

Lemma skel_flush_all ds : forall b b', flush_all b ds = Ok b' -> skel b' = skel b.
Proof.
  induction ds as [|c ds IH]; intros b b' H; cbn in H.
  - inversion H. reflexivity.
  - destruct (nth_error (b_chans b) c) as [ch|] eqn:Hc; [|discriminate].
    destruct (c_dirty ch); [|discriminate].
    rewrite (IH _ _ H). apply (skel_set_chan b c _ ch Hc). reflexivity.
Qed.

Lemma skel_propagate b last b' last' ls : propagate b last = Ok (b', last', ls) -> skel b' = skel b.
Proof.
  unfold propagate. destruct (dirty_phase (S (length (b_chans b))) 0 b) as [b1|] eqn:E1; [|discriminate].
  destruct (emit_phase b1 last (b_dirty b1)) as [[l1 ls1]|]; [|discriminate].
  destruct (flush_all b1 (b_dirty b1)) as [b2|] eqn:E2; [|discriminate].
  intros H. inversion H. rewrite skel_set_dirty_list, (skel_flush_all _ _ _ E2). apply (skel_dirty_phase _ _ _ _ E1).
Qed.

Lemma NoDup_app_single' {A} (l : list A) x : NoDup l -> ~ In x l -> NoDup (l ++ [x]).
Proof.
  induction l as [|a l IH]; intros Hnd Hn; cbn.
  - constructor; [intros []|constructor].
  - inversion Hnd as [|? ? Ha Hnd']; subst. constructor.
    + rewrite in_app_iff. cbn. intros [H|[H|[]]]; [contradiction|subst; apply Hn; left; reflexivity].
    + apply IH; [exact Hnd'|]. intros H. apply Hn. right. exact H.
Qed.

Lemma NoDup_app_disjoint' {A} (l1 l2 : list A) :
  NoDup l1 -> NoDup l2 -> (forall x, In x l1 -> In x l2 -> False) -> NoDup (l1 ++ l2).
Proof.
  induction l1 as [|a l1 IH]; intros H1 H2 Hd; cbn; [exact H2|].
  inversion H1 as [|? ? Ha H1']; subst. constructor.
  - rewrite in_app_iff. intros [H|H]; [contradiction|]. apply (Hd a); [left; reflexivity|exact H].
  - apply IH; [exact H1'|exact H2|]. intros x Hx1 Hx2. apply (Hd x); [right; exact Hx1|exact Hx2].
Qed.

Lemma flat_map_ext_in' {A B} (f g : A -> list B) l : (forall a, In a l -> f a = g a) -> flat_map f l = flat_map g l.
Proof. induction l as [|x l IH]; intros H; cbn; [reflexivity|]. rewrite (H x (or_introl eq_refl)), IH; [reflexivity|]. intros a Ha. apply H. right. exact Ha. Qed.

Lemma flat_map_nil' {A B} (f : A -> list B) l : (forall a, In a l -> f a = []) -> flat_map f l = [].
Proof. induction l as [|x l IH]; intros H; cbn; [reflexivity|]. rewrite (H x (or_introl eq_refl)), IH; [reflexivity|]. intros a Ha. apply H. right. exact Ha. Qed.
