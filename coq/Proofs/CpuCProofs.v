(* The thread-list functions GENERATED from src/emu/cpu.c by unit cpuc (Gen/CpuC_gen.v: find_thread with its search loop;
   cpu_update, cpu_add_thread, cpu_remove_thread, cpu_migrate_thread calling it) compute what unit sys works with:
   the generated find_thread IS the primitive SysPre.find_thread (membership in cpu->threads), and the four callers are
   the functions of Gen/Sys_gen.v, for every state - so the theorems of Proofs/SysProofs.v (C05_cpu_update_from_source,
   C05_affinity_event_in_c_world_from_source ...) hold of code in which find_thread is generated too. *)
From Coq Require Import ZArith List Bool Lia.
From OV Require Import Base.CInt Emu.EmuCoreDefs Emu.SysPre Emu.CpuCPre.
From OV Require Gen.CpuC_gen Gen.Sys_gen Emu.GuardsPre.
Import ListNotations.
Local Open Scope Z_scope.

Module G := CpuC_gen.

(* the search loop of find_thread over the list in list order *)
Lemma search_loop sx st t l :
  dl_walk (map Some l) (fun p => ite (fun _ _ => ptr_eqb_thread p t) (ret (Some p)) (ret None)) sx st =
  Ok (match t with Some t' => if mem_nat t' l then Some (Some t') else None | None => None end, st).
Proof.
  induction l as [|x r IH]; cbn [map dl_walk].
  - destruct t; reflexivity.
  - unfold bind at 1, ite at 1.
    assert (EQ : ptr_eqb_thread (Some x) t = match t with Some t' => Nat.eqb x t' | None => false end) by (destruct t; reflexivity).
    rewrite EQ. destruct t as [t'|]; cbn [ret].
    + unfold mem_nat. cbn [existsb]. rewrite (Nat.eqb_sym t' x). destruct (Nat.eqb x t') eqn:E.
      * apply Nat.eqb_eq in E. subst x. reflexivity.
      * cbn [orb]. unfold ret at 1. cbv beta iota. rewrite IH. reflexivity.
    + apply IH.
Qed.

Theorem find_thread_from_source sx st c t :
  G.find_thread (Some c) t sx st = Ok (SysPre.find_thread sx st (Some c) t, st).
Proof.
  unfold G.find_thread, bind, eval, need, dl_search, list_cpu_threads_cpu_next, SysPre.find_thread. cbn [is_null negb].
  rewrite search_loop. destruct t as [t'|]; [|reflexivity].
  destruct (mem_nat t' (c_threads (scp st c))); reflexivity.
Qed.

Theorem find_thread_null_cpu sx st t : G.find_thread None t sx st = Err E_TRAP.
Proof. reflexivity. Qed.

Theorem cpu_update_same : G.cpu_update = Sys_gen.cpu_update.
Proof. reflexivity. Qed.

Theorem cpu_add_thread_from_source sx st c t : G.cpu_add_thread c t sx st = Sys_gen.cpu_add_thread c t sx st.
Proof.
  unfold G.cpu_add_thread, Sys_gen.cpu_add_thread. rewrite cpu_update_same. destruct c as [c|].
  - unfold bind at 1. rewrite find_thread_from_source. reflexivity.
  - unfold bind at 1. rewrite find_thread_null_cpu.
    unfold ite, bind_, bind, DL_APPEND2_cpu_threads_cpu_prev_cpu_next, upd_cp. cbn [SysPre.find_thread is_null negb].
    destruct t; reflexivity.
Qed.

(* on a NULL cpu the C dereferences NULL inside find_thread (E_TRAP here); the primitive of SysPre.v answers "not found"
   instead: the equality is stated for a non-NULL cpu, which is what every caller passes *)
Theorem cpu_remove_thread_from_source sx st c t :
  G.cpu_remove_thread (Some c) t sx st = Sys_gen.cpu_remove_thread (Some c) t sx st.
Proof.
  unfold G.cpu_remove_thread, Sys_gen.cpu_remove_thread. rewrite cpu_update_same.
  unfold bind at 1. rewrite find_thread_from_source. reflexivity.
Qed.

Theorem cpu_remove_thread_null_cpu sx st t : G.cpu_remove_thread None t sx st = Err E_TRAP.
Proof. reflexivity. Qed.

Theorem cpu_migrate_thread_from_source sx st c t c' :
  G.cpu_migrate_thread (Some c) t c' sx st = Sys_gen.cpu_migrate_thread (Some c) t c' sx st.
Proof.
  unfold G.cpu_migrate_thread, Sys_gen.cpu_migrate_thread, bind_, bind.
  rewrite cpu_remove_thread_from_source. destruct (Sys_gen.cpu_remove_thread (Some c) t sx st) as [[[] st1]|e]; [|reflexivity].
  rewrite cpu_add_thread_from_source. reflexivity.
Qed.

(* what the generated functions refuse, read off the list *)
Theorem add_refuses_present sx st c t : mem_nat t (c_threads (scp st c)) = true ->
  G.cpu_add_thread (Some c) (Some t) sx st = Err E_FAIL.
Proof.
  intros H. unfold G.cpu_add_thread. unfold bind at 1. rewrite find_thread_from_source. unfold SysPre.find_thread. rewrite H. reflexivity.
Qed.

Theorem remove_refuses_absent sx st c t : mem_nat t (c_threads (scp st c)) = false ->
  G.cpu_remove_thread (Some c) (Some t) sx st = Err E_FAIL.
Proof.
  intros H. unfold G.cpu_remove_thread. unfold bind at 1. rewrite find_thread_from_source. unfold SysPre.find_thread. rewrite H. reflexivity.
Qed.
