(* C15 - proofs about the metadata-merge model (Emu/MetaDefs.v). *)
From Coq Require Import ZArith List Bool Lia Permutation.
From OV Require Import Emu.MetaDefs.
Import ListNotations.
Local Open Scope Z_scope.

(* ------------------------------------------------------------------ *)
(* The code WITHOUT the repair (MetaDefs.Unfixed): the statements fail. *)
Section UnfixedRefuted.
  Definition n0 : name := [110; 48].
  (* valid metadata, CPU list with descending index *)
  Definition w_desc : list stream_meta := [mkS n0 100 101 (Some 1) None None (Some [(1, 1); (0, 0)])].
  (* the same union, ascending *)
  Definition w_asc : list stream_meta := [mkS n0 100 101 (Some 1) None None (Some [(0, 0); (1, 1)])].
  (* index 0 bound to phyid 0 in one thread and to phyid 1 in another *)
  Definition w_two : list stream_meta :=
    [mkS n0 100 101 (Some 1) None None (Some [(0, 0)]); mkS n0 100 102 None None None (Some [(0, 1)])].
End UnfixedRefuted.
