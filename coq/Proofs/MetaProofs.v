(* C15 - proofs about the metadata-merge model (Emu/MetaDefs.v). *)
From Coq Require Import ZArith List Bool Lia Permutation.
From OV Require Import Emu.MetaDefs.
Import ListNotations.
Local Open Scope Z_scope.

(* ------------------------------------------------------------------ *)
(* The code WITHOUT the repair (MetaDefs.Unfixed): the statements fail. *)
Section UnfixedRefuted.
  Definition n0 : name := [110; 48].
  (* valid metadata, CPU list with descending index *)
  Definition w_desc : list stream_meta := [mkS n0 100 101 (Some 1) None None (Some [(1, 1); (0, 0)])].
  (* the same union, ascending *)
  Definition w_asc : list stream_meta := [mkS n0 100 101 (Some 1) None None (Some [(0, 0); (1, 1)])].
  (* index 0 bound to phyid 0 in one thread and to phyid 1 in another *)
  Definition w_two : list stream_meta :=
    [mkS n0 100 101 (Some 1) None None (Some [(0, 0)]); mkS n0 100 102 None None None (Some [(0, 1)])].

  Lemma unfixed_conflict_crashes : exists m, contradictory m /\ Unfixed.build m = Crash.
  Proof.
    exists w_two. split.
    - apply C_index_two_phyids with (l := n0) (i := 0) (p := 0) (q := 1); [simpl; auto | simpl; auto | lia].
    - vm_compute. reflexivity.
  Qed.

  Lemma unfixed_union_crashes :
    exists m1 m2 sys, same_union m1 m2 /\ rank_names_proc m1 /\ Unfixed.build m1 = Crash /\ Unfixed.build m2 = Ok sys.
  Proof.
    exists w_desc, w_asc. eexists. split; [|split; [|split]].
    - repeat split; try (simpl; apply Permutation_refl); simpl; intros; tauto.
    - intros k1 k2 r a b H. simpl in H. contradiction.
    - vm_compute. reflexivity.
    - vm_compute. reflexivity.
  Qed.
End UnfixedRefuted.
