(* C15 - proofs about the metadata-merge model (Emu/MetaDefs.v). *)
From Coq Require Import ZArith List Bool Lia Permutation.
From OV Require Import Emu.MetaDefs.
Import ListNotations.
Local Open Scope Z_scope.

(* ------------------------------------------------------------------ *)
(* The code WITHOUT the repair (MetaDefs.Unfixed): the statements fail. *)
Section UnfixedRefuted.
  Definition n0 : name := [110; 48].
  (* valid metadata, CPU list with descending index *)
  Definition w_desc : list stream_meta := [mkS n0 100 101 (Some 1) None None (Some [(1, 1); (0, 0)])].
  (* the same union, ascending *)
  Definition w_asc : list stream_meta := [mkS n0 100 101 (Some 1) None None (Some [(0, 0); (1, 1)])].
  (* index 0 bound to phyid 0 in one thread and to phyid 1 in another *)
  Definition w_two : list stream_meta :=
    [mkS n0 100 101 (Some 1) None None (Some [(0, 0)]); mkS n0 100 102 None None None (Some [(0, 1)])].

  Lemma unfixed_conflict_crashes : exists m, contradictory m /\ Unfixed.build m = Crash.
  Proof.
    exists w_two. split.
    - apply C_index_two_phyids with (l := n0) (i := 0) (p := 0) (q := 1); [simpl; auto | simpl; auto | lia].
    - vm_compute. reflexivity.
  Qed.

  Lemma unfixed_union_crashes :
    exists m1 m2 sys, same_union m1 m2 /\ rank_names_proc m1 /\ Unfixed.build m1 = Crash /\ Unfixed.build m2 = Ok sys.
  Proof.
    exists w_desc, w_asc. eexists. split; [|split; [|split]].
    - repeat split; try (simpl; apply Permutation_refl); simpl; intros; tauto.
    - intros k1 k2 r a b H. simpl in H. contradiction.
    - vm_compute. reflexivity.
    - vm_compute. reflexivity.
  Qed.
End UnfixedRefuted.

(* ================================================================== *)
(* Generic facts: the loop combinators *)
Lemma run_app {A S} (f : A -> S -> outcome A) l1 l2 a :
  run f (l1 ++ l2) a = bind (run f l1 a) (run f l2).
Proof.
  revert a. induction l1 as [|s l1 IH]; intros a; simpl; [reflexivity|].
  destruct (f a s); simpl; auto.
Qed.

Definition pair_res {A B} (ra : outcome A) (rb : outcome B) : outcome (A * B) :=
  match ra, rb with Ok a, Ok b => Ok (a, b) | _, _ => Err end.

Definition crash_free {A S} (f : A -> S -> outcome A) : Prop := forall a s, f a s <> Crash.

Lemma run_crash_free {A S} (f : A -> S -> outcome A) : crash_free f -> forall l a, run f l a <> Crash.
Proof.
  intros Hf l. induction l as [|s l IH]; intros a; simpl; [discriminate|].
  destruct (f a s) eqn:E; [apply IH | discriminate | exfalso; exact (Hf a s E)].
Qed.

Lemma run_par {A B S} (f : A -> S -> outcome A) (g : B -> S -> outcome B) :
  crash_free f -> crash_free g ->
  forall l a b, run (par f g) l (a, b) = pair_res (run f l a) (run g l b).
Proof.
  intros Hf Hg l. induction l as [|s l IH]; intros a b; simpl; [reflexivity|].
  unfold par at 1; simpl.
  destruct (f a s) as [a'| |] eqn:Ef; simpl.
  - destruct (g b s) as [b'| |] eqn:Eg; simpl.
    + apply IH.
    + destruct (run f l a'); reflexivity.
    + exfalso; exact (Hg b s Eg).
  - reflexivity.
  - exfalso; exact (Hf a s Ef).
Qed.

Lemma par_crash_free {A B S} (f : A -> S -> outcome A) (g : B -> S -> outcome B) :
  crash_free f -> crash_free g -> crash_free (par f g).
Proof.
  intros Hf Hg [a b] s. unfold par; simpl.
  destruct (f a s) eqn:Ef; simpl; [|discriminate|exact (fun _ => Hf a s Ef)].
  destruct (g b s) eqn:Eg; simpl; [discriminate|discriminate|exact (fun _ => Hg b s Eg)].
Qed.

Lemma run_part {F S} (add : list F -> F -> outcome (list F)) (claim : S -> list F) l X :
  run (part add claim) l X = run add (flat_map claim l) X.
Proof.
  revert X. induction l as [|s l IH]; intros X; simpl; [reflexivity|].
  rewrite run_app. unfold part at 1. destruct (run add (claim s) X); simpl; auto.
Qed.

Lemma part_crash_free {F S} (add : list F -> F -> outcome (list F)) (claim : S -> list F) :
  crash_free add -> crash_free (part add claim).
Proof. intros H X s. unfold part. apply run_crash_free. exact H. Qed.

(* ------------------------------------------------------------------ *)
(* Generic facts: merging facts into a table *)
Section Collect.
  Context {F : Type} (dec : forall a b : F, {a = b} + {a <> b}) (valid : F -> bool) (confl : F -> F -> bool).
  Hypothesis confl_sym : forall f g, confl f g = confl g f.
  Hypothesis confl_irrefl : forall f, confl f f = false.

  Definition addf (X : list F) (f : F) : outcome (list F) := lift (ins dec valid confl X f).

  Definition fbad (fs : list F) : Prop :=
    (exists f, In f fs /\ valid f = false) \/ (exists f g, In f fs /\ In g fs /\ confl f g = true).
  Definition fgood (fs X : list F) : Prop :=
    NoDup X /\ (forall f, In f X <-> In f fs) /\ (forall f, In f fs -> valid f = true) /\
    (forall f g, In f fs -> In g fs -> confl f g = false).

  Lemma addf_crash_free : crash_free addf.
  Proof. intros X f. unfold addf. destruct (ins dec valid confl X f); discriminate. Qed.

  Lemma fbad_app fs f : fbad fs -> fbad (fs ++ [f]).
  Proof.
    intros [(x & Hx & Hv) | (x & y & Hx & Hy & Hc)].
    - left. exists x. split; [apply in_or_app; auto | exact Hv].
    - right. exists x, y. repeat split; try (apply in_or_app; auto). exact Hc.
  Qed.

  Lemma NoDup_snoc (X : list F) f : NoDup X -> ~ In f X -> NoDup (X ++ [f]).
  Proof.
    intros HN Hn. apply Permutation_NoDup with (l := f :: X).
    - apply Permutation_cons_append.
    - constructor; assumption.
  Qed.

  Lemma collect_char fs :
    match run addf fs [] with
    | Ok X => fgood fs X
    | Err => fbad fs
    | Crash => False
    end.
  Proof.
    induction fs as [|f fs IH] using rev_ind.
    - simpl. repeat split; try constructor; intros; try contradiction; tauto.
    - rewrite run_app. destruct (run addf fs []) as [X| |]; simpl; [|apply fbad_app; exact IH|exact IH].
      destruct IH as (HN & HI & HV & HC).
      unfold addf, ins. destruct (valid f) eqn:Ev; simpl.
      2:{ left. exists f. split; [apply in_or_app; right; left; reflexivity | exact Ev]. }
      destruct (existsb (confl f) X) eqn:Ec; simpl.
      { apply existsb_exists in Ec. destruct Ec as (g & Hg & Hc).
        right. exists f, g. split; [apply in_or_app; right; left; reflexivity|].
        split; [apply in_or_app; left; apply HI; exact Hg | exact Hc]. }
      assert (Hcf : forall g, In g fs -> confl f g = false).
      { intros g Hg. destruct (confl f g) eqn:E; [|reflexivity].
        assert (existsb (confl f) X = true) by (apply existsb_exists; exists g; split; [apply HI; exact Hg | exact E]).
        congruence. }
      assert (HV' : forall x, In x (fs ++ [f]) -> valid x = true).
      { intros x Hx. apply in_app_or in Hx. destruct Hx as [Hx | [<- | []]]; auto. }
      assert (HC' : forall x y, In x (fs ++ [f]) -> In y (fs ++ [f]) -> confl x y = false).
      { intros x y Hx Hy. apply in_app_or in Hx. apply in_app_or in Hy.
        destruct Hx as [Hx | [<- | []]]; destruct Hy as [Hy | [<- | []]]; auto.
        rewrite confl_sym. auto. }
      destruct (in_dec dec f X) as [Hin | Hnin]; simpl.
      + repeat split; auto.
        * intros Hx. apply in_or_app. left. apply HI. exact Hx.
        * intros Hx. apply in_app_or in Hx. destruct Hx as [Hx | [<- | []]]; [apply HI; exact Hx | exact Hin].
      + repeat split; auto.
        * apply NoDup_snoc; assumption.
        * intros Hx. apply in_app_or in Hx. apply in_or_app. destruct Hx as [Hx | Hx]; [left; apply HI; exact Hx | right; exact Hx].
        * intros Hx. apply in_app_or in Hx. apply in_or_app. destruct Hx as [Hx | Hx]; [left; apply HI; exact Hx | right; exact Hx].
  Qed.

  Lemma fgood_not_fbad fs X : fgood fs X -> fbad fs -> False.
  Proof.
    intros (_ & _ & HV & HC) [(x & Hx & Hv) | (x & y & Hx & Hy & Hc)].
    - rewrite (HV x Hx) in Hv. discriminate.
    - rewrite (HC x y Hx Hy) in Hc. discriminate.
  Qed.

  Lemma collect_ok fs X : run addf fs [] = Ok X -> fgood fs X.
  Proof. intros H. pose proof (collect_char fs) as C. rewrite H in C. exact C. Qed.

  Lemma collect_err fs : run addf fs [] = Err <-> fbad fs.
  Proof.
    pose proof (collect_char fs) as C. split.
    - intros H. rewrite H in C. exact C.
    - intros Hb. destruct (run addf fs []) as [X| |]; [exfalso; eapply fgood_not_fbad; eauto | reflexivity | contradiction].
  Qed.

  Lemma fbad_same_set fs1 fs2 : same_set fs1 fs2 -> fbad fs1 -> fbad fs2.
  Proof.
    intros HS [(x & Hx & Hv) | (x & y & Hx & Hy & Hc)].
    - left. exists x. split; [apply HS; exact Hx | exact Hv].
    - right. exists x, y. repeat split; try (apply HS; assumption). exact Hc.
  Qed.

  Lemma collect_err_same_set fs1 fs2 : same_set fs1 fs2 -> run addf fs1 [] = Err -> run addf fs2 [] = Err.
  Proof. intros HS H. apply collect_err. apply collect_err in H. eapply fbad_same_set; eauto. Qed.

  Lemma collect_ok_same_set fs1 fs2 X1 X2 :
    same_set fs1 fs2 -> run addf fs1 [] = Ok X1 -> run addf fs2 [] = Ok X2 -> Permutation X1 X2.
  Proof.
    intros HS H1 H2. apply collect_ok in H1. apply collect_ok in H2.
    destruct H1 as (N1 & I1 & _). destruct H2 as (N2 & I2 & _).
    apply NoDup_Permutation; auto. intros x. rewrite I1, I2. apply HS.
  Qed.
End Collect.

Lemma same_set_sym {A} (l1 l2 : list A) : same_set l1 l2 -> same_set l2 l1.
Proof. intros H x. symmetry. apply H. Qed.

(* ------------------------------------------------------------------ *)
(* Generic facts: the stable sort *)
From Coq Require Import Sorted.

Section Sort.
  Context {A : Type} (le : A -> A -> bool).
  Hypothesis le_total : forall x y, le x y = true \/ le y x = true.
  Hypothesis le_trans : forall x y z, le x y = true -> le y z = true -> le x z = true.
  Let R x y := le x y = true.

  Lemma insert_perm x l : Permutation (insert le x l) (x :: l).
  Proof.
    induction l as [|y r IH]; simpl; [apply Permutation_refl|].
    destruct (le x y); [apply Permutation_refl|].
    eapply Permutation_trans; [apply perm_skip; exact IH | apply perm_swap].
  Qed.

  Lemma isort_perm l : Permutation (isort le l) l.
  Proof.
    induction l as [|x l IH]; simpl; [constructor|].
    eapply Permutation_trans; [apply insert_perm | apply perm_skip; exact IH].
  Qed.

  Lemma insert_sorted x l : StronglySorted R l -> StronglySorted R (insert le x l).
  Proof.
    induction 1 as [|y r Hs IH Hall]; simpl.
    - constructor; constructor.
    - destruct (le x y) eqn:E.
      + constructor; [constructor; assumption|].
        constructor; [exact E|].
        rewrite Forall_forall in *. intros z Hz. eapply le_trans; [exact E | apply Hall; exact Hz].
      + constructor; [exact IH|].
        rewrite Forall_forall in *. intros z Hz.
        apply (Permutation_in _ (insert_perm x r)) in Hz. destruct Hz as [<- | Hz].
        * destruct (le_total x y) as [H | H]; [congruence | exact H].
        * apply Hall; exact Hz.
  Qed.

  Lemma isort_sorted l : StronglySorted R (isort le l).
  Proof. induction l as [|x l IH]; simpl; [constructor | apply insert_sorted; exact IH]. Qed.

  Lemma sorted_perm_unique l1 : forall l2,
    StronglySorted R l1 -> StronglySorted R l2 -> Permutation l1 l2 ->
    (forall x y, In x l1 -> In y l1 -> R x y -> R y x -> x = y) -> l1 = l2.
  Proof.
    induction l1 as [|a r1 IH]; intros l2 S1 S2 P Anti.
    - apply Permutation_nil in P. symmetry; exact P.
    - destruct l2 as [|b r2]; [apply Permutation_sym, Permutation_nil in P; discriminate|].
      inversion S1 as [|? ? S1' F1]; subst. inversion S2 as [|? ? S2' F2]; subst.
      rewrite Forall_forall in F1, F2.
      assert (Hab : a = b).
      { assert (Hb : In b (a :: r1)) by (apply (Permutation_in _ (Permutation_sym P)); left; reflexivity).
        assert (Ha : In a (b :: r2)) by (apply (Permutation_in _ P); left; reflexivity).
        destruct Hb as [Hb | Hb]; [exact Hb|]. destruct Ha as [Ha | Ha]; [symmetry; exact Ha|].
        apply Anti; [left; reflexivity | right; exact Hb | apply F1; exact Hb | apply F2; exact Ha]. }
      subst b. f_equal. apply IH; auto.
      + eapply Permutation_cons_inv; exact P.
      + intros x y Hx Hy. apply Anti; right; assumption.
  Qed.

  Lemma isort_perm_eq l1 l2 :
    Permutation l1 l2 ->
    (forall x y, In x l1 -> In y l1 -> le x y = true -> le y x = true -> x = y) ->
    isort le l1 = isort le l2.
  Proof.
    intros P Anti. apply sorted_perm_unique; try apply isort_sorted.
    - eapply Permutation_trans; [apply isort_perm|]. eapply Permutation_trans; [exact P|]. apply Permutation_sym, isort_perm.
    - intros x y Hx Hy. apply Anti; apply (Permutation_in _ (isort_perm l1)); assumption.
  Qed.
End Sort.

Lemma insert_ext {A} (le1 le2 : A -> A -> bool) : (forall x y, le1 x y = le2 x y) ->
  forall x l, insert le1 x l = insert le2 x l.
Proof. intros H x l. induction l as [|y r IH]; simpl; [reflexivity|]. rewrite H, IH. reflexivity. Qed.

Lemma isort_ext {A} (le1 le2 : A -> A -> bool) : (forall x y, le1 x y = le2 x y) ->
  forall l, isort le1 l = isort le2 l.
Proof. intros H l. induction l as [|x l IH]; simpl; [reflexivity|]. rewrite IH. apply insert_ext. exact H. Qed.

(* sorting by an integer key *)
Lemma isort_key_perm_eq {A} (k : A -> Z) l1 l2 :
  Permutation l1 l2 -> (forall x y, In x l1 -> In y l1 -> k x = k y -> x = y) ->
  isort (fun x y => k x <=? k y) l1 = isort (fun x y => k x <=? k y) l2.
Proof.
  intros P Inj. apply isort_perm_eq; auto.
  - intros x y. destruct (Z.le_ge_cases (k x) (k y)); [left | right]; apply Z.leb_le; assumption.
  - intros x y z H1 H2. apply Z.leb_le in H1, H2. apply Z.leb_le. lia.
  - intros x y Hx Hy H1 H2. apply Z.leb_le in H1, H2. apply Inj; auto. lia.
Qed.

(* strcmp order *)
Lemma str_le_total a : forall b, str_le a b = true \/ str_le b a = true.
Proof.
  induction a as [|x a IH]; intros [|y b]; simpl; auto.
  destruct (x <? y) eqn:E1; [auto|]. destruct (y <? x) eqn:E2; [auto|]. apply IH.
Qed.

Lemma str_le_trans a : forall b c, str_le a b = true -> str_le b c = true -> str_le a c = true.
Proof.
  induction a as [|x a IH]; intros [|y b] [|z c]; simpl; auto; try discriminate.
  destruct (x <? y) eqn:E1; destruct (y <? x) eqn:E2; destruct (y <? z) eqn:E3; destruct (z <? y) eqn:E4;
    destruct (x <? z) eqn:E5; destruct (z <? x) eqn:E6; auto; try discriminate;
    repeat match goal with
           | H : (_ <? _) = true |- _ => apply Z.ltb_lt in H
           | H : (_ <? _) = false |- _ => apply Z.ltb_ge in H
           end; try lia.
  apply IH.
Qed.

Lemma str_le_antisym a : forall b, str_le a b = true -> str_le b a = true -> a = b.
Proof.
  induction a as [|x a IH]; intros [|y b]; simpl; auto; try discriminate.
  destruct (x <? y) eqn:E1; destruct (y <? x) eqn:E2; try discriminate;
    repeat match goal with
           | H : (_ <? _) = true |- _ => apply Z.ltb_lt in H
           | H : (_ <? _) = false |- _ => apply Z.ltb_ge in H
           end; try lia.
  intros H1 H2. f_equal; [lia | apply IH; assumption].
Qed.

(* ------------------------------------------------------------------ *)
(* Generic facts: invariance under permutation *)
Lemma perm_filter {A} (f : A -> bool) l1 l2 : Permutation l1 l2 -> Permutation (filter f l1) (filter f l2).
Proof.
  induction 1; simpl.
  - constructor.
  - destruct (f x); [apply perm_skip|]; assumption.
  - destruct (f x), (f y); try apply Permutation_refl. apply perm_swap.
  - eapply Permutation_trans; eassumption.
Qed.

Lemma perm_existsb {A} (f : A -> bool) l1 l2 : Permutation l1 l2 -> existsb f l1 = existsb f l2.
Proof.
  induction 1; simpl; auto.
  - rewrite IHPermutation. reflexivity.
  - destruct (f x), (f y); reflexivity.
  - congruence.
Qed.

Lemma perm_forallb {A} (f : A -> bool) l1 l2 : Permutation l1 l2 -> forallb f l1 = forallb f l2.
Proof.
  induction 1; simpl; auto.
  - rewrite IHPermutation. reflexivity.
  - destruct (f x), (f y); reflexivity.
  - congruence.
Qed.

Lemma existsb_ext_in {A} (f g : A -> bool) l : (forall x, In x l -> f x = g x) -> existsb f l = existsb g l.
Proof.
  induction l as [|x l IH]; intros H; simpl; [reflexivity|].
  rewrite H by (left; reflexivity). rewrite IH; [reflexivity|]. intros y Hy. apply H. right; exact Hy.
Qed.

Lemma forallb_ext_in {A} (f g : A -> bool) l : (forall x, In x l -> f x = g x) -> forallb f l = forallb g l.
Proof.
  induction l as [|x l IH]; intros H; simpl; [reflexivity|].
  rewrite H by (left; reflexivity). rewrite IH; [reflexivity|]. intros y Hy. apply H. right; exact Hy.
Qed.

Lemma find_perm_unique {A} (f : A -> bool) l1 l2 :
  Permutation l1 l2 -> (forall x y, In x l1 -> In y l1 -> f x = true -> f y = true -> x = y) ->
  find f l1 = find f l2.
Proof.
  intros P U. destruct (find f l1) as [x|] eqn:E1; destruct (find f l2) as [y|] eqn:E2; auto.
  - apply find_some in E1. apply find_some in E2. destruct E1 as [I1 F1]. destruct E2 as [I2 F2].
    f_equal. apply U; auto. apply (Permutation_in _ (Permutation_sym P)); exact I2.
  - apply find_some in E1. destruct E1 as [I1 F1].
    pose proof (find_none _ _ E2 x (Permutation_in _ P I1)). congruence.
  - apply find_some in E2. destruct E2 as [I2 F2].
    pose proof (find_none _ _ E1 y (Permutation_in _ (Permutation_sym P) I2)). congruence.
Qed.

(* minimum of a non-empty list *)
Lemma lmin_char r rs : In (fold_right Z.min r rs) (r :: rs) /\ forall x, In x (r :: rs) -> fold_right Z.min r rs <= x.
Proof.
  induction rs as [|a rs IH]; simpl.
  - split; [left; reflexivity | intros x [<- | []]; lia].
  - destruct IH as [Hin Hle]. split.
    + destruct (Z.min_spec a (fold_right Z.min r rs)) as [[_ ->] | [_ ->]].
      * right; left; reflexivity.
      * simpl in Hin. destruct Hin as [Hin | Hin]; [left; exact Hin | right; right; exact Hin].
    + intros x [<- | [<- | Hx]].
      * specialize (Hle r (or_introl eq_refl)). lia.
      * lia.
      * specialize (Hle x (or_intror Hx)). lia.
Qed.

Definition lmin (l : list Z) : Z := match l with [] => INT_MAX | r :: rs => fold_right Z.min r rs end.

Lemma lmin_perm l1 l2 : Permutation l1 l2 -> lmin l1 = lmin l2.
Proof.
  intros P. destruct l1 as [|a r1]; destruct l2 as [|b r2]; simpl.
  - reflexivity.
  - apply Permutation_nil in P. discriminate.
  - apply Permutation_sym, Permutation_nil in P. discriminate.
  - destruct (lmin_char a r1) as [I1 L1]. destruct (lmin_char b r2) as [I2 L2].
    pose proof (L1 _ (Permutation_in _ (Permutation_sym P) I2)).
    pose proof (L2 _ (Permutation_in _ P I1)). lia.
Qed.

Lemma lmin_in l : l <> [] -> In (lmin l) l.
Proof. destruct l as [|r rs]; [congruence|]. intros _. apply (lmin_char r rs). Qed.
