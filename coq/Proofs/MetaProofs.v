(* C15 - proofs about the metadata-merge model (Emu/MetaDefs.v). *)
From Coq Require Import ZArith List Bool Lia Permutation.
From OV Require Import Emu.MetaDefs.
Import ListNotations.
Local Open Scope Z_scope.

(* ------------------------------------------------------------------ *)
(* The code WITHOUT the repair (MetaDefs.Unfixed): the statements fail. *)
Section UnfixedRefuted.
  Definition n0 : name := [110; 48].
  (* valid metadata, CPU list with descending index *)
  Definition w_desc : list stream_meta := [mkS n0 100 101 (Some 1) None None (Some [(1, 1); (0, 0)])].
  (* the same union, ascending *)
  Definition w_asc : list stream_meta := [mkS n0 100 101 (Some 1) None None (Some [(0, 0); (1, 1)])].
  (* index 0 bound to phyid 0 in one thread and to phyid 1 in another *)
  Definition w_two : list stream_meta :=
    [mkS n0 100 101 (Some 1) None None (Some [(0, 0)]); mkS n0 100 102 None None None (Some [(0, 1)])].

  Lemma unfixed_conflict_crashes : exists m, contradictory m /\ Unfixed.build m = Crash.
  Proof.
    exists w_two. split.
    - apply C_index_two_phyids with (l := n0) (i := 0) (p := 0) (q := 1); [simpl; auto | simpl; auto | lia].
    - vm_compute. reflexivity.
  Qed.

  Lemma unfixed_union_crashes :
    exists m1 m2 sys, same_union m1 m2 /\ Unfixed.build m1 = Crash /\ Unfixed.build m2 = Ok sys.
  Proof.
    exists w_desc, w_asc. eexists. split; [|split].
    - repeat split; try (simpl; apply Permutation_refl); simpl; intros; tauto.
    - vm_compute. reflexivity.
    - vm_compute. reflexivity.
  Qed.
End UnfixedRefuted.

(* ================================================================== *)
(* Generic facts: the loop combinators *)
Lemma run_app {A S} (f : A -> S -> outcome A) l1 l2 a :
  run f (l1 ++ l2) a = bind (run f l1 a) (run f l2).
Proof.
  revert a. induction l1 as [|s l1 IH]; intros a; simpl; [reflexivity|].
  destruct (f a s); simpl; auto.
Qed.

Definition pair_res {A B} (ra : outcome A) (rb : outcome B) : outcome (A * B) :=
  match ra, rb with Ok a, Ok b => Ok (a, b) | _, _ => Err end.

Definition crash_free {A S} (f : A -> S -> outcome A) : Prop := forall a s, f a s <> Crash.

Lemma run_crash_free {A S} (f : A -> S -> outcome A) : crash_free f -> forall l a, run f l a <> Crash.
Proof.
  intros Hf l. induction l as [|s l IH]; intros a; simpl; [discriminate|].
  destruct (f a s) eqn:E; [apply IH | discriminate | exfalso; exact (Hf a s E)].
Qed.

Lemma run_par {A B S} (f : A -> S -> outcome A) (g : B -> S -> outcome B) :
  crash_free f -> crash_free g ->
  forall l a b, run (par f g) l (a, b) = pair_res (run f l a) (run g l b).
Proof.
  intros Hf Hg l. induction l as [|s l IH]; intros a b; simpl; [reflexivity|].
  unfold par at 1; simpl.
  destruct (f a s) as [a'| |] eqn:Ef; simpl.
  - destruct (g b s) as [b'| |] eqn:Eg; simpl.
    + apply IH.
    + destruct (run f l a'); reflexivity.
    + exfalso; exact (Hg b s Eg).
  - reflexivity.
  - exfalso; exact (Hf a s Ef).
Qed.

Lemma par_crash_free {A B S} (f : A -> S -> outcome A) (g : B -> S -> outcome B) :
  crash_free f -> crash_free g -> crash_free (par f g).
Proof.
  intros Hf Hg [a b] s. unfold par; simpl.
  destruct (f a s) eqn:Ef; simpl; [|discriminate|exact (fun _ => Hf a s Ef)].
  destruct (g b s) eqn:Eg; simpl; [discriminate|discriminate|exact (fun _ => Hg b s Eg)].
Qed.

Lemma run_part {F S} (add : list F -> F -> outcome (list F)) (claim : S -> list F) l X :
  run (part add claim) l X = run add (flat_map claim l) X.
Proof.
  revert X. induction l as [|s l IH]; intros X; simpl; [reflexivity|].
  rewrite run_app. unfold part at 1. destruct (run add (claim s) X); simpl; auto.
Qed.

Lemma part_crash_free {F S} (add : list F -> F -> outcome (list F)) (claim : S -> list F) :
  crash_free add -> crash_free (part add claim).
Proof. intros H X s. unfold part. apply run_crash_free. exact H. Qed.

(* ------------------------------------------------------------------ *)
(* Generic facts: merging facts into a table *)
Section Collect.
  Context {F : Type} (dec : forall a b : F, {a = b} + {a <> b}) (valid : F -> bool) (confl : F -> F -> bool).
  Hypothesis confl_sym : forall f g, confl f g = confl g f.
  Hypothesis confl_irrefl : forall f, confl f f = false.

  Definition addf (X : list F) (f : F) : outcome (list F) := lift (ins dec valid confl X f).

  Definition fbad (fs : list F) : Prop :=
    (exists f, In f fs /\ valid f = false) \/ (exists f g, In f fs /\ In g fs /\ confl f g = true).
  Definition fgood (fs X : list F) : Prop :=
    NoDup X /\ (forall f, In f X <-> In f fs) /\ (forall f, In f fs -> valid f = true) /\
    (forall f g, In f fs -> In g fs -> confl f g = false).

  Lemma addf_crash_free : crash_free addf.
  Proof. intros X f. unfold addf. destruct (ins dec valid confl X f); discriminate. Qed.

  Lemma fbad_app fs f : fbad fs -> fbad (fs ++ [f]).
  Proof.
    intros [(x & Hx & Hv) | (x & y & Hx & Hy & Hc)].
    - left. exists x. split; [apply in_or_app; auto | exact Hv].
    - right. exists x, y. repeat split; try (apply in_or_app; auto). exact Hc.
  Qed.

  Lemma NoDup_snoc (X : list F) f : NoDup X -> ~ In f X -> NoDup (X ++ [f]).
  Proof.
    intros HN Hn. apply Permutation_NoDup with (l := f :: X).
    - apply Permutation_cons_append.
    - constructor; assumption.
  Qed.

  Lemma collect_char fs :
    match run addf fs [] with
    | Ok X => fgood fs X
    | Err => fbad fs
    | Crash => False
    end.
  Proof.
    induction fs as [|f fs IH] using rev_ind.
    - simpl. repeat split; try constructor; intros; try contradiction; tauto.
    - rewrite run_app. destruct (run addf fs []) as [X| |]; simpl; [|apply fbad_app; exact IH|exact IH].
      destruct IH as (HN & HI & HV & HC).
      unfold addf, ins. destruct (valid f) eqn:Ev; simpl.
      2:{ left. exists f. split; [apply in_or_app; right; left; reflexivity | exact Ev]. }
      destruct (existsb (confl f) X) eqn:Ec; simpl.
      { apply existsb_exists in Ec. destruct Ec as (g & Hg & Hc).
        right. exists f, g. split; [apply in_or_app; right; left; reflexivity|].
        split; [apply in_or_app; left; apply HI; exact Hg | exact Hc]. }
      assert (Hcf : forall g, In g fs -> confl f g = false).
      { intros g Hg. destruct (confl f g) eqn:E; [|reflexivity].
        assert (existsb (confl f) X = true) by (apply existsb_exists; exists g; split; [apply HI; exact Hg | exact E]).
        congruence. }
      assert (HV' : forall x, In x (fs ++ [f]) -> valid x = true).
      { intros x Hx. apply in_app_or in Hx. destruct Hx as [Hx | [<- | []]]; auto. }
      assert (HC' : forall x y, In x (fs ++ [f]) -> In y (fs ++ [f]) -> confl x y = false).
      { intros x y Hx Hy. apply in_app_or in Hx. apply in_app_or in Hy.
        destruct Hx as [Hx | [<- | []]]; destruct Hy as [Hy | [<- | []]]; auto.
        rewrite confl_sym. auto. }
      destruct (in_dec dec f X) as [Hin | Hnin]; simpl.
      + repeat split; auto.
        * intros Hx. apply in_or_app. left. apply HI. exact Hx.
        * intros Hx. apply in_app_or in Hx. destruct Hx as [Hx | [<- | []]]; [apply HI; exact Hx | exact Hin].
      + repeat split; auto.
        * apply NoDup_snoc; assumption.
        * intros Hx. apply in_app_or in Hx. apply in_or_app. destruct Hx as [Hx | Hx]; [left; apply HI; exact Hx | right; exact Hx].
        * intros Hx. apply in_app_or in Hx. apply in_or_app. destruct Hx as [Hx | Hx]; [left; apply HI; exact Hx | right; exact Hx].
  Qed.

  Lemma fgood_not_fbad fs X : fgood fs X -> fbad fs -> False.
  Proof.
    intros (_ & _ & HV & HC) [(x & Hx & Hv) | (x & y & Hx & Hy & Hc)].
    - rewrite (HV x Hx) in Hv. discriminate.
    - rewrite (HC x y Hx Hy) in Hc. discriminate.
  Qed.

  Lemma collect_ok fs X : run addf fs [] = Ok X -> fgood fs X.
  Proof. intros H. pose proof (collect_char fs) as C. rewrite H in C. exact C. Qed.

  Lemma collect_err fs : run addf fs [] = Err <-> fbad fs.
  Proof.
    pose proof (collect_char fs) as C. split.
    - intros H. rewrite H in C. exact C.
    - intros Hb. destruct (run addf fs []) as [X| |]; [exfalso; eapply fgood_not_fbad; eauto | reflexivity | contradiction].
  Qed.

  Lemma fbad_same_set fs1 fs2 : same_set fs1 fs2 -> fbad fs1 -> fbad fs2.
  Proof.
    intros HS [(x & Hx & Hv) | (x & y & Hx & Hy & Hc)].
    - left. exists x. split; [apply HS; exact Hx | exact Hv].
    - right. exists x, y. repeat split; try (apply HS; assumption). exact Hc.
  Qed.

  Lemma collect_err_same_set fs1 fs2 : same_set fs1 fs2 -> run addf fs1 [] = Err -> run addf fs2 [] = Err.
  Proof. intros HS H. apply collect_err. apply collect_err in H. eapply fbad_same_set; eauto. Qed.

  Lemma collect_ok_same_set fs1 fs2 X1 X2 :
    same_set fs1 fs2 -> run addf fs1 [] = Ok X1 -> run addf fs2 [] = Ok X2 -> Permutation X1 X2.
  Proof.
    intros HS H1 H2. apply collect_ok in H1. apply collect_ok in H2.
    destruct H1 as (N1 & I1 & _). destruct H2 as (N2 & I2 & _).
    apply NoDup_Permutation; auto. intros x. rewrite I1, I2. apply HS.
  Qed.
End Collect.

Lemma same_set_sym {A} (l1 l2 : list A) : same_set l1 l2 -> same_set l2 l1.
Proof. intros H x. symmetry. apply H. Qed.

(* ------------------------------------------------------------------ *)
(* Generic facts: the stable sort *)
From Coq Require Import Sorted.

Section Sort.
  Context {A : Type} (le : A -> A -> bool).
  Hypothesis le_total : forall x y, le x y = true \/ le y x = true.
  Hypothesis le_trans : forall x y z, le x y = true -> le y z = true -> le x z = true.
  Let R x y := le x y = true.

  Lemma insert_perm x l : Permutation (insert le x l) (x :: l).
  Proof.
    induction l as [|y r IH]; simpl; [apply Permutation_refl|].
    destruct (le x y); [apply Permutation_refl|].
    eapply Permutation_trans; [apply perm_skip; exact IH | apply perm_swap].
  Qed.

  Lemma isort_perm l : Permutation (isort le l) l.
  Proof.
    induction l as [|x l IH]; simpl; [constructor|].
    eapply Permutation_trans; [apply insert_perm | apply perm_skip; exact IH].
  Qed.

  Lemma insert_sorted x l : StronglySorted R l -> StronglySorted R (insert le x l).
  Proof.
    induction 1 as [|y r Hs IH Hall]; simpl.
    - constructor; constructor.
    - destruct (le x y) eqn:E.
      + constructor; [constructor; assumption|].
        constructor; [exact E|].
        rewrite Forall_forall in *. intros z Hz. eapply le_trans; [exact E | apply Hall; exact Hz].
      + constructor; [exact IH|].
        rewrite Forall_forall in *. intros z Hz.
        apply (Permutation_in _ (insert_perm x r)) in Hz. destruct Hz as [<- | Hz].
        * destruct (le_total x y) as [H | H]; [congruence | exact H].
        * apply Hall; exact Hz.
  Qed.

  Lemma isort_sorted l : StronglySorted R (isort le l).
  Proof. induction l as [|x l IH]; simpl; [constructor | apply insert_sorted; exact IH]. Qed.

  Lemma sorted_perm_unique l1 : forall l2,
    StronglySorted R l1 -> StronglySorted R l2 -> Permutation l1 l2 ->
    (forall x y, In x l1 -> In y l1 -> R x y -> R y x -> x = y) -> l1 = l2.
  Proof.
    induction l1 as [|a r1 IH]; intros l2 S1 S2 P Anti.
    - apply Permutation_nil in P. symmetry; exact P.
    - destruct l2 as [|b r2]; [apply Permutation_sym, Permutation_nil in P; discriminate|].
      inversion S1 as [|? ? S1' F1]; subst. inversion S2 as [|? ? S2' F2]; subst.
      rewrite Forall_forall in F1, F2.
      assert (Hab : a = b).
      { assert (Hb : In b (a :: r1)) by (apply (Permutation_in _ (Permutation_sym P)); left; reflexivity).
        assert (Ha : In a (b :: r2)) by (apply (Permutation_in _ P); left; reflexivity).
        destruct Hb as [Hb | Hb]; [exact Hb|]. destruct Ha as [Ha | Ha]; [symmetry; exact Ha|].
        apply Anti; [left; reflexivity | right; exact Hb | apply F1; exact Hb | apply F2; exact Ha]. }
      subst b. f_equal. apply IH; auto.
      + eapply Permutation_cons_inv; exact P.
      + intros x y Hx Hy. apply Anti; right; assumption.
  Qed.

  Lemma isort_perm_eq l1 l2 :
    Permutation l1 l2 ->
    (forall x y, In x l1 -> In y l1 -> le x y = true -> le y x = true -> x = y) ->
    isort le l1 = isort le l2.
  Proof.
    intros P Anti. apply sorted_perm_unique; try apply isort_sorted.
    - eapply Permutation_trans; [apply isort_perm|]. eapply Permutation_trans; [exact P|]. apply Permutation_sym, isort_perm.
    - intros x y Hx Hy. apply Anti; apply (Permutation_in _ (isort_perm l1)); assumption.
  Qed.
End Sort.

Lemma insert_ext {A} (le1 le2 : A -> A -> bool) : (forall x y, le1 x y = le2 x y) ->
  forall x l, insert le1 x l = insert le2 x l.
Proof. intros H x l. induction l as [|y r IH]; simpl; [reflexivity|]. rewrite H, IH. reflexivity. Qed.

Lemma isort_ext {A} (le1 le2 : A -> A -> bool) : (forall x y, le1 x y = le2 x y) ->
  forall l, isort le1 l = isort le2 l.
Proof. intros H l. induction l as [|x l IH]; simpl; [reflexivity|]. rewrite IH. apply insert_ext. exact H. Qed.

(* sorting by an integer key *)
Lemma isort_key_perm_eq {A} (k : A -> Z) l1 l2 :
  Permutation l1 l2 -> (forall x y, In x l1 -> In y l1 -> k x = k y -> x = y) ->
  isort (fun x y => k x <=? k y) l1 = isort (fun x y => k x <=? k y) l2.
Proof.
  intros P Inj. apply isort_perm_eq; auto.
  - intros x y. destruct (Z.le_ge_cases (k x) (k y)); [left | right]; apply Z.leb_le; assumption.
  - intros x y z H1 H2. apply Z.leb_le in H1, H2. apply Z.leb_le. lia.
  - intros x y Hx Hy H1 H2. apply Z.leb_le in H1, H2. apply Inj; auto. lia.
Qed.

(* strcmp order *)
Lemma str_le_total a : forall b, str_le a b = true \/ str_le b a = true.
Proof.
  induction a as [|x a IH]; intros [|y b]; simpl; auto.
  destruct (x <? y) eqn:E1; [auto|]. destruct (y <? x) eqn:E2; [auto|]. apply IH.
Qed.

Lemma str_le_trans a : forall b c, str_le a b = true -> str_le b c = true -> str_le a c = true.
Proof.
  induction a as [|x a IH]; intros [|y b] [|z c]; simpl; auto; try discriminate.
  destruct (x <? y) eqn:E1; destruct (y <? x) eqn:E2; destruct (y <? z) eqn:E3; destruct (z <? y) eqn:E4;
    destruct (x <? z) eqn:E5; destruct (z <? x) eqn:E6; auto; try discriminate;
    repeat match goal with
           | H : (_ <? _) = true |- _ => apply Z.ltb_lt in H
           | H : (_ <? _) = false |- _ => apply Z.ltb_ge in H
           end; try lia.
  apply IH.
Qed.

Lemma str_le_antisym a : forall b, str_le a b = true -> str_le b a = true -> a = b.
Proof.
  induction a as [|x a IH]; intros [|y b]; simpl; auto; try discriminate.
  destruct (x <? y) eqn:E1; destruct (y <? x) eqn:E2; try discriminate;
    repeat match goal with
           | H : (_ <? _) = true |- _ => apply Z.ltb_lt in H
           | H : (_ <? _) = false |- _ => apply Z.ltb_ge in H
           end; try lia.
  intros H1 H2. f_equal; [lia | apply IH; assumption].
Qed.

(* ------------------------------------------------------------------ *)
(* Generic facts: invariance under permutation *)
Lemma perm_filter {A} (f : A -> bool) l1 l2 : Permutation l1 l2 -> Permutation (filter f l1) (filter f l2).
Proof.
  induction 1; simpl.
  - constructor.
  - destruct (f x); [apply perm_skip|]; assumption.
  - destruct (f x), (f y); try apply Permutation_refl. apply perm_swap.
  - eapply Permutation_trans; eassumption.
Qed.

Lemma perm_existsb {A} (f : A -> bool) l1 l2 : Permutation l1 l2 -> existsb f l1 = existsb f l2.
Proof.
  induction 1; simpl; auto.
  - rewrite IHPermutation. reflexivity.
  - destruct (f x), (f y); reflexivity.
  - congruence.
Qed.

Lemma perm_forallb {A} (f : A -> bool) l1 l2 : Permutation l1 l2 -> forallb f l1 = forallb f l2.
Proof.
  induction 1; simpl; auto.
  - rewrite IHPermutation. reflexivity.
  - destruct (f x), (f y); reflexivity.
  - congruence.
Qed.

Lemma existsb_ext_in {A} (f g : A -> bool) l : (forall x, In x l -> f x = g x) -> existsb f l = existsb g l.
Proof.
  induction l as [|x l IH]; intros H; simpl; [reflexivity|].
  rewrite H by (left; reflexivity). rewrite IH; [reflexivity|]. intros y Hy. apply H. right; exact Hy.
Qed.

Lemma forallb_ext_in {A} (f g : A -> bool) l : (forall x, In x l -> f x = g x) -> forallb f l = forallb g l.
Proof.
  induction l as [|x l IH]; intros H; simpl; [reflexivity|].
  rewrite H by (left; reflexivity). rewrite IH; [reflexivity|]. intros y Hy. apply H. right; exact Hy.
Qed.

Lemma find_perm_unique {A} (f : A -> bool) l1 l2 :
  Permutation l1 l2 -> (forall x y, In x l1 -> In y l1 -> f x = true -> f y = true -> x = y) ->
  find f l1 = find f l2.
Proof.
  intros P U. destruct (find f l1) as [x|] eqn:E1; destruct (find f l2) as [y|] eqn:E2; auto.
  - apply find_some in E1. apply find_some in E2. destruct E1 as [I1 F1]. destruct E2 as [I2 F2].
    f_equal. apply U; auto. apply (Permutation_in _ (Permutation_sym P)); exact I2.
  - apply find_some in E1. destruct E1 as [I1 F1].
    pose proof (find_none _ _ E2 x (Permutation_in _ P I1)). congruence.
  - apply find_some in E2. destruct E2 as [I2 F2].
    pose proof (find_none _ _ E1 y (Permutation_in _ (Permutation_sym P) I2)). congruence.
Qed.

(* minimum of a non-empty list *)
Lemma lmin_char r rs : In (fold_right Z.min r rs) (r :: rs) /\ forall x, In x (r :: rs) -> fold_right Z.min r rs <= x.
Proof.
  induction rs as [|a rs IH]; simpl.
  - split; [left; reflexivity | intros x [<- | []]; lia].
  - destruct IH as [Hin Hle]. split.
    + destruct (Z.min_spec a (fold_right Z.min r rs)) as [[_ ->] | [_ ->]].
      * right; left; reflexivity.
      * simpl in Hin. destruct Hin as [Hin | Hin]; [left; exact Hin | right; right; exact Hin].
    + intros x [<- | [<- | Hx]].
      * specialize (Hle r (or_introl eq_refl)). lia.
      * lia.
      * specialize (Hle x (or_intror Hx)). lia.
Qed.

Definition lmin (l : list Z) : Z := match l with [] => INT_MAX | r :: rs => fold_right Z.min r rs end.

Lemma lmin_perm l1 l2 : Permutation l1 l2 -> lmin l1 = lmin l2.
Proof.
  intros P. destruct l1 as [|a r1]; destruct l2 as [|b r2]; simpl.
  - reflexivity.
  - apply Permutation_nil in P. discriminate.
  - apply Permutation_sym, Permutation_nil in P. discriminate.
  - destruct (lmin_char a r1) as [I1 L1]. destruct (lmin_char b r2) as [I2 L2].
    pose proof (L1 _ (Permutation_in _ (Permutation_sym P) I2)).
    pose proof (L2 _ (Permutation_in _ P I1)). lia.
Qed.

Lemma lmin_in l : l <> [] -> In (lmin l) l.
Proof. destruct l as [|r rs]; [congruence|]. intros _. apply (lmin_char r rs). Qed.

(* ================================================================== *)
(* The loop of create_system falls apart into six independent tables *)
Definition cL (m : list stream_meta) := run add_loom (flat_map loom_claim m) [].
Definition cC (m : list stream_meta) := run add_cpu (cpu_claims m) [].
Definition cP (m : list stream_meta) := run add_proc (flat_map proc_claim m) [].
Definition cA (m : list stream_meta) := run add_app (app_claims m) [].
Definition cR (m : list stream_meta) := run add_rank (rank_claims m) [].
Definition cT (m : list stream_meta) := run add_thread (flat_map thread_claim m) [].

Lemma add_thread_crash_free : crash_free add_thread.
Proof. intros X k. unfold add_thread. destruct (snd k <=? 0); [discriminate|]. destruct (in_dec key_dec k X); discriminate. Qed.

Lemma lift_ins_crash_free {F} dec valid confl : crash_free (fun (X : list F) f => lift (ins dec valid confl X f)).
Proof. intros X f. destruct (ins dec valid confl X f); discriminate. Qed.
Lemma add_loom_cf : crash_free add_loom. Proof. apply lift_ins_crash_free. Qed.
Lemma add_cpu_cf : crash_free add_cpu. Proof. apply lift_ins_crash_free. Qed.
Lemma add_proc_cf : crash_free add_proc. Proof. apply lift_ins_crash_free. Qed.
Lemma add_app_cf : crash_free add_app. Proof. apply lift_ins_crash_free. Qed.
Lemma add_rank_cf : crash_free add_rank. Proof. apply lift_ins_crash_free. Qed.
Ltac cf := repeat first [apply par_crash_free | apply part_crash_free | apply run_crash_free
                         | apply add_loom_cf | apply add_cpu_cf | apply add_proc_cf
                         | apply add_app_cf | apply add_rank_cf | apply add_thread_crash_free].

Lemma raw_decomp m :
  raw m = pair_res (cL m) (pair_res (cC m) (pair_res (cP m) (pair_res (cA m) (pair_res (cR m) (cT m))))).
Proof.
  unfold raw, raw_gen, step_gen, st0, cL, cC, cP, cA, cR, cT, app_claims, rank_claims, cpu_claims.
  rewrite (@run_par (list name) (cpu_table * (list pkey * (list app_fact * (list rank_fact * list key)))) stream_meta
             (part add_loom loom_claim)) by cf.
  rewrite (@run_par cpu_table (list pkey * (list app_fact * (list rank_fact * list key))) stream_meta
             (part add_cpu cpu_claim)) by cf.
  rewrite (@run_par (list pkey) (list app_fact * (list rank_fact * list key)) stream_meta
             (part add_proc proc_claim)) by cf.
  rewrite (@run_par (list app_fact) (list rank_fact * list key) stream_meta
             (part add_app app_claim)) by cf.
  rewrite (@run_par (list rank_fact) (list key) stream_meta
             (part add_rank rank_claim)) by cf.
  rewrite !run_part. rewrite (@run_part cpu_fact stream_meta add_cpu cpu_claim). reflexivity.
Qed.

Lemma pair_res_ok {A B} (ra : outcome A) (rb : outcome B) x :
  pair_res ra rb = Ok x -> ra = Ok (fst x) /\ rb = Ok (snd x).
Proof. destruct ra, rb; simpl; intros H; inversion H; subst; auto. Qed.

Lemma pair_res_nocrash {A B} (ra : outcome A) (rb : outcome B) : pair_res ra rb <> Crash.
Proof. destruct ra, rb; discriminate. Qed.

Lemma pair_res_err {A B} (ra : outcome A) (rb : outcome B) :
  ra <> Crash -> rb <> Crash -> (pair_res ra rb = Err <-> ra = Err \/ rb = Err).
Proof. destruct ra, rb; simpl; intros; split; intros; try tauto; try discriminate; destruct H1; discriminate. Qed.

Lemma raw_ok m st : raw m = Ok st ->
  cL m = Ok (st_looms st) /\ cC m = Ok (st_cpus st) /\ cP m = Ok (st_procs st) /\
  cA m = Ok (st_apps st) /\ cR m = Ok (st_ranks st) /\ cT m = Ok (st_threads st).
Proof.
  rewrite raw_decomp. intros H.
  apply pair_res_ok in H. destruct H as [H1 H]. apply pair_res_ok in H. destruct H as [H2 H].
  apply pair_res_ok in H. destruct H as [H3 H]. apply pair_res_ok in H. destruct H as [H4 H].
  apply pair_res_ok in H. destruct H as [H5 H6]. repeat split; assumption.
Qed.

Lemma raw_no_crash m : raw m <> Crash.
Proof. rewrite raw_decomp. apply pair_res_nocrash. Qed.

Lemma raw_err m : raw m = Err <-> cL m = Err \/ cC m = Err \/ cP m = Err \/ cA m = Err \/ cR m = Err \/ cT m = Err.
Proof.
  rewrite raw_decomp.
  assert (NL : cL m <> Crash) by cf.
  assert (NC : cC m <> Crash) by cf.
  assert (NP : cP m <> Crash) by cf.
  assert (NA : cA m <> Crash) by cf.
  assert (NR : cR m <> Crash) by cf.
  assert (NT : cT m <> Crash) by (apply run_crash_free, add_thread_crash_free).
  destruct (cL m); try congruence; destruct (cC m); try congruence; destruct (cP m); try congruence;
    destruct (cA m); try congruence; destruct (cR m); try congruence; destruct (cT m); try congruence;
    simpl; (split; [intros H; first [discriminate H | tauto]
                   | intros H; first [reflexivity | (repeat destruct H as [H | H]); discriminate H]]).
Qed.

(* the thread table *)
Lemma cT_char ks :
  match run add_thread ks [] with
  | Ok T => T = ks /\ NoDup ks /\ forall k, In k ks -> 0 < snd k
  | Err => ~ NoDup ks \/ exists k, In k ks /\ snd k <= 0
  | Crash => False
  end.
Proof.
  induction ks as [|k ks IH] using rev_ind.
  - simpl. split; [reflexivity | split; [constructor | intros k []]].
  - rewrite run_app. destruct (run add_thread ks []) as [T| |]; simpl.
    + destruct IH as (-> & HN & HP). unfold add_thread. destruct (snd k <=? 0) eqn:E.
      * right. exists k. split; [apply in_or_app; right; left; reflexivity | apply Z.leb_le; exact E].
      * destruct (in_dec key_dec k ks) as [Hin | Hnin].
        -- left. intros HN'. apply NoDup_remove_2 in HN'. apply HN'. rewrite app_nil_r. exact Hin.
        -- split; [reflexivity | split; [apply NoDup_snoc; assumption|]].
           intros x Hx. apply in_app_or in Hx. destruct Hx as [Hx | [<- | []]]; [apply HP; exact Hx|].
           apply Z.leb_gt in E. exact E.
    + destruct IH as [HN | (x & Hx & Hle)].
      * left. intros HN'. apply HN. apply NoDup_remove_1 in HN'. rewrite app_nil_r in HN'. exact HN'.
      * right. exists x. split; [apply in_or_app; left; exact Hx | exact Hle].
    + exact IH.
Qed.

Lemma cT_ok ks T : run add_thread ks [] = Ok T -> T = ks /\ NoDup ks /\ forall k, In k ks -> 0 < snd k.
Proof. intros H. pose proof (cT_char ks) as C. rewrite H in C. exact C. Qed.

Lemma cT_err ks : run add_thread ks [] = Err <-> (~ NoDup ks \/ exists k, In k ks /\ snd k <= 0).
Proof.
  pose proof (cT_char ks) as C. split.
  - intros H. rewrite H in C. exact C.
  - intros Hb. destruct (run add_thread ks []) as [T| |]; [|reflexivity|contradiction].
    destruct C as (_ & HN & HP). destruct Hb as [Hb | (k & Hk & Hle)]; [contradiction|].
    specialize (HP k Hk). lia.
Qed.

Lemma keys_claims m : flat_map thread_claim m = keys m.
Proof. induction m as [|s m IH]; simpl; [reflexivity | rewrite IH; reflexivity]. Qed.
Lemma loom_claims m : flat_map loom_claim m = map s_loom m.
Proof. induction m as [|s m IH]; simpl; [reflexivity | rewrite IH; reflexivity]. Qed.
Lemma proc_claims m : flat_map proc_claim m = map spkey m.
Proof. induction m as [|s m IH]; simpl; [reflexivity | rewrite IH; reflexivity]. Qed.

Lemma map_loom_keys m : map s_loom m = map (fun k : key => fst (fst k)) (keys m).
Proof. unfold keys. rewrite map_map. reflexivity. Qed.
Lemma map_pkey_keys m : map spkey m = map (fun k : key => fst k) (keys m).
Proof. unfold keys. rewrite map_map. reflexivity. Qed.

(* symmetry / irreflexivity of the conflict relations *)
Lemma pkey_eqb_sym a b : pkey_eqb a b = pkey_eqb b a.
Proof. unfold pkey_eqb. destruct (pkey_dec a b), (pkey_dec b a); congruence. Qed.
Lemma pkey_eqb_true a b : pkey_eqb a b = true <-> a = b.
Proof. unfold pkey_eqb. destruct (pkey_dec a b); split; congruence. Qed.
Lemma name_eqb_sym a b : name_eqb a b = name_eqb b a.
Proof. unfold name_eqb. destruct (name_dec a b), (name_dec b a); congruence. Qed.
Lemma name_eqb_true a b : name_eqb a b = true <-> a = b.
Proof. unfold name_eqb. destruct (name_dec a b); split; congruence. Qed.

Lemma no_confl_sym {F} (f g : F) : no_confl f g = no_confl g f. Proof. reflexivity. Qed.
Lemma no_confl_irrefl {F} (f : F) : no_confl f f = false. Proof. reflexivity. Qed.
Lemma confl_app_sym f g : confl_app f g = confl_app g f.
Proof. unfold confl_app. rewrite pkey_eqb_sym, (Z.eqb_sym (snd f)). reflexivity. Qed.
Lemma confl_app_irrefl f : confl_app f f = false.
Proof. unfold confl_app. rewrite Z.eqb_refl. apply andb_false_r. Qed.
Lemma confl_rank_sym f g : confl_rank f g = confl_rank g f.
Proof. unfold confl_rank. rewrite pkey_eqb_sym. destruct (rattr_dec (snd f) (snd g)), (rattr_dec (snd g) (snd f)); congruence. Qed.
Lemma confl_rank_irrefl f : confl_rank f f = false.
Proof. unfold confl_rank. destruct (rattr_dec (snd f) (snd f)); [apply andb_false_r | congruence]. Qed.
Lemma confl_cpu_sym f g : confl_cpu f g = confl_cpu g f.
Proof.
  unfold confl_cpu. rewrite name_eqb_sym. destruct (snd f) as [[i p]|], (snd g) as [[j q]|]; try reflexivity.
  rewrite (Z.eqb_sym i j), (Z.eqb_sym p q). reflexivity.
Qed.
Lemma confl_cpu_irrefl f : confl_cpu f f = false.
Proof.
  unfold confl_cpu. destruct (snd f) as [[i p]|]; [|apply andb_false_r].
  rewrite !Z.eqb_refl. simpl. apply andb_false_r.
Qed.

(* ================================================================== *)
(* The union decides whether create_system fails, and the tables up to order *)
Lemma same_union_sym m1 m2 : same_union m1 m2 -> same_union m2 m1.
Proof.
  intros (K & A & R & C). repeat split; try (apply Permutation_sym; exact K); intros H; first [apply A | apply R | apply C]; exact H.
Qed.

Lemma same_union_looms m1 m2 : same_union m1 m2 -> Permutation (map s_loom m1) (map s_loom m2).
Proof. intros (K & _). rewrite !map_loom_keys. apply Permutation_map. exact K. Qed.
Lemma same_union_pkeys m1 m2 : same_union m1 m2 -> Permutation (map spkey m1) (map spkey m2).
Proof. intros (K & _). rewrite !map_pkey_keys. apply Permutation_map. exact K. Qed.

Lemma perm_same_set {A} (l1 l2 : list A) : Permutation l1 l2 -> same_set l1 l2.
Proof. intros P x. split; apply Permutation_in; [exact P | apply Permutation_sym; exact P]. Qed.

Lemma raw_err_union m1 m2 : same_union m1 m2 -> raw m1 = Err -> raw m2 = Err.
Proof.
  intros U H. apply raw_err. apply raw_err in H. pose proof U as (K & A & R & C).
  destruct H as [H | [H | [H | [H | [H | H]]]]].
  - left. unfold cL in *. rewrite loom_claims in *.
    eapply (collect_err_same_set name_dec valid_name no_confl no_confl_sym no_confl_irrefl); [|exact H].
    apply perm_same_set, same_union_looms, U.
  - right; left. eapply (collect_err_same_set cpu_fact_dec valid_cpu confl_cpu confl_cpu_sym confl_cpu_irrefl); [exact C | exact H].
  - right; right; left. unfold cP in *. rewrite proc_claims in *.
    eapply (collect_err_same_set pkey_dec valid_proc no_confl no_confl_sym no_confl_irrefl); [|exact H].
    apply perm_same_set, same_union_pkeys, U.
  - do 3 right; left. eapply (collect_err_same_set app_fact_dec valid_app confl_app confl_app_sym confl_app_irrefl); [exact A | exact H].
  - do 4 right; left. eapply (collect_err_same_set rank_fact_dec valid_rank confl_rank confl_rank_sym confl_rank_irrefl); [exact R | exact H].
  - do 5 right. unfold cT in *. rewrite keys_claims in *. apply cT_err. apply cT_err in H.
    destruct H as [H | (k & Hk & Hle)].
    + left. intros HN. apply H. eapply Permutation_NoDup; [apply Permutation_sym; exact K | exact HN].
    + right. exists k. split; [eapply Permutation_in; [exact K | exact Hk] | exact Hle].
Qed.

Definition st_equiv (st1 st2 : state) : Prop :=
  Permutation (st_looms st1) (st_looms st2) /\ Permutation (st_cpus st1) (st_cpus st2) /\
  Permutation (st_procs st1) (st_procs st2) /\ Permutation (st_apps st1) (st_apps st2) /\
  Permutation (st_ranks st1) (st_ranks st2) /\ Permutation (st_threads st1) (st_threads st2).

Lemma raw_ok_union m1 m2 st1 st2 : same_union m1 m2 -> raw m1 = Ok st1 -> raw m2 = Ok st2 -> st_equiv st1 st2.
Proof.
  intros U H1 H2. pose proof U as (K & A & R & C).
  apply raw_ok in H1. apply raw_ok in H2.
  destruct H1 as (L1 & C1 & P1 & A1 & R1 & T1). destruct H2 as (L2 & C2 & P2 & A2 & R2 & T2).
  unfold st_equiv. repeat split.
  - unfold cL in *. rewrite loom_claims in *.
    eapply (collect_ok_same_set name_dec valid_name no_confl no_confl_sym no_confl_irrefl); [|exact L1|exact L2].
    apply perm_same_set, same_union_looms, U.
  - eapply (collect_ok_same_set cpu_fact_dec valid_cpu confl_cpu confl_cpu_sym confl_cpu_irrefl); [exact C|exact C1|exact C2].
  - unfold cP in *. rewrite proc_claims in *.
    eapply (collect_ok_same_set pkey_dec valid_proc no_confl no_confl_sym no_confl_irrefl); [|exact P1|exact P2].
    apply perm_same_set, same_union_pkeys, U.
  - eapply (collect_ok_same_set app_fact_dec valid_app confl_app confl_app_sym confl_app_irrefl); [exact A|exact A1|exact A2].
  - eapply (collect_ok_same_set rank_fact_dec valid_rank confl_rank confl_rank_sym confl_rank_irrefl); [exact R|exact R1|exact R2].
  - unfold cT in *. rewrite keys_claims in *. apply cT_ok in T1. apply cT_ok in T2.
    destruct T1 as (-> & _). destruct T2 as (-> & _). exact K.
Qed.

(* ================================================================== *)
(* What a successful create_system guarantees about the tables *)
Record tables_ok (m : list stream_meta) (st : state) : Prop := {
  tk_looms : forall l, In l (st_looms st) <-> In l (map s_loom m);
  tk_procs : forall k, In k (st_procs st) <-> In k (map spkey m);
  tk_apps : forall f, In f (st_apps st) <-> In f (app_claims m);
  tk_ranks : forall f, In f (st_ranks st) <-> In f (rank_claims m);
  tk_cpus : forall f, In f (st_cpus st) <-> In f (cpu_claims m);
  tk_app_uniq : forall f g, In f (st_apps st) -> In g (st_apps st) -> fst f = fst g -> f = g;
  tk_rank_uniq : forall f g, In f (st_ranks st) -> In g (st_ranks st) -> fst f = fst g -> f = g;
  tk_rank_nonneg : forall f, In f (st_ranks st) -> 0 <= fst (snd f);
  tk_cpu_valid : forall f, In f (st_cpus st) -> exists i p, snd f = Some (i, p) /\ 0 <= i /\ 0 <= p;
  tk_cpu_phy : forall l i j p, In (l, Some (i, p)) (st_cpus st) -> In (l, Some (j, p)) (st_cpus st) -> i = j;
  tk_cpu_idx : forall l i p q, In (l, Some (i, p)) (st_cpus st) -> In (l, Some (i, q)) (st_cpus st) -> p = q;
  tk_threads : st_threads st = keys m
}.

Lemma raw_tables_ok m st : raw m = Ok st -> tables_ok m st.
Proof.
  intros H. apply raw_ok in H. destruct H as (L & C & P & A & R & T).
  unfold cL in L. rewrite loom_claims in L.
  apply (collect_ok name_dec valid_name no_confl no_confl_sym no_confl_irrefl) in L.
  unfold cP in P. rewrite proc_claims in P.
  apply (collect_ok pkey_dec valid_proc no_confl no_confl_sym no_confl_irrefl) in P.
  apply (collect_ok app_fact_dec valid_app confl_app confl_app_sym confl_app_irrefl) in A.
  apply (collect_ok rank_fact_dec valid_rank confl_rank confl_rank_sym confl_rank_irrefl) in R.
  apply (collect_ok cpu_fact_dec valid_cpu confl_cpu confl_cpu_sym confl_cpu_irrefl) in C.
  unfold cT in T. rewrite keys_claims in T. apply cT_ok in T.
  destruct L as (_ & LI & _). destruct P as (_ & PI & _). destruct A as (_ & AI & _ & AC).
  destruct R as (_ & RI & RV & RC). destruct C as (_ & CI & CV & CC). destruct T as (T & _).
  constructor; auto.
  - intros f g Hf Hg E. apply AI in Hf. apply AI in Hg. specialize (AC f g Hf Hg).
    unfold confl_app in AC. destruct f as [kf af], g as [kg ag]; simpl in *. subst kg.
    assert (EK : pkey_eqb kf kf = true) by (apply pkey_eqb_true; reflexivity). rewrite EK in AC. simpl in AC.
    apply negb_false_iff, Z.eqb_eq in AC. congruence.
  - intros f g Hf Hg E. apply RI in Hf. apply RI in Hg. specialize (RC f g Hf Hg).
    unfold confl_rank in RC. destruct f as [kf af], g as [kg ag]; simpl in *. subst kg.
    assert (EK : pkey_eqb kf kf = true) by (apply pkey_eqb_true; reflexivity). rewrite EK in RC. simpl in RC.
    destruct (rattr_dec af ag); [congruence | discriminate].
  - intros f Hf. apply RI in Hf. specialize (RV f Hf). unfold valid_rank in RV.
    destruct (snd f) as [r [n|]]; [|discriminate]. simpl. apply andb_true_iff in RV. destruct RV as [RV _].
    apply andb_true_iff in RV. destruct RV as [RV _]. apply Z.leb_le in RV. exact RV.
  - intros f Hf. apply CI in Hf. specialize (CV f Hf). unfold valid_cpu in CV.
    destruct (snd f) as [[i p]|]; [|discriminate]. exists i, p. apply andb_true_iff in CV. destruct CV as [V1 V2].
    apply Z.leb_le in V1, V2. auto.
  - intros l i j p Hf Hg. apply CI in Hf. apply CI in Hg. specialize (CC _ _ Hf Hg).
    unfold confl_cpu in CC; simpl in CC.
    assert (EK : name_eqb l l = true) by (apply name_eqb_true; reflexivity). rewrite EK in CC. simpl in CC.
    rewrite Z.eqb_refl in CC. simpl in CC. apply orb_false_iff in CC. destruct CC as [_ CC].
    apply negb_false_iff, Z.eqb_eq in CC. exact CC.
  - intros l i p q Hf Hg. apply CI in Hf. apply CI in Hg. specialize (CC _ _ Hf Hg).
    unfold confl_cpu in CC; simpl in CC.
    assert (EK : name_eqb l l = true) by (apply name_eqb_true; reflexivity). rewrite EK in CC. simpl in CC.
    rewrite Z.eqb_refl in CC. simpl in CC. apply orb_false_iff in CC. destruct CC as [CC _].
    apply negb_false_iff, Z.eqb_eq in CC. exact CC.
Qed.

(* views of the tables *)
Lemma in_procs_of st l p : In p (procs_of st l) <-> In (l, p) (st_procs st).
Proof.
  unfold procs_of. rewrite in_map_iff. split.
  - intros ([l' p'] & E & H). simpl in E. subst p'. apply filter_In in H. destruct H as [H E].
    simpl in E. apply name_eqb_true in E. subst l'. exact H.
  - intros H. exists (l, p). split; [reflexivity|]. apply filter_In. split; [exact H|]. apply name_eqb_true. reflexivity.
Qed.

Lemma in_cpus_of st l e : In e (cpus_of st l) <-> In (l, Some e) (st_cpus st).
Proof.
  unfold cpus_of. rewrite in_flat_map. split.
  - intros ([l' o] & H & E). apply filter_In in H. destruct H as [H N]. simpl in N. apply name_eqb_true in N. subst l'.
    simpl in E. destruct o as [e'|]; [|contradiction]. destruct E as [<- | []]. exact H.
  - intros H. exists (l, Some e). split; [|left; reflexivity].
    apply filter_In. split; [exact H|]. apply name_eqb_true. reflexivity.
Qed.

Lemma perm_flat_map {A B} (f : A -> list B) l1 l2 : Permutation l1 l2 -> Permutation (flat_map f l1) (flat_map f l2).
Proof.
  induction 1; simpl.
  - constructor.
  - apply Permutation_app_head. assumption.
  - rewrite !app_assoc. apply Permutation_app_tail. apply Permutation_app_comm.
  - eapply Permutation_trans; eassumption.
Qed.

Lemma rank_of_some st k : 0 <= rank_of st k -> (forall f, In f (st_ranks st) -> 0 <= fst (snd f)) ->
  exists f, In f (st_ranks st) /\ fst f = k /\ fst (snd f) = rank_of st k.
Proof.
  intros H _. unfold rank_of in *. destruct (find (fun f => pkey_eqb (fst f) k) (st_ranks st)) as [f|] eqn:E; [|lia].
  apply find_some in E. destruct E as [I E]. apply pkey_eqb_true in E. exists f. auto.
Qed.

(* the repaired orders (rank then PID; minimum rank then name) are total orders on all values:
   sorting a permutation gives the same list whatever the ranks are *)
Lemma proc_le_total st l p q : proc_le true st l p q = true \/ proc_le true st l q p = true.
Proof. unfold proc_le. destruct (rank_enabled st l); lia. Qed.
Lemma proc_le_trans st l p q r : proc_le true st l p q = true -> proc_le true st l q r = true -> proc_le true st l p r = true.
Proof. unfold proc_le. destruct (rank_enabled st l); lia. Qed.
Lemma proc_le_antisym st l p q : proc_le true st l p q = true -> proc_le true st l q p = true -> p = q.
Proof. unfold proc_le. destruct (rank_enabled st l); lia. Qed.

Lemma loom_le_total st br a b : loom_le true st br a b = true \/ loom_le true st br b a = true.
Proof.
  unfold loom_le. destruct br; [|apply str_le_total].
  destruct (str_le_total a b) as [H | H]; rewrite H; lia.
Qed.
Lemma loom_le_trans st br a b c : loom_le true st br a b = true -> loom_le true st br b c = true -> loom_le true st br a c = true.
Proof.
  unfold loom_le. destruct br; [|apply str_le_trans].
  intros H1 H2.
  destruct (rank_min st a <? rank_min st c) eqn:E; [reflexivity|]. cbn [orb].
  assert (Eab : rank_min st a = rank_min st b /\ rank_min st b = rank_min st c) by lia.
  destruct Eab as [Eab Ebc]. rewrite Eab, Ebc, Z.ltb_irrefl, Z.eqb_refl in *. cbn [orb andb] in *.
  eapply str_le_trans; eassumption.
Qed.
Lemma loom_le_antisym st br a b : loom_le true st br a b = true -> loom_le true st br b a = true -> a = b.
Proof.
  unfold loom_le. destruct br; [|apply str_le_antisym].
  intros H1 H2.
  assert (E : rank_min st a = rank_min st b) by lia.
  rewrite E, Z.ltb_irrefl, Z.eqb_refl in *. cbn [orb andb] in *. apply str_le_antisym; assumption.
Qed.

Section FinishUnion.
  Variables (m1 m2 : list stream_meta) (st1 st2 : state).
  Hypothesis U : same_union m1 m2.
  Hypothesis R1 : raw m1 = Ok st1.
  Hypothesis R2 : raw m2 = Ok st2.

  Let EQ : st_equiv st1 st2 := raw_ok_union _ _ _ _ U R1 R2.
  Let W1 : tables_ok m1 st1 := raw_tables_ok _ _ R1.

  Lemma fu_procs_of l : Permutation (procs_of st1 l) (procs_of st2 l).
  Proof. destruct EQ as (_ & _ & P & _). unfold procs_of. apply Permutation_map, perm_filter, P. Qed.

  Lemma fu_threads_of k : Permutation (threads_of st1 k) (threads_of st2 k).
  Proof. destruct EQ as (_ & _ & _ & _ & _ & T). unfold threads_of. apply Permutation_map, perm_filter, T. Qed.

  Lemma fu_cpus_of l : Permutation (cpus_of st1 l) (cpus_of st2 l).
  Proof. destruct EQ as (_ & C & _). unfold cpus_of. apply perm_flat_map, perm_filter, C. Qed.

  Lemma fu_rank_of k : rank_of st1 k = rank_of st2 k.
  Proof.
    destruct EQ as (_ & _ & _ & _ & R & _). unfold rank_of.
    rewrite (find_perm_unique _ _ _ R); [reflexivity|].
    intros x y Hx Hy Ex Ey. apply pkey_eqb_true in Ex, Ey. apply (tk_rank_uniq _ _ W1); auto. congruence.
  Qed.

  Lemma fu_app_of k : app_of st1 k = app_of st2 k.
  Proof.
    destruct EQ as (_ & _ & _ & A & _). unfold app_of.
    rewrite (find_perm_unique _ _ _ A); [reflexivity|].
    intros x y Hx Hy Ex Ey. apply pkey_eqb_true in Ex, Ey. apply (tk_app_uniq _ _ W1); auto. congruence.
  Qed.

  Lemma fu_loom_ranks l : Permutation (loom_ranks st1 l) (loom_ranks st2 l).
  Proof.
    unfold loom_ranks. rewrite (map_ext _ (fun p => rank_of st2 (l, p))) by (intros; apply fu_rank_of).
    apply Permutation_map, fu_procs_of.
  Qed.

  Lemma fu_enabled l : rank_enabled st1 l = rank_enabled st2 l.
  Proof. unfold rank_enabled. apply perm_existsb, fu_loom_ranks. Qed.
  Lemma fu_incomplete l : rank_incomplete st1 l = rank_incomplete st2 l.
  Proof. unfold rank_incomplete. rewrite fu_enabled. f_equal. apply perm_existsb, fu_loom_ranks. Qed.
  Lemma fu_rank_min l : rank_min st1 l = rank_min st2 l.
  Proof. change (lmin (loom_ranks st1 l) = lmin (loom_ranks st2 l)). apply lmin_perm, fu_loom_ranks. Qed.

  Lemma fu_all_ranked l : rank_enabled st1 l = true -> rank_incomplete st1 l = false ->
    forall p, In p (procs_of st1 l) -> 0 <= rank_of st1 (l, p).
  Proof.
    intros En Inc p Hp. unfold rank_incomplete in Inc. rewrite En in Inc. simpl in Inc.
    destruct (Z_lt_le_dec (rank_of st1 (l, p)) 0) as [Hlt | Hge]; [|exact Hge].
    assert (existsb (fun r => r <? 0) (loom_ranks st1 l) = true); [|congruence].
    apply existsb_exists. exists (rank_of st1 (l, p)). split; [|apply Z.ltb_lt; exact Hlt].
    unfold loom_ranks. apply in_map_iff. exists p. auto.
  Qed.

  Lemma fu_rank_min_attained l : rank_enabled st1 l = true -> rank_incomplete st1 l = false ->
    exists p, In p (procs_of st1 l) /\ rank_of st1 (l, p) = rank_min st1 l /\ 0 <= rank_min st1 l.
  Proof.
    intros En Inc.
    assert (NE : loom_ranks st1 l <> []).
    { unfold rank_enabled in En. destruct (loom_ranks st1 l); [discriminate | congruence]. }
    pose proof (lmin_in _ NE) as Hin.
    assert (Hin' : In (rank_min st1 l) (map (fun p => rank_of st1 (l, p)) (procs_of st1 l))) by exact Hin.
    apply in_map_iff in Hin'. destruct Hin' as (p & E & Hp).
    exists p. split; [exact Hp | split; [exact E|]]. rewrite <- E. apply fu_all_ranked; assumption.
  Qed.

  Lemma fu_sort_loom l : sort_loom st1 l = sort_loom st2 l.
  Proof.
    unfold sort_loom, sort_loom_gen.
    assert (PS : isort (proc_le true st1 l) (procs_of st1 l) = isort (proc_le true st2 l) (procs_of st2 l)).
    { rewrite (isort_ext (proc_le true st2 l) (proc_le true st1 l))
        by (intros x y; unfold proc_le; rewrite <- fu_enabled, !fu_rank_of; reflexivity).
      apply isort_perm_eq; [apply proc_le_total | apply proc_le_trans | apply fu_procs_of|].
      intros x y _ _. apply proc_le_antisym. }
    rewrite <- PS. f_equal; [f_equal|].
    - apply map_ext. intros p. rewrite fu_app_of. f_equal.
      apply (isort_key_perm_eq (fun t => t)); [apply fu_threads_of | auto].
    - apply (isort_key_perm_eq (fun c : Z * Z => snd c)); [apply fu_cpus_of|].
      intros [i p] [j q] Hx Hy E. simpl in E. subst q. apply in_cpus_of in Hx, Hy.
      f_equal. eapply (tk_cpu_phy _ _ W1); eassumption.
  Qed.

  Lemma finish_union : finish st1 = finish st2.
  Proof.
    pose proof EQ as (L & _). unfold finish, finish_gen.
    rewrite <- (existsb_ext_in (rank_incomplete st1) (rank_incomplete st2) (st_looms st2)) by (intros; apply fu_incomplete).
    rewrite <- (perm_existsb _ _ _ L).
    destruct (existsb (rank_incomplete st1) (st_looms st1)) eqn:Inc; [reflexivity|].
    rewrite <- (forallb_ext_in (rank_enabled st1) (rank_enabled st2) (st_looms st2)) by (intros; apply fu_enabled).
    rewrite <- (perm_forallb _ _ _ L).
    set (br := forallb (rank_enabled st1) (st_looms st1)).
    assert (LS : isort (loom_le true st1 br) (st_looms st1) = isort (loom_le true st2 br) (st_looms st2)).
    { rewrite (isort_ext (loom_le true st2 br) (loom_le true st1 br))
        by (intros x y; unfold loom_le; rewrite !fu_rank_min; reflexivity).
      apply isort_perm_eq; [apply loom_le_total | apply loom_le_trans | exact L|].
      intros x y _ _. apply loom_le_antisym. }
    rewrite <- LS.
    set (Ls := isort _ (st_looms st1)).
    assert (MS : map (sort_loom_gen true st1) Ls = map (sort_loom_gen true st2) Ls).
    { apply map_ext. intros l. apply fu_sort_loom. }
    rewrite <- MS. reflexivity.
  Qed.
End FinishUnion.

(* ================================================================== *)
(* C15: the three statements about the repaired model *)
Lemma build_raw m : build m = bind (raw m) finish.
Proof. reflexivity. Qed.

Theorem build_union m1 m2 : same_union m1 m2 -> build m1 = build m2.
Proof.
  intros U. rewrite !build_raw.
  destruct (raw m1) as [st1| |] eqn:R1; destruct (raw m2) as [st2| |] eqn:R2; simpl; try reflexivity;
    try (exfalso; eapply raw_no_crash; eassumption).
  - apply (finish_union m1 m2 st1 st2 U R1 R2).
  - pose proof (raw_err_union _ _ (same_union_sym _ _ U) R2). congruence.
  - pose proof (raw_err_union _ _ U R1). congruence.
Qed.

Lemma finish_no_crash st : finish st <> Crash.
Proof.
  unfold finish, finish_gen. destruct (existsb (rank_incomplete st) (st_looms st)); [discriminate|].
  match goal with |- (if ?c then _ else _) <> _ => destruct c end; discriminate.
Qed.

Theorem build_no_crash m : build m <> Crash.
Proof.
  rewrite build_raw. destruct (raw m) eqn:R; simpl; [apply finish_no_crash | discriminate | exfalso; exact (raw_no_crash _ R)].
Qed.

Lemma build_err_of_raw m : raw m = Err -> build m = Err.
Proof. intros H. rewrite build_raw, H. reflexivity. Qed.

Lemma build_err_of_finish m : (forall st, raw m = Ok st -> finish st = Err) -> build m = Err.
Proof.
  intros H. rewrite build_raw. destruct (raw m) as [st| |] eqn:R; simpl; [apply H; reflexivity | reflexivity|].
  exfalso; exact (raw_no_crash _ R).
Qed.

(* a loom of the trace is one of the sorted looms of finish *)
Lemma finish_bad_loom st l :
  In l (st_looms st) -> loom_bad (sort_loom st l) = true -> finish st = Err.
Proof.
  intros Hl Hb. unfold finish, finish_gen. destruct (existsb (rank_incomplete st) (st_looms st)); [reflexivity|].
  match goal with |- (if existsb loom_bad (map _ ?Ls) then _ else _) = _ => set (LS := Ls) end.
  assert (E : existsb loom_bad (map (sort_loom_gen true st) LS) = true); [|rewrite E; reflexivity].
  apply existsb_exists. exists (sort_loom st l). split; [|exact Hb].
  apply in_map. unfold LS. eapply Permutation_in; [apply Permutation_sym, isort_perm | exact Hl].
Qed.

Lemma loom_bad_intro l ps cs :
  (existsb (fun p : Z * Z * list Z => snd (fst p) <=? 0) ps = true \/ cs = [] \/
   existsb (fun c : Z * Z => Z.of_nat (length cs) <=? fst c) cs = true) -> loom_bad (l, ps, cs) = true.
Proof.
  intros [H | [H | H]]; unfold loom_bad; cbv beta iota.
  - rewrite H. reflexivity.
  - subst cs. simpl. rewrite orb_true_r. reflexivity.
  - rewrite H. rewrite !orb_true_r. reflexivity.
Qed.

Lemma loom_in_spec m l : loom_in m l <-> In l (map s_loom m).
Proof. unfold loom_in. rewrite in_map_iff. split; intros (s & A & B); exists s; auto. Qed.
Lemma proc_in_spec m k : proc_in m k <-> In k (map spkey m).
Proof. unfold proc_in. rewrite in_map_iff. split; intros (s & A & B); exists s; auto. Qed.

Lemma no_elements {A} (l : list A) : (forall x, ~ In x l) -> l = [].
Proof. destruct l as [|a l]; [reflexivity|]. intros H. exfalso. apply (H a). left; reflexivity. Qed.

(* pigeonhole: n distinct indices in [0,n) leave no hole *)
Lemma indices_no_hole (cs : list (Z * Z)) j :
  NoDup (map fst cs) -> (forall c, In c cs -> 0 <= fst c < Z.of_nat (length cs)) ->
  0 <= j < Z.of_nat (length cs) -> In j (map fst cs).
Proof.
  intros HN HB Hj. destruct (in_dec Z.eq_dec j (map fst cs)) as [H | H]; [exact H | exfalso].
  assert (HN' : NoDup (j :: map fst cs)) by (constructor; assumption).
  assert (HI : incl (j :: map fst cs) (map Z.of_nat (seq 0 (length cs)))).
  { intros x [<- | Hx].
    - apply in_map_iff. exists (Z.to_nat j). split; [lia|]. apply in_seq. lia.
    - apply in_map_iff in Hx. destruct Hx as (c & <- & Hc). specialize (HB c Hc).
      apply in_map_iff. exists (Z.to_nat (fst c)). split; [lia|]. apply in_seq. lia. }
  pose proof (NoDup_incl_length HN' HI) as HL. simpl in HL. rewrite !map_length, seq_length in HL. lia.
Qed.

Lemma nodup_fst (cs : list (Z * Z)) :
  NoDup cs -> (forall i p q, In (i, p) cs -> In (i, q) cs -> p = q) -> NoDup (map fst cs).
Proof.
  induction cs as [|[ci cp] cs IH]; intros ND H; simpl; [constructor|].
  inversion ND as [|? ? Hn ND']; subst. constructor.
  - intros Hin. apply in_map_iff in Hin. destruct Hin as ([di dp] & Ed & Hd). simpl in Ed. subst di.
    assert (cp = dp) by (eapply H; [left; reflexivity | right; exact Hd]). subst dp. exact (Hn Hd).
  - apply IH; [exact ND'|]. intros i p q Hp Hq. eapply H; right; eassumption.
Qed.

Lemma cpus_of_nodup st l : NoDup (st_cpus st) -> NoDup (cpus_of st l).
Proof.
  unfold cpus_of. induction (st_cpus st) as [|f X IH]; intros ND; simpl; [constructor|].
  inversion ND as [|? ? Hn ND']; subst. destruct (name_eqb (fst f) l) eqn:En; [|apply IH; exact ND'].
  simpl. destruct (snd f) as [e|] eqn:Es; simpl; [|apply IH; exact ND'].
  constructor; [|apply IH; exact ND'].
  intros Hin. apply Hn. apply in_flat_map in Hin. destruct Hin as ([l' o] & Hf & He).
  apply filter_In in Hf. destruct Hf as [Hf En']. simpl in *. destruct o as [e'|]; [|contradiction].
  destruct He as [<- | []]. apply name_eqb_true in En, En'. destruct f as [lf of]. simpl in *. subst. exact Hf.
Qed.

Theorem build_conflicts m : contradictory m -> build m = Err.
Proof.
  intros [k a b Ha Hb Hne | k r1 n1 r2 n2 H1 H2 Hne | k r1 n1 r2 n2 H1 H2 Hne
         | l i p q H1 H2 Hne | l i j p H1 H2 Hne | Hdup | l Hl Hno | l i p j Hc Hj Hno | k Hk Hno].
  - apply build_err_of_raw, raw_err. do 3 right; left.
    apply (collect_err app_fact_dec valid_app confl_app confl_app_sym confl_app_irrefl).
    right. exists (k, a), (k, b). repeat split; auto. unfold confl_app; simpl.
    apply andb_true_iff. split; [apply pkey_eqb_true; reflexivity|]. apply negb_true_iff, Z.eqb_neq. exact Hne.
  - apply build_err_of_raw, raw_err. do 4 right; left.
    apply (collect_err rank_fact_dec valid_rank confl_rank confl_rank_sym confl_rank_irrefl).
    right. exists (k, (r1, n1)), (k, (r2, n2)). repeat split; auto. unfold confl_rank; cbn [fst snd].
    apply andb_true_iff. split; [apply pkey_eqb_true; reflexivity|].
    destruct (rattr_dec (r1, n1) (r2, n2)) as [E | E]; [congruence | reflexivity].
  - apply build_err_of_raw, raw_err. do 4 right; left.
    apply (collect_err rank_fact_dec valid_rank confl_rank confl_rank_sym confl_rank_irrefl).
    right. exists (k, (r1, Some n1)), (k, (r2, Some n2)). repeat split; auto. unfold confl_rank; cbn [fst snd].
    apply andb_true_iff. split; [apply pkey_eqb_true; reflexivity|].
    destruct (rattr_dec (r1, Some n1) (r2, Some n2)) as [E | E]; [congruence | reflexivity].
  - apply build_err_of_raw, raw_err. right; left.
    apply (collect_err cpu_fact_dec valid_cpu confl_cpu confl_cpu_sym confl_cpu_irrefl).
    right. exists (l, Some (i, p)), (l, Some (i, q)). repeat split; auto. unfold confl_cpu; simpl.
    apply andb_true_iff. split; [apply name_eqb_true; reflexivity|].
    rewrite Z.eqb_refl. simpl. apply orb_true_iff. left. apply negb_true_iff, Z.eqb_neq. exact Hne.
  - apply build_err_of_raw, raw_err. right; left.
    apply (collect_err cpu_fact_dec valid_cpu confl_cpu confl_cpu_sym confl_cpu_irrefl).
    right. exists (l, Some (i, p)), (l, Some (j, p)). repeat split; auto. unfold confl_cpu; simpl.
    apply andb_true_iff. split; [apply name_eqb_true; reflexivity|].
    rewrite Z.eqb_refl. simpl. apply orb_true_iff. right.
    apply negb_true_iff, Z.eqb_neq. exact Hne.
  - apply build_err_of_raw, raw_err. do 5 right. unfold cT. rewrite keys_claims. apply cT_err. left. exact Hdup.
  - (* a loom without CPUs *)
    apply build_err_of_finish. intros st R. pose proof (raw_tables_ok _ _ R) as W.
    apply (finish_bad_loom st l); [apply (tk_looms _ _ W), loom_in_spec, Hl|].
    unfold sort_loom, sort_loom_gen. apply loom_bad_intro. right; left.
    assert (E : cpus_of st l = []).
    { apply no_elements. intros e He. apply in_cpus_of, (tk_cpus _ _ W) in He. exact (Hno e He). }
    rewrite E. reflexivity.
  - (* a hole below an index *)
    apply build_err_of_finish. intros st R. pose proof (raw_tables_ok _ _ R) as W.
    assert (Hl : In l (st_looms st)).
    { apply (tk_looms _ _ W). unfold cpu_claims in Hc. apply in_flat_map in Hc. destruct Hc as (s & Hs & Hc).
      apply in_map_iff. exists s. split; [|exact Hs]. unfold cpu_claim in Hc.
      destruct (s_cpus s) as [[|e es]|]; simpl in Hc.
      - destruct Hc as [Hc | []]; inversion Hc.
      - destruct Hc as [Hc | Hc]; [inversion Hc; reflexivity|]. apply in_map_iff in Hc. destruct Hc as (x & Hx & _). inversion Hx; reflexivity.
      - contradiction. }
    apply (finish_bad_loom st l Hl). unfold sort_loom, sort_loom_gen. apply loom_bad_intro. right; right.
    set (cs := isort (fun c d : Z * Z => snd c <=? snd d) (cpus_of st l)).
    assert (PC : Permutation cs (cpus_of st l)) by apply isort_perm.
    assert (IC : forall e, In e cs <-> In (l, Some e) (cpu_claims m)).
    { intros e. rewrite <- (tk_cpus _ _ W), <- in_cpus_of. split; apply Permutation_in; [exact PC | apply Permutation_sym; exact PC]. }
    destruct (existsb (fun c : Z * Z => Z.of_nat (length cs) <=? fst c) cs) eqn:E; [reflexivity | exfalso].
    assert (HB : forall c, In c cs -> 0 <= fst c < Z.of_nat (length cs)).
    { intros c Hcs. split.
      - apply IC, (tk_cpus _ _ W), (tk_cpu_valid _ _ W) in Hcs. destruct Hcs as (a & b & Eab & Ha & _).
        simpl in Eab. inversion Eab; subst. exact Ha.
      - destruct (Z_lt_le_dec (fst c) (Z.of_nat (length cs))) as [Hlt | Hge]; [exact Hlt|].
        assert (existsb (fun c : Z * Z => Z.of_nat (length cs) <=? fst c) cs = true); [|congruence].
        apply existsb_exists. exists c. split; [exact Hcs | apply Z.leb_le; exact Hge]. }
    assert (HN : NoDup (map fst cs)).
    { apply nodup_fst.
      - eapply Permutation_NoDup; [apply Permutation_sym; exact PC|]. apply cpus_of_nodup.
        pose proof R as R'. apply raw_ok in R'. destruct R' as (_ & C & _).
        apply (collect_ok cpu_fact_dec valid_cpu confl_cpu confl_cpu_sym confl_cpu_irrefl) in C. destruct C as (ND & _). exact ND.
      - intros a b c Hb Hc'. eapply (tk_cpu_idx _ _ W); apply (tk_cpus _ _ W); apply IC; eassumption. }
    assert (Hi : In (i, p) cs) by (apply IC; exact Hc).
    pose proof (HB _ Hi) as Hib. simpl in Hib.
    assert (Hjn : In j (map fst cs)) by (apply indices_no_hole; auto; lia).
    apply in_map_iff in Hjn. destruct Hjn as ([j' q] & Ej & Hq). simpl in Ej. subst j'.
    apply IC in Hq. exact (Hno q Hq).
  - (* a process without app id *)
    apply build_err_of_finish. intros st R. pose proof (raw_tables_ok _ _ R) as W.
    destruct k as [l p].
    assert (Hp : In (l, p) (st_procs st)) by (apply (tk_procs _ _ W), proc_in_spec, Hk).
    assert (Hl : In l (st_looms st)).
    { apply (tk_looms _ _ W). destruct Hk as (s & Hs & Es). apply in_map_iff. exists s. split; [|exact Hs].
      unfold spkey in Es. inversion Es; reflexivity. }
    apply (finish_bad_loom st l Hl). unfold sort_loom, sort_loom_gen. apply loom_bad_intro. left.
    apply existsb_exists. exists (p, app_of st (l, p), isort Z.leb (threads_of st (l, p))). split.
    + apply in_map_iff. exists p. split; [reflexivity|].
      eapply Permutation_in; [apply Permutation_sym, isort_perm|]. apply in_procs_of. exact Hp.
    + simpl. unfold app_of. destruct (find (fun f => pkey_eqb (fst f) (l, p)) (st_apps st)) as [f|] eqn:E; [|reflexivity].
      apply find_some in E. destruct E as [If Ef]. apply pkey_eqb_true in Ef. apply (tk_apps _ _ W) in If.
      destruct f as [kf af]. simpl in Ef. subst kf. exfalso. exact (Hno af If).
Qed.

(* ------------------------------------------------------------------ *)
(* Corollaries: the two kinds of redistribution named by the property *)
Lemma perm_same_union m1 m2 : Permutation m1 m2 -> same_union m1 m2.
Proof.
  intros P. repeat split; try (apply Permutation_map; exact P);
    try (apply Permutation_in, perm_flat_map; exact P);
    try (apply Permutation_in, perm_flat_map, Permutation_sym; exact P).
Qed.

Theorem build_perm m1 m2 : Permutation m1 m2 -> build m1 = build m2.
Proof. intros P. apply build_union. apply perm_same_union; exact P. Qed.

Theorem build_union_rows m1 m2 sys1 : same_union m1 m2 -> build m1 = Ok sys1 ->
  exists sys2, build m2 = Ok sys2 /\ thread_rows sys2 = thread_rows sys1 /\ cpu_rows sys2 = cpu_rows sys1.
Proof. intros U H. exists sys1. rewrite <- (build_union _ _ U). auto. Qed.

(* the code before patches/fix-c15-rank-ties.diff (no tie-break): with one rank in two processes
   the stable sort keeps the enumeration order *)
Definition w_tie1 : list stream_meta :=
  [mkS n0 100 101 (Some 1) (Some 0) (Some 1) (Some [(0, 0)]); mkS n0 200 201 (Some 2) (Some 0) (Some 1) None].
Definition w_tie2 : list stream_meta :=
  [mkS n0 200 201 (Some 2) (Some 0) (Some 1) None; mkS n0 100 101 (Some 1) (Some 0) (Some 1) (Some [(0, 0)])].

Lemma union_needs_distinct_ranks_old :
  exists m1 m2 s1 s2, same_union m1 m2 /\ NoTieBreak.build m1 = Ok s1 /\ NoTieBreak.build m2 = Ok s2 /\ thread_rows s1 <> thread_rows s2.
Proof.
  exists w_tie1, w_tie2. eexists. eexists. split; [|split; [|split]].
  - apply perm_same_union. apply perm_swap.
  - vm_compute. reflexivity.
  - vm_compute. reflexivity.
  - vm_compute. discriminate.
Qed.
