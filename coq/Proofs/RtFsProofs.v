(* Proofs for the rtfs engine: C09 (crash consistency) and C10 (I/O faults).
   Model and statements: Rt/RtFsDefs.v.  The main theorems are about the REPAIRED
   relocation (variant New); section "old" at the end refutes them for the code as found. *)
From Coq Require Import ZArith List Bool Arith Lia Permutation.
From OV Require Import Rt.RtFsDefs.
Import ListNotations.
Local Open Scope Z_scope.

(* ------------------------------------------------------------------ basics *)

Lemma loc_eqb_eq a b : loc_eqb a b = true <-> a = b.
Proof. destruct a, b; simpl; split; congruence. Qed.
Lemma fname_eqb_eq a b : fname_eqb a b = true <-> a = b.
Proof. destruct a, b; simpl; split; congruence. Qed.

Lemma path_eqb_eq a b : path_eqb a b = true <-> a = b.
Proof.
  split.
  - destruct a, b; simpl; try discriminate;
      rewrite ?andb_true_iff, ?loc_eqb_eq, ?fname_eqb_eq, ?Z.eqb_eq; intuition (subst; auto).
  - intros <-; destruct a; simpl;
      rewrite ?andb_true_iff, ?loc_eqb_eq, ?fname_eqb_eq, ?Z.eqb_eq; auto.
Qed.

Lemma path_eqb_refl p : path_eqb p p = true.
Proof. apply path_eqb_eq; reflexivity. Qed.

Lemma path_eqb_neq p q : p <> q -> path_eqb p q = false.
Proof.
  intros H; destruct (path_eqb p q) eqn:E; auto. apply path_eqb_eq in E; contradiction.
Qed.

Lemma upd_eq {A} (f : path -> A) p v : upd f p v p = v.
Proof. unfold upd; rewrite path_eqb_refl; reflexivity. Qed.
Lemma upd_neq {A} (f : path -> A) p v q : q <> p -> upd f p v q = f q.
Proof. intros H; unfold upd; rewrite path_eqb_neq; auto. Qed.

Definition prefix {A} (e l : list A) : Prop := exists r, l = e ++ r.

Lemma firstn_prefix {A} k (l : list A) : prefix (firstn k l) l.
Proof. exists (skipn k l); symmetry; apply firstn_skipn. Qed.

Lemma prefix_nil {A} (l : list A) : prefix [] l.
Proof. exists l; reflexivity. Qed.

Lemma prefix_app_cases {A} (l1 l2 e : list A) :
  prefix e (l1 ++ l2) -> prefix e l1 \/ exists e2, e = l1 ++ e2 /\ prefix e2 l2.
Proof.
  revert e; induction l1 as [|a l1 IH]; intros e [r H]; simpl in *.
  - right; exists e; split; auto; exists r; auto.
  - destruct e as [|b e]; [left; apply prefix_nil|].
    simpl in H; injection H as -> H.
    destruct (IH e) as [[r' ->]|[e2 [-> P2]]]; [exists r; auto | |].
    + left; exists r'; reflexivity.
    + right; exists e2; split; auto.
Qed.

Lemma prefix_cons_cases {A} (a : A) l e :
  prefix e (a :: l) -> e = [] \/ exists e', e = a :: e' /\ prefix e' l.
Proof.
  intros [r H]; destruct e as [|b e]; [left; auto|].
  simpl in H; injection H as -> ->. right; exists e; split; auto; exists r; auto.
Qed.

Lemma apply_ops_app bufsz l1 l2 s :
  apply_ops bufsz (l1 ++ l2) s = apply_ops bufsz l2 (apply_ops bufsz l1 s).
Proof. unfold apply_ops; apply fold_left_app. Qed.

Lemma apply_ops_cons bufsz o l s :
  apply_ops bufsz (o :: l) s = apply_ops bufsz l (exec_ok bufsz o s).
Proof. reflexivity. Qed.

(* ------------------------------------------------------------------ which file a call modifies *)

Definition touch (o : op) : option path :=
  match o with
  | Open p | Write p _ | FopenW p | Fputs p _ | Fwrite p _ | Fclose p | Remove p => Some p
  | _ => None
  end.

Lemma buffered_frame bufsz s p bs q : q <> p ->
  files (buffered bufsz s p bs) q = files s q /\ pend (buffered bufsz s p bs) q = pend s q.
Proof.
  intros H; unfold buffered; destruct (pend s p); auto.
  destruct (_ <? _)%nat; simpl; rewrite ?upd_neq; auto.
Qed.

Lemma exec_ok_frame bufsz o s q : touch o <> Some q ->
  files (exec_ok bufsz o s) q = files s q /\ pend (exec_ok bufsz o s) q = pend s q.
Proof.
  intros H; destruct o; simpl in *; auto;
    try (assert (q <> p) by congruence);
    try (apply buffered_frame; auto; fail);
    try (simpl; rewrite ?upd_neq; auto; fail).
  - destruct (files s p); simpl; rewrite ?upd_neq; auto.
  - destruct (pend s p); simpl; rewrite ?upd_neq; auto.
  - destruct (forallb _ _); simpl; auto.
Qed.

Lemma apply_ops_frame bufsz l : forall s q,
  Forall (fun o => touch o <> Some q) l ->
  files (apply_ops bufsz l s) q = files s q /\ pend (apply_ops bufsz l s) q = pend s q.
Proof.
  induction l as [|o l IH]; intros s q H; [split; reflexivity|].
  inversion H; subst. rewrite apply_ops_cons.
  destruct (IH (exec_ok bufsz o s) q H3) as [-> ->]. apply exec_ok_frame; auto.
Qed.

Lemma content_frame bufsz l s q :
  Forall (fun o => touch o <> Some q) l -> content (apply_ops bufsz l s) q = content s q.
Proof. intros H; unfold content; destruct (apply_ops_frame bufsz l s q H) as [-> _]; reflexivity. Qed.

Lemma flushed_of_app l1 l2 t : flushed_of (l1 ++ l2) t = flushed_of l1 t ++ flushed_of l2 t.
Proof.
  induction l1 as [|o l1 IH]; simpl; auto.
  destruct o; simpl; auto. destruct p; simpl; auto. destruct f; simpl; auto.
  destruct (t0 =? t); rewrite IH; auto using app_assoc.
Qed.

Definition is_write (o : op) : bool := match o with Write _ _ => true | _ => false end.

Lemma flushed_of_nowrite l t : Forall (fun o => is_write o = false) l -> flushed_of l t = [].
Proof.
  induction 1 as [|o l H _ IH]; simpl; auto. destruct o; simpl in *; auto; discriminate.
Qed.

Lemma flushed_of_other l t : Forall (fun o => forall l' f, touch o <> Some (PFile l' t f)) l -> flushed_of l t = [].
Proof.
  induction 1 as [|o l H _ IH]; simpl; auto.
  destruct o; simpl in *; auto. destruct p; auto. destruct f; auto.
  destruct (t0 =? t) eqn:E; auto. apply Z.eqb_eq in E; subst. exfalso; eapply H; reflexivity.
Qed.

(* ------------------------------------------------------------------ stdio buffer *)

(* file p is being written through stdio; tot = bytes given to stdio so far *)
Definition bufinv (s : fsys) (p : path) (tot : list Z) : Prop :=
  exists d pd, files s p = Some d /\ pend s p = Some pd /\ d ++ pd = tot /\ (tot <> [] -> pd <> []).

Lemma bufinv_fopen bufsz s p : bufinv (exec_ok bufsz (FopenW p) s) p [].
Proof. exists [], []; simpl; rewrite !upd_eq; repeat split; auto. Qed.

Lemma skipn_nonnil {A} n (l : list A) : (n < length l)%nat -> skipn n l <> [].
Proof.
  intros H E. assert (length (skipn n l) = 0%nat) by (rewrite E; reflexivity).
  rewrite skipn_length in H0; lia.
Qed.

Lemma bufinv_buffered bufsz s p tot bs :
  bufinv s p tot -> bufinv (buffered bufsz s p bs) p (tot ++ bs).
Proof.
  intros (d & pd & Hf & Hp & Ht & Hn). unfold buffered; rewrite Hp.
  destruct (bufsz <? length (pd ++ bs))%nat eqn:E.
  - apply Nat.ltb_lt in E.
    exists (d ++ firstn bufsz (pd ++ bs)), (skipn bufsz (pd ++ bs)); simpl; rewrite !upd_eq.
    unfold content; rewrite Hf. repeat split; auto.
    + rewrite <- app_assoc, firstn_skipn, app_assoc, Ht; reflexivity.
    + intros _; apply skipn_nonnil; auto.
  - exists d, (pd ++ bs); simpl; rewrite upd_eq. repeat split; auto.
    + rewrite app_assoc, Ht; reflexivity.
    + intros H1 H2. apply app_eq_nil in H2 as [-> ->].
      rewrite !app_nil_r in *. apply Hn; auto.
Qed.

Lemma bufinv_frame bufsz o s p tot :
  touch o <> Some p -> bufinv s p tot -> bufinv (exec_ok bufsz o s) p tot.
Proof.
  intros H (d & pd & Hf & Hp & Ht); destruct (exec_ok_frame bufsz o s p H) as [E1 E2].
  exists d, pd; rewrite E1, E2; auto.
Qed.

Lemma bufinv_fclose bufsz s p tot :
  bufinv s p tot ->
  files (exec_ok bufsz (Fclose p) s) p = Some tot /\ pend (exec_ok bufsz (Fclose p) s) p = None.
Proof.
  intros (d & pd & Hf & Hp & Ht & _); simpl; rewrite Hp; simpl; rewrite !upd_eq.
  unfold content; rewrite Hf, Ht; auto.
Qed.

(* ------------------------------------------------------------------ metadata text *)

Lemma last_is_in x l : last_is x l = true -> In x l.
Proof.
  induction l as [|a l IH]; simpl; [discriminate|].
  destruct l; [intros H; apply Z.eqb_eq in H; auto | intros H; right; apply IH; auto].
Qed.

Definition meta_body (fin : bool) (n : nat) : list Z := (if fin then [70] else []) ++ repeat 32 n.

Lemma meta_text_eq fin n : meta_text fin n = 123 :: meta_body fin n ++ [125].
Proof. unfold meta_text, meta_body; rewrite <- app_assoc; reflexivity. Qed.

Lemma meta_body_no125 fin n : ~ In 125 (meta_body fin n).
Proof.
  unfold meta_body; intros H; apply in_app_or in H as [H|H].
  - destruct fin; simpl in H; intuition discriminate.
  - apply repeat_spec in H; discriminate.
Qed.

Lemma meta_strict_prefix_not_ok fin n d r :
  meta_text fin n = d ++ r -> r <> [] -> json_ok d = false.
Proof.
  rewrite meta_text_eq; intros H Hr. destruct d as [|c d]; [reflexivity|].
  simpl in H; injection H as <- H. simpl.
  assert (Hd : d ++ removelast r = meta_body fin n).
  { rewrite <- removelast_app by auto. rewrite <- H. apply removelast_last. }
  destruct (last_is 125 d) eqn:L; [|reflexivity].
  exfalso; apply (meta_body_no125 fin n). rewrite <- Hd; apply in_or_app; left; apply last_is_in; auto.
Qed.

Lemma json_finished_70 d : json_finished d = true -> In 70 d.
Proof.
  unfold json_finished; rewrite andb_true_iff; intros [_ H].
  apply existsb_exists in H as (x & Hx & E); apply Z.eqb_eq in E; subst; auto.
Qed.

Lemma meta_false_no70 n : ~ In 70 (meta_text false n).
Proof.
  unfold meta_text; simpl; intros [H|H]; [discriminate|].
  apply in_app_or in H as [H|[H|[]]]; [apply repeat_spec in H|]; discriminate.
Qed.

Lemma last_is_app x l : last_is x (l ++ [x]) = true.
Proof.
  induction l as [|a l IH]; simpl; [apply Z.eqb_refl|].
  destruct (l ++ [x]) eqn:E; [destruct l; discriminate|]. exact IH.
Qed.

Lemma existsb_125_false l : ~ In 125 l -> existsb (Z.eqb 125) l = false.
Proof.
  intros H; destruct (existsb (Z.eqb 125) l) eqn:E; auto.
  apply existsb_exists in E as (x & Hx & E); apply Z.eqb_eq in E; subst; contradiction.
Qed.

Lemma json_finished_meta n : json_finished (meta_text true n) = true.
Proof.
  unfold json_finished; rewrite meta_text_eq. apply andb_true_iff; split.
  - cbn [json_ok]. rewrite last_is_app, removelast_last, existsb_125_false by apply meta_body_no125.
    reflexivity.
  - unfold meta_body. reflexivity.
Qed.

(* while a metadata text is on its way through stdio the file does not parse *)
Lemma bufinv_not_json s p tot rest fin n :
  bufinv s p tot -> meta_text fin n = tot ++ rest -> json_finished (content s p) = false.
Proof.
  intros (d & pd & Hf & Hp & Ht & Hn) H. unfold content; rewrite Hf.
  unfold json_finished. destruct d as [|c d]; [reflexivity|].
  rewrite (meta_strict_prefix_not_ok fin n (c :: d) (pd ++ rest)); auto.
  - rewrite H, <- Ht, <- app_assoc; reflexivity.
  - intros E; apply app_eq_nil in E as [E _]. apply Hn; auto. rewrite <- Ht; discriminate.
Qed.

(* ------------------------------------------------------------------ chunks *)

Lemma chunks_concat fuel n l : (length l <= fuel)%nat -> (0 < n)%nat -> concat (chunks fuel n l) = l.
Proof.
  revert l; induction fuel as [|fuel IH]; intros l H Hn.
  - destruct l; [reflexivity | simpl in H; lia].
  - destruct l as [|a l]; [reflexivity|].
    change (chunks (S fuel) n (a :: l)) with (firstn n (a :: l) :: chunks fuel n (skipn n (a :: l))).
    simpl concat. rewrite IH; [apply firstn_skipn| |auto].
    rewrite skipn_length; cbn [length] in *; lia.
Qed.

Lemma chunks1024_concat l : concat (chunks1024 l) = l.
Proof. apply chunks_concat; lia. Qed.

(* ------------------------------------------------------------------ the trace as plain calls *)

Lemma map_flat_map {A B C} (f : B -> C) (g : A -> list B) l :
  map f (flat_map g l) = flat_map (fun x => map f (g x)) l.
Proof. induction l; simpl; auto. rewrite map_app, IHl; auto. Qed.

Lemma Forall_prefix {A} (P : A -> Prop) e l : prefix e l -> Forall P l -> Forall P e.
Proof. intros [r ->] H; apply Forall_app in H; tauto. Qed.

Definition loop_ops (src dst : path) (cs : list (list Z)) : list op :=
  flat_map (fun c => [Fread src c; Fwrite dst c]) cs.

Definition copy_ops (t : Z) (f : fname) (data : list Z) : list op :=
  [FopenR (PFile Tmp t f); FopenW (PFile Fin t f)]
  ++ loop_ops (PFile Tmp t f) (PFile Fin t f) (chunks1024 data)
  ++ [Fread (PFile Tmp t f) []; Fclose (PFile Fin t f); Fclose (PFile Tmp t f)].

Lemma map_copy_new t g f data : map i_op (copy_new t g f data) = copy_ops t f data.
Proof. unfold copy_new, copy_ops, loop_ops. rewrite !map_app, map_flat_map. reflexivity. Qed.

Definition pbody_ops (th : thread) (p : nat) (e : entry) : list op :=
  match e, p with
  | EFile Obs, O => copy_ops (th_tid th) Obs (file_data th Obs)
  | EFile Json, S O => copy_ops (th_tid th) Json (file_data th Json)
  | EFile f, S (S O) => [Remove (PFile Tmp (th_tid th) f)]
  | _, _ => []
  end.

Definition pass_ops (rho : order) (th : thread) (p : nat) : list op :=
  let d := PThread Tmp (th_tid th) in
  [Opendir d] ++ flat_map (fun e => Readdir d (Some e) :: pbody_ops th p e) (rho (th_tid th) p)
  ++ [Readdir d None; Closedir d].

Lemma map_pass_new rho th p : map i_op (pass_new rho th p) = pass_ops rho th p.
Proof.
  unfold pass_new, pass_ops. rewrite !map_app, map_flat_map. simpl. do 2 f_equal.
  apply flat_map_ext; intros e; simpl; f_equal.
  destruct e as [| |[]]; destruct p as [|[|[|p]]]; simpl; rewrite ?map_copy_new; reflexivity.
Qed.

Definition nt (q : path) (o : op) : Prop := touch o <> Some q.
Definition nowrite (o : op) : Prop := is_write o = false.

(* the copy loop seen from its destination *)
Lemma loop_prefix bufsz src dst cs : src <> dst -> forall s tot e,
  bufinv s dst tot -> prefix e (loop_ops src dst cs) ->
  exists tot' rest, bufinv (apply_ops bufsz e s) dst tot' /\ tot ++ concat cs = tot' ++ rest.
Proof.
  intros Hsd; induction cs as [|c cs IH]; intros s tot e Hb He.
  - destruct He as [r He]; simpl in He. symmetry in He; apply app_eq_nil in He as [-> _].
    exists tot, []; simpl; auto.
  - simpl in He. apply prefix_cons_cases in He as [->|(e1 & -> & He)].
    { exists tot, (concat (c :: cs)); auto. }
    apply prefix_cons_cases in He as [->|(e2 & -> & He)].
    { exists tot, (concat (c :: cs)); auto. }
    rewrite !apply_ops_cons. simpl exec_ok at 2.
    destruct (IH (exec_ok bufsz (Fwrite dst c) s) (tot ++ c) e2) as (tot' & rest & Hb' & E); auto.
    { simpl; apply bufinv_buffered; auto. }
    exists tot', rest; split; auto. simpl; rewrite app_assoc; auto.
Qed.

Lemma loop_full bufsz src dst cs : src <> dst -> forall s tot,
  bufinv s dst tot -> bufinv (apply_ops bufsz (loop_ops src dst cs) s) dst (tot ++ concat cs).
Proof.
  intros Hsd; induction cs as [|c cs IH]; intros s tot Hb; simpl.
  - rewrite app_nil_r; auto.
  - rewrite app_assoc. apply IH. simpl. apply bufinv_buffered; auto.
Qed.

Lemma copy_result bufsz t f data s :
  files (apply_ops bufsz (copy_ops t f data) s) (PFile Fin t f) = Some data.
Proof.
  unfold copy_ops. rewrite !apply_ops_app.
  set (s1 := apply_ops bufsz [FopenR (PFile Tmp t f); FopenW (PFile Fin t f)] s).
  assert (H1 : bufinv s1 (PFile Fin t f) []) by (apply bufinv_fopen).
  apply (loop_full bufsz (PFile Tmp t f) (PFile Fin t f) (chunks1024 data)) in H1; [|discriminate].
  rewrite chunks1024_concat in H1. simpl app in H1.
  set (s2 := apply_ops bufsz (loop_ops _ _ _) s1) in *.
  change (apply_ops bufsz [Fread (PFile Tmp t f) []; Fclose (PFile Fin t f); Fclose (PFile Tmp t f)] s2)
    with (exec_ok bufsz (Fclose (PFile Tmp t f)) (exec_ok bufsz (Fclose (PFile Fin t f)) s2)).
  destruct (exec_ok_frame bufsz (Fclose (PFile Tmp t f)) (exec_ok bufsz (Fclose (PFile Fin t f)) s2) (PFile Fin t f)) as [-> _];
    [simpl; discriminate|].
  apply bufinv_fclose; auto.
Qed.

(* shape of a thread's calls in OVNI_TMPDIR mode that sentence 2 depends on *)
Lemma s2_shape bufsz (j o tj : path) (X1 CO X2 X3 : list op) cs n s0 t all :
  tj <> j ->
  Forall (nt j) X1 -> Forall (nt j) CO -> Forall (nt j) X2 ->
  Forall (nt o) X2 -> Forall (nt o) X3 -> nt o (FopenW j) -> nt o (Fclose j) ->
  Forall (nt o) (loop_ops tj j cs ++ [Fread tj []]) ->
  (forall s, files (apply_ops bufsz CO s) o = Some all) ->
  Forall nowrite CO -> Forall nowrite X2 -> Forall nowrite X3 ->
  Forall nowrite (loop_ops tj j cs ++ [Fread tj []]) ->
  flushed_of X1 t = all ->
  concat cs = meta_text true n ->
  content s0 j = [] ->
  forall e, prefix e (X1 ++ CO ++ X2 ++ [FopenW j] ++ (loop_ops tj j cs ++ [Fread tj []]) ++ [Fclose j] ++ X3) ->
  json_finished (content (apply_ops bufsz e s0) j) = true ->
  files (apply_ops bufsz e s0) o = Some all /\ flushed_of e t = all.
Proof.
  intros Htj N1 N2 N3 O2 O3 Oa Ob OL HCO W2 W3 W4 WL Hfl Hcs Hc0 e He Hfin.
  assert (Hempty : forall l, Forall (nt j) l -> json_finished (content (apply_ops bufsz l s0) j) = false).
  { intros l Hl. rewrite content_frame by exact Hl. rewrite Hc0; reflexivity. }
  rewrite !app_assoc in He. rewrite <- !app_assoc in He.
  (* before the destination of stream.json is opened nothing is there *)
  assert (NP : Forall (nt j) (X1 ++ CO ++ X2)) by (rewrite !Forall_app; auto).
  replace (X1 ++ CO ++ X2 ++ [FopenW j] ++ (loop_ops tj j cs ++ [Fread tj []]) ++ [Fclose j] ++ X3)
    with ((X1 ++ CO ++ X2) ++ [FopenW j] ++ (loop_ops tj j cs ++ [Fread tj []]) ++ [Fclose j] ++ X3) in He
    by (rewrite <- !app_assoc; reflexivity).
  apply prefix_app_cases in He as [He|(e2 & -> & He)].
  { rewrite Hempty in Hfin; [discriminate | eapply Forall_prefix; eauto]. }
  simpl in He. apply prefix_cons_cases in He as [->|(e3 & -> & He)].
  { rewrite app_nil_r in Hfin. rewrite Hempty in Hfin; [discriminate | auto]. }
  set (sA := apply_ops bufsz (X1 ++ CO ++ X2) s0) in *.
  assert (HB : bufinv (exec_ok bufsz (FopenW j) sA) j []) by apply bufinv_fopen.
  rewrite apply_ops_app in Hfin. fold sA in Hfin. rewrite apply_ops_cons in Hfin.
  rewrite <- app_assoc in He.
  apply prefix_app_cases in He as [He|(e4 & -> & He)].
  { (* inside the copy loop *)
    destruct (loop_prefix bufsz tj j cs Htj _ [] e3 HB He) as (tot' & rest & Hb' & E).
    simpl in E. rewrite (bufinv_not_json _ _ tot' rest true n) in Hfin; [discriminate|auto|].
    rewrite <- Hcs; auto. }
  pose proof (loop_full bufsz tj j cs Htj _ [] HB) as HB2. simpl in HB2.
  rewrite apply_ops_app in Hfin.
  set (sL := apply_ops bufsz (loop_ops tj j cs) (exec_ok bufsz (FopenW j) sA)) in *.
  simpl in He. apply prefix_cons_cases in He as [->|(e5 & -> & He)].
  { simpl in Hfin. rewrite (bufinv_not_json _ _ (concat cs) [] true n) in Hfin; [discriminate|auto|].
    rewrite app_nil_r; auto. }
  apply prefix_cons_cases in He as [->|(e6 & -> & He)].
  { simpl in Hfin. rewrite (bufinv_not_json _ _ (concat cs) [] true n) in Hfin; [discriminate|auto|].
    rewrite app_nil_r; auto. }
  (* after fclose of the destination: the data is in place and nothing more is flushed *)
  clear Hfin. split.
  - rewrite apply_ops_app. fold sA. rewrite apply_ops_cons, apply_ops_app. fold sL.
    rewrite !apply_ops_cons.
    destruct (apply_ops_frame bufsz e6 (exec_ok bufsz (Fclose j) (exec_ok bufsz (Fread tj []) sL)) o) as [-> _].
    { eapply Forall_prefix; eauto. }
    destruct (exec_ok_frame bufsz (Fclose j) (exec_ok bufsz (Fread tj []) sL) o Ob) as [-> _].
    simpl exec_ok at 1. unfold sL.
    apply Forall_app in OL as [OL1 OL2].
    destruct (apply_ops_frame bufsz (loop_ops tj j cs) (exec_ok bufsz (FopenW j) sA) o OL1) as [-> _].
    destruct (exec_ok_frame bufsz (FopenW j) sA o Oa) as [-> _].
    unfold sA. rewrite app_assoc, apply_ops_app.
    destruct (apply_ops_frame bufsz X2 (apply_ops bufsz (X1 ++ CO) s0) o O2) as [-> _].
    rewrite apply_ops_app. apply HCO.
  - rewrite !flushed_of_app. rewrite Hfl.
    rewrite (flushed_of_nowrite CO), (flushed_of_nowrite X2) by auto.
    apply Forall_app in WL as [WL1 WL2].
    rewrite (flushed_of_nowrite (loop_ops tj j cs)) by auto.
    simpl. rewrite (flushed_of_nowrite e6); [rewrite !app_nil_r; reflexivity|].
    eapply Forall_prefix; eauto.
Qed.
