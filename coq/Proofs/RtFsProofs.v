(* Proofs for the rtfs engine: C09 (crash consistency) and C10 (I/O faults).
   Model and statements: Rt/RtFsDefs.v.  The main theorems are about the REPAIRED
   relocation (variant New); section "old" at the end refutes them for the code as found. *)
From Coq Require Import ZArith List Bool Arith Lia Permutation.
From OV Require Import Rt.RtFsDefs.
Import ListNotations.
Local Open Scope Z_scope.

(* ------------------------------------------------------------------ basics *)

Lemma loc_eqb_eq a b : loc_eqb a b = true <-> a = b.
Proof. destruct a, b; simpl; split; congruence. Qed.
Lemma fname_eqb_eq a b : fname_eqb a b = true <-> a = b.
Proof. destruct a, b; simpl; split; congruence. Qed.

Lemma path_eqb_eq a b : path_eqb a b = true <-> a = b.
Proof.
  split.
  - destruct a, b; simpl; try discriminate;
      rewrite ?andb_true_iff, ?loc_eqb_eq, ?fname_eqb_eq, ?Z.eqb_eq; intuition (subst; auto).
  - intros <-; destruct a; simpl;
      rewrite ?andb_true_iff, ?loc_eqb_eq, ?fname_eqb_eq, ?Z.eqb_eq; auto.
Qed.

Lemma path_eqb_refl p : path_eqb p p = true.
Proof. apply path_eqb_eq; reflexivity. Qed.

Lemma path_eqb_neq p q : p <> q -> path_eqb p q = false.
Proof.
  intros H; destruct (path_eqb p q) eqn:E; auto. apply path_eqb_eq in E; contradiction.
Qed.

Lemma upd_eq {A} (f : path -> A) p v : upd f p v p = v.
Proof. unfold upd; rewrite path_eqb_refl; reflexivity. Qed.
Lemma upd_neq {A} (f : path -> A) p v q : q <> p -> upd f p v q = f q.
Proof. intros H; unfold upd; rewrite path_eqb_neq; auto. Qed.

Definition prefix {A} (e l : list A) : Prop := exists r, l = e ++ r.

Lemma firstn_prefix {A} k (l : list A) : prefix (firstn k l) l.
Proof. exists (skipn k l); symmetry; apply firstn_skipn. Qed.

Lemma prefix_nil {A} (l : list A) : prefix [] l.
Proof. exists l; reflexivity. Qed.

Lemma prefix_app_cases {A} (l1 l2 e : list A) :
  prefix e (l1 ++ l2) -> prefix e l1 \/ exists e2, e = l1 ++ e2 /\ prefix e2 l2.
Proof.
  revert e; induction l1 as [|a l1 IH]; intros e [r H]; simpl in *.
  - right; exists e; split; auto; exists r; auto.
  - destruct e as [|b e]; [left; apply prefix_nil|].
    simpl in H; injection H as -> H.
    destruct (IH e) as [[r' ->]|[e2 [-> P2]]]; [exists r; auto | |].
    + left; exists r'; reflexivity.
    + right; exists e2; split; auto.
Qed.

Lemma prefix_cons_cases {A} (a : A) l e :
  prefix e (a :: l) -> e = [] \/ exists e', e = a :: e' /\ prefix e' l.
Proof.
  intros [r H]; destruct e as [|b e]; [left; auto|].
  simpl in H; injection H as -> ->. right; exists e; split; auto; exists r; auto.
Qed.

Lemma apply_ops_app bufsz l1 l2 s :
  apply_ops bufsz (l1 ++ l2) s = apply_ops bufsz l2 (apply_ops bufsz l1 s).
Proof. unfold apply_ops; apply fold_left_app. Qed.

Lemma apply_ops_nil bufsz s : apply_ops bufsz [] s = s.
Proof. reflexivity. Qed.

Lemma apply_ops_cons bufsz o l s :
  apply_ops bufsz (o :: l) s = apply_ops bufsz l (exec_ok bufsz o s).
Proof. reflexivity. Qed.

(* ------------------------------------------------------------------ which file a call modifies *)

Definition touch (o : op) : option path :=
  match o with
  | Open p | Write p _ | FopenW p | Fputs p _ | Fwrite p _ | Fclose p | Remove p => Some p
  | _ => None
  end.

Lemma buffered_frame bufsz s p bs q : q <> p ->
  files (buffered bufsz s p bs) q = files s q /\ pend (buffered bufsz s p bs) q = pend s q.
Proof.
  intros H; unfold buffered; destruct (pend s p); auto.
  destruct (_ <? _)%nat; simpl; rewrite ?upd_neq; auto.
Qed.

Lemma exec_ok_frame bufsz o s q : touch o <> Some q ->
  files (exec_ok bufsz o s) q = files s q /\ pend (exec_ok bufsz o s) q = pend s q.
Proof.
  intros H; destruct o; simpl in *; auto;
    try (assert (q <> p) by congruence);
    try (apply buffered_frame; auto; fail);
    try (simpl; rewrite ?upd_neq; auto; fail).
  - destruct (files s p); simpl; rewrite ?upd_neq; auto.
  - destruct (pend s p); simpl; rewrite ?upd_neq; auto.
  - destruct (forallb _ _); simpl; auto.
Qed.

Lemma apply_ops_frame bufsz l : forall s q,
  Forall (fun o => touch o <> Some q) l ->
  files (apply_ops bufsz l s) q = files s q /\ pend (apply_ops bufsz l s) q = pend s q.
Proof.
  induction l as [|o l IH]; intros s q H; [split; reflexivity|].
  inversion H; subst. rewrite apply_ops_cons.
  destruct (IH (exec_ok bufsz o s) q H3) as [-> ->]. apply exec_ok_frame; auto.
Qed.

Lemma content_frame bufsz l s q :
  Forall (fun o => touch o <> Some q) l -> content (apply_ops bufsz l s) q = content s q.
Proof. intros H; unfold content; destruct (apply_ops_frame bufsz l s q H) as [-> _]; reflexivity. Qed.

Lemma flushed_of_app l1 l2 t : flushed_of (l1 ++ l2) t = flushed_of l1 t ++ flushed_of l2 t.
Proof.
  induction l1 as [|o l1 IH]; simpl; auto.
  destruct o; simpl; auto. destruct p; simpl; auto. destruct f; simpl; auto.
  destruct (t0 =? t); rewrite IH; auto using app_assoc.
Qed.

Definition is_write (o : op) : bool := match o with Write _ _ => true | _ => false end.

Lemma flushed_of_nowrite l t : Forall (fun o => is_write o = false) l -> flushed_of l t = [].
Proof.
  induction 1 as [|o l H _ IH]; simpl; auto. destruct o; simpl in *; auto; discriminate.
Qed.

Lemma flushed_of_other l t : Forall (fun o => forall l' f, touch o <> Some (PFile l' t f)) l -> flushed_of l t = [].
Proof.
  induction 1 as [|o l H _ IH]; simpl; auto.
  destruct o; simpl in *; auto. destruct p; auto. destruct f; auto.
  destruct (t0 =? t) eqn:E; auto. apply Z.eqb_eq in E; subst. exfalso; eapply H; reflexivity.
Qed.

(* ------------------------------------------------------------------ stdio buffer *)

(* file p is being written through stdio; tot = bytes given to stdio so far *)
Definition bufinv (s : fsys) (p : path) (tot : list Z) : Prop :=
  exists d pd, files s p = Some d /\ pend s p = Some pd /\ d ++ pd = tot /\ (tot <> [] -> pd <> []).

Lemma bufinv_fopen bufsz s p : bufinv (exec_ok bufsz (FopenW p) s) p [].
Proof. exists [], []; simpl; rewrite !upd_eq; repeat split; auto. Qed.

Lemma skipn_nonnil {A} n (l : list A) : (n < length l)%nat -> skipn n l <> [].
Proof.
  intros H E. assert (length (skipn n l) = 0%nat) by (rewrite E; reflexivity).
  rewrite skipn_length in H0; lia.
Qed.

Lemma bufinv_buffered bufsz s p tot bs :
  bufinv s p tot -> bufinv (buffered bufsz s p bs) p (tot ++ bs).
Proof.
  intros (d & pd & Hf & Hp & Ht & Hn). unfold buffered; rewrite Hp.
  destruct (bufsz <? length (pd ++ bs))%nat eqn:E.
  - apply Nat.ltb_lt in E.
    exists (d ++ firstn bufsz (pd ++ bs)), (skipn bufsz (pd ++ bs)); simpl; rewrite !upd_eq.
    unfold content; rewrite Hf. repeat split; auto.
    + rewrite <- app_assoc, firstn_skipn, app_assoc, Ht; reflexivity.
    + intros _; apply skipn_nonnil; auto.
  - exists d, (pd ++ bs); simpl; rewrite upd_eq. repeat split; auto.
    + rewrite app_assoc, Ht; reflexivity.
    + intros H1 H2. apply app_eq_nil in H2 as [-> ->].
      rewrite !app_nil_r in *. apply Hn; auto.
Qed.

Lemma bufinv_frame bufsz o s p tot :
  touch o <> Some p -> bufinv s p tot -> bufinv (exec_ok bufsz o s) p tot.
Proof.
  intros H (d & pd & Hf & Hp & Ht); destruct (exec_ok_frame bufsz o s p H) as [E1 E2].
  exists d, pd; rewrite E1, E2; auto.
Qed.

Lemma bufinv_fclose bufsz s p tot :
  bufinv s p tot ->
  files (exec_ok bufsz (Fclose p) s) p = Some tot /\ pend (exec_ok bufsz (Fclose p) s) p = None.
Proof.
  intros (d & pd & Hf & Hp & Ht & _); simpl; rewrite Hp; simpl; rewrite !upd_eq.
  unfold content; rewrite Hf, Ht; auto.
Qed.

(* ------------------------------------------------------------------ metadata text *)

Lemma last_is_in x l : last_is x l = true -> In x l.
Proof.
  induction l as [|a l IH]; simpl; [discriminate|].
  destruct l; [intros H; apply Z.eqb_eq in H; auto | intros H; right; apply IH; auto].
Qed.

Definition meta_body (fin : bool) (n : nat) : list Z := (if fin then [70] else []) ++ repeat 32 n.

Lemma meta_text_eq fin n : meta_text fin n = 123 :: meta_body fin n ++ [125].
Proof. unfold meta_text, meta_body; rewrite <- app_assoc; reflexivity. Qed.

Lemma meta_body_no125 fin n : ~ In 125 (meta_body fin n).
Proof.
  unfold meta_body; intros H; apply in_app_or in H as [H|H].
  - destruct fin; simpl in H; intuition discriminate.
  - apply repeat_spec in H; discriminate.
Qed.

Lemma meta_strict_prefix_not_ok fin n d r :
  meta_text fin n = d ++ r -> r <> [] -> json_ok d = false.
Proof.
  rewrite meta_text_eq; intros H Hr. destruct d as [|c d]; [reflexivity|].
  simpl in H; injection H as <- H. simpl.
  assert (Hd : d ++ removelast r = meta_body fin n).
  { rewrite <- removelast_app by auto. rewrite <- H. apply removelast_last. }
  destruct (last_is 125 d) eqn:L; [|reflexivity].
  exfalso; apply (meta_body_no125 fin n). rewrite <- Hd; apply in_or_app; left; apply last_is_in; auto.
Qed.

Lemma json_finished_70 d : json_finished d = true -> In 70 d.
Proof.
  unfold json_finished; rewrite andb_true_iff; intros [_ H].
  apply existsb_exists in H as (x & Hx & E); apply Z.eqb_eq in E; subst; auto.
Qed.

Lemma meta_false_no70 n : ~ In 70 (meta_text false n).
Proof.
  unfold meta_text; simpl; intros [H|H]; [discriminate|].
  apply in_app_or in H as [H|[H|[]]]; [apply repeat_spec in H|]; discriminate.
Qed.

Lemma last_is_app x l : last_is x (l ++ [x]) = true.
Proof.
  induction l as [|a l IH]; simpl; [apply Z.eqb_refl|].
  destruct (l ++ [x]) eqn:E; [destruct l; discriminate|]. exact IH.
Qed.

Lemma existsb_125_false l : ~ In 125 l -> existsb (Z.eqb 125) l = false.
Proof.
  intros H; destruct (existsb (Z.eqb 125) l) eqn:E; auto.
  apply existsb_exists in E as (x & Hx & E); apply Z.eqb_eq in E; subst; contradiction.
Qed.

Lemma json_finished_meta n : json_finished (meta_text true n) = true.
Proof.
  unfold json_finished; rewrite meta_text_eq. apply andb_true_iff; split.
  - cbn [json_ok]. rewrite last_is_app, removelast_last, existsb_125_false by apply meta_body_no125.
    reflexivity.
  - unfold meta_body. reflexivity.
Qed.

(* while a metadata text is on its way through stdio the file does not parse *)
Lemma bufinv_not_json s p tot rest fin n :
  bufinv s p tot -> meta_text fin n = tot ++ rest -> json_finished (content s p) = false.
Proof.
  intros (d & pd & Hf & Hp & Ht & Hn) H. unfold content; rewrite Hf.
  unfold json_finished. destruct d as [|c d]; [reflexivity|].
  rewrite (meta_strict_prefix_not_ok fin n (c :: d) (pd ++ rest)); auto.
  - rewrite H, <- Ht, <- app_assoc; reflexivity.
  - intros E; apply app_eq_nil in E as [E _]. apply Hn; auto. rewrite <- Ht; discriminate.
Qed.

(* ------------------------------------------------------------------ chunks *)

Lemma chunks_concat fuel n l : (length l <= fuel)%nat -> (0 < n)%nat -> concat (chunks fuel n l) = l.
Proof.
  revert l; induction fuel as [|fuel IH]; intros l H Hn.
  - destruct l; [reflexivity | simpl in H; lia].
  - destruct l as [|a l]; [reflexivity|].
    change (chunks (S fuel) n (a :: l)) with (firstn n (a :: l) :: chunks fuel n (skipn n (a :: l))).
    simpl concat. rewrite IH; [apply firstn_skipn| |auto].
    rewrite skipn_length; cbn [length] in *; lia.
Qed.

Lemma chunks1024_concat l : concat (chunks1024 l) = l.
Proof. apply chunks_concat; lia. Qed.

Global Opaque chunks1024.

(* ------------------------------------------------------------------ the trace as plain calls *)

Lemma map_flat_map {A B C} (f : B -> C) (g : A -> list B) l :
  map f (flat_map g l) = flat_map (fun x => map f (g x)) l.
Proof. induction l; simpl; auto. rewrite map_app, IHl; auto. Qed.

Lemma Forall_prefix {A} (P : A -> Prop) e l : prefix e l -> Forall P l -> Forall P e.
Proof. intros [r ->] H; apply Forall_app in H; tauto. Qed.

Definition loop_ops (src dst : path) (cs : list (list Z)) : list op :=
  flat_map (fun c => [Fread src c; Fwrite dst c]) cs.

Definition copy_ops (t : Z) (f : fname) (data : list Z) : list op :=
  [FopenR (PFile Tmp t f); FopenW (PFile Fin t f)]
  ++ loop_ops (PFile Tmp t f) (PFile Fin t f) (chunks1024 data)
  ++ [Fread (PFile Tmp t f) []; Fclose (PFile Fin t f); Fclose (PFile Tmp t f)].

Lemma map_copy_new t g f data : map i_op (copy_new t g f data) = copy_ops t f data.
Proof. unfold copy_new, copy_ops, loop_ops. rewrite !map_app, map_flat_map. reflexivity. Qed.

Definition pbody_ops (th : thread) (p : nat) (e : entry) : list op :=
  match e, p with
  | EFile Obs, O => copy_ops (th_tid th) Obs (file_data th Obs)
  | EFile Json, S O => copy_ops (th_tid th) Json (file_data th Json)
  | EFile f, S (S O) => [Remove (PFile Tmp (th_tid th) f)]
  | _, _ => []
  end.

Definition pass_ops (rho : order) (th : thread) (p : nat) : list op :=
  let d := PThread Tmp (th_tid th) in
  [Opendir d] ++ flat_map (fun e => Readdir d (Some e) :: pbody_ops th p e) (rho (th_tid th) p)
  ++ [Readdir d None; Closedir d].

Lemma map_pass_new rho th p : map i_op (pass_new rho th p) = pass_ops rho th p.
Proof.
  unfold pass_new, pass_ops. rewrite !map_app, map_flat_map. simpl. do 2 f_equal.
  apply flat_map_ext; intros e.
  destruct e as [| |[]]; destruct p as [|[|[|p]]]; cbn [map i_op mki pbody_ops]; rewrite ?map_copy_new; reflexivity.
Qed.

Definition nt (q : path) (o : op) : Prop := touch o <> Some q.
Definition nowrite (o : op) : Prop := is_write o = false.

(* the copy loop seen from its destination *)
Lemma loop_prefix bufsz src dst cs : src <> dst -> forall s tot e,
  bufinv s dst tot -> prefix e (loop_ops src dst cs) ->
  exists tot' rest, bufinv (apply_ops bufsz e s) dst tot' /\ tot ++ concat cs = tot' ++ rest.
Proof.
  intros Hsd; induction cs as [|c cs IH]; intros s tot e Hb He.
  - destruct He as [r He]; simpl in He. symmetry in He; apply app_eq_nil in He as [-> _].
    exists tot, []; simpl; auto.
  - simpl in He. apply prefix_cons_cases in He as [->|(e1 & -> & He)].
    { exists tot, (concat (c :: cs)); auto. }
    apply prefix_cons_cases in He as [->|(e2 & -> & He)].
    { exists tot, (concat (c :: cs)); auto. }
    rewrite !apply_ops_cons. simpl exec_ok at 2.
    destruct (IH (exec_ok bufsz (Fwrite dst c) s) (tot ++ c) e2) as (tot' & rest & Hb' & E); auto.
    { simpl; apply bufinv_buffered; auto. }
    exists tot', rest; split; auto. simpl; rewrite app_assoc; auto.
Qed.

Lemma loop_full bufsz src dst cs : src <> dst -> forall s tot,
  bufinv s dst tot -> bufinv (apply_ops bufsz (loop_ops src dst cs) s) dst (tot ++ concat cs).
Proof.
  intros Hsd; induction cs as [|c cs IH]; intros s tot Hb; simpl.
  - rewrite app_nil_r; auto.
  - rewrite app_assoc. apply IH. simpl. apply bufinv_buffered; auto.
Qed.

Lemma copy_result bufsz t f data s :
  files (apply_ops bufsz (copy_ops t f data) s) (PFile Fin t f) = Some data.
Proof.
  unfold copy_ops. rewrite !apply_ops_app.
  set (s1 := apply_ops bufsz [FopenR (PFile Tmp t f); FopenW (PFile Fin t f)] s).
  assert (H1 : bufinv s1 (PFile Fin t f) []) by (apply bufinv_fopen).
  apply (loop_full bufsz (PFile Tmp t f) (PFile Fin t f) (chunks1024 data)) in H1; [|discriminate].
  rewrite chunks1024_concat in H1. simpl app in H1.
  set (s2 := apply_ops bufsz (loop_ops _ _ _) s1) in *.
  change (apply_ops bufsz [Fread (PFile Tmp t f) []; Fclose (PFile Fin t f); Fclose (PFile Tmp t f)] s2)
    with (exec_ok bufsz (Fclose (PFile Tmp t f)) (exec_ok bufsz (Fclose (PFile Fin t f)) s2)).
  destruct (exec_ok_frame bufsz (Fclose (PFile Tmp t f)) (exec_ok bufsz (Fclose (PFile Fin t f)) s2) (PFile Fin t f)) as [-> _];
    [simpl; discriminate|].
  apply bufinv_fclose; auto.
Qed.

(* shape of a thread's calls in OVNI_TMPDIR mode that sentence 2 depends on *)
Lemma s2_shape bufsz (j o tj : path) (X1 CO X2 X3 : list op) cs n s0 t all :
  tj <> j ->
  Forall (nt j) X1 -> Forall (nt j) CO -> Forall (nt j) X2 ->
  Forall (nt o) X2 -> Forall (nt o) X3 -> nt o (FopenW j) -> nt o (Fclose j) ->
  Forall (nt o) (loop_ops tj j cs ++ [Fread tj []]) ->
  (forall s, files (apply_ops bufsz CO s) o = Some all) ->
  Forall nowrite CO -> Forall nowrite X2 -> Forall nowrite X3 ->
  Forall nowrite (loop_ops tj j cs ++ [Fread tj []]) ->
  flushed_of X1 t = all ->
  concat cs = meta_text true n ->
  content s0 j = [] ->
  forall e, prefix e ((X1 ++ CO ++ X2) ++ FopenW j :: (loop_ops tj j cs ++ [Fread tj []]) ++ Fclose j :: X3) ->
  json_finished (content (apply_ops bufsz e s0) j) = true ->
  files (apply_ops bufsz e s0) o = Some all /\ flushed_of e t = all.
Proof.
  intros Htj N1 N2 N3 O2 O3 Oa Ob OL HCO W2 W3 W4 WL Hfl Hcs Hc0 e He Hfin.
  assert (Hempty : forall l, Forall (nt j) l -> json_finished (content (apply_ops bufsz l s0) j) = false).
  { intros l Hl. rewrite content_frame by exact Hl. rewrite Hc0; reflexivity. }
  (* before the destination of stream.json is opened nothing is there *)
  assert (NP : Forall (nt j) (X1 ++ CO ++ X2)) by (rewrite !Forall_app; auto).
  apply prefix_app_cases in He as [He|(e2 & -> & He)].
  { rewrite Hempty in Hfin; [discriminate | eapply Forall_prefix; eauto]. }
  apply prefix_cons_cases in He as [->|(e3 & -> & He)].
  { rewrite app_nil_r in Hfin. rewrite Hempty in Hfin; [discriminate | auto]. }
  set (sA := apply_ops bufsz (X1 ++ CO ++ X2) s0) in *.
  assert (HB : bufinv (exec_ok bufsz (FopenW j) sA) j []) by apply bufinv_fopen.
  rewrite apply_ops_app in Hfin. fold sA in Hfin. rewrite apply_ops_cons in Hfin.
  rewrite <- app_assoc in He.
  apply prefix_app_cases in He as [He|(e4 & -> & He)].
  { (* inside the copy loop *)
    destruct (loop_prefix bufsz tj j cs Htj _ [] e3 HB He) as (tot' & rest & Hb' & E).
    simpl in E. rewrite (bufinv_not_json _ _ tot' rest true n) in Hfin; [discriminate|auto|].
    rewrite <- Hcs; auto. }
  pose proof (loop_full bufsz tj j cs Htj _ [] HB) as HB2. simpl in HB2.
  rewrite apply_ops_app in Hfin.
  set (sL := apply_ops bufsz (loop_ops tj j cs) (exec_ok bufsz (FopenW j) sA)) in *.
  simpl in He. apply prefix_cons_cases in He as [->|(e5 & -> & He)].
  { simpl in Hfin. rewrite (bufinv_not_json _ _ (concat cs) [] true n) in Hfin; [discriminate|auto|].
    rewrite app_nil_r; auto. }
  apply prefix_cons_cases in He as [->|(e6 & -> & He)].
  { simpl in Hfin. rewrite (bufinv_not_json _ _ (concat cs) [] true n) in Hfin; [discriminate|auto|].
    rewrite app_nil_r; auto. }
  (* after fclose of the destination: the data is in place and nothing more is flushed *)
  clear Hfin. split.
  - rewrite apply_ops_app. fold sA. rewrite apply_ops_cons, apply_ops_app. fold sL.
    rewrite !apply_ops_cons.
    destruct (apply_ops_frame bufsz e6 (exec_ok bufsz (Fclose j) (exec_ok bufsz (Fread tj []) sL)) o) as [-> _].
    { eapply Forall_prefix; eauto. }
    destruct (exec_ok_frame bufsz (Fclose j) (exec_ok bufsz (Fread tj []) sL) o Ob) as [-> _].
    simpl exec_ok at 1. unfold sL.
    apply Forall_app in OL as [OL1 OL2].
    destruct (apply_ops_frame bufsz (loop_ops tj j cs) (exec_ok bufsz (FopenW j) sA) o OL1) as [-> _].
    destruct (exec_ok_frame bufsz (FopenW j) sA o Oa) as [-> _].
    unfold sA. rewrite app_assoc, apply_ops_app.
    destruct (apply_ops_frame bufsz X2 (apply_ops bufsz (X1 ++ CO) s0) o O2) as [-> _].
    rewrite apply_ops_app. apply HCO.
  - rewrite !flushed_of_app. cbn [flushed_of]. rewrite !flushed_of_app. cbn [flushed_of]. rewrite Hfl.
    rewrite (flushed_of_nowrite CO), (flushed_of_nowrite X2) by auto.
    apply Forall_app in WL as [WL1 WL2].
    rewrite (flushed_of_nowrite (loop_ops tj j cs)) by auto.
    rewrite (flushed_of_nowrite e6); [rewrite !app_nil_r; reflexivity|].
    eapply Forall_prefix; eauto.
Qed.

(* ------------------------------------------------------------------ readdir order *)

Lemma order_split rho : wf_order rho -> forall t p x, In x all_entries ->
  exists a b, rho t p = a ++ x :: b /\ ~ In x a /\ ~ In x b.
Proof.
  intros W t p x Hx. specialize (W t p).
  assert (Hin : In x (rho t p)) by (eapply Permutation_in; [apply Permutation_sym; eauto | auto]).
  assert (Hnd : NoDup (rho t p)).
  { eapply Permutation_NoDup; [apply Permutation_sym; eauto|].
    unfold all_entries; repeat constructor; simpl; intuition discriminate. }
  apply in_split in Hin as (a & b & E). exists a, b; split; auto.
  rewrite E in Hnd. apply NoDup_remove_2 in Hnd. split; intros H; apply Hnd; apply in_or_app; auto.
Qed.

Definition ronly (o : op) : Prop := match o with Readdir _ _ => True | _ => False end.

Lemma ronly_nt q o : ronly o -> nt q o.
Proof. destruct o; simpl; try tauto; intros _; unfold nt; simpl; discriminate. Qed.
Lemma ronly_nowrite o : ronly o -> nowrite o.
Proof. destruct o; simpl; try tauto; reflexivity. Qed.

Lemma pass0_ronly th d l : ~ In (EFile Obs) l ->
  Forall ronly (flat_map (fun e => Readdir d (Some e) :: pbody_ops th 0 e) l).
Proof.
  intros H; apply Forall_flat_map, Forall_forall; intros e He.
  destruct e as [| |[]]; try (exfalso; apply H; exact He); simpl; repeat constructor.
Qed.

Lemma pass1_ronly th d l : ~ In (EFile Json) l ->
  Forall ronly (flat_map (fun e => Readdir d (Some e) :: pbody_ops th 1 e) l).
Proof.
  intros H; apply Forall_flat_map, Forall_forall; intros e He.
  destruct e as [| |[]]; try (exfalso; apply H; exact He); simpl; repeat constructor.
Qed.

Lemma flushed_of_flush m th :
  flushed_of (map i_op (flush_tr m th)) (th_tid th) = concat (th_chunks th).
Proof.
  unfold flush_tr. induction (th_chunks th) as [|c cs IH]; simpl; auto.
  rewrite Z.eqb_refl, IH; reflexivity.
Qed.

Ltac fa := repeat match goal with
  | |- Forall _ [] => apply Forall_nil
  | |- Forall _ (_ :: _) => apply Forall_cons
  | |- Forall _ (_ ++ _) => apply Forall_app; split
  end.
Ltac leaf := unfold nt, nowrite; simpl; try discriminate; try congruence; auto.

Lemma loop_nt q src dst cs : q <> dst -> Forall (nt q) (loop_ops src dst cs).
Proof.
  intros H; unfold loop_ops; apply Forall_flat_map, Forall_forall; intros c _.
  fa; leaf.
Qed.
Lemma loop_nowrite src dst cs : Forall nowrite (loop_ops src dst cs).
Proof. unfold loop_ops; apply Forall_flat_map, Forall_forall; intros c _. fa; leaf. Qed.

Lemma copy_nt q t f data : q <> PFile Fin t f -> q <> PFile Tmp t f -> Forall (nt q) (copy_ops t f data).
Proof. intros H1 H2; unfold copy_ops; fa; try (apply loop_nt; auto); leaf. Qed.
Lemma copy_nowrite t f data : Forall nowrite (copy_ops t f data).
Proof. unfold copy_ops; fa; try apply loop_nowrite; leaf. Qed.

(* the remove pass touches only files of the temporary directory *)
Lemma pass2_nt rho th (l : loc) t f : Forall (nt (PFile Fin t f)) (pass_ops rho th 2).
Proof.
  unfold pass_ops; fa; try leaf.
  apply Forall_flat_map, Forall_forall; intros e _. destruct e as [| |[]]; simpl; fa; leaf.
Qed.
Lemma pass2_nowrite rho th : Forall nowrite (pass_ops rho th 2).
Proof.
  unfold pass_ops; fa; try leaf.
  apply Forall_flat_map, Forall_forall; intros e _. destruct e as [| |[]]; simpl; fa; leaf.
Qed.

(* ------------------------------------------------------------------ C09, one thread, OVNI_TMPDIR mode *)

Lemma tmp_thread_shape rho th a0 b0 a1 b1 :
  rho (th_tid th) 0%nat = a0 ++ EFile Obs :: b0 ->
  rho (th_tid th) 1%nat = a1 ++ EFile Json :: b1 ->
  let t := th_tid th in
  let d := PThread Tmp t in
  let g0 := fun e => Readdir d (Some e) :: pbody_ops th 0 e in
  let g1 := fun e => Readdir d (Some e) :: pbody_ops th 1 e in
  let X1 := map i_op (thread_init_tr TmpMode th) ++ map i_op (flush_tr TmpMode th)
            ++ map i_op (store_meta_tr TmpMode t (meta_text true (th_meta1 th)))
            ++ [Close (PFile Tmp t Obs); Opendir d] ++ flat_map g0 a0 ++ [Readdir d (Some (EFile Obs))] in
  let X2 := flat_map g0 b0 ++ [Readdir d None; Closedir d; Opendir d] ++ flat_map g1 a1
            ++ [Readdir d (Some (EFile Json)); FopenR (PFile Tmp t Json)] in
  let X3 := Fclose (PFile Tmp t Json) :: flat_map g1 b1 ++ [Readdir d None; Closedir d]
            ++ pass_ops rho th 2 ++ [Rmdir (PThread Tmp t) [PFile Tmp t Obs; PFile Tmp t Json]] in
  map i_op (thread_tr New TmpMode rho th) =
  (X1 ++ copy_ops t Obs (all_bytes th) ++ X2)
  ++ FopenW (PFile Fin t Json)
     :: (loop_ops (PFile Tmp t Json) (PFile Fin t Json) (chunks1024 (meta_text true (th_meta1 th)))
         ++ [Fread (PFile Tmp t Json) []])
     ++ Fclose (PFile Fin t Json) :: X3.
Proof.
  intros E0 E1 t d g0 g1 X1 X2 X3.
  unfold thread_tr, thread_free_tr, relocate, relocate_new.
  rewrite !map_app, !map_pass_new.
  unfold pass_ops at 1 2. rewrite E0, E1, !flat_map_app. fold t. fold d.
  cbn [flat_map pbody_ops file_data map i_op iign iwarn mki].
  fold g0 g1. unfold X1, X2, X3, copy_ops at 2.
  rewrite <- !app_assoc. cbn [app]. rewrite <- !app_assoc. cbn [app]. reflexivity.
Qed.

Lemma init_nt_fin th f : Forall (nt (PFile Fin (th_tid th) f)) (map i_op (thread_init_tr TmpMode th)).
Proof. unfold thread_init_tr, mkpath_thread, store_meta_tr; simpl; fa; leaf. Qed.
Lemma flush_nt_fin th f : Forall (nt (PFile Fin (th_tid th) f)) (map i_op (flush_tr TmpMode th)).
Proof. unfold flush_tr; rewrite map_map; apply Forall_map, Forall_forall; intros c _; leaf. Qed.
Lemma store_nt_fin t txt f : Forall (nt (PFile Fin t f)) (map i_op (store_meta_tr TmpMode t txt)).
Proof. unfold store_meta_tr; simpl; fa; leaf. Qed.
Lemma store_nowrite m t txt : Forall nowrite (map i_op (store_meta_tr m t txt)).
Proof. unfold store_meta_tr; simpl; fa; leaf. Qed.

Lemma flushed_of_init m th :
  flushed_of (map i_op (thread_init_tr m th)) (th_tid th) = hdr.
Proof.
  unfold thread_init_tr, mkpath_thread, store_meta_tr. rewrite !map_app, !flushed_of_app.
  destruct m; simpl; rewrite Z.eqb_refl; reflexivity.
Qed.

Lemma ronly_Forall_nt q l : Forall ronly l -> Forall (nt q) l.
Proof. apply Forall_impl; intros; apply ronly_nt; auto. Qed.
Lemma ronly_Forall_nowrite l : Forall ronly l -> Forall nowrite l.
Proof. apply Forall_impl; intros; apply ronly_nowrite; auto. Qed.

Lemma tmp_thread_s2 bufsz rho th : wf_order rho -> forall s0 e,
  content s0 (PFile Fin (th_tid th) Json) = [] ->
  prefix e (map i_op (thread_tr New TmpMode rho th)) ->
  json_finished (content (apply_ops bufsz e s0) (PFile Fin (th_tid th) Json)) = true ->
  files (apply_ops bufsz e s0) (PFile Fin (th_tid th) Obs) = Some (all_bytes th)
  /\ flushed_of e (th_tid th) = all_bytes th.
Proof.
  intros W s0 e Hc He Hfin.
  destruct (order_split rho W (th_tid th) 0%nat (EFile Obs)) as (a0 & b0 & E0 & Na0 & Nb0);
    [simpl; auto|].
  destruct (order_split rho W (th_tid th) 1%nat (EFile Json)) as (a1 & b1 & E1 & Na1 & Nb1);
    [simpl; auto|].
  rewrite (tmp_thread_shape rho th a0 b0 a1 b1 E0 E1) in He.
  pose proof (pass0_ronly th (PThread Tmp (th_tid th)) a0 Na0) as Ra0.
  pose proof (pass0_ronly th (PThread Tmp (th_tid th)) b0 Nb0) as Rb0.
  pose proof (pass1_ronly th (PThread Tmp (th_tid th)) a1 Na1) as Ra1.
  pose proof (pass1_ronly th (PThread Tmp (th_tid th)) b1 Nb1) as Rb1.
  eapply (s2_shape bufsz (PFile Fin (th_tid th) Json) (PFile Fin (th_tid th) Obs) (PFile Tmp (th_tid th) Json));
    try exact He; try exact Hfin; try exact Hc.
  - discriminate.
  - fa; try apply init_nt_fin; try apply flush_nt_fin; try apply store_nt_fin;
      try (apply ronly_Forall_nt; assumption); leaf.
  - apply copy_nt; discriminate.
  - fa; try (apply ronly_Forall_nt; assumption); leaf.
  - fa; try (apply ronly_Forall_nt; assumption); leaf.
  - fa; try (apply ronly_Forall_nt; assumption); try apply (pass2_nt rho th Fin); leaf.
  - leaf.
  - leaf.
  - fa; try (apply loop_nt; discriminate); leaf.
  - intros s; apply copy_result.
  - apply copy_nowrite.
  - fa; try (apply ronly_Forall_nowrite; assumption); leaf.
  - fa; try (apply ronly_Forall_nowrite; assumption); try apply pass2_nowrite; leaf.
  - fa; try apply loop_nowrite; leaf.
  - rewrite !flushed_of_app, flushed_of_init, flushed_of_flush.
    rewrite (flushed_of_nowrite (map i_op (store_meta_tr _ _ _))) by apply store_nowrite.
    rewrite (flushed_of_nowrite (flat_map _ a0)) by (apply ronly_Forall_nowrite; assumption).
    simpl. rewrite app_nil_r. reflexivity.
  - apply chunks1024_concat.
Qed.

(* ------------------------------------------------------------------ what init + flushes leave in the process directory *)

Lemma writes_files bufsz o cs : forall s d, files s o = Some d ->
  files (apply_ops bufsz (map (Write o) cs) s) o = Some (d ++ concat cs).
Proof.
  induction cs as [|c cs IH]; intros s d H; simpl.
  - rewrite app_nil_r; auto.
  - rewrite app_assoc. apply IH. simpl. rewrite upd_eq. unfold content; rewrite H; reflexivity.
Qed.

Lemma mkpath_frame bufsz l t s q :
  files (apply_ops bufsz (map i_op (mkpath_thread l t)) s) q = files s q
  /\ pend (apply_ops bufsz (map i_op (mkpath_thread l t)) s) q = pend s q.
Proof. apply apply_ops_frame. unfold mkpath_thread; simpl; fa; leaf. Qed.

Lemma init_flush_obs bufsz m th s0 :
  files s0 (PFile (procloc m) (th_tid th) Obs) = None ->
  files (apply_ops bufsz (map i_op (thread_init_tr m th ++ flush_tr m th)) s0) (PFile (procloc m) (th_tid th) Obs)
  = Some (all_bytes th).
Proof.
  intros H0. set (o := PFile (procloc m) (th_tid th) Obs).
  unfold thread_init_tr. rewrite !map_app, !apply_ops_app.
  set (s1 := apply_ops bufsz (map i_op (match m with Direct => [] | TmpMode => mkpath_thread Fin (th_tid th) end))
               (apply_ops bufsz (map i_op (mkpath_thread (procloc m) (th_tid th))) s0)).
  assert (H1 : files s1 o = None).
  { unfold s1.
    destruct (apply_ops_frame bufsz (map i_op (match m with Direct => [] | TmpMode => mkpath_thread Fin (th_tid th) end))
               (apply_ops bufsz (map i_op (mkpath_thread (procloc m) (th_tid th))) s0) o) as [-> _].
    { destruct m; simpl; fa; leaf. }
    destruct (mkpath_frame bufsz (procloc m) (th_tid th) s0 o) as [-> _]; auto. }
  fold o. simpl map at 2.
  set (s2 := apply_ops bufsz [Open o; Write o hdr] s1).
  assert (H2 : files s2 o = Some hdr).
  { unfold s2; simpl. rewrite H1. simpl. rewrite upd_eq. unfold content; simpl; rewrite upd_eq. reflexivity. }
  set (s3 := apply_ops bufsz (map i_op (store_meta_tr m (th_tid th) (meta_text false (th_meta0 th)))) s2).
  assert (H3 : files s3 o = Some hdr).
  { unfold s3. destruct (apply_ops_frame bufsz (map i_op (store_meta_tr m (th_tid th) (meta_text false (th_meta0 th)))) s2 o) as [-> _]; auto.
    unfold store_meta_tr; simpl; fa; unfold nt, o; simpl; intros E; injection E; discriminate. }
  unfold flush_tr. rewrite map_map. simpl.
  change (map (fun x => Write (PFile (procloc m) (th_tid th) Obs) x) (th_chunks th)) with (map (Write o) (th_chunks th)).
  unfold all_bytes. apply writes_files; auto.
Qed.

Lemma store_result bufsz m t txt s :
  files (apply_ops bufsz (map i_op (store_meta_tr m t txt)) s) (PFile (procloc m) t Json) = Some txt
  /\ pend (apply_ops bufsz (map i_op (store_meta_tr m t txt)) s) (PFile (procloc m) t Json) = None.
Proof.
  unfold store_meta_tr; simpl map.
  change (apply_ops bufsz [FopenW (PFile (procloc m) t Json); Fputs (PFile (procloc m) t Json) txt; Fclose (PFile (procloc m) t Json)] s)
    with (exec_ok bufsz (Fclose (PFile (procloc m) t Json))
            (buffered bufsz (exec_ok bufsz (FopenW (PFile (procloc m) t Json)) s) (PFile (procloc m) t Json) txt)).
  apply bufinv_fclose. change txt with ([] ++ txt) at 2. apply bufinv_buffered, bufinv_fopen.
Qed.

(* ------------------------------------------------------------------ C09, one thread, direct mode *)

Definition no70 (s : fsys) (j : path) : Prop :=
  ~ In 70 (content s j) /\ forall pd, pend s j = Some pd -> ~ In 70 pd.

Definition safe70 (j : path) (o : op) : Prop :=
  nt j o \/ o = FopenW j \/ (exists n, o = Fputs j (meta_text false n)) \/ o = Fclose j.

Lemma exec_no70 bufsz j o s : safe70 j o -> no70 s j -> no70 (exec_ok bufsz o s) j.
Proof.
  intros [H | [E | [[n E] | E]]] [Hc Hp]; try subst o.
  - destruct (exec_ok_frame bufsz o s j H) as [E1 E2]. unfold no70, content; rewrite E1, E2. auto.
  - split; simpl; unfold content; simpl; rewrite !upd_eq; [tauto|]. intros pd E; injection E as <-; tauto.
  - simpl. unfold buffered. destruct (pend s j) as [pd|] eqn:E;
      [|split; [exact Hc | intros pd0 E0; first [rewrite E in E0; discriminate | eapply Hp; eauto]]].
    assert (Ht : ~ In 70 (pd ++ meta_text false n)).
    { intros H; apply in_app_or in H as [H|H]; [eapply Hp; eauto | eapply meta_false_no70; eauto]. }
    destruct (_ <? _)%nat; split; simpl; unfold content; simpl; rewrite ?upd_eq.
    + intros H; apply in_app_or in H as [H|H]; [apply Hc; auto|].
      apply Ht. rewrite <- (firstn_skipn bufsz (pd ++ _)). apply in_or_app; auto.
    + intros pd' E'; injection E' as <-. intros H; apply Ht.
      rewrite <- (firstn_skipn bufsz (pd ++ _)). apply in_or_app; auto.
    + exact Hc.
    + intros pd' E'; injection E' as <-. exact Ht.
  - simpl. destruct (pend s j) as [pd|] eqn:E;
      [|split; [exact Hc | intros pd0 E0; first [rewrite E in E0; discriminate | eapply Hp; eauto]]].
    split; simpl; unfold content; simpl; rewrite ?upd_eq.
    + intros H; apply in_app_or in H as [H|H]; [apply Hc; auto | eapply Hp; eauto].
    + discriminate.
Qed.

Lemma apply_no70 bufsz j l : forall s, Forall (safe70 j) l -> no70 s j -> no70 (apply_ops bufsz l s) j.
Proof.
  induction l as [|o l IH]; intros s H Hn; auto.
  inversion H; subst. rewrite apply_ops_cons. apply IH; auto. apply exec_no70; auto.
Qed.

Lemma direct_thread_s2 bufsz rho th : forall s0 e,
  files s0 (PFile Fin (th_tid th) Obs) = None ->
  files s0 (PFile Fin (th_tid th) Json) = None -> pend s0 (PFile Fin (th_tid th) Json) = None ->
  prefix e (map i_op (thread_tr New Direct rho th)) ->
  json_finished (content (apply_ops bufsz e s0) (PFile Fin (th_tid th) Json)) = true ->
  files (apply_ops bufsz e s0) (PFile Fin (th_tid th) Obs) = Some (all_bytes th)
  /\ flushed_of e (th_tid th) = all_bytes th.
Proof.
  intros s0 e Ho Hj Hpj He Hfin.
  set (t := th_tid th) in *. set (j := PFile Fin t Json) in *. set (o := PFile Fin t Obs) in *.
  assert (N0 : no70 s0 j).
  { split; [unfold content; rewrite Hj; auto | rewrite Hpj; discriminate]. }
  assert (Hshape : map i_op (thread_tr New Direct rho th) =
                   map i_op (thread_init_tr Direct th ++ flush_tr Direct th)
                   ++ [FopenW j; Fputs j (meta_text true (th_meta1 th)); Fclose j; Close o]).
  { unfold thread_tr, thread_free_tr. rewrite !map_app. simpl. rewrite <- ?app_assoc. reflexivity. }
  rewrite Hshape in He. clear Hshape.
  assert (SG : Forall (safe70 j) (map i_op (thread_init_tr Direct th ++ flush_tr Direct th))).
  { rewrite map_app; apply Forall_app; split.
    - unfold thread_init_tr, mkpath_thread, store_meta_tr; simpl.
      fa; try (left; leaf; fail).
      + right; left; reflexivity.
      + right; right; left; eexists; reflexivity.
      + right; right; right; reflexivity.
    - unfold flush_tr; rewrite map_map; apply Forall_map, Forall_forall; intros c _; left; leaf. }
  apply prefix_app_cases in He as [He|(e2 & -> & He)].
  { exfalso. apply json_finished_70 in Hfin.
    apply (apply_no70 bufsz j e s0) in N0; [destruct N0; auto | eapply Forall_prefix; eauto]. }
  set (G := map i_op (thread_init_tr Direct th ++ flush_tr Direct th)) in *.
  pose proof (apply_no70 bufsz j G s0 SG N0) as NG.
  rewrite apply_ops_app in Hfin |- *. set (sG := apply_ops bufsz G s0) in *.
  apply prefix_cons_cases in He as [->|(e3 & -> & He)].
  { exfalso. apply json_finished_70 in Hfin. destruct NG; auto. }
  apply prefix_cons_cases in He as [->|(e4 & -> & He)].
  { exfalso. simpl in Hfin. unfold content in Hfin; simpl in Hfin; rewrite upd_eq in Hfin. discriminate. }
  assert (HB : bufinv (exec_ok bufsz (Fputs j (meta_text true (th_meta1 th))) (exec_ok bufsz (FopenW j) sG)) j
                      (meta_text true (th_meta1 th))).
  { change (exec_ok bufsz (Fputs j (meta_text true (th_meta1 th))) (exec_ok bufsz (FopenW j) sG))
      with (buffered bufsz (exec_ok bufsz (FopenW j) sG) j (meta_text true (th_meta1 th))).
    apply (bufinv_buffered bufsz _ j [] (meta_text true (th_meta1 th))). apply bufinv_fopen. }
  apply prefix_cons_cases in He as [->|(e5 & -> & He)].
  { exfalso. rewrite !apply_ops_cons, apply_ops_nil in Hfin.
    rewrite (bufinv_not_json _ _ _ [] true (th_meta1 th) HB) in Hfin; [discriminate | rewrite app_nil_r; auto]. }
  clear Hfin. split.
  - rewrite !apply_ops_cons.
    destruct (apply_ops_frame bufsz e5 (exec_ok bufsz (Fclose j) (exec_ok bufsz (Fputs j (meta_text true (th_meta1 th))) (exec_ok bufsz (FopenW j) sG))) o) as [-> _].
    { eapply Forall_prefix; eauto. fa; leaf. }
    destruct (exec_ok_frame bufsz (Fclose j) (exec_ok bufsz (Fputs j (meta_text true (th_meta1 th))) (exec_ok bufsz (FopenW j) sG)) o) as [-> _]; [leaf|].
    destruct (exec_ok_frame bufsz (Fputs j (meta_text true (th_meta1 th))) (exec_ok bufsz (FopenW j) sG) o) as [-> _]; [leaf|].
    destruct (exec_ok_frame bufsz (FopenW j) sG o) as [-> _]; [leaf|].
    apply (init_flush_obs bufsz Direct th s0); auto.
  - rewrite flushed_of_app. unfold G. rewrite map_app, flushed_of_app, flushed_of_init, flushed_of_flush.
    cbn [flushed_of]. rewrite (flushed_of_nowrite e5); [rewrite app_nil_r; reflexivity|].
    eapply Forall_prefix; eauto; fa; leaf.
Qed.

(* ------------------------------------------------------------------ threads do not touch each other's files *)

Definition other (t : Z) (o : op) : Prop := forall l f, touch o <> Some (PFile l t f).

Ltac oleaf := let l := fresh "l" in let f := fresh "f" in let E := fresh "E" in
  intros l f E; simpl in E; try discriminate; injection E; intros; subst; congruence.

Lemma loop_other t src dst cs : (forall l f, dst <> PFile l t f) -> Forall (other t) (loop_ops src dst cs).
Proof.
  intros H; unfold loop_ops; apply Forall_flat_map, Forall_forall; intros c _.
  fa; intros l f E; simpl in E; try discriminate. injection E as E. eapply H; eauto.
Qed.

Lemma copy_other t t' f data : t' <> t -> Forall (other t) (copy_ops t' f data).
Proof.
  intros H; unfold copy_ops; fa; try (apply loop_other; intros l0 f0 E; injection E; intros; subst; congruence);
    oleaf.
Qed.

Lemma pass_other t rho th p : th_tid th <> t -> Forall (other t) (pass_ops rho th p).
Proof.
  intros H; unfold pass_ops; fa; try oleaf.
  apply Forall_flat_map, Forall_forall; intros e _.
  destruct e as [| |[]]; destruct p as [|[|[|p]]]; cbn [pbody_ops]; fa;
    first [ apply copy_other; assumption | oleaf ].
Qed.

Lemma thread_other t m rho th : th_tid th <> t -> Forall (other t) (map i_op (thread_tr New m rho th)).
Proof.
  intros H. unfold thread_tr, thread_free_tr, relocate, relocate_new. rewrite !map_app.
  fa.
  - unfold thread_init_tr, mkpath_thread, store_meta_tr; destruct m; simpl; fa; oleaf.
  - unfold flush_tr; rewrite map_map; apply Forall_map, Forall_forall; intros c _; simpl; oleaf.
  - unfold store_meta_tr; simpl; fa; oleaf.
  - simpl; fa; oleaf.
  - destruct m; [constructor|]. cbv beta iota.
    rewrite !map_app, !map_pass_new. fa; try (apply pass_other; auto). simpl; fa; oleaf.
Qed.

Lemma threads_other t m rho P : (forall th, In th P -> th_tid th <> t) ->
  Forall (other t) (map i_op (flat_map (thread_tr New m rho) P)).
Proof.
  intros H. rewrite map_flat_map. apply Forall_flat_map, Forall_forall; intros th Hin.
  apply thread_other; auto.
Qed.

Lemma init_other t m : Forall (other t) (map i_op (proc_init_tr m)).
Proof. destruct m; simpl; fa; oleaf. Qed.
Lemma fini_other t m P : Forall (other t) (map i_op (proc_fini_tr m P)).
Proof. destruct m; simpl; fa; oleaf. Qed.

Lemma other_nt t l f o : other t o -> nt (PFile l t f) o.
Proof. intros H; apply H. Qed.
Lemma other_Forall_nt t l f ops : Forall (other t) ops -> Forall (nt (PFile l t f)) ops.
Proof. apply Forall_impl; intros; apply other_nt; auto. Qed.

Lemma flushed_of_other' l t : Forall (other t) l -> flushed_of l t = [].
Proof. intros H; apply flushed_of_other. exact H. Qed.

(* ------------------------------------------------------------------ C09 for programs *)

Lemma thread_s2 bufsz m rho th : wf_order rho -> forall s0 e,
  (forall l f, files s0 (PFile l (th_tid th) f) = None /\ pend s0 (PFile l (th_tid th) f) = None) ->
  prefix e (map i_op (thread_tr New m rho th)) ->
  json_finished (content (apply_ops bufsz e s0) (PFile Fin (th_tid th) Json)) = true ->
  files (apply_ops bufsz e s0) (PFile Fin (th_tid th) Obs) = Some (all_bytes th)
  /\ flushed_of e (th_tid th) = all_bytes th.
Proof.
  intros W s0 e Hclean He Hfin. destruct m.
  - eapply direct_thread_s2; eauto; apply Hclean.
  - eapply tmp_thread_s2; eauto. unfold content; destruct (Hclean Fin Json) as [-> _]; reflexivity.
Qed.

Lemma is_prefix_refl l : is_prefix l l = true.
Proof. induction l; simpl; auto. rewrite Z.eqb_refl; auto. Qed.

Lemma split_tids (P1 P2 : program) th :
  NoDup (tids (P1 ++ th :: P2)) -> forall th', In th' (P1 ++ P2) -> th_tid th' <> th_tid th.
Proof.
  unfold tids; rewrite map_app; simpl; intros H th' Hin E.
  apply NoDup_remove_2 in H; apply H. rewrite <- map_app, <- E. apply in_map; auto.
Qed.

Theorem C09_s2_all bufsz m P rho : wf_program P -> wf_order rho -> C09_sentence2 bufsz m P rho.
Proof.
  intros [Hnd _] W k th. cbv zeta. intros Hin Hfin.
  apply in_split in Hin as (P1 & P2 & ->).
  pose proof (split_tids P1 P2 th Hnd) as Hoth.
  set (t := th_tid th) in *.
  unfold flushed, apply_prefix in *.
  set (A := map i_op (proc_init_tr m) ++ map i_op (flat_map (thread_tr New m rho) P1)).
  set (T := map i_op (thread_tr New m rho th)).
  set (B := map i_op (flat_map (thread_tr New m rho) P2) ++ map i_op (proc_fini_tr m (P1 ++ th :: P2))).
  assert (Etr : trace_of_program m (P1 ++ th :: P2) rho = A ++ T ++ B).
  { unfold trace_of_program, trace_of_program_v, itrace. rewrite flat_map_app. cbn [flat_map].
    rewrite !map_app. unfold A, T, B. rewrite <- !app_assoc. reflexivity. }
  rewrite Etr in *. clear Etr.
  assert (OA : Forall (other t) A).
  { unfold A; apply Forall_app; split; [apply init_other | apply threads_other].
    intros th' H; apply Hoth; apply in_or_app; auto. }
  assert (OB : Forall (other t) B).
  { unfold B; apply Forall_app; split; [apply threads_other | apply fini_other].
    intros th' H; apply Hoth; apply in_or_app; auto. }
  set (e := firstn k (A ++ T ++ B)) in *.
  assert (He : prefix e (A ++ T ++ B)) by apply firstn_prefix.
  clearbody e.
  assert (Hclean : forall l f, files (apply_ops bufsz A fs0) (PFile l t f) = None
                               /\ pend (apply_ops bufsz A fs0) (PFile l t f) = None).
  { intros l f. destruct (apply_ops_frame bufsz A fs0 (PFile l t f)) as [-> ->]; [|split; reflexivity].
    apply other_Forall_nt; auto. }
  apply prefix_app_cases in He as [He|(e2 & -> & He)].
  { exfalso. rewrite content_frame in Hfin; [discriminate|].
    apply other_Forall_nt. eapply Forall_prefix; eauto. }
  rewrite apply_ops_app in *.
  apply prefix_app_cases in He as [He|(e3 & -> & He)].
  - destruct (thread_s2 bufsz m rho th W _ e2 Hclean He Hfin) as [H1 H2]. split; auto.
    rewrite flushed_of_app, (flushed_of_other' A) by auto. exact H2.
  - rewrite apply_ops_app in *.
    assert (OE : Forall (other t) e3) by (eapply Forall_prefix; eauto).
    rewrite content_frame in Hfin by (apply other_Forall_nt; auto).
    destruct (thread_s2 bufsz m rho th W _ T Hclean (ex_intro _ [] (eq_sym (app_nil_r T))) Hfin) as [H1 H2].
    split.
    + destruct (apply_ops_frame bufsz e3 (apply_ops bufsz T (apply_ops bufsz A fs0)) (PFile Fin t Obs)) as [-> _]; auto.
      apply other_Forall_nt; auto.
    + rewrite !flushed_of_app, (flushed_of_other' A), (flushed_of_other' e3) by auto.
      rewrite app_nil_r. exact H2.
Qed.

Theorem C09_s1_all bufsz m P rho : wf_program P -> wf_order rho -> C09_sentence1 bufsz m P rho.
Proof.
  intros WP W k t. cbv zeta. intros Hemu Hin Hvis.
  unfold emu_ok in Hemu. rewrite forallb_forall in Hemu. specialize (Hemu t Hin).
  rewrite Hvis in Hemu. simpl in Hemu. unfold stream_ok in Hemu. apply andb_true_iff in Hemu as [Hj _].
  unfold tids in Hin. apply in_map_iff in Hin as (th & <- & Hth).
  destruct (C09_s2_all bufsz m P rho WP W k th Hth Hj) as [H1 H2].
  unfold content. rewrite H1, H2. apply is_prefix_refl.
Qed.

(* ------------------------------------------------------------------ witnesses (used by the refutations and the non-vacuity examples) *)

Definition ev12 : list Z := [0; 79; 72; 112; 0; 0; 0; 0; 0; 0; 0; 0].        (* a 12-byte event *)
Definition th_w : thread := mkth 5 [ev12; ev12] 2 2.
Definition P_w : program := [th_w].
Definition rho_json_first : order := fun _ _ => [EDot; EDotDot; EFile Json; EFile Obs].
Definition rho_obs_first : order := fun _ _ => [EFile Obs; EFile Json; EDotDot; EDot].

Lemma wf_P_w : wf_program P_w.
Proof. split; [repeat constructor; simpl; tauto | intros th [<-|[]]; discriminate]. Qed.
Lemma wf_rho_json_first : wf_order rho_json_first.
Proof. intros t p; unfold rho_json_first, all_entries. do 2 apply perm_skip. apply perm_swap. Qed.
Lemma wf_rho_obs_first : wf_order rho_obs_first.
Proof.
  intros t p; unfold rho_obs_first, all_entries.
  apply Permutation_sym.
  change [EDot; EDotDot; EFile Obs; EFile Json] with (rev [EFile Json; EFile Obs; EDotDot; EDot]).
  eapply perm_trans; [apply Permutation_sym, Permutation_rev|]. apply perm_swap.
Qed.

(* ================================================================== section "old": the relocation as found *)
Section old.

(* C09 sentence 2 fails: with readdir returning stream.json first, a kill right after the
   fclose of its copy (35 calls) leaves finished = 1 in the final directory and no stream.obs *)
Theorem C09_tmpdir_s2_refuted_old :
  exists bufsz P rho k th, wf_program P /\ wf_order rho /\ In th P /\
    let s := apply_prefix bufsz k (trace_of_program_v Old TmpMode P rho) in
    json_finished (content s (PFile Fin (th_tid th) Json)) = true /\
    files s (PFile Fin (th_tid th) Obs) <> Some (all_bytes th).
Proof.
  exists 4096%nat, P_w, rho_json_first, 35%nat, th_w.
  split; [apply wf_P_w|]. split; [apply wf_rho_json_first|]. split; [left; reflexivity|].
  cbv zeta. split; [vm_compute; reflexivity | vm_compute; discriminate].
Qed.

(* C09 sentence 1 fails for the necessary acceptance condition emu_ok: killed while the copy of
   stream.obs is partly in the file (stdio wrote a prefix that ends on an event boundary) the
   final directory is accepted although a flushed event is missing *)
Theorem C09_tmpdir_s1_refuted_old :
  exists bufsz P rho k t, wf_program P /\ wf_order rho /\ In t (tids P) /\
    let s := apply_prefix bufsz k (trace_of_program_v Old TmpMode P rho) in
    emu_ok s Fin (tids P) = true /\ visible s Fin t = true /\
    is_prefix (flushed_of (firstn k (trace_of_program_v Old TmpMode P rho)) t) (content s (PFile Fin t Obs)) = false.
Proof.
  exists 20%nat, P_w, rho_json_first, 42%nat, 5.
  split; [apply wf_P_w|]. split; [apply wf_rho_json_first|]. split; [left; reflexivity|].
  cbv zeta. repeat split; vm_compute; reflexivity.
Qed.

(* C10 fails: fwrite failing (e.g. ENOSPC) while stream.obs is copied: the result is ignored,
   the source is removed, the program returns normally with an incomplete stream *)
Theorem C10_single_fault_refuted_old :
  exists bufsz m P rho i fk, wf_program P /\ wf_order rho /\
    let s := apply_with_fault bufsz i fk (itrace Old m P rho) in
    outcome_of P s = ReturnedIncomplete /\ m_diag s = false /\ orphan_delete s P = true.
Proof.
  exists 4096%nat, TmpMode, P_w, rho_json_first, 41%nat, FErr.
  split; [apply wf_P_w|]. split; [apply wf_rho_json_first|].
  cbv zeta. repeat split; vm_compute; reflexivity.
Qed.

(* ... and in the other enumeration order as well *)
Theorem C10_single_fault_refuted_old_obs_first :
  exists i fk, let s := apply_with_fault 4096 i fk (itrace Old TmpMode P_w rho_obs_first) in
    outcome_of P_w s = ReturnedIncomplete /\ orphan_delete s P_w = true.
Proof. exists 29%nat, FErr. cbv zeta. split; vm_compute; reflexivity. Qed.

End old.

(* ================================================================== C10: machine with one fault *)

(* runs of an instruction list in which at most one executed call fails (budget = a fault is still available) *)
Inductive R (bufsz : nat) : bool -> list instr -> mstate -> bool -> mstate -> Prop :=
| R_nil b s : R bufsz b [] s b s
| R_dead b i l s : m_dead s = true -> R bufsz b (i :: l) s b s
| R_skip b i l s b' s' : m_dead s = false -> guard_ok (m_fl s (i_tid i)) (i_guard i) = false ->
    R bufsz b l s b' s' -> R bufsz b (i :: l) s b' s'
| R_ok b i l s b' s' : m_dead s = false -> guard_ok (m_fl s (i_tid i)) (i_guard i) = true ->
    R bufsz b l (step bufsz None i s) b' s' -> R bufsz b (i :: l) s b' s'
| R_fault i l s fk b' s' : m_dead s = false -> guard_ok (m_fl s (i_tid i)) (i_guard i) = true ->
    R bufsz false l (step bufsz (Some fk) i s) b' s' -> R bufsz true (i :: l) s b' s'.

Lemma run_R bufsz l : forall fi s,
  exists b', R bufsz (match fi with Some _ => true | None => false end) l s b' (run bufsz fi l s).
Proof.
  induction l as [|i l IH]; intros fi s; cbn [run].
  - eexists; constructor.
  - destruct (m_dead s) eqn:D; [eexists; apply R_dead; auto|].
    destruct (guard_ok _ _) eqn:G.
    + destruct fi as [[[|n] fk]|].
      * destruct (IH None (step bufsz (Some fk) i s)) as [b' H]. exists b'.
        apply (R_fault bufsz i l s fk b' _ D G H).
      * destruct (IH (Some (n, fk)) (step bufsz None i s)) as [b' H]. exists b'. apply R_ok; auto.
      * destruct (IH None (step bufsz None i s)) as [b' H]. exists b'. apply R_ok; auto.
    + destruct (IH fi s) as [b' H]. exists b'. apply R_skip; auto.
Qed.

Lemma R_dead_any bufsz b l s : m_dead s = true -> R bufsz b l s b s.
Proof. intros H; destruct l; [constructor | apply R_dead; auto]. Qed.

Ltac with_R k := match goal with Hr : R _ _ _ _ _ _ |- _ => k Hr end.

Lemma R_app bufsz l1 : forall l2 b s b' s',
  R bufsz b (l1 ++ l2) s b' s' -> exists b1 s1, R bufsz b l1 s b1 s1 /\ R bufsz b1 l2 s1 b' s'.
Proof.
  induction l1 as [|i l1 IH]; intros l2 b s b' s' H; simpl in H.
  - exists b, s; split; [constructor | auto].
  - inversion H; subst; clear H.
    + exists b', s'; split; [apply R_dead; auto | apply R_dead_any; auto].
    + with_R ltac:(fun Hr => destruct (IH _ _ _ _ _ Hr) as (b1 & s1 & A & B)).
      exists b1, s1; split; auto. apply R_skip; auto.
    + with_R ltac:(fun Hr => destruct (IH _ _ _ _ _ Hr) as (b1 & s1 & A & B)).
      exists b1, s1; split; auto. apply R_ok; auto.
    + with_R ltac:(fun Hr => destruct (IH _ _ _ _ _ Hr) as (b1 & s1 & A & B)).
      exists b1, s1; split; auto. eapply R_fault; eauto.
Qed.

(* what one step does to a file it does not name, to flags of other threads, to dead/diag *)
Lemma exec_fault_frame bufsz fk o s q : touch o <> Some q ->
  files (exec_fault bufsz fk o s) q = files s q /\ pend (exec_fault bufsz fk o s) q = pend s q.
Proof.
  intros H. destruct fk, o; simpl in *; auto;
    try (assert (q <> p) by congruence);
    try (destruct (pend s p); simpl; rewrite ?upd_neq; auto; fail);
    try (apply buffered_frame; auto; fail).
Qed.

Lemma step_frame bufsz fo i s q : touch (i_op i) <> Some q ->
  files (m_fs (step bufsz fo i s)) q = files (m_fs s) q /\ pend (m_fs (step bufsz fo i s)) q = pend (m_fs s) q.
Proof.
  intros H; unfold step; destruct fo as [fk|]; [destruct (is_failure fk (i_op i))|]; simpl;
    first [apply exec_fault_frame; auto | apply exec_ok_frame; auto].
Qed.

Lemma R_frame bufsz l q : Forall (fun i => nt q (i_op i)) l -> forall b s b' s',
  R bufsz b l s b' s' ->
  files (m_fs s') q = files (m_fs s) q /\ pend (m_fs s') q = pend (m_fs s) q.
Proof.
  induction l as [|i l IH]; intros HF b s b' s' H; inversion H; subst; clear H; auto;
    inversion HF; subst.
  - with_R ltac:(fun Hr => eapply IH; eauto).
  - with_R ltac:(fun Hr => destruct (IH ltac:(assumption) _ _ _ _ Hr) as [-> ->]). apply step_frame; auto.
  - with_R ltac:(fun Hr => destruct (IH ltac:(assumption) _ _ _ _ Hr) as [-> ->]). apply step_frame; auto.
Qed.

Lemma setfl_other fl t l v t' f : t' <> t -> setfl fl t l v t' f = fl t' f.
Proof.
  intros H; unfold setfl; destruct l; auto. apply Z.eqb_neq in H; rewrite H; reflexivity.
Qed.

Lemma step_flags_other bufsz fo i s t f : i_tid i <> t -> m_fl (step bufsz fo i s) t f = m_fl s t f.
Proof.
  intros H; unfold step; destruct fo as [fk|]; [destruct (is_failure fk (i_op i))|]; simpl;
    rewrite ?setfl_other; auto.
Qed.

Lemma R_flags_other bufsz l t : Forall (fun i => i_tid i <> t) l -> forall b s b' s' f,
  R bufsz b l s b' s' -> m_fl s' t f = m_fl s t f.
Proof.
  induction l as [|i l IH]; intros HF b s b' s' f H; inversion H; subst; clear H; auto; inversion HF; subst.
  - with_R ltac:(fun Hr => eapply IH; eauto).
  - with_R ltac:(fun Hr => rewrite (IH ltac:(assumption) _ _ _ _ f Hr)). apply step_flags_other; auto.
  - with_R ltac:(fun Hr => rewrite (IH ltac:(assumption) _ _ _ _ f Hr)). apply step_flags_other; auto.
Qed.

(* a dead run has printed a diagnostic *)
Lemma R_dead_diag bufsz l : Forall (fun i => i_die i = true -> i_diag i = true) l -> forall b s b' s',
  R bufsz b l s b' s' -> (m_dead s = true -> m_diag s = true) -> m_dead s' = true -> m_diag s' = true.
Proof.
  induction l as [|i l IH]; intros HF b s b' s' H Hs; inversion H; subst; clear H; auto; inversion HF; subst.
  - with_R ltac:(fun Hr => eapply IH; eauto).
  - with_R ltac:(fun Hr => apply (IH ltac:(assumption) _ _ _ _ Hr)). simpl. congruence.
  - with_R ltac:(fun Hr => apply (IH ltac:(assumption) _ _ _ _ Hr)). unfold step. destruct (is_failure fk (i_op i)); simpl; [|congruence].
    intros D. match goal with Hd : i_die i = true -> _ |- _ => rewrite (Hd D) end. apply orb_true_r.
Qed.

(* the log only grows, by calls of the list *)
Lemma R_log bufsz l : forall b s b' s' o, R bufsz b l s b' s' ->
  In o (m_log s') -> In o (m_log s) \/ In o (map i_op l).
Proof.
  induction l as [|i l IH]; intros b s b' s' o H Ho; inversion H; subst; clear H; auto.
  - with_R ltac:(fun Hr => destruct (IH _ _ _ _ o Hr Ho)); auto. right; right; auto.
  - with_R ltac:(fun Hr => destruct (IH _ _ _ _ o Hr Ho) as [H1|H1]); [|right; right; auto].
    simpl in H1. destruct H1 as [<-|H1]; auto. right; left; auto.
  - with_R ltac:(fun Hr => destruct (IH _ _ _ _ o Hr Ho) as [H1|H1]); [|right; right; auto].
    unfold step in H1. destruct (is_failure fk (i_op i)); simpl in H1; destruct H1 as [<-|H1]; auto; right; left; auto.
Qed.

Lemma R_from_dead bufsz l b s b' s' : m_dead s = true -> R bufsz b l s b' s' -> s' = s /\ b' = b.
Proof. intros D H; inversion H; subst; auto; congruence. Qed.

Lemma is_failure_nowrite fk o : is_write o = false -> is_failure fk o = true.
Proof. destruct fk, o; simpl; auto; discriminate. Qed.

(* --- calls whose failure is fatal (or, for close(), ignored without effect) --- *)

Definition dieish (i : instr) : Prop :=
  i_guard i = [] /\ i_set i = [] /\ i_unset i = [] /\ i_clear i = [] /\
  ((i_die i = true /\ i_diag i = true)
   \/ ((exists p, i_op i = Close p) /\ i_die i = false /\ i_diag i = false)).

Lemma R_dielist bufsz l : Forall dieish l -> forall b s b' s',
  R bufsz b l s b' s' -> m_dead s = false ->
  (m_dead s' = true /\ m_diag s' = true)
  \/ (m_dead s' = false /\ m_fs s' = apply_ops bufsz (map i_op l) (m_fs s)
      /\ m_fl s' = m_fl s /\ m_diag s' = m_diag s).
Proof.
  induction l as [|i l IH]; intros HF b s b' s' H D; inversion H; subst; clear H.
  - right; auto.
  - congruence.
  - inversion HF; subst. destruct H1 as (G & _). rewrite G in *. discriminate.
  - inversion HF as [|? ? Hd HF']; subst. destruct Hd as (_ & S1 & S2 & _).
    with_R ltac:(fun Hr => destruct (IH HF' _ _ _ _ Hr) as [?|(A & B & C & E)]); auto.
    right. repeat split; auto.
    + rewrite C. unfold step; simpl. rewrite S1, S2. reflexivity.
  - inversion HF as [|? ? Hd HF']; subst. destruct Hd as (_ & S1 & S2 & S3 & Hk).
    destruct (is_failure fk (i_op i)) eqn:F.
    + destruct Hk as [[K1 K2]|[[p Hp] [K1 K2]]].
      * (* die *)
        with_R ltac:(fun Hr => apply R_from_dead in Hr as [-> ->]).
        { left. unfold step; rewrite F; simpl. rewrite K1, K2, orb_true_r. auto. }
        unfold step; rewrite F; simpl; auto.
      * (* close(): ignored *)
        with_R ltac:(fun Hr => destruct (IH HF' _ _ _ _ Hr) as [?|(A & B & C & E)]); auto.
        { unfold step; rewrite F; simpl; auto. }
        right. unfold step in *; rewrite F in *; simpl in *. rewrite S3 in C. rewrite K2, orb_false_r in E.
        repeat split; auto. rewrite B, Hp. destruct fk; reflexivity.
    + (* short write: the loop completes it *)
      with_R ltac:(fun Hr => destruct (IH HF' _ _ _ _ Hr) as [?|(A & B & C & E)]); auto.
      { unfold step; rewrite F; simpl; auto. }
      right. unfold step in *; rewrite F in *; simpl in *. rewrite S1, S2 in C.
      repeat split; auto. rewrite B.
      destruct fk; [simpl in F; discriminate|]. destruct (i_op i); simpl in F; try discriminate. reflexivity.
Qed.

(* --- the part of a thread before any relocation: init, flushes, final metadata store, close --- *)

Definition SA (m : mode) (th : thread) : list instr :=
  thread_init_tr m th ++ flush_tr m th
  ++ store_meta_tr m (th_tid th) (meta_text true (th_meta1 th))
  ++ [iign (th_tid th) (Close (PFile (procloc m) (th_tid th) Obs))].

Lemma SA_dieish m th : Forall dieish (SA m th).
Proof.
  assert (D : forall t o, dieish (idie t o)) by (intros; unfold dieish, idie; simpl; repeat split; auto).
  unfold SA, thread_init_tr, mkpath_thread, store_meta_tr, flush_tr. fa; auto.
  - destruct m; fa; auto.
  - apply Forall_map, Forall_forall; intros; auto.
  - unfold dieish, iign; simpl; repeat split; auto. right; repeat split; eauto.
Qed.

Definition touchp (o : op) : option path :=
  match o with FopenW p | Fputs p _ | Fwrite p _ | Fclose p => Some p | _ => None end.

Lemma exec_ok_pend bufsz o s q : touchp o <> Some q -> pend (exec_ok bufsz o s) q = pend s q.
Proof.
  intros H; destruct o; simpl in *; auto; try (assert (q <> p) by congruence).
  - destruct (files s p); auto.
  - simpl; rewrite upd_neq; auto.
  - apply buffered_frame; auto.
  - apply buffered_frame; auto.
  - destruct (pend s p); simpl; rewrite ?upd_neq; auto.
  - destruct (forallb _ _); auto.
Qed.

Lemma apply_ops_pend bufsz l : forall s q, Forall (fun o => touchp o <> Some q) l ->
  pend (apply_ops bufsz l s) q = pend s q.
Proof.
  induction l as [|o l IH]; intros s q H; auto. inversion H; subst.
  rewrite apply_ops_cons, IH by auto. apply exec_ok_pend; auto.
Qed.

Lemma SA_ops m th : map i_op (SA m th) =
  map i_op (thread_init_tr m th ++ flush_tr m th)
  ++ map i_op (store_meta_tr m (th_tid th) (meta_text true (th_meta1 th)))
  ++ [Close (PFile (procloc m) (th_tid th) Obs)].
Proof. unfold SA. rewrite !map_app. rewrite <- !app_assoc. reflexivity. Qed.

Lemma SA_result bufsz m th s :
  files s (PFile (procloc m) (th_tid th) Obs) = None -> pend s (PFile (procloc m) (th_tid th) Obs) = None ->
  let s' := apply_ops bufsz (map i_op (SA m th)) s in
  files s' (PFile (procloc m) (th_tid th) Obs) = Some (all_bytes th)
  /\ files s' (PFile (procloc m) (th_tid th) Json) = Some (meta_text true (th_meta1 th))
  /\ pend s' (PFile (procloc m) (th_tid th) Obs) = None
  /\ pend s' (PFile (procloc m) (th_tid th) Json) = None.
Proof.
  intros Ho Hp. cbv zeta. rewrite SA_ops, !apply_ops_app.
  set (s1 := apply_ops bufsz (map i_op (thread_init_tr m th ++ flush_tr m th)) s).
  set (s2 := apply_ops bufsz (map i_op (store_meta_tr m (th_tid th) (meta_text true (th_meta1 th)))) s1).
  assert (H1 : files s1 (PFile (procloc m) (th_tid th) Obs) = Some (all_bytes th)) by (apply init_flush_obs; auto).
  destruct (store_result bufsz m (th_tid th) (meta_text true (th_meta1 th)) s1) as [J1 J2]. fold s2 in J1, J2.
  assert (NO : Forall (nt (PFile (procloc m) (th_tid th) Obs))
                 (map i_op (store_meta_tr m (th_tid th) (meta_text true (th_meta1 th))))).
  { unfold store_meta_tr; simpl; fa; unfold nt; simpl; intros E; injection E; discriminate. }
  repeat split.
  - simpl. destruct (apply_ops_frame bufsz _ s1 _ NO) as [E _]. fold s2 in E. rewrite E; auto.
  - simpl; auto.
  - simpl. rewrite <- Hp. unfold s2, s1. rewrite <- apply_ops_app, <- map_app.
    apply apply_ops_pend.
    unfold thread_init_tr, mkpath_thread, store_meta_tr, flush_tr. rewrite !map_app, map_map.
    assert (L : forall o, (touchp o = None \/ exists t' l', touchp o = Some (PFile l' t' Json)) ->
                          touchp o <> Some (PFile (procloc m) (th_tid th) Obs)).
    { intros o [E|(t' & l' & E)]; rewrite E; discriminate. }
    fa; try (destruct m; simpl; fa); try (apply Forall_map, Forall_forall; intros);
      apply L; simpl; eauto.
  - simpl; auto.
Qed.

(* --- what a thread's part of the run must establish --- *)

Definition fin_ok (fs : fsys) (th : thread) : Prop :=
  files fs (PFile Fin (th_tid th) Obs) = Some (all_bytes th)
  /\ files fs (PFile Fin (th_tid th) Json) = Some (meta_text true (th_meta1 th)).
Definition tmp_ok (fs : fsys) (th : thread) : Prop :=
  files fs (PFile Tmp (th_tid th) Obs) = Some (all_bytes th)
  /\ files fs (PFile Tmp (th_tid th) Json) = Some (meta_text true (th_meta1 th)).

Definition clean (s : mstate) (t : Z) : Prop :=
  (forall l f, files (m_fs s) (PFile l t f) = None /\ pend (m_fs s) (PFile l t f) = None)
  /\ (forall f, m_fl s t f = false).

Definition thread_post (th : thread) (s s1 : mstate) : Prop :=
  (forall f, In (Remove (PFile Tmp (th_tid th) f)) (m_log s1) ->
             In (Remove (PFile Tmp (th_tid th) f)) (m_log s) \/ fin_ok (m_fs s1) th)
  /\ (m_dead s1 = false -> fin_ok (m_fs s1) th \/ tmp_ok (m_fs s1) th).

Lemma SA_noremove m th p : ~ In (Remove p) (map i_op (SA m th)).
Proof.
  unfold SA, thread_init_tr, mkpath_thread, store_meta_tr, flush_tr. rewrite !map_app, map_map.
  intros H. repeat (apply in_app_or in H as [H|H]);
    try (destruct m; simpl in H; intuition discriminate).
  apply in_map_iff in H as (c & E & _). discriminate.
Qed.

Lemma direct_thread_is_SA rho th : thread_tr New Direct rho th = SA Direct th.
Proof. unfold thread_tr, thread_free_tr, SA. simpl. rewrite <- ?app_assoc. reflexivity. Qed.

Lemma direct_thread_post bufsz rho th b s b1 s1 :
  R bufsz b (thread_tr New Direct rho th) s b1 s1 -> m_dead s = false -> clean s (th_tid th) ->
  thread_post th s s1.
Proof.
  rewrite direct_thread_is_SA. intros HR D [Hc _].
  assert (HL : forall f, In (Remove (PFile Tmp (th_tid th) f)) (m_log s1) ->
                         In (Remove (PFile Tmp (th_tid th) f)) (m_log s)).
  { intros f Hin. destruct (R_log _ _ _ _ _ _ _ HR Hin) as [H|H]; auto. exfalso; eapply SA_noremove; eauto. }
  destruct (R_dielist bufsz _ (SA_dieish Direct th) _ _ _ _ HR D) as [[D1 _]|(D1 & Hfs & _)].
  - split; [intros f Hin; left; auto | congruence].
  - split; [intros f Hin; left; auto|]. intros _. left.
    destruct (SA_result bufsz Direct th (m_fs s)) as (A & B & _); try apply Hc.
    rewrite Hfs. split; [exact A | exact B].
Qed.

(* --- from threads to programs --- *)

Lemma thread_tids v m rho th : Forall (fun i => i_tid i = th_tid th) (thread_tr v m rho th).
Proof.
  unfold thread_tr, thread_free_tr; unfold thread_init_tr, mkpath_thread, store_meta_tr, flush_tr.
  fa; try reflexivity; try (destruct m; fa; reflexivity);
    try (apply Forall_map, Forall_forall; intros; reflexivity).
  destruct m; [constructor|]. fa; [|reflexivity].
  destruct v; unfold relocate, relocate_new, relocate_old, pass_new, copy_new, copy_old; fa; try reflexivity;
    try (apply Forall_flat_map, Forall_forall; intros e _; fa; try reflexivity;
         destruct e as [| |[]]; cbn; fa; try reflexivity;
         apply Forall_flat_map, Forall_forall; intros; fa; reflexivity).
Qed.

Lemma list_eqb_refl l : list_eqb l l = true.
Proof.
  unfold list_eqb. rewrite Nat.eqb_refl. simpl.
  induction l; simpl; auto. rewrite Z.eqb_refl; auto.
Qed.

Lemma fin_ok_complete fs th : fin_ok fs th -> stream_complete fs Fin th = true.
Proof.
  intros [A B]; unfold stream_complete, content. rewrite A, B, json_finished_meta, list_eqb_refl. reflexivity.
Qed.
Lemma tmp_ok_complete fs th : tmp_ok fs th -> stream_complete fs Tmp th = true.
Proof.
  intros [A B]; unfold stream_complete, content. rewrite A, B, json_finished_meta, list_eqb_refl. reflexivity.
Qed.

Section lift.
Variables (bufsz : nat) (m : mode) (rho : order).
Hypothesis thread_lemma : forall th b s b1 s1,
  R bufsz b (thread_tr New m rho th) s b1 s1 -> m_dead s = false -> clean s (th_tid th) -> thread_post th s s1.

Lemma other_instrs t l : Forall (other t) (map i_op l) -> forall lo f, Forall (fun i => nt (PFile lo t f) (i_op i)) l.
Proof. intros H lo f. rewrite Forall_map in H. eapply Forall_impl; [|exact H]. intros a Ha; apply Ha. Qed.

Lemma ok_frame l t th b s b' s' : th_tid th = t -> Forall (other t) (map i_op l) -> R bufsz b l s b' s' ->
  (fin_ok (m_fs s) th -> fin_ok (m_fs s') th) /\ (tmp_ok (m_fs s) th -> tmp_ok (m_fs s') th).
Proof.
  intros <- HO HR. unfold fin_ok, tmp_ok.
  destruct (R_frame bufsz l _ (other_instrs _ l HO Fin Obs) _ _ _ _ HR) as [-> _].
  destruct (R_frame bufsz l _ (other_instrs _ l HO Fin Json) _ _ _ _ HR) as [-> _].
  destruct (R_frame bufsz l _ (other_instrs _ l HO Tmp Obs) _ _ _ _ HR) as [-> _].
  destruct (R_frame bufsz l _ (other_instrs _ l HO Tmp Json) _ _ _ _ HR) as [-> _]. tauto.
Qed.

Lemma clean_frame l t b s b' s' : Forall (other t) (map i_op l) -> Forall (fun i => i_tid i <> t) l ->
  R bufsz b l s b' s' -> clean s t -> clean s' t.
Proof.
  intros HO HT HR [C1 C2]. split.
  - intros lo f. destruct (R_frame bufsz l _ (other_instrs _ l HO lo f) _ _ _ _ HR) as [-> ->]. apply C1.
  - intros f. rewrite (R_flags_other bufsz l t HT _ _ _ _ f HR). apply C2.
Qed.

Lemma remove_not_other t f l : Forall (other t) l -> ~ In (Remove (PFile Tmp t f)) l.
Proof.
  intros H Hin. rewrite Forall_forall in H. apply (H _ Hin Tmp f). reflexivity.
Qed.

Lemma post_extend th l s s1 b1 b' s' :
  Forall (other (th_tid th)) (map i_op l) -> thread_post th s s1 -> R bufsz b1 l s1 b' s' -> thread_post th s s'.
Proof.
  intros HO [PA PB] HR.
  destruct (ok_frame l _ th _ _ _ _ eq_refl HO HR) as [F1 F2].
  split.
  - intros f Hin. destruct (R_log _ _ _ _ _ _ _ HR Hin) as [H|H].
    + destruct (PA f H); auto.
    + exfalso; eapply remove_not_other; eauto.
  - intros D. destruct (m_dead s1) eqn:D1.
    + apply R_from_dead in HR as [-> _]; auto. congruence.
    + destruct (PB eq_refl); auto.
Qed.

Lemma threads_R P : NoDup (tids P) -> forall b s b' s',
  R bufsz b (flat_map (thread_tr New m rho) P) s b' s' ->
  (forall th, In th P -> clean s (th_tid th)) ->
  forall th, In th P -> thread_post th s s'.
Proof.
  induction P as [|th0 P IH]; intros ND b s b' s' HR HC th Hin; [destruct Hin|].
  cbn [flat_map] in HR. apply R_app in HR as (b1 & s1 & HR1 & HR2).
  inversion ND as [|? ? Hnot ND']; subst.
  assert (Hne : forall th', In th' P -> th_tid th' <> th_tid th0).
  { intros th' H E. apply Hnot. unfold tids. rewrite <- E. apply in_map; auto. }
  destruct (m_dead s) eqn:D.
  { apply R_from_dead in HR1 as [-> ->]; auto. apply R_from_dead in HR2 as [-> ->]; auto.
    split; [auto | congruence]. }
  destruct Hin as [<-|Hin].
  - pose proof (thread_lemma th0 _ _ _ _ HR1 D (HC th0 (or_introl eq_refl))) as P0.
    eapply post_extend; eauto. apply threads_other. intros th' H; apply Hne; auto.
  - assert (HC1 : forall th', In th' P -> clean s1 (th_tid th')).
    { intros th' H. eapply clean_frame; [| |exact HR1|apply HC; right; auto].
      - apply thread_other. intros E; apply (Hne th' H); auto.
      - eapply Forall_impl; [|apply thread_tids]. simpl. intros a -> E. apply (Hne th' H); auto. }
    destruct (IH ND' _ _ _ _ HR2 HC1 th Hin) as [PA PB]. split; auto.
    intros f H. destruct (PA f H) as [H1|H1]; auto.
    destruct (R_log _ _ _ _ _ _ _ HR1 H1) as [H2|H2]; auto.
    exfalso. eapply remove_not_other; [|exact H2]. apply thread_other. intros E; apply (Hne th Hin); auto.
Qed.

Theorem C10_from_threads P : wf_program P -> C10_statement bufsz m P rho.
Proof.
  intros [ND NZ] i fk. cbv zeta. unfold apply_with_fault, itrace.
  destruct (run_R bufsz (proc_init_tr m ++ flat_map (thread_tr New m rho) P ++ proc_fini_tr m P) (Some (i, fk)) m0)
    as [b' HR].
  set (s' := run bufsz (Some (i, fk)) _ m0) in *. clearbody s'.
  apply R_app in HR as (b1 & s1 & HR1 & HR). apply R_app in HR as (b2 & s2 & HR2 & HR3).
  (* diagnostics *)
  assert (DD : m_dead s' = true -> m_diag s' = true).
  { intros D.
    assert (D1 : m_dead s1 = true -> m_diag s1 = true).
    { eapply (R_dead_diag bufsz (proc_init_tr m)); [|exact HR1|discriminate].
      destruct m; simpl; fa; auto. }
    assert (D2 : m_dead s2 = true -> m_diag s2 = true).
    { eapply (R_dead_diag bufsz (flat_map (thread_tr New m rho) P)); [|exact HR2|exact D1].
      apply Forall_flat_map, Forall_forall; intros th _.
      unfold thread_tr, thread_free_tr; unfold thread_init_tr, mkpath_thread, store_meta_tr, flush_tr.
      fa; auto; try (destruct m; fa; auto); try (apply Forall_map, Forall_forall; intros; auto).
      unfold relocate, relocate_new, pass_new, copy_new. fa; try (simpl; discriminate); auto;
        apply Forall_flat_map, Forall_forall; intros e _; fa; try (simpl; discriminate);
        destruct e as [| |[]]; cbn; fa; try (simpl; discriminate);
        apply Forall_flat_map, Forall_forall; intros; fa; simpl; discriminate. }
    eapply (R_dead_diag bufsz (proc_fini_tr m P)); [|exact HR3|exact D2|exact D].
    destruct m; simpl; fa; simpl; discriminate. }
  (* every thread *)
  assert (C1 : forall th, In th P -> clean s1 (th_tid th)).
  { intros th Hin. eapply (clean_frame (proc_init_tr m)); [apply init_other| |exact HR1|].
    - destruct m; simpl; fa; simpl; intros E; apply (NZ th Hin); auto.
    - split; [intros; split; reflexivity | reflexivity]. }
  assert (PT : forall th, In th P -> thread_post th s1 s').
  { intros th Hin. eapply post_extend; [apply fini_other| |exact HR3].
    eapply threads_R; eauto. }
  assert (NR : forall th f, In th P -> ~ In (Remove (PFile Tmp (th_tid th) f)) (m_log s1)).
  { intros th f Hin H. destruct (R_log _ _ _ _ _ _ _ HR1 H) as [H1|H1]; [destruct H1|].
    eapply remove_not_other; [apply init_other|exact H1]. }
  split.
  - unfold outcome_of. destruct (m_dead s') eqn:D.
    + rewrite DD; auto.
    + right. replace (complete_valid (m_fs s') P) with true; auto.
      symmetry. unfold complete_valid. apply forallb_forall. intros th Hin.
      destruct (PT th Hin) as [_ PB]. destruct (PB D) as [H|H].
      * rewrite fin_ok_complete; auto.
      * rewrite tmp_ok_complete, orb_true_r; auto.
  - unfold orphan_delete.
    destruct (existsb _ P) eqn:E; auto. exfalso.
    apply existsb_exists in E as (th & Hin & E). apply existsb_exists in E as (f & _ & E).
    apply andb_true_iff in E as [E1 E2]. apply existsb_exists in E1 as (o & Ho & E1).
    destruct o; try discriminate. destruct p; try discriminate. destruct l; try discriminate.
    apply andb_true_iff in E1 as [Et Ef]. apply Z.eqb_eq in Et. apply fname_eqb_eq in Ef. subst.
    destruct (PT th Hin) as [PA _]. destruct (PA f0 Ho) as [H|[HA HB]]; [eapply NR; eauto|].
    destruct f0; simpl in E2; [rewrite HA in E2 | rewrite HB in E2]; rewrite list_eqb_refl in E2; discriminate.
Qed.

End lift.

Theorem C10_direct_all bufsz P rho : wf_program P -> C10_statement bufsz Direct P rho.
Proof.
  apply C10_from_threads. intros th b s b1 s1 H D C. eapply direct_thread_post; eauto.
Qed.

(* ------------------------------------------------------------------ OVNI_TMPDIR mode: the relocation under one fault *)

Lemma flag_eqb_eq a b : flag_eqb a b = true <-> a = b.
Proof. destruct a, b; simpl; split; congruence. Qed.

Lemma existsb_flag_false f l : ~ In f l -> existsb (flag_eqb f) l = false.
Proof.
  intros H; destruct (existsb (flag_eqb f) l) eqn:E; auto.
  apply existsb_exists in E as (x & Hx & E). apply flag_eqb_eq in E; subst; contradiction.
Qed.
Lemma existsb_flag_true f l : In f l -> existsb (flag_eqb f) l = true.
Proof. intros H; apply existsb_exists; exists f; split; auto. apply flag_eqb_eq; auto. Qed.

Lemma setfl_notin fl t l v t' f : ~ In f l -> setfl fl t l v t' f = fl t' f.
Proof.
  intros H; unfold setfl; destruct l; auto. rewrite existsb_flag_false by auto. rewrite andb_false_r; auto.
Qed.
Lemma setfl_in fl t l v f : In f l -> setfl fl t l v t f = v.
Proof.
  intros H; unfold setfl; destruct l; [destruct H|]. rewrite Z.eqb_refl, existsb_flag_true by auto. reflexivity.
Qed.

(* a flag no instruction of the list mentions keeps its value, whatever fails *)
Definition nomention (f : flag) (i : instr) : Prop :=
  ~ In f (i_set i) /\ ~ In f (i_unset i) /\ ~ In f (i_clear i).

Lemma step_flag_keep bufsz fo i s t f : nomention f i -> m_fl (step bufsz fo i s) t f = m_fl s t f.
Proof.
  intros (A & B & C); unfold step; destruct fo as [fk|]; [destruct (is_failure fk (i_op i))|]; simpl;
    rewrite ?setfl_notin; auto.
Qed.

Lemma R_flag_keep bufsz l t f : Forall (nomention f) l -> forall b s b' s',
  R bufsz b l s b' s' -> m_fl s' t f = m_fl s t f.
Proof.
  induction l as [|i l IH]; intros HF b s b' s' H; inversion H; subst; clear H; auto; inversion HF; subst.
  - with_R ltac:(fun Hr => eapply IH; eauto).
  - with_R ltac:(fun Hr => rewrite (IH ltac:(assumption) _ _ _ _ Hr)). apply step_flag_keep; auto.
  - with_R ltac:(fun Hr => rewrite (IH ltac:(assumption) _ _ _ _ Hr)). apply step_flag_keep; auto.
Qed.

(* no instruction of the relocation dies *)
Lemma R_nodie bufsz l : Forall (fun i => i_die i = false) l -> forall b s b' s',
  R bufsz b l s b' s' -> m_dead s = false -> m_dead s' = false.
Proof.
  induction l as [|i l IH]; intros HF b s b' s' H D; inversion H; subst; clear H; auto; inversion HF; subst.
  - with_R ltac:(fun Hr => eapply IH; eauto).
  - with_R ltac:(fun Hr => eapply IH; eauto).
  - with_R ltac:(fun Hr => eapply IH; eauto). unfold step. destruct (is_failure fk (i_op i)); simpl; auto.
Qed.

(* once false, a flag that nothing sets stays false *)
Lemma R_flag_stays_false bufsz l t f : Forall (fun i => ~ In f (i_set i)) l -> forall b s b' s',
  R bufsz b l s b' s' -> m_fl s t f = false -> m_fl s' t f = false.
Proof.
  assert (K : forall fl t0 ls lu, ~ In f ls -> fl t f = false ->
              setfl (setfl fl t0 ls true) t0 lu false t f = false).
  { intros fl t0 ls lu Hn Hf. unfold setfl at 1. destruct lu; [rewrite setfl_notin; auto|].
    destruct ((t =? t0) && existsb (flag_eqb f) (f0 :: lu)); auto. rewrite setfl_notin; auto. }
  induction l as [|i l IH]; intros HF b s b' s' H Hf; inversion H; subst; clear H; auto; inversion HF; subst.
  - with_R ltac:(fun Hr => eapply IH; eauto).
  - with_R ltac:(fun Hr => eapply IH; eauto). simpl. apply K; auto.
  - with_R ltac:(fun Hr => eapply IH; eauto). unfold step. destruct (is_failure fk (i_op i)); simpl.
    + unfold setfl. destruct (i_clear i); auto. destruct (_ && _); auto.
    + apply K; auto.
Qed.

(* everything guarded by a false flag is skipped *)
Lemma guard_false fl g f : In f g -> fl f = false -> guard_ok fl g = false.
Proof.
  intros Hin Hf; unfold guard_ok. destruct (forallb fl g) eqn:E; auto.
  rewrite forallb_forall in E. rewrite (E f Hin) in Hf; discriminate.
Qed.

Lemma R_all_skipped bufsz l t s : Forall (fun i => i_tid i = t /\ exists f, In f (i_guard i) /\ m_fl s t f = false) l ->
  forall b b' s', R bufsz b l s b' s' -> s' = s /\ b' = b.
Proof.
  induction l as [|i l IH]; intros HF b b' s' H; inversion H; subst; clear H; auto; inversion HF; subst;
    try (with_R ltac:(fun Hr => eapply IH; eauto); fail);
    match goal with Hx : _ /\ _ |- _ => destruct Hx as (Et & f & Hin & Hf) end;
    match goal with Hg : guard_ok _ _ = true |- _ => rewrite Et, (guard_false _ _ f Hin Hf) in Hg; discriminate end.
Qed.

(* failures without any effect: fclose of a FILE open for reading, closedir *)
Definition neutral (i : instr) (s : mstate) : Prop :=
  i_die i = false /\ i_diag i = false /\ i_set i = [] /\
  (((exists p, i_op i = Fclose p /\ pend (m_fs s) p = None) /\ i_clear i = [] /\ i_unset i = [])
   \/ ((exists p, i_op i = Closedir p) /\ i_clear i = i_unset i)).

Lemma neutral_step bufsz fk i s : m_dead s = false -> neutral i s ->
  step bufsz (Some fk) i s = step bufsz None i s.
Proof.
  intros D (N1 & N2 & N3 & [[(p & Ho & Hp) [N4 N5]]|[(p & Ho) N4]]); unfold step; rewrite Ho.
  - replace (is_failure fk (Fclose p)) with true by (destruct fk; reflexivity).
    rewrite N1, N2, N3, N4, N5, D, orb_false_r. f_equal.
    destruct fk; simpl; rewrite Hp; reflexivity.
  - replace (is_failure fk (Closedir p)) with true by (destruct fk; reflexivity).
    rewrite N1, N2, N3, N4, D, orb_false_r. f_equal. destruct fk; reflexivity.
Qed.

Lemma R_nobudget bufsz l : forall s b' s', R bufsz false l s b' s' -> s' = run bufsz None l s /\ b' = false.
Proof.
  induction l as [|i l IH]; intros s b' s' H; inversion H; subst; clear H; cbn [run]; auto.
  - match goal with Hd : m_dead _ = true |- _ => rewrite Hd end; auto.
  - match goal with Hd : m_dead _ = false, Hg : guard_ok _ _ = false |- _ => rewrite Hd, Hg end. apply IH; auto.
  - match goal with Hd : m_dead _ = false, Hg : guard_ok _ _ = true |- _ => rewrite Hd, Hg end. apply IH; auto.
Qed.

(* the relocation under one fault: either it ran as if nothing failed, or FMoveOk is off *)
Definition keeps (t : Z) (o : op) : Prop :=
  forall f, touch o = Some (PFile Tmp t f) -> o = Fclose (PFile Tmp t f).
Definition pendnone (t : Z) (fs : fsys) : Prop := forall f, pend fs (PFile Tmp t f) = None.

Definition nkind (t : Z) (i : instr) : Prop :=
  i_diag i = false /\ i_set i = [] /\
  (((exists f, i_op i = Fclose (PFile Tmp t f)) /\ i_clear i = [] /\ i_unset i = [])
   \/ ((exists p, i_op i = Closedir p) /\ i_clear i = i_unset i)).

Definition reloc_instr (t : Z) (i : instr) : Prop :=
  i_tid i = t /\ i_die i = false /\ ~ In FMoveOk (i_set i) /\ keeps t (i_op i)
  /\ is_write (i_op i) = false /\ (In FMoveOk (i_clear i) \/ nkind t i).

Lemma keeps_exec_ok bufsz t o fs : keeps t o -> pendnone t fs ->
  pendnone t (exec_ok bufsz o fs) /\ forall f, files (exec_ok bufsz o fs) (PFile Tmp t f) = files fs (PFile Tmp t f).
Proof.
  intros K P. assert (H : forall f, files (exec_ok bufsz o fs) (PFile Tmp t f) = files fs (PFile Tmp t f)
                                   /\ pend (exec_ok bufsz o fs) (PFile Tmp t f) = pend fs (PFile Tmp t f)).
  { intros f. destruct (touch o) as [q|] eqn:E.
    - destruct (path_eqb q (PFile Tmp t f)) eqn:E2.
      + apply path_eqb_eq in E2; subst q. rewrite (K f E). simpl. rewrite (P f). auto.
      + apply exec_ok_frame. rewrite E. intros E3; injection E3 as ->. rewrite path_eqb_refl in E2; discriminate.
    - apply exec_ok_frame. rewrite E; discriminate. }
  split; intros f; destruct (H f) as [A B]; auto. rewrite B; apply P.
Qed.

Lemma keeps_exec_fault bufsz fk t o fs : keeps t o -> pendnone t fs ->
  pendnone t (exec_fault bufsz fk o fs) /\ forall f, files (exec_fault bufsz fk o fs) (PFile Tmp t f) = files fs (PFile Tmp t f).
Proof.
  intros K P. assert (H : forall f, files (exec_fault bufsz fk o fs) (PFile Tmp t f) = files fs (PFile Tmp t f)
                                   /\ pend (exec_fault bufsz fk o fs) (PFile Tmp t f) = pend fs (PFile Tmp t f)).
  { intros f. destruct (touch o) as [q|] eqn:E.
    - destruct (path_eqb q (PFile Tmp t f)) eqn:E2.
      + apply path_eqb_eq in E2; subst q. rewrite (K f E). destruct fk; simpl; rewrite (P f); auto.
      + apply exec_fault_frame. rewrite E. intros E3; injection E3 as ->. rewrite path_eqb_refl in E2; discriminate.
    - apply exec_fault_frame. rewrite E; discriminate. }
  split; intros f; destruct (H f) as [A B]; auto. rewrite B; apply P.
Qed.

Lemma keeps_step bufsz fo t i s : keeps t (i_op i) -> pendnone t (m_fs s) ->
  pendnone t (m_fs (step bufsz fo i s))
  /\ forall f, files (m_fs (step bufsz fo i s)) (PFile Tmp t f) = files (m_fs s) (PFile Tmp t f).
Proof.
  intros K P; unfold step; destruct fo as [fk|]; [destruct (is_failure fk (i_op i))|]; simpl;
    first [apply keeps_exec_fault; auto | apply keeps_exec_ok; auto].
Qed.

Lemma R_keeps bufsz t l : Forall (fun i => keeps t (i_op i)) l -> forall b s b' s',
  R bufsz b l s b' s' -> pendnone t (m_fs s) ->
  pendnone t (m_fs s') /\ forall f, files (m_fs s') (PFile Tmp t f) = files (m_fs s) (PFile Tmp t f).
Proof.
  induction l as [|i l IH]; intros HF b s b' s' H P; inversion H; subst; clear H; auto; inversion HF; subst.
  - with_R ltac:(fun Hr => eapply IH; eauto).
  - destruct (keeps_step bufsz None t i s ltac:(assumption) P) as [P1 F1].
    with_R ltac:(fun Hr => destruct (IH ltac:(assumption) _ _ _ _ Hr P1) as [P2 F2]).
    split; auto. intros f; rewrite F2; auto.
  - destruct (keeps_step bufsz (Some fk) t i s ltac:(assumption) P) as [P1 F1].
    with_R ltac:(fun Hr => destruct (IH ltac:(assumption) _ _ _ _ Hr P1) as [P2 F2]).
    split; auto. intros f; rewrite F2; auto.
Qed.

Lemma R_dichotomy bufsz t l : Forall (reloc_instr t) l -> forall s b' s',
  R bufsz true l s b' s' -> m_dead s = false -> pendnone t (m_fs s) ->
  s' = run bufsz None l s \/ m_fl s' t FMoveOk = false.
Proof.
  induction l as [|i l IH]; intros HF s b' s' H D P; inversion H; subst; clear H; cbn [run]; auto.
  - congruence.
  - inversion HF; subst. rewrite D. match goal with Hg : guard_ok _ _ = false |- _ => rewrite Hg end.
    with_R ltac:(fun Hr => eapply IH; eauto).
  - inversion HF as [|? ? Hi HF']; subst. rewrite D. match goal with Hg : guard_ok _ _ = true |- _ => rewrite Hg end.
    destruct Hi as (_ & _ & _ & K & _).
    with_R ltac:(fun Hr => apply (IH HF' _ _ _ Hr)); [exact D|].
    apply (keeps_step bufsz None t i s K P).
  - inversion HF as [|? ? Hi HF']; subst. rewrite D. match goal with Hg : guard_ok _ _ = true |- _ => rewrite Hg end.
    destruct Hi as (Et & Hd & Hs & K & Hw & [Hc|(N2 & N3 & N4)]).
    + right.
      with_R ltac:(fun Hr => eapply (R_flag_stays_false bufsz l t FMoveOk); [|exact Hr|]).
      * eapply Forall_impl; [|exact HF']. intros a (_ & _ & Ha & _); exact Ha.
      * unfold step. rewrite (is_failure_nowrite fk _ Hw). simpl. rewrite <- Et. apply setfl_in; auto.
    + left.
      assert (N : neutral i s).
      { split; auto. split; auto. split; auto. destruct N4 as [[(f & Ho) [A B]]|[Ho A]]; [left|right]; auto.
        split; auto. exists (PFile Tmp t f); split; auto. }
      with_R ltac:(fun Hr => rewrite (neutral_step bufsz fk i s D N) in Hr; apply R_nobudget in Hr as [-> _]).
      reflexivity.
Qed.

(* ------------------------------------------------------------------ the fault-free run executes every call (guards hold) *)

Record F6 := mkF { xin : bool; xout : bool; xcopy : bool; xdopen : bool; xdok : bool; xmove : bool }.
Definition getF (T : F6) (f : flag) : bool :=
  match f with FInOpen => xin T | FOutOpen => xout T | FCopyOk => xcopy T
             | FDirOpen => xdopen T | FDirOk => xdok T | FMoveOk => xmove T end.
Definition setF (T : F6) (f : flag) (v : bool) : F6 :=
  match f with
  | FInOpen => mkF v (xout T) (xcopy T) (xdopen T) (xdok T) (xmove T)
  | FOutOpen => mkF (xin T) v (xcopy T) (xdopen T) (xdok T) (xmove T)
  | FCopyOk => mkF (xin T) (xout T) v (xdopen T) (xdok T) (xmove T)
  | FDirOpen => mkF (xin T) (xout T) (xcopy T) v (xdok T) (xmove T)
  | FDirOk => mkF (xin T) (xout T) (xcopy T) (xdopen T) v (xmove T)
  | FMoveOk => mkF (xin T) (xout T) (xcopy T) (xdopen T) (xdok T) v
  end.
Definition updT (T : F6) (i : instr) : F6 :=
  fold_left (fun T f => setF T f false) (i_unset i) (fold_left (fun T f => setF T f true) (i_set i) T).
Fixpoint gfine (T : F6) (l : list instr) : bool :=
  match l with [] => true | i :: l' => forallb (getF T) (i_guard i) && gfine (updT T i) l' end.
Definition endT (T : F6) (l : list instr) : F6 := fold_left updT l T.

Definition agree (T : F6) (fl : flag -> bool) : Prop := forall f, getF T f = true -> fl f = true.

Lemma getF_setF T f v g : getF (setF T f v) g = if flag_eqb g f then v else getF T g.
Proof. destruct T, f, g; reflexivity. Qed.

Lemma getF_fold_set l : forall T f,
  getF (fold_left (fun T f => setF T f true) l T) f = existsb (flag_eqb f) l || getF T f.
Proof.
  induction l as [|x l IH]; intros T f; simpl; auto.
  rewrite IH, getF_setF. destruct (flag_eqb f x); simpl; auto. rewrite orb_true_r; auto.
Qed.
Lemma getF_fold_unset l : forall T f,
  getF (fold_left (fun T f => setF T f false) l T) f = negb (existsb (flag_eqb f) l) && getF T f.
Proof.
  induction l as [|x l IH]; intros T f; simpl; auto.
  rewrite IH, getF_setF. destruct (flag_eqb f x); simpl; auto. rewrite andb_false_r; auto.
Qed.

Lemma agree_set T fl t l : agree T (fl t) -> agree (fold_left (fun T f => setF T f true) l T) (setfl fl t l true t).
Proof.
  intros A f Hf. rewrite getF_fold_set in Hf. destruct l as [|x l]; [simpl in Hf; auto|].
  unfold setfl. rewrite Z.eqb_refl, andb_true_l. destruct (existsb (flag_eqb f) (x :: l)) eqn:E; auto.
Qed.

Lemma agree_unset T fl t l : agree T (fl t) -> agree (fold_left (fun T f => setF T f false) l T) (setfl fl t l false t).
Proof.
  intros A f Hf. rewrite getF_fold_unset in Hf. apply andb_true_iff in Hf as [H1 H2].
  destruct l as [|x l]; [simpl in *; auto|].
  unfold setfl. rewrite Z.eqb_refl, andb_true_l. apply negb_true_iff in H1. rewrite H1. auto.
Qed.

Lemma run_dead bufsz fi l s : m_dead s = true -> run bufsz fi l s = s.
Proof. intros D; destruct l; simpl; auto. rewrite D; auto. Qed.

Lemma run_None_app bufsz l1 : forall l2 s, run bufsz None (l1 ++ l2) s = run bufsz None l2 (run bufsz None l1 s).
Proof.
  induction l1 as [|i l1 IH]; intros l2 s; cbn [run app]; auto.
  destruct (m_dead s) eqn:D; [rewrite run_dead; auto|].
  destruct (guard_ok _ _); apply IH.
Qed.

Lemma gfine_sound bufsz t l : forall T s, Forall (fun i => i_tid i = t) l -> agree T (m_fl s t) ->
  m_dead s = false -> gfine T l = true ->
  m_dead (run bufsz None l s) = false
  /\ m_fs (run bufsz None l s) = apply_ops bufsz (map i_op l) (m_fs s)
  /\ agree (endT T l) (m_fl (run bufsz None l s) t).
Proof.
  induction l as [|i l IH]; intros T s HT A D G; cbn [run]; [simpl; auto|].
  inversion HT as [|? ? Et HT']; subst. simpl in G. apply andb_true_iff in G as [G1 G2].
  rewrite D. replace (guard_ok (m_fl s (i_tid i)) (i_guard i)) with true.
  2: { symmetry. unfold guard_ok. apply forallb_forall. intros f Hf. apply A.
       rewrite forallb_forall in G1; auto. }
  destruct (IH (updT T i) (step bufsz None i s) HT') as (A1 & A2 & A3); auto.
  { unfold step; simpl. unfold updT. apply agree_unset. apply agree_set. exact A. }
Qed.

Lemma gfine_app T l1 : forall l2, gfine T (l1 ++ l2) = gfine T l1 && gfine (endT T l1) l2.
Proof.
  revert T; induction l1 as [|i l1 IH]; intros T l2; simpl; auto.
  rewrite IH, andb_assoc. reflexivity.
Qed.
Lemma endT_app T l1 l2 : endT T (l1 ++ l2) = endT (endT T l1) l2.
Proof. unfold endT; apply fold_left_app. Qed.

Definition simple (T : F6) (i : instr) : Prop :=
  i_set i = [] /\ i_unset i = [] /\ forallb (getF T) (i_guard i) = true.

Lemma gfine_simple T l : Forall (simple T) l -> gfine T l = true /\ endT T l = T.
Proof.
  induction 1 as [|i l (S1 & S2 & S3) _ [IH1 IH2]]; [simpl; auto|].
  assert (U : updT T i = T) by (unfold updT; rewrite S1, S2; reflexivity).
  unfold endT in *. cbn [gfine fold_left]. rewrite U, S3, IH1. split; auto.
Qed.

Definition gf (T : F6) (l : list instr) (T' : F6) : Prop := gfine T l = true /\ endT T l = T'.

Lemma gf_app T l1 l2 T1 T2 : gf T l1 T1 -> gf T1 l2 T2 -> gf T (l1 ++ l2) T2.
Proof. intros [A <-] [B <-]; split; [rewrite gfine_app, A, B | rewrite endT_app]; auto. Qed.
Lemma gf_cons T i l T2 : forallb (getF T) (i_guard i) = true -> gf (updT T i) l T2 -> gf T (i :: l) T2.
Proof. intros G [A B]; split; simpl; [rewrite G, A | exact B]; auto. Qed.
Lemma gf_simple T l : Forall (simple T) l -> gf T l T.
Proof. apply gfine_simple. Qed.

Definition T0 : F6 := mkF false false false false false false.
Definition TA : F6 := mkF true true true false false true.   (* after a completed pass *)
Definition TC : F6 := mkF true true true true true true.      (* inside a pass, after a copy *)

Ltac simple_leaf := unfold simple; simpl; repeat split; reflexivity.

Lemma copy_gf T t f data :
  getF T FDirOpen = true -> getF T FDirOk = true -> getF T FMoveOk = true ->
  gf T (copy_new t [FDirOpen; FDirOk] f data) TC.
Proof.
  intros H1 H2 H3. unfold copy_new.
  destruct T as [a b c d e g]; simpl in H1, H2, H3; subst.
  apply gf_cons; [reflexivity|]. apply gf_cons; [reflexivity|].
  change (updT (updT _ _) _) with TC. apply gf_simple.
  fa; try simple_leaf. apply Forall_flat_map, Forall_forall; intros c0 _. fa; simple_leaf.
Qed.

Lemma pass0_gf rho th : wf_order rho -> gf T0 (pass_new rho th 0) TA.
Proof.
  intros W. destruct (order_split rho W (th_tid th) 0%nat (EFile Obs)) as (a0 & b0 & E0 & Na & Nb); [simpl; auto|].
  unfold pass_new. rewrite E0, flat_map_app. cbn [flat_map].
  eapply gf_app; [apply gf_cons; [reflexivity|split; reflexivity]|].
  eapply gf_app.
  - eapply gf_app.
    { apply gf_simple. apply Forall_flat_map, Forall_forall; intros e He.
      destruct e as [| |[]]; try (exfalso; apply Na; exact He); fa; simple_leaf. }
    apply gf_cons; [reflexivity|].
    eapply gf_app; [apply copy_gf; reflexivity|].
    apply gf_simple. apply Forall_flat_map, Forall_forall; intros e He.
    destruct e as [| |[]]; try (exfalso; apply Nb; exact He); fa; simple_leaf.
  - apply gf_cons; [reflexivity|]. apply gf_cons; [reflexivity|split; reflexivity].
Qed.

Lemma pass1_gf rho th : wf_order rho -> gf TA (pass_new rho th 1) TA.
Proof.
  intros W. destruct (order_split rho W (th_tid th) 1%nat (EFile Json)) as (a0 & b0 & E0 & Na & Nb); [simpl; auto|].
  unfold pass_new. rewrite E0, flat_map_app. cbn [flat_map].
  eapply gf_app; [apply gf_cons; [reflexivity|split; reflexivity]|].
  eapply gf_app.
  - eapply gf_app.
    { apply gf_simple. apply Forall_flat_map, Forall_forall; intros e He.
      destruct e as [| |[]]; try (exfalso; apply Na; exact He); fa; simple_leaf. }
    apply gf_cons; [reflexivity|].
    eapply gf_app; [apply copy_gf; reflexivity|].
    apply gf_simple. apply Forall_flat_map, Forall_forall; intros e He.
    destruct e as [| |[]]; try (exfalso; apply Nb; exact He); fa; simple_leaf.
  - apply gf_cons; [reflexivity|]. apply gf_cons; [reflexivity|split; reflexivity].
Qed.

(* ------------------------------------------------------------------ OVNI_TMPDIR mode: a thread's part of the run *)

Ltac keeps_leaf := let f0 := fresh "f" in let E := fresh "E" in
  intros f0 E; simpl in E; try discriminate; injection E as <-; reflexivity.
Ltac reloc_leaf := unfold reloc_instr; simpl; repeat split;
  first [ reflexivity
        | keeps_leaf
        | (simpl; intuition discriminate)
        | (left; simpl; tauto)
        | (right; unfold nkind; simpl; repeat split; try reflexivity; left; repeat split; try reflexivity; eexists; reflexivity)
        | (right; unfold nkind; simpl; repeat split; try reflexivity; right; repeat split; try reflexivity; eexists; reflexivity) ].

Lemma copy_reloc t f data : Forall (reloc_instr t) (copy_new t [FDirOpen; FDirOk] f data).
Proof.
  unfold copy_new; fa; try reloc_leaf.
  apply Forall_flat_map, Forall_forall; intros c _; fa; reloc_leaf.
Qed.

Lemma pass_tail_reloc rho th p : (p = 0 \/ p = 1)%nat ->
  exists o tl, pass_new rho th p = o :: tl /\ Forall (reloc_instr (th_tid th)) tl
               /\ (p = 1%nat -> reloc_instr (th_tid th) o).
Proof.
  intros Hp. eexists; eexists. split; [unfold pass_new; reflexivity|]. split.
  - fa; try reloc_leaf.
    apply Forall_flat_map, Forall_forall; intros e _. fa; try reloc_leaf.
    destruct Hp as [-> | ->]; destruct e as [| |[]]; cbn; first [apply Forall_nil | apply copy_reloc].
  - intros ->. reloc_leaf.
Qed.

Definition SB (rho : order) (th : thread) : list instr := pass_new rho th 0 ++ pass_new rho th 1.

Lemma SB_cons rho th : exists tl,
  SB rho th = mki (th_tid th) (Opendir (PThread Tmp (th_tid th))) [] [FDirOpen; FDirOk; FMoveOk] false true [FDirOpen; FMoveOk] :: tl
  /\ Forall (reloc_instr (th_tid th)) tl.
Proof.
  destruct (pass_tail_reloc rho th 0 (or_introl eq_refl)) as (o0 & tl0 & E0 & F0 & _).
  destruct (pass_tail_reloc rho th 1 (or_intror eq_refl)) as (o1 & tl1 & E1 & F1 & F1o).
  exists (tl0 ++ o1 :: tl1). unfold SB. rewrite E1. split.
  - rewrite E0. unfold pass_new in E0. injection E0 as <- _. reflexivity.
  - apply Forall_app; split; auto.
Qed.

Lemma SB_dichotomy bufsz rho th b s b' s' :
  R bufsz b (SB rho th) s b' s' -> m_dead s = false -> pendnone (th_tid th) (m_fs s) ->
  s' = run bufsz None (SB rho th) s \/ m_fl s' (th_tid th) FMoveOk = false.
Proof.
  intros HR D P. destruct b; [|left; apply R_nobudget in HR as [-> _]; reflexivity].
  destruct (SB_cons rho th) as (tl & E & F). rewrite E in *.
  inversion HR; subst; clear HR; cbn [run].
  - congruence.
  - match goal with Hg : guard_ok _ _ = false |- _ => simpl in Hg; discriminate end.
  - rewrite D. simpl guard_ok. cbv iota.
    with_R ltac:(fun Hr => apply (R_dichotomy bufsz (th_tid th) tl F _ _ _ Hr)); [exact D|].
    apply keeps_step; auto. intros f0 E0; simpl in E0; discriminate.
  - right. with_R ltac:(fun Hr => eapply (R_flag_stays_false bufsz tl (th_tid th) FMoveOk); [|exact Hr|]).
    + eapply Forall_impl; [|exact F]. intros a (_ & _ & Ha & _); exact Ha.
    + unfold step. rewrite is_failure_nowrite by reflexivity. simpl. rewrite Z.eqb_refl. reflexivity.
Qed.

(* after a pass the directory is closed, whatever failed *)
Lemma pass_dopen_false bufsz rho th p b s b' s' :
  R bufsz b (pass_new rho th p) s b' s' -> m_dead s = false ->
  m_fl s (th_tid th) FDirOpen = false -> m_fl s' (th_tid th) FDirOpen = false.
Proof.
  intros HR D H0. set (t := th_tid th) in *.
  unfold pass_new in HR. fold t in HR.
  match type of HR with R _ _ ([?o] ++ ?fm ++ [?r; ?c]) _ _ _ =>
    set (o0 := o) in *; set (mid := fm ++ [r]); set (c0 := c) in *;
    replace ([o0] ++ fm ++ [r; c0]) with (o0 :: mid ++ [c0]) in HR
      by (unfold mid; rewrite <- app_assoc; reflexivity)
  end.
  assert (Fmid : Forall (fun i => nomention FDirOpen i /\ i_die i = false) mid).
  { unfold mid. fa; try (split; [unfold nomention; simpl; intuition discriminate | reflexivity]).
    apply Forall_flat_map, Forall_forall; intros e _. fa;
      try (split; [unfold nomention; simpl; intuition discriminate | reflexivity]).
    destruct e as [| |[]], p as [|[|[|p]]]; cbn; fa;
      try (split; [unfold nomention; simpl; intuition discriminate | reflexivity]);
      apply Forall_flat_map, Forall_forall; intros c1 _; fa;
      (split; [unfold nomention; simpl; intuition discriminate | reflexivity]). }
  assert (Fg : Forall (fun i => i_tid i = t /\ In FDirOpen (i_guard i)) (mid ++ [c0])).
  { unfold mid, c0. fa; try (split; [reflexivity | simpl; tauto]).
    apply Forall_flat_map, Forall_forall; intros e _. fa; try (split; [reflexivity | simpl; tauto]).
    destruct e as [| |[]], p as [|[|[|p]]]; cbn; fa; try (split; [reflexivity | simpl; tauto]);
      apply Forall_flat_map, Forall_forall; intros c1 _; fa; (split; [reflexivity | simpl; tauto]). }
  assert (Hskip : forall s0 b0 b1 s2, m_fl s0 t FDirOpen = false -> R bufsz b0 (mid ++ [c0]) s0 b1 s2 -> s2 = s0).
  { intros s0 b0 b1 s2 Hf Hr. eapply (R_all_skipped bufsz (mid ++ [c0]) t s0); [|exact Hr].
    eapply Forall_impl; [|exact Fg]. intros a (Ta & Hin). split; auto. exists FDirOpen; auto. }
  assert (Ffail : forall fk, m_fl (step bufsz (Some fk) o0 s) t FDirOpen = false).
  { intros fk. unfold step, o0. rewrite is_failure_nowrite by reflexivity. simpl. rewrite Z.eqb_refl. reflexivity. }
  inversion HR; subst; clear HR.
  - congruence.
  - with_R ltac:(fun Hr => rewrite (Hskip _ _ _ _ H0 Hr)); auto.
  - with_R ltac:(fun Hr => apply R_app in Hr as (b2 & s2 & Hr1 & Hr2)).
    assert (D2 : m_dead s2 = false).
    { eapply (R_nodie bufsz mid); [|exact Hr1|exact D].
      eapply Forall_impl; [|exact Fmid]. intros a [_ Ha]; exact Ha. }
    assert (F2 : m_fl s2 t FDirOpen = true).
    { rewrite (R_flag_keep bufsz mid t FDirOpen) with (s := step bufsz None o0 s) (b := b) (b' := b2) (s' := s2); auto.
      - unfold o0. destruct p; simpl; rewrite Z.eqb_refl; reflexivity.
      - eapply Forall_impl; [|exact Fmid]. intros a [Ha _]; exact Ha. }
    inversion Hr2; subst; clear Hr2.
    + congruence.
    + match goal with Hg : guard_ok _ _ = false |- _ => unfold c0 in Hg; simpl in Hg; fold t in Hg; rewrite F2 in Hg; discriminate end.
    + with_R ltac:(fun Hr => inversion Hr; subst). unfold c0; simpl. rewrite Z.eqb_refl. reflexivity.
    + with_R ltac:(fun Hr => inversion Hr; subst). unfold step, c0. rewrite is_failure_nowrite by reflexivity. simpl.
      rewrite Z.eqb_refl. reflexivity.
  - with_R ltac:(fun Hr => rewrite (Hskip _ _ _ _ (Ffail fk) Hr)). apply Ffail.
Qed.

Lemma pass_copy_file bufsz rho th p f fs : wf_order rho ->
  (p = 0%nat /\ f = Obs) \/ (p = 1%nat /\ f = Json) ->
  files (apply_ops bufsz (pass_ops rho th p) fs) (PFile Fin (th_tid th) f) = Some (file_data th f).
Proof.
  intros W Hp.
  destruct (order_split rho W (th_tid th) p (EFile f)) as (a & b & E & Na & Nb).
  { destruct f; simpl; auto. }
  assert (Rb : Forall ronly (flat_map (fun e => Readdir (PThread Tmp (th_tid th)) (Some e) :: pbody_ops th p e) b)).
  { destruct Hp as [[-> ->]|[-> ->]]; [apply pass0_ronly | apply pass1_ronly]; auto. }
  unfold pass_ops. rewrite E, flat_map_app. cbn [flat_map].
  replace (pbody_ops th p (EFile f)) with (copy_ops (th_tid th) f (file_data th f))
    by (destruct Hp as [[-> ->]|[-> ->]]; reflexivity).
  rewrite !apply_ops_app.
  match goal with |- files (apply_ops _ ?l2 (apply_ops _ ?l1 ?S)) ?q = _ =>
    destruct (apply_ops_frame bufsz l2 (apply_ops bufsz l1 S) q) as [-> _]; [fa; leaf|];
    destruct (apply_ops_frame bufsz l1 S q) as [-> _]; [apply ronly_Forall_nt; exact Rb|]
  end.
  rewrite apply_ops_cons. apply copy_result.
Qed.

Lemma pass1_nt_obs rho th : Forall (nt (PFile Fin (th_tid th) Obs)) (pass_ops rho th 1).
Proof.
  unfold pass_ops; fa; try leaf.
  apply Forall_flat_map, Forall_forall; intros e _. fa; try leaf.
  destruct e as [| |[]]; cbn [pbody_ops]; first [apply Forall_nil | apply copy_nt; discriminate].
Qed.

Lemma SB_ops_fin bufsz rho th fs : wf_order rho -> fin_ok (apply_ops bufsz (map i_op (SB rho th)) fs) th.
Proof.
  intros W. unfold SB. rewrite map_app, !map_pass_new, apply_ops_app. split.
  - destruct (apply_ops_frame bufsz (pass_ops rho th 1) (apply_ops bufsz (pass_ops rho th 0) fs) (PFile Fin (th_tid th) Obs)) as [-> _];
      [apply pass1_nt_obs|].
    apply (pass_copy_file bufsz rho th 0 Obs); auto.
  - apply (pass_copy_file bufsz rho th 1 Json); auto.
Qed.

Lemma tmp_thread_is rho th : thread_tr New TmpMode rho th =
  SA TmpMode th ++ SB rho th
  ++ (pass_new rho th 2 ++ [iwarn (th_tid th) (Rmdir (PThread Tmp (th_tid th)) [PFile Tmp (th_tid th) Obs; PFile Tmp (th_tid th) Json])]).
Proof.
  unfold thread_tr, thread_free_tr, SA, SB, relocate, relocate_new. cbv iota. rewrite <- !app_assoc. reflexivity.
Qed.

Lemma keeps_noremove t l f : Forall (fun i => keeps t (i_op i)) l -> ~ In (Remove (PFile Tmp t f)) (map i_op l).
Proof.
  intros H Hin. apply in_map_iff in Hin as (i & E & Hi). rewrite Forall_forall in H.
  specialize (H i Hi f). rewrite E in H. simpl in H. specialize (H eq_refl). discriminate.
Qed.

Lemma tmp_thread_post bufsz rho th : wf_order rho -> forall b s b1 s1,
  R bufsz b (thread_tr New TmpMode rho th) s b1 s1 -> m_dead s = false -> clean s (th_tid th) ->
  thread_post th s s1.
Proof.
  intros W b s b1 s1 HR D [Hc Hf]. set (t := th_tid th) in *.
  rewrite tmp_thread_is in HR. fold t in HR.
  apply R_app in HR as (bA & sA & HRA & HR). apply R_app in HR as (bB & sB & HRB & HRC).
  assert (LA : forall f, In (Remove (PFile Tmp t f)) (m_log sA) -> In (Remove (PFile Tmp t f)) (m_log s)).
  { intros f Hin. destruct (R_log _ _ _ _ _ _ _ HRA Hin) as [H|H]; auto. exfalso; eapply SA_noremove; eauto. }
  destruct (R_dielist bufsz _ (SA_dieish TmpMode th) _ _ _ _ HRA D) as [[DA _]|(DA & FA & FLA & _)].
  { apply R_from_dead in HRB as [-> _]; auto. apply R_from_dead in HRC as [-> _]; auto.
    split; [intros f Hin; left; auto | congruence]. }
  destruct (SA_result bufsz TmpMode th (m_fs s)) as (A1 & A2 & A3 & A4); try apply Hc.
  rewrite <- FA in A1, A2, A3, A4. simpl procloc in *. fold t in A1, A2, A3, A4.
  assert (PA : pendnone t (m_fs sA)) by (intros [|]; auto).
  destruct (SB_cons rho th) as (tl & ESB & FSB). fold t in ESB, FSB.
  assert (DieB : Forall (fun i => i_die i = false) (SB rho th)).
  { rewrite ESB. constructor; [reflexivity|]. eapply Forall_impl; [|exact FSB]. intros a (_ & Ha & _); exact Ha. }
  assert (KB : Forall (fun i => keeps t (i_op i)) (SB rho th)).
  { rewrite ESB. constructor; [intros f0 E0; simpl in E0; discriminate|].
    eapply Forall_impl; [|exact FSB]. intros a (_ & _ & _ & Ha & _); exact Ha. }
  assert (TidB : Forall (fun i => i_tid i = t) (SB rho th)).
  { rewrite ESB. constructor; [reflexivity|]. eapply Forall_impl; [|exact FSB]. intros a (Ha & _); exact Ha. }
  assert (DB : m_dead sB = false) by (eapply (R_nodie bufsz (SB rho th)); eauto).
  destruct (R_keeps bufsz t _ KB _ _ _ _ HRB PA) as [PB FB].
  assert (TB : tmp_ok (m_fs sB) th) by (split; fold t; rewrite FB; auto).
  assert (LB : forall f, In (Remove (PFile Tmp t f)) (m_log sB) -> In (Remove (PFile Tmp t f)) (m_log s)).
  { intros f Hin. destruct (R_log _ _ _ _ _ _ _ HRB Hin) as [H|H]; auto. exfalso; eapply keeps_noremove; eauto. }
  assert (OB : m_fl sB t FDirOpen = false).
  { pose proof HRB as HRB'. unfold SB in HRB'. apply R_app in HRB' as (b0 & s0 & H0 & H1).
    assert (D0 : m_dead s0 = false).
    { eapply (R_nodie bufsz (pass_new rho th 0)); [|exact H0|exact DA].
      unfold SB in DieB. apply Forall_app in DieB; tauto. }
    eapply (pass_dopen_false bufsz rho th 1); [exact H1|exact D0|].
    eapply (pass_dopen_false bufsz rho th 0); [exact H0|exact DA|]. fold t. rewrite FLA; apply Hf. }
  assert (MB : m_fl sB t FMoveOk = true -> fin_ok (m_fs sB) th).
  { intros M. destruct (SB_dichotomy bufsz rho th _ _ _ _ HRB DA PA) as [->|H]; [|fold t in H; congruence].
    destruct (gfine_sound bufsz t (SB rho th) T0 sA TidB) as (_ & E & _); auto.
    - intros f Hg. destruct f; discriminate.
    - destruct (gf_app T0 _ _ _ _ (pass0_gf rho th W) (pass1_gf rho th W)) as [G _]. exact G.
    - rewrite E. apply SB_ops_fin; auto. }
  set (SC := pass_new rho th 2 ++ [iwarn t (Rmdir (PThread Tmp t) [PFile Tmp t Obs; PFile Tmp t Json])]) in *.
  destruct (m_fl sB t FMoveOk) eqn:M.
  - (* the copies are complete: the removals cannot hurt *)
    destruct (MB eq_refl) as [F1 F2].
    assert (NC : forall f, Forall (fun i => nt (PFile Fin t f) (i_op i)) SC).
    { intros f. apply Forall_map. unfold SC. rewrite map_app, map_pass_new.
      apply Forall_app; split; [apply (pass2_nt rho th Fin) | simpl; fa; leaf]. }
    assert (Fin1 : fin_ok (m_fs s1) th).
    { split; fold t.
      - destruct (R_frame bufsz SC _ (NC Obs) _ _ _ _ HRC) as [-> _]; auto.
      - destruct (R_frame bufsz SC _ (NC Json) _ _ _ _ HRC) as [-> _]; auto. }
    split; [intros f _; right; auto | intros _; left; auto].
  - (* a copy failed: the remove pass is skipped altogether, the stream stays in the temporary directory *)
    unfold SC in HRC. apply R_app in HRC as (b2 & s2 & HR2 & HR3).
    assert (E2 : s2 = sB).
    { eapply (R_all_skipped bufsz (pass_new rho th 2) t sB); [|exact HR2].
      unfold pass_new. fold t. fa; try (split; [reflexivity|]; first [exists FMoveOk; simpl; auto; fail | exists FDirOpen; simpl; auto]).
      apply Forall_flat_map, Forall_forall; intros e _. fa; try (split; [reflexivity | exists FDirOpen; simpl; auto]).
      destruct e as [| |[]]; cbn; fa; split; try reflexivity; exists FDirOpen; simpl; auto. }
    subst s2.
    assert (N3 : forall f, Forall (fun i => nt (PFile Tmp t f) (i_op i)) [iwarn t (Rmdir (PThread Tmp t) [PFile Tmp t Obs; PFile Tmp t Json])]).
    { intros f; fa; leaf. }
    assert (T1 : tmp_ok (m_fs s1) th).
    { destruct TB as [X Y]; split; fold t.
      - destruct (R_frame bufsz _ _ (N3 Obs) _ _ _ _ HR3) as [-> _]; auto.
      - destruct (R_frame bufsz _ _ (N3 Json) _ _ _ _ HR3) as [-> _]; auto. }
    split; [|intros _; right; auto].
    intros f Hin. left. destruct (R_log _ _ _ _ _ _ _ HR3 Hin) as [H|H]; auto.
    simpl in H. destruct H as [H|[]]; discriminate.
Qed.

Theorem C10_tmpdir_all bufsz P rho : wf_program P -> wf_order rho -> C10_statement bufsz TmpMode P rho.
Proof.
  intros WP W. apply C10_from_threads; auto. intros th b s b1 s1 H D C. eapply tmp_thread_post; eauto.
Qed.

Theorem C10_all bufsz m P rho : wf_program P -> wf_order rho -> C10_statement bufsz m P rho.
Proof. destruct m; [intros; apply C10_direct_all; auto | apply C10_tmpdir_all]. Qed.
