(* The accepting side of the emulator's metadata merge (Emu/MetaDefs.v, C15): metadata without contradictions and
   with valid values builds a system (build_complete), and every system built describes exactly the looms,
   processes, threads and CPUs the streams claim (build_describes).  Used by C02 (Proofs/RtMetaProofs.v). *)
From Coq Require Import ZArith List Bool Lia Permutation.
From OV Require Import Emu.MetaDefs Proofs.MetaProofs.
Import ListNotations.
Local Open Scope Z_scope.

Record good (m : list stream_meta) : Prop := {
  g_names : forall s, In s m -> valid_name (s_loom s) = true;
  g_pid : forall s, In s m -> 0 < s_pid s;
  g_tid : forall s, In s m -> 0 < s_tid s;
  g_keys : NoDup (keys m);
  g_app : forall k, proc_in m k -> exists a, In (k, a) (app_claims m);
  g_app_pos : forall k a, In (k, a) (app_claims m) -> 0 < a;
  g_app_uniq : forall k a b, In (k, a) (app_claims m) -> In (k, b) (app_claims m) -> a = b;
  g_rank_valid : forall f, In f (rank_claims m) -> valid_rank f = true;
  g_rank_uniq : forall k x y, In (k, x) (rank_claims m) -> In (k, y) (rank_claims m) -> x = y;
  (* per loom: the rank is set for every process or for none *)
  g_rank_loom : forall l p q x, proc_in m (l, p) -> proc_in m (l, q) -> In ((l, p), x) (rank_claims m) ->
                exists y, In ((l, q), y) (rank_claims m);
  g_cpu_some : forall l, ~ In (l, None) (cpu_claims m);
  (* per loom: the CPU indices claimed by its streams are exactly 0 .. n-1, n > 0 *)
  g_cpu_range : forall l, loom_in m l ->
                exists n, 0 < n /\ (forall i, 0 <= i < n -> exists p, In (l, Some (i, p)) (cpu_claims m)) /\
                          (forall i p, In (l, Some (i, p)) (cpu_claims m) -> 0 <= i < n);
  g_cpu_phys : forall l i p, In (l, Some (i, p)) (cpu_claims m) -> 0 <= p;
  g_cpu_idx : forall l i p q, In (l, Some (i, p)) (cpu_claims m) -> In (l, Some (i, q)) (cpu_claims m) -> p = q;
  g_cpu_phy : forall l i j p, In (l, Some (i, p)) (cpu_claims m) -> In (l, Some (j, p)) (cpu_claims m) -> i = j
}.

Lemma cpu_claim_loom m l o : In (l, o) (cpu_claims m) -> loom_in m l.
Proof.
  unfold cpu_claims. rewrite in_flat_map. intros (s & S & C). exists s. split; [exact S|].
  unfold cpu_claim in C. destruct (s_cpus s) as [[|e es]|]; [| |destruct C].
  - destruct C as [C|[]]. congruence.
  - apply in_map_iff in C as (x & C & _). congruence.
Qed.

Lemma nodupb_true l : NoDup l -> nodupb l = true.
Proof.
  induction 1 as [|x l N _ IH]; [reflexivity|]. cbn [nodupb]. rewrite IH, andb_true_r. apply negb_true_iff.
  destruct (existsb (Z.eqb x) l) eqn:E; [|reflexivity]. apply existsb_exists in E as (y & Y & E).
  apply Z.eqb_eq in E. subst y. contradiction.
Qed.

Lemma raw_good m : good m -> exists st, raw m = Ok st.
Proof.
  intros G. destruct (raw m) as [st| |] eqn:R; [eauto| |exfalso; eapply raw_no_crash; eauto].
  exfalso. apply raw_err in R. destruct R as [R|[R|[R|[R|[R|R]]]]].
  - unfold cL in R. rewrite loom_claims in R.
    apply (collect_err name_dec valid_name no_confl no_confl_sym no_confl_irrefl) in R.
    destruct R as [(f & I & V)|(f & g & _ & _ & C)]; [|discriminate C].
    apply in_map_iff in I as (s & <- & S). rewrite (g_names _ G s S) in V. discriminate.
  - apply (collect_err cpu_fact_dec valid_cpu confl_cpu confl_cpu_sym confl_cpu_irrefl) in R.
    destruct R as [([l [[i p]|]] & I & V)|([l1 o1] & [l2 o2] & I1 & I2 & C)].
    + unfold valid_cpu in V. cbn [snd] in V.
      destruct (g_cpu_range _ G l (cpu_claim_loom _ _ _ I)) as (n & _ & _ & B).
      specialize (B i p I). pose proof (g_cpu_phys _ G l i p I).
      apply andb_false_iff in V as [V|V]; apply Z.leb_gt in V; lia.
    + exact (g_cpu_some _ G l I).
    + unfold confl_cpu in C. cbn [fst snd] in C. apply andb_prop in C as [N C]. apply name_eqb_true in N. subst l2.
      destruct o1 as [[i p]|]; [|discriminate]. destruct o2 as [[j q]|]; [|discriminate].
      apply orb_prop in C as [C|C]; apply andb_prop in C as [C1 C2]; apply Z.eqb_eq in C1; subst;
        apply negb_true_iff, Z.eqb_neq in C2; apply C2.
      * eapply (g_cpu_idx _ G); eauto.
      * eapply (g_cpu_phy _ G); eauto.
  - unfold cP in R. rewrite proc_claims in R.
    apply (collect_err pkey_dec valid_proc no_confl no_confl_sym no_confl_irrefl) in R.
    destruct R as [(f & I & V)|(f & g & _ & _ & C)]; [|discriminate C].
    apply in_map_iff in I as (s & <- & S). unfold valid_proc, spkey in V. cbn [snd] in V.
    pose proof (g_pid _ G s S). apply Z.ltb_ge in V. lia.
  - apply (collect_err app_fact_dec valid_app confl_app confl_app_sym confl_app_irrefl) in R.
    destruct R as [([k a] & I & V)|([k a] & [k2 b] & I1 & I2 & C)].
    + unfold valid_app in V. cbn [snd] in V. pose proof (g_app_pos _ G k a I). apply Z.ltb_ge in V. lia.
    + unfold confl_app in C. cbn [fst snd] in C. apply andb_prop in C as [N C]. apply pkey_eqb_true in N. subst k2.
      apply negb_true_iff, Z.eqb_neq in C. apply C. eapply (g_app_uniq _ G); eauto.
  - apply (collect_err rank_fact_dec valid_rank confl_rank confl_rank_sym confl_rank_irrefl) in R.
    destruct R as [(f & I & V)|([k x] & [k2 y] & I1 & I2 & C)].
    + rewrite (g_rank_valid _ G f I) in V. discriminate.
    + unfold confl_rank in C. cbn [fst snd] in C. apply andb_prop in C as [N C]. apply pkey_eqb_true in N. subst k2.
      destruct (rattr_dec x y) as [|N]; [discriminate|]. apply N. eapply (g_rank_uniq _ G); eauto.
  - unfold cT in R. rewrite keys_claims in R. apply cT_err in R. destruct R as [R|(k & I & L)].
    + apply R. apply (g_keys _ G).
    + unfold keys in I. apply in_map_iff in I as (s & <- & S). unfold skey in L. cbn [snd] in L.
      pose proof (g_tid _ G s S). lia.
Qed.

Lemma existsb_false_intro {A} (f : A -> bool) l : (forall x, In x l -> f x = false) -> existsb f l = false.
Proof.
  intros H. destruct (existsb f l) eqn:E; [|reflexivity]. apply existsb_exists in E as (x & X & B).
  rewrite (H x X) in B. discriminate.
Qed.

Lemma st_cpus_nodup m st : raw m = Ok st -> NoDup (st_cpus st).
Proof.
  intros R. apply raw_ok in R. destruct R as (_ & C & _).
  apply (collect_ok cpu_fact_dec valid_cpu confl_cpu confl_cpu_sym confl_cpu_irrefl) in C. apply C.
Qed.

Lemma length_range (xs : list Z) n :
  0 <= n -> NoDup xs -> (forall i, In i xs <-> 0 <= i < n) -> Z.of_nat (length xs) = n.
Proof.
  intros N ND H.
  assert (P : Permutation xs (map Z.of_nat (seq 0 (Z.to_nat n)))).
  { apply NoDup_Permutation; [exact ND| |].
    - apply FinFun.Injective_map_NoDup; [intros a b E; lia|apply seq_NoDup].
    - intros i. rewrite H, in_map_iff. split.
      + intros B. exists (Z.to_nat i). split; [lia|]. apply in_seq. lia.
      + intros (k & <- & K). apply in_seq in K. lia. }
  apply Permutation_length in P. rewrite map_length, seq_length in P. lia.
Qed.

Lemma finish_good m st : good m -> raw m = Ok st -> exists sys, finish st = Ok sys.
Proof.
  intros G R. pose proof (raw_tables_ok m st R) as T. pose proof (st_cpus_nodup m st R) as NC.
  unfold finish, finish_gen.
  assert (RI : existsb (rank_incomplete st) (st_looms st) = false).
  { apply existsb_false_intro. intros l L. unfold rank_incomplete.
    destruct (rank_enabled st l) eqn:E; [|reflexivity]. cbn [andb].
    apply existsb_false_intro. intros r X. unfold loom_ranks in X. apply in_map_iff in X as (q & <- & Q).
    unfold rank_enabled, loom_ranks in E. apply existsb_exists in E as (r & X & B).
    apply in_map_iff in X as (p & <- & P). apply Z.leb_le in B.
    destruct (rank_of_some st (l, p) B (tk_rank_nonneg _ _ T)) as ([k x] & F & K & _). cbn [fst] in K. subst k.
    apply in_procs_of, (tk_procs _ _ T), proc_in_spec in P. apply in_procs_of, (tk_procs _ _ T), proc_in_spec in Q.
    apply (tk_ranks _ _ T) in F. destruct (g_rank_loom _ G l p q x P Q F) as (y & Y).
    apply (tk_ranks _ _ T) in Y. apply Z.ltb_ge. unfold rank_of.
    destruct (find (fun f => pkey_eqb (fst f) (l, q)) (st_ranks st)) as [g|] eqn:FD.
    - apply find_some in FD as (FI & _). apply (tk_rank_nonneg _ _ T g FI).
    - exfalso. pose proof (find_none _ _ FD _ Y) as Z0. cbn [fst] in Z0.
      assert (pkey_eqb (l, q) (l, q) = true) by (apply pkey_eqb_true; reflexivity). congruence. }
  rewrite RI.
  assert (LB : forall l, In l (st_looms st) -> loom_bad (sort_loom_gen true st l) = false).
  { intros l L. unfold sort_loom_gen, loom_bad.
    assert (LI : loom_in m l) by (apply loom_in_spec, (tk_looms _ _ T); exact L).
    destruct (g_cpu_range _ G l LI) as (n & NP & ALL & RNG).
    set (cs := isort (fun c d => snd c <=? snd d) (cpus_of st l)).
    assert (PC : Permutation cs (cpus_of st l)) by apply isort_perm.
    assert (IN : forall i p, In (i, p) cs <-> In (l, Some (i, p)) (cpu_claims m)).
    { intros i p. rewrite <- (tk_cpus _ _ T), <- in_cpus_of. split; apply Permutation_in; [exact PC|apply Permutation_sym; exact PC]. }
    assert (ND : NoDup cs) by (eapply Permutation_NoDup; [apply Permutation_sym; exact PC|apply cpus_of_nodup; exact NC]).
    assert (NF : NoDup (map fst cs)).
    { apply nodup_fst; [exact ND|]. intros i p q A B. apply IN in A, B. eapply (g_cpu_idx _ G); eauto. }
    assert (LEN : Z.of_nat (length cs) = n).
    { rewrite <- (map_length fst). apply length_range; [lia|exact NF|]. intros i. rewrite in_map_iff. split.
      - intros ([i' p] & <- & A). cbn [fst]. apply IN in A. eapply RNG; eauto.
      - intros B. destruct (ALL i B) as (p & A). exists (i, p). split; [reflexivity|apply IN; exact A]. }
    apply orb_false_iff. split; [apply orb_false_iff; split; [apply orb_false_iff; split|]|].
    - apply existsb_false_intro. intros sp X. apply in_map_iff in X as (p & <- & P). cbn [fst snd].
      apply (Permutation_in _ (isort_perm _ _)) in P.
      apply in_procs_of, (tk_procs _ _ T), proc_in_spec in P.
      destruct (g_app _ G (l, p) P) as (a & A). apply (tk_apps _ _ T) in A.
      apply Z.leb_gt. unfold app_of.
      destruct (find (fun f => pkey_eqb (fst f) (l, p)) (st_apps st)) as [[k b]|] eqn:FD.
      + apply find_some in FD as (FI & _). apply (tk_apps _ _ T) in FI. cbn [snd]. eapply (g_app_pos _ G); eauto.
      + exfalso. pose proof (find_none _ _ FD _ A) as Z0. cbn [fst] in Z0.
        assert (pkey_eqb (l, p) (l, p) = true) by (apply pkey_eqb_true; reflexivity). congruence.
    - apply Z.eqb_neq. lia.
    - apply existsb_false_intro. intros [i p] X. cbn [fst]. apply IN in X. apply Z.leb_gt. specialize (RNG i p X). lia.
    - apply negb_false_iff. apply nodupb_true. exact NF. }
  match goal with |- context [existsb loom_bad ?s] => assert (E : existsb loom_bad s = false) end.
  { apply existsb_false_intro. intros sl X. apply in_map_iff in X as (l & <- & X).
    apply (Permutation_in _ (isort_perm _ _)) in X. apply LB. exact X. }
  rewrite E. eauto.
Qed.

(* ---- the accepting side of the merge *)
Theorem build_complete m : good m -> exists sys, build m = Ok sys.
Proof.
  intros G. destruct (raw_good m G) as (st & R). destruct (finish_good m st G R) as (sys & F).
  exists sys. rewrite build_raw, R. exact F.
Qed.

(* ---- what a built system contains *)
Lemma in_threads_of st k t : In t (threads_of st k) <-> In (k, t) (st_threads st).
Proof.
  unfold threads_of. rewrite in_map_iff. split.
  - intros ([k' t'] & E & H). cbn [snd] in E. subst t'. apply filter_In in H as [H E]. cbn [fst] in E.
    apply pkey_eqb_true in E. subst k'. exact H.
  - intros H. exists (k, t). split; [reflexivity|]. apply filter_In. split; [exact H|]. apply pkey_eqb_true. reflexivity.
Qed.

Lemma nodup_map_in {A B} (f : A -> B) l :
  (forall x y, In x l -> In y l -> f x = f y -> x = y) -> NoDup l -> NoDup (map f l).
Proof.
  induction l as [|a l IH]; intros H N; [constructor|]. inversion N as [|? ? N1 N2]; subst. cbn [map]. constructor.
  - intros X. apply in_map_iff in X as (y & E & Y). assert (y = a) by (apply H; [right; exact Y|left; reflexivity|exact E]).
    subst y. contradiction.
  - apply IH; [|exact N2]. intros x y X Y. apply H; right; assumption.
Qed.

Definition loom_names (sys : system) : list name := map (fun sl : sloom => fst (fst sl)) sys.

Theorem build_describes m sys : build m = Ok sys ->
  NoDup (loom_names sys) /\
  (forall l, In l (loom_names sys) <-> loom_in m l) /\
  (forall l ps cs, In (l, ps, cs) sys ->
     (forall i p, In (i, p) cs <-> In (l, Some (i, p)) (cpu_claims m)) /\
     NoDup (map (fun sp : sproc => fst (fst sp)) ps) /\
     (forall pid, In pid (map (fun sp : sproc => fst (fst sp)) ps) <-> proc_in m (l, pid)) /\
     (forall pid a ts, In (pid, a, ts) ps ->
        (forall t, In t ts <-> In (l, pid, t) (keys m)) /\
        (forall a', In ((l, pid), a') (app_claims m) -> a' = a))).
Proof.
  rewrite build_raw. destruct (raw m) as [st| |] eqn:R; cbn [bind]; try discriminate.
  pose proof (raw_tables_ok m st R) as T.
  assert (NL : NoDup (st_looms st) /\ NoDup (st_procs st)).
  { apply raw_ok in R. destruct R as (L & _ & P & _).
    unfold cL in L. rewrite loom_claims in L. unfold cP in P. rewrite proc_claims in P.
    apply (collect_ok name_dec valid_name no_confl no_confl_sym no_confl_irrefl) in L.
    apply (collect_ok pkey_dec valid_proc no_confl no_confl_sym no_confl_irrefl) in P. split; [apply L|apply P]. }
  destruct NL as (NL & NP).
  unfold finish, finish_gen. destruct (existsb (rank_incomplete st) (st_looms st)); [discriminate|].
  set (Ls := isort _ (st_looms st)).
  destruct (existsb loom_bad (map (sort_loom_gen true st) Ls)); [discriminate|]. intros E. injection E as <-.
  assert (PL : Permutation Ls (st_looms st)) by apply isort_perm.
  assert (NM : loom_names (map (sort_loom_gen true st) Ls) = Ls).
  { unfold loom_names. rewrite map_map. cbn [sort_loom_gen fst]. apply map_id. }
  rewrite NM. split; [eapply Permutation_NoDup; [apply Permutation_sym; exact PL|exact NL]|].
  split.
  - intros l. rewrite loom_in_spec, <- (tk_looms _ _ T). split; apply Permutation_in; [exact PL|apply Permutation_sym; exact PL].
  - intros l ps cs X. apply in_map_iff in X as (l' & E & _). unfold sort_loom_gen in E. injection E as -> <- <-.
    split; [|split; [|split]].
    + intros i p. rewrite <- (tk_cpus _ _ T), <- in_cpus_of.
      split; apply Permutation_in; [apply isort_perm|apply Permutation_sym, isort_perm].
    + rewrite map_map. cbn [fst]. rewrite map_id.
      eapply Permutation_NoDup; [apply Permutation_sym, isort_perm|].
      unfold procs_of. apply nodup_map_in.
      * intros [a1 b1] [a2 b2] I1 I2 E. cbn [snd] in E. subst b2.
        apply filter_In in I1 as [_ E1]. apply filter_In in I2 as [_ E2]. cbn [fst] in E1, E2.
        apply name_eqb_true in E1, E2. congruence.
      * apply NoDup_filter. exact NP.
    + intros pid. rewrite map_map. cbn [fst]. rewrite map_id.
      rewrite proc_in_spec, <- (tk_procs _ _ T), <- in_procs_of.
      split; apply Permutation_in; [apply isort_perm|apply Permutation_sym, isort_perm].
    + intros pid a ts X. apply in_map_iff in X as (p & E & _). injection E as -> <- <-. split.
      * intros t. change (l, pid, t) with ((l, pid, t) : key). rewrite <- (tk_threads _ _ T), <- in_threads_of.
        split; apply Permutation_in; [apply isort_perm|apply Permutation_sym, isort_perm].
      * intros a' A. apply (tk_apps _ _ T) in A. unfold app_of.
        destruct (find (fun f => pkey_eqb (fst f) (l, pid)) (st_apps st)) as [g|] eqn:FD.
        -- apply find_some in FD as (FI & FE). apply pkey_eqb_true in FE.
           rewrite <- (tk_app_uniq _ _ T _ _ A FI (eq_sym FE)). reflexivity.
        -- exfalso. pose proof (find_none _ _ FD _ A) as Z0. cbn [fst] in Z0.
           assert (pkey_eqb (l, pid) (l, pid) = true) by (apply pkey_eqb_true; reflexivity). congruence.
Qed.
