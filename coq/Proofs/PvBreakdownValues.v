(* C13: the VALUES of the records of the breakdown trace: every record of <model>-breakdown.prv carries the breakdown type and
   a value that is 0 or a value some sort input (a per-CPU breakdown value) took; hence, when the per-CPU values are among the
   labelled ones, every non-zero value of the file has its label in the PCF. *)
From Coq Require Import ZArith List Bool Lia Permutation.
From OV Require Import Base.CInt Emu.EmuCoreDefs Emu.DecodeDefs Emu.MarkDefs Emu.PvDefs Emu.PvBreakdownDefs Proofs.PvProofs Proofs.PvPrvProofs Proofs.PvBreakdownProofs.
From OV Require Emu.SortDefs Proofs.SortProofs Proofs.PvThms.
Import ListNotations.
Local Open Scope Z_scope.

Definition rec_tv (ty : Z) (V : Z -> Prop) (r : prec) : Prop := let '(_, _, t, v) := r in t = ty /\ V v.

Definition BI (ty : Z) (V : Z -> Prop) (x : prv) : Prop :=
  (forall c, In c (pv_chans x) -> pc_type c = ty) /\
  exists recs, pv_file x = prv_header 0 (pv_nrows x) ++ concat (map recline recs) /\ Forall (rec_tv ty V) recs.

Lemma BI_open ty V n : BI ty V (v_prv (pvt_open n)).
Proof. split; [intros c []|]. exists []. cbn [pvt_open v_prv prv_open pv_file pv_nrows map concat]. now rewrite app_nil_r. Qed.

Lemma BI_register ty V v g fl v' : BI ty V (v_prv v) -> pvt_register v g ty fl = Ok v' -> BI ty V (v_prv v').
Proof.
  intros [C (recs & F & R)] H. apply pvt_register_ok in H as (_ & _ & E1 & E2 & E3 & E4). split.
  - intros c Hc. rewrite E4 in Hc. apply in_app_or in Hc as [Hc|[<-|[]]]; [now apply C|reflexivity].
  - exists recs. rewrite E1, E3. auto.
Qed.

Lemma BI_advance ty V x t x' : BI ty V x -> prv_advance x t = Ok x' -> BI ty V x'.
Proof. intros B H. unfold prv_advance in H. destruct (t <? pv_time x); [discriminate|]. injection H as <-. exact B. Qed.

Lemma BI_write ty V x row ty' v x' : BI ty V x -> V v -> prv_write x row ty' v = Ok x' -> BI ty V x'.
Proof.
  intros [C (recs & F & R)] Hv H. unfold prv_write, prv_find in H. destruct (find _ (pv_chans x)) as [c|] eqn:Fc; [|discriminate]. injection H as <-.
  apply find_some in Fc as [Hc _]. cbn [pv_nrows pv_time pv_chans pv_file]. split; [exact C|].
  exists (recs ++ [(pc_row1 c, pv_time x, pc_type c, v)]). split.
  - rewrite F, map_app, concat_app, <- app_assoc. cbn [map concat recline]. now rewrite app_nil_r.
  - apply Forall_app. split; [exact R|]. constructor; [|constructor]. split; [now apply C|exact Hv].
Qed.

(* ------------------------------------------------------------------ the sort module along a successful history *)
Definition in_vals (h : list (nat * SortDefs.value)) : list Z := map (fun iv => SortDefs.to_i64 (snd iv)) h.

Lemma upd_in (l : list Z) : forall i x z, In z (SortDefs.upd i x l) -> z = x \/ In z l.
Proof.
  induction l as [|y r IH]; intros [|i] x z H; cbn [SortDefs.upd] in H; try contradiction.
  - destruct H as [<-|H]; [now left|right; now right].
  - destruct H as [<-|H]; [right; now left|]. destruct (IH i x z H) as [->|K]; [now left|right; now right].
Qed.

Lemma sm_run_inv n : forall h sm sm', SortProofs.minv n sm -> SortDefs.sm_run sm h = Some sm' ->
  SortProofs.minv n sm' /\ forall z, In z (SortDefs.m_values sm') -> In z (SortDefs.m_values sm) \/ In z (in_vals h).
Proof.
  induction h as [|[i v] h IH]; intros sm sm' M H; cbn [SortDefs.sm_run] in H.
  - injection H as <-. split; [exact M|auto].
  - assert (Hi : (i < n)%nat).
    { destruct (Nat.ltb i n) eqn:E; [now apply Nat.ltb_lt|]. apply Nat.ltb_ge in E. exfalso.
      unfold SortDefs.input_changed in H. destruct M as (L & _). rewrite L in H.
      destruct (Nat.leb n i) eqn:E2; [discriminate|]. apply Nat.leb_gt in E2. lia. }
    destruct (SortProofs.step_ok n sm i v M Hi) as (st1 & ws & Hs & M1 & V1 & _ & _). rewrite Hs in H.
    destruct (IH st1 sm' M1 H) as [M' K]. split; [exact M'|]. intros z Hz. destruct (K z Hz) as [A|A].
    + rewrite V1 in A. apply upd_in in A as [->|A]; [right; left; reflexivity|now left].
    + right. right. exact A.
Qed.

Lemma diff_rows_in a : forall b k j x, In (j, x) (SortDefs.diff_rows k a b) -> In x (map SortDefs.to_i64 b).
Proof.
  induction a as [|p a IH]; intros [|q b] k j x H; cbn [SortDefs.diff_rows] in H; try contradiction.
  destruct (SortDefs.value_eqb p q).
  - right. exact (IH b _ j x H).
  - destruct H as [E|H]; [injection E as _ <-; now left|right; exact (IH b _ j x H)].
Qed.

Lemma minv_out_vals n sm x : SortProofs.minv n sm -> In x (map SortDefs.to_i64 (SortDefs.m_outputs sm)) -> x = 0 \/ In x (SortDefs.m_values sm).
Proof.
  intros (L & S & O) H. destruct (SortDefs.m_copied sm).
  - rewrite O, map_map in H. cbn [SortDefs.to_i64] in H. rewrite map_id in H. rewrite S in H. right.
    apply (Permutation_in _ (SortProofs.isort_perm _) H).
  - destruct O as [O _]. rewrite O in H. apply in_map_iff in H as (y & <- & Hy). apply repeat_spec in Hy. subst y. now left.
Qed.

(* ------------------------------------------------------------------ the run *)
Lemma bd_run_vals c (V : Z -> Prop) n : V 0 -> forall steps sm v sm' v',
  SortProofs.minv n sm -> (forall z, In z (SortDefs.m_values sm) -> V z) ->
  Forall (fun st : bd_step => forall z, In z (in_vals (snd st)) -> V z) steps ->
  BI (bd_type c) V (v_prv v) -> bd_run c sm v steps = Ok (sm', v') -> BI (bd_type c) V (v_prv v').
Proof.
  intros V0. induction steps as [|[t1 h] r IH]; intros sm v sm' v' M Hm Hs B H; cbn [bd_run] in H.
  - now injection H as _ <-.
  - apply bindr_ok in H as (p & Ea & H). destruct (SortDefs.sm_run sm h) as [sm1|] eqn:Er; [|discriminate].
    apply bindr_ok in H as (v1 & Ew & H). apply Forall_cons_iff in Hs as [Hh Hr]. cbn [snd] in Hh.
    destruct (sm_run_inv n h sm sm1 M Er) as [M1 K1].
    assert (Hm1 : forall z, In z (SortDefs.m_values sm1) -> V z) by (intros z Hz; destruct (K1 z Hz); auto).
    apply (IH sm1 v1 sm' v' M1 Hm1 Hr); [|exact H].
    revert Ew. apply (foldr_inv (bd_write c) (fun a => BI (bd_type c) V (v_prv a))); [|cbn [set_prv v_prv]; now apply (BI_advance _ _ _ _ _ B Ea)].
    intros a [j x] a' Hin Ba E. unfold bd_write in E. apply bindr_ok in E as (y & E & E'). injection E' as <-. cbn [set_prv v_prv fst snd] in *.
    apply (BI_write _ _ _ _ _ _ _ Ba) in E; [exact E|].
    apply diff_rows_in in Hin. destruct (minv_out_vals n sm1 x M1 Hin) as [->|Hx]; [exact V0|now apply Hm1].
Qed.

Definition all_vals (steps : list bd_step) : list Z := flat_map (fun st => in_vals (snd st)) steps.

(* every record of the breakdown PRV: the breakdown type, and 0 or a value a sort input took *)
Theorem breakdown_record_values c n tv steps f :
  bd_emulate c n tv steps = Ok f -> let d := bd_end 0 steps in 0 <= d < 10 ^ 20 ->
  exists recs, f_prv f = prv_header d (Z.of_nat n) ++ concat (map recline recs) /\
    Forall (rec_tv (bd_type c) (fun z => z = 0 \/ In z (all_vals steps))) recs.
Proof.
  intros H d Hd. unfold bd_emulate in H.
  apply bindr_ok in H as (v0 & E0 & H). apply bindr_ok in H as ([sm v1] & E1 & H). apply bindr_ok in H as (v2 & E2 & E3). cbn [snd] in E2.
  set (V := fun z => z = 0 \/ In z (all_vals steps)).
  destruct (bd_connect_ok _ _ _ E0) as [J0 _]. destruct (bd_run_ok _ _ _ _ _ _ _ _ J0 E1) as [J1 _].
  assert (B0 : BI (bd_type c) V (v_prv v0)).
  { unfold bd_connect in E0. revert E0. apply (foldr_inv _ (fun a => BI (bd_type c) V (v_prv a))); [|apply BI_open].
    intros a i a' _ Ba E. exact (BI_register _ _ _ _ _ _ Ba E). }
  assert (B1 : BI (bd_type c) V (v_prv v1)).
  { apply (bd_run_vals c V n (or_introl eq_refl) steps (SortDefs.sm_init n) v0 sm v1 (SortProofs.minv_init n)); [| |exact B0|exact E1].
    - intros z Hz. cbn [SortDefs.sm_init SortDefs.m_values] in Hz. apply repeat_spec in Hz. now left.
    - apply Forall_forall. intros st Hst z Hz. right. unfold all_vals. apply in_flat_map. exists st. auto. }
  pose proof (bd_finish_prv _ _ _ _ _ E2) as P2.
  destruct (pvt_close_ok _ _ E3) as (_ & _ & Pv). rewrite Pv, P2.
  destruct B1 as [_ (recs & F & R)]. destruct J1 as [_ [N T]]. exists recs. split; [|exact R].
  rewrite <- N. fold d in T. rewrite <- T. apply PvThms.prv_close_header; [exact F|]. apply header_length. now rewrite T.
Qed.

(* ... hence every value of the file other than 0 has its label in the PCF, when the per-CPU values are subsystem / idle /
   task-type values of the configuration (what C20_wiring gives for the inputs of the real emulator) *)
Theorem breakdown_values_labelled c n tv steps f :
  cfg_ok c -> labels_clean tv -> bd_emulate c n tv steps = Ok f -> let d := bd_end 0 steps in 0 <= d < 10 ^ 20 ->
  (forall z, In z (all_vals steps) -> z = 0 \/ exists x, (In x (bd_ss c) \/ In x (bd_idle c) \/ In x tv) /\ int (fst x) = z) ->
  exists recs, f_prv f = prv_header d (Z.of_nat n) ++ concat (map recline recs) /\
    Forall (rec_tv (bd_type c) (fun z => z = 0 \/ text_labels (f_pcf f) (bd_type c) z)) recs.
Proof.
  intros Cc Ct H d Hd Hin. destruct (breakdown_record_values c n tv steps f H Hd) as (recs & F & R).
  destruct (breakdown_files_well_formed c n tv steps f Cc Ct H Hd) as (_ & _ & _ & _ & L).
  exists recs. split; [exact F|]. eapply Forall_impl; [|exact R]. intros [[[row tm] ty] z] [Et [->|Hz]]; (split; [exact Et|]); [now left|].
  destruct (Hin z Hz) as [->|(x & Hx & <-)]; [now left|right; now apply L].
Qed.
