(* Capstone: the GENERATED main loop (Gen/EmuLoop_gen.v, unit emuloop) with the GENERATED model handlers (Gen/Dispatch_gen.v,
   unit dispatch) is the model.
   EmuLoopPre gives `spec->event(emu)` a hand-written meaning (call_event: EmuCoreDefs.core_step on MarkDefs.decode_all for the
   one model of the event); unit dispatch proves that meaning equal to the handlers as generated from the C
   (DispatchProofs.dispatch_from_source).  Here the two are composed: in every statement below the handler is
   DispatchProofs.gen_event m - the generated model_<m>_event - and nothing hand-written stands between the generated
   emu_step and the generated handler except: the monad glue of the two preludes (EmuLoopPre / DispatchPre: state threading,
   `return -1`), the rendering of the models' state as MSem (core state + pending dirty channels), the emission rule
   standing for bay_propagate (tied to the generated bay code by C06_bay_run_refines, not composed here), and the event
   content en_content (what emu_ev decodes from the stream bytes). *)
From Coq Require Import ZArith List Bool Lia.
From OV Require Import Base.CInt Emu.EmuCoreDefs Emu.DecodeDefs Emu.MarkDefs Emu.EmuLoopPre Emu.EmuLoopRelDefs.
From OV Require Emu.PlayerDefs Emu.PvDefs Emu.DispatchPre Emu.TaskEvPre Gen.EmuLoop_gen Gen.Dispatch_gen
  Proofs.EmuLoopProofs Proofs.DispatchProofs Proofs.GuardsProofs Proofs.RejectProofs.
Import ListNotations.
Local Open Scope Z_scope.

Definition denv_of (sx : static) (j : bool) (aux : Z) : DispatchPre.denv :=
  {| DispatchPre.d_te := {| TaskEvPre.te_sx := sx; TaskEvPre.te_cs := s_chans sx |}; DispatchPre.d_jumbo := j; DispatchPre.d_aux := aux |}.

(* the generated handler of the event's model (model_<m>_event of Gen/Dispatch_gen.v) as a function on the core state *)
Definition gen_handler (sx : static) (who : nat) (c : rawc) (st : state) : result (state * list (nat * nat)) :=
  let '((m, cc, v), p, j, aux) := c in
  match DispatchProofs.gen_event m (DispatchProofs.mk who m cc v p) (denv_of sx j aux) (DispatchProofs.W st []) with
  | Ok (_, w) => Ok (TaskEvPre.w_st w, TaskEvPre.w_dirty w)
  | Err e => Err e
  end.

Definition rawc_model (c : rawc) : Z := let '((m, _, _), _, _, _) := c in m.

(* one iteration of the main loop with the generated handler: recorder_advance, model_event's enabled test, the generated
   handler, the propagation, the PRV emit callbacks *)
Definition gen_iter (sx : static) (en : list Z) (st : state) (r : PV.recorder) (dclock : Z) (who : nat) (c : rawc) : result (state * PV.recorder) :=
  match PV.rec_advance r dclock with
  | Err e => Err e
  | Ok r1 =>
    if negb (memz (rawc_model c) en) then Err E_FAIL else
    match gen_handler sx who c st with
    | Err e => Err e
    | Ok (c1, d) =>
      match emit_all (prv_last c1) (all_reqs sx st c1 d) with
      | Err e => Err e
      | Ok (last', ls) =>
        match PV.foldr PV.rec_write ls r1 with
        | Err e => Err e
        | Ok r2 => Ok (set_last c1 last', r2)
        end
      end
    end
  end.

Definition rawc_event (en : list Z) (sx : static) (c : rawc) : event :=
  let '((m, cc, v), p, j, aux) := c in decode_all en (s_chans sx) m cc v p j aux.

(* same result, error for error *)
Definition same_res {A} (a b : result A) : Prop :=
  match a, b with Ok x, Ok y => x = y | Err _, Err _ => True | _, _ => False end.

(* what the dispatch theorem needs of a state *)
Definition handler_ready (sx : static) (en : list Z) (marks : list chanspec) (st : state) (who : nat) : Prop :=
  (exists th, nth_error (threads st) who = Some th) /\ (exists me, nth_error (s_threads sx) who = Some me) /\
  s_chans sx = mk_chans en ++ marks /\ (forall m, memz m en = true -> In m DispatchProofs.all_models) /\ GuardsProofs.GInv sx st.

Lemma bad_step_err sx st who w : exists x, step sx st who (EvBad w) = Err x.
Proof. unfold step. cbn [core_step]. eauto. Qed.

Theorem gen_iter_is_pv_iter sx en marks st r dclock who c : handler_ready sx en marks st who ->
  same_res (gen_iter sx en st r dclock who c) (pv_iter sx st r dclock who (rawc_event en sx c)).
Proof.
  intros ((th & Hth) & (me & Hme) & Hcs & Hall & HG). destruct c as [[[[[m cc] v] p] j] aux]. unfold gen_iter, pv_iter, rawc_event, rawc_model.
  destruct (PV.rec_advance r dclock) as [r1|x]; [|exact I].
  destruct (memz m en) eqn:Em; cbn [negb].
  - pose proof (DispatchProofs.dispatch_from_source sx en marks who th me j aux st m cc v p Hth Hme Hcs (Hall m Em) Em (fun _ => HG)) as A.
    unfold DispatchProofs.agrees in A. rewrite <- Hcs in A. unfold step, gen_handler, denv_of.
    destruct (core_step sx st who (decode_all en (s_chans sx) m cc v p j aux)) as [[c1 d]|x].
    + rewrite A. cbn [TaskEvPre.w_st TaskEvPre.w_dirty]. change (TaskEvPre.w_st (DispatchProofs.W c1 d)) with c1. change (TaskEvPre.w_dirty (DispatchProofs.W c1 d)) with d.
      destruct (emit_all (prv_last c1) (all_reqs sx st c1 d)) as [[last' ls]|x]; [|exact I].
      destruct (PV.foldr PV.rec_write ls r1) as [r2|x]; [reflexivity|exact I].
    + destruct A as (e' & -> & _). exact I.
  - rewrite (EmuLoopProofs.decode_all_off en (s_chans sx) m cc v p j aux Em). destruct (bad_step_err sx st who E_UNKNOWN) as [x ->]. exact I.
Qed.

(* PER EVENT: one generated emu_step whose event hook is the generated handler = one iteration of the model *)
Theorem generated_step_is_model sx st e pst' who cst marks :
  PL.pstep true (en_offs sx) (es_player st) = PL.SEmit e pst' ->
  en_lpt sx (PL.o_id e) = Some who ->
  0 <= model_of sx e < 256 -> models_wf sx st -> es_models st = MSem cst None ->
  handler_ready (en_sx sx) (es_enabled st) marks cst who ->
  EmuLoop_gen.emu_step tt sx st =
  match gen_iter (en_sx sx) (es_enabled st) cst (es_rec st) (PL.o_dclock e) who (en_content sx (PL.o_id e) (PL.o_pay e)) with
  | Ok (cst', r') => Ok (0, with_models (with_rec (delivered st pst' e who) r') (MSem cst' None))
  | Err _ => Err E_FAIL
  end.
Proof.
  intros Hp Hl Hm Hwf Hms HR. rewrite (EmuLoopProofs.emu_step_from_source sx st e pst' who cst Hp Hl Hm Hwf Hms).
  pose proof (gen_iter_is_pv_iter (en_sx sx) (es_enabled st) marks cst (es_rec st) (PL.o_dclock e) who (en_content sx (PL.o_id e) (PL.o_pay e)) HR) as S.
  assert (Ev : event_of sx (es_enabled st) e = rawc_event (es_enabled st) (en_sx sx) (en_content sx (PL.o_id e) (PL.o_pay e))).
  { unfold event_of, rawc_event. destruct (en_content sx (PL.o_id e) (PL.o_pay e)) as [[[[[m cc] v] p] j] aux]. reflexivity. }
  rewrite Ev. unfold same_res in S.
  destruct (gen_iter _ _ _ _ _ _ _) as [[a1 a2]|x]; destruct (pv_iter _ _ _ _ _ _) as [[b1 b2]|y]; try contradiction; [|reflexivity].
  injection S as <- <-. reflexivity.
Qed.

(* ------------------------------------------------------------------ the whole replay with the generated handlers *)
Definition rev_rawc (r : PV.raw_ev) : rawc := let '(_, _, mcv, p, j, aux) := r in (mcv, p, j, aux).
Definition rev_tm (r : PV.raw_ev) : Z := let '(tm, _, _, _, _, _) := r in tm.
Definition rev_thread (r : PV.raw_ev) : nat := let '(_, who, _, _, _, _) := r in who.

(* the loop of PvDefs.pv_run_from on the delivered raw events, the handler being the generated one *)
Fixpoint gen_run_from (sx : static) (en : list Z) (st : state) (r : PV.recorder) (t0 : Z) (revs : list PV.raw_ev) : result (state * PV.recorder) :=
  match revs with
  | [] => Ok (st, r)
  | rv :: rest =>
    match gen_iter sx en st r (rev_tm rv - t0) (rev_thread rv) (rev_rawc rv) with
    | Err e => Err e
    | Ok (st1, r2) => gen_run_from sx en st1 r2 t0 rest
    end
  end.

Definition decode_revs (en : list Z) (sx : static) (revs : list PV.raw_ev) : list (Z * nat * event) :=
  map (fun r : PV.raw_ev => let '(tm, who, (m, c, v), p, j, aux) := r in (tm, who, decode_all en (s_chans sx) m c v p j aux)) revs.

(* WHOLE RUN (partial): for any invariant P of the core state that accepted steps preserve and that gives the dispatch theorem
   its preconditions (the thread exists, the CPU lists are consistent and no physical CPU is oversubscribed: GuardsProofs.GInv),
   the loop with the generated handlers is PvDefs.pv_run_from on the decoded events: same refusal, same state and recorder.
   MISSING for the unconditional statement: one such P for ALL events (GInv is proved preserved for thread / affinity events,
   GuardsProofs.Bind_step; its preservation by the other models' events - which do not touch thread states or CPUs - is
   not proved in this tree). *)
Theorem generated_run_is_model_on sx en marks (P : state -> Prop) :
  (forall st who, P st -> (who < length (s_threads sx))%nat -> handler_ready sx en marks st who) ->
  forall revs st r t0, P st -> (forall rv, In rv revs -> (rev_thread rv < length (s_threads sx))%nat) ->
  (forall st0 rv st1 ls, In rv revs -> P st0 -> step sx st0 (rev_thread rv) (rawc_event en sx (rev_rawc rv)) = Ok (st1, ls) -> P st1) ->
  same_res (gen_run_from sx en st r t0 revs) (PV.pv_run_from sx st r t0 (decode_revs en sx revs)).
Proof.
  intros Hready. induction revs as [|rv revs IH]; intros st r t0 Pst Hw Hstep; cbn [gen_run_from decode_revs map]; [reflexivity|].
  fold (decode_revs en sx revs).
  pose proof (Hstep st rv) as Hs0.
  destruct rv as [[[[[tm who] [[m c] v]] p] j] aux]. cbn [rev_tm rev_thread rev_rawc rawc_event] in *.
  rewrite EmuLoopProofs.pv_run_from_iter.
  pose proof (gen_iter_is_pv_iter sx en marks st r (tm - t0) who ((m, c, v), p, j, aux)
                (Hready st who Pst (Hw _ (or_introl eq_refl)))) as S. cbn [rawc_event] in S. unfold same_res in S.
  destruct (gen_iter sx en st r (tm - t0) who (m, c, v, p, j, aux)) as [[a1 a2]|x] eqn:Eg;
    destruct (pv_iter sx st r (tm - t0) who (decode_all en (s_chans sx) m c v p j aux)) as [[b1 b2]|y] eqn:Ep; try contradiction; [|exact I].
  injection S as <- <-. apply IH; [|intros rv Hr; apply Hw; now right|intros st0 rv st1 ls Hr; apply Hstep; now right].
  unfold pv_iter in Ep. destruct (PV.rec_advance r (tm - t0)) as [ra|]; [|discriminate].
  destruct (step sx st who _) as [[s1 ls]|] eqn:Es; [|discriminate]. destruct (PV.foldr PV.rec_write ls ra) as [rb|]; [|discriminate]. injection Ep as <- _.
  exact (Hs0 _ _ (or_introl eq_refl) Pst eq_refl).
Qed.

Theorem generated_run_is_model_partial sx en marks (P : state -> Prop) :
  (forall st who ev st1 ls, P st -> step sx st who ev = Ok (st1, ls) -> P st1) ->
  (forall st who, P st -> (who < length (s_threads sx))%nat -> handler_ready sx en marks st who) ->
  forall revs st r t0, P st -> (forall rv, In rv revs -> (rev_thread rv < length (s_threads sx))%nat) ->
  same_res (gen_run_from sx en st r t0 revs) (PV.pv_run_from sx st r t0 (decode_revs en sx revs)).
Proof.
  intros Hstep Hready revs st r t0 Pst Hw. apply (generated_run_is_model_on sx en marks P Hready revs st r t0 Pst Hw).
  intros st0 rv st1 ls _ P0 E. exact (Hstep _ _ _ _ _ P0 E).
Qed.

(* ... hence PvDefs.emulate itself, with its replay loop run by the generated handlers, writes the same files or refuses alike *)
Definition emulate_gen (sx : static) (phy en : list Z) (ms : list MarkDefs.mtype) (lintchans : list nat) (tl : list (PV.tkey * str))
           (revs : list PV.raw_ev) : result PV.outfiles :=
  PV.bindr (PV.connect sx phy en ms) (fun r0 =>
  match gen_run_from sx en (init sx) r0 (PV.ev_t0 (decode_revs en sx revs)) revs with
  | Err e => Err e
  | Ok (st, r1) =>
    if negb (all_dead st) then Err E_END
    else if s_lint sx && negb (lint_ok sx lintchans st) then Err E_END
    else
      PV.bindr (PV.finish sx en (types st) tl r1) (fun r2 =>
      PV.bindr (PV.pvt_close (PV.rc_th r2)) (fun fth =>
      PV.bindr (PV.pvt_close (PV.rc_cpu r2)) (fun fcpu => Ok {| PV.o_th := fth; PV.o_cpu := fcpu |})))
  end).

Theorem generated_emulate_is_model_partial sx phy en ms lintchans tl revs marks (P : state -> Prop) :
  (forall st who ev st1 ls, P st -> step sx st who ev = Ok (st1, ls) -> P st1) ->
  (forall st who, P st -> (who < length (s_threads sx))%nat -> handler_ready sx en marks st who) ->
  P (init sx) -> (forall rv, In rv revs -> (rev_thread rv < length (s_threads sx))%nat) ->
  same_res (emulate_gen sx phy en ms lintchans tl revs) (PV.emulate sx phy en ms lintchans tl (decode_revs en sx revs)).
Proof.
  intros Hs Hr P0 Hw. unfold emulate_gen, PV.emulate. destruct (PV.connect sx phy en ms) as [r0|x]; cbn [PV.bindr]; [|exact I].
  pose proof (generated_run_is_model_partial sx en marks P Hs Hr revs (init sx) r0 (PV.ev_t0 (decode_revs en sx revs)) P0 Hw) as S.
  unfold same_res in S.
  destruct (gen_run_from sx en (init sx) r0 _ revs) as [[a1 a2]|x]; destruct (PV.pv_run_from sx (init sx) r0 _ _) as [[b1 b2]|y]; try contradiction; [|exact I].
  injection S as <- <-. destruct (negb (all_dead a1)); [exact I|]. destruct (s_lint sx && negb (lint_ok sx lintchans a1)); [exact I|].
  destruct (PV.finish sx en (types a1) tl a2) as [r2|]; cbn [PV.bindr]; [|exact I].
  destruct (PV.pvt_close (PV.rc_th r2)); cbn [PV.bindr]; [|exact I]. destruct (PV.pvt_close (PV.rc_cpu r2)); cbn [PV.bindr]; [reflexivity|exact I].
Qed.

(* ------------------------------------------------------------------ unconditional for thread / affinity traces *)
From OV Require Proofs.ThreadCpuProofs.

Definition rev_is_oh (r : PV.raw_ev) : Prop := let '(_, _, (m, c, _), _, _, _) := r in m = M_OVNI /\ (c = 72 \/ c = 65).

Lemma decode_all_ovni en cs c v p j aux : memz M_OVNI en = true -> c = 72 \/ c = 65 ->
  decode_all en cs M_OVNI c v p j aux = decode_ovni cs c v p.
Proof.
  intros Em Hc. unfold decode_all. replace ((M_OVNI =? M_OVNI) && (c =? 77)) with false by (destruct Hc as [-> | ->]; reflexivity).
  unfold decode_full. rewrite Em. cbn [negb]. unfold decode_task. change (M_OVNI =? M_NOSV) with false. change (M_OVNI =? M_NANOS6) with false. cbv iota.
  unfold decode. rewrite Em. cbn [negb]. change (M_OVNI =? M_OVNI) with true. reflexivity.
Qed.

Lemma bind_ready sx en marks st who : s_chans sx = mk_chans en ++ marks -> (forall m, memz m en = true -> In m DispatchProofs.all_models) ->
  ThreadCpuProofs.Bind sx st -> (who < length (s_threads sx))%nat -> handler_ready sx en marks st who.
Proof.
  intros Hcs Hall HB Hw. pose proof (ThreadCpuProofs.b_len_t _ _ (proj1 HB)) as L.
  split; [destruct (nth_error (threads st) who) eqn:E; [eauto|apply nth_error_None in E; lia]|].
  split; [destruct (nth_error (s_threads sx) who) eqn:E; [eauto|apply nth_error_None in E; lia]|].
  split; [exact Hcs|]. split; [exact Hall|]. now apply GuardsProofs.Bind_GInv.
Qed.

Lemma bind_step_oh sx en st who c v p j aux st1 ls : memz M_OVNI en = true -> c = 72 \/ c = 65 -> ThreadCpuProofs.Bind sx st ->
  step sx st who (decode_all en (s_chans sx) M_OVNI c v p j aux) = Ok (st1, ls) -> ThreadCpuProofs.Bind sx st1.
Proof.
  intros Em Hc HB H. rewrite (decode_all_ovni en (s_chans sx) c v p j aux Em Hc) in H. unfold step in H.
  pose proof (GuardsProofs.Bind_step sx (s_chans sx) st who c v p) as K.
  destruct (core_step sx st who (decode_ovni (s_chans sx) c v p)) as [[c1 d]|] eqn:E; [|discriminate]. cbn [GuardsProofs.fst_res] in K.
  specialize (K c1 HB Hc eq_refl).
  destruct (emit_all (prv_last c1) (all_reqs sx st c1 d)) as [[last' l2]|]; [|discriminate]. injection H as <- _.
  apply (ThreadCpuProofs.same_core_Bind sx c1); [split; reflexivity|exact K].
Qed.

(* for a trace whose delivered events are thread-state and affinity events (the class of C04), with no side condition on the run:
   PvDefs.emulate with its loop run by the GENERATED handlers = PvDefs.emulate, refusal for refusal, file for file *)
Theorem generated_emulate_is_model_oh sx phy en ms lintchans tl revs marks :
  s_chans sx = mk_chans en ++ marks -> (forall m, memz m en = true -> In m DispatchProofs.all_models) -> memz M_OVNI en = true ->
  (forall rv, In rv revs -> rev_is_oh rv /\ (rev_thread rv < length (s_threads sx))%nat) ->
  same_res (emulate_gen sx phy en ms lintchans tl revs) (PV.emulate sx phy en ms lintchans tl (decode_revs en sx revs)).
Proof.
  intros Hcs Hall Em Hr. unfold emulate_gen, PV.emulate. destruct (PV.connect sx phy en ms) as [r0|x]; cbn [PV.bindr]; [|exact I].
  pose proof (generated_run_is_model_on sx en marks (ThreadCpuProofs.Bind sx) (fun st who B W => bind_ready sx en marks st who Hcs Hall B W)
                revs (init sx) r0 (PV.ev_t0 (decode_revs en sx revs)) (ThreadCpuProofs.init_Bind sx) (fun rv H => proj2 (Hr rv H))) as S.
  assert (St : forall st0 rv st1 ls, In rv revs -> ThreadCpuProofs.Bind sx st0 ->
                 step sx st0 (rev_thread rv) (rawc_event en sx (rev_rawc rv)) = Ok (st1, ls) -> ThreadCpuProofs.Bind sx st1).
  { intros st0 rv st1 ls Hin B E. destruct (Hr rv Hin) as [Oh _]. destruct rv as [[[[[tm who] [[m c] v]] p] j] aux].
    cbn [rev_is_oh rev_thread rev_rawc rawc_event] in *. destruct Oh as [-> Hc]. exact (bind_step_oh sx en st0 who c v p j aux st1 ls Em Hc B E). }
  specialize (S St). unfold same_res in S.
  destruct (gen_run_from sx en (init sx) r0 _ revs) as [[a1 a2]|x]; destruct (PV.pv_run_from sx (init sx) r0 _ _) as [[b1 b2]|y]; try contradiction; [|exact I].
  injection S as <- <-. destruct (negb (all_dead a1)); [exact I|]. destruct (s_lint sx && negb (lint_ok sx lintchans a1)); [exact I|].
  destruct (PV.finish sx en (types a1) tl a2) as [r2|]; cbn [PV.bindr]; [|exact I].
  destruct (PV.pvt_close (PV.rc_th r2)); cbn [PV.bindr]; [|exact I]. destruct (PV.pvt_close (PV.rc_cpu r2)); cbn [PV.bindr]; [reflexivity|exact I].
Qed.

(* ------------------------------------------------------------------ on the composed whole-emulator model *)
From OV Require Emu.EmuAllDefs Emu.SysStaticDefs Emu.MetaDefs Emu.VersionDefs Proofs.EmuAllProofs Proofs.EmuAllStage Proofs.SysStaticProofs Proofs.PvThms.

Lemma model_probe_subset compat always models ts all : forall en, VersionDefs.model_probe compat always models ts all = Some en ->
  forall m, In m en -> In m (map (fun x : Z * list Z * list Z => fst (fst x)) models).
Proof.
  induction models as [|[[id name] ver] r IH]; intros en H m Hm; cbn [VersionDefs.model_probe] in H.
  - injection H as <-. contradiction.
  - destruct (VersionDefs.model_version_probe compat name ver ts) eqn:Ep; try discriminate;
      (destruct (VersionDefs.model_probe compat always r ts all) as [en'|] eqn:Er; [|discriminate]); injection H as <-;
      cbn [map fst orb] in *; try (match type of Hm with In m (if ?b then _ else _) => destruct b end);
      try (destruct Hm as [<-|Hm]; [now left|]); right; now apply (IH en' eq_refl).
Qed.

Lemma models_by_id_all : forall m, In m (map (fun x : Z * list Z * list Z => fst (fst x)) EmuAllDefs.models_by_id) -> In m DispatchProofs.all_models.
Proof. vm_compute. intros m H. repeat (destruct H as [<-|H]; [intuition|]). contradiction. Qed.

Lemma index_of_bound k l : forall i n, EmuAllDefs.index_of k l i = Some n -> (n < i + length l)%nat.
Proof.
  induction l as [|[[[lo p] t] a] l IH]; intros i n H; cbn [EmuAllDefs.index_of] in H; [discriminate|].
  destruct (MetaDefs.key_dec (lo, p, t) k); [injection H as <-; cbn; lia|]. apply IH in H. cbn [length]. lia.
Qed.

(* CAPSTONE on the composed model, for traces of thread / affinity events: wherever ovniemu_model reaches its emulate stage,
   running the replay with the GENERATED handlers gives ovniemu_model's answer: the same six files, or a refusal on both sides *)
Theorem generated_all_oh inp sys en ms revs : EmuAllStage.stage inp = inr (sys, en, ms, revs) ->
  (forall rv, In rv revs -> rev_is_oh rv) ->
  let sx := EmuAllStage.stage_sx inp sys en ms in
  match emulate_gen sx (SysStaticDefs.sys_phy sys) en ms (lint_chans (mk_chans en)) (PV.tlabels_of sx revs) revs with
  | Ok out => EmuAllDefs.ovniemu_model inp = EmuAllDefs.Files out
  | Err _ => exists e, EmuAllDefs.ovniemu_model inp = EmuAllDefs.Refused (EmuAllDefs.REmu e)
  end.
Proof.
  intros S Hoh sx. rewrite EmuAllStage.model_is_stage_then_emulate, S. unfold EmuAllStage.stage_emulate. fold sx.
  assert (Hen : EmuAllDefs.enabled_models (EmuAllDefs.sorted_streams inp) (EmuAllDefs.in_all inp) = Some en).
  { unfold EmuAllStage.stage in S. set (ss := EmuAllDefs.sorted_streams inp) in *.
    destruct (EmuAllDefs.first_bad_meta ss ss); [discriminate|]. destruct (EmuAllDefs.load_all ss); [discriminate|].
    destruct (MetaDefs.build _) as [sys0| |]; try discriminate. destruct (EmuAllDefs.enabled_models ss (EmuAllDefs.in_all inp)) as [en0|]; [|discriminate].
    destruct (Rt.MarkJsonDefs.emu_types_of_trees _); [|discriminate].
    match type of S with context [ClkoffDefs.run_emu_table ?t ?e] => destruct (ClkoffDefs.run_emu_table t e) as [[oevs v]| |] end; try discriminate.
    destruct v; try discriminate. match type of S with context [EmuAllDefs.all_some ?l] => destruct (EmuAllDefs.all_some l) end; [|discriminate].
    injection S as _ <- _ _. reflexivity. }
  assert (Hall : forall m, memz m en = true -> In m DispatchProofs.all_models).
  { intros m Hm. apply models_by_id_all. unfold EmuAllDefs.enabled_models in Hen. apply (model_probe_subset _ _ _ _ _ en Hen).
    unfold memz in Hm. apply existsb_exists in Hm as (y & Hy & E). apply Z.eqb_eq in E. now subst. }
  assert (Hw : forall rv, In rv revs -> (rev_thread rv < length (s_threads sx))%nat).
  { intros rv Hr. destruct (EmuAllStage.stage_events_are_stream_records inp sys en ms revs S rv Hr) as (id & s & recs & who & tm & idx & _ & _ & Hg & Hrv).
    destruct (EmuAllProofs.raw_event_time _ _ _ _ _ _ _ Hrv) as [_ W].
    assert (Ew : rev_thread rv = who) by (destruct rv as [[[[[a b] c] d] e] f]; exact W). rewrite Ew.
    unfold EmuAllDefs.gindex_of in Hg. apply index_of_bound in Hg. cbn [plus] in Hg.
    destruct (SysStaticProofs.static_same_system sys (SysStaticDefs.rank_of_metas (map EmuAllDefs.si_smeta (EmuAllDefs.sorted_streams inp))) en ms (EmuAllDefs.in_lint inp)) as [S1 _].
    apply (f_equal (@length _)) in S1. rewrite !map_length in S1. unfold sx, EmuAllStage.stage_sx. rewrite S1. exact Hg. }
  pose proof (generated_emulate_is_model_oh sx (SysStaticDefs.sys_phy sys) en ms (lint_chans (mk_chans en)) (PV.tlabels_of sx revs) revs (mark_chans ms)
                eq_refl Hall (EmuAllProofs.enabled_has_ovni _ _ _ Hen) (fun rv H => conj (Hoh rv H) (Hw rv H))) as R.
  unfold same_res in R. change (decode_revs en sx revs) with (EmuAllProofs.decode_revs en sx revs) in R.
  destruct (emulate_gen sx _ en ms _ _ revs) as [o1|x]; destruct (PV.emulate sx _ en ms _ _ _) as [o2|y]; try contradiction; [now subst|eauto].
Qed.
