(* C13: the breakdown trace (Emu/PvBreakdownDefs.v) - the three files the model writes with breakdown enabled are well formed:
   header counts, row file, type declared, every label group present, read back from the BYTES of the files. *)
From Coq Require Import ZArith List Bool Lia.
From OV Require Import Base.CInt Emu.EmuCoreDefs Emu.DecodeDefs Emu.MarkDefs Emu.PvDefs Emu.PvBreakdownDefs Proofs.PvProofs Proofs.PvPrvProofs.
From OV Require Emu.SortDefs Proofs.PvThms Gen.Tables_gen Gen.Pv_gen.
Import ListNotations.
Local Open Scope Z_scope.

Definition cfg_ok (c : bd_cfg) : Prop := no_nl (bd_label c) /\ labels_clean (bd_ss c) /\ labels_clean (bd_idle c).
Definition cfg_okb (c : bd_cfg) : bool := no_nlb (bd_label c) && clean_labs (bd_ss c) && clean_labs (bd_idle c).
Lemma cfg_okb_ok c : cfg_okb c = true -> cfg_ok c.
Proof.
  unfold cfg_okb. intros H. apply andb_prop in H as [H H3]. apply andb_prop in H as [H1 H2].
  split; [now apply no_nlb_ok|]. split; now apply clean_labs_ok.
Qed.
Lemma bd_nosv_ok : cfg_ok bd_nosv. Proof. apply cfg_okb_ok. vm_compute. reflexivity. Qed.
Lemma bd_nanos6_ok : cfg_ok bd_nanos6. Proof. apply cfg_okb_ok. vm_compute. reflexivity. Qed.
(* the label groups are the tables' ones and are not empty *)
Lemma bd_groups_nonempty : bd_ss bd_nosv <> [] /\ bd_idle bd_nosv <> [] /\ bd_ss bd_nanos6 <> [] /\ bd_idle bd_nanos6 <> [].
Proof. vm_compute. repeat split; discriminate. Qed.

(* time of the last step *)
Fixpoint bd_end (t : Z) (steps : list bd_step) : Z := match steps with [] => t | (t1, _) :: r => bd_end t1 r end.

Lemma bd_connect_ok c n v : bd_connect c n = Ok v -> J v n 0 /\ good (pvt_open n) v.
Proof.
  unfold bd_connect. intros H. split.
  - apply (foldr_inv (fun v (i : nat) => pvt_register v (Z.of_nat i) (bd_type c) bd_flags) (fun a => J a n 0) (seq 0 n)) with (a := pvt_open n); [|apply J_open|exact H].
    intros a i a' Hin Ja E. apply in_seq in Hin. apply (J_register a (Z.of_nat i) (bd_type c) bd_flags a' n 0 Ja); [lia|exact E].
  - revert H. apply foldr_rel; [apply good_refl|apply good_trans|]. intros a i a' _. apply register_good.
Qed.

Lemma bd_write_ok c v w v' n t : J v n t -> bd_write c v w = Ok v' -> J v' n t /\ good v v'.
Proof.
  intros [P [N T]] H. unfold bd_write in H. apply bindr_ok in H as (x & E & H). injection H as <-.
  destruct (PI_write _ _ _ _ _ P E) as (P' & N' & T').
  split; [split; [exact P'|split; cbn [set_prv v_prv]; congruence]|].
  apply prv_only_good; [exact N'|]. unfold prv_write in E. destruct (prv_find _ _); [|discriminate]. now injection E as <-.
Qed.

Lemma bd_run_ok c steps : forall sm v sm' v' n t, J v n t -> bd_run c sm v steps = Ok (sm', v') -> J v' n (bd_end t steps) /\ good v v'.
Proof.
  induction steps as [|[t1 h] r IH]; intros sm v sm' v' n t Jv H; cbn [bd_run bd_end] in *.
  - injection H as _ <-. split; [exact Jv|apply good_refl].
  - apply bindr_ok in H as (p & Ea & H). destruct (SortDefs.sm_run sm h) as [sm1|]; [|discriminate].
    apply bindr_ok in H as (v1 & Ew & H). destruct Jv as [P [N T]].
    destruct (PI_advance _ _ _ P Ea) as (P1 & N1 & T1).
    assert (J0 : J (set_prv v p) n t1) by (split; [exact P1|split; cbn [set_prv v_prv]; congruence]).
    assert (G0 : good v (set_prv v p)).
    { apply prv_only_good; [exact N1|]. unfold prv_advance in Ea. destruct (t1 <? _); [discriminate|]. now injection Ea as <-. }
    assert (K : J v1 n t1 /\ good (set_prv v p) v1).
    { revert Ew. apply (foldr_inv (bd_write c) (fun a => J a n t1 /\ good (set_prv v p) a)); [|split; [exact J0|apply good_refl]].
      intros a w a' _ [Ja Ga] E. destruct (bd_write_ok c a w a' n t1 Ja E) as [Ja' Ga']. split; [exact Ja'|eapply good_trans; eauto]. }
    destruct K as [J1 G1]. destruct (IH _ _ _ _ _ _ J1 H) as [J2 G2]. split; [exact J2|].
    eapply good_trans; [exact G0|]. eapply good_trans; eauto.
Qed.

Lemma add_task_value_prv id v x v' : add_task_value id v x = Ok v' -> v_prv v' = v_prv v.
Proof.
  unfold add_task_value. intros E. destruct (pcf_find_type _ _); [|discriminate]. destruct (pcf_find_value _ _).
  - destruct (str_eq _ _); [now injection E as <-|discriminate].
  - now apply pvt_add_value_ext in E as (_ & -> & _).
Qed.

Lemma bd_finish_ok c n tv v v' : cfg_ok c -> labels_clean tv -> bd_finish c n tv v = Ok v' ->
  good v v' /\ v_prv v' = v_prv v /\ declared (v_pcf v') (bd_type c) /\
  (forall x, In x (bd_ss c) \/ In x (bd_idle c) \/ In x tv -> has_value (v_pcf v') (bd_type c) (int (fst x))) /\
  (forall g, (g < n)%nat -> nth g (v_prf v') None = Some (bd_row_name n g)).
Proof.
  intros (Cl & Cs & Ci) Ct H. unfold bd_finish in H.
  apply bindr_ok in H as (v1 & E1 & H). apply bindr_ok in H as (v2 & E2 & H). apply bindr_ok in H as (v3 & E3 & H).
  apply bindr_ok in H as (v4 & E4 & E5).
  pose proof (add_type_good _ _ _ _ Cl E1) as G1. pose proof (pvt_add_type_ok _ _ _ _ E1) as (P1 & _).
  apply pvt_add_type_ext in E1 as (_ & D1 & _).
  destruct (add_values_good _ _ _ _ _ Cs E2) as (G2 & P2 & V2).
  destruct (add_values_good _ _ _ _ _ Ci E3) as (G3 & P3 & V3).
  assert (G4 : good v3 v4).
  { revert E4. apply foldr_rel; [apply good_refl|apply good_trans|]. intros a x a' Hin E. now apply (add_task_value_ok _ _ _ _ (Ct x Hin)) in E as [G _]. }
  assert (P4 : v_prv v4 = v_prv v3).
  { revert E4. apply (foldr_rel _ (fun a b => v_prv b = v_prv a)); [auto|congruence|]. intros a x a' _. apply add_task_value_prv. }
  assert (V4 : forall x, In x tv -> has_value (v_pcf v4) (bd_type c) (int (fst x))).
  { apply (foldr_est (add_task_value (bd_type c)) good (fun x a => has_value (v_pcf a) (bd_type c) (int (fst x))) tv) with (a := v3); [| |exact E4].
    - intros a x a' Hin E. now apply (add_task_value_ok _ _ _ _ (Ct x Hin)) in E.
    - intros s a a' Q [G _]. now apply (e_val _ _ G). }
  assert (G5 : good v4 v').
  { revert E5. apply foldr_rel; [apply good_refl|apply good_trans|]. intros a g a' _. apply add_row_good. }
  assert (P5 : v_prv v' = v_prv v4).
  { revert E5. apply (foldr_rel _ (fun a b => v_prv b = v_prv a)); [auto|congruence|]. intros a g a' _ E. now apply pvt_add_row_ext in E as (_ & -> & _). }
  assert (R5 : forall g, In g (seq 0 n) -> nth g (v_prf v') None = Some (bd_row_name n g)).
  { apply (foldr_est (fun v' (row : nat) => pvt_add_row v' (Z.of_nat row) (bd_row_name n row)) good (fun g a => nth g (v_prf a) None = Some (bd_row_name n g)) (seq 0 n)) with (a := v4); [| |exact E5].
    - intros a g a' _ E. split; [now apply add_row_good in E|]. apply pvt_add_row_ext in E as (_ & _ & _ & R). now rewrite Nat2Z.id in R.
    - intros s a a' Q [G _]. now apply (e_row _ _ G). }
  assert (G34 : good v3 v') by (eapply good_trans; eauto).
  assert (G24 : good v2 v') by (eapply good_trans; eauto).
  assert (G14 : good v1 v') by (eapply good_trans; eauto).
  split; [eapply good_trans; eauto|]. split; [congruence|]. split; [destruct G14 as [X _]; now apply (e_decl _ _ X)|]. split.
  - intros x [Hx|[Hx|Hx]].
    + destruct G24 as [X _]. apply (e_val _ _ X). now apply V2.
    + destruct G34 as [X _]. apply (e_val _ _ X). now apply V3.
    + destruct G5 as [X _]. apply (e_val _ _ X). now apply V4.
  - intros g Hg. apply R5. apply in_seq. lia.
Qed.

Lemma bd_finish_prv c n tv v v' : bd_finish c n tv v = Ok v' -> v_prv v' = v_prv v.
Proof.
  intros H. unfold bd_finish in H.
  apply bindr_ok in H as (v1 & E1 & H). apply bindr_ok in H as (v2 & E2 & H). apply bindr_ok in H as (v3 & E3 & H).
  apply bindr_ok in H as (v4 & E4 & E5).
  apply pvt_add_type_ok in E1 as (P1 & _). apply add_values_prv in E2. apply add_values_prv in E3.
  assert (P4 : v_prv v4 = v_prv v3).
  { revert E4. apply (foldr_rel _ (fun a b => v_prv b = v_prv a)); [auto|congruence|]. intros a x a' _. apply add_task_value_prv. }
  assert (P5 : v_prv v' = v_prv v4).
  { revert E5. apply (foldr_rel _ (fun a b => v_prv b = v_prv a)); [auto|congruence|]. intros a g a' _ E. now apply pvt_add_row_ext in E as (_ & -> & _). }
  congruence.
Qed.

Lemma S_BD_ROW_no_nl : no_nl S_BD_ROW. Proof. apply no_nlb_ok. vm_compute. reflexivity. Qed.
Lemma bd_row_name_no_nl n g : no_nl (bd_row_name n g).
Proof. unfold bd_row_name, pad_left. apply no_nl_app; [apply S_BD_ROW_no_nl|]. apply no_nl_app; [apply no_nl_repeat_sp|apply dec_no_nl]. Qed.

(* the three files of the breakdown trace *)
Theorem breakdown_files_well_formed c n tv steps f :
  cfg_ok c -> labels_clean tv -> bd_emulate c n tv steps = Ok f ->
  let d := bd_end 0 steps in 0 <= d < 10 ^ 20 ->
  prv_shape (f_prv f) d n /\
  parse_prf (f_row f) = Some (map (bd_row_name n) (seq 0 n)) /\ length (map (bd_row_name n) (seq 0 n)) = n /\
  text_declares (f_pcf f) (bd_type c) /\
  (forall x, In x (bd_ss c) \/ In x (bd_idle c) \/ In x tv -> text_labels (f_pcf f) (bd_type c) (int (fst x))).
Proof.
  intros Cc Ct H d Hd. unfold bd_emulate in H.
  apply bindr_ok in H as (v0 & E0 & H). apply bindr_ok in H as ([sm v1] & E1 & H). apply bindr_ok in H as (v2 & E2 & E3). cbn [snd] in E2.
  destruct (bd_connect_ok _ _ _ E0) as [J0 G0]. destruct (bd_run_ok _ _ _ _ _ _ _ _ J0 E1) as [J1 G1].
  destruct (bd_finish_ok _ _ _ _ _ Cc Ct E2) as (G2 & P2 & D2 & V2 & R2).
  assert (G : good (pvt_open n) v2) by (eapply good_trans; [exact G0|eapply good_trans; eauto]).
  destruct (pvt_close_ok _ _ E3) as (Rr & Pp & Pv). destruct G as [X K].
  assert (Pok : parse_pcf (f_pcf f) = Some (v_pcf v2)).
  { rewrite Pp. apply parse_pcf_text. apply K. intros t []. }
  split; [|split; [|split; [|split]]].
  - rewrite Pv. apply J_close; [|exact Hd]. apply (J_same v1 v2 n _ P2). exact J1.
  - destruct (prf_close_ok _ _ Rr) as (ls & Ep & -> & Ll & Pf).
    assert (ls = map (bd_row_name n) (seq 0 n)) as ->.
    { apply (rows_eq (v_prf v2) (seq 0 n) (bd_row_name n) 0%nat ls Ep).
      - rewrite (e_len _ _ X). cbn [pvt_open v_prf]. unfold prf_open. now rewrite repeat_length, seq_length.
      - intros g Hg. rewrite seq_length in Hg. rewrite seq_nth by exact Hg. cbn [plus]. now apply R2. }
    apply Pf. apply Forall_forall. intros l Hl. apply in_map_iff in Hl as [g [<- _]]. apply bd_row_name_no_nl.
  - now rewrite map_length, seq_length.
  - apply (PvThms.declared_text _ _ _ Pok D2).
  - intros x Hx. apply (PvThms.value_text _ _ _ _ Pok). now apply V2.
Qed.

(* non-vacuity: two physical CPUs, first CPU 0 then CPU 1 get a value; the model writes the three files *)
Definition bd_ex_steps : list bd_step := [(0, [(0%nat, SortDefs.VInt 2)]); (5, [(1%nat, SortDefs.VInt 100)]); (9, [])].
Lemma bd_ex_ok : exists f, bd_emulate bd_nosv 2 [] bd_ex_steps = Ok f /\
  f_row f = prf_text [bd_row_name 2 0; bd_row_name 2 1] /\
  f_prv f = prv_header 9 2 ++ prv_line 1 0 17 0 ++ prv_line 2 0 17 2 ++ prv_line 1 5 17 2 ++ prv_line 2 5 17 100.
Proof. vm_compute. eexists. split; [reflexivity|split; reflexivity]. Qed.

Lemma configs_ok : cfg_ok bd_nosv /\ cfg_ok bd_nanos6 /\ bd_ss bd_nosv <> [] /\ bd_idle bd_nosv <> [] /\ bd_ss bd_nanos6 <> [] /\ bd_idle bd_nanos6 <> [].
Proof. split; [apply bd_nosv_ok|]. split; [apply bd_nanos6_ok|]. apply bd_groups_nonempty. Qed.
