(* The mux callbacks of the bay model (BayDefs.cb_select / cb_input, the default select) are what the functions of
   src/emu/mux.c GENERATED into Gen/Mux_gen.v compute, on every bay and every mux of it, including every refusal. *)
From Coq Require Import ZArith List Bool Lia.
From OV Require Import Base.CInt Emu.EmuCoreDefs Emu.ChanPre Emu.MuxPre.
From OV Require Gen.Mux_gen Emu.BayDefs Proofs.BayBasics Proofs.BayMux.
Import ListNotations.
Local Open Scope Z_scope.

Ltac munf := unfold need, ite, ite_out, bind_, bind, eval, ret, fail, exec.

Lemma uninj_inj v : uninj (inj v) = Some v.
Proof. destruct v; reflexivity. Qed.

(* the environment's custom select function, from BayDefs' select functions *)
Definition custom_of (x : B.mux) (b : B.bay) (n : Z) (key : cvalue) : result (option Z) :=
  match uninj key with
  | Some v => match B.run_select_in b x v with Ok o => Ok (option_map Z.of_nat o) | Err e => Err e end
  | None => Err E_FAIL
  end.

Definition env_of (m : nat) (x : B.mux) : menv := {| me_m := m; me_custom := custom_of x |}.

(* result of a BayDefs callback vs a run of the generated one: same bay on success; a missing channel / input
   (E_WIRING: impossible in C without a wild pointer) is a trap, every other refusal is `return -1` *)
Definition cb_rel (r : result B.bay) (g : result mstate) : Prop :=
  match r with
  | Ok b' => exists st', g = Ok st' /\ ms_bay st' = b'
  | Err e => if Nat.eqb e B.E_WIRING then g = Err E_TRAP else g = Err E_FAIL
  end.

(* ---------------------------------------------------------------- default_select = run_select SelDefault *)

Lemma default_select_eq sx st key :
  Mux_gen.default_select (Some tt) (inj key) (Some tt) sx st =
  match B.run_select B.SelDefault (length (B.mx_ins (mx sx st))) key with
  | Ok o => Ok (tt, {| ms_bay := ms_bay st; ms_isel := ms_isel st; ms_cell := option_map Z.of_nat o |})
  | Err _ => Err E_FAIL
  end.
Proof.
  unfold Mux_gen.default_select. munf. unfold fld_cvalue_type, fld_cvalue_i, store_ptr_pinput, get_mux_ninputs, addr_mux_inputs_at.
  destruct key as [z|]; cbn [inj vt vi B.run_select].
  - change (1 =? Mux_gen.c_VALUE_NULL) with false. change (negb (1 =? Mux_gen.c_VALUE_INT64)) with false. cbn iota.
    cbn [is_null negb]. replace (if z <? 0 then true else true) with true by (destruct (z <? 0); reflexivity). cbn iota.
    replace (z >=? Z.of_nat (length (B.mx_ins (mx sx st)))) with (Z.of_nat (length (B.mx_ins (mx sx st))) <=? z)
      by (rewrite Z.geb_leb; reflexivity).
    destruct ((z <? 0) || (Z.of_nat (length (B.mx_ins (mx sx st))) <=? z)) eqn:E; [reflexivity|].
    cbn [option_map]. apply orb_false_iff in E. destruct E as [E1 _]. apply Z.ltb_ge in E1. rewrite Z2Nat.id by exact E1. reflexivity.
  - reflexivity.
Qed.

(* ---------------------------------------------------------------- the mux record seen through the state *)

Definition Has (b : B.bay) (m : nat) (x : B.mux) : Prop :=
  exists x', nth_error (B.b_muxes b) m = Some x' /\ BayBasics.mstat x' = BayBasics.mstat x.

Lemma Has_refl b m x : nth_error (B.b_muxes b) m = Some x -> Has b m x.
Proof. intros H. exists x. split; [exact H|reflexivity]. Qed.

Lemma Has_skel b b' m x : BayBasics.skel b' = BayBasics.skel b -> Has b m x -> Has b' m x.
Proof.
  intros Hs (x0 & H0 & E0). assert (Hs' : BayBasics.skel b = BayBasics.skel b') by (symmetry; exact Hs).
  destruct (BayBasics.skel_mux b' b m x0 Hs' H0) as (x1 & H1 & E1). exists x1. split; [exact H1|congruence].
Qed.

Lemma Has_fields sx st m x : me_m sx = m -> Has (ms_bay st) m x ->
  B.mx_sel (mx sx st) = B.mx_sel x /\ B.mx_out (mx sx st) = B.mx_out x /\ B.mx_fun (mx sx st) = B.mx_fun x /\
  B.mx_def (mx sx st) = B.mx_def x /\ B.mx_ins (mx sx st) = B.mx_ins x /\ the_mux sx st <> None.
Proof.
  intros <- (x' & H & E). unfold mx, the_mux. rewrite H. unfold BayBasics.mstat in E. inversion E. repeat split; try assumption. discriminate.
Qed.

Lemma disable_err b m i e : B.disable_input b m i = Err e -> e = B.E_WIRING.
Proof.
  unfold B.disable_input. destruct (nth_error (B.b_muxes b) m); [|intros H; inversion H; reflexivity].
  destruct (nth_error (B.mx_en m0) i) as [[|]|]; destruct (nth_error (B.mx_ins m0) i); intros H; inversion H; reflexivity.
Qed.
Lemma enable_err b m i e : B.enable_input b m i = Err e -> e = B.E_WIRING.
Proof.
  unfold B.enable_input. destruct (nth_error (B.b_muxes b) m); [|intros H; inversion H; reflexivity].
  destruct (nth_error (B.mx_en m0) i) as [[|]|]; destruct (nth_error (B.mx_ins m0) i); intros H; inversion H; reflexivity.
Qed.
Lemma disable_oob b m x i : nth_error (B.b_muxes b) m = Some x -> (length (B.mx_ins x) <= i)%nat -> B.disable_input b m i = Err B.E_WIRING.
Proof.
  intros H Hi. unfold B.disable_input. rewrite H. apply nth_error_None in Hi. rewrite Hi. destruct (nth_error (B.mx_en x) i); reflexivity.
Qed.
Lemma enable_oob b m x i : nth_error (B.b_muxes b) m = Some x -> (length (B.mx_ins x) <= i)%nat -> B.enable_input b m i = Err B.E_WIRING.
Proof.
  intros H Hi. unfold B.enable_input. rewrite H. apply nth_error_None in Hi. rewrite Hi. destruct (nth_error (B.mx_en x) i); reflexivity.
Qed.

Lemma in_inputs_nat sx st m x (i : nat) : me_m sx = m -> Has (ms_bay st) m x ->
  in_inputs sx st (Z.of_nat i) = Nat.ltb i (length (B.mx_ins x)).
Proof.
  intros Hm H. destruct (Has_fields sx st m x Hm H) as (_ & _ & _ & _ & E & _). unfold in_inputs. rewrite E.
  destruct (Nat.ltb_spec i (length (B.mx_ins x))).
  - apply andb_true_iff. split; [apply Z.leb_le; lia|apply Z.ltb_lt; lia].
  - apply andb_false_iff. right. apply Z.ltb_ge. lia.
Qed.

(* ---------------------------------------------------------------- select_input = run_select *)

Lemma select_input_eq sx st m x key : me_m sx = m -> me_custom sx = custom_of x -> Has (ms_bay st) m x ->
  with_out_pinput (Mux_gen.select_input (Some tt) (inj key)) sx st =
  match B.run_select_in (ms_bay st) x key with
  | Ok o => Ok (option_map Z.of_nat o, {| ms_bay := ms_bay st; ms_isel := ms_isel st; ms_cell := option_map Z.of_nat o |})
  | Err _ => Err E_FAIL
  end.
Proof.
  intros Hm Hc H. unfold with_out_pinput, Mux_gen.select_input. munf. cbn [is_null negb].
  set (st0 := {| ms_bay := ms_bay st; ms_isel := ms_isel st; ms_cell := None |}).
  assert (H0 : Has (ms_bay st0) m x) by exact H.
  destruct (Has_fields sx st0 m x Hm H0) as (_ & _ & Ef & _ & Ei & _).
  unfold get_mux_select_func at 1. rewrite Ef.
  destruct (B.mx_fun x) eqn:Efun; cbn [is_null].
  - rewrite default_select_eq, Ei. unfold B.run_select_in. rewrite Efun.
    destruct (B.run_select B.SelDefault (length (B.mx_ins x)) key) as [o|]; reflexivity.
  - unfold call_select_func, get_mux_select_func. rewrite Ef, Hc. unfold custom_of. rewrite uninj_inj. cbn [ms_bay st0].
    destruct (B.run_select_in (ms_bay st) x key) as [o|]; reflexivity.
  - unfold call_select_func, get_mux_select_func. rewrite Ef, Hc. unfold custom_of. rewrite uninj_inj. cbn [ms_bay st0].
    destruct (B.run_select_in (ms_bay st) x key) as [o|]; reflexivity.
  - unfold call_select_func, get_mux_select_func. rewrite Ef, Hc. unfold custom_of. rewrite uninj_inj. cbn [ms_bay st0].
    destruct (B.run_select_in (ms_bay st) x key) as [o|]; reflexivity.
Qed.

(* ---------------------------------------------------------------- the custom select functions of thread.c *)

(* (enum thread_state) value.i keeps the low 32 bits: the state values the emulator writes are small *)
Definition small_key (key : value) : Prop := match key with Some z => 0 <= z < 2 ^ 32 | None => True end.

Lemma cast_u32_small z : 0 <= z < 2 ^ 32 -> cast_uint32 z = z.
Proof. intros H. unfold cast_uint32, wrapu. apply Z.mod_small. exact H. Qed.

Lemma thread_select_eq (running : bool) sx st key : small_key key ->
  with_out_pinput ((if running then Mux_gen.thread_select_running else Mux_gen.thread_select_active) (Some tt) (inj key)) sx st =
  match B.run_select (if running then B.SelRunning else B.SelActive) (length (B.mx_ins (mx sx st))) key with
  | Ok o => Ok (option_map Z.of_nat o, {| ms_bay := ms_bay st; ms_isel := ms_isel st; ms_cell := option_map Z.of_nat o |})
  | Err _ => Err E_FAIL
  end.
Proof.
  intros Hk. unfold with_out_pinput. destruct key as [z|]; cbn [inj B.run_select].
  2:{ destruct running; reflexivity. }
  cbn [small_key] in Hk.
  unfold get_mux_ninputs, mx, the_mux. cbn [ms_bay].
  set (N := length (B.mx_ins match nth_error (B.b_muxes (ms_bay st)) (me_m sx) with Some m => m | None => dmux end)).
  destruct running; [unfold Mux_gen.thread_select_running|unfold Mux_gen.thread_select_active]; munf;
    unfold fld_cvalue_type, fld_cvalue_i, get_mux_ninputs, mx, the_mux; cbn [vt vi ms_bay]; fold N;
    change (1 =? Mux_gen.c_VALUE_NULL) with false; change (negb (1 =? Mux_gen.c_VALUE_INT64)) with false; cbn iota;
    cbn [is_null negb]; rewrite (cast_u32_small z Hk);
    (replace (Z.of_nat N =? 1) with (Nat.eqb N 1)
       by (destruct (Nat.eqb_spec N 1) as [E|E]; [rewrite E; reflexivity|symmetry; apply Z.eqb_neq; lia]));
    destruct (Nat.eqb N 1); cbn [negb]; try reflexivity.
  - change (cast_uint32 Mux_gen.c_TH_ST_RUNNING) with 1. destruct (z =? 1); reflexivity.
  - change (cast_uint32 Mux_gen.c_TH_ST_RUNNING) with 1. change (cast_uint32 Mux_gen.c_TH_ST_COOLING) with 4. change (cast_uint32 Mux_gen.c_TH_ST_WARMING) with 5.
    destruct (z =? 1); [reflexivity|]. destruct (z =? 4); [reflexivity|]. destruct (z =? 5); reflexivity.
Qed.

(* ---------------------------------------------------------------- chan_set / chan_read as primitives *)

Lemma chan_set_err b c v e ch0 : nth_error (B.b_chans b) c = Some ch0 -> B.chan_set b c v = Err e -> Nat.eqb e B.E_WIRING = false.
Proof.
  intros Hc. unfold B.chan_set. rewrite Hc. destruct (B.c_stack ch0); [intros H; inversion H; reflexivity|].
  destruct (B.c_dirty ch0 && negb (B.c_dw ch0)); [intros H; inversion H; reflexivity|].
  unfold B.dup_check. destruct (negb (B.c_allow ch0) && value_eqb (B.c_last ch0) v).
  - destruct (B.c_ign ch0); intros H; inversion H; reflexivity.
  - unfold B.mark_dirty. cbn [B.c_dirty B.with_val B.c_dw]. destruct (B.c_dirty ch0); [|discriminate].
    destruct (B.c_dw ch0); [discriminate|intros H; inversion H; reflexivity].
Qed.

Lemma chan_set_prim sx st c v :
  cb_rel (B.chan_set (ms_bay st) c v) (exec (chan_set (Some c) (inj v)) sx st).
Proof.
  unfold cb_rel, exec, chan_set. rewrite uninj_inj.
  destruct (nth_error (B.b_chans (ms_bay st)) c) as [ch0|] eqn:Hc.
  - destruct (B.chan_set (ms_bay st) c v) as [b'|e] eqn:E.
    + eexists. split; reflexivity.
    + rewrite (chan_set_err _ _ _ _ _ Hc E). reflexivity.
  - unfold B.chan_set. rewrite Hc. reflexivity.
Qed.

Lemma read_chan_prim sx st c :
  chan_read (Some c) sx st = match B.read_chan (ms_bay st) c with Ok v => Ok (inj v, st) | Err _ => Err E_TRAP end.
Proof. reflexivity. Qed.

Lemma read_chan_err b c e : B.read_chan b c = Err e -> e = B.E_WIRING.
Proof. unfold B.read_chan. destruct (nth_error (B.b_chans b) c); intros H; inversion H; reflexivity. Qed.

(* ---------------------------------------------------------------- cb_input *)

Theorem cb_input_from_source b m x i ic isel cell :
  nth_error (B.b_muxes b) m = Some x -> nth_error (B.mx_ins x) i = Some ic ->
  cb_rel (B.cb_input b m i)
         (exec (Mux_gen.cb_input (Some ic) (Some (VInput (Z.of_nat i)))) (env_of m x) {| ms_bay := b; ms_isel := isel; ms_cell := cell |}).
Proof.
  intros Hm Hi. set (sx := env_of m x). set (st := {| ms_bay := b; ms_isel := isel; ms_cell := cell |}).
  assert (H : Has (ms_bay st) m x) by (apply Has_refl; exact Hm).
  destruct (Has_fields sx st m x eq_refl H) as (_ & Eo & _ & _ & Ei & _).
  unfold B.cb_input. rewrite Hm, Hi.
  unfold Mux_gen.cb_input. munf. cbn [ptr_input_of_void]. rewrite read_chan_prim. cbn [ms_bay st].
  destruct (B.read_chan b ic) as [v|e] eqn:Er.
  2:{ rewrite (read_chan_err _ _ _ Er). reflexivity. }
  cbn [is_null negb]. unfold get_mux_input_output.
  rewrite (in_inputs_nat sx st m x i eq_refl H).
  assert (Hlt : Nat.ltb i (length (B.mx_ins x)) = true) by (apply Nat.ltb_lt; apply (BayBasics.nth_error_Some_lt _ _ _ Hi)).
  rewrite Hlt, Eo.
  pose proof (chan_set_prim sx st (B.mx_out x) v) as K. unfold cb_rel, exec in K. cbn [ms_bay st] in K.
  unfold cb_rel. destruct (B.chan_set b (B.mx_out x) v) as [b'|e].
  - destruct K as (st' & K1 & K2). destruct (chan_set (Some (B.mx_out x)) (inj v) sx st) as [[u s]|]; [|discriminate].
    inversion K1; subst. eexists. split; reflexivity.
  - destruct (Nat.eqb e B.E_WIRING); destruct (chan_set (Some (B.mx_out x)) (inj v) sx st) as [[u s]|]; try discriminate; inversion K; reflexivity.
Qed.

(* ---------------------------------------------------------------- cb_select *)

Lemma Has_set_selected b m x s : Has b m x -> Has (B.set_selected b m s) m x.
Proof. intros H. apply (Has_skel b); [apply BayBasics.skel_set_selected|exact H]. Qed.

Lemma set_mux_selected_run sx st m x v : me_m sx = m -> Has (ms_bay st) m x ->
  set_mux_selected (Some tt) v sx st =
  Ok (tt, with_bay st (B.set_selected (ms_bay st) m (if v sx st <? 0 then None else Some (Z.to_nat (v sx st))))).
Proof.
  intros Hm H. unfold set_mux_selected. destruct (Has_fields sx st m x Hm H) as (_ & _ & _ & _ & _ & Hn).
  destruct (the_mux sx st); [rewrite Hm; reflexivity|congruence].
Qed.

(* the second half of cb_select: select the new input, enable its callback, write the output *)
Definition second_half_B (b1 : B.bay) (m : nat) (x : B.mux) (selv : value) : result B.bay :=
  match B.run_select_in b1 x selv with
  | Err e => Err e
  | Ok None => B.chan_set b1 (B.mx_out x) (B.mx_def x)
  | Ok (Some i) =>
    match B.enable_input b1 m i with
    | Err e => Err e
    | Ok b2 =>
      let b3 := B.set_selected b2 m (Some i) in
      match nth_error (B.mx_ins x) i with
      | None => Err B.E_WIRING
      | Some ic => match B.read_chan b3 ic with Err e => Err e | Ok v => B.chan_set b3 (B.mx_out x) v end
      end
    end
  end.

(* the second half of the generated cb_select, a sub-term of Mux_gen.cb_select (checked by cb_select_shape below) *)
Definition second_half_G (mux : ptr_mux) (sel_value : cvalue) : M unit :=
  (bind (eval (fun sx st => (None : ptr_input))) (fun input =>
              bind (with_out_pinput (Mux_gen.select_input mux sel_value)) (fun input =>
                ite (fun sx st => (negb (is_null input)))
                (bind_ (need (fun sx st => (negb (is_null input)))
                    (bind (eval (fun sx st => (get_mux_input_cb sx st input))) (fun a1_ =>
                        (bay_enable_cb a1_))))
                  (bind_ (set_mux_input_selected input (fun sx st => (1)))
                    ((need (fun sx st => (negb (is_null input)))
                        (bind_ (set_mux_selected mux (fun sx st => (get_mux_input_index sx st input)))
                          ((need (fun sx st => (negb (is_null mux)))
                              (bind (eval (fun sx st => (get_mux_def sx st mux))) (fun out_value =>
                                  bind (ite_out (fun sx st => (negb (is_null input))) ((need (fun sx st => (negb (is_null input)))
                                        (bind (eval (fun sx st => (get_mux_input_chan sx st input))) (fun a1_ =>
                                            (chan_read a1_))))) out_value) (fun out_value =>
                                    bind_ (need (fun sx st => (negb (is_null mux)))
                                      (bind (eval (fun sx st => (get_mux_output sx st mux))) (fun a1_ =>
                                          (chan_set a1_ out_value))))
                                    (ret tt)))))))))))
                ((need (fun sx st => (negb (is_null mux)))
                    (bind (eval (fun sx st => (get_mux_def sx st mux))) (fun out_value =>
                        bind (ite_out (fun sx st => (negb (is_null input))) ((need (fun sx st => (negb (is_null input)))
                              (bind (eval (fun sx st => (get_mux_input_chan sx st input))) (fun a1_ =>
                                  (chan_read a1_))))) out_value) (fun out_value =>
                          bind_ (need (fun sx st => (negb (is_null mux)))
                            (bind (eval (fun sx st => (get_mux_output sx st mux))) (fun a1_ =>
                                (chan_set a1_ out_value))))
                          (ret tt))))))))).

Lemma cb_select_shape sel_chan ptr :
  Mux_gen.cb_select sel_chan ptr =
  bind (eval (fun sx st => (ptr_mux_of_void ptr))) (fun mux =>
    bind (chan_read sel_chan) (fun sel_value =>
      (need (fun sx st => (negb (is_null mux)))
        (ite (fun sx st => (Z.geb (get_mux_selected sx st mux) (0)))
          ((need (fun sx st => (andb (negb (is_null mux)) (negb (is_null mux))))
              (bind (eval (fun sx st => (addr_mux_inputs_at mux (get_mux_selected sx st mux)))) (fun old_input =>
                  bind_ (need (fun sx st => (negb (is_null old_input)))
                    (bind (eval (fun sx st => (get_mux_input_cb sx st old_input))) (fun a1_ =>
                        (bay_disable_cb a1_))))
                  (bind_ (set_mux_input_selected old_input (fun sx st => (0)))
                    (bind_ (set_mux_selected mux (fun sx st => (- (1))))
                      (second_half_G mux sel_value)))))))
          (second_half_G mux sel_value))))).
Proof. reflexivity. Qed.

Lemma run_select_err f n v e : B.run_select f n v = Err e -> Nat.eqb e B.E_WIRING = false.
Proof.
  unfold B.run_select. destruct v as [z|]; [|discriminate]. destruct f.
  - destruct ((z <? 0) || (Z.of_nat n <=? z)); intros H; inversion H; reflexivity.
  - destruct (negb (Nat.eqb n 1)); intros H; inversion H; reflexivity.
  - destruct (negb (Nat.eqb n 1)); intros H; inversion H; reflexivity.
  - intros H; inversion H; reflexivity.
Qed.

Lemma run_select_in_err b x v e : B.run_select_in b x v = Err e -> Nat.eqb e B.E_WIRING = false.
Proof.
  unfold B.run_select_in. destruct (B.mx_fun x) as [| | |g]; try apply run_select_err.
  destruct (g (B.input_values b x) v) as [[i|]|]; [|discriminate|intros H; inversion H; reflexivity].
  destruct (Nat.ltb i (length (B.mx_ins x))); intros H; inversion H; reflexivity.
Qed.

(* finishing with chan_set on the output *)
Lemma finish_chan_set sx st c v r :
  r = B.chan_set (ms_bay st) c v ->
  cb_rel r (match (match chan_set (Some c) (inj v) sx st with Ok (_, s) => Ok (tt, s) | Err e => Err e end) with
            | Ok (_, s) => Ok s | Err e => Err e end).
Proof.
  intros ->. pose proof (chan_set_prim sx st c v) as K. unfold cb_rel, exec in *.
  destruct (B.chan_set (ms_bay st) c v) as [b'|e].
  - destruct K as (st' & K1 & K2). destruct (chan_set (Some c) (inj v) sx st) as [[u s]|]; [|discriminate]. inversion K1; subst. eexists. split; reflexivity.
  - destruct (Nat.eqb e B.E_WIRING); destruct (chan_set (Some c) (inj v) sx st) as [[u s]|]; try discriminate; inversion K; reflexivity.
Qed.

Lemma second_half_eq sx st m x selv : me_m sx = m -> me_custom sx = custom_of x -> Has (ms_bay st) m x ->
  cb_rel (second_half_B (ms_bay st) m x selv) (exec (second_half_G (Some tt) (inj selv)) sx st).
Proof.
  intros Hm Hc H. unfold second_half_B, second_half_G, exec.
  unfold bind at 1. unfold eval at 1. unfold bind at 1.
  rewrite (select_input_eq sx st m x selv Hm Hc H).
  destruct (B.run_select_in (ms_bay st) x selv) as [[i|]|e] eqn:Es.
  - (* an input is selected *)
    pose proof (BayMux.run_select_in_lt _ _ _ _ Es) as Hlt. cbn [option_map].
    set (st1 := {| ms_bay := ms_bay st; ms_isel := ms_isel st; ms_cell := Some (Z.of_nat i) |}).
    assert (H1 : Has (ms_bay st1) m x) by exact H.
    munf. cbn [is_null negb]. unfold get_mux_input_cb, bay_enable_cb.
    rewrite (in_inputs_nat sx st1 m x i Hm H1). replace (Nat.ltb i (length (B.mx_ins x))) with true by (symmetry; apply Nat.ltb_lt; exact Hlt).
    rewrite Nat2Z.id, Hm. cbn [ms_bay st1].
    destruct (B.enable_input (ms_bay st) m i) as [b2|e] eqn:Ee; cbn [lift_bay].
    2:{ rewrite (enable_err _ _ _ _ Ee). reflexivity. }
    assert (H2 : Has b2 m x) by (apply (Has_skel (ms_bay st)); [apply (BayBasics.skel_enable_input _ _ _ _ Ee)|exact H]).
    set (st2 := with_bay st1 b2).
    unfold set_mux_input_selected. rewrite (in_inputs_nat sx st2 m x i Hm H2).
    replace (Nat.ltb i (length (B.mx_ins x))) with true by (symmetry; apply Nat.ltb_lt; exact Hlt).
    match goal with |- context [set_mux_selected (Some tt) ?v sx ?s] => set (st3 := s); set (vv := v) end.
    assert (H3 : Has (ms_bay st3) m x) by exact H2.
    rewrite (set_mux_selected_run sx st3 m x vv Hm H3). unfold vv, get_mux_input_index.
    replace (Z.of_nat i <? 0) with false by (symmetry; apply Z.ltb_ge; lia). rewrite Nat2Z.id.
    cbn [ms_bay st3 st2 with_bay].
    set (b3 := B.set_selected b2 m (Some i)).
    set (st4 := with_bay st3 b3).
    assert (H4 : Has (ms_bay st4) m x) by (apply Has_set_selected; exact H2).
    destruct (Has_fields sx st4 m x Hm H4) as (_ & Eo & _ & Ed & Ei & _).
    unfold get_mux_input_chan. rewrite Ei.
    rewrite (in_inputs_nat sx st4 m x i Hm H4). replace (Nat.ltb i (length (B.mx_ins x))) with true by (symmetry; apply Nat.ltb_lt; exact Hlt).
    rewrite Nat2Z.id.
    destruct (nth_error (B.mx_ins x) i) as [ic|] eqn:Eic.
    2:{ apply nth_error_None in Eic. lia. }
    rewrite read_chan_prim. change (ms_bay st4) with b3.
    destruct (B.read_chan b3 ic) as [v|e] eqn:Er.
    2:{ rewrite (read_chan_err _ _ _ Er). reflexivity. }
    unfold get_mux_output. rewrite Eo.
    apply finish_chan_set. reflexivity.
  - (* nothing selected: the default *)
    cbn [option_map].
    set (st1 := {| ms_bay := ms_bay st; ms_isel := ms_isel st; ms_cell := None |}).
    assert (H1 : Has (ms_bay st1) m x) by exact H.
    destruct (Has_fields sx st1 m x Hm H1) as (_ & Eo & _ & Ed & _ & _).
    munf. cbn [is_null negb]. unfold get_mux_def, get_mux_output. rewrite Ed, Eo.
    apply finish_chan_set. reflexivity.
  - unfold cb_rel. rewrite (run_select_in_err _ _ _ _ Es). reflexivity.
Qed.

Lemma cb_select_B_tail b m x :
  nth_error (B.b_muxes b) m = Some x -> B.mx_init x = true ->
  B.cb_select b m =
  match B.read_chan b (B.mx_sel x) with
  | Err e => Err e
  | Ok selv =>
    match (match B.mx_selected x with
           | Some old => match B.disable_input b m old with Ok b1 => Ok (B.set_selected b1 m None) | Err e => Err e end
           | None => Ok b
           end) with
    | Err e => Err e
    | Ok b1 => second_half_B b1 m x selv
    end
  end.
Proof.
  intros Hm Hi. unfold B.cb_select, second_half_B. rewrite Hm, Hi. cbn [negb].
  destruct (B.read_chan b (B.mx_sel x)) as [selv|]; [|reflexivity].
  destruct (match B.mx_selected x with
            | Some old => match B.disable_input b m old with Ok b1 => Ok (B.set_selected b1 m None) | Err e => Err e end
            | None => Ok b end) as [b1|]; [|reflexivity].
  destruct (B.run_select_in b1 x selv) as [[i|]|]; reflexivity.
Qed.

Theorem cb_select_from_source b m x isel cell :
  nth_error (B.b_muxes b) m = Some x -> B.mx_init x = true ->
  cb_rel (B.cb_select b m)
         (exec (Mux_gen.cb_select (Some (B.mx_sel x)) (Some VMux)) (env_of m x) {| ms_bay := b; ms_isel := isel; ms_cell := cell |}).
Proof.
  intros Hm Hinit. set (sx := env_of m x). set (st := {| ms_bay := b; ms_isel := isel; ms_cell := cell |}).
  assert (H : Has (ms_bay st) m x) by (apply Has_refl; exact Hm).
  assert (Emx : mx sx st = x) by (unfold mx, the_mux; cbn [me_m sx env_of ms_bay st]; rewrite Hm; reflexivity).
  rewrite (cb_select_B_tail b m x Hm Hinit), cb_select_shape.
  unfold exec. unfold bind at 1. unfold eval at 1. cbn [ptr_mux_of_void]. unfold bind at 1. rewrite read_chan_prim. cbn [ms_bay st].
  destruct (B.read_chan b (B.mx_sel x)) as [selv|e] eqn:Er.
  2:{ unfold cb_rel. rewrite (read_chan_err _ _ _ Er). reflexivity. }
  unfold need at 1. cbn [is_null negb]. unfold ite at 1. unfold get_mux_selected at 1. rewrite Emx.
  destruct (B.mx_selected x) as [old|] eqn:Esel.
  - replace (Z.of_nat old >=? 0) with true by (symmetry; rewrite Z.geb_leb; apply Z.leb_le; lia).
    unfold need at 1. cbn [is_null negb andb]. unfold bind at 1. unfold eval at 1. unfold get_mux_selected. rewrite ?Emx, ?Esel.
    cbn [addr_mux_inputs_at]. unfold bind_ at 1. unfold bind at 1. unfold need at 1. cbn [is_null negb].
    unfold bind at 1. unfold eval at 1. unfold get_mux_input_cb, bay_disable_cb.
    rewrite (in_inputs_nat sx st m x old eq_refl H).
    destruct (Nat.ltb old (length (B.mx_ins x))) eqn:Elt.
    2:{ apply Nat.ltb_ge in Elt. rewrite (disable_oob b m x old Hm Elt). reflexivity. }
    rewrite Nat2Z.id. cbn [me_m sx env_of ms_bay st].
    destruct (B.disable_input b m old) as [b0|e] eqn:Ed; cbn [lift_bay].
    2:{ unfold cb_rel. rewrite (disable_err _ _ _ _ Ed). reflexivity. }
    assert (H0 : Has b0 m x) by (apply (Has_skel b); [apply (BayBasics.skel_disable_input _ _ _ _ Ed)|exact H]).
    set (st0 := with_bay st b0).
    unfold bind_ at 1. unfold bind at 1. unfold set_mux_input_selected. rewrite (in_inputs_nat sx st0 m x old eq_refl H0), Elt.
    unfold bind_ at 1. unfold bind at 1.
    match goal with |- context [set_mux_selected (Some tt) ?v sx ?s] => set (st1 := s); set (vv := v) end.
    assert (H1 : Has (ms_bay st1) m x) by exact H0.
    rewrite (set_mux_selected_run sx st1 m x vv eq_refl H1). unfold vv. change (- (1) <? 0) with true. cbn iota.
    cbn [ms_bay st1 st0 with_bay].
    match goal with |- context [second_half_G (Some tt) (inj selv) sx ?s] => set (st2 := s) end.
    assert (H2 : Has (ms_bay st2) m x) by (apply Has_set_selected; exact H0).
    apply (second_half_eq sx st2 m x selv eq_refl eq_refl H2).
  - change (-1 >=? 0) with false. cbn iota.
    apply (second_half_eq sx st m x selv eq_refl eq_refl H).
Qed.

(* cb_reselect (mux_add_reselect): the select callback run from another channel *)
Theorem cb_reselect_from_source b m x c isel cell :
  nth_error (B.b_muxes b) m = Some x -> B.mx_init x = true ->
  cb_rel (B.run_dcb b (B.DReselect m))
         (exec (Mux_gen.cb_reselect (Some c) (Some VMux)) (env_of m x) {| ms_bay := b; ms_isel := isel; ms_cell := cell |}).
Proof.
  intros Hm Hinit. cbn [B.run_dcb].
  pose proof (cb_select_from_source b m x isel cell Hm Hinit) as K.
  unfold Mux_gen.cb_reselect. unfold exec, bind, eval, need in *. cbn [ptr_mux_of_void is_null negb void_of_ptr_mux].
  unfold get_mux_select, mx, the_mux. cbn [me_m env_of ms_bay]. rewrite Hm. exact K.
Qed.

(* all in one *)
Theorem mux_callbacks_from_source b m x isel cell :
  nth_error (B.b_muxes b) m = Some x -> B.mx_init x = true ->
  let sx := env_of m x in
  let st := {| ms_bay := b; ms_isel := isel; ms_cell := cell |} in
  cb_rel (B.run_dcb b (B.DSelect m)) (exec (Mux_gen.cb_select (Some (B.mx_sel x)) (Some VMux)) sx st) /\
  (forall c, cb_rel (B.run_dcb b (B.DReselect m)) (exec (Mux_gen.cb_reselect (Some c) (Some VMux)) sx st)) /\
  (forall i ic, nth_error (B.mx_ins x) i = Some ic ->
                cb_rel (B.run_dcb b (B.DInput m i)) (exec (Mux_gen.cb_input (Some ic) (Some (VInput (Z.of_nat i)))) sx st)) /\
  (forall key, Mux_gen.default_select (Some tt) (inj key) (Some tt) sx st =
               match B.run_select B.SelDefault (length (B.mx_ins x)) key with
               | Ok o => Ok (tt, {| ms_bay := b; ms_isel := isel; ms_cell := option_map Z.of_nat o |})
               | Err _ => Err E_FAIL
               end).
Proof.
  intros Hm Hinit sx st. split; [apply cb_select_from_source; assumption|].
  split; [intros c; apply cb_reselect_from_source; assumption|].
  split; [intros i ic Hi; apply (cb_input_from_source b m x i ic); assumption|].
  intros key. rewrite default_select_eq. unfold mx, the_mux. cbn [me_m sx env_of ms_bay st]. rewrite Hm. reflexivity.
Qed.
