(* C14: the generated version_parse (Gen/VParse_gen.v, unit vparse) = Emu/VersionDefs.version_parse for every string; the
   generated model_version_probe = the enable rule of VersionDefs over the threads' requirements. *)
From OV Require Import Base.CInt Emu.VersionDefs Rt.RtMetaDefs Emu.VParsePre Gen.VParse_gen Gen.Version_gen.
From OV Require Emu.MetaPre Gen.Meta_gen Proofs.MetaGenProofs.
From Coq Require Import ZifyBool.
Local Open Scope Z_scope.
Ltac Zify.zify_post_hook ::= Z.div_mod_to_equations.

(* a C string holds no NUL byte *)
Definition nonul (s : list Z) : Prop := forall c, In c s -> c <> 0.

Lemma skip_delims_in d s c : In c (skip_delims d s) -> In c s.
Proof. induction s as [|x s IH]; cbn [skip_delims]; [tauto|]. destruct (mem x d); cbn [In]; tauto. Qed.
Lemma skip_delims_len d s : (length (skip_delims d s) <= length s)%nat.
Proof. induction s as [|x s IH]; cbn [skip_delims length]; [lia|]. destruct (mem x d); cbn [length]; lia. Qed.
Lemma take_token_in d s : forall t r, take_token d s = (t, r) -> (forall c, In c t -> In c s) /\ (forall c, In c r -> In c s).
Proof.
  induction s as [|x s IH]; intros t r; cbn [take_token].
  - intros H. injection H as <- <-. split; intros c []. 
  - destruct (mem x d).
    + intros H. injection H as <- <-. split; [intros c []|intros c Hc; right; exact Hc].
    + destruct (take_token d s) as [t' r'] eqn:E. intros H. injection H as <- <-. destruct (IH t' r' eq_refl) as [A B]. split.
      * intros c [Hc|Hc]; [left; exact Hc|right; apply A; exact Hc].
      * intros c Hc. right. apply B. exact Hc.
Qed.
Lemma skip_space_in s c : In c (skip_space s) -> In c s.
Proof. induction s as [|x s IH]; cbn [skip_space]; [tauto|]. destruct (is_space x); cbn [In]; tauto. Qed.
Lemma skip_space_len s : (length (skip_space s) <= length s)%nat.
Proof. induction s as [|x s IH]; cbn [skip_space length]; [lia|]. destruct (is_space x); cbn [length]; lia. Qed.
Lemma strip_sign_in s c : In c (snd (strip_sign s)) -> In c s.
Proof. destruct s as [|x s]; cbn [strip_sign snd]; [tauto|]. destruct (x =? 45); [cbn [snd In]; tauto|]. destruct (x =? 43); cbn [snd In]; tauto. Qed.
Lemma strip_sign_len s : (length (snd (strip_sign s)) <= length s)%nat.
Proof. destruct s as [|x s]; cbn [strip_sign snd length]; [lia|]. destruct (x =? 45); [cbn [snd length]; lia|]. destruct (x =? 43); cbn [snd length]; lia. Qed.
Lemma span_digits_spec s : forall ds rest, span_digits s = (ds, rest) -> length s = (length ds + length rest)%nat /\ (forall c, In c rest -> In c s).
Proof.
  induction s as [|x s IH]; intros ds rest; cbn [span_digits].
  - intros H. injection H as <- <-. split; [reflexivity|tauto].
  - destruct (is_digit x).
    + destruct (span_digits s) as [d' r'] eqn:E. intros H. injection H as <- <-. destruct (IH d' r' eq_refl) as [A B]. split; [cbn [length]; lia|].
      intros c Hc. right. apply B. exact Hc.
    + intros H. injection H as <- <-. split; [reflexivity|tauto].
Qed.

(* ------------------------------------------------------------------ one round of the loop of version_parse *)
Definition round (str delim : cptr) (idx : Z) (k : M Z) : M Z :=
  bind (strtok_r_c str delim) (fun num =>
    ite (is_null num) (fail E_FAIL)
    (bind_ (set_errno 0)
      (bind (strtol_c num 10) (fun r =>
        bind get_errno (fun e =>
          ite (orb (orb (negb (Z.eqb e 0)) (ptr_eqb (snd r) num)) (negb (Z.eqb (char_at (snd r) 0) 0))) (fail E_FAIL)
          (ite (Z.ltb (fst r) 0) (fail E_FAIL)
            (ite (Z.gtb (fst r) 2147483647) (fail E_FAIL)
              (bind_ (set_tuple idx (cast_int32 (fst r))) k)))))))).

(* the generated function is: two guards, strcpy, three rounds (the loop unrolled by the translator) *)
Lemma version_parse_rounds version :
  VParse_gen.version_parse version tt =
  ite (is_null version) (fail E_FAIL)
  (ite (Z.geb (strlen_c version) 64) (fail E_FAIL)
    (bind (strcpy_c 64 version) (fun buf =>
      round buf (str_lit [46]) 0 (round None (str_lit [46]) 1 (round None (str_lit [46; 45]) 2 (ret 0)))))).
Proof. reflexivity. Qed.

Lemma round_spec str d idx k st a s :
  (str = Some (a, s) \/ (str = None /\ v_save st = Some (a, s))) -> nonul s -> 0 <= idx < 3 -> length (v_tuple st) = 3%nat ->
  match strtok d s with
  | None => round str (str_lit d) idx k st = VErr E_FAIL
  | Some (t, r) =>
    match parse_num t with
    | None => round str (str_lit d) idx k st = VErr E_FAIL
    | Some x => exists a', round str (str_lit d) idx k st = k (mkV 0 (Some (a', r)) (upd (v_tuple st) (Z.to_nat idx) x)) /\ nonul r
    end
  end.
Proof.
  intros Hstr Hn Hi Hl.
  assert (Hp : (match str with Some p => Some p | None => v_save st end) = Some (a, s)) by (destruct Hstr as [->|[-> ->]]; reflexivity).
  unfold strtok. unfold round, bind, strtok_r_c, str_lit. rewrite Hp.
  destruct (skip_delims d s) as [|c0 s'] eqn:Es; [reflexivity|].
  assert (Hn' : nonul (c0 :: s')) by (intros c Hc; apply Hn; apply (skip_delims_in d); rewrite Es; exact Hc).
  destruct (take_token d (c0 :: s')) as [t r] eqn:Et.
  destruct (take_token_in d (c0 :: s') t r Et) as [Tin Rin].
  set (a' := a + (slen s - slen (c0 :: s'))).
  set (st1 := with_save st (Some ((if slen t <? slen (c0 :: s') then a' + slen t + 1 else a' + slen t), r))).
  cbn [is_null ite]. unfold bind_, bind, set_errno, strtol_c. change (negb (10 =? 10)) with false. cbv beta iota.
  unfold parse_num.
  destruct (strip_sign (skip_space t)) as [neg s1] eqn:Ess.
  destruct (span_digits s1) as [ds rest] eqn:Esd.
  destruct (span_digits_spec s1 ds rest Esd) as [Len Rest_in].
  assert (Ls1 : (length s1 <= length t)%nat).
  { pose proof (strip_sign_len (skip_space t)) as A. rewrite Ess in A. cbn [snd] in A. pose proof (skip_space_len t). lia. }
  destruct ds as [|d0 ds'].
  - (* no digit: endptr == num *)
    unfold ret, get_errno. cbn [v_errno fst snd ptr_eqb]. rewrite !Z.eqb_refl. cbn [negb orb ite]. reflexivity.
  - assert (Hrest : nonul rest).
    { intros c Hc. apply Hn'. apply Tin. apply skip_space_in. pose proof (strip_sign_in (skip_space t) c) as A. rewrite Ess in A. apply A. apply Rest_in. exact Hc. }
    set (v := if neg then - digits_value (d0 :: ds') else digits_value (d0 :: ds')).
    assert (Hne : (a' + (slen t - slen rest) =? a') = false) by (unfold slen; cbn [length] in Len; lia).
    fold v.
    destruct rest as [|c1 rest'].
    + (* the token is all digits *)
      destruct (v >? LONG_MAX) eqn:E1.
      * cbn [orb]. unfold bind_, bind, set_errno, ret, get_errno. cbn [v_errno fst snd]. change (negb (ERANGE =? 0)) with true. cbn [orb ite]. reflexivity.
      * destruct (v <? LONG_MIN) eqn:E2.
        -- cbn [orb]. unfold bind_, bind, set_errno, ret, get_errno. cbn [v_errno fst snd]. change (negb (ERANGE =? 0)) with true. cbn [orb ite]. reflexivity.
        -- cbn [orb]. unfold ret, get_errno. cbn [v_errno fst snd ptr_eqb]. rewrite Hne. change (0 =? 0) with true. cbn [negb orb].
           cbn [char_at]. change (0 <? 0) with false. cbv beta iota. cbn [Z.to_nat nth]. change (0 =? 0) with true. cbn [negb ite].
           destruct (v <? 0) eqn:E3; cbn [ite]; [reflexivity|].
           assert (EI : (v >? 2147483647) = (v >? INT_MAX)) by reflexivity. rewrite EI.
           destruct (v >? INT_MAX) eqn:E4; cbn [ite]; [reflexivity|].
           unfold bind_, bind, set_tuple. cbn [v_tuple v_errno v_save]. unfold st1, with_save. cbn [v_tuple v_errno v_save]. unfold slen at 1. rewrite Hl.
           replace ((0 <=? idx) && (idx <? Z.of_nat 3)) with true by lia.
           assert (Hc : cast_int32 v = v) by (apply wraps_small; unfold INT_MAX in E4; lia). rewrite Hc.
           eexists. split; [reflexivity|]. intros c Hc'. apply Hn'. apply Rin. exact Hc'.
    + (* something follows the digits: endptr[0] != 0 *)
      assert (c1 <> 0) by (apply Hrest; left; reflexivity).
      destruct (v >? LONG_MAX) eqn:E1.
      * unfold bind_, bind, set_errno, ret, get_errno. cbn [v_errno fst snd]. change (negb (ERANGE =? 0)) with true. cbn [orb ite]. reflexivity.
      * destruct (v <? LONG_MIN) eqn:E2.
        -- unfold bind_, bind, set_errno, ret, get_errno. cbn [v_errno fst snd]. change (negb (ERANGE =? 0)) with true. cbn [orb ite]. reflexivity.
        -- unfold ret, get_errno. cbn [v_errno fst snd ptr_eqb char_at]. change (0 <? 0) with false. cbv beta iota. cbn [Z.to_nat nth].
           replace (negb (c1 =? 0)) with true by lia. rewrite !orb_true_r. cbn [ite]. reflexivity.
Qed.

Lemma bind_ret_app {A B} (x : A) (f : A -> M B) st : bind (ret x) f st = f x st.
Proof. reflexivity. Qed.

(* ------------------------------------------------------------------ C14_version_parse_from_source *)
Theorem version_parse_from_source : forall (p : cptr) st,
  (forall a s, p = Some (a, s) -> nonul s) ->
  match VersionDefs.version_parse (cstr p) with
  | Some l => exists e, out_tuple (VParse_gen.version_parse p tt) st = VOk (l, mkV e (v_save st) (v_tuple st))
  | None => out_tuple (VParse_gen.version_parse p tt) st = VErr E_FAIL
  end.
Proof.
  intros p st Hn. unfold out_tuple. rewrite version_parse_rounds.
  destruct p as [[a s]|]; [|reflexivity]. specialize (Hn a s eq_refl).
  cbn [cstr is_null ite strlen_c VersionDefs.version_parse]. rewrite Z.geb_leb. fold (slen s).
  destruct (64 <=? slen s) eqn:E64; cbn [ite]; [reflexivity|].
  unfold strcpy_c. rewrite E64. rewrite bind_ret_app.
  set (st0 := mkV (v_errno st) None [0; 0; 0]).
  pose proof (round_spec (Some (BUF_ADDR, s)) [DOT] 0 (round None (str_lit [46]) 1 (round None (str_lit [46; 45]) 2 (ret 0))) st0 BUF_ADDR s
                (or_introl eq_refl) Hn ltac:(lia) eq_refl) as R0.
  change (str_lit [46]) with (str_lit [DOT]) in *. change (str_lit [46; 45]) with (str_lit [DOT; DASH]) in *.
  destruct (strtok [DOT] s) as [[t0 r0]|]; [|rewrite R0; reflexivity].
  destruct (parse_num t0) as [x|]; [|rewrite R0; reflexivity].
  destruct R0 as (a1 & -> & Hn1).
  set (st1 := mkV 0 (Some (a1, r0)) (upd (v_tuple st0) (Z.to_nat 0) x)).
  pose proof (round_spec None [DOT] 1 (round None (str_lit [DOT; DASH]) 2 (ret 0)) st1 a1 r0 (or_intror (conj eq_refl eq_refl)) Hn1 ltac:(lia) eq_refl) as R1.
  destruct (strtok [DOT] r0) as [[t1 r1]|]; [|rewrite R1; reflexivity].
  destruct (parse_num t1) as [y|]; [|rewrite R1; reflexivity].
  destruct R1 as (a2 & -> & Hn2).
  set (st2 := mkV 0 (Some (a2, r1)) (upd (v_tuple st1) (Z.to_nat 1) y)).
  pose proof (round_spec None [DOT; DASH] 2 (ret 0) st2 a2 r1 (or_intror (conj eq_refl eq_refl)) Hn2 ltac:(lia) eq_refl) as R2.
  destruct (strtok [DOT; DASH] r1) as [[t2 r2]|]; [|rewrite R2; reflexivity].
  destruct (parse_num t2) as [z|]; [|rewrite R2; reflexivity].
  destruct R2 as (a3 & -> & _).
  unfold ret. cbn. eexists. reflexivity.
Qed.

(* ------------------------------------------------------------------ model_version_probe *)
Definition req_of (m : MetaPre.ptr_jobj) : thread_req := match m with Some fs => to_thread_req (jobj fs) | None => None end.
Definition req_ok (m : MetaPre.ptr_jobj) : Prop :=
  forall fs r, m = Some fs -> pget fs [k_ovni; k_require] = Some (jobj r) -> nodup_keys (map fst r) = true.

Lemma should_enable_c_spec have spec an name m rest : sp_name spec = Some (an, name) -> req_ok m ->
  should_enable_c have spec (m :: rest) =
  MetaGenProofs.probe_code (VersionDefs.should_enable Version_gen.version_is_compatible have name (req_of m)).
Proof.
  intros Hn Hr. unfold should_enable_c. rewrite Hn. cbn [cstr hd].
  destruct m as [fs|]; [|reflexivity].
  apply MetaGenProofs.should_enable_from_source; [reflexivity|]. intros r P. exact (Hr fs r eq_refl P).
Qed.

Definition loop_body (have : list Z) (spec : ptr_spec) (t : ptr_thread) (enable : Z) : M Z :=
  let ret_ := should_enable_c have spec t in
  ite (Z.ltb ret_ 0) (fail E_FAIL) (let enable := if negb (Z.eqb ret_ 0) then 1 else enable in ret enable).

Lemma loop_spec have spec an name : sp_name spec = Some (an, name) ->
  forall l acc st, (acc = 0 \/ acc = 1) -> Forall req_ok l ->
  for_gnext_thread l acc (loop_body have spec) st =
  match probe_threads Version_gen.version_is_compatible have name (map req_of l) (acc =? 1) with
  | PErr => VErr E_FAIL
  | POff => VOk (0, st)
  | POn => VOk (1, st)
  end.
Proof.
  intros Hn. induction l as [|m l IH]; intros acc st Ha Hr; cbn [for_gnext_thread map probe_threads].
  - destruct Ha as [->| ->]; reflexivity.
  - inversion Hr as [|x y Hm Hl]; subst. unfold bind. unfold loop_body at 1.
    rewrite (should_enable_c_spec have spec an name m l Hn Hm).
    destruct (VersionDefs.should_enable Version_gen.version_is_compatible have name (req_of m)); cbn [MetaGenProofs.probe_code].
    + reflexivity.
    + cbv zeta. change (0 <? 0) with false. change (negb (0 =? 0)) with false. cbn [ite]. unfold ret at 1. apply IH; assumption.
    + cbv zeta. change (1 <? 0) with false. change (negb (1 =? 0)) with true. cbn [ite]. unfold ret at 1. rewrite (IH 1 st (or_intror eq_refl) Hl). reflexivity.
Qed.

Lemma probe_is_loop spec emu :
  VParse_gen.model_version_probe spec emu =
  bind (out_tuple (VParse_gen.version_parse (sp_version spec) tt)) (fun have =>
    ite (Z.geb (snprintf_c 128 (str_lit [37; 115; 46; 118; 101; 114; 115; 105; 111; 110]) [sp_name spec]) 128) (fail E_DIE)
      (bind (for_gnext_thread (e_threads emu) 0 (loop_body have spec)) (fun enable => ret enable))).
Proof. reflexivity. Qed.

Theorem model_version_probe_from_source : forall spec emu st an name av ver,
  sp_name spec = Some (an, name) -> sp_version spec = Some (av, ver) -> nonul ver -> slen name + 8 < 128 ->
  Forall req_ok (e_threads emu) ->
  match VersionDefs.model_version_probe Version_gen.version_is_compatible name ver (map req_of (e_threads emu)) with
  | PErr => VParse_gen.model_version_probe spec emu st = VErr E_FAIL
  | POff => exists e, VParse_gen.model_version_probe spec emu st = VOk (0, mkV e (v_save st) (v_tuple st))
  | POn => exists e, VParse_gen.model_version_probe spec emu st = VOk (1, mkV e (v_save st) (v_tuple st))
  end.
Proof.
  intros spec emu st an name av ver Hn Hv Hnn Hlen Hr.
  rewrite probe_is_loop. unfold VersionDefs.model_version_probe.
  pose proof (version_parse_from_source (sp_version spec) st) as P. rewrite Hv in P. cbn [cstr] in P.
  specialize (P (fun a s E => ltac:(injection E as <- <-; exact Hnn))). rewrite Hv.
  destruct (VersionDefs.version_parse (Some ver)) as [have|].
  - destruct P as (e & P).
    assert (S : snprintf_c 128 (str_lit [37; 115; 46; 118; 101; 114; 115; 105; 111; 110]) [sp_name spec] = slen name + 8).
    { rewrite Hn. unfold snprintf_c, str_lit. cbn [fmt_len Z.eqb Pos.eqb andb strlen_c]. lia. }
    set (st1 := mkV e (v_save st) (v_tuple st)) in *.
    assert (E : bind (out_tuple (version_parse (Some (av, ver)) tt))
                  (fun have0 => ite (snprintf_c 128 (str_lit [37; 115; 46; 118; 101; 114; 115; 105; 111; 110]) [sp_name spec] >=? 128) (fail E_DIE)
                     (bind (for_gnext_thread (e_threads emu) 0 (loop_body have0 spec)) (fun enable => ret enable))) st =
                match probe_threads Version_gen.version_is_compatible have name (map req_of (e_threads emu)) false with
                | PErr => VErr E_FAIL | POff => VOk (0, st1) | POn => VOk (1, st1) end).
    { unfold bind at 1. rewrite P. rewrite S. replace (slen name + 8 >=? 128) with false by lia. cbn [ite]. unfold bind.
      rewrite (loop_spec have spec an name Hn (e_threads emu) 0 st1 (or_introl eq_refl) Hr). change (0 =? 1) with false.
      destruct (probe_threads Version_gen.version_is_compatible have name (map req_of (e_threads emu)) false); reflexivity. }
    destruct (probe_threads Version_gen.version_is_compatible have name (map req_of (e_threads emu)) false); [exact E| |]; exists e; exact E.
  - unfold bind at 1. rewrite P. reflexivity.
Qed.

(* C14_enable_iff for the generated code: the probe answers "enable" exactly when no requirement of the model is
   unparsable or incompatible and some thread requires a compatible version *)
Theorem enable_iff_from_source : forall spec emu st an name av ver have,
  sp_name spec = Some (an, name) -> sp_version spec = Some (av, ver) -> nonul ver -> slen name + 8 < 128 ->
  Forall req_ok (e_threads emu) -> VersionDefs.version_parse (Some ver) = Some have ->
  ((exists e, VParse_gen.model_version_probe spec emu st = VOk (1, mkV e (v_save st) (v_tuple st))) <->
   probe_threads Version_gen.version_is_compatible have name (map req_of (e_threads emu)) false = POn) /\
  (VParse_gen.model_version_probe spec emu st = VErr E_FAIL <->
   probe_threads Version_gen.version_is_compatible have name (map req_of (e_threads emu)) false = PErr).
Proof.
  intros spec emu st an name av ver have Hn Hv Hnn Hlen Hr Hp.
  pose proof (model_version_probe_from_source spec emu st an name av ver Hn Hv Hnn Hlen Hr) as M.
  unfold VersionDefs.model_version_probe in M. rewrite Hp in M.
  destruct (probe_threads Version_gen.version_is_compatible have name (map req_of (e_threads emu)) false).
  - rewrite M. split; split; try discriminate; try reflexivity. intros (e & E). discriminate.
  - destruct M as (e & ->). split; split; try discriminate. intros (e' & E). discriminate.
  - destruct M as (e & ->). split; split; try discriminate; [intros _; reflexivity|intros _; eexists; reflexivity].
Qed.
