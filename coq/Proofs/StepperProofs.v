(* The stream cursor and the player's stepping logic regenerated from the source (Gen/Stepper_gen.v,
   translate/units/stepper.py) against their hand-written readings (Emu/StepperPre.v, m_...), the stream
   model of C19/C12 (Emu/StreamDefs.v) and the player model of C03 (Emu/PlayerDefs.v). *)
From Coq Require Import ZArith List Bool Arith Lia ZifyNat ZifyBool.
From OV Require Import Base.CInt Emu.LoaderPre Emu.HeapDefs Emu.PlayerDefs Emu.StepperPre.
From OV Require Import Proofs.HeapProofs Proofs.PlayerProofs.
From OV Require Gen.Loader_gen Gen.LoaderStep_gen Gen.Stepper_gen.
Import ListNotations.
Local Open Scope Z_scope.

(* ------------------------------------------------------------------ state lemmas *)

Lemma putp_some sx st id f : (id < length (streams st))%nat ->
  putp (Some id) f sx st = Done tt (put st id (f (nth id (streams st) g0))).
Proof. intros H. unfold putp. destruct (Nat.ltb_spec id (length (streams st))); [reflexivity|lia]. Qed.

Lemma put_length st id g : length (streams (put st id g)) = length (streams st).
Proof. unfold put. cbn [streams]. apply length_upd. Qed.

Lemma nth_put st id g : (id < length (streams st))%nat -> nth id (streams (put st id g)) g0 = g.
Proof. intros H. unfold put. cbn [streams]. apply nth_upd_same. exact H. Qed.

Lemma upd_upd {A} (l : list A) i x y : upd (upd l i x) i y = upd l i y.
Proof. revert i. induction l as [|a t IH]; intros [|i]; cbn [upd]; try reflexivity. rewrite IH. reflexivity. Qed.

Lemma put_put st id g g' : put (put st id g) id g' = put st id g'.
Proof. unfold put. cbn [streams pl]. rewrite upd_upd. reflexivity. Qed.

Lemma pl_put st id g : pl (put st id g) = pl st.
Proof. reflexivity. Qed.

Ltac stp Hid :=
  repeat first
    [ rewrite putp_some by (rewrite ?put_length; exact Hid)
    | rewrite nth_put by exact Hid
    | rewrite put_put
    | progress cbn [is_null negb andb gs evview ev_of_byte addr_stream_buf_at
                    g_buf g_junk g_cur g_size g_lastclock g_deltaclock g_clkoff g_active g_unsorted g_offset
                    w_cur w_lastclock w_deltaclock w_clkoff w_active w_unsorted w_offset] ].

(* ------------------------------------------------------------------ generated = hand-written reading *)

Theorem stream_step_gen sx st id : (id < length (streams st))%nat ->
  Stepper_gen.stream_step (Some id) sx st = lift_step st id (m_stream_step st id).
Proof.
  intros Hid. unfold Stepper_gen.stream_step, m_stream_step, lift_step.
  unfold need, ite, bind_, bind, eval, ret, fail, stop1.
  unfold Stepper_gen.stream_evclock, Stepper_gen.stream_evclock_safe.
  unfold get_stream_active, get_stream_cur_ev, get_stream_offset, get_stream_size, get_stream_unsorted,
    get_stream_lastclock, get_stream_clock_offset, set_stream_offset, set_stream_active, set_stream_cur_ev,
    set_stream_deltaclock, set_stream_lastclock, ovni_ev_size, next_ev_size, ovni_ev_get_clock.
  stp Hid.
  set (g := nth id (streams st) g0).
  destruct (g_active g =? 0); [reflexivity|]. cbn [negb].
  destruct (g_cur g) as [[ci cp]|]; cbn [is_null negb andb evview].
  - set (off := g_offset g + Loader_gen.ovni_ev_size _).
    destruct (off >? g_size g); [reflexivity|]. destruct (off =? g_size g); [reflexivity|].
    destruct (LoaderStep_gen.next_ev_size _ _ <? 0); [reflexivity|].
    destruct (g_unsorted g =? 0); cbn [andb]; [|reflexivity].
    destruct (_ <? g_lastclock g); reflexivity.
  - destruct (LoaderStep_gen.next_ev_size _ _ <? 0); [reflexivity|].
    destruct (g_unsorted g =? 0); cbn [andb]; [|reflexivity].
    destruct (_ <? g_lastclock g); reflexivity.
Qed.

Theorem step_stream_gen sx st id : (id < length (streams st))%nat ->
  Stepper_gen.step_stream (Some tt) (Some id) sx st = m_step_stream st id.
Proof.
  intros Hid. unfold Stepper_gen.step_stream, m_step_stream.
  unfold need, ite, bind_, bind, eval, status. cbn [is_null negb].
  unfold get_stream_active. cbn [gs].
  destruct (g_active (nth id (streams st) g0) =? 0); [reflexivity|]. cbn [negb].
  rewrite (stream_step_gen sx st id Hid). unfold lift_step.
  destruct (m_stream_step st id) as [[[|] g]|].
  - change (0 <? 0) with false. change (0 >? 0) with false. cbv iota.
    unfold heap_insert, addr_player_heap, addr_stream_hh, set_player_nprocessed, get_player_nprocessed, putq, ret.
    rewrite nth_put by exact Hid. reflexivity.
  - change (1 <? 0) with false. change (1 >? 0) with true. cbv iota. reflexivity.
  - change (E_FAIL =? E_FAIL)%nat with true. cbv iota. reflexivity.
Qed.

Theorem update_clocks_gen sx st id :
  Stepper_gen.update_clocks (Some tt) (Some id) sx st =
  match m_update_clocks (pl st) (g_lastclock (nth id (streams st) g0)) with
  | None => Fail E_FAIL
  | Some q => Done tt (mk_pstate (streams st) q)
  end.
Proof.
  unfold Stepper_gen.update_clocks, m_update_clocks.
  unfold need, ite, bind_, bind, eval, ret, fail.
  unfold Stepper_gen.stream_lastclock, Stepper_gen.stream_lastclock_safe, get_stream_lastclock.
  cbn [is_null negb andb gs].
  set (c := g_lastclock (nth id (streams st) g0)).
  unfold get_player_first_event, get_player_lastclock, get_player_unsorted, get_player_firstclock,
    set_player_first_event, set_player_firstclock, set_player_lastclock, set_player_deltaclock, putq.
  cbn [pl streams]. destruct (pl st) as [h fc lc dc np fe un sm ev].
  cbn [q_first_event q_lastclock q_unsorted q_firstclock w_first_event w_firstclock w_qlastclock w_qdeltaclock
       q_heap q_deltaclock q_nprocessed q_stream q_ev].
  destruct (fe =? 0); cbn [negb].
  - destruct (c <? lc); cbn [andb]; [destruct (un =? 0)|]; reflexivity.
  - rewrite Z.ltb_irrefl. cbn [andb]. reflexivity.
Qed.

Theorem player_step_gen sx st :
  (forall id, q_stream (pl st) = Some id -> (id < length (streams st))%nat) ->
  Stepper_gen.player_step (Some tt) sx st = m_player_step st.
Proof.
  intros Hs. unfold Stepper_gen.player_step, m_player_step, m_pop_emit.
  unfold need, ite, bind_, bind, eval, ret, fail, stop1, nonneg. cbn [is_null negb].
  unfold get_player_stream.
  destruct (q_stream (pl st)) as [id|] eqn:Eq; cbn [is_null negb].
  - rewrite (step_stream_gen sx st id (Hs id eq_refl)).
    destruct (m_step_stream st id) as [[] st1|st1|e]; [| |reflexivity].
    all: unfold heap_pop_max, addr_player_heap; destruct (pop_max stream_cmp (q_heap (pl st1))) as [[[k i] h']|]; unfold stream_of_node; cbn [is_null]; try reflexivity.
    all: rewrite update_clocks_gen; cbn [pl streams];
      destruct (m_update_clocks (w_heap h' (pl st1)) (g_lastclock (nth i (streams st1) g0))) as [q|]; [|reflexivity];
      unfold set_player_stream, putq, Stepper_gen.stream_ev_safe, Stepper_gen.stream_ev, emu_ev, addr_player_ev, putq,
        get_player_lastclock, get_player_deltaclock, get_stream_cur_ev;
      cbn [is_null negb pl streams gs]; destruct q; reflexivity.
  - unfold heap_pop_max, addr_player_heap. destruct (pop_max stream_cmp (q_heap (pl st))) as [[[k i] h']|]; unfold stream_of_node; cbn [is_null]; try reflexivity.
    rewrite update_clocks_gen; cbn [pl streams].
    destruct (m_update_clocks (w_heap h' (pl st)) (g_lastclock (nth i (streams st) g0))) as [q|]; [|reflexivity].
    unfold set_player_stream, putq, Stepper_gen.stream_ev_safe, Stepper_gen.stream_ev, emu_ev, addr_player_ev, putq,
      get_player_lastclock, get_player_deltaclock, get_stream_cur_ev.
    cbn [is_null negb pl streams gs]. destruct q; reflexivity.
Qed.

(* the small ones *)
Lemma stream_lastclock_gen sx st id : Stepper_gen.stream_lastclock sx st (Some id) = g_lastclock (nth id (streams st) g0).
Proof. reflexivity. Qed.

Lemma stream_evclock_gen sx st id ev :
  Stepper_gen.stream_evclock sx st (Some id) ev = cast_int64 (get_header_clock (evview st ev)) + g_clkoff (nth id (streams st) g0).
Proof. reflexivity. Qed.

Lemma stream_allow_unsorted_gen sx st id : (id < length (streams st))%nat ->
  Stepper_gen.stream_allow_unsorted (Some id) sx st = Done tt (put st id (w_unsorted 1 (nth id (streams st) g0))).
Proof.
  intros Hid. unfold Stepper_gen.stream_allow_unsorted, bind_, bind, ret, set_stream_unsorted.
  rewrite putp_some by exact Hid. reflexivity.
Qed.

(* stream_clkoff_set: refused once an event is loaded or when an offset is already set (the rule
   ClkoffDefs relies on: one offset per stream, set before the first step) *)
Lemma stream_clkoff_set_gen sx st id off : (id < length (streams st))%nat ->
  Stepper_gen.stream_clkoff_set (Some id) off sx st =
  let g := nth id (streams st) g0 in
  if negb (is_null (g_cur g)) then Fail E_FAIL
  else if negb (g_clkoff g =? 0) then Fail E_FAIL
  else Done tt (put st id (w_clkoff off g)).
Proof.
  intros Hid. unfold Stepper_gen.stream_clkoff_set, need, ite, bind_, bind, ret, fail,
    get_stream_cur_ev, get_stream_clock_offset, set_stream_clock_offset.
  cbn [is_null negb gs]. cbv zeta.
  destruct (negb (is_null (g_cur (nth id (streams st) g0)))); [reflexivity|].
  destruct (negb (g_clkoff (nth id (streams st) g0) =? 0)); [reflexivity|].
  rewrite putp_some by exact Hid. reflexivity.
Qed.

(* ------------------------------------------------------------------ stream_step from the source = StreamDefs.stream_step *)
From OV Require Import Emu.StreamDefs Proofs.StreamProofs.

(* the stream of StreamDefs (C19/C12) inside a stream of the generated world *)
Definition abs (g : gstream) : stream :=
  mk_stream (g_buf g) (g_junk g) (g_offset g) (negb (is_null (g_cur g))) (negb (g_active g =? 0))
            (g_lastclock g) (negb (g_unsorted g =? 0)).

(* what stream_load establishes and stream_step keeps: size = length of the mapped file, cur_ev is NULL or
   points at buf[offset] of the same stream; StreamDefs has no clock offset *)
Definition gwf (id : nat) (g : gstream) : Prop :=
  g_size g = blen (g_buf g) /\ g_clkoff g = 0 /\ (g_cur g = None \/ g_cur g = Some (id, g_offset g)).

Theorem stream_step_refines st id :
  let g := nth id (streams st) g0 in
  gwf id g -> inv (abs g) -> s_size (abs g) < 2 ^ 63 ->
  match stream_step (abs g), m_stream_step st id with
  | ROk s', Some (true, g') =>
      abs g' = s' /\ gwf id g' /\
      g_deltaclock g' = cast_int64 (cast_uint64 (cast_uint64 (s_lastclock s') - cast_uint64 (g_lastclock g)))
  | REnd s', Some (false, g') => abs g' = s' /\ g_active g' = 0 /\ g_cur g' = None
  | RErr _, None => True
  | _, _ => False
  end.
Proof.
  intros g (Hsz & Hoff0 & Hcur) (Hact & Hoff & Hfit) Hlt.
  cbn [abs s_active] in Hact.
  assert (Hsize : s_size (abs g) = g_size g) by (unfold s_size, abs; cbn [s_buf]; symmetry; exact Hsz).
  rewrite Hsize in Hlt, Hoff. cbn [abs s_offset] in Hoff. cbn [abs s_cur] in Hfit.
  unfold stream_step, step_with, m_stream_step. fold g. rewrite <- Hsize.
  replace (s_active (abs g)) with true by (symmetry; exact Hact).
  apply negb_true_iff in Hact. rewrite Hact. cbn [negb].
  unfold advance. cbn [abs s_cur s_offset].
  assert (Hview : forall o, view (abs g) o = mk_evp (g_buf g) o (g_junk g)) by reflexivity.
  assert (Hex : forall off, 8 <= off < g_size g ->
    match
      (let ev := view (abs g) off in
       let left := cast_int64 (s_size (abs g) - off) in
       match guard_new (s_buf (abs g)) ev left with
       | GOob p => ROob p
       | GOverflow => RSOverflow
       | GIncomplete => RErr EIncomplete
       | GFits =>
         match first_oob (s_buf (abs g)) (reads_clock ev) with
         | Some p => ROob p
         | None =>
           let clock := cast_int64 (get_header_clock ev) in
           if negb (s_unsorted (abs g)) && (clock <? s_lastclock (abs g)) then RErr EClockBackwards
           else ROk (mk_stream (s_buf (abs g)) (s_junk (abs g)) off true true clock (s_unsorted (abs g)))
         end
       end),
      (let ev := mk_evp (g_buf g) off (g_junk g) in
       if LoaderStep_gen.next_ev_size ev (s_size (abs g) - off) <? 0 then None
       else
         let clock := cast_int64 (get_header_clock ev) + g_clkoff g in
         if (g_unsorted g =? 0) && (clock <? g_lastclock g) then None
         else Some (true, w_lastclock clock
                            (w_deltaclock (cast_int64 (cast_uint64 (cast_uint64 clock - cast_uint64 (g_lastclock g))))
                               (w_cur (Some (id, off)) (w_offset off g)))))
    with
    | ROk s', Some (true, g') =>
        abs g' = s' /\ gwf id g' /\
        g_deltaclock g' = cast_int64 (cast_uint64 (cast_uint64 (s_lastclock s') - cast_uint64 (g_lastclock g)))
    | REnd s', Some (false, g') => abs g' = s' /\ g_active g' = 0 /\ g_cur g' = None
    | RErr _, None => True
    | _, _ => False
    end).
  { intros off Ho. cbv zeta.
    rewrite cast_int64_small by (rewrite Hsize; lia).
    unfold guard_new. rewrite (next_reads_inside (abs g) off) by (rewrite Hsize; lia).
    rewrite Hsize. rewrite Hview.
    replace (LoaderStep_gen.next_ev_size {| ebuf := g_buf g; eoff := off; ejunk := g_junk g |} (g_size g - off))
      with (ev_size_checked {| ebuf := g_buf g; eoff := off; ejunk := g_junk g |} (g_size g - off))
      by (symmetry; apply next_ev_size_eq).
    destruct (ev_size_checked {| ebuf := g_buf g; eoff := off; ejunk := g_junk g |} (g_size g - off) <? 0) eqn:E; [exact I|].
    assert (Hf : fits (abs g) off) by (unfold fits; rewrite Hsize, Hview; lia).
    pose proof (clock_inside (abs g) off Hf ltac:(lia)) as Hci. rewrite Hview in Hci. rewrite Hci.
    rewrite Hoff0, Z.add_0_r. cbn [abs s_unsorted s_lastclock s_buf s_junk]. rewrite negb_involutive.
    destruct ((g_unsorted g =? 0) && (cast_int64 (get_header_clock {| ebuf := g_buf g; eoff := off; ejunk := g_junk g |}) <? g_lastclock g));
      [exact I|].
    unfold abs, gwf. cbn [g_buf g_junk g_cur g_size g_lastclock g_deltaclock g_clkoff g_active g_unsorted g_offset
                          w_cur w_lastclock w_deltaclock w_offset is_null negb s_lastclock].
    rewrite Hact. cbn [negb]. repeat split; auto. }
  destruct Hcur as [Hc|Hc]; rewrite Hc; cbn [is_null negb andb].
  - apply Hex. lia.
  - rewrite Hc in Hfit. specialize (Hfit eq_refl). cbn [evview]. fold g.
    change {| ebuf := g_buf g; eoff := g_offset g; ejunk := g_junk g |} with (view (abs g) (g_offset g)).
    assert (Hfit' : fits (abs g) (g_offset g)) by exact Hfit.
    rewrite (ev_size_reads_inside (abs g) _ Hfit') by lia.
    unfold fits in Hfit'. rewrite Hsize in Hfit'.
    destruct (ev_size_checked_ok _ _ _ eq_refl Hfit') as (H12 & Hmax & Hsz' & Hint & _).
    rewrite Hint. cbn [negb].
    set (sz := Loader_gen.ovni_ev_size (view (abs g) (g_offset g))) in *.
    rewrite cast_int64_small by lia.
    destruct (g_offset g + sz >? s_size (abs g)) eqn:Egt; [rewrite Hsize in Egt; lia|].
    destruct (g_offset g + sz =? s_size (abs g)) eqn:Eeq.
    + unfold abs. cbn [g_buf g_junk g_cur g_size g_lastclock g_deltaclock g_clkoff g_active g_unsorted g_offset
                        w_cur w_active w_offset is_null negb]. repeat split; reflexivity.
    + apply Hex. rewrite Hsize in Egt, Eeq. lia.
Qed.

(* ------------------------------------------------------------------ the player's step from the source = PlayerDefs.pstep *)

(* first_event / firstclock / lastclock of struct player <-> p_clk of the model *)
Definition clk_of (q : gplayer) : option (Z * Z) :=
  if q_first_event q =? 0 then Some (q_firstclock q, q_lastclock q) else None.

(* (int64_t) ((uint64_t) a - (uint64_t) b): the wrap-around difference *)
Definition wdiff (a b : Z) : Z := cast_int64 (cast_uint64 (cast_uint64 a - cast_uint64 b)).

(* pstep = restep, then this *)
Definition pop_part (sorted : bool) (st1 : pst) : sres :=
  match pop_max stream_cmp (p_heap st1) with
  | None => SDone
  | Some ((k, id), h') =>
    let first := match p_clk st1 with None => k | Some (f, _) => f end in
    let last := match p_clk st1 with None => k | Some (_, l) => l end in
    if sorted && (k <? last) then SErr VBackPlayer
    else
      match nth id (p_rem st1) [] with
      | [] => SErr VInternal
      | e :: r =>
        SEmit (mkoev id (fst e) (snd e) k (k - first))
              (mkpst h' (upd (p_rem st1) id r) (Some (id, k)) (Some (first, k)))
      end
  end.

Lemma pstep_split sorted offs st :
  pstep sorted offs st = match restep sorted offs st with inl v => SErr v | inr st1 => pop_part sorted st1 end.
Proof. reflexivity. Qed.

(* update_clocks: the backwards check and the three clocks *)
Lemma update_clocks_refines q k :
  let sorted := q_unsorted q =? 0 in
  let first := match clk_of q with None => k | Some (f, _) => f end in
  let last := match clk_of q with None => k | Some (_, l) => l end in
  match m_update_clocks q k with
  | None => sorted && (k <? last) = true
  | Some q' => sorted && (k <? last) = false /\ clk_of q' = Some (first, k) /\
               q_deltaclock q' = wdiff k first /\ q_heap q' = q_heap q /\ q_unsorted q' = q_unsorted q
  end.
Proof.
  unfold m_update_clocks, clk_of. cbv zeta. destruct q as [h fc lc dc np fe un sm ev].
  cbn [q_first_event q_firstclock q_lastclock q_unsorted].
  destruct (fe =? 0) eqn:E; cbn [negb].
  - destruct ((k <? lc) && (un =? 0)) eqn:C.
    + rewrite andb_comm. exact C.
    + cbn. rewrite E. rewrite andb_comm. auto.
  - rewrite Z.ltb_irrefl. cbn. rewrite andb_false_r. auto.
Qed.

(* second half of player_step against the model: same verdict, same heap, clocks, current stream, and the
   emitted event carries sclock = the popped key and dclock = its (wrap-around) distance to firstclock.
   Hypothesis Hkey: the key of a heap node is the lastclock of its stream (heap_insert stored it and the
   stream was not stepped since), and the popped stream has an event loaded (PlayerProofs' invariant). *)
Theorem pop_emit_refines st1 (pst1 : pst) :
  let sorted := q_unsorted (pl st1) =? 0 in
  q_heap (pl st1) = p_heap pst1 -> clk_of (pl st1) = p_clk pst1 ->
  (forall k id h', pop_max stream_cmp (p_heap pst1) = Some ((k, id), h') ->
     g_lastclock (nth id (streams st1) g0) = k /\ nth id (p_rem pst1) [] <> []) ->
  match pop_part sorted pst1, m_pop_emit st1 with
  | SDone, Stop s => s = st1
  | SErr v, Fail e => v = VBackPlayer /\ e = E_FAIL
  | SEmit o pst2, Done _ st2 =>
      streams st2 = streams st1 /\ q_heap (pl st2) = p_heap pst2 /\ clk_of (pl st2) = p_clk pst2 /\
      p_cur pst2 = option_map (fun id => (id, g_lastclock (nth id (streams st2) g0))) (q_stream (pl st2)) /\
      q_stream (pl st2) = Some (o_id o) /\
      q_ev (pl st2) = Some (g_cur (nth (o_id o) (streams st1) g0), o_sclock o,
                            wdiff (o_sclock o) (o_sclock o - o_dclock o))
  | _, _ => False
  end.
Proof.
  intros sorted Hh Hc Hkey. unfold pop_part, m_pop_emit. rewrite Hh.
  destruct (pop_max stream_cmp (p_heap pst1)) as [[[k id] h']|] eqn:P; [|reflexivity].
  destruct (Hkey k id h' eq_refl) as [Hk Hne]. rewrite Hk.
  pose proof (update_clocks_refines (w_heap h' (pl st1)) k) as U. cbv zeta in U.
  assert (Ec : clk_of (w_heap h' (pl st1)) = p_clk pst1) by (rewrite <- Hc; destruct (pl st1); reflexivity).
  assert (Eu : (q_unsorted (w_heap h' (pl st1)) =? 0) = sorted) by (destruct (pl st1); reflexivity).
  rewrite Ec, Eu in U.
  destruct (m_update_clocks (w_heap h' (pl st1)) k) as [q|].
  - destruct U as (U1 & U2 & U3 & U4 & U5). rewrite U1.
    destruct (nth id (p_rem pst1) []) as [|e r] eqn:R; [congruence|].
    cbn [streams pl o_id o_sclock o_dclock p_heap p_clk p_cur].
    destruct q as [h fc lc dc np fe un sm ev].
    cbn [q_heap q_stream q_ev q_lastclock q_deltaclock q_first_event q_firstclock w_ev w_stream w_heap] in *.
    assert (Eclk : clk_of (mk_gplayer h fc lc dc np fe un (Some id) (Some (g_cur (nth id (streams st1) g0), lc, dc))) =
                   clk_of (mk_gplayer h fc lc dc np fe un sm ev)) by reflexivity.
    unfold clk_of in U2 at 1. cbn [q_first_event q_firstclock q_lastclock] in U2.
    destruct (fe =? 0) eqn:Efe; [|discriminate]. injection U2 as Efc Elc.
    split; [reflexivity|]. split; [exact U4|]. split.
    { unfold clk_of, w_ev, w_stream. cbn [q_first_event q_firstclock q_lastclock]. rewrite Efe, Efc, Elc. reflexivity. }
    split; [cbn [option_map]; rewrite Hk; reflexivity|]. split; [reflexivity|].
    rewrite Elc, U3. repeat f_equal. lia.
  - rewrite U. auto.
Qed.

(* what the byte level owes the player model for the stream delivered last (its remaining events are
   `rem`, the next one at the head): stream_step ends the stream when none is left, refuses a backwards clock
   when sorted, and otherwise loads the next event with lastclock = its corrected clock.  This is what
   stream_step_refines + the tiling theorems of C19/C12 give for a well-formed stream. *)
Definition stream_iface (sorted : bool) (offs : list Z) (st : pstate) (id : nat) (slast : Z) (rem : list PlayerDefs.ev) : Prop :=
  let g := nth id (streams st) g0 in
  match rem with
  | [] => (g_active g =? 0) = true \/
          ((g_active g =? 0) = false /\ exists g', m_stream_step st id = Some (false, g'))
  | e :: _ =>
    (g_active g =? 0) = false /\
    if sorted && (corr offs id e <? slast) then m_stream_step st id = None
    else exists g', m_stream_step st id = Some (true, g') /\ g_lastclock g' = corr offs id e
  end.

(* first half of player_step (step_stream on the stream delivered last) against PlayerDefs.restep *)
Theorem restep_refines sorted offs st (ps : pst) id slast :
  p_cur ps = Some (id, slast) -> q_heap (pl st) = p_heap ps ->
  stream_iface sorted offs st id slast (nth id (p_rem ps) []) ->
  match restep sorted offs ps, m_step_stream st id with
  | inl v, Fail e => v = VBackStream id /\ e = E_FAIL
  | inr ps1, Done _ st1 | inr ps1, Stop st1 =>
      q_heap (pl st1) = p_heap ps1 /\ p_rem ps1 = p_rem ps /\ p_clk ps1 = p_clk ps /\ p_cur ps1 = p_cur ps /\
      clk_of (pl st1) = clk_of (pl st) /\ q_unsorted (pl st1) = q_unsorted (pl st) /\ q_stream (pl st1) = q_stream (pl st)
  | _, _ => False
  end.
Proof.
  intros Hcur Hh Hi. unfold restep, m_step_stream. rewrite Hcur. unfold stream_iface in Hi. cbv zeta in Hi.
  destruct (nth id (p_rem ps) []) as [|e r].
  - destruct Hi as [Ha|[Ha [g' Hg]]]; rewrite Ha.
    + repeat split; auto.
    + rewrite Hg. cbn [pl put]. repeat split; auto.
  - destruct Hi as [Ha Hi]. rewrite Ha.
    destruct (sorted && (corr offs id e <? slast)).
    + rewrite Hi. auto.
    + destruct Hi as [g' [Hg Hl]]. rewrite Hg, Hl. cbn [pl p_heap p_rem p_clk p_cur].
      destruct (pl st); cbn in *. rewrite Hh. repeat split; auto.
Qed.

(* ------------------------------------------------------------------ exported combinations *)

(* stream_step as regenerated from stream.c against StreamDefs.stream_step (the model of C19/C12): same
   outcome (0 / +1 / -1), same new cursor, lastclock, active/cur flags; deltaclock is the wrap-around
   difference; and from a state of the walk the model's out-of-bounds / overflow outcomes do not arise *)
Theorem stream_step_from_source sx st id :
  (id < length (streams st))%nat ->
  let g := nth id (streams st) g0 in
  gwf id g -> inv (abs g) -> s_size (abs g) < 2 ^ 63 ->
  match stream_step (abs g), Stepper_gen.stream_step (Some id) sx st with
  | ROk s', Done _ st' =>
      exists g', st' = put st id g' /\ abs g' = s' /\ gwf id g' /\
                 g_deltaclock g' = cast_int64 (cast_uint64 (cast_uint64 (s_lastclock s') - cast_uint64 (g_lastclock g)))
  | REnd s', Stop st' => exists g', st' = put st id g' /\ abs g' = s' /\ g_active g' = 0 /\ g_cur g' = None
  | RErr _, Fail e => e = E_FAIL
  | _, _ => False
  end.
Proof.
  intros Hid g Hw Hi Hs. rewrite (stream_step_gen sx st id Hid).
  pose proof (stream_step_refines st id Hw Hi Hs) as R. fold g in R.
  destruct (stream_step (abs g)); destruct (m_stream_step st id) as [[[|] g']|]; cbn [lift_step]; try contradiction.
  - exists g'. tauto.
  - exists g'. tauto.
  - reflexivity.
Qed.

(* the three functions of player.c = their hand-written readings *)
Theorem player_functions_from_source sx st :
  (forall id, (id < length (streams st))%nat -> Stepper_gen.step_stream (Some tt) (Some id) sx st = m_step_stream st id) /\
  (forall id, Stepper_gen.update_clocks (Some tt) (Some id) sx st =
              match m_update_clocks (pl st) (g_lastclock (nth id (streams st) g0)) with
              | None => Fail E_FAIL
              | Some q => Done tt (mk_pstate (streams st) q)
              end) /\
  ((forall id, q_stream (pl st) = Some id -> (id < length (streams st))%nat) ->
   Stepper_gen.player_step (Some tt) sx st = m_player_step st).
Proof.
  split; [|split].
  - intros id H. apply step_stream_gen. exact H.
  - intros id. apply update_clocks_gen.
  - apply player_step_gen.
Qed.

Theorem stream_refusals_from_source :
  (forall sx st id, (id < length (streams st))%nat ->
     Stepper_gen.stream_step (Some id) sx st = lift_step st id (m_stream_step st id)) /\
  (forall sx st id, (id < length (streams st))%nat ->
     let g := nth id (streams st) g0 in
     gwf id g -> inv (abs g) -> s_size (abs g) < 2 ^ 63 ->
     ((exists e, stream_step (abs g) = RErr e) <-> Stepper_gen.stream_step (Some id) sx st = Fail E_FAIL)).
Proof.
  split; [exact stream_step_gen|].
  intros sx st id Hid g Hw Hi Hs.
  pose proof (stream_step_from_source sx st id Hid Hw Hi Hs) as R. fold g in R.
  destruct (stream_step (abs g)) eqn:E1; destruct (Stepper_gen.stream_step (Some id) sx st) eqn:E2; try contradiction.
  - split; [intros [e He]; discriminate|discriminate].
  - split; [intros [e He]; discriminate|discriminate].
  - subst. split; [reflexivity|eauto].
Qed.
