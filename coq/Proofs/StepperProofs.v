(* The stream cursor and the player's stepping logic regenerated from the source (Gen/Stepper_gen.v,
   translate/units/stepper.py) against their hand-written readings (Emu/StepperPre.v, m_...), the stream
   model of C19/C12 (Emu/StreamDefs.v) and the player model of C03 (Emu/PlayerDefs.v). *)
From Coq Require Import ZArith List Bool Arith Lia ZifyNat ZifyBool Permutation.
From OV Require Import Base.CInt Emu.LoaderPre Emu.HeapDefs Emu.PlayerDefs Emu.StepperPre.
From OV Require Import Proofs.HeapProofs Proofs.PlayerProofs.
From OV Require Gen.Loader_gen Gen.LoaderStep_gen Gen.Stepper_gen.
Import ListNotations.
Local Open Scope Z_scope.

(* ------------------------------------------------------------------ state lemmas *)

Lemma putp_some sx st id f : (id < length (streams st))%nat ->
  putp (Some id) f sx st = Done tt (put st id (f (nth id (streams st) g0))).
Proof. intros H. unfold putp. destruct (Nat.ltb_spec id (length (streams st))); [reflexivity|lia]. Qed.

Lemma put_length st id g : length (streams (put st id g)) = length (streams st).
Proof. unfold put. cbn [streams]. apply length_upd. Qed.

Lemma nth_put st id g : (id < length (streams st))%nat -> nth id (streams (put st id g)) g0 = g.
Proof. intros H. unfold put. cbn [streams]. apply nth_upd_same. exact H. Qed.

Lemma upd_upd {A} (l : list A) i x y : upd (upd l i x) i y = upd l i y.
Proof. revert i. induction l as [|a t IH]; intros [|i]; cbn [upd]; try reflexivity. rewrite IH. reflexivity. Qed.

Lemma put_put st id g g' : put (put st id g) id g' = put st id g'.
Proof. unfold put. cbn [streams pl]. rewrite upd_upd. reflexivity. Qed.

Lemma pl_put st id g : pl (put st id g) = pl st.
Proof. reflexivity. Qed.

Ltac stp Hid :=
  repeat first
    [ rewrite putp_some by (rewrite ?put_length; exact Hid)
    | rewrite nth_put by exact Hid
    | rewrite put_put
    | progress cbn [is_null negb andb gs evview ev_of_byte addr_stream_buf_at
                    g_buf g_junk g_cur g_size g_lastclock g_deltaclock g_clkoff g_active g_unsorted g_offset
                    w_cur w_lastclock w_deltaclock w_clkoff w_active w_unsorted w_offset] ].

(* ------------------------------------------------------------------ generated = hand-written reading *)

Theorem stream_step_gen sx st id : (id < length (streams st))%nat ->
  Stepper_gen.stream_step (Some id) sx st = lift_step st id (m_stream_step st id).
Proof.
  intros Hid. unfold Stepper_gen.stream_step, m_stream_step, lift_step.
  unfold need, ite, bind_, bind, eval, ret, fail, stop1.
  unfold Stepper_gen.stream_evclock, Stepper_gen.stream_evclock_safe.
  unfold get_stream_active, get_stream_cur_ev, get_stream_offset, get_stream_size, get_stream_unsorted,
    get_stream_lastclock, get_stream_clock_offset, set_stream_offset, set_stream_active, set_stream_cur_ev,
    set_stream_deltaclock, set_stream_lastclock, ovni_ev_size, next_ev_size, ovni_ev_get_clock.
  stp Hid.
  set (g := nth id (streams st) g0).
  destruct (g_active g =? 0); [reflexivity|]. cbn [negb].
  destruct (g_cur g) as [[ci cp]|]; cbn [is_null negb andb evview].
  - set (off := g_offset g + Loader_gen.ovni_ev_size _).
    destruct (off >? g_size g); [reflexivity|]. destruct (off =? g_size g); [reflexivity|].
    destruct (LoaderStep_gen.next_ev_size _ _ <? 0); [reflexivity|].
    destruct (g_unsorted g =? 0); cbn [andb]; [|reflexivity].
    destruct (_ <? g_lastclock g); reflexivity.
  - destruct (LoaderStep_gen.next_ev_size _ _ <? 0); [reflexivity|].
    destruct (g_unsorted g =? 0); cbn [andb]; [|reflexivity].
    destruct (_ <? g_lastclock g); reflexivity.
Qed.

Theorem step_stream_gen sx st id : (id < length (streams st))%nat ->
  Stepper_gen.step_stream (Some tt) (Some id) sx st = m_step_stream st id.
Proof.
  intros Hid. unfold Stepper_gen.step_stream, m_step_stream.
  unfold need, ite, bind_, bind, eval, status. cbn [is_null negb].
  unfold get_stream_active. cbn [gs].
  destruct (g_active (nth id (streams st) g0) =? 0); [reflexivity|]. cbn [negb].
  rewrite (stream_step_gen sx st id Hid). unfold lift_step.
  destruct (m_stream_step st id) as [[[|] g]|].
  - change (0 <? 0) with false. change (0 >? 0) with false. cbv iota.
    unfold heap_insert, addr_player_heap, addr_stream_hh, set_player_nprocessed, get_player_nprocessed, putq, ret.
    rewrite nth_put by exact Hid. reflexivity.
  - change (1 <? 0) with false. change (1 >? 0) with true. cbv iota. reflexivity.
  - change (E_FAIL =? E_FAIL)%nat with true. cbv iota. reflexivity.
Qed.

Theorem update_clocks_gen sx st id :
  Stepper_gen.update_clocks (Some tt) (Some id) sx st =
  match m_update_clocks (pl st) (g_lastclock (nth id (streams st) g0)) with
  | None => Fail E_FAIL
  | Some q => Done tt (mk_pstate (streams st) q)
  end.
Proof.
  unfold Stepper_gen.update_clocks, m_update_clocks.
  unfold need, ite, bind_, bind, eval, ret, fail.
  unfold Stepper_gen.stream_lastclock, Stepper_gen.stream_lastclock_safe, get_stream_lastclock.
  cbn [is_null negb andb gs].
  set (c := g_lastclock (nth id (streams st) g0)).
  unfold get_player_first_event, get_player_lastclock, get_player_unsorted, get_player_firstclock,
    set_player_first_event, set_player_firstclock, set_player_lastclock, set_player_deltaclock, putq.
  cbn [pl streams]. destruct (pl st) as [h fc lc dc np fe un sm ev].
  cbn [q_first_event q_lastclock q_unsorted q_firstclock w_first_event w_firstclock w_qlastclock w_qdeltaclock
       q_heap q_deltaclock q_nprocessed q_stream q_ev].
  destruct (fe =? 0); cbn [negb].
  - destruct (c <? lc); cbn [andb]; [destruct (un =? 0)|]; reflexivity.
  - rewrite Z.ltb_irrefl. cbn [andb]. reflexivity.
Qed.

Theorem player_step_gen sx st :
  (forall id, q_stream (pl st) = Some id -> (id < length (streams st))%nat) ->
  Stepper_gen.player_step (Some tt) sx st = m_player_step st.
Proof.
  intros Hs. unfold Stepper_gen.player_step, m_player_step, m_pop_emit.
  unfold need, ite, bind_, bind, eval, ret, fail, stop1, nonneg. cbn [is_null negb].
  unfold get_player_stream.
  destruct (q_stream (pl st)) as [id|] eqn:Eq; cbn [is_null negb].
  - rewrite (step_stream_gen sx st id (Hs id eq_refl)).
    destruct (m_step_stream st id) as [[] st1|st1|e]; [| |reflexivity].
    all: unfold heap_pop_max, addr_player_heap; destruct (pop_max stream_cmp (q_heap (pl st1))) as [[[k i] h']|]; unfold stream_of_node; cbn [is_null]; try reflexivity.
    all: rewrite update_clocks_gen; cbn [pl streams];
      destruct (m_update_clocks (w_heap h' (pl st1)) (g_lastclock (nth i (streams st1) g0))) as [q|]; [|reflexivity];
      unfold set_player_stream, putq, Stepper_gen.stream_ev_safe, Stepper_gen.stream_ev, emu_ev, addr_player_ev, putq,
        get_player_lastclock, get_player_deltaclock, get_stream_cur_ev;
      cbn [is_null negb pl streams gs]; destruct q; reflexivity.
  - unfold heap_pop_max, addr_player_heap. destruct (pop_max stream_cmp (q_heap (pl st))) as [[[k i] h']|]; unfold stream_of_node; cbn [is_null]; try reflexivity.
    rewrite update_clocks_gen; cbn [pl streams].
    destruct (m_update_clocks (w_heap h' (pl st)) (g_lastclock (nth i (streams st) g0))) as [q|]; [|reflexivity].
    unfold set_player_stream, putq, Stepper_gen.stream_ev_safe, Stepper_gen.stream_ev, emu_ev, addr_player_ev, putq,
      get_player_lastclock, get_player_deltaclock, get_stream_cur_ev.
    cbn [is_null negb pl streams gs]. destruct q; reflexivity.
Qed.

(* the small ones *)
Lemma stream_lastclock_gen sx st id : Stepper_gen.stream_lastclock sx st (Some id) = g_lastclock (nth id (streams st) g0).
Proof. reflexivity. Qed.

Lemma stream_evclock_gen sx st id ev :
  Stepper_gen.stream_evclock sx st (Some id) ev = cast_int64 (get_header_clock (evview st ev)) + g_clkoff (nth id (streams st) g0).
Proof. reflexivity. Qed.

Lemma stream_allow_unsorted_gen sx st id : (id < length (streams st))%nat ->
  Stepper_gen.stream_allow_unsorted (Some id) sx st = Done tt (put st id (w_unsorted 1 (nth id (streams st) g0))).
Proof.
  intros Hid. unfold Stepper_gen.stream_allow_unsorted, bind_, bind, ret, set_stream_unsorted.
  rewrite putp_some by exact Hid. reflexivity.
Qed.

(* stream_clkoff_set: refused once an event is loaded or when an offset is already set (the rule
   ClkoffDefs relies on: one offset per stream, set before the first step) *)
Lemma stream_clkoff_set_gen sx st id off : (id < length (streams st))%nat ->
  Stepper_gen.stream_clkoff_set (Some id) off sx st =
  let g := nth id (streams st) g0 in
  if negb (is_null (g_cur g)) then Fail E_FAIL
  else if negb (g_clkoff g =? 0) then Fail E_FAIL
  else Done tt (put st id (w_clkoff off g)).
Proof.
  intros Hid. unfold Stepper_gen.stream_clkoff_set, need, ite, bind_, bind, ret, fail,
    get_stream_cur_ev, get_stream_clock_offset, set_stream_clock_offset.
  cbn [is_null negb gs]. cbv zeta.
  destruct (negb (is_null (g_cur (nth id (streams st) g0)))); [reflexivity|].
  destruct (negb (g_clkoff (nth id (streams st) g0) =? 0)); [reflexivity|].
  rewrite putp_some by exact Hid. reflexivity.
Qed.

(* ------------------------------------------------------------------ stream_step from the source = StreamDefs.stream_step *)
From OV Require Import Emu.StreamDefs Proofs.StreamProofs.

(* the stream of StreamDefs (C19/C12) inside a stream of the generated world *)
Definition abs (g : gstream) : stream :=
  mk_stream (g_buf g) (g_junk g) (g_offset g) (negb (is_null (g_cur g))) (negb (g_active g =? 0))
            (g_lastclock g) (negb (g_unsorted g =? 0)).

(* what stream_load establishes and stream_step keeps: size = length of the mapped file, cur_ev is NULL or
   points at buf[offset] of the same stream; StreamDefs has no clock offset *)
Definition gwf (id : nat) (g : gstream) : Prop :=
  g_size g = blen (g_buf g) /\ g_clkoff g = 0 /\ (g_cur g = None \/ g_cur g = Some (id, g_offset g)).

Theorem stream_step_refines st id :
  let g := nth id (streams st) g0 in
  gwf id g -> inv (abs g) -> s_size (abs g) < 2 ^ 63 ->
  match stream_step (abs g), m_stream_step st id with
  | ROk s', Some (true, g') =>
      abs g' = s' /\ gwf id g' /\
      g_deltaclock g' = cast_int64 (cast_uint64 (cast_uint64 (s_lastclock s') - cast_uint64 (g_lastclock g)))
  | REnd s', Some (false, g') => abs g' = s' /\ g_active g' = 0 /\ g_cur g' = None
  | RErr _, None => True
  | _, _ => False
  end.
Proof.
  intros g (Hsz & Hoff0 & Hcur) (Hact & Hoff & Hfit) Hlt.
  cbn [abs s_active] in Hact.
  assert (Hsize : s_size (abs g) = g_size g) by (unfold s_size, abs; cbn [s_buf]; symmetry; exact Hsz).
  rewrite Hsize in Hlt, Hoff. cbn [abs s_offset] in Hoff. cbn [abs s_cur] in Hfit.
  unfold stream_step, step_with, m_stream_step. fold g. rewrite <- Hsize.
  replace (s_active (abs g)) with true by (symmetry; exact Hact).
  apply negb_true_iff in Hact. rewrite Hact. cbn [negb].
  unfold advance. cbn [abs s_cur s_offset].
  assert (Hview : forall o, view (abs g) o = mk_evp (g_buf g) o (g_junk g)) by reflexivity.
  assert (Hex : forall off, 8 <= off < g_size g ->
    match
      (let ev := view (abs g) off in
       let left := cast_int64 (s_size (abs g) - off) in
       match guard_new (s_buf (abs g)) ev left with
       | GOob p => ROob p
       | GOverflow => RSOverflow
       | GIncomplete => RErr EIncomplete
       | GFits =>
         match first_oob (s_buf (abs g)) (reads_clock ev) with
         | Some p => ROob p
         | None =>
           let clock := cast_int64 (get_header_clock ev) in
           if negb (s_unsorted (abs g)) && (clock <? s_lastclock (abs g)) then RErr EClockBackwards
           else ROk (mk_stream (s_buf (abs g)) (s_junk (abs g)) off true true clock (s_unsorted (abs g)))
         end
       end),
      (let ev := mk_evp (g_buf g) off (g_junk g) in
       if LoaderStep_gen.next_ev_size ev (s_size (abs g) - off) <? 0 then None
       else
         let clock := cast_int64 (get_header_clock ev) + g_clkoff g in
         if (g_unsorted g =? 0) && (clock <? g_lastclock g) then None
         else Some (true, w_lastclock clock
                            (w_deltaclock (cast_int64 (cast_uint64 (cast_uint64 clock - cast_uint64 (g_lastclock g))))
                               (w_cur (Some (id, off)) (w_offset off g)))))
    with
    | ROk s', Some (true, g') =>
        abs g' = s' /\ gwf id g' /\
        g_deltaclock g' = cast_int64 (cast_uint64 (cast_uint64 (s_lastclock s') - cast_uint64 (g_lastclock g)))
    | REnd s', Some (false, g') => abs g' = s' /\ g_active g' = 0 /\ g_cur g' = None
    | RErr _, None => True
    | _, _ => False
    end).
  { intros off Ho. cbv zeta.
    rewrite cast_int64_small by (rewrite Hsize; lia).
    unfold guard_new. rewrite (next_reads_inside (abs g) off) by (rewrite Hsize; lia).
    rewrite Hsize. rewrite Hview.
    replace (LoaderStep_gen.next_ev_size {| ebuf := g_buf g; eoff := off; ejunk := g_junk g |} (g_size g - off))
      with (ev_size_checked {| ebuf := g_buf g; eoff := off; ejunk := g_junk g |} (g_size g - off))
      by (symmetry; apply next_ev_size_eq).
    destruct (ev_size_checked {| ebuf := g_buf g; eoff := off; ejunk := g_junk g |} (g_size g - off) <? 0) eqn:E; [exact I|].
    assert (Hf : fits (abs g) off) by (unfold fits; rewrite Hsize, Hview; lia).
    pose proof (clock_inside (abs g) off Hf ltac:(lia)) as Hci. rewrite Hview in Hci. rewrite Hci.
    rewrite Hoff0, Z.add_0_r. cbn [abs s_unsorted s_lastclock s_buf s_junk]. rewrite negb_involutive.
    destruct ((g_unsorted g =? 0) && (cast_int64 (get_header_clock {| ebuf := g_buf g; eoff := off; ejunk := g_junk g |}) <? g_lastclock g));
      [exact I|].
    unfold abs, gwf. cbn [g_buf g_junk g_cur g_size g_lastclock g_deltaclock g_clkoff g_active g_unsorted g_offset
                          w_cur w_lastclock w_deltaclock w_offset is_null negb s_lastclock].
    rewrite Hact. cbn [negb]. repeat split; auto. }
  destruct Hcur as [Hc|Hc]; rewrite Hc; cbn [is_null negb andb].
  - apply Hex. lia.
  - rewrite Hc in Hfit. specialize (Hfit eq_refl). cbn [evview]. fold g.
    change {| ebuf := g_buf g; eoff := g_offset g; ejunk := g_junk g |} with (view (abs g) (g_offset g)).
    assert (Hfit' : fits (abs g) (g_offset g)) by exact Hfit.
    rewrite (ev_size_reads_inside (abs g) _ Hfit') by lia.
    unfold fits in Hfit'. rewrite Hsize in Hfit'.
    destruct (ev_size_checked_ok _ _ _ eq_refl Hfit') as (H12 & Hmax & Hsz' & Hint & _).
    rewrite Hint. cbn [negb].
    set (sz := Loader_gen.ovni_ev_size (view (abs g) (g_offset g))) in *.
    rewrite cast_int64_small by lia.
    destruct (g_offset g + sz >? s_size (abs g)) eqn:Egt; [rewrite Hsize in Egt; lia|].
    destruct (g_offset g + sz =? s_size (abs g)) eqn:Eeq.
    + unfold abs. cbn [g_buf g_junk g_cur g_size g_lastclock g_deltaclock g_clkoff g_active g_unsorted g_offset
                        w_cur w_active w_offset is_null negb]. repeat split; reflexivity.
    + apply Hex. rewrite Hsize in Egt, Eeq. lia.
Qed.

(* ------------------------------------------------------------------ the player's step from the source = PlayerDefs.pstep *)

(* first_event / firstclock / lastclock of struct player <-> p_clk of the model *)
Definition clk_of (q : gplayer) : option (Z * Z) :=
  if q_first_event q =? 0 then Some (q_firstclock q, q_lastclock q) else None.

(* (int64_t) ((uint64_t) a - (uint64_t) b): the wrap-around difference *)
Definition wdiff (a b : Z) : Z := cast_int64 (cast_uint64 (cast_uint64 a - cast_uint64 b)).

(* pstep = restep, then this *)
Definition pop_part (sorted : bool) (st1 : pst) : sres :=
  match pop_max stream_cmp (p_heap st1) with
  | None => SDone
  | Some ((k, id), h') =>
    let first := match p_clk st1 with None => k | Some (f, _) => f end in
    let last := match p_clk st1 with None => k | Some (_, l) => l end in
    if sorted && (k <? last) then SErr VBackPlayer
    else
      match nth id (p_rem st1) [] with
      | [] => SErr VInternal
      | e :: r =>
        SEmit (mkoev id (fst e) (snd e) k (k - first))
              (mkpst h' (upd (p_rem st1) id r) (Some (id, k)) (Some (first, k)))
      end
  end.

Lemma pstep_split sorted offs st :
  pstep sorted offs st = match restep sorted offs st with inl v => SErr v | inr st1 => pop_part sorted st1 end.
Proof. reflexivity. Qed.

(* update_clocks: the backwards check and the three clocks *)
Lemma update_clocks_refines q k :
  let sorted := q_unsorted q =? 0 in
  let first := match clk_of q with None => k | Some (f, _) => f end in
  let last := match clk_of q with None => k | Some (_, l) => l end in
  match m_update_clocks q k with
  | None => sorted && (k <? last) = true
  | Some q' => sorted && (k <? last) = false /\ clk_of q' = Some (first, k) /\
               q_deltaclock q' = wdiff k first /\ q_heap q' = q_heap q /\ q_unsorted q' = q_unsorted q
  end.
Proof.
  unfold m_update_clocks, clk_of. cbv zeta. destruct q as [h fc lc dc np fe un sm ev].
  cbn [q_first_event q_firstclock q_lastclock q_unsorted].
  destruct (fe =? 0) eqn:E; cbn [negb].
  - destruct ((k <? lc) && (un =? 0)) eqn:C.
    + rewrite andb_comm. exact C.
    + cbn. rewrite E. rewrite andb_comm. auto.
  - rewrite Z.ltb_irrefl. cbn. rewrite andb_false_r. auto.
Qed.

(* second half of player_step against the model: same verdict, same heap, clocks, current stream, and the
   emitted event carries sclock = the popped key and dclock = its (wrap-around) distance to firstclock.
   Hypothesis Hkey: the key of a heap node is the lastclock of its stream (heap_insert stored it and the
   stream was not stepped since), and the popped stream has an event loaded (PlayerProofs' invariant). *)
Theorem pop_emit_refines st1 (pst1 : pst) :
  let sorted := q_unsorted (pl st1) =? 0 in
  q_heap (pl st1) = p_heap pst1 -> clk_of (pl st1) = p_clk pst1 ->
  (forall k id h', pop_max stream_cmp (p_heap pst1) = Some ((k, id), h') ->
     g_lastclock (nth id (streams st1) g0) = k /\ nth id (p_rem pst1) [] <> []) ->
  match pop_part sorted pst1, m_pop_emit st1 with
  | SDone, Stop s => s = st1
  | SErr v, Fail e => v = VBackPlayer /\ e = E_FAIL
  | SEmit o pst2, Done _ st2 =>
      streams st2 = streams st1 /\ q_heap (pl st2) = p_heap pst2 /\ clk_of (pl st2) = p_clk pst2 /\
      p_cur pst2 = option_map (fun id => (id, g_lastclock (nth id (streams st2) g0))) (q_stream (pl st2)) /\
      q_stream (pl st2) = Some (o_id o) /\
      q_ev (pl st2) = Some (g_cur (nth (o_id o) (streams st1) g0), o_sclock o,
                            wdiff (o_sclock o) (o_sclock o - o_dclock o))
  | _, _ => False
  end.
Proof.
  intros sorted Hh Hc Hkey. unfold pop_part, m_pop_emit. rewrite Hh.
  destruct (pop_max stream_cmp (p_heap pst1)) as [[[k id] h']|] eqn:P; [|reflexivity].
  destruct (Hkey k id h' eq_refl) as [Hk Hne]. rewrite Hk.
  pose proof (update_clocks_refines (w_heap h' (pl st1)) k) as U. cbv zeta in U.
  assert (Ec : clk_of (w_heap h' (pl st1)) = p_clk pst1) by (rewrite <- Hc; destruct (pl st1); reflexivity).
  assert (Eu : (q_unsorted (w_heap h' (pl st1)) =? 0) = sorted) by (destruct (pl st1); reflexivity).
  rewrite Ec, Eu in U.
  destruct (m_update_clocks (w_heap h' (pl st1)) k) as [q|].
  - destruct U as (U1 & U2 & U3 & U4 & U5). rewrite U1.
    destruct (nth id (p_rem pst1) []) as [|e r] eqn:R; [congruence|].
    cbn [streams pl o_id o_sclock o_dclock p_heap p_clk p_cur].
    destruct q as [h fc lc dc np fe un sm ev].
    cbn [q_heap q_stream q_ev q_lastclock q_deltaclock q_first_event q_firstclock w_ev w_stream w_heap] in *.
    assert (Eclk : clk_of (mk_gplayer h fc lc dc np fe un (Some id) (Some (g_cur (nth id (streams st1) g0), lc, dc))) =
                   clk_of (mk_gplayer h fc lc dc np fe un sm ev)) by reflexivity.
    unfold clk_of in U2 at 1. cbn [q_first_event q_firstclock q_lastclock] in U2.
    destruct (fe =? 0) eqn:Efe; [|discriminate]. injection U2 as Efc Elc.
    split; [reflexivity|]. split; [exact U4|]. split.
    { unfold clk_of, w_ev, w_stream. cbn [q_first_event q_firstclock q_lastclock]. rewrite Efe, Efc, Elc. reflexivity. }
    split; [cbn [option_map]; rewrite Hk; reflexivity|]. split; [reflexivity|].
    rewrite Elc, U3. repeat f_equal. lia.
  - rewrite U. auto.
Qed.

(* what the byte level owes the player model for the stream delivered last (its remaining events are
   `rem`, the next one at the head): stream_step ends the stream when none is left, refuses a backwards clock
   when sorted, and otherwise loads the next event with lastclock = its corrected clock.  This is what
   stream_step_refines + the tiling theorems of C19/C12 give for a well-formed stream. *)
Definition stream_iface (sorted : bool) (offs : list Z) (st : pstate) (id : nat) (slast : Z) (rem : list PlayerDefs.ev) : Prop :=
  let g := nth id (streams st) g0 in
  match rem with
  | [] => (g_active g =? 0) = true \/
          ((g_active g =? 0) = false /\ exists g', m_stream_step st id = Some (false, g'))
  | e :: _ =>
    (g_active g =? 0) = false /\
    if sorted && (corr offs id e <? slast) then m_stream_step st id = None
    else exists g', m_stream_step st id = Some (true, g') /\ g_lastclock g' = corr offs id e
  end.

(* first half of player_step (step_stream on the stream delivered last) against PlayerDefs.restep *)
Theorem restep_refines sorted offs st (ps : pst) id slast :
  p_cur ps = Some (id, slast) -> q_heap (pl st) = p_heap ps ->
  stream_iface sorted offs st id slast (nth id (p_rem ps) []) ->
  match restep sorted offs ps, m_step_stream st id with
  | inl v, Fail e => v = VBackStream id /\ e = E_FAIL
  | inr ps1, Done _ st1 | inr ps1, Stop st1 =>
      q_heap (pl st1) = p_heap ps1 /\ p_rem ps1 = p_rem ps /\ p_clk ps1 = p_clk ps /\ p_cur ps1 = p_cur ps /\
      clk_of (pl st1) = clk_of (pl st) /\ q_unsorted (pl st1) = q_unsorted (pl st) /\ q_stream (pl st1) = q_stream (pl st)
  | _, _ => False
  end.
Proof.
  intros Hcur Hh Hi. unfold restep, m_step_stream. rewrite Hcur. unfold stream_iface in Hi. cbv zeta in Hi.
  destruct (nth id (p_rem ps) []) as [|e r].
  - destruct Hi as [Ha|[Ha [g' Hg]]]; rewrite Ha.
    + repeat split; auto.
    + rewrite Hg. cbn [pl put]. repeat split; auto.
  - destruct Hi as [Ha Hi]. rewrite Ha.
    destruct (sorted && (corr offs id e <? slast)).
    + rewrite Hi. auto.
    + destruct Hi as [g' [Hg Hl]]. rewrite Hg, Hl. cbn [pl p_heap p_rem p_clk p_cur].
      destruct (pl st); cbn in *. rewrite Hh. repeat split; auto.
Qed.

(* ------------------------------------------------------------------ exported combinations *)

(* stream_step as regenerated from stream.c against StreamDefs.stream_step (the model of C19/C12): same
   outcome (0 / +1 / -1), same new cursor, lastclock, active/cur flags; deltaclock is the wrap-around
   difference; and from a state of the walk the model's out-of-bounds / overflow outcomes do not arise *)
Theorem stream_step_from_source sx st id :
  (id < length (streams st))%nat ->
  let g := nth id (streams st) g0 in
  gwf id g -> inv (abs g) -> s_size (abs g) < 2 ^ 63 ->
  match stream_step (abs g), Stepper_gen.stream_step (Some id) sx st with
  | ROk s', Done _ st' =>
      exists g', st' = put st id g' /\ abs g' = s' /\ gwf id g' /\
                 g_deltaclock g' = cast_int64 (cast_uint64 (cast_uint64 (s_lastclock s') - cast_uint64 (g_lastclock g)))
  | REnd s', Stop st' => exists g', st' = put st id g' /\ abs g' = s' /\ g_active g' = 0 /\ g_cur g' = None
  | RErr _, Fail e => e = E_FAIL
  | _, _ => False
  end.
Proof.
  intros Hid g Hw Hi Hs. rewrite (stream_step_gen sx st id Hid).
  pose proof (stream_step_refines st id Hw Hi Hs) as R. fold g in R.
  destruct (stream_step (abs g)); destruct (m_stream_step st id) as [[[|] g']|]; cbn [lift_step]; try contradiction.
  - exists g'. tauto.
  - exists g'. tauto.
  - reflexivity.
Qed.

(* the three functions of player.c = their hand-written readings *)
Theorem player_functions_from_source sx st :
  (forall id, (id < length (streams st))%nat -> Stepper_gen.step_stream (Some tt) (Some id) sx st = m_step_stream st id) /\
  (forall id, Stepper_gen.update_clocks (Some tt) (Some id) sx st =
              match m_update_clocks (pl st) (g_lastclock (nth id (streams st) g0)) with
              | None => Fail E_FAIL
              | Some q => Done tt (mk_pstate (streams st) q)
              end) /\
  ((forall id, q_stream (pl st) = Some id -> (id < length (streams st))%nat) ->
   Stepper_gen.player_step (Some tt) sx st = m_player_step st).
Proof.
  split; [|split].
  - intros id H. apply step_stream_gen. exact H.
  - intros id. apply update_clocks_gen.
  - apply player_step_gen.
Qed.

Theorem stream_refusals_from_source :
  (forall sx st id, (id < length (streams st))%nat ->
     Stepper_gen.stream_step (Some id) sx st = lift_step st id (m_stream_step st id)) /\
  (forall sx st id, (id < length (streams st))%nat ->
     let g := nth id (streams st) g0 in
     gwf id g -> inv (abs g) -> s_size (abs g) < 2 ^ 63 ->
     ((exists e, stream_step (abs g) = RErr e) <-> Stepper_gen.stream_step (Some id) sx st = Fail E_FAIL)).
Proof.
  split; [exact stream_step_gen|].
  intros sx st id Hid g Hw Hi Hs.
  pose proof (stream_step_from_source sx st id Hid Hw Hi Hs) as R. fold g in R.
  destruct (stream_step (abs g)) eqn:E1; destruct (Stepper_gen.stream_step (Some id) sx st) eqn:E2; try contradiction.
  - split; [intros [e He]; discriminate|discriminate].
  - split; [intros [e He]; discriminate|discriminate].
  - subst. split; [reflexivity|eauto].
Qed.

(* ------------------------------------------------------------------ loading: load_obs / check_stream_header from the source *)

Lemma magic_test a0 a1 a2 a3 :
  negb (memcmp_lit [a0; a1; a2; a3] [111; 118; 110; 105] 4 =? 0) =
  negb (list_eqb [a0; a1; a2; a3] Loader_gen.c_OVNI_STREAM_MAGIC).
Proof.
  unfold memcmp_lit, list_eqb, Loader_gen.c_OVNI_STREAM_MAGIC. change (Z.to_nat 4) with 4%nat.
  cbn [firstn leqb length Nat.eqb combine forallb fst snd andb].
  destruct (a0 =? 111), (a1 =? 118), (a2 =? 110), (a3 =? 105); reflexivity.
Qed.

Theorem load_obs_from_source sx st id path :
  (id < length (streams st))%nat ->
  let g := nth id (streams st) g0 in
  blen (g_buf g) < 2 ^ 63 ->
  match load_obs (g_buf g) (g_junk g) (negb (g_unsorted g =? 0)) with
  | LoadErr _ => Stepper_gen.load_obs (Some id) path sx st = Fail E_FAIL
  | Loaded s =>
      exists g', Stepper_gen.load_obs (Some id) path sx st = Done tt (put st id g') /\
        (g_cur g = None -> g_lastclock g = 0 -> abs g' = s) /\
        (g_cur g = None -> g_clkoff g = 0 -> gwf id g') /\
        g_buf g' = g_buf g /\ g_junk g' = g_junk g
  end.
Proof.
  intros Hid g Hsz.
  unfold load_obs, Stepper_gen.load_obs.
  unfold open, close, load_stream_fd, bind_. unfold bind, ite, need, ret, fail. cbn [is_null negb andb gs].
  change (3 =? - (1)) with false. cbv iota. fold g.
  destruct (blen (g_buf g) =? 0) eqn:E0; [reflexivity|].
  rewrite putp_some by exact Hid. fold g.
  set (g1 := w_size (blen (g_buf g)) g).
  (* check_stream_header on the stream with its size set *)
  unfold Stepper_gen.check_stream_header, check_stream_header.
  unfold bind, eval, ite, need, fail. cbn [is_null negb andb].
  unfold get_stream_size, get_stream_buf, hdr_of_byte, get_ovni_stream_header_magic, get_ovni_stream_header_version.
  cbn [gs is_null negb]. rewrite !nth_put by exact Hid.
  change (cast_int64 Loader_gen.c_sizeof_struct_ovni_stream_header) with 8.
  change Loader_gen.c_sizeof_struct_ovni_stream_header with 8.
  cbn [g1 w_size g_size g_buf g_junk].
  destruct (blen (g_buf g) <? 8) eqn:E8; [reflexivity|].
  unfold magic_of. cbn [seq map]. rewrite magic_test. fold (magic_of (g_buf g) (g_junk g)).
  change (0 + pre_off_magic) with pre_off_magic. change (0 + pre_off_version) with pre_off_version.
  change (cast_uint32 1) with Loader_gen.c_OVNI_STREAM_VERSION.
  set (mb := negb (list_eqb _ Loader_gen.c_OVNI_STREAM_MAGIC)).
  set (vb := negb (rd_le (g_buf g) (g_junk g) pre_off_version 4 =? Loader_gen.c_OVNI_STREAM_VERSION)).
  unfold ret_status, ret, fail, stop1.
  destruct mb, vb; cbn [orb]; try reflexivity.
  change (0 =? 0) with true. cbv iota.
  unfold set_stream_offset, set_stream_usize, set_stream_active, get_stream_offset, get_stream_size.
  stp Hid. change (g_size g1) with (blen (g_buf g)). subst g1.
  destruct (8 <? blen (g_buf g)) eqn:E1.
  - stp Hid. eexists. split; [reflexivity|]. unfold abs, gwf.
    cbn [w_active w_offset w_size g_buf g_junk g_cur g_size g_lastclock g_deltaclock g_clkoff g_active g_unsorted g_offset].
    repeat split; auto.
    + intros Hc Hl. rewrite Hc, Hl. reflexivity.
  - destruct (8 =? blen (g_buf g)) eqn:E2; [|reflexivity].
    stp Hid. eexists. split; [reflexivity|]. unfold abs, gwf.
    cbn [w_active w_offset w_size g_buf g_junk g_cur g_size g_lastclock g_deltaclock g_clkoff g_active g_unsorted g_offset].
    repeat split; auto.
    + intros Hc Hl. rewrite Hc, Hl. reflexivity.
Qed.

(* ------------------------------------------------------------------ check_clock_gate from the source = PlayerDefs.gate_ok *)

(* the corrected clock of the loaded event of an active stream, as check_clock_gate reads it *)
Definition sclk (st : pstate) (id : nat) : list Z :=
  let g := nth id (streams st) g0 in
  if g_active g =? 0 then [] else [cast_int64 (get_header_clock (evview st (g_cur g))) + g_clkoff g].
Definition active_clocks (st : pstate) (ids : list nat) : list Z := flat_map (sclk st) ids.

(* PlayerDefs.gate_ok on a list of first clocks *)
Definition gate_of (l : list Z) : bool :=
  match l with [] => true | t0 :: _ => forallb (fun c => Z.abs (t0 - c) <=? MAXGATE) l end.

Lemma gate_ok_of ss : gate_ok ss = gate_of (first_clocks ss).
Proof. reflexivity. Qed.

Definition gstep1 (c : Z * Z * Z) (x : Z) : Z * Z * Z :=
  let '(f, t, r) := c in
  let t' := if negb (f =? 0) then x else t in
  (0, t', if Z.abs (t' - x) >? MAXGATE then -1 else r).
Definition gfold (c : Z * Z * Z) (l : list Z) : Z * Z * Z := fold_left gstep1 l c.

Lemma foreach_gate (body : ptr_stream -> Z * Z * Z -> M (Z * Z * Z)) sx st :
  (forall id c, body (Some id) c sx st = Done (gfold c (sclk st id)) st) ->
  forall ids c, foreach_ids ids body c sx st = Done (gfold c (active_clocks st ids)) st.
Proof.
  intros Hb. induction ids as [|i t IH]; intros c; cbn [foreach_ids active_clocks flat_map]; [reflexivity|].
  rewrite Hb. unfold gfold. rewrite fold_left_app. apply IH.
Qed.

Lemma gfold_started l : forall t r,
  gfold (0, t, r) l = (0, t, if forallb (fun c => Z.abs (t - c) <=? MAXGATE) l then r else -1).
Proof.
  induction l as [|x l IH]; intros t r; cbn [gfold fold_left forallb]; [reflexivity|].
  unfold gstep1 at 2. cbn [Z.eqb negb]. fold (gfold (0, t, if Z.abs (t - x) >? MAXGATE then -1 else r) l). rewrite IH.
  destruct (Z.gtb_spec (Z.abs (t - x)) MAXGATE); destruct (Z.leb_spec (Z.abs (t - x)) MAXGATE); try lia; cbn [andb].
  - destruct (forallb _ l); reflexivity.
  - reflexivity.
Qed.

Lemma gfold_gate l : let '(_, _, r) := gfold (1, 0, 0) l in (r =? 0) = gate_of l.
Proof.
  destruct l as [|x l]; [reflexivity|]. cbn [gfold fold_left gate_of]. unfold gstep1 at 2. cbn [Z.eqb negb].
  rewrite Z.sub_diag. change (Z.abs 0 >? MAXGATE) with false. cbv iota.
  fold (gfold (0, x, 0) l). rewrite gfold_started. cbn [forallb]. rewrite Z.sub_diag.
  change (Z.abs 0 <=? MAXGATE) with true. cbn [andb].
  destruct (forallb _ l); reflexivity.
Qed.

Theorem check_clock_gate_gen sx st :
  Stepper_gen.check_clock_gate (Some tt) sx st =
  if gate_of (active_clocks st (seq 0 (length (streams st)))) then Done tt st else Fail E_FAIL.
Proof.
  unfold Stepper_gen.check_clock_gate. unfold bind, eval, foreach_stream.
  match goal with |- context [foreach_ids ?ids ?bd ?c sx st] =>
    rewrite (foreach_gate bd sx st)
  end.
  - pose proof (gfold_gate (active_clocks st (seq 0 (length (streams st))))) as G.
    change (1, 0, 0) with (1, 0, 0) in G.
    destruct (gfold (1, 0, 0) (active_clocks st (seq 0 (length (streams st))))) as [[f t] r].
    unfold ite, fail, ret. rewrite <- G. destruct (r =? 0); reflexivity.
  - intros id [[f t] r]. unfold need, ite, bind, eval, ret, sclk.
    unfold Stepper_gen.stream_ev_safe, Stepper_gen.stream_ev, Stepper_gen.stream_evclock_safe, Stepper_gen.stream_evclock,
      get_stream_active, get_stream_cur_ev, get_stream_clock_offset, ovni_ev_get_clock, llabs.
    cbn [is_null negb andb gs].
    destruct (g_active (nth id (streams st) g0) =? 0); cbn [negb gfold fold_left]; [reflexivity|].
    unfold gstep1. change (3600 * 1000 * 1000 * 1000) with MAXGATE.
    destruct (Z.eqb_spec f 0) as [->|Hf]; cbn [negb]; destruct (Z.abs _ >? MAXGATE); reflexivity.
Qed.

(* ------------------------------------------------------------------ player_init from the source *)

Lemma m_step_stream_len st id s :
  (m_step_stream st id = Done tt s \/ m_step_stream st id = Stop s) -> length (streams s) = length (streams st).
Proof.
  unfold m_step_stream. destruct (g_active (nth id (streams st) g0) =? 0).
  - intros [H|H]; inversion H; reflexivity.
  - destruct (m_stream_step st id) as [[[|] g]|]; intros [H|H]; inversion H; subst; cbn [streams put]; apply length_upd.
Qed.

Lemma foreach_init unsorted (body : ptr_stream -> unit -> M unit) sx :
  (forall id st, (id < length (streams st))%nat ->
     body (Some id) tt sx st = match m_init_stream unsorted st id with Done _ s | Stop s => Done tt s | Fail e => Fail e end) ->
  forall ids st, (forall i, In i ids -> (i < length (streams st))%nat) ->
    foreach_ids ids body tt sx st = m_init_all unsorted ids st.
Proof.
  intros Hb. induction ids as [|i t IH]; intros st Hin; cbn [foreach_ids m_init_all]; [reflexivity|].
  rewrite Hb by (apply Hin; left; reflexivity).
  assert (Hlen : forall s, (m_init_stream unsorted st i = Done tt s \/ m_init_stream unsorted st i = Stop s) ->
                           length (streams s) = length (streams st)).
  { unfold m_init_stream. intros s H.
    set (st1 := if negb (unsorted =? 0) then put st i (w_unsorted 1 (nth i (streams st) g0)) else st) in *.
    assert (L1 : length (streams st1) = length (streams st)) by (unfold st1; destruct (negb (unsorted =? 0)); [apply put_length|reflexivity]).
    rewrite <- L1. destruct (m_step_stream st1 i) as [[] s'|s'|e] eqn:E.
    - destruct H as [H|H]; inversion H; subst. apply (m_step_stream_len st1 i). left. exact E.
    - destruct H as [H|H]; inversion H; subst. apply (m_step_stream_len st1 i). right. exact E.
    - destruct H as [H|H]; discriminate. }
  destruct (m_init_stream unsorted st i) as [[] s|s|e] eqn:E; try reflexivity.
  - apply IH. intros j Hj. rewrite (Hlen s (or_introl eq_refl)). apply Hin. right. exact Hj.
  - apply IH. intros j Hj. rewrite (Hlen s (or_intror eq_refl)). apply Hin. right. exact Hj.
Qed.

(* player_init(player, trace, unsorted) as generated = reset of the player, the first step of every stream in list order
   (unsorted flag first when asked), then check_clock_gate when sorted *)
Theorem player_init_gen unsorted sx st :
  Stepper_gen.player_init (Some tt) (Some tt) unsorted sx st =
  let st0 := mk_pstate (streams st) (mk_gplayer [] 0 0 0 0 1 unsorted None None) in
  match m_init_all unsorted (seq 0 (length (streams st))) st0 with
  | Done _ s =>
      if unsorted =? 0
      then (if gate_of (active_clocks s (seq 0 (length (streams s)))) then Done tt s else Fail E_FAIL)
      else Done tt s
  | Stop s => Stop s
  | Fail e => Fail e
  end.
Proof.
  unfold Stepper_gen.player_init.
  unfold bind_ at 1 2 3 4 5 6. unfold bind at 1 2 3 4 5 6.
  unfold zero_player, heap_init, set_player_first_event, set_player_stream, set_player_trace, set_player_unsorted,
    addr_player_heap, putq, need, eval, bind. cbn [is_null negb streams pl q0 w_heap w_first_event w_stream w_qunsorted
    q_heap q_firstclock q_lastclock q_deltaclock q_nprocessed q_first_event q_unsorted q_stream q_ev].
  change (w_qunsorted unsorted (w_stream None (w_first_event 1 (w_heap [] q0)))) with (mk_gplayer [] 0 0 0 0 1 unsorted None None).
  cbv zeta. set (st0 := mk_pstate (streams st) (mk_gplayer [] 0 0 0 0 1 unsorted None None)).
  unfold foreach_stream. change (length (streams st0)) with (length (streams st)).
  match goal with |- context [foreach_ids ?ids ?bd tt sx st0] => rewrite (foreach_init unsorted bd sx) end.
  - destruct (m_init_all unsorted (seq 0 (length (streams st))) st0) as [[] s|s|e]; try reflexivity.
    unfold bind_, bind, ite, ret. destruct (unsorted =? 0); [|reflexivity].
    rewrite check_clock_gate_gen. destruct (gate_of _); reflexivity.
  - intros id st1 Hid. unfold ite, m_init_stream.
    assert (K : forall st2, (id < length (streams st2))%nat ->
      match status (Stepper_gen.step_stream (Some tt) (Some id)) sx st2 with
      | Done a st' => if a >? 0 then ret tt sx st' else if a <? 0 then fail E_FAIL sx st' else ret tt sx st'
      | Stop st' => Stop st'
      | Fail e => Fail e
      end = match m_step_stream st2 id with Done _ s | Stop s => Done tt s | Fail e => Fail e end).
    { intros st2 H2. unfold status. rewrite (step_stream_gen sx st2 id H2).
      destruct (m_step_stream st2 id) as [[] s|s|e]; try reflexivity.
      destruct (Nat.eqb_spec e E_FAIL) as [->|Hne]; reflexivity. }
    destruct (negb (unsorted =? 0)).
    + unfold bind_, bind. rewrite (stream_allow_unsorted_gen sx st1 id Hid).
      rewrite K by (rewrite put_length; exact Hid).
      destruct (m_step_stream _ id) as [[] s|s|e]; reflexivity.
    + rewrite K by exact Hid. destruct (m_step_stream st1 id) as [[] s|s|e]; reflexivity.
  - intros i Hi. apply in_seq in Hi. cbn [st0 streams]. lia.
Qed.

(* ------------------------------------------------------------------ the load refusals of C12, for the generated load_obs *)
From OV Require Import Emu.LoaderSpec.

Lemma run_load_err bs junk u e : run bs junk u = RunLoadErr e -> load_obs bs junk u = LoadErr e.
Proof.
  unfold run, run_with. destruct (load_obs bs junk u) as [e'|s]; [intros H; inversion H; reflexivity|].
  destruct (s_active s); [destruct (walk _ _ s)|]; discriminate.
Qed.

Theorem load_refusals_from_source sx st id path :
  (id < length (streams st))%nat ->
  let g := nth id (streams st) g0 in
  blen (g_buf g) < 2 ^ 63 ->
  (blen (g_buf g) < 8 \/
   (exists k, (k < 4)%nat /\ sbyte (g_buf g) (Z.of_nat k) <> nth k spec_magic 0) \/
   sle (g_buf g) 4 4 <> 1) ->
  Stepper_gen.load_obs (Some id) path sx st = Fail E_FAIL.
Proof.
  intros Hid g Hsz H.
  assert (E : exists e, load_obs (g_buf g) (g_junk g) (negb (g_unsorted g =? 0)) = LoadErr e).
  { destruct H as [H|[[k [Hk H]]|H]].
    - destruct (short_rejected (g_buf g) (g_junk g) (negb (g_unsorted g =? 0)) H) as [e He]. exists e. apply run_load_err. exact He.
    - destruct (bad_magic_rejected (g_buf g) (g_junk g) (negb (g_unsorted g =? 0)) k Hk H) as [e He]. exists e. apply run_load_err. exact He.
    - destruct (bad_version_rejected (g_buf g) (g_junk g) (negb (g_unsorted g =? 0)) H) as [e He]. exists e. apply run_load_err. exact He. }
  destruct E as [e E]. pose proof (load_obs_from_source sx st id path Hid Hsz) as L. fold g in L. rewrite E in L. exact L.
Qed.

(* ------------------------------------------------------------------ the byte level against the model's event lists *)

(* cur_ev is NULL or &buf[offset] of the same stream: then stream_step reads only the stream's own record *)
Definition own_cur (id : nat) (g : gstream) : Prop := g_cur g = None \/ g_cur g = Some (id, g_offset g).

(* a state that holds g as stream id: the single-stream reading of stream_step *)
Definition cst (id : nat) (g : gstream) : pstate := mk_pstate (upd (repeat g0 (S id)) id g) q0.
Definition sstep (id : nat) (g : gstream) : option (bool * gstream) := m_stream_step (cst id g) id.

Lemma cst_nth id g : nth id (streams (cst id g)) g0 = g.
Proof. unfold cst. cbn [streams]. apply nth_upd_same. rewrite repeat_length. lia. Qed.

Lemma step_local st st' id :
  nth id (streams st) g0 = nth id (streams st') g0 -> own_cur id (nth id (streams st) g0) ->
  m_stream_step st id = m_stream_step st' id.
Proof.
  intros E Hc. unfold m_stream_step. rewrite <- E. set (g := nth id (streams st) g0) in *.
  destruct Hc as [Hc|Hc]; rewrite Hc; cbn [is_null negb andb evview]; [reflexivity|].
  fold g. rewrite <- E. reflexivity.
Qed.

Lemma step_own st id b g' : own_cur id (nth id (streams st) g0) -> m_stream_step st id = Some (b, g') -> own_cur id g'.
Proof.
  intros _. unfold m_stream_step. set (g := nth id (streams st) g0).
  destruct (g_active g =? 0); [discriminate|].
  destruct (negb (is_null (g_cur g))); cbn [andb].
  - destruct (_ >? g_size g); [discriminate|]. destruct (_ =? g_size g).
    + intros H. inversion H; subst. left. reflexivity.
    + destruct (_ <? 0); [discriminate|]. destruct (_ && _); [discriminate|].
      intros H. inversion H; subst. right. reflexivity.
  - destruct (_ <? 0); [discriminate|]. destruct (_ && _); [discriminate|].
    intros H. inversion H; subst. right. reflexivity.
Qed.

(* the only dependence of stream_step on the unsorted flag is the backwards test *)
Lemma step_flag st id :
  let g := nth id (streams st) g0 in
  own_cur id g ->
  m_stream_step st id =
  match sstep id (w_unsorted 1 g) with
  | None => None
  | Some (false, g') => Some (false, w_unsorted (g_unsorted g) g')
  | Some (true, g') =>
      if (g_unsorted g =? 0) && (g_lastclock g' <? g_lastclock g) then None
      else Some (true, w_unsorted (g_unsorted g) g')
  end.
Proof.
  intros g Hc. unfold sstep, m_stream_step. rewrite cst_nth. fold g.
  assert (Ev : evview (cst id (w_unsorted 1 g)) (g_cur (w_unsorted 1 g)) = evview st (g_cur g)).
  { cbn [w_unsorted g_cur]. destruct Hc as [Hc|Hc]; rewrite Hc; cbn [evview]; [reflexivity|].
    rewrite cst_nth. fold g. reflexivity. }
  rewrite Ev. destruct g as [bf jk cu sz lc dc co ac un of]. cbn [w_unsorted g_active g_cur g_offset g_size g_buf g_junk g_clkoff g_unsorted g_lastclock].
  destruct (ac =? 0); [reflexivity|].
  change (1 =? 0) with false. cbn [andb].
  destruct (negb (is_null cu)); cbn [andb].
  - set (esz := Loader_gen.ovni_ev_size (evview st cu)).
    set (off := of + esz).
    destruct (off >? sz); [reflexivity|]. destruct (off =? sz); [reflexivity|].
    set (nes := LoaderStep_gen.next_ev_size _ _).
    destruct (nes <? 0); [reflexivity|].
    match goal with |- context [cast_int64 ?x + co] => set (cl := cast_int64 x + co) end.
    cbn [w_lastclock w_deltaclock w_cur w_offset g_lastclock g_buf g_junk g_cur g_size g_deltaclock g_clkoff g_active g_unsorted g_offset w_unsorted].
    destruct ((un =? 0) && (cl <? lc)); reflexivity.
  - destruct (_ <? 0); [reflexivity|].
    match goal with |- context [cast_int64 ?x + co] => set (cl := cast_int64 x + co) end.
    cbn [w_lastclock w_deltaclock w_cur w_offset g_lastclock g_buf g_junk g_cur g_size g_deltaclock g_clkoff g_active g_unsorted g_offset w_unsorted].
    destruct ((un =? 0) && (cl <? lc)); reflexivity.
Qed.

(* the events a stream will deliver from its present cursor on: (raw clock, payload) in file order; the payload
   of the model is not observed by the player *)
Inductive Delivers (id : nat) : gstream -> list PlayerDefs.ev -> Prop :=
| D_inactive g : (g_active g =? 0) = true -> Delivers id g []
| D_end g g' : (g_active g =? 0) = false -> sstep id (w_unsorted 1 g) = Some (false, g') -> Delivers id g []
| D_ev g g' e t : (g_active g =? 0) = false -> sstep id (w_unsorted 1 g) = Some (true, g') ->
    g_lastclock g' = fst e + g_clkoff g -> Delivers id (w_unsorted (g_unsorted g) g') t -> Delivers id g (e :: t).

(* hypothesis 1 of C03_player_step_refines_ploop_partial, discharged from Delivers *)
Lemma delivers_iface sorted offs st id rem :
  let g := nth id (streams st) g0 in
  own_cur id g -> Delivers id g rem -> (g_unsorted g =? 0) = sorted -> nth id offs 0 = g_clkoff g ->
  stream_iface sorted offs st id (g_lastclock g) rem.
Proof.
  intros g Hc D Hs Ho. unfold stream_iface. fold g. cbv zeta. rewrite (step_flag st id Hc). fold g.
  inversion D as [g1 Ha E1 E2|g1 g' Ha Hst E1 E2|g1 g' e t Ha Hst Hl Dt E1 E2]; subst.
  - left. exact Ha.
  - right. split; [exact Ha|]. rewrite Hst. eauto.
  - split; [exact Ha|]. rewrite Hst. unfold corr. rewrite Ho, <- Hl.
    destruct (_ && (g_lastclock g' <? g_lastclock g)); [reflexivity|].
    eexists. split; [reflexivity|]. reflexivity.
Qed.

(* what a successful step leaves: the stream delivers the rest, from the new record *)
Lemma delivers_step st id e t b g' :
  let g := nth id (streams st) g0 in
  own_cur id g -> Delivers id g (e :: t) -> m_stream_step st id = Some (b, g') ->
  b = true /\ Delivers id g' t /\ g_lastclock g' = fst e + g_clkoff g /\ g_unsorted g' = g_unsorted g /\
  g_clkoff g' = g_clkoff g /\ (g_active g' =? 0) = false.
Proof.
  intros g Hc D. rewrite (step_flag st id Hc). fold g.
  inversion D as [| |g1 g1' e1 t1 Ha Hst Hl Dt E1 E2]; subst. rewrite Hst.
  destruct ((g_unsorted g =? 0) && (g_lastclock g1' <? g_lastclock g)); [discriminate|].
  intros H. inversion H; subst.
  assert (Hf : g_clkoff g1' = g_clkoff g /\ (g_active g1' =? 0) = false).
  { unfold sstep, m_stream_step in Hst. rewrite cst_nth in Hst.
    destruct (g_active (w_unsorted 1 g) =? 0) eqn:Ea; [discriminate|].
    destruct (negb (is_null (g_cur (w_unsorted 1 g)))); cbn [andb] in Hst.
    + destruct (_ >? _); [discriminate|]. destruct (_ =? g_size _); [discriminate|]. destruct (_ <? 0); [discriminate|].
      destruct (_ && _); [discriminate|]. inversion Hst; subst. destruct g; split; [reflexivity|exact Ea].
    + destruct (_ <? 0); [discriminate|]. destruct (_ && _); [discriminate|]. inversion Hst; subst.
      destruct g; split; [reflexivity|exact Ea]. }
  destruct Hf as [Hf1 Hf2].
  split; [reflexivity|]. split; [exact Dt|]. split; [exact Hl|]. split; [reflexivity|]. split; [exact Hf1|exact Hf2].
Qed.

(* ------------------------------------------------------------------ the simulation invariant *)

Definition hids (h : list hnode) : list nat := map snd h.

Record Core (sorted : bool) (offs : list Z) (st : pstate) (ps : pst) : Prop := {
  co_heap : q_heap (pl st) = p_heap ps;
  co_clk : clk_of (pl st) = p_clk ps;
  co_sorted : (q_unsorted (pl st) =? 0) = sorted;
  co_len : length (p_rem ps) = length (streams st);
  co_nodup : NoDup (hids (p_heap ps));
  co_in : forall k id, In (k, id) (p_heap ps) ->
      (id < length (streams st))%nat /\
      k = g_lastclock (nth id (streams st) g0) /\ (g_unsorted (nth id (streams st) g0) =? 0) = sorted /\
      (g_active (nth id (streams st) g0) =? 0) = false /\
      exists e t, nth id (p_rem ps) [] = e :: t /\ Delivers id (nth id (streams st) g0) t;
  co_out : forall id, (id < length (streams st))%nat -> ~ In id (hids (p_heap ps)) ->
      Delivers id (nth id (streams st) g0) (nth id (p_rem ps) []);
  co_all : forall id, (id < length (streams st))%nat ->
      own_cur id (nth id (streams st) g0) /\ nth id offs 0 = g_clkoff (nth id (streams st) g0)
}.

Lemma in_hids k id h : In (k, id) h -> In id (hids h).
Proof. intros H. unfold hids. apply in_map_iff. exists (k, id). auto. Qed.

(* a stream that is not in the heap is replaced by a record that delivers the same remaining events *)
Lemma core_frame sorted offs st ps id g' q' :
  Core sorted offs st ps -> (id < length (streams st))%nat -> ~ In id (hids (p_heap ps)) ->
  own_cur id g' -> g_clkoff g' = g_clkoff (nth id (streams st) g0) -> Delivers id g' (nth id (p_rem ps) []) ->
  q_heap q' = q_heap (pl st) -> clk_of q' = clk_of (pl st) -> q_unsorted q' = q_unsorted (pl st) ->
  Core sorted offs (mk_pstate (upd (streams st) id g') q') ps.
Proof.
  intros C Hid Hni Hoc Hco D Hh Hc Hu. destruct C as [C1 C2 C3 C4 C5 C6 C7 C8].
  constructor; cbn [streams pl]; try rewrite length_upd; auto; try congruence.
  - intros k i Hin. destruct (C6 k i Hin) as (H1 & H2 & H3 & H4 & H5).
    assert (i <> id) by (intros ->; apply Hni; eapply in_hids; eauto).
    rewrite nth_upd_other by auto. auto.
  - intros i Hi Hn. destruct (Nat.eq_dec i id) as [->|Hne].
    + rewrite nth_upd_same by exact Hid. exact D.
    + rewrite nth_upd_other by auto. apply C7; auto.
  - intros i Hi. destruct (Nat.eq_dec i id) as [->|Hne].
    + rewrite nth_upd_same by exact Hid. split; [exact Hoc|]. rewrite Hco. apply C8. exact Hid.
    + rewrite nth_upd_other by auto. apply C8. exact Hi.
Qed.

(* a stream that is not in the heap loads its next event and enters the heap *)
Lemma core_load sorted offs st ps id g' e t np :
  Core sorted offs st ps -> (id < length (streams st))%nat -> ~ In id (hids (p_heap ps)) ->
  nth id (p_rem ps) [] = e :: t ->
  own_cur id g' -> g_clkoff g' = g_clkoff (nth id (streams st) g0) -> Delivers id g' t ->
  (g_unsorted g' =? 0) = sorted -> (g_active g' =? 0) = false ->
  Core sorted offs
    (mk_pstate (upd (streams st) id g')
       (w_nprocessed np (w_heap (insert stream_cmp (q_heap (pl st)) (g_lastclock g', id)) (pl st))))
    (mkpst (insert stream_cmp (p_heap ps) (g_lastclock g', id)) (p_rem ps) (p_cur ps) (p_clk ps)).
Proof.
  intros C Hid Hni Hrem Hoc Hco D Hfl Hac. destruct C as [C1 C2 C3 C4 C5 C6 C7 C8].
  pose proof (insert_perm stream_cmp (p_heap ps) (g_lastclock g', id)) as P.
  constructor; cbn [streams pl p_heap p_rem p_cur p_clk].
  - rewrite <- C1. destruct (pl st); reflexivity.
  - rewrite <- C2. destruct (pl st); reflexivity.
  - rewrite <- C3. destruct (pl st); reflexivity.
  - rewrite length_upd. exact C4.
  - eapply Permutation_NoDup; [apply Permutation_sym, Permutation_map; exact P|].
    cbn [map snd]. constructor; assumption.
  - intros k i Hin. apply (Permutation_in _ P) in Hin. destruct Hin as [E|Hin].
    + inversion E; subst. rewrite length_upd. rewrite nth_upd_same by exact Hid. repeat split; auto. exists e, t. auto.
    + destruct (C6 k i Hin) as (H1 & H2 & H3 & H4 & H5).
      assert (i <> id) by (intros ->; apply Hni; eapply in_hids; eauto).
      rewrite length_upd. rewrite nth_upd_other by auto. auto.
  - intros i Hi Hn. rewrite length_upd in Hi.
    assert (Hn' : ~ In i (id :: hids (p_heap ps))).
    { intros X. apply Hn. eapply Permutation_in; [apply Permutation_sym, Permutation_map; exact P|]. exact X. }
    cbn [In] in Hn'. rewrite nth_upd_other by (intros ->; tauto). apply C7; tauto.
  - intros i Hi. rewrite length_upd in Hi. destruct (Nat.eq_dec i id) as [->|Hne].
    + rewrite nth_upd_same by exact Hid. split; [exact Hoc|]. rewrite Hco. apply C8. exact Hid.
    + rewrite nth_upd_other by auto. apply C8. exact Hi.
Qed.

Lemma step_end_facts st id g' :
  m_stream_step st id = Some (false, g') ->
  g_active g' = 0 /\ g_clkoff g' = g_clkoff (nth id (streams st) g0).
Proof.
  unfold m_stream_step. set (g := nth id (streams st) g0).
  destruct (g_active g =? 0); [discriminate|].
  destruct (negb (is_null (g_cur g))); cbn [andb].
  - destruct (_ >? g_size g); [discriminate|]. destruct (_ =? g_size g).
    + intros H. inversion H; subst. destruct g; split; reflexivity.
    + destruct (_ <? 0); [discriminate|]. destruct (_ && _); discriminate.
  - destruct (_ <? 0); [discriminate|]. destruct (_ && _); discriminate.
Qed.

(* step_stream on a stream that is not in the heap, against what restep / pinit do with its remaining events *)
Lemma sim_step_stream sorted offs st ps id :
  Core sorted offs st ps -> (id < length (streams st))%nat -> ~ In id (hids (p_heap ps)) ->
  (g_unsorted (nth id (streams st) g0) =? 0) = sorted ->
  match nth id (p_rem ps) [] with
  | [] => exists st', m_step_stream st id = Stop st' /\ Core sorted offs st' ps /\ pl st' = pl st /\
                     length (streams st') = length (streams st) /\
                     (forall j, j <> id -> nth j (streams st') g0 = nth j (streams st) g0)
  | e :: _ =>
      let k := corr offs id e in
      if sorted && (k <? g_lastclock (nth id (streams st) g0)) then m_step_stream st id = Fail E_FAIL
      else exists st', m_step_stream st id = Done tt st' /\
             Core sorted offs st' (mkpst (insert stream_cmp (p_heap ps) (k, id)) (p_rem ps) (p_cur ps) (p_clk ps)) /\
             q_stream (pl st') = q_stream (pl st) /\ length (streams st') = length (streams st) /\
             g_lastclock (nth id (streams st') g0) = k /\ (g_unsorted (nth id (streams st') g0) =? 0) = sorted /\
             (forall j, j <> id -> nth j (streams st') g0 = nth j (streams st) g0)
  end.
Proof.
  intros C Hid Hni Hfl. set (g := nth id (streams st) g0) in *.
  pose proof (co_out _ _ _ _ C id Hid Hni) as D. fold g in D.
  destruct (co_all _ _ _ _ C id Hid) as [Hoc Hoff]. fold g in Hoc, Hoff.
  unfold m_step_stream. fold g.
  destruct (nth id (p_rem ps) []) as [|e t] eqn:Erem.
  - inversion D as [g1 Ha E1 E2|g1 g' Ha Hst E1 E2|]; subst.
    + rewrite Ha. exists st. split; [reflexivity|]. split; [exact C|]. split; [reflexivity|]. split; [reflexivity|]. auto.
    + rewrite Ha. rewrite (step_flag st id Hoc). fold g. rewrite Hst.
      set (g'' := w_unsorted (g_unsorted g) g').
      assert (Hs : m_stream_step st id = Some (false, g'')) by (rewrite (step_flag st id Hoc); fold g; rewrite Hst; reflexivity).
      destruct (step_end_facts st id g'' Hs) as [Hia Hco]. fold g in Hco.
      exists (put st id g''). split; [reflexivity|]. split; [|split; [reflexivity|split; [apply put_length|]]].
      2:{ intros j Hj. unfold put. cbn [streams]. apply nth_upd_other. exact Hj. }
      unfold put. apply core_frame; auto.
      * eapply step_own; [|exact Hs]. exact Hoc.
      * rewrite Erem. apply D_inactive. rewrite Hia. reflexivity.
  - cbv zeta. pose proof D as D0.
    inversion D as [| |g1 g' e1 t1 Ha Hst Hl Dt E1 E2]; subst. rewrite Ha.
    pose proof (step_flag st id Hoc) as SF. fold g in SF. rewrite Hst in SF.
    unfold corr. rewrite Hoff, <- Hl.
    destruct ((g_unsorted g =? 0) && (g_lastclock g' <? g_lastclock g)) eqn:X.
    + rewrite SF. reflexivity.
    + set (g'' := w_unsorted (g_unsorted g) g') in *.
      destruct (delivers_step st id e t true g'' Hoc D0 SF) as (_ & Dt' & Hl' & Hu' & Hc' & Ha').
      fold g in Hl', Hu', Hc'.
      rewrite SF. eexists. split; [reflexivity|].
      assert (Elc : g_lastclock g'' = g_lastclock g') by reflexivity.
      rewrite <- Elc.
      split; [|cbn [streams pl]; rewrite length_upd, nth_upd_same by exact Hid; repeat split; try reflexivity;
                try (intros j Hj; apply nth_upd_other; exact Hj)].
      apply core_load with (e := e) (t := t); auto;
          try (eapply step_own; [|exact SF]; exact Hoc); try (rewrite Hu'; reflexivity).
Qed.

Record Sim (sorted : bool) (offs : list Z) (st : pstate) (ps : pst) : Prop := {
  si_core : Core sorted offs st ps;
  si_cur : p_cur ps = option_map (fun id => (id, g_lastclock (nth id (streams st) g0))) (q_stream (pl st));
  si_curin : forall id, q_stream (pl st) = Some id ->
      (id < length (streams st))%nat /\ ~ In id (hids (p_heap ps)) /\ (g_unsorted (nth id (streams st) g0) =? 0) = sorted
}.

(* what the player hands to emu_ev for a delivered event of the model *)
Definition obs_of (st1 : pstate) (o : oev) : option (ptr_ev * Z * Z) :=
  Some (g_cur (nth (o_id o) (streams st1) g0), o_sclock o, wdiff (o_sclock o) (o_sclock o - o_dclock o)).

Lemma pop_sim sorted offs st1 ps1 :
  Core sorted offs st1 ps1 ->
  match pop_part sorted ps1, m_pop_emit st1 with
  | SDone, Stop s => s = st1
  | SErr v, Fail e => v = VBackPlayer /\ e = E_FAIL
  | SEmit o ps2, Done _ st2 => Sim sorted offs st2 ps2 /\ q_ev (pl st2) = obs_of st1 o /\ streams st2 = streams st1
  | _, _ => False
  end.
Proof.
  intros C. unfold pop_part, m_pop_emit. rewrite (co_heap _ _ _ _ C).
  destruct (pop_max stream_cmp (p_heap ps1)) as [[[k id] h']|] eqn:P; [|reflexivity].
  pose proof (pop_max_perm stream_cmp _ _ _ P) as PP.
  assert (Hin : In (k, id) (p_heap ps1)) by (eapply Permutation_in; [exact PP|left; reflexivity]).
  destruct (co_in _ _ _ _ C k id Hin) as (Hid & Hk & Hfl & Hac & e & t & Hrem & Dt).
  rewrite <- Hk.
  pose proof (update_clocks_refines (w_heap h' (pl st1)) k) as U. cbv zeta in U.
  assert (Ec : clk_of (w_heap h' (pl st1)) = p_clk ps1) by (rewrite <- (co_clk _ _ _ _ C); destruct (pl st1); reflexivity).
  assert (Eu : (q_unsorted (w_heap h' (pl st1)) =? 0) = sorted) by (rewrite <- (co_sorted _ _ _ _ C); destruct (pl st1); reflexivity).
  rewrite Ec, Eu in U.
  assert (ND : NoDup (id :: hids h')).
  { eapply Permutation_NoDup; [apply Permutation_sym, (Permutation_map snd PP)|]. exact (co_nodup _ _ _ _ C). }
  apply NoDup_cons_iff in ND as [Hnid NDh].
  destruct (m_update_clocks (w_heap h' (pl st1)) k) as [q|].
  2:{ rewrite U. auto. }
  destruct U as (U1 & U2 & U3 & U4 & U5). rewrite U1. rewrite Hrem.
  set (first := match p_clk ps1 with Some (f, _) => f | None => k end) in *.
  assert (Eheap : q_heap q = h') by (rewrite U4; destruct (pl st1); reflexivity).
  assert (Hlr : (id < length (p_rem ps1))%nat) by (rewrite (co_len _ _ _ _ C); exact Hid).
  split; [|split; [|reflexivity]].
  - constructor; cbn [streams pl p_heap p_rem p_cur p_clk].
    + constructor; cbn [streams pl p_heap p_rem p_cur p_clk].
      * destruct q; exact Eheap.
      * rewrite <- U2. destruct q; reflexivity.
      * rewrite <- (co_sorted _ _ _ _ C). replace (q_unsorted (w_ev _ (w_stream (Some id) q))) with (q_unsorted q) by (destruct q; reflexivity).
        rewrite U5. destruct (pl st1); reflexivity.
      * rewrite length_upd. exact (co_len _ _ _ _ C).
      * exact NDh.
      * intros k' i Hi'.
        assert (Hi : In (k', i) (p_heap ps1)) by (eapply Permutation_in; [exact PP|right; exact Hi']).
        destruct (co_in _ _ _ _ C k' i Hi) as (A1 & A2 & A3 & A4 & A5).
        assert (i <> id) by (intros ->; apply Hnid; eapply in_hids; eauto).
        rewrite nth_upd_other by auto. auto.
      * intros i Hi Hn. destruct (Nat.eq_dec i id) as [->|Hne].
        -- rewrite nth_upd_same by exact Hlr. exact Dt.
        -- rewrite nth_upd_other by auto. apply (co_out _ _ _ _ C); auto.
           intros X. apply (Permutation_in _ (Permutation_sym (Permutation_map snd PP))) in X.
           cbn [map snd] in X. destruct X as [X|X]; [congruence|exact (Hn X)].
      * exact (co_all _ _ _ _ C).
    + replace (q_stream (w_ev _ (w_stream (Some id) q))) with (Some id) by (destruct q; reflexivity).
      cbn [option_map]. rewrite <- Hk. reflexivity.
    + intros i Hi. replace (q_stream (w_ev _ (w_stream (Some id) q))) with (Some id) in Hi by (destruct q; reflexivity).
      inversion Hi; subst. auto.
  - unfold obs_of. cbn [o_id o_sclock o_dclock].
    replace (q_ev (w_ev _ (w_stream (Some id) q))) with (Some (g_cur (nth id (streams st1) g0), q_lastclock q, q_deltaclock q)) by (destruct q; reflexivity).
    unfold clk_of in U2. destruct (q_first_event q =? 0); [|discriminate]. injection U2 as Ef El.
    rewrite U3, El. replace (k - (k - first)) with first by lia. reflexivity.
Qed.

(* one player_step: the invariant is kept, verdicts agree, the emitted event carries the model's clocks *)
Theorem player_step_sim sorted offs st ps :
  Sim sorted offs st ps ->
  match pstep sorted offs ps, m_player_step st with
  | SDone, Stop _ => True
  | SErr _, Fail e => e = E_FAIL
  | SEmit o ps2, Done _ st2 => Sim sorted offs st2 ps2 /\ q_ev (pl st2) = obs_of st2 o /\
                               length (streams st2) = length (streams st)
  | _, _ => False
  end.
Proof.
  intros [C Hcur Hin]. rewrite pstep_split. unfold m_player_step, restep.
  assert (Fin : forall st1 ps1, Core sorted offs st1 ps1 -> length (streams st1) = length (streams st) ->
    match pop_part sorted ps1, m_pop_emit st1 with
    | SDone, Stop _ => True
    | SErr _, Fail e => e = E_FAIL
    | SEmit o ps2, Done _ st2 => Sim sorted offs st2 ps2 /\ q_ev (pl st2) = obs_of st2 o /\
                                 length (streams st2) = length (streams st)
    | _, _ => False
    end).
  { intros st1 ps1 C1 L1. pose proof (pop_sim sorted offs st1 ps1 C1) as PS.
    destruct (pop_part sorted ps1) as [|v|o ps2]; destruct (m_pop_emit st1) as [[] st2|s|e]; try contradiction; auto.
    - destruct PS; auto.
    - destruct PS as (S2 & E2 & E3). split; [exact S2|]. split; [|rewrite E3; exact L1].
      unfold obs_of in *. rewrite E3. exact E2. }
  destruct (q_stream (pl st)) as [id|] eqn:Eq; cbn [option_map] in Hcur; rewrite Hcur.
  - destruct (Hin id eq_refl) as (Hid & Hni & Hfl).
    pose proof (sim_step_stream sorted offs st ps id C Hid Hni Hfl) as SS.
    destruct (nth id (p_rem ps) []) as [|e t].
    + destruct SS as (st' & E & C' & Hp & L & _). rewrite E. apply Fin; assumption.
    + cbv zeta in SS. destruct (sorted && (corr offs id e <? g_lastclock (nth id (streams st) g0))).
      * rewrite SS. reflexivity.
      * destruct SS as (st' & E & C' & Hq & L & _). rewrite E. rewrite Hcur in C'. apply Fin; [exact C'|exact L].
  - apply Fin; auto.
Qed.

(* ------------------------------------------------------------------ repeated player_step = ploop *)

Definition E_LOOPFUEL := 97%nat.
(* the emulator's main loop: while (player_step(player) == 0) consume player_ev: the arguments of emu_ev, in order *)
Fixpoint m_loop (fuel : nat) (st : pstate) : list (option (ptr_ev * Z * Z)) * res unit :=
  match fuel with
  | O => ([], Fail E_LOOPFUEL)
  | S f => match m_player_step st with
           | Done _ st' => let (l, r) := m_loop f st' in (q_ev (pl st') :: l, r)
           | r => ([], r)
           end
  end.

Definition clocks_of (x : option (ptr_ev * Z * Z)) : option (Z * Z) := option_map (fun y => (snd (fst y), snd y)) x.
Definition model_clocks (o : oev) : option (Z * Z) := Some (o_sclock o, wdiff (o_sclock o) (o_sclock o - o_dclock o)).

Definition verdict_rel (v : PlayerDefs.verdict) (r : res unit) : Prop :=
  match v, r with
  | PlayerDefs.VOk, Stop _ => True
  | PlayerDefs.VFuel, Fail e => e = E_LOOPFUEL
  | PlayerDefs.VOk, _ | PlayerDefs.VFuel, _ => False
  | _, Fail e => e = E_FAIL
  | _, _ => False
  end.

Lemma pstep_err sorted offs ps v : pstep sorted offs ps = SErr v -> v <> PlayerDefs.VOk /\ v <> PlayerDefs.VFuel.
Proof.
  unfold pstep, restep.
  destruct (p_cur ps) as [[id sl]|].
  - destruct (nth id (p_rem ps) []) as [|e r].
    + destruct (pop_max stream_cmp (p_heap ps)) as [[[k i] h']|]; [|discriminate].
      destruct (sorted && _); [intros H; inversion H; split; discriminate|].
      destruct (nth i (p_rem ps) []); intros H; inversion H; split; discriminate.
    + destruct (sorted && _); [intros H; inversion H; split; discriminate|]. cbn [p_heap p_clk p_rem].
      destruct (pop_max stream_cmp _) as [[[k i] h']|]; [|discriminate].
      destruct (sorted && _); [intros H; inversion H; split; discriminate|].
      destruct (nth i (p_rem ps) []); intros H; inversion H; split; discriminate.
  - destruct (pop_max stream_cmp (p_heap ps)) as [[[k i] h']|]; [|discriminate].
    destruct (sorted && _); [intros H; inversion H; split; discriminate|].
    destruct (nth i (p_rem ps) []); intros H; inversion H; split; discriminate.
Qed.

Theorem loop_sim sorted offs : forall fuel st ps, Sim sorted offs st ps ->
  map clocks_of (fst (m_loop fuel st)) = map model_clocks (fst (ploop sorted offs fuel ps)) /\
  verdict_rel (snd (ploop sorted offs fuel ps)) (snd (m_loop fuel st)).
Proof.
  induction fuel as [|f IH]; intros st ps S; cbn [m_loop ploop].
  - split; reflexivity.
  - pose proof (player_step_sim sorted offs st ps S) as PS.
    destruct (pstep sorted offs ps) as [|v|o ps2] eqn:EP; destruct (m_player_step st) as [[] st2|s|e]; try contradiction.
    + split; reflexivity.
    + split; [reflexivity|]. subst e. destruct (pstep_err _ _ _ _ EP) as [N1 N2].
      destruct v; cbn; auto; congruence.
    + destruct PS as (S2 & E2 & _). destruct (IH st2 ps2 S2) as [I1 I2].
      destruct (m_loop f st2) as [l r]. destruct (ploop sorted offs f ps2) as [l' v']. cbn [fst snd map] in *.
      split; [|exact I2]. f_equal; [|exact I1]. rewrite E2. reflexivity.
Qed.

(* ------------------------------------------------------------------ player_init's loop = pinit *)

Lemma skipn_nth_cons1 {A} (l : list A) d : forall j, (j < length l)%nat -> skipn j l = nth j l d :: skipn (S j) l.
Proof.
  induction l as [|a t IH]; intros [|j] H; cbn [length] in H; try lia; cbn [skipn nth]; [reflexivity|].
  apply IH. lia.
Qed.

Lemma wu_wu u v g : w_unsorted u (w_unsorted v g) = w_unsorted u g.
Proof. destruct g; reflexivity. Qed.

Lemma delivers_flag id g rem : Delivers id g rem -> forall u, Delivers id (w_unsorted u g) rem.
Proof.
  induction 1 as [g Ha|g g' Ha Hs|g g' e t Ha Hs Hl Dt IH]; intros u.
  - apply D_inactive. exact Ha.
  - apply D_end with g'; [exact Ha|]. rewrite wu_wu. exact Hs.
  - apply D_ev with g'; [exact Ha| rewrite wu_wu; exact Hs | exact Hl |].
    specialize (IH u). rewrite wu_wu in IH. exact IH.
Qed.

Lemma init_fold unsorted offs rem : forall m i st h,
  let sorted := unsorted =? 0 in
  (i + m = length (streams st))%nat -> length rem = length (streams st) ->
  Core sorted offs st (mkpst h rem None None) -> q_stream (pl st) = None ->
  (forall j, (i <= j < length (streams st))%nat ->
     ~ In j (hids h) /\ g_lastclock (nth j (streams st) g0) = 0 /\ g_unsorted (nth j (streams st) g0) = 0 /\
     g_cur (nth j (streams st) g0) = None) ->
  match pinit sorted offs i (skipn i rem) h, m_init_all unsorted (seq i m) st with
  | inl _, Fail e => e = E_FAIL
  | inr h', Done _ st' => Core sorted offs st' (mkpst h' rem None None) /\ q_stream (pl st') = None /\
                          length (streams st') = length (streams st)
  | _, _ => False
  end.
Proof.
  induction m as [|m IH]; intros i st h sorted Him Hlr C Hq Hrest.
  - cbn [seq m_init_all]. rewrite skipn_all2 by lia. cbn [pinit]. auto.
  - cbn [seq m_init_all].
    assert (Hi : (i < length (streams st))%nat) by lia.
    rewrite (skipn_nth_cons1 rem [] i) by lia.
    destruct (Hrest i ltac:(lia)) as (Hni & Hlc & Hun & Hcu).
    unfold m_init_stream.
    set (g := nth i (streams st) g0) in *.
    set (st1 := if negb (unsorted =? 0) then put st i (w_unsorted 1 g) else st).
    assert (C1 : Core sorted offs st1 (mkpst h rem None None) /\ length (streams st1) = length (streams st) /\
                 pl st1 = pl st /\ (g_unsorted (nth i (streams st1) g0) =? 0) = sorted /\
                 g_lastclock (nth i (streams st1) g0) = 0 /\
                 (forall j, j <> i -> nth j (streams st1) g0 = nth j (streams st) g0)).
    { unfold st1, sorted. destruct (unsorted =? 0) eqn:E; cbn [negb].
      - split; [exact C|]. split; [reflexivity|]. split; [reflexivity|].
        split; [change (nth i (streams st) g0) with g; rewrite Hun; reflexivity|]. split; [exact Hlc|auto].
      - unfold put. split.
        { apply core_frame; auto.
          - left. exact Hcu.
          - apply delivers_flag. apply (co_out _ _ _ _ C i Hi Hni). }
        split; [cbn [streams]; apply length_upd|]. split; [reflexivity|].
        split; [cbn [streams]; rewrite nth_upd_same by exact Hi; reflexivity|].
        split; [cbn [streams]; rewrite nth_upd_same by exact Hi; exact Hlc|].
        intros j Hj. cbn [streams]. apply nth_upd_other. exact Hj. }
    destruct C1 as (C1 & L1 & P1 & F1 & LC1 & Fr1).
    pose proof (sim_step_stream sorted offs st1 (mkpst h rem None None) i C1 ltac:(lia) Hni F1) as SS.
    cbn [p_rem p_heap p_cur p_clk] in SS. rewrite LC1 in SS.
    destruct (nth i rem []) as [|e t]; cbn [pinit].
    + destruct SS as (st' & E & C' & Hp & L & Fr). rewrite E.
      assert (R := IH (S i) st' h ltac:(lia) ltac:(lia) C' ltac:(congruence)).
      cbv zeta in R. fold sorted in R.
      assert (Hr' : forall j, (S i <= j < length (streams st'))%nat ->
                ~ In j (hids h) /\ g_lastclock (nth j (streams st') g0) = 0 /\ g_unsorted (nth j (streams st') g0) = 0 /\
                g_cur (nth j (streams st') g0) = None).
      { intros j Hj. rewrite L, L1 in Hj. rewrite (Fr j) by lia. rewrite (Fr1 j) by lia. apply Hrest. lia. }
      specialize (R Hr').
      destruct (pinit sorted offs (S i) (skipn (S i) rem) h); destruct (m_init_all unsorted (seq (S i) m) st') as [[] s|s|e0];
        try exact R. destruct R as (R1 & R2 & R3). split; [exact R1|]. split; [exact R2|]. lia.
    + cbv zeta in SS. fold sorted. destruct (sorted && (corr offs i e <? 0)).
      * rewrite SS. reflexivity.
      * destruct SS as (st' & E & C' & Hq' & L & _ & _ & Fr). rewrite E.
        assert (R := IH (S i) st' (insert stream_cmp h (corr offs i e, i)) ltac:(lia) ltac:(lia) C' ltac:(congruence)).
        cbv zeta in R. fold sorted in R.
        assert (Hr' : forall j, (S i <= j < length (streams st'))%nat ->
                  ~ In j (hids (insert stream_cmp h (corr offs i e, i))) /\ g_lastclock (nth j (streams st') g0) = 0 /\
                  g_unsorted (nth j (streams st') g0) = 0 /\ g_cur (nth j (streams st') g0) = None).
        { intros j Hj. rewrite L, L1 in Hj. rewrite (Fr j) by lia. rewrite (Fr1 j) by lia.
          destruct (Hrest j ltac:(lia)) as (A1 & A2 & A3 & A4). repeat split; auto.
          intros X. apply (Permutation_in _ (Permutation_map snd (insert_perm stream_cmp h (corr offs i e, i)))) in X.
          cbn [map snd] in X. destruct X as [X|X]; [lia|exact (A1 X)]. }
        specialize (R Hr').
        destruct (pinit sorted offs (S i) (skipn (S i) rem) (insert stream_cmp h (corr offs i e, i)));
          destruct (m_init_all unsorted (seq (S i) m) st') as [[] s|s|e0]; try exact R.
        destruct R as (R1 & R2 & R3). split; [exact R1|]. split; [exact R2|]. lia.
Qed.

(* ------------------------------------------------------------------ the whole run *)

(* the loaded trace against the model's streams: nothing stepped yet, offsets set, each stream delivers its events *)
Record InitOk (offs : list Z) (st : pstate) (rem : list (list PlayerDefs.ev)) : Prop := {
  io_len : length rem = length (streams st);
  io_streams : forall id, (id < length (streams st))%nat ->
      let g := nth id (streams st) g0 in
      g_cur g = None /\ g_lastclock g = 0 /\ g_unsorted g = 0 /\ nth id offs 0 = g_clkoff g /\
      Delivers id g (nth id rem [])
}.

Definition player0 (unsorted : Z) (st : pstate) : pstate :=
  mk_pstate (streams st) (mk_gplayer [] 0 0 0 0 1 unsorted None None).

Theorem init_sim unsorted offs st rem :
  InitOk offs st rem ->
  let sorted := unsorted =? 0 in
  match pinit sorted offs 0 rem [], m_init_all unsorted (seq 0 (length (streams st))) (player0 unsorted st) with
  | inl _, Fail e => e = E_FAIL
  | inr h, Done _ st1 => Sim sorted offs st1 (mkpst h rem None None) /\ length (streams st1) = length (streams st)
  | _, _ => False
  end.
Proof.
  intros [Hl Hs] sorted.
  assert (C0 : Core sorted offs (player0 unsorted st) (mkpst [] rem None None)).
  { constructor; cbn [player0 streams pl p_heap p_rem p_cur p_clk q_heap]; auto.
    - constructor.
    - intros k id [].
    - intros id Hid _. apply Hs. exact Hid.
    - intros id Hid. destruct (Hs id Hid) as (A1 & A2 & A3 & A4 & A5). split; [left; exact A1|exact A4]. }
  pose proof (init_fold unsorted offs rem (length (streams st)) 0 (player0 unsorted st) []) as F.
  cbv zeta in F. fold sorted in F. cbn [player0 streams] in F.
  specialize (F eq_refl Hl C0 eq_refl).
  assert (Hr : forall j, (0 <= j < length (streams st))%nat ->
            ~ In j (hids []) /\ g_lastclock (nth j (streams st) g0) = 0 /\ g_unsorted (nth j (streams st) g0) = 0 /\
            g_cur (nth j (streams st) g0) = None).
  { intros j Hj. destruct (Hs j ltac:(lia)) as (A1 & A2 & A3 & A4 & A5). repeat split; auto. }
  specialize (F Hr). cbn [skipn] in F.
  destruct (pinit sorted offs 0 rem []) as [v|h]; destruct (m_init_all unsorted _ (player0 unsorted st)) as [[] st1|s|e]; try exact F.
  destruct F as (C1 & Q1 & L1). split; [|exact L1].
  constructor; [exact C1| rewrite Q1; reflexivity | intros id Hq; rewrite Q1 in Hq; discriminate].
Qed.

(* player_init (reading of C03_player_init_from_source) then the main loop *)
Definition m_run (unsorted : Z) (fuel : nat) (st : pstate) : list (option (ptr_ev * Z * Z)) * res unit :=
  match m_init_all unsorted (seq 0 (length (streams st))) (player0 unsorted st) with
  | Done _ s =>
      if (unsorted =? 0) && negb (gate_of (active_clocks s (seq 0 (length (streams s))))) then ([], Fail E_FAIL)
      else m_loop fuel s
  | Stop s => ([], Stop s)
  | Fail e => ([], Fail e)
  end.

(* PlayerDefs.run for the generated code.  Partial: the gate of the generated check_clock_gate (proved to be gate_of
   of the active streams' loaded clocks) is linked to gate_ok of the model's first clocks by hypothesis Hgate *)
Theorem run_sim unsorted st ss :
  let sorted := unsorted =? 0 in
  let offs := map s_off ss in
  let rem := map s_evs ss in
  InitOk offs st rem ->
  (forall h s, pinit sorted offs 0 rem [] = inr h ->
     m_init_all unsorted (seq 0 (length (streams st))) (player0 unsorted st) = Done tt s ->
     gate_of (active_clocks s (seq 0 (length (streams s)))) = gate_ok ss) ->
  map clocks_of (fst (m_run unsorted (S (total_events ss)) st)) = map model_clocks (fst (PlayerDefs.run sorted ss)) /\
  verdict_rel (snd (PlayerDefs.run sorted ss)) (snd (m_run unsorted (S (total_events ss)) st)).
Proof.
  intros sorted offs rem I Hgate. unfold PlayerDefs.run, m_run. fold offs rem.
  pose proof (init_sim unsorted offs st rem I) as IS. cbv zeta in IS. fold sorted in IS.
  destruct (pinit sorted offs 0 rem []) as [v|h] eqn:EP;
    destruct (m_init_all unsorted (seq 0 (length (streams st))) (player0 unsorted st)) as [[] s|s|e] eqn:EM; try contradiction.
  - subst e. split; [reflexivity|]. cbn [snd].
    (* pinit only fails with VBackStream *)
    assert (exists i, v = VBackStream i) as [i ->].
    { clear -EP. revert EP. generalize (@nil hnode). generalize 0%nat.
      induction rem as [|r t IH]; intros i h EP; cbn [pinit] in EP; [discriminate|].
      destruct r as [|e r'].
      - apply (IH _ _ EP).
      - destruct (sorted && _); [inversion EP; eauto|]. apply (IH _ _ EP). }
    reflexivity.
  - destruct IS as [S1 L1]. rewrite (Hgate h s eq_refl eq_refl). fold sorted.
    destruct (sorted && negb (gate_ok ss)); [split; reflexivity|].
    apply loop_sim. exact S1.
Qed.

(* ------------------------------------------------------------------ the gate after player_init's loop *)

(* the clock check_clock_gate re-reads at cur_ev, for a stream whose cur_ev is &buf[offset] *)
Definition evclk (g : gstream) : Z :=
  cast_int64 (get_header_clock (mk_evp (g_buf g) (g_offset g) (g_junk g))) + g_clkoff g.

(* what the first step of stream i leaves (pure unfolding of the readings) *)
Definition stepped (i : nat) (s : pstate) : Prop :=
  let g := nth i (streams s) g0 in
  ((g_active g =? 0) = true /\ ~ In i (hids (q_heap (pl s)))) \/
  ((g_active g =? 0) = false /\ g_cur g = Some (i, g_offset g) /\ evclk g = g_lastclock g /\
   In (g_lastclock g, i) (q_heap (pl s))).

Lemma init_stream_facts unsorted st i s :
  (i < length (streams st))%nat -> ~ In i (hids (q_heap (pl st))) ->
  g_cur (nth i (streams st) g0) = None ->
  m_init_stream unsorted st i = Done tt s ->
  stepped i s /\ (forall j, j <> i -> nth j (streams s) g0 = nth j (streams st) g0) /\
  length (streams s) = length (streams st) /\
  (forall x, In x (q_heap (pl st)) -> In x (q_heap (pl s))) /\
  (forall j, j <> i -> In j (hids (q_heap (pl s))) -> In j (hids (q_heap (pl st)))).
Proof.
  intros Hi Hni Hcu. unfold m_init_stream.
  set (st1 := if negb (unsorted =? 0) then put st i (w_unsorted 1 (nth i (streams st) g0)) else st).
  assert (H1 : length (streams st1) = length (streams st) /\ pl st1 = pl st /\
               g_cur (nth i (streams st1) g0) = None /\
               (forall j, j <> i -> nth j (streams st1) g0 = nth j (streams st) g0)).
  { unfold st1. destruct (negb (unsorted =? 0)).
    - unfold put. cbn [streams pl]. rewrite length_upd, nth_upd_same by exact Hi. repeat split; auto.
      intros j Hj. apply nth_upd_other. exact Hj.
    - repeat split; auto. }
  destruct H1 as (L1 & P1 & C1 & F1).
  unfold m_step_stream, m_stream_step. set (g := nth i (streams st1) g0) in *.
  destruct (g_active g =? 0) eqn:Ea.
  - intros H. inversion H; subst s. repeat split; auto; try congruence.
    left. fold g. split; [exact Ea|]. rewrite P1. exact Hni.
  - rewrite C1. cbn [is_null negb andb].
    destruct (LoaderStep_gen.next_ev_size _ _ <? 0); [discriminate|].
    destruct (_ && _); [discriminate|].
    intros H. inversion H; subst s. clear H. cbn [streams pl].
    rewrite length_upd. split; [|split; [|split; [exact L1|split]]].
    + right. unfold stepped. cbn [streams pl]. rewrite nth_upd_same by lia.
      cbn [w_lastclock w_deltaclock w_cur w_offset g_active g_cur g_offset g_lastclock g_buf g_junk g_clkoff evclk].
      split; [exact Ea|]. split; [reflexivity|]. split; [reflexivity|].
      destruct (pl st1) as [h1 f1 l1 d1 n1 fe1 u1 s1 e1]; cbn [w_nprocessed w_heap q_heap].
      eapply Permutation_in; [apply Permutation_sym, insert_perm|]. left. reflexivity.
    + intros j Hj. rewrite nth_upd_other by exact Hj. apply F1. exact Hj.
    + intros x Hx. rewrite <- P1 in Hx. destruct (pl st1) as [h1 f1 l1 d1 n1 fe1 u1 s1 e1]; cbn [w_nprocessed w_heap q_heap] in *.
      eapply Permutation_in; [apply Permutation_sym, insert_perm|]. right. exact Hx.
    + intros j Hj Hin. rewrite <- P1. destruct (pl st1) as [h1 f1 l1 d1 n1 fe1 u1 s1 e1]; cbn [w_nprocessed w_heap q_heap] in *.
      unfold hids in *. apply (Permutation_in _ (Permutation_map snd (insert_perm stream_cmp _ _))) in Hin.
      cbn [map snd] in Hin. destruct Hin as [E|Hin]; [congruence|exact Hin].
Qed.

Lemma init_all_facts unsorted : forall m i st s,
  (i + m = length (streams st))%nat ->
  (forall j, (i <= j < length (streams st))%nat -> ~ In j (hids (q_heap (pl st))) /\ g_cur (nth j (streams st) g0) = None) ->
  m_init_all unsorted (seq i m) st = Done tt s ->
  (forall j, (i <= j < length (streams st))%nat -> stepped j s) /\
  (forall j, (j < i)%nat -> nth j (streams s) g0 = nth j (streams st) g0) /\
  length (streams s) = length (streams st) /\
  (forall x, In x (q_heap (pl st)) -> In x (q_heap (pl s))) /\
  (forall j, (j < i)%nat -> In j (hids (q_heap (pl s))) -> In j (hids (q_heap (pl st)))).
Proof.
  induction m as [|m IH]; intros i st s Him Hrest; cbn [seq m_init_all].
  - intros H. inversion H; subst. repeat split; auto. intros j Hj. lia.
  - destruct (Hrest i ltac:(lia)) as [Hni Hcu].
    destruct (m_init_stream unsorted st i) as [[] s1|s1|e] eqn:E1; try discriminate.
    2:{ (* m_init_stream never stops *) unfold m_init_stream in E1. destruct (m_step_stream _ i); discriminate. }
    destruct (init_stream_facts unsorted st i s1 ltac:(lia) Hni Hcu E1) as (S1 & F1 & L1 & M1 & N1).
    intros E2.
    destruct (IH (S i) s1 s ltac:(lia)) as (A1 & A2 & A3 & A4 & A5); [|exact E2|].
    { intros j Hj. rewrite L1 in Hj. rewrite (F1 j) by lia. destruct (Hrest j ltac:(lia)) as [B1 B2].
      split; [|exact B2]. intros X. apply B1. apply N1; [lia|exact X]. }
    split; [|split; [|split; [lia|split]]].
    + intros j Hj. destruct (Nat.eq_dec j i) as [->|Hne].
      * (* stream i: stepped in s1, untouched afterwards *)
        unfold stepped in *. rewrite (A2 i) by lia.
        destruct S1 as [[B1 B2]|(B1 & B2 & B3 & B4)].
        -- left. split; [exact B1|]. intros X. apply B2. apply A5; [lia|exact X].
        -- right. repeat split; auto.
      * apply A1. rewrite L1. lia.
    + intros j Hj. rewrite (A2 j) by lia. apply F1. lia.
    + intros x Hx. apply A4, M1, Hx.
    + intros j Hj X. apply N1; [lia|]. apply A5; [lia|exact X].
Qed.

Lemma pinit_in sorted offs : forall l i0 h h',
  pinit sorted offs i0 l h = inr h' ->
  (forall x, In x h -> In x h') /\
  (forall j e r, nth_error l j = Some (e :: r) -> In (corr offs (i0 + j) e, (i0 + j)%nat) h').
Proof.
  induction l as [|r t IH]; intros i0 h h' E; cbn [pinit] in E.
  - inversion E; subst. split; [auto|]. intros j e r H. destruct j; discriminate.
  - destruct r as [|e r'].
    + destruct (IH _ _ _ E) as [I1 I2]. split; [exact I1|].
      intros [|j] e r H; cbn [nth_error] in H; [discriminate|].
      replace (i0 + S j)%nat with (S i0 + j)%nat by lia. eapply I2. exact H.
    + destruct (sorted && _); [discriminate|].
      destruct (IH _ _ _ E) as [I1 I2]. split.
      * intros x Hx. apply I1. eapply Permutation_in; [apply Permutation_sym, insert_perm|]. right. exact Hx.
      * intros [|j] e0 r0 H; cbn [nth_error] in H.
        -- inversion H; subst. rewrite Nat.add_0_r. apply I1.
           eapply Permutation_in; [apply Permutation_sym, insert_perm|]. left. reflexivity.
        -- replace (i0 + S j)%nat with (S i0 + j)%nat by lia. eapply I2. exact H.
Qed.

Lemma nodup_key (h : list hnode) k k' i : NoDup (hids h) -> In (k, i) h -> In (k', i) h -> k = k'.
Proof.
  induction h as [|[k0 i0] t IH]; cbn [hids map snd In]; intros ND H1 H2; [contradiction|].
  apply NoDup_cons_iff in ND as [Hni ND].
  destruct H1 as [E1|H1]; destruct H2 as [E2|H2].
  - congruence.
  - inversion E1; subst. exfalso. apply Hni. apply in_map_iff. exists (k', i). auto.
  - inversion E2; subst. exfalso. apply Hni. apply in_map_iff. exists (k, i). auto.
  - apply IH; auto.
Qed.

Lemma flat_map_seq_gen {A B} (F : A -> list B) (d : A) (l : list A) : forall k,
  flat_map (fun i => F (nth (i - k) l d)) (seq k (length l)) = flat_map F l.
Proof.
  induction l as [|a t IH]; intros k; [reflexivity|].
  cbn [length seq flat_map]. rewrite Nat.sub_diag. cbn [nth]. f_equal.
  rewrite <- (IH (S k)). rewrite !flat_map_concat_map. f_equal. apply map_ext_in.
  intros i Hi. apply in_seq in Hi. replace (i - k)%nat with (S (i - S k)) by lia. reflexivity.
Qed.

Lemma flat_map_seq {A B} (F : A -> list B) (d : A) (l : list A) :
  flat_map F l = flat_map (fun i => F (nth i l d)) (seq 0 (length l)).
Proof.
  rewrite <- (flat_map_seq_gen F d l 0). rewrite !flat_map_concat_map. f_equal. apply map_ext.
  intros i. rewrite Nat.sub_0_r. reflexivity.
Qed.

Lemma flat_map_ext_seq {B} (f g : nat -> list B) n : (forall i, (i < n)%nat -> f i = g i) ->
  flat_map f (seq 0 n) = flat_map g (seq 0 n).
Proof.
  intros H. rewrite !flat_map_concat_map. f_equal. apply map_ext_in. intros i Hi. apply in_seq in Hi. apply H. lia.
Qed.

(* after the loop of player_init the gate the C applies is the model's *)
Theorem gate_link unsorted st ss h s :
  let sorted := unsorted =? 0 in
  let offs := map s_off ss in
  let rem := map s_evs ss in
  InitOk offs st rem ->
  pinit sorted offs 0 rem [] = inr h ->
  m_init_all unsorted (seq 0 (length (streams st))) (player0 unsorted st) = Done tt s ->
  gate_of (active_clocks s (seq 0 (length (streams s)))) = gate_ok ss.
Proof.
  intros sorted offs rem I EP EM.
  pose proof (init_sim unsorted offs st rem I) as IS. cbv zeta in IS. fold sorted in IS. rewrite EP, EM in IS.
  destruct IS as [[C _ _] L].
  destruct I as [Hl Hs].
  assert (Hr0 : forall j, (0 <= j < length (streams (player0 unsorted st)))%nat ->
            ~ In j (hids (q_heap (pl (player0 unsorted st)))) /\ g_cur (nth j (streams (player0 unsorted st)) g0) = None).
  { intros j Hj. cbn [player0 streams pl q_heap hids map] in *. split; [intros []|]. apply (Hs j). lia. }
  destruct (init_all_facts unsorted (length (streams st)) 0 (player0 unsorted st) s eq_refl Hr0 EM) as (A1 & _ & A3 & _ & _).
  cbn [player0 streams] in A1, A3.
  rewrite gate_ok_of. f_equal. unfold active_clocks, first_clocks.
  rewrite (flat_map_seq _ no_strm ss).
  assert (Hn : length ss = length (streams st)) by (unfold rem in Hl; rewrite map_length in Hl; exact Hl).
  rewrite Hn, A3. apply flat_map_ext_seq. intros i Hi.
  assert (Hrem : nth i rem [] = s_evs (nth i ss no_strm)) by (unfold rem; apply (map_nth s_evs ss no_strm i)).
  assert (Hoff : nth i offs 0 = s_off (nth i ss no_strm)) by (unfold offs; apply (map_nth s_off ss no_strm i)).
  pose proof (co_heap _ _ _ _ C) as Hh. cbn [p_heap] in Hh.
  destruct (pinit_in sorted offs rem 0 [] h EP) as [_ PI].
  assert (Hir : (i < length rem)%nat) by lia.
  unfold sclk. destruct (A1 i ltac:(lia)) as [[B1 B2]|(B1 & B2 & B3 & B4)].
  - rewrite B1. rewrite <- Hrem. destruct (nth i rem []) as [|e r] eqn:E; [reflexivity|].
    exfalso. apply B2. rewrite Hh. apply (in_hids (corr offs i e)).
    apply (PI i e r). rewrite (nth_error_nth' rem [] Hir). rewrite E. reflexivity.
  - rewrite B1, B2. cbn [evview]. fold (evclk (nth i (streams s) g0)). rewrite B3.
    rewrite Hh in B4. destruct (co_in _ _ _ _ C _ _ B4) as (_ & _ & _ & _ & e & t & E & _). cbn [p_rem] in E.
    rewrite <- Hrem, E. f_equal.
    assert (In (corr offs i e, i) h).
    { apply (PI i e t). rewrite (nth_error_nth' rem [] Hir). rewrite E. reflexivity. }
    rewrite (nodup_key h _ _ i (co_nodup _ _ _ _ C) B4 H). unfold corr. rewrite Hoff. reflexivity.
Qed.

(* PlayerDefs.run for the generated code: no hypothesis on the gate any more *)
Theorem run_from_source unsorted st ss :
  let sorted := unsorted =? 0 in
  InitOk (map s_off ss) st (map s_evs ss) ->
  map clocks_of (fst (m_run unsorted (S (total_events ss)) st)) = map model_clocks (fst (PlayerDefs.run sorted ss)) /\
  verdict_rel (snd (PlayerDefs.run sorted ss)) (snd (m_run unsorted (S (total_events ss)) st)).
Proof.
  intros sorted I. apply run_sim; [exact I|].
  intros h s EP EM. apply (gate_link unsorted st ss h s I EP EM).
Qed.

(* m_run is the generated player_init followed by the main loop over the generated player_step *)
Lemma m_run_init unsorted fuel st sx :
  m_run unsorted fuel st =
  match Stepper_gen.player_init (Some tt) (Some tt) unsorted sx st with
  | Done _ s => m_loop fuel s
  | Stop s => ([], Stop s)
  | Fail e => ([], Fail e)
  end.
Proof.
  rewrite player_init_gen. cbv zeta. unfold m_run, player0.
  destruct (m_init_all unsorted (seq 0 (length (streams st))) _) as [[] s|s|e]; try reflexivity.
  destruct (unsorted =? 0); cbn [andb]; [|reflexivity].
  destruct (gate_of _); reflexivity.
Qed.
