(* Shared lemmas about the three-way comparison the C comparators implement
   (translator units cmp_*; see translate/units/_cmp.py). *)
From Coq Require Import ZArith Bool Lia.
From Coq Require Import ZifyBool.
From OV Require Import Emu.CmpPre.
Local Open Scope Z_scope.

Lemma cmp3_spec a b :
  (a < b -> cmp3 a b = -1) /\ (a = b -> cmp3 a b = 0) /\ (b < a -> cmp3 a b = 1).
Proof. unfold cmp3. destruct (a <? b) eqn:E1; destruct (b <? a) eqn:E2; lia. Qed.

Lemma cmp3_le a b : (cmp3 a b <=? 0) = (a <=? b).
Proof. unfold cmp3. destruct (a <? b) eqn:E1; destruct (b <? a) eqn:E2; lia. Qed.

Lemma cmp3_antisym a b : cmp3 a b = - cmp3 b a.
Proof. unfold cmp3. destruct (a <? b) eqn:E1; destruct (b <? a) eqn:E2; lia. Qed.

Ltac three := intros; unfold cmp3; repeat match goal with
  | |- context [Z.ltb ?x ?y] => destruct (Z.ltb x y) eqn:?
  | |- context [Z.gtb ?x ?y] => destruct (Z.gtb x y) eqn:?
  end; lia.
