(* The dispatch code of the emulator models generated from src/emu/*/event.c (Gen/Dispatch_gen.v, unit dispatch)
   computes core_step on the event DecodeDefs / MarkDefs decode: the hand-written cats, need_of and switches of
   Emu/DecodeDefs.v are what the C does. *)
From Coq Require Import ZArith List Bool Lia.
From OV Require Import Base.CInt Emu.EmuCoreDefs Emu.DecodeDefs Emu.DispatchPre.
From OV Require Emu.ChanPre Emu.GuardsPre Gen.Guards_gen Gen.Tables_gen Emu.TaskEvPre Emu.MarkDefs Gen.Dispatch_gen.
From OV Require Proofs.EmuCoreProofs Proofs.LabelDecode Proofs.GuardsProofs Proofs.TaskEvProofs Proofs.SysProofs.
Import ListNotations.
Local Open Scope Z_scope.

Definition mk (who : nat) (m c v : Z) (p : list Z) : emu :=
  {| GuardsPre.e_who := who; GuardsPre.e_m := m; GuardsPre.e_c := c; GuardsPre.e_v := v; GuardsPre.e_payload := p |}.
Definition W := TaskEvProofs.W.

Ltac munf := unfold need, ite, bind_, bind, eval, ret, fail.

(* ---- the table *)
Lemma table_lookup_in tb m c v ch a x : table_lookup tb m c v = Some (ch, a, x) -> In (m, c, v, ch, a, x) tb.
Proof.
  induction tb as [|[[[[[m' c'] v'] ch'] a'] x'] r IH]; cbn [table_lookup]; [discriminate|].
  destruct ((m =? m') && (c =? c') && (v =? v')) eqn:E.
  - intros H; inversion H; subst. apply andb_true_iff in E as [E Ev]. apply andb_true_iff in E as [Em Ec].
    apply Z.eqb_eq in Em, Ec, Ev. subst. left. reflexivity.
  - intros H. right. exact (IH H).
Qed.

Definition is_set (a : Tables_gen.action) : bool := match a with Tables_gen.SET => true | _ => false end.
(* the models whose enum has no SET have no SET entry *)
Lemma no_set_rows : forallb (fun '(m, _, _, _, a, _) => negb (is_set a && memz m [M_NODES; M_TAMPI; M_MPI; M_OPENMP])) Tables_gen.table = true.
Proof. vm_compute. reflexivity. Qed.
Lemma no_set m c v ch x : memz m [M_NODES; M_TAMPI; M_MPI; M_OPENMP] = true ->
  table_lookup Tables_gen.table m c v = Some (ch, Tables_gen.SET, x) -> False.
Proof.
  intros Hm H. apply table_lookup_in in H. pose proof no_set_rows as F. rewrite forallb_forall in F.
  specialize (F _ H). cbv beta iota in F. cbn [is_set andb] in F. rewrite Hm in F. discriminate.
Qed.

(* ---- a write that changes nothing *)
Lemma set_thread_same st who th : nth_error (threads st) who = Some th -> set_thread st who th = st.
Proof.
  intros H. unfold set_thread. replace (update (threads st) who th) with (threads st); [destruct st; reflexivity|].
  rewrite <- (nth_error_nth _ _ dummy_thread H). symmetry. apply EmuCoreProofs.update_nth_id.
Qed.
Lemma chan_step_ign sx st who th k v sp : nth_error (threads st) who = Some th -> nth_error (s_chans sx) k = Some sp ->
  chan_step sx st who k IGN v = Ok (st, []).
Proof.
  intros Hth Hk. unfold chan_step, nth_opt. rewrite Hth, Hk. cbn [raw_apply].
  rewrite EmuCoreProofs.update_nth_id. replace (with_raw th (t_raw th)) with th by (destruct th; reflexivity).
  rewrite (set_thread_same _ _ _ Hth). reflexivity.
Qed.

Lemma memz_chain c l : memz c l = existsb (Z.eqb c) l. Proof. reflexivity. Qed.

Lemma core_ovni_dirty sx st who cs c v p s d : c = 72 \/ c = 65 ->
  core_step sx st who (decode_ovni cs c v p) = Ok (s, d) -> d = [].
Proof.
  intros Hc. destruct (GuardsProofs.decode_ovni_shape cs c v p Hc) as [[x ->] | [-> | [ev ->]]]; cbn [core_step].
  - discriminate.
  - destruct (nth_opt (threads st) who) as [t|]; [destruct (t_ooc t)|]; intros H; inversion H; reflexivity.
  - destruct (oh_step sx st who ev); intros H; inversion H; reflexivity.
Qed.

Section Dispatch.
Variables (sx : static) (cs : list chanspec) (en : list Z) (who : nat) (th : thread) (jumbo : bool) (aux : Z).
Variable st : state.
Hypothesis Hth : nth_error (threads st) who = Some th.
Hypothesis Hsx : s_chans sx = cs.
(* the channels the tables name exist for the enabled models (cs = mk_chans en, table_chans_exist below) *)
Hypothesis Hch : forall m c v ch a x, memz m en = true -> table_lookup Tables_gen.table m c v = Some (ch, a, x) -> chan_pos cs m ch <> None.
Let E := {| d_te := {| TaskEvPre.te_sx := sx; TaskEvPre.te_cs := cs |}; d_jumbo := jumbo; d_aux := aux |}.

Lemma cur_th m c v p d : cur (W st d) (mk who m c v p) = th.
Proof. unfold cur, GuardsPre.gthr. cbn [TaskEvPre.w_st W TaskEvProofs.W mk GuardsPre.e_who]. apply nth_error_nth. exact Hth. Qed.

(* one table entry: the generated chan_push / chan_pop / chan_set on th->m.ch[ch] = chan_step on chan_pos cs m ch *)
Lemma chan_op_step a m ch k x :
  chan_pos cs m ch = Some k ->
  TaskEvPre.chan_op a (Some (who, m, ch)) {| ChanPre.vt := 1; ChanPre.vi := x |} (d_te E) (W st []) =
  match chan_step sx st who k a (Some x) with
  | Ok (s', d) => Ok (tt, W s' d)
  | Err _ => Err E_FAIL
  end.
Proof.
  intros Hk. unfold TaskEvPre.chan_op. cbn [d_te E TaskEvPre.te_sx TaskEvPre.te_cs TaskEvPre.w_st TaskEvPre.w_dirty W TaskEvProofs.W].
  unfold chan_of. rewrite Hk. unfold TaskEvPre.val_of. cbn [ChanPre.vt ChanPre.vi Z.eqb].
  destruct (chan_step sx st who k a (Some x)) as [[s' d]|]; reflexivity.
Qed.


Lemma ix3_0 a b c : ix [a; b; c] 0 = a. Proof. reflexivity. Qed.
Lemma ix3_1 a b c : ix [a; b; c] 1 = b. Proof. reflexivity. Qed.
Lemma ix3_2 a b c : ix [a; b; c] 2 = c. Proof. reflexivity. Qed.

Lemma chan_k m ch k : chan_pos cs m ch = Some k -> exists sp, nth_error (s_chans sx) k = Some sp.
Proof.
  intros H. destruct (LabelDecode.chan_pos_spec _ _ _ _ H) as (Hlt & _). rewrite Hsx.
  destruct (nth_error cs k) eqn:En; [eexists; reflexivity|]. apply nth_error_None in En. lia.
Qed.

(* the table part of the decoder, for a model whose events all go through its table *)
Definition tail (m c v : Z) : result (state * list (nat * nat)) :=
  match table_lookup Tables_gen.table m c v with
  | None => Err E_UNKNOWN
  | Some (ch, a, x) => match chan_pos cs m ch with
                       | None => Err E_UNKNOWN
                       | Some k => chan_step sx st who k (conv_action a) (Some x)
                       end
  end.

Ltac fin_err := cbv beta iota; eexists; split; [reflexivity|discriminate].

Ltac consts := unfold Dispatch_gen.c_mpi_IGN, Dispatch_gen.c_mpi_POP, Dispatch_gen.c_mpi_PUSH, Dispatch_gen.c_nanos6_IGN, Dispatch_gen.c_nanos6_POP, Dispatch_gen.c_nanos6_PUSH, Dispatch_gen.c_nodes_IGN, Dispatch_gen.c_nodes_POP, Dispatch_gen.c_nodes_PUSH, Dispatch_gen.c_nosv_IGN, Dispatch_gen.c_nosv_POP, Dispatch_gen.c_nosv_PUSH, Dispatch_gen.c_openmp_IGN, Dispatch_gen.c_openmp_POP, Dispatch_gen.c_openmp_PUSH, Dispatch_gen.c_tampi_IGN, Dispatch_gen.c_tampi_POP, Dispatch_gen.c_tampi_PUSH, Dispatch_gen.c_nanos6_SET, Dispatch_gen.c_nosv_SET.

(* the body shared by simple (nosv, nanos6, nodes) and process_ev (mpi, tampi, openmp) once the row is read *)
Ltac row_tac M Hen nos :=
  munf;
  unfold nosv_ss_table, nanos6_ss_table, nodes_ss_table, tampi_ss_table, mpi_fn_table, openmp_fn_table, row,
         get_emu_ev_c, get_emu_ev_v, get_emu_thread, extend_get;
  cbn [mk GuardsPre.e_c GuardsPre.e_v GuardsPre.e_who addr_thread_ext TaskEvPre.addr_thread_ext TaskEvPre.extend_get
       cast_ptr_ext_ptr_mthread TaskEvPre.cast_ptr_ext_ptr_mthread is_null negb];
  unfold tail;
  match goal with |- context [table_lookup Tables_gen.table M ?c ?v] =>
    let Et := fresh "Et" in let Ek := fresh "Ek" in
    destruct (table_lookup Tables_gen.table M c v) as [[[ch a] x]|] eqn:Et;
    [ pose proof (Hch _ _ _ _ _ _ Hen Et) as Hk; destruct (chan_pos cs M ch) as [k|] eqn:Ek; [clear Hk|congruence];
      rewrite ?ix3_0, ?ix3_1, ?ix3_2;
      unfold addr_nosv_thread_m_ch_at, addr_nanos6_thread_m_ch_at, addr_nodes_thread_m_ch_at, addr_mpi_thread_m_ch_at,
             addr_tampi_thread_m_ch_at, addr_openmp_thread_m_ch_at, TaskEvPre.m_ch, value_int64, chan_push, chan_pop, chan_set,
             TaskEvPre.chan_push, TaskEvPre.chan_pop, TaskEvPre.chan_set;
      destruct a; cbn [acode3 acode4 conv_action]; cbv beta iota;
      try (exfalso; exact (nos _ _ _ _ Et));
      match goal with
      | |- context [chan_step sx st who k IGN (Some x)] =>
        consts; cbn [Z.eqb Pos.eqb];
        destruct (chan_k _ _ _ Ek) as (sp & Hsp); rewrite (chan_step_ign sx st who th k (Some x) sp Hth Hsp); reflexivity
      | |- context [chan_step sx st who k ?A (Some x)] =>
        consts; cbn [Z.eqb Pos.eqb];
        match goal with |- context [TaskEvPre.chan_op A (Some (who, ?mm, ch)) _ _ _] => rewrite (chan_op_step A mm ch k x Ek) end;
        destruct (chan_step sx st who k A (Some x)) as [[s' d]|]; [reflexivity|fin_err]
      end
    | rewrite ?ix3_0, ?ix3_1, ?ix3_2; consts; cbn [Z.eqb Pos.eqb]; fin_err ]
  end.

(* what the statement says for one model *)
Definition agrees (m c v : Z) (p : list Z) (gen : M unit) : Prop :=
  match core_step sx st who (MarkDefs.decode_all en cs m c v p jumbo aux) with
  | Ok (st', d) => gen E (W st []) = Ok (tt, W st' d)
  | Err _ => exists e', gen E (W st []) = Err e' /\ e' <> E_TRAP
  end.

Lemma nodes_simple_eq c v p : memz M_NODES en = true ->
  match tail M_NODES c v with
  | Ok (st', d) => Dispatch_gen.nodes_simple (mk who M_NODES c v p) E (W st []) = Ok (tt, W st' d)
  | Err _ => exists e', Dispatch_gen.nodes_simple (mk who M_NODES c v p) E (W st []) = Err e' /\ e' <> E_TRAP
  end.
Proof.
  intros Hen. unfold Dispatch_gen.nodes_simple.
  row_tac M_NODES Hen (fun c v ch x => no_set M_NODES c v ch x eq_refl).
Qed.


(* ---- the model side: a table-driven event *)
Definition catok (m c : Z) : bool := match cats m with Some l => memz c l | None => true end.
Definition table_event (m c v : Z) : event :=
  if negb (catok m c) then EvBad E_UNKNOWN
  else match table_lookup Tables_gen.table m c v with
       | None => EvBad E_UNKNOWN
       | Some (ch, a, x) => match chan_pos cs m ch with
                            | None => EvBad E_UNKNOWN
                            | Some k => EvChan k (conv_action a) (Some x) (need_of m)
                            end
       end.

Lemma decode_table m c v p : memz m en = true -> m <> M_OVNI -> m <> M_KERNEL ->
  ((m = M_NOSV \/ m = M_NANOS6) -> c <> 84 /\ c <> 89) ->
  MarkDefs.decode_all en cs m c v p jumbo aux = table_event m c v.
Proof.
  intros Hen Ho Hk Ht. unfold MarkDefs.decode_all, decode_full, decode, table_event, catok.
  apply Z.eqb_neq in Ho, Hk. rewrite Ho, Hk, Hen. cbn [andb negb].
  assert (Hd : decode_task cs m c v p jumbo aux = None).
  { unfold decode_task. destruct (Z.eqb_spec m M_NOSV) as [Em|_].
    - destruct (Ht (or_introl Em)) as [A B]. apply Z.eqb_neq in A, B. rewrite A, B. reflexivity.
    - destruct (Z.eqb_spec m M_NANOS6) as [Em|_]; [|reflexivity].
      destruct (Ht (or_intror Em)) as [A B]. apply Z.eqb_neq in A, B. rewrite A, B. reflexivity. }
  rewrite Hd. reflexivity.
Qed.

Definition need_fails (need : Z) : bool :=
  ((need =? 1) && negb (is_running (t_state th))) || ((need =? 2) && negb (is_active (t_state th))) ||
  ((need =? 3) && t_ooc th) || ((need =? 4) && (negb (is_active (t_state th)) || t_ooc th)).

Lemma core_table m c v :
  core_step sx st who (table_event m c v) =
  if negb (catok m c) then Err E_UNKNOWN else
  match tail m c v with
  | Err e => match table_lookup Tables_gen.table m c v with
             | Some (ch, _, _) => match chan_pos cs m ch with Some _ => if need_fails (need_of m) then Err E_THSTATE else Err e | None => Err E_UNKNOWN end
             | None => Err E_UNKNOWN
             end
  | Ok r => if need_fails (need_of m) then Err (if (need_of m =? 3) then E_OOC else E_THSTATE) else Ok r
  end.
Proof.
  unfold table_event, tail. destruct (negb (catok m c)); [reflexivity|].
  destruct (table_lookup Tables_gen.table m c v) as [[[ch a] x]|]; [|reflexivity].
  destruct (chan_pos cs m ch) as [k|]; [|reflexivity].
  cbn [core_step]. unfold nth_opt. rewrite Hth. unfold need_fails, need_of.
  destruct (m =? M_NOSV); [|destruct (m =? M_NANOS6)]; cbn [Z.eqb Pos.eqb andb orb];
    destruct (is_running (t_state th)), (is_active (t_state th)), (t_ooc th); cbn [negb andb orb];
    destruct (chan_step sx st who k (conv_action a) (Some x)); reflexivity.
Qed.


Definition fin (r : result (unit * tw)) : result (unit * tw) := match r with Ok (_, w') => Ok (tt, w') | Err e => Err e end.

(* C side in normal form + the body against `tail` => the statement *)
Lemma agree_table m c v p (gen simple : M unit) :
  MarkDefs.decode_all en cs m c v p jumbo aux = table_event m c v ->
  gen E (W st []) = (if need_fails (need_of m) then Err E_FAIL else if negb (catok m c) then Err E_FAIL else fin (simple E (W st []))) ->
  (need_fails (need_of m) = false ->
   match tail m c v with
   | Ok (st', d) => simple E (W st []) = Ok (tt, W st' d)
   | Err _ => exists e', simple E (W st []) = Err e' /\ e' <> E_TRAP
   end) ->
  agrees m c v p gen.
Proof.
  intros Hdec Hform Hs. unfold agrees. rewrite Hdec, core_table, Hform.
  destruct (negb (catok m c)).
  { destruct (need_fails (need_of m)); fin_err. }
  destruct (tail m c v) as [[st' d]|e] eqn:Et.
  - destruct (need_fails (need_of m)); [fin_err|]. rewrite (Hs eq_refl). reflexivity.
  - assert (K : exists e', (if need_fails (need_of m) then Err E_FAIL else fin (simple E (W st []))) = Err e' /\ e' <> E_TRAP).
    { destruct (need_fails (need_of m)); [fin_err|]. destruct (Hs eq_refl) as (e' & Hs' & Hn). rewrite Hs'. exists e'. split; [reflexivity|exact Hn]. }
    destruct (table_lookup Tables_gen.table m c v) as [[[ch a] x]|]; [|exact K].
    destruct (chan_pos cs m ch); [|exact K]. destruct (need_fails (need_of m)); exact K.
Qed.

(* switch (emu->ev->c) against memz c (cats m) *)
Lemma or_memz c l b : b = existsb (Z.eqb c) l -> b = memz c l.
Proof. intros H. exact H. Qed.

Ltac thread_views :=
  unfold get_emu_thread_is_active, get_emu_thread_is_running, get_emu_thread_is_out_of_cpu, get_emu_ev_m, get_emu_ev_c;
  rewrite ?cur_th; cbn [mk GuardsPre.e_m GuardsPre.e_c Z.eqb Pos.eqb negb].

Theorem nodes_event c v p : memz M_NODES en = true ->
  agrees M_NODES c v p (Dispatch_gen.nodes_model_nodes_event (mk who M_NODES c v p)).
Proof.
  intros Hen.
  apply (agree_table M_NODES c v p _ (Dispatch_gen.nodes_simple (mk who M_NODES c v p))).
  - apply decode_table; [exact Hen|discriminate|discriminate|intros [H|H]; discriminate H].
  - unfold Dispatch_gen.nodes_model_nodes_event, Dispatch_gen.nodes_process_ev. munf. thread_views.
    unfold need_fails, need_of, catok. cbn [M_NODES M_NOSV M_NANOS6 Z.eqb Pos.eqb andb orb cats memz existsb].
    destruct (is_running (t_state th)); cbn [b2z Z.eqb negb andb orb]; [|reflexivity].
    rewrite !orb_false_r, !orb_assoc.
    match goal with |- context [if negb ?b then Err E_FAIL else _] => destruct b end; cbn [negb]; reflexivity.
  - intros _. apply nodes_simple_eq. exact Hen.
Qed.


(* mpi, tampi, openmp: process_ev reads the row itself; every category goes to the table *)
Ltac flat_model M Hen c v p modelfn prochead :=
  apply (agree_table M c v p _ (prochead (mk who M c v p)));
  [ apply decode_table; [exact Hen|discriminate|discriminate|intros [H|H]; discriminate H]
  | unfold modelfn; munf; thread_views;
    unfold need_fails, need_of, catok; cbn [M_NOSV M_NANOS6 Z.eqb Pos.eqb andb orb cats negb];
    destruct (is_running (t_state th)) eqn:Er; cbn [b2z Z.eqb negb andb orb];
    [ destruct (prochead (mk who M c v p) E (W st [])) as [[[] w]|]; reflexivity
    | unfold prochead; munf; thread_views; rewrite Er; reflexivity ]
  | intros Hn; unfold need_fails, need_of in Hn; cbn [M_NOSV M_NANOS6 Z.eqb Pos.eqb andb orb] in Hn;
    unfold prochead; munf; thread_views;
    destruct (is_running (t_state th)); [|discriminate Hn]; cbn [b2z Z.eqb negb];
    row_tac M Hen (fun c v ch x => no_set M c v ch x eq_refl) ].

Theorem mpi_event c v p : memz M_MPI en = true ->
  agrees M_MPI c v p (Dispatch_gen.mpi_model_mpi_event (mk who M_MPI c v p)).
Proof. intros Hen. flat_model M_MPI Hen c v p Dispatch_gen.mpi_model_mpi_event Dispatch_gen.mpi_process_ev. Qed.


Theorem tampi_event c v p : memz M_TAMPI en = true ->
  agrees M_TAMPI c v p (Dispatch_gen.tampi_model_tampi_event (mk who M_TAMPI c v p)).
Proof. intros Hen. flat_model M_TAMPI Hen c v p Dispatch_gen.tampi_model_tampi_event Dispatch_gen.tampi_process_ev. Qed.

Theorem openmp_event c v p : memz M_OPENMP en = true ->
  agrees M_OPENMP c v p (Dispatch_gen.openmp_model_openmp_event (mk who M_OPENMP c v p)).
Proof. intros Hen. flat_model M_OPENMP Hen c v p Dispatch_gen.openmp_model_openmp_event Dispatch_gen.openmp_process_ev. Qed.

(* ---- nosv, nanos6: simple *)
Lemma nosv_simple_eq c v p : memz M_NOSV en = true ->
  match tail M_NOSV c v with
  | Ok (st', d) => Dispatch_gen.nosv_simple (mk who M_NOSV c v p) E (W st []) = Ok (tt, W st' d)
  | Err _ => exists e', Dispatch_gen.nosv_simple (mk who M_NOSV c v p) E (W st []) = Err e' /\ e' <> E_TRAP
  end.
Proof.
  intros Hen. unfold Dispatch_gen.nosv_simple.
  row_tac M_NOSV Hen (fun (c v ch x : Z) => I).
Qed.
Lemma nanos6_simple_eq c v p : memz M_NANOS6 en = true ->
  match tail M_NANOS6 c v with
  | Ok (st', d) => Dispatch_gen.nanos6_simple (mk who M_NANOS6 c v p) E (W st []) = Ok (tt, W st' d)
  | Err _ => exists e', Dispatch_gen.nanos6_simple (mk who M_NANOS6 c v p) E (W st []) = Err e' /\ e' <> E_TRAP
  end.
Proof.
  intros Hen. unfold Dispatch_gen.nanos6_simple.
  row_tac M_NANOS6 Hen (fun (c v ch x : Z) => I).
Qed.


(* nosv / nanos6: the categories that go to the table (everything but T and Y) *)
Theorem nosv_table_event c v p : memz M_NOSV en = true -> c <> 84 -> c <> 89 ->
  agrees M_NOSV c v p (Dispatch_gen.nosv_model_nosv_event (mk who M_NOSV c v p)).
Proof.
  intros Hen H84 H89.
  apply (agree_table M_NOSV c v p _ (Dispatch_gen.nosv_simple (mk who M_NOSV c v p))).
  - apply decode_table; [exact Hen|discriminate|discriminate|intros _; split; assumption].
  - unfold Dispatch_gen.nosv_model_nosv_event, Dispatch_gen.nosv_process_ev. munf. thread_views.
    unfold need_fails, need_of, catok. cbn [M_NODES M_NOSV M_NANOS6 Z.eqb Pos.eqb andb orb cats memz existsb].
    apply Z.eqb_neq in H84, H89. rewrite H84, H89.
    destruct (is_active (t_state th)), (t_ooc th); cbn [b2z Z.eqb negb andb orb]; try reflexivity.
    rewrite !orb_false_r, !orb_assoc.
    match goal with |- context [if negb ?b then Err E_FAIL else _] => destruct b end; cbn [negb]; reflexivity.
  - intros _. apply nosv_simple_eq. exact Hen.
Qed.

Theorem nanos6_table_event c v p : memz M_NANOS6 en = true -> c <> 84 -> c <> 89 ->
  agrees M_NANOS6 c v p (Dispatch_gen.nanos6_model_nanos6_event (mk who M_NANOS6 c v p)).
Proof.
  intros Hen H84 H89.
  apply (agree_table M_NANOS6 c v p _ (Dispatch_gen.nanos6_simple (mk who M_NANOS6 c v p))).
  - apply decode_table; [exact Hen|discriminate|discriminate|intros _; split; assumption].
  - unfold Dispatch_gen.nanos6_model_nanos6_event, Dispatch_gen.nanos6_process_ev. munf. thread_views.
    unfold need_fails, need_of, catok. cbn [M_NODES M_NOSV M_NANOS6 Z.eqb Pos.eqb andb orb cats memz existsb].
    apply Z.eqb_neq in H84, H89. rewrite H84, H89.
    destruct (is_active (t_state th)); cbn [b2z Z.eqb negb andb orb]; try reflexivity.
    rewrite !orb_false_r, !orb_assoc.
    match goal with |- context [if negb ?b then Err E_FAIL else _] => destruct b end; cbn [negb]; reflexivity.
  - intros _. apply nanos6_simple_eq. exact Hen.
Qed.


(* ---- kernel *)
Hypothesis Hkern : memz M_KERNEL en = true -> chan_pos cs M_KERNEL Tables_gen.c_kernel_CH_CS <> None.
Hypothesis Hflush : memz M_OVNI en = true -> chan_pos cs M_OVNI Tables_gen.c_ovni_CH_FLUSH <> None.

Lemma chan_op_step_at s a m ch k x d0 :
  chan_pos cs m ch = Some k ->
  TaskEvPre.chan_op a (Some (who, m, ch)) {| ChanPre.vt := 1; ChanPre.vi := x |} (d_te E) (W s d0) =
  match chan_step sx s who k a (Some x) with
  | Ok (s', d) => Ok (tt, W s' (d0 ++ d))
  | Err _ => Err E_FAIL
  end.
Proof.
  intros Hk. unfold TaskEvPre.chan_op. cbn [d_te E TaskEvPre.te_sx TaskEvPre.te_cs TaskEvPre.w_st TaskEvPre.w_dirty W TaskEvProofs.W].
  unfold chan_of. rewrite Hk. unfold TaskEvPre.val_of. cbn [ChanPre.vt ChanPre.vi Z.eqb].
  destruct (chan_step sx s who k a (Some x)) as [[s' d]|]; reflexivity.
Qed.

Theorem kernel_event c v p : memz M_KERNEL en = true ->
  agrees M_KERNEL c v p (Dispatch_gen.kernel_model_kernel_event (mk who M_KERNEL c v p)).
Proof.
  intros Hen. unfold agrees, MarkDefs.decode_all, decode_full, decode_task, decode. rewrite Hen.
  cbn [M_KERNEL M_OVNI M_NOSV M_NANOS6 Z.eqb Pos.eqb andb negb].
  unfold Dispatch_gen.kernel_model_kernel_event, Dispatch_gen.kernel_process_ev, Dispatch_gen.kernel_context_switch. munf. thread_views.
  unfold get_emu_ev_v, get_emu_thread, extend_get.
  cbn [mk GuardsPre.e_v GuardsPre.e_who addr_thread_ext TaskEvPre.addr_thread_ext TaskEvPre.extend_get
       cast_ptr_ext_ptr_mthread TaskEvPre.cast_ptr_ext_ptr_mthread is_null negb].
  destruct (c =? 67); [|fin_err].
  pose proof (Hkern Hen) as Hk. change Tables_gen.c_kernel_CH_CS with Dispatch_gen.c_kernel_CH_CS in *.
  destruct (chan_pos cs M_KERNEL Dispatch_gen.c_kernel_CH_CS) as [k|] eqn:Ek; [clear Hk|congruence].
  change (M_KERNEL =? 75) with true. cbn [negb].
  change Tables_gen.c_kernel_ST_CSOUT with Dispatch_gen.c_kernel_ST_CSOUT.
  unfold set_thread_is_out_of_cpu, nth_opt, addr_kernel_thread_m_ch_at, TaskEvPre.m_ch, value_int64, chan_push, chan_pop,
         TaskEvPre.chan_push, TaskEvPre.chan_pop.
  destruct (v =? 79).
  { cbv beta. cbn [core_step Z.eqb negb TaskEvPre.w_st TaskEvPre.w_dirty W TaskEvProofs.W]. unfold nth_opt. rewrite Hth.
    change {| TaskEvPre.w_st := set_thread st who (with_ooc th true); TaskEvPre.w_dirty := [] |} with (W (set_thread st who (with_ooc th true)) []).
    rewrite (chan_op_step_at _ PUSH 75 _ k _ [] Ek). cbn [app].
    destruct (chan_step sx (set_thread st who (with_ooc th true)) who k PUSH (Some Dispatch_gen.c_kernel_ST_CSOUT)) as [[s' d]|]; [reflexivity|fin_err]. }
  destruct (v =? 73); [|fin_err].
  cbv beta. cbn [core_step Z.eqb negb TaskEvPre.w_st TaskEvPre.w_dirty W TaskEvProofs.W]. unfold nth_opt. rewrite Hth.
  change {| TaskEvPre.w_st := set_thread st who (with_ooc th false); TaskEvPre.w_dirty := [] |} with (W (set_thread st who (with_ooc th false)) []).
  rewrite (chan_op_step_at _ POP 75 _ k _ [] Ek). cbn [app].
  destruct (chan_step sx (set_thread st who (with_ooc th false)) who k POP (Some Dispatch_gen.c_kernel_ST_CSOUT)) as [[s' d]|]; [reflexivity|fin_err].
Qed.


(* ---- ovni: every category but H and A (those are GuardsProofs.model_ovni_event_eq, below) *)
Lemma chan_op_val_at s a m ch k (cv : cvalue) d0 :
  chan_pos cs m ch = Some k ->
  TaskEvPre.chan_op a (Some (who, m, ch)) cv (d_te E) (W s d0) =
  match chan_step sx s who k a (TaskEvPre.val_of cv) with
  | Ok (s', d) => Ok (tt, W s' (d0 ++ d))
  | Err _ => Err E_FAIL
  end.
Proof.
  intros Hk. unfold TaskEvPre.chan_op. cbn [d_te E TaskEvPre.te_sx TaskEvPre.te_cs TaskEvPre.w_st TaskEvPre.w_dirty W TaskEvProofs.W].
  unfold chan_of. rewrite Hk.
  destruct (chan_step sx s who k a (TaskEvPre.val_of cv)) as [[s' d]|]; reflexivity.
Qed.

(* mark_event generated from ovni/mark.c = the mark decoder, for a thread that is in its CPU *)
Lemma mark_eq v p : t_ooc th = false ->
  match core_step sx st who (MarkDefs.decode_mark cs v p) with
  | Ok (st', d) => Dispatch_gen.ovni_mark_event (mk who M_OVNI 77 v p) E (W st []) = Ok (tt, W st' d)
  | Err _ => exists e', Dispatch_gen.ovni_mark_event (mk who M_OVNI 77 v p) E (W st []) = Err e' /\ e' <> E_TRAP
  end.
Proof.
  intros Eo. unfold MarkDefs.decode_mark, Dispatch_gen.ovni_mark_event. munf.
  unfold get_emu_ev_payload_size, get_emu_ev_payload, get_emu_ev_payload_i64, get_emu_ev_payload_i32, get_emu_ev_v, get_emu_thread, extend_get,
         addr_emu_ext, cast_ptr_ext_ptr_oemu, addr_ovni_emu_mark.
  cbn [mk GuardsPre.e_payload GuardsPre.e_v GuardsPre.e_who TaskEvPre.extend_get is_null negb].
  change (cast_uint64 (8 + 4)) with 12.
  destruct (Nat.eqb_spec (length p) 12) as [El|Nl].
  2:{ cbn [negb core_step]. assert (H : (Z.of_nat (length p) =? 12) = false) by (apply Z.eqb_neq; lia). rewrite H. fin_err. }
  rewrite El. cbn [negb Z.of_nat Z.eqb Pos.of_succ_nat Pos.succ Pos.eqb].
  destruct p as [|p0 pr]; [discriminate El|]. cbn [is_null negb].
  rewrite ix3_2. change (ix [MarkDefs.le_i64 (p0 :: pr) 0] 0) with (MarkDefs.le_i64 (p0 :: pr) 0).
  set (value := MarkDefs.le_i64 (p0 :: pr) 0). set (ty := le_i32 (p0 :: pr) 8).
  unfold find_mark_type, d_cs. cbn [d_te E TaskEvPre.te_cs].
  destruct (chan_pos cs MarkDefs.MARK_MODEL ty) as [k|] eqn:Ek; cbn [is_null negb]; [|cbn [core_step]; fin_err].
  destruct (value =? 0); [cbn [core_step]; fin_err|].
  unfold get_mark_type_index, addr_thread_ext, cast_ptr_ext_ptr_mthread, addr_ovni_thread_mark, addr_ovni_mark_thread_channels_at.
  cbn [TaskEvPre.addr_thread_ext TaskEvPre.extend_get TaskEvPre.cast_ptr_ext_ptr_mthread is_null negb].
  unfold value_int64, chan_push, chan_pop, chan_set, TaskEvPre.chan_push, TaskEvPre.chan_pop, TaskEvPre.chan_set.
  destruct (v =? 91); [|destruct (v =? 93); [|destruct (v =? 61); [|cbn [core_step]; fin_err]]];
    cbn [core_step]; unfold nth_opt; rewrite Hth, Eo; cbn [Z.eqb Pos.eqb andb negb];
    match goal with |- context [chan_step sx st who k ?A (Some value)] =>
      rewrite (chan_op_step_at st A MarkDefs.MARK_MODEL ty k value [] Ek); cbn [app];
      destruct (chan_step sx st who k A (Some value)) as [[s' d]|]; [reflexivity|fin_err]
    end.
Qed.

Theorem ovni_event c v p : memz M_OVNI en = true -> c <> 72 -> c <> 65 ->
  agrees M_OVNI c v p (Dispatch_gen.ovni_model_ovni_event (mk who M_OVNI c v p)).
Proof.
  intros Hen H72 H65. apply Z.eqb_neq in H72, H65.
  unfold agrees, MarkDefs.decode_all, decode_full, decode_task, decode, decode_ovni. rewrite Hen.
  change (M_OVNI =? M_OVNI) with true. change (M_OVNI =? M_NOSV) with false. change (M_OVNI =? M_NANOS6) with false.
  cbn [andb negb]. rewrite H72, H65.
  unfold Dispatch_gen.ovni_model_ovni_event. munf. thread_views. change (M_OVNI =? 79) with true. cbn [negb]. rewrite H72, H65.
  destruct (c =? 77) eqn:E77.
  { (* marks: the mark decoder *)
    apply Z.eqb_eq in E77. subst c. cbn [Z.eqb Pos.eqb].
    destruct (t_ooc th) eqn:Eo; cbn [b2z Z.eqb negb].
    - (* out of CPU: refused by the C before the category; the mark decoder's events all require in-CPU (need 3) or are bad *)
      assert (K : forall ev, ev = MarkDefs.decode_mark cs v p -> exists e, core_step sx st who ev = Err e).
      { intros ev ->. unfold MarkDefs.decode_mark. destruct (negb (Nat.eqb (length p) 12)); [eexists; reflexivity|].
        destruct (chan_pos cs MarkDefs.MARK_MODEL _) as [k|]; [|eexists; reflexivity].
        destruct (_ =? 0); [eexists; reflexivity|].
        destruct (v =? 91); [|destruct (v =? 93); [|destruct (v =? 61); [|eexists; reflexivity]]];
          cbn [core_step]; unfold nth_opt; rewrite Hth, Eo; cbn [Z.eqb Pos.eqb andb negb]; eexists; reflexivity. }
      destruct (K _ eq_refl) as (e0 & K0). rewrite K0. fin_err.
    - exact (mark_eq v p Eo). }
  destruct (c =? 66) eqn:E66.
  { cbn [core_step]. unfold nth_opt. rewrite Hth. unfold ovni_pre_burst, ret.
    destruct (t_ooc th); cbn [b2z Z.eqb negb]; [fin_err|reflexivity]. }
  destruct (c =? 85) eqn:E85.
  { cbn [core_step]. unfold nth_opt. rewrite Hth. unfold ret.
    destruct (t_ooc th); cbn [b2z Z.eqb negb]; [fin_err|].
    assert (c = 85) by (apply Z.eqb_eq; exact E85). subst c. cbn [Z.eqb Pos.eqb]. reflexivity. }
  destruct (c =? 67) eqn:E67.
  { unfold Dispatch_gen.ovni_pre_cpu. munf. unfold get_emu_ev_v. cbn [mk GuardsPre.e_v].
    assert (c = 67) by (apply Z.eqb_eq; exact E67). subst c. cbn [Z.eqb Pos.eqb].
    destruct (v =? 110); cbn [core_step]; unfold nth_opt; rewrite ?Hth; destruct (t_ooc th); cbn [b2z Z.eqb negb]; try fin_err; reflexivity. }
  destruct (c =? 70) eqn:E70.
  2:{ cbn [core_step]. destruct (t_ooc th); cbn [b2z Z.eqb negb]; fin_err. }
  assert (c = 70) by (apply Z.eqb_eq; exact E70). subst c. cbn [Z.eqb Pos.eqb].
  pose proof (Hflush Hen) as Hk. change Tables_gen.c_ovni_CH_FLUSH with Dispatch_gen.c_ovni_CH_FLUSH in *.
  destruct (chan_pos cs M_OVNI Dispatch_gen.c_ovni_CH_FLUSH) as [k|] eqn:Ek; [clear Hk|congruence].
  unfold Dispatch_gen.ovni_pre_flush. munf. unfold get_emu_ev_v, get_emu_thread, extend_get, get_emu_ev_dclock, get_ovni_thread_flush_start.
  cbn [mk GuardsPre.e_v GuardsPre.e_who addr_thread_ext TaskEvPre.addr_thread_ext TaskEvPre.extend_get
       cast_ptr_ext_ptr_mthread TaskEvPre.cast_ptr_ext_ptr_mthread is_null negb].
  unfold addr_ovni_thread_m_ch_at, TaskEvPre.m_ch, value_int64, value_null, chan_set, TaskEvPre.chan_set, set_ovni_thread_flush_start.
  destruct (t_ooc th) eqn:Eo; cbn [b2z Z.eqb negb].
  { destruct (v =? 91); [|destruct (v =? 93)]; cbn [core_step]; unfold nth_opt; rewrite ?Hth, ?Eo; cbn [Z.eqb Pos.eqb andb negb]; fin_err. }
  destruct (v =? 91).
  { cbn [core_step]. unfold nth_opt. rewrite Hth, Eo. cbn [Z.eqb Pos.eqb andb negb].
    rewrite (chan_op_val_at st SET 79 _ k _ [] Ek). cbn [app TaskEvPre.val_of ChanPre.vt ChanPre.vi Z.eqb].
    change Tables_gen.c_ovni_ST_FLUSHING with 1.
    destruct (chan_step sx st who k SET (Some 1)) as [[s' d]|]; [reflexivity|fin_err]. }
  destruct (v =? 93); [|fin_err].
  cbn [core_step]. unfold nth_opt. rewrite Hth, Eo. cbn [Z.eqb Pos.eqb andb negb].
  rewrite (chan_op_val_at st SET 79 _ k _ [] Ek). cbn [app TaskEvPre.val_of ChanPre.vt ChanPre.vi ChanPre.vnull Z.eqb].
  destruct (chan_step sx st who k SET None) as [[s' d]|]; [reflexivity|fin_err].
Qed.


(* ---- ovni H and A: pre_thread / pre_affinity are the functions of unit guards (C04_dispatch_from_source) *)
Theorem ovni_thread_event me c v p : memz M_OVNI en = true -> nth_error (s_threads sx) who = Some me -> GuardsProofs.GInv sx st ->
  c = 72 \/ c = 65 ->
  agrees M_OVNI c v p (Dispatch_gen.ovni_model_ovni_event (mk who M_OVNI c v p)).
Proof.
  intros Hen Hme HI Hc.
  pose proof (GuardsProofs.model_ovni_event_eq sx st who th me cs Hth Hme HI c v p Hc) as K.
  pose proof (SysProofs.core_ovni_no_trap sx st who cs c v p Hc) as NT.
  assert (Hd : MarkDefs.decode_all en cs M_OVNI c v p jumbo aux = decode_ovni cs c v p).
  { unfold MarkDefs.decode_all, decode_full, decode_task, decode. rewrite Hen.
    change (M_OVNI =? M_OVNI) with true. change (M_OVNI =? M_NOSV) with false. change (M_OVNI =? M_NANOS6) with false.
    destruct Hc as [ -> | -> ]; reflexivity. }
  unfold agrees. rewrite Hd.
  (* the generated dispatcher of unit dispatch on H / A = that of unit guards, lifted *)
  assert (F : Dispatch_gen.ovni_model_ovni_event (mk who M_OVNI c v p) E (W st []) =
              lift_g (Guards_gen.model_ovni_event (mk who M_OVNI c v p)) E (W st [])).
  { unfold Dispatch_gen.ovni_model_ovni_event, Guards_gen.model_ovni_event, lift_g. munf.
    unfold GuardsPre.ite, GuardsPre.bind, GuardsPre.eval, GuardsPre.fail. thread_views.
    unfold GuardsPre.get_emu_ev_m, GuardsPre.get_emu_thread_is_out_of_cpu, GuardsPre.get_emu_ev_c, d_sx.
    cbn [mk GuardsPre.e_m GuardsPre.e_c GuardsPre.e_who d_te E TaskEvPre.te_sx TaskEvPre.w_st W TaskEvProofs.W].
    change (M_OVNI =? 79) with true. cbn [negb]. rewrite (GuardsProofs.thr_of _ _ _ Hth).
    destruct (t_ooc th); cbn [b2z Z.eqb negb]; [reflexivity|].
    destruct Hc as [ -> | -> ]; cbn [Z.eqb Pos.eqb]; reflexivity. }
  rewrite F. unfold lift_g, d_sx. cbn [d_te E TaskEvPre.te_sx TaskEvPre.w_st TaskEvPre.w_dirty W TaskEvProofs.W].
  change (mk who M_OVNI c v p) with (GuardsProofs.mk_emu who c v p).
  unfold GuardsPre.exec, GuardsPre.outcome_of in K.
  change {| GuardsPre.e_who := who; GuardsPre.e_m := 79; GuardsPre.e_c := c; GuardsPre.e_v := v; GuardsPre.e_payload := p |}
    with (GuardsProofs.mk_emu who c v p) in K.
  destruct (core_step sx st who (decode_ovni cs c v p)) as [[s1 d]|e0] eqn:S.
  - (* accepted: no channel written *)
    pose proof (core_ovni_dirty _ _ _ _ _ _ _ _ _ Hc S) as ->. cbn [GuardsProofs.fst_res] in K.
    destruct (Guards_gen.model_ovni_event (GuardsProofs.mk_emu who c v p) sx st) as [[[] s']|e'].
    + inversion K; subst. reflexivity.
    + destruct (Nat.eqb e' GuardsPre.E_TRAP); discriminate K.
  - cbn [GuardsProofs.fst_res] in K, NT.
    destruct (Guards_gen.model_ovni_event (GuardsProofs.mk_emu who c v p) sx st) as [[[] s']|e'].
    + destruct (Nat.eqb e0 GuardsPre.E_TRAP); discriminate K.
    + exists e'. split; [reflexivity|]. intros ->. cbn in K.
      destruct (Nat.eqb e0 GuardsPre.E_TRAP) eqn:E0; [|discriminate K]. apply Nat.eqb_eq in E0. subst e0. apply NT. reflexivity.
Qed.


(* ---- nosv / nanos6: the T category goes to pre_task (unit taskev); what C07_task_events_from_source leaves out:
   short payloads and unknown values *)
Let E' := {| TaskEvPre.te_sx := sx; TaskEvPre.te_cs := cs |}.
Ltac tmunf := unfold TaskEvPre.need, TaskEvPre.ite, TaskEvPre.bind_, TaskEvPre.bind, TaskEvPre.eval, TaskEvPre.ret, TaskEvPre.fail.
Ltac fin_err' := cbv beta iota; eexists; split; [reflexivity|discriminate].

Lemma psize_lt8 (p : list Z) : (length p < 8)%nat -> (Z.of_nat (length p) <? 8) = true.
Proof. intros H. apply Z.ltb_lt. lia. Qed.
Lemma psize_lt4 (p : list Z) : (length p < 4)%nat -> (Z.of_nat (length p) <? 4) = true.
Proof. intros H. apply Z.ltb_lt. lia. Qed.

Lemma nosv_state_short v p w : (length p < 8)%nat ->
  exists e', TaskNosv_gen.update_task_state (TaskEvProofs.mk who M_NOSV v p) E' w = Err e' /\ e' <> TaskEvPre.E_TRAP.
Proof.
  intros Hp. unfold TaskNosv_gen.update_task_state. tmunf.
  unfold TaskEvPre.get_emu_ev_payload_size, TaskEvPre.get_emu_ev_payload. cbn [TaskEvProofs.mk GuardsPre.e_payload].
  change (cast_uint64 4) with 4. change (cast_uint64 8) with 8.
  destruct (Z.of_nat (length p) <? 4) eqn:E4; [fin_err'|].
  destruct p as [|p0 pr]; cbn [is_null negb]; [discriminate E4|].
  rewrite (psize_lt8 _ Hp). fin_err'.
Qed.

Lemma n6_state_short v p w : (length p < 4)%nat ->
  exists e', TaskNanos6_gen.update_task_state (TaskEvProofs.mk who M_NANOS6 v p) E' w = Err e' /\ e' <> TaskEvPre.E_TRAP.
Proof.
  intros Hp. unfold TaskNanos6_gen.update_task_state. tmunf.
  unfold TaskEvPre.get_emu_ev_payload_size. cbn [TaskEvProofs.mk GuardsPre.e_payload].
  change (cast_uint64 4) with 4. rewrite (psize_lt4 _ Hp). fin_err'.
Qed.

Lemma nosv_pre_task_short v p w : TaskEvProofs.kinds v -> (length p < 8)%nat ->
  exists e', TaskNosv_gen.pre_task (TaskEvProofs.mk who M_NOSV v p) E' w = Err e' /\ e' <> TaskEvPre.E_TRAP.
Proof.
  intros Hv Hp. unfold E'. rewrite (TaskEvProofs.nosv_pre_task_form sx cs who v p w Hv), (TaskEvProofs.nosv_update_form sx cs who v p w Hv).
  destruct (nosv_state_short v p w Hp) as (e' & S & Sn). unfold E' in S. rewrite S.
  apply Nat.eqb_neq in Sn. rewrite Sn. fin_err'.
Qed.
Lemma n6_pre_task_short v p w : TaskEvProofs.kinds v -> (length p < 4)%nat ->
  exists e', TaskNanos6_gen.pre_task (TaskEvProofs.mk who M_NANOS6 v p) E' w = Err e' /\ e' <> TaskEvPre.E_TRAP.
Proof.
  intros Hv Hp. unfold E'. rewrite (TaskEvProofs.n6_pre_task_form sx cs who v p w Hv), (TaskEvProofs.n6_update_form sx cs who v p w Hv).
  destruct (n6_state_short v p w Hp) as (e' & S & Sn). unfold E' in S. rewrite S.
  apply Nat.eqb_neq in Sn. rewrite Sn. fin_err'.
Qed.

Lemma nosv_create_short v p w : v = 67 \/ v = 99 -> (length p < 8)%nat ->
  TaskNosv_gen.pre_task (TaskEvProofs.mk who M_NOSV v p) E' w = Err TaskEvPre.E_FAIL.
Proof.
  intros Hv Hp. unfold TaskNosv_gen.pre_task. unfold TaskEvPre.bind at 1, TaskEvPre.eval at 1, TaskEvPre.bind at 1, TaskEvPre.eval at 1.
  cbn [TaskEvPre.get_emu_ev_v TaskEvProofs.mk GuardsPre.e_v].
  assert (Hs : (v =? 67) || (v =? 99) = true) by (destruct Hv as [ -> | -> ]; reflexivity). rewrite Hs.
  rewrite TaskEvProofs.status_wrap. unfold TaskEvPre.bind at 1, TaskEvPre.eval at 1.
  unfold TaskNosv_gen.create_task. tmunf. unfold TaskEvPre.get_emu_ev_payload_size. cbn [TaskEvProofs.mk GuardsPre.e_payload].
  change (cast_uint64 8) with 8. rewrite (psize_lt8 _ Hp). reflexivity.
Qed.
Lemma n6_create_short p w : length p <> 8%nat ->
  TaskNanos6_gen.pre_task (TaskEvProofs.mk who M_NANOS6 99 p) E' w = Err TaskEvPre.E_FAIL.
Proof.
  intros Hp. unfold TaskNanos6_gen.pre_task. unfold TaskEvPre.bind at 1, TaskEvPre.eval at 1, TaskEvPre.bind at 1, TaskEvPre.eval at 1.
  cbn [TaskEvPre.get_emu_ev_v TaskEvProofs.mk GuardsPre.e_v Z.eqb Pos.eqb].
  rewrite TaskEvProofs.status_wrap.
  unfold TaskNanos6_gen.create_task. tmunf. unfold TaskEvPre.get_emu_ev_payload_size. cbn [TaskEvProofs.mk GuardsPre.e_payload].
  change (cast_uint64 8) with 8.
  assert (H8 : (Z.of_nat (length p) =? 8) = false) by (apply Z.eqb_neq; lia). rewrite H8. reflexivity.
Qed.

Lemma nosv_pre_task_other v p w : ~ TaskEvProofs.kinds v -> v <> 67 -> v <> 99 ->
  TaskNosv_gen.pre_task (TaskEvProofs.mk who M_NOSV v p) E' w = Err TaskEvPre.E_FAIL.
Proof.
  intros Hk H67 H99. unfold TaskNosv_gen.pre_task. unfold TaskEvPre.bind at 1, TaskEvPre.eval at 1, TaskEvPre.bind at 1, TaskEvPre.eval at 1.
  cbn [TaskEvPre.get_emu_ev_v TaskEvProofs.mk GuardsPre.e_v].
  apply Z.eqb_neq in H67, H99. rewrite H67, H99. cbn [orb].
  unfold TaskEvProofs.kinds in Hk.
  destruct (Z.eqb_spec v 120); [tauto|]. destruct (Z.eqb_spec v 101); [tauto|]. destruct (Z.eqb_spec v 114); [tauto|]. destruct (Z.eqb_spec v 112); [tauto|].
  reflexivity.
Qed.
Lemma n6_pre_task_other v p w : ~ TaskEvProofs.kinds v -> v <> 67 -> v <> 99 ->
  TaskNanos6_gen.pre_task (TaskEvProofs.mk who M_NANOS6 v p) E' w = Err TaskEvPre.E_FAIL.
Proof.
  intros Hk H67 H99. unfold TaskNanos6_gen.pre_task. unfold TaskEvPre.bind at 1, TaskEvPre.eval at 1, TaskEvPre.bind at 1, TaskEvPre.eval at 1.
  cbn [TaskEvPre.get_emu_ev_v TaskEvProofs.mk GuardsPre.e_v].
  apply Z.eqb_neq in H67, H99. rewrite H67, H99.
  unfold TaskEvProofs.kinds in Hk.
  destruct (Z.eqb_spec v 120); [tauto|]. destruct (Z.eqb_spec v 101); [tauto|]. destruct (Z.eqb_spec v 114); [tauto|]. destruct (Z.eqb_spec v 112); [tauto|].
  reflexivity.
Qed.


Lemma need_ok_fails n : need_ok n th = negb (need_fails n).
Proof. reflexivity. Qed.

Lemma kinds_dec v : {TaskEvProofs.kinds v} + {~ TaskEvProofs.kinds v}.
Proof.
  unfold TaskEvProofs.kinds.
  destruct (Z.eq_dec v 120); [left; tauto|]. destruct (Z.eq_dec v 101); [left; tauto|].
  destruct (Z.eq_dec v 112); [left; tauto|]. destruct (Z.eq_dec v 114); [left; tauto|]. right. tauto.
Qed.
Lemma kinds_bool v : (v =? 120) || (v =? 101) || (v =? 114) || (v =? 112) = true <-> TaskEvProofs.kinds v.
Proof.
  unfold TaskEvProofs.kinds. rewrite !orb_true_iff, !Z.eqb_eq. tauto.
Qed.

Theorem nosv_T_event me v p : memz M_NOSV en = true -> nth_error (s_threads sx) who = Some me ->
  agrees M_NOSV 84 v p (Dispatch_gen.nosv_model_nosv_event (mk who M_NOSV 84 v p)).
Proof.
  intros Hen Hme.
  assert (F : Dispatch_gen.nosv_model_nosv_event (mk who M_NOSV 84 v p) E (W st []) =
              if need_fails 4 then Err E_FAIL else fin (TaskNosv_gen.pre_task (TaskEvProofs.mk who M_NOSV v p) E' (W st []))).
  { unfold Dispatch_gen.nosv_model_nosv_event, Dispatch_gen.nosv_process_ev. munf. thread_views.
    unfold need_fails. cbn [Z.eqb Pos.eqb andb orb]. unfold nosv_pre_task, lift_t.
    destruct (is_active (t_state th)), (t_ooc th); cbn [b2z Z.eqb negb andb orb]; reflexivity. }
  unfold agrees. rewrite F. clear F.
  unfold MarkDefs.decode_all, decode_full, decode_task. rewrite Hen.
  change (M_NOSV =? M_OVNI) with false. change (M_NOSV =? M_NOSV) with true. cbn [andb negb Z.eqb Pos.eqb].
  destruct ((v =? 99) || (v =? 67)) eqn:Ec.
  { (* create *)
    assert (Hv : v = 67 \/ v = 99) by (apply orb_true_iff in Ec as [H|H]; apply Z.eqb_eq in H; auto).
    destruct (Nat.ltb (length p) 8) eqn:El.
    - apply Nat.ltb_lt in El. cbn [core_step]. rewrite (nosv_create_short v p _ Hv El).
      destruct (need_fails 4); fin_err.
    - apply Nat.ltb_ge in El. cbn [core_step]. unfold nth_opt. rewrite Hth, need_ok_fails.
      destruct (need_fails 4); cbn [negb]; [fin_err|].
      pose proof (TaskEvProofs.nosv_pre_task_create sx cs who me st v p [] Hv El) as C.
      destruct (task_create sx st who M_NOSV (le_u32 p 0) (le_u32 p 4) (v =? 67) (negb (v =? 67)) (negb (v =? 67)) false) as [s'|];
        unfold E', W; rewrite C; [reflexivity|fin_err]. }
  destruct ((v =? 120) || (v =? 101) || (v =? 114) || (v =? 112)) eqn:Ek.
  { apply kinds_bool in Ek.
    destruct (Nat.ltb (length p) 8) eqn:El.
    - apply Nat.ltb_lt in El. cbn [core_step]. destruct (nosv_pre_task_short v p (W st []) Ek El) as (e' & S & Sn). rewrite S.
      destruct (need_fails 4); fin_err || (eexists; split; [reflexivity|exact Sn]).
    - apply Nat.ltb_ge in El. cbn [core_step nosv_cfg tc_need]. unfold nth_opt. rewrite Hth, need_ok_fails.
      destruct (need_fails 4); cbn [negb]; [fin_err|].
      pose proof (TaskEvProofs.nosv_task_events sx cs who me Hme st th v p Hth Ek El) as T.
      destruct (task_event sx st who (nosv_cfg cs) M_NOSV v (le_u32 p 0) (le_u32 p 4)) as [[s' d]|].
      + unfold E', W. rewrite T. reflexivity.
      + destruct T as (e' & T & Tn). unfold E', W. rewrite T. eexists; split; [reflexivity|exact Tn]. }
  cbn [core_step].
  assert (Hk : ~ TaskEvProofs.kinds v) by (intros H; apply kinds_bool in H; congruence).
  apply orb_false_iff in Ec as [E99 E67]. apply Z.eqb_neq in E99, E67.
  rewrite (nosv_pre_task_other v p _ Hk E67 E99). destruct (need_fails 4); fin_err.
Qed.


Lemma cs_nonempty : memz M_NANOS6 en = true -> exists sp, nth_error (s_chans sx) 0 = Some sp.
Proof.
  intros Hen. assert (T : table_lookup Tables_gen.table M_NANOS6 66 66 = Some (2, Tables_gen.POP, 14)) by (vm_compute; reflexivity).
  pose proof (Hch _ _ _ _ _ _ Hen T) as Hk. rewrite Hsx.
  destruct cs as [|sp r]; [exfalso; apply Hk; reflexivity|]. exists sp. reflexivity.
Qed.

Theorem nanos6_T_event me v p : memz M_NANOS6 en = true -> nth_error (s_threads sx) who = Some me ->
  agrees M_NANOS6 84 v p (Dispatch_gen.nanos6_model_nanos6_event (mk who M_NANOS6 84 v p)).
Proof.
  intros Hen Hme.
  assert (F : Dispatch_gen.nanos6_model_nanos6_event (mk who M_NANOS6 84 v p) E (W st []) =
              if need_fails 2 then Err E_FAIL else fin (TaskNanos6_gen.pre_task (TaskEvProofs.mk who M_NANOS6 v p) E' (W st []))).
  { unfold Dispatch_gen.nanos6_model_nanos6_event, Dispatch_gen.nanos6_process_ev. munf. thread_views.
    unfold need_fails. cbn [Z.eqb Pos.eqb andb orb]. unfold nanos6_pre_task, lift_t.
    destruct (is_active (t_state th)); cbn [b2z Z.eqb negb andb orb]; reflexivity. }
  unfold agrees. rewrite F. clear F.
  unfold MarkDefs.decode_all, decode_full, decode_task. rewrite Hen.
  change (M_NANOS6 =? M_OVNI) with false. change (M_NANOS6 =? M_NOSV) with false. change (M_NANOS6 =? M_NANOS6) with true.
  cbn [andb negb Z.eqb Pos.eqb].
  destruct (v =? 67) eqn:E67.
  { apply Z.eqb_eq in E67. subst v. cbn [core_step]. unfold nth_opt. rewrite Hth.
    unfold E', W. rewrite (TaskEvProofs.n6_pre_task_old_create sx cs who p).
    unfold need_fails. cbn [Z.eqb Pos.eqb andb orb].
    destruct (cs_nonempty Hen) as (sp & Hsp). rewrite (chan_step_ign sx st who th 0 None sp Hth Hsp).
    destruct (is_active (t_state th)); cbn [negb andb orb]; [reflexivity|fin_err]. }
  destruct (v =? 99) eqn:E99.
  { apply Z.eqb_eq in E99. subst v.
    destruct (Nat.eqb (length p) 8) eqn:El.
    - apply Nat.eqb_eq in El. cbn [core_step]. unfold nth_opt. rewrite Hth, need_ok_fails.
      destruct (need_fails 2); cbn [negb]; [fin_err|].
      pose proof (TaskEvProofs.n6_pre_task_create sx cs who st p [] El) as C.
      destruct (task_create sx st who M_NANOS6 (le_u32 p 0) (le_u32 p 4) false false true true) as [s'|];
        unfold E', W; rewrite C; [reflexivity|fin_err].
    - apply Nat.eqb_neq in El. cbn [core_step]. rewrite (n6_create_short p _ El). destruct (need_fails 2); fin_err. }
  destruct ((v =? 120) || (v =? 101) || (v =? 114) || (v =? 112)) eqn:Ek.
  { apply kinds_bool in Ek.
    destruct (Nat.ltb (length p) 4) eqn:El.
    - apply Nat.ltb_lt in El. cbn [core_step]. destruct (n6_pre_task_short v p (W st []) Ek El) as (e' & S & Sn). rewrite S.
      destruct (need_fails 2); fin_err || (eexists; split; [reflexivity|exact Sn]).
    - apply Nat.ltb_ge in El. cbn [core_step nanos6_cfg tc_need]. unfold nth_opt. rewrite Hth, need_ok_fails.
      destruct (need_fails 2); cbn [negb]; [fin_err|].
      pose proof (TaskEvProofs.n6_task_events sx cs who me Hme st th v p Hth Ek El) as T.
      destruct (task_event sx st who (nanos6_cfg cs) M_NANOS6 v (le_u32 p 0) 0) as [[s' d]|].
      + unfold E', W. rewrite T. reflexivity.
      + destruct T as (e' & T & Tn). unfold E', W. rewrite T. eexists; split; [reflexivity|exact Tn]. }
  cbn [core_step].
  assert (Hk : ~ TaskEvProofs.kinds v) by (intros H; apply kinds_bool in H; congruence).
  apply Z.eqb_neq in E99, E67.
  rewrite (n6_pre_task_other v p _ Hk E67 E99). destruct (need_fails 2); fin_err.
Qed.

(* ---- the Y category: pre_type (a primitive: type_create with the gid of the label given from outside) *)
Theorem nosv_Y_event v p : memz M_NOSV en = true ->
  agrees M_NOSV 89 v p (Dispatch_gen.nosv_model_nosv_event (mk who M_NOSV 89 v p)).
Proof.
  intros Hen.
  assert (F : Dispatch_gen.nosv_model_nosv_event (mk who M_NOSV 89 v p) E (W st []) =
              if need_fails 4 then Err E_FAIL else fin (nosv_pre_type (mk who M_NOSV 89 v p) E (W st []))).
  { unfold Dispatch_gen.nosv_model_nosv_event, Dispatch_gen.nosv_process_ev. munf. thread_views.
    unfold need_fails. cbn [Z.eqb Pos.eqb andb orb].
    destruct (is_active (t_state th)), (t_ooc th); cbn [b2z Z.eqb negb andb orb]; reflexivity. }
  unfold agrees. rewrite F. clear F.
  unfold MarkDefs.decode_all, decode_full, decode_task. rewrite Hen.
  change (M_NOSV =? M_OVNI) with false. change (M_NOSV =? M_NOSV) with true. cbn [andb negb Z.eqb Pos.eqb].
  unfold nosv_pre_type, pre_type_of, of_core, d_sx. cbn [mk GuardsPre.e_v GuardsPre.e_who GuardsPre.e_payload d_te d_jumbo d_aux E TaskEvPre.te_sx TaskEvPre.w_st TaskEvPre.w_dirty W TaskEvProofs.W app].
  destruct (negb (v =? 99)); [cbn [core_step]; destruct (need_fails 4); fin_err|].
  destruct (negb jumbo); [cbn [core_step]; destruct (need_fails 4); fin_err|].
  cbn [core_step]. unfold nth_opt. rewrite Hth, need_ok_fails.
  destruct (need_fails 4); cbn [negb]; [fin_err|].
  destruct (type_create sx st who M_NOSV (le_u32 p 4) aux); [reflexivity|fin_err].
Qed.

Theorem nanos6_Y_event v p : memz M_NANOS6 en = true ->
  agrees M_NANOS6 89 v p (Dispatch_gen.nanos6_model_nanos6_event (mk who M_NANOS6 89 v p)).
Proof.
  intros Hen.
  assert (F : Dispatch_gen.nanos6_model_nanos6_event (mk who M_NANOS6 89 v p) E (W st []) =
              if need_fails 2 then Err E_FAIL else fin (nanos6_pre_type (mk who M_NANOS6 89 v p) E (W st []))).
  { unfold Dispatch_gen.nanos6_model_nanos6_event, Dispatch_gen.nanos6_process_ev. munf. thread_views.
    unfold need_fails. cbn [Z.eqb Pos.eqb andb orb].
    destruct (is_active (t_state th)); cbn [b2z Z.eqb negb andb orb]; reflexivity. }
  unfold agrees. rewrite F. clear F.
  unfold MarkDefs.decode_all, decode_full, decode_task. rewrite Hen.
  change (M_NANOS6 =? M_OVNI) with false. change (M_NANOS6 =? M_NOSV) with false. change (M_NANOS6 =? M_NANOS6) with true.
  cbn [andb negb Z.eqb Pos.eqb].
  unfold nanos6_pre_type, pre_type_of, of_core, d_sx. cbn [mk GuardsPre.e_v GuardsPre.e_who GuardsPre.e_payload d_te d_jumbo d_aux E TaskEvPre.te_sx TaskEvPre.w_st TaskEvPre.w_dirty W TaskEvProofs.W app].
  destruct (negb (v =? 99)); [cbn [core_step]; destruct (need_fails 2); fin_err|].
  destruct (negb jumbo); [cbn [core_step]; destruct (need_fails 2); fin_err|].
  cbn [core_step]. unfold nth_opt. rewrite Hth, need_ok_fails.
  destruct (need_fails 2); cbn [negb]; [fin_err|].
  destruct (type_create sx st who M_NANOS6 (le_u32 p 4) aux); [reflexivity|fin_err].
Qed.


(* ---- every category of nosv / nanos6 / ovni *)
Theorem nosv_event me c v p : memz M_NOSV en = true -> nth_error (s_threads sx) who = Some me ->
  agrees M_NOSV c v p (Dispatch_gen.nosv_model_nosv_event (mk who M_NOSV c v p)).
Proof.
  intros Hen Hme. destruct (Z.eq_dec c 84) as [->|N1]; [exact (nosv_T_event me v p Hen Hme)|].
  destruct (Z.eq_dec c 89) as [->|N2]; [exact (nosv_Y_event v p Hen)|]. exact (nosv_table_event c v p Hen N1 N2).
Qed.
Theorem nanos6_event me c v p : memz M_NANOS6 en = true -> nth_error (s_threads sx) who = Some me ->
  agrees M_NANOS6 c v p (Dispatch_gen.nanos6_model_nanos6_event (mk who M_NANOS6 c v p)).
Proof.
  intros Hen Hme. destruct (Z.eq_dec c 84) as [->|N1]; [exact (nanos6_T_event me v p Hen Hme)|].
  destruct (Z.eq_dec c 89) as [->|N2]; [exact (nanos6_Y_event v p Hen)|]. exact (nanos6_table_event c v p Hen N1 N2).
Qed.
Theorem ovni_all_event me c v p : memz M_OVNI en = true -> nth_error (s_threads sx) who = Some me -> GuardsProofs.GInv sx st ->
  agrees M_OVNI c v p (Dispatch_gen.ovni_model_ovni_event (mk who M_OVNI c v p)).
Proof.
  intros Hen Hme HI. destruct (Z.eq_dec c 72) as [->|N1]; [apply (ovni_thread_event me); auto|].
  destruct (Z.eq_dec c 65) as [->|N2]; [apply (ovni_thread_event me); auto|]. exact (ovni_event c v p Hen N1 N2).
Qed.

End Dispatch.

(* ================================================================ the eight models at once *)

Definition gen_event (m : Z) : emu -> M unit :=
  if m =? M_OVNI then Dispatch_gen.ovni_model_ovni_event
  else if m =? M_NANOS6 then Dispatch_gen.nanos6_model_nanos6_event
  else if m =? M_NOSV then Dispatch_gen.nosv_model_nosv_event
  else if m =? M_NODES then Dispatch_gen.nodes_model_nodes_event
  else if m =? M_TAMPI then Dispatch_gen.tampi_model_tampi_event
  else if m =? M_MPI then Dispatch_gen.mpi_model_mpi_event
  else if m =? M_KERNEL then Dispatch_gen.kernel_model_kernel_event
  else if m =? M_OPENMP then Dispatch_gen.openmp_model_openmp_event
  else fun _ => fail E_FAIL.
Definition all_models : list Z := [M_OVNI; M_NANOS6; M_NOSV; M_NODES; M_TAMPI; M_MPI; M_KERNEL; M_OPENMP].

(* the channels the tables and the handlers name exist among the channels of the enabled models *)
Definition has_chan (m i : Z) : bool :=
  existsb (fun '(m', i', _, _, _, _, _, _) => (m' =? m) && (i' =? i)) Tables_gen.chanspecs.
Lemma rows_have_chan : forallb (fun '(m, _, _, ch, _, _) => has_chan m ch) Tables_gen.table = true.
Proof. vm_compute. reflexivity. Qed.

Lemma mk_chans_pos en m i : memz m en = true -> has_chan m i = true -> chan_pos (mk_chans en) m i <> None.
Proof.
  intros Hen. unfold chan_pos, mk_chans, has_chan. generalize 0%nat.
  induction Tables_gen.chanspecs as [|[[[[[[[m' i'] stk] dup] tht] cput] ty] fl] r IH]; intros k; cbn [existsb flat_map]; [discriminate|].
  destruct ((m' =? m) && (i' =? i)) eqn:Eh.
  - intros _. apply andb_true_iff in Eh as [Em Ei]. apply Z.eqb_eq in Em, Ei. subst m' i'. rewrite Hen.
    cbn [app chan_pos_from cs_model cs_index]. rewrite !Z.eqb_refl. discriminate.
  - cbn [orb]. intros Hr. destruct (memz m' en); cbn [app chan_pos_from cs_model cs_index]; [rewrite Eh|]; apply IH; exact Hr.
Qed.

Lemma table_chans_exist en m c v ch a x : memz m en = true ->
  table_lookup Tables_gen.table m c v = Some (ch, a, x) -> chan_pos (mk_chans en) m ch <> None.
Proof.
  intros Hen H. apply table_lookup_in in H. pose proof rows_have_chan as F. rewrite forallb_forall in F.
  specialize (F _ H). cbv beta iota in F. exact (mk_chans_pos en m ch Hen F).
Qed.

Lemma chan_pos_app_ne a b m i : chan_pos a m i <> None -> chan_pos (a ++ b) m i <> None.
Proof.
  unfold chan_pos. destruct (chan_pos_from a m i 0) as [k|] eqn:Ek; [|congruence]. intros _.
  rewrite (LabelDecode.chan_pos_from_app a b m i 0 k Ek). discriminate.
Qed.

Theorem dispatch_from_source sx en marks who th me jumbo aux st m c v p :
  let cs := mk_chans en ++ marks in
  nth_error (threads st) who = Some th -> nth_error (s_threads sx) who = Some me -> s_chans sx = cs ->
  In m all_models -> memz m en = true -> (m = M_OVNI -> GuardsProofs.GInv sx st) ->
  agrees sx cs en who jumbo aux st m c v p (gen_event m (mk who m c v p)).
Proof.
  intros cs Hth Hme Hsx Hm Hen HI.
  assert (Hch : forall m c v ch a x, memz m en = true -> table_lookup Tables_gen.table m c v = Some (ch, a, x) -> chan_pos cs m ch <> None)
    by (intros; apply chan_pos_app_ne; eapply table_chans_exist; eauto).
  assert (Hk : memz M_KERNEL en = true -> chan_pos cs M_KERNEL Tables_gen.c_kernel_CH_CS <> None)
    by (intros H; apply chan_pos_app_ne; apply mk_chans_pos; [exact H|vm_compute; reflexivity]).
  assert (Hf : memz M_OVNI en = true -> chan_pos cs M_OVNI Tables_gen.c_ovni_CH_FLUSH <> None)
    by (intros H; apply chan_pos_app_ne; apply mk_chans_pos; [exact H|vm_compute; reflexivity]).
  unfold all_models in Hm. cbn [In] in Hm.
  destruct Hm as [<-|[<-|[<-|[<-|[<-|[<-|[<-|[<-|[]]]]]]]]]; cbv beta iota delta [gen_event]; cbn [Z.eqb Pos.eqb M_OVNI M_NANOS6 M_NOSV M_NODES M_TAMPI M_MPI M_KERNEL M_OPENMP].
  - eapply ovni_all_event; eauto.
  - eapply nanos6_event; eauto.
  - eapply nosv_event; eauto.
  - eapply nodes_event; eauto.
  - eapply tampi_event; eauto.
  - eapply mpi_event; eauto.
  - eapply kernel_event; eauto.
  - eapply openmp_event; eauto.
Qed.

(* ---- corollaries *)

(* what the decoder calls bad (unknown model / category / value, wrong payload size), the generated code refuses,
   and without dereferencing NULL *)
Theorem bad_refused sx en marks who th me jumbo aux st m c v p :
  let cs := mk_chans en ++ marks in
  nth_error (threads st) who = Some th -> nth_error (s_threads sx) who = Some me -> s_chans sx = cs ->
  In m all_models -> memz m en = true -> (m = M_OVNI -> GuardsProofs.GInv sx st) ->
  (exists w, MarkDefs.decode_all en cs m c v p jumbo aux = EvBad w) ->
  let E := {| d_te := {| TaskEvPre.te_sx := sx; TaskEvPre.te_cs := cs |}; d_jumbo := jumbo; d_aux := aux |} in
  exists e', gen_event m (mk who m c v p) E (W st []) = Err e' /\ e' <> E_TRAP.
Proof.
  intros cs Hth Hme Hsx Hm Hen HI (w & Hb) E.
  pose proof (dispatch_from_source sx en marks who th me jumbo aux st m c v p Hth Hme Hsx Hm Hen HI) as D.
  unfold agrees in D. fold cs in D. rewrite Hb in D. cbn [core_step] in D. exact D.
Qed.

(* an event that reaches a table entry: the channel the entry names gets the entry's action with the entry's value,
   under the thread-state requirement of the model *)
Definition table_models : list Z := [M_NANOS6; M_NOSV; M_NODES; M_TAMPI; M_MPI; M_OPENMP].
Theorem table_events_from_source sx en marks who th me jumbo aux st m c v p ch a x k :
  let cs := mk_chans en ++ marks in
  nth_error (threads st) who = Some th -> nth_error (s_threads sx) who = Some me -> s_chans sx = cs ->
  In m table_models -> memz m en = true ->
  ((m = M_NOSV \/ m = M_NANOS6) -> c <> 84 /\ c <> 89) ->
  match cats m with Some l => memz c l | None => true end = true ->
  table_lookup Tables_gen.table m c v = Some (ch, a, x) -> chan_pos cs m ch = Some k ->
  let E := {| d_te := {| TaskEvPre.te_sx := sx; TaskEvPre.te_cs := cs |}; d_jumbo := jumbo; d_aux := aux |} in
  match core_step sx st who (EvChan k (conv_action a) (Some x) (need_of m)) with
  | Ok (st', d) => gen_event m (mk who m c v p) E (W st []) = Ok (tt, W st' d)
  | Err _ => exists e', gen_event m (mk who m c v p) E (W st []) = Err e' /\ e' <> E_TRAP
  end.
Proof.
  intros cs Hth Hme Hsx Hm Hen Hty Hcat Ht Hk E.
  assert (Hm' : In m all_models).
  { unfold table_models, all_models in *. cbn [In] in *. tauto. }
  assert (Ho : m <> M_OVNI) by (intros ->; unfold table_models in Hm; cbn [In] in Hm; repeat (destruct Hm as [Hm|Hm]; [discriminate Hm|]); exact Hm).
  assert (Hkn : m <> M_KERNEL) by (intros ->; unfold table_models in Hm; cbn [In] in Hm; repeat (destruct Hm as [Hm|Hm]; [discriminate Hm|]); exact Hm).
  pose proof (dispatch_from_source sx en marks who th me jumbo aux st m c v p Hth Hme Hsx Hm' Hen (fun H => False_ind _ (Ho H))) as D.
  unfold agrees in D. fold cs in D.
  rewrite (decode_table cs en jumbo aux m c v p Hen Ho Hkn Hty) in D.
  unfold table_event, catok in D. rewrite Hcat, Ht, Hk in D. cbn [negb] in D. exact D.
Qed.

(* ---- worked evaluations: one thread, one CPU, models ovni + nosv + kernel *)
Definition ex_en : list Z := [M_OVNI; M_NOSV; M_KERNEL].
(* one stack mark type, number 3 *)
Definition ex_cs : list chanspec :=
  mk_chans ex_en ++ MarkDefs.mark_chans [{| MarkDefs.mt_type := 3; MarkDefs.mt_title := []; MarkDefs.mt_stack := true; MarkDefs.mt_labels := [] |}].
Definition ex_sx : static :=
  {| s_threads := [{| ti_tid := 7; ti_pid := 1; ti_loom := 0; ti_appid := 1; ti_rank := -1 |}];
     s_cpus := [{| ci_virtual := false; ci_loom := 0; ci_index := 0 |}]; s_chans := ex_cs; s_lint := false |}.
Definition ex_E : denv := {| d_te := {| TaskEvPre.te_sx := ex_sx; TaskEvPre.te_cs := ex_cs |}; d_jumbo := false; d_aux := 0 |}.
Fixpoint ex_run (s : state) (evs : list (Z * Z * Z * list Z)) : result state :=
  match evs with
  | [] => Ok s
  | (m, c, v, p) :: r =>
    match gen_event m (mk 0 m c v p) ex_E (W s []) with
    | Ok (_, w) => ex_run (TaskEvPre.w_st w) r
    | Err e => Err e
    end
  end.
Definition ex_ss (r : result state) : option (list Z) :=
  match r with
  | Ok s => Some (r_stk (raw_of s 0 (chan_of ex_cs M_NOSV Tables_gen.c_nosv_CH_SUBSYSTEM)))
  | Err _ => None
  end.
Definition OHx : Z * Z * Z * list Z := (79, 72, 120, [0; 0; 0; 0]).
Definition ex_mark (r : result state) : option (list Z) :=
  match r with
  | Ok s => Some (r_stk (raw_of s 0 (chan_of ex_cs MarkDefs.MARK_MODEL 3)))
  | Err _ => None
  end.
