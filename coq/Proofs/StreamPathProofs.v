(* C03, unit traceload (second output): what the generated stream.c:stream_load (coq/Gen/StreamPath_gen.v)
   leaves in struct stream: relpath - the key trace.c:cmp_streams sorts by - is the relpath argument
   load_stream computed; path, jsonpath, obspath are built from it; stream.json is loaded before stream.obs. *)
From Coq Require Import ZArith List Bool Lia.
From OV Require Import Base.CInt Emu.StreamPathPre Gen.StreamPath_gen.
Import ListNotations.
Local Open Scope Z_scope.

Definition stream_json : cstr := [115; 116; 114; 101; 97; 109; 46; 106; 115; 111; 110].   (* "stream.json" *)
Definition stream_obs : cstr := [115; 116; 114; 101; 97; 109; 46; 111; 98; 115].          (* "stream.obs" *)

Definition stream_load_spec (sx : lenv) (d rel : cstr) : option lstate :=
  let p := path_remove_trailing_v (join d rel) in
  let pj := join p stream_json in
  let po := join p stream_obs in
  if negb (fits (join d rel) 4096) then None
  else if negb (fits rel 4096) then None
  else if negb (fits pj 4096) then None
  else if negb (y_json sx pj) then None
  else if negb (fits po 4096) then None
  else if negb (y_obs sx po) then None
  else Some (mk_lstate p rel pj po (Some tt) true).

Theorem stream_load_from_source sx st0 d rel :
  stream_load (Some tt) d rel sx st0 =
  match stream_load_spec sx d rel with Some st' => Ok tt st' | None => Err E_FAIL end.
Proof.
  unfold stream_load, stream_load_spec, bind_, bind, zero_stream, str_join_stream_path, need,
    set_stream_path, str_copy_stream_relpath, path_append_stream_jsonpath, path_append_stream_obspath, eval,
    load_json, set_stream_meta, ite, load_obs, get_stream_path, get_stream_jsonpath, get_stream_obspath, fail, ret,
    stream_json, stream_obs, store, upd.
  cbn [is_null negb].
  destruct (fits (join d rel) 4096); cbn [negb]; [|reflexivity].
  cbn [is_null negb w_path l_path l_relpath l_jsonpath l_obspath l_meta l_obs].
  destruct (fits rel 4096); cbn [negb]; [|reflexivity].
  cbn [is_null negb w_path w_relpath l_path l_relpath l_jsonpath l_obspath l_meta l_obs].
  destruct (fits (join (path_remove_trailing_v (join d rel)) _) 4096); cbn [negb]; [|reflexivity].
  cbn [is_null negb w_path w_relpath w_jsonpath l_path l_relpath l_jsonpath l_obspath l_meta l_obs].
  destruct (y_json sx _); cbn [is_null negb]; [|reflexivity].
  cbn [is_null negb w_path w_relpath w_jsonpath w_meta l_path l_relpath l_jsonpath l_obspath l_meta l_obs].
  destruct (fits (join (path_remove_trailing_v (join d rel)) _) 4096); cbn [negb]; [|reflexivity].
  cbn [is_null negb w_path w_relpath w_jsonpath w_obspath w_meta l_path l_relpath l_jsonpath l_obspath l_meta l_obs].
  destruct (y_obs sx _); cbn [negb]; reflexivity.
Qed.

(* the sort key is the argument; the files are <tracedir>/<relpath>/stream.json and .../stream.obs *)
Theorem stream_load_paths sx st0 d rel st1 :
  stream_load (Some tt) d rel sx st0 = Ok tt st1 ->
  l_relpath st1 = rel /\
  l_path st1 = path_remove_trailing_v (join d rel) /\
  l_jsonpath st1 = join (l_path st1) stream_json /\ y_json sx (l_jsonpath st1) = true /\
  l_obspath st1 = join (l_path st1) stream_obs /\ y_obs sx (l_obspath st1) = true /\
  l_meta st1 = Some tt /\ l_obs st1 = true.
Proof.
  rewrite stream_load_from_source. unfold stream_load_spec.
  destruct (negb (fits (join d rel) 4096)); [discriminate|].
  destruct (negb (fits rel 4096)); [discriminate|].
  destruct (negb (fits (join _ stream_json) 4096)); [discriminate|].
  destruct (y_json sx _) eqn:J; cbn [negb]; [|discriminate].
  destruct (negb (fits (join _ stream_obs) 4096)); [discriminate|].
  destruct (y_obs sx _) eqn:O; cbn [negb]; [|discriminate].
  intro H. injection H as <-. cbn [l_path l_relpath l_jsonpath l_obspath l_meta l_obs]. repeat split; assumption.
Qed.

(* a stream.json that does not load: stream.obs is not looked at (its environment is irrelevant) *)
Theorem stream_load_json_first sx st0 d rel yo :
  y_json sx (join (path_remove_trailing_v (join d rel)) stream_json) = false ->
  stream_load (Some tt) d rel (mk_lenv (y_json sx) yo) st0 = Err E_FAIL.
Proof.
  intro J. rewrite stream_load_from_source. unfold stream_load_spec. cbn [y_json y_obs]. rewrite J. cbn [negb].
  destruct (negb (fits (join d rel) 4096)); [reflexivity|].
  destruct (negb (fits rel 4096)); [reflexivity|].
  destruct (negb (fits _ 4096)); reflexivity.
Qed.

Module StreamPathExamples.
  Definition env : lenv := mk_lenv (fun _ => true) (fun _ => true).
  Definition st0 : lstate := mk_lstate [1] [2] [3] [4] None false.
  (* tracedir "t", relpath "a" *)
  Example paths :
    match stream_load (Some tt) [116] [97] env st0 with
    | Ok _ st => (l_path st, l_relpath st, l_obspath st) = ([116; 47; 97], [97], [116; 47; 97; 47] ++ stream_obs)
    | Err _ => False
    end.
  Proof. vm_compute. reflexivity. Qed.
  (* empty relpath: "t/" loses the slash *)
  Example empty_relpath :
    match stream_load (Some tt) [116] [] env st0 with
    | Ok _ st => l_path st = [116] /\ l_relpath st = []
    | Err _ => False
    end.
  Proof. vm_compute. split; reflexivity. Qed.
  Example too_long : stream_load (Some tt) (repeat 97 4090) (repeat 98 10) env st0 = Err E_FAIL.
  Proof. vm_compute. reflexivity. Qed.
End StreamPathExamples.
