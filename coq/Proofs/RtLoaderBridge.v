(* Bridge between the codec (Rt/CodecDefs.v: encode) and the independent statement of the stream
   file format (Emu/LoaderSpec.v): the file made of the stream header followed by the encodings
   of well-formed events with non-decreasing clocks below 2^63 is a structurally valid, sorted
   stream whose records are [layout 8 es] (bridge_valid), and the events the emulator reads at
   those records are the events themselves (bridge_raw). *)
From OV Require Import Base.CInt Rt.CodecPre Gen.Codec_gen Rt.CodecDefs Rt.RtBufDefs Emu.LoaderSpec Rt.RtEmuDefs Proofs.CodecProofs.
From Coq Require Import ZifyBool.
Local Open Scope Z_scope.
Ltac Zify.zify_post_hook ::= Z.div_mod_to_equations.

(* ------------------------------------------------------------------ generic helpers *)

Lemma slen_app a b : slen (a ++ b) = slen a + slen b.
Proof. unfold slen. rewrite app_length. lia. Qed.

Lemma slen_nonneg a : 0 <= slen a.
Proof. unfold slen. lia. Qed.

Lemma slen_zlength a : slen a = zlength a.
Proof. unfold slen. symmetry. apply zlength_len. Qed.

Lemma sbyte_at bs pre b rest off :
  bs = pre ++ b :: rest -> off = slen pre -> byte b -> sbyte bs off = b.
Proof.
  intros Hbs Hoff Hb. subst bs off. unfold sbyte, slen. rewrite Nat2Z.id.
  rewrite nth_middle. unfold byte in Hb. apply Z.mod_small. lia.
Qed.

Lemma sle_at l : forall bs pre rest off,
  bs = pre ++ l ++ rest -> off = slen pre -> Forall byte l -> sle bs off (length l) = le_val l.
Proof.
  induction l as [|b l IH]; intros bs pre rest off Hbs Hoff Hl.
  - reflexivity.
  - apply Forall_cons_iff in Hl. destruct Hl as [Hb Hl].
    cbn [length sle le_val].
    rewrite (sbyte_at bs pre b (l ++ rest) off Hbs Hoff Hb).
    rewrite (IH bs (pre ++ [b]) rest (off + 1)); [reflexivity| |  |exact Hl].
    + rewrite Hbs. rewrite <- app_assoc. reflexivity.
    + rewrite slen_app. rewrite Hoff. reflexivity.
Qed.

Lemma sbyte_app1 a b i : 0 <= i < slen a -> sbyte (a ++ b) i = sbyte a i.
Proof.
  intros H. unfold sbyte. unfold slen in H. rewrite app_nth1 by lia. reflexivity.
Qed.

Lemma sle_app1 n : forall a b i, 0 <= i -> i + Z.of_nat n <= slen a -> sle (a ++ b) i n = sle a i n.
Proof.
  induction n as [|n IH]; intros a b i H0 H1.
  - reflexivity.
  - cbn [sle]. rewrite sbyte_app1 by lia. rewrite IH by lia. reflexivity.
Qed.

Lemma map_mod_byte l : Forall byte l -> map (fun b => b mod 256) l = l.
Proof.
  induction 1 as [|x l Hx Hl IH]; cbn [map].
  - reflexivity.
  - rewrite IH. unfold byte in Hx. rewrite Z.mod_small by lia. reflexivity.
Qed.

Lemma testbit4_small x : 0 <= x < 16 -> Z.testbit x 4 = false.
Proof.
  intros H. rewrite Z.testbit_odd. rewrite Z.shiftr_div_pow2 by lia.
  change (2 ^ 4) with 16. rewrite Z.div_small by lia. reflexivity.
Qed.

(* ------------------------------------------------------------------ the shape of one encoded event *)

Definition flag_of (e : uev) : Z :=
  if u_jumbo e then JUMBO_FLAG + 3 else nibble (zlength (u_data e)).

Lemma encode_shape e :
  encode e = [flag_of e; u_m e; u_c e; u_v e] ++ le_bytes 8 (u_clock e) ++ payload_of e.
Proof. unfold encode, flag_of, payload_of. destruct (u_jumbo e); reflexivity. Qed.

Lemma wf_data e : wf_uev e -> Forall byte (u_data e).
Proof.
  unfold wf_uev, wf_uevb. intros H.
  repeat (apply andb_prop in H; destruct H as [H ?]).
  match goal with Hf : forallb byteb _ = true |- _ => rename Hf into F end.
  apply Forall_forall. intros x Hx. rewrite forallb_forall in F. specialize (F x Hx).
  unfold byteb in F. unfold byte. lia.
Qed.

Lemma payload_byte e : wf_uev e -> Forall byte (payload_of e).
Proof.
  intros W. unfold payload_of. destruct (u_jumbo e).
  - apply Forall_app. split; [apply le_bytes_byte | apply wf_data; exact W].
  - apply wf_data. exact W.
Qed.

Lemma payload_len e : Z.of_nat (length (payload_of e)) = esize e - 12.
Proof.
  unfold payload_of, esize, HEADER_SIZE. destruct (u_jumbo e).
  - rewrite app_length, le_bytes_length, zlength_len. lia.
  - rewrite zlength_len. lia.
Qed.

Lemma flag_byte e : wf_uev e -> byte (flag_of e).
Proof.
  intros W. destruct (wf_uev_inv e W) as (_ & _ & _ & _ & Hd).
  unfold flag_of, byte. destruct (u_jumbo e).
  - unfold JUMBO_FLAG. lia.
  - pose proof (nibble_range _ Hd). lia.
Qed.

Lemma flag_jumbo_bit e : wf_uev e -> Z.testbit (flag_of e) 4 = u_jumbo e.
Proof.
  intros W. destruct (wf_uev_inv e W) as (_ & _ & _ & _ & Hd).
  unfold flag_of. destruct (u_jumbo e).
  - reflexivity.
  - apply testbit4_small. apply nibble_range. exact Hd.
Qed.

Lemma esize_min e : 12 <= esize e.
Proof.
  unfold esize, HEADER_SIZE. pose proof (zlength_nonneg (u_data e)). destruct (u_jumbo e); lia.
Qed.

(* what the format specification reads in a file that holds encode e at offset off *)
Lemma ev_facts e pre rest bs off :
  wf_uev e -> bs = pre ++ encode e ++ rest -> off = slen pre ->
  sbyte bs off = flag_of e /\
  sbyte bs (off + 1) = u_m e /\
  sbyte bs (off + 2) = u_c e /\
  sbyte bs (off + 3) = u_v e /\
  sle bs (off + 4) 8 = u_clock e /\
  (u_jumbo e = true -> sle bs (off + 12) 4 = zlength (u_data e)) /\
  slen bs = off + esize e + slen rest /\
  firstn (Z.to_nat (esize e - 12)) (skipn (Z.to_nat (off + 12)) bs) = payload_of e.
Proof.
  intros W Hbs Hoff.
  destruct (wf_uev_inv e W) as (Hm & Hc & Hv & Hclk & Hd).
  pose proof (flag_byte e W) as Hf.
  pose proof (payload_len e) as Hpl.
  assert (Hlen : slen bs = off + esize e + slen rest).
  { rewrite Hbs. rewrite !slen_app. rewrite (slen_zlength (encode e)).
    rewrite <- Hoff.
    assert (Z : zlength (encode e) = esize e).
    { unfold encode, esize, HEADER_SIZE. destruct (u_jumbo e).
      - rewrite !zlength_app, !zlength_le_bytes. cbn [zlength fold_left]. lia.
      - rewrite !zlength_app, !zlength_le_bytes. cbn [zlength fold_left]. lia. }
    rewrite Z. lia. }
  rewrite encode_shape in Hbs.
  remember (flag_of e) as f eqn:Ef.
  remember (le_bytes 8 (u_clock e)) as clk8 eqn:Eclk.
  remember (payload_of e) as pay eqn:Epay.
  assert (Lclk : length clk8 = 8%nat) by (rewrite Eclk; apply le_bytes_length).
  assert (Hbs' : bs = pre ++ f :: u_m e :: u_c e :: u_v e :: clk8 ++ pay ++ rest).
  { rewrite Hbs. cbn [app]. rewrite <- app_assoc. reflexivity. }
  assert (Hoff' : off = Z.of_nat (length pre)) by exact Hoff.
  split; [|split; [|split; [|split; [|split; [|split; [|split]]]]]].
  - exact (sbyte_at bs pre f _ off Hbs' Hoff Hf).
  - apply (sbyte_at bs (pre ++ [f]) (u_m e) (u_c e :: u_v e :: clk8 ++ pay ++ rest)); [| |exact Hm].
    + rewrite Hbs'. rewrite <- app_assoc. reflexivity.
    + unfold slen. rewrite app_length. cbn [length]. lia.
  - apply (sbyte_at bs (pre ++ [f; u_m e]) (u_c e) (u_v e :: clk8 ++ pay ++ rest)); [| |exact Hc].
    + rewrite Hbs'. rewrite <- app_assoc. reflexivity.
    + unfold slen. rewrite app_length. cbn [length]. lia.
  - apply (sbyte_at bs (pre ++ [f; u_m e; u_c e]) (u_v e) (clk8 ++ pay ++ rest)); [| |exact Hv].
    + rewrite Hbs'. rewrite <- app_assoc. reflexivity.
    + unfold slen. rewrite app_length. cbn [length]. lia.
  - pose proof (sle_at clk8 bs (pre ++ [f; u_m e; u_c e; u_v e]) (pay ++ rest) (off + 4)) as S.
    rewrite Lclk in S. rewrite S.
    + rewrite Eclk. apply le_val_le_bytes_small.
      change (256 ^ Z.of_nat 8) with (2 ^ 64). exact Hclk.
    + rewrite Hbs'. rewrite <- app_assoc. reflexivity.
    + unfold slen. rewrite app_length. cbn [length]. lia.
    + rewrite Eclk. apply le_bytes_byte.
  - intros J.
    assert (Ep : pay = le_bytes 4 (zlength (u_data e)) ++ u_data e).
    { rewrite Epay. unfold payload_of. rewrite J. reflexivity. }
    rewrite J in Hd.
    pose proof (sle_at (le_bytes 4 (zlength (u_data e))) bs
                  (pre ++ [f; u_m e; u_c e; u_v e] ++ clk8) (u_data e ++ rest) (off + 12)) as S.
    rewrite le_bytes_length in S. rewrite S.
    + apply le_val_le_bytes_small.
      change (256 ^ Z.of_nat 4) with (2 ^ 32). pose proof (zlength_nonneg (u_data e)). lia.
    + rewrite Hbs'. rewrite Ep. rewrite <- !app_assoc. reflexivity.
    + unfold slen. rewrite !app_length. rewrite Lclk. cbn [length]. lia.
    + apply le_bytes_byte.
  - exact Hlen.
  - assert (Hsplit : bs = (pre ++ [f; u_m e; u_c e; u_v e] ++ clk8) ++ pay ++ rest).
    { rewrite Hbs'. rewrite <- !app_assoc. reflexivity. }
    rewrite Hsplit.
    rewrite skipn_exact.
    + apply firstn_exact. lia.
    + rewrite !app_length. rewrite Lclk. cbn [length]. lia.
Qed.

Lemma ev_size_ok e pre rest bs off :
  wf_uev e -> esize e <= 2147483647 -> bs = pre ++ encode e ++ rest -> off = slen pre ->
  spec_ev_size bs off = Some (esize e).
Proof.
  intros W Hs Hbs Hoff.
  destruct (ev_facts e pre rest bs off W Hbs Hoff) as (F0 & _ & _ & _ & _ & Fj & Flen & _).
  destruct (wf_uev_inv e W) as (_ & _ & _ & _ & Hd).
  pose proof (flag_jumbo_bit e W) as Hbit.
  pose proof (slen_nonneg rest) as Hr.
  pose proof (zlength_nonneg (u_data e)) as Hn.
  unfold spec_ev_size. cbv zeta. rewrite F0, Flen, Hbit.
  replace (off + esize e + slen rest - off) with (esize e + slen rest) by lia.
  pose proof (esize_min e) as Hmin.
  assert (E1 : (esize e + slen rest <? 12) = false) by lia.
  rewrite E1.
  unfold flag_of, esize, HEADER_SIZE in *.
  destruct (u_jumbo e).
  - rewrite (Fj eq_refl).
    assert (E2 : (12 + 4 + zlength (u_data e) + slen rest <? 16) = false) by lia.
    rewrite E2.
    assert (E3 : ((16 + zlength (u_data e) <=? 12 + 4 + zlength (u_data e) + slen rest)
                  && (16 + zlength (u_data e) <=? 2147483647)) = true) by lia.
    rewrite E3. f_equal; lia.
  - pose proof (nibble_range _ Hd) as Hnr.
    rewrite (Z.mod_small (nibble (zlength (u_data e))) 16) by lia.
    assert (En : (if nibble (zlength (u_data e)) =? 0 then 0 else nibble (zlength (u_data e)) + 1)
                 = zlength (u_data e)).
    { unfold nibble. destruct (zlength (u_data e) =? 0) eqn:E0; [rewrite Z.eqb_refl; lia|].
      destruct (zlength (u_data e) - 1 =? 0) eqn:E4; lia. }
    rewrite En.
    assert (E5 : (12 + zlength (u_data e) <=? 12 + zlength (u_data e) + slen rest) = true) by lia.
    rewrite E5. reflexivity.
Qed.

Lemma ev_clock_ok e pre rest bs off :
  wf_uev e -> u_clock e < 2 ^ 63 -> bs = pre ++ encode e ++ rest -> off = slen pre ->
  spec_clock bs off = u_clock e.
Proof.
  intros W Hc Hbs Hoff.
  destruct (ev_facts e pre rest bs off W Hbs Hoff) as (_ & _ & _ & _ & Fc & _).
  unfold spec_clock. cbv zeta. rewrite Fc.
  assert (E : (u_clock e <? 2 ^ 63) = true) by lia.
  rewrite E. reflexivity.
Qed.

Lemma ev_raw_ok e pre rest bs off :
  wf_uev e -> bs = pre ++ encode e ++ rest -> off = slen pre ->
  raw_at bs (off, esize e, u_clock e) = raw_of_uev e.
Proof.
  intros W Hbs Hoff.
  destruct (ev_facts e pre rest bs off W Hbs Hoff) as (F0 & F1 & F2 & F3 & _ & _ & _ & Fp).
  unfold raw_at, raw_of_uev.
  rewrite F0, F1, F2, F3, Fp.
  rewrite (map_mod_byte _ (payload_byte e W)).
  rewrite (flag_jumbo_bit e W). reflexivity.
Qed.

(* ------------------------------------------------------------------ all events *)

Lemma slen_encode e : slen (encode e) = esize e.
Proof.
  rewrite slen_zlength. unfold encode, esize, HEADER_SIZE. destruct (u_jumbo e).
  - rewrite !zlength_app, !zlength_le_bytes. cbn [zlength fold_left]. lia.
  - rewrite !zlength_app, !zlength_le_bytes. cbn [zlength fold_left]. lia.
Qed.

Lemma raw_from es : forall pre bs off,
  bs = pre ++ flat_map encode es -> off = slen pre -> Forall wf_uev es ->
  map (raw_at bs) (layout off es) = map raw_of_uev es.
Proof.
  induction es as [|e es IH]; intros pre bs off Hbs Hoff W.
  - reflexivity.
  - apply Forall_cons_iff in W. destruct W as [We W].
    cbn [flat_map] in Hbs. cbn [layout map].
    rewrite (ev_raw_ok e pre (flat_map encode es) bs off We Hbs Hoff).
    rewrite (IH (pre ++ encode e) bs (off + esize e)); [reflexivity| | |exact W].
    + rewrite Hbs. rewrite <- app_assoc. reflexivity.
    + rewrite slen_app, slen_encode, Hoff. reflexivity.
Qed.

Definition first_ge (last : Z) (es : list uev) : Prop :=
  match es with [] => True | e :: _ => last <= u_clock e end.

Lemma tiles_from_layout es : forall pre bs off last,
  bs = pre ++ flat_map encode es -> off = slen pre ->
  Forall wf_uev es ->
  Forall (fun e => u_clock e < 2 ^ 63) es ->
  Forall (fun e => esize e <= 2147483647) es ->
  sortedb (map u_clock es) = true ->
  first_ge last es ->
  tiles_from bs true off last (layout off es).
Proof.
  induction es as [|e es IH]; intros pre bs off last Hbs Hoff W C S Srt Hl.
  - cbn [flat_map] in Hbs. rewrite app_nil_r in Hbs. subst bs off. cbn [layout]. apply tiles_end.
  - apply Forall_cons_iff in W. destruct W as [We W].
    apply Forall_cons_iff in C. destruct C as [Ce C].
    apply Forall_cons_iff in S. destruct S as [Se S].
    cbn [flat_map] in Hbs. cbn [layout]. cbn [first_ge] in Hl.
    pose proof (ev_clock_ok e pre (flat_map encode es) bs off We Ce Hbs Hoff) as Hclk.
    pose proof (ev_size_ok e pre (flat_map encode es) bs off We Se Hbs Hoff) as Hsz.
    destruct (ev_facts e pre (flat_map encode es) bs off We Hbs Hoff) as (_ & _ & _ & _ & _ & _ & Flen & _).
    rewrite <- Hclk.
    apply tiles_ev.
    + pose proof (esize_min e). pose proof (slen_nonneg (flat_map encode es)). lia.
    + exact Hsz.
    + intros _. rewrite Hclk. exact Hl.
    + apply (IH (pre ++ encode e)).
      * rewrite Hbs. rewrite <- app_assoc. reflexivity.
      * rewrite slen_app, slen_encode, Hoff. reflexivity.
      * exact W.
      * exact C.
      * exact S.
      * cbn [map] in Srt. destruct es as [|e2 es2]; [reflexivity|].
        cbn [map sortedb] in Srt. apply andb_prop in Srt. destruct Srt as [_ Srt].
        cbn [map]. exact Srt.
      * rewrite Hclk. destruct es as [|e2 es2]; [exact I|].
        cbn [first_ge]. cbn [map sortedb] in Srt. apply andb_prop in Srt. destruct Srt as [Srt _]. lia.
Qed.

Lemma header_ok rest : spec_header_ok (STREAM_HEADER ++ rest) = true.
Proof.
  assert (L : slen STREAM_HEADER = 8) by reflexivity.
  unfold spec_header_ok.
  rewrite slen_app, L.
  rewrite (sbyte_app1 STREAM_HEADER rest 0) by (rewrite L; lia).
  rewrite (sbyte_app1 STREAM_HEADER rest 1) by (rewrite L; lia).
  rewrite (sbyte_app1 STREAM_HEADER rest 2) by (rewrite L; lia).
  rewrite (sbyte_app1 STREAM_HEADER rest 3) by (rewrite L; lia).
  rewrite (sle_app1 4 STREAM_HEADER rest 4) by (try rewrite L; lia).
  pose proof (slen_nonneg rest) as Hr.
  assert (E : (8 <=? 8 + slen rest) = true) by lia.
  rewrite E. reflexivity.
Qed.

(* ------------------------------------------------------------------ the two theorems *)

Theorem bridge_valid : forall es,
  Forall wf_uev es ->
  Forall (fun e => u_clock e < 2 ^ 63) es ->
  Forall (fun e => esize e <= 2147483647) es ->
  sortedb (map u_clock es) = true ->
  valid_obs (STREAM_HEADER ++ flat_map encode es) true (layout 8 es).
Proof.
  intros es W C S Srt. split.
  - apply header_ok.
  - apply (tiles_from_layout es STREAM_HEADER); try assumption; try reflexivity.
    destruct es as [|e es]; [exact I|].
    cbn [first_ge]. apply Forall_cons_iff in W. destruct W as [We _].
    destruct (wf_uev_inv e We) as (_ & _ & _ & Hc & _). lia.
Qed.

Theorem bridge_raw : forall es,
  Forall wf_uev es ->
  map (raw_at (STREAM_HEADER ++ flat_map encode es)) (layout 8 es) = map raw_of_uev es.
Proof.
  intros es W. apply (raw_from es STREAM_HEADER); [reflexivity|reflexivity|exact W].
Qed.

(* the hypotheses are satisfiable by a non-trivial list: a normal event with a payload, a jumbo
   event and an event without payload, with equal and increasing clocks *)
Example bridge_example :
  let es := [mkU false 79 72 120 5 [1; 0; 0; 0; 2; 0; 0; 0];
             mkU true 79 85 70 5 [7; 8; 9];
             mkU false 79 72 101 9 []] in
  Forall wf_uev es /\
  Forall (fun e => u_clock e < 2 ^ 63) es /\
  Forall (fun e => esize e <= 2147483647) es /\
  sortedb (map u_clock es) = true /\
  layout 8 es = [(8, 20, 5); (28, 19, 5); (47, 12, 9)].
Proof.
  cbv zeta. split; [|split; [|split; [|split]]].
  - repeat constructor.
  - repeat constructor.
  - repeat constructor; vm_compute; discriminate.
  - reflexivity.
  - reflexivity.
Qed.

