(* bay_propagate as a whole on a well-formed two-level wiring: the emit phase is emit_all over the
   requests of the dirty channels, the flush phase cleans them; per mux the result is the emission
   rule (single-mux refinement). *)
From Coq Require Import ZArith List Bool Lia PeanoNat.
From OV Require Import Emu.EmuCoreDefs Emu.BayDefs Proofs.EmitProofs Proofs.BayBasics Proofs.BayMux Proofs.BayProofs.
Import ListNotations.
Local Open Scope nat_scope.

(* ---------------------------------------------------------------- emit phase *)

Definition req_of (e : ecb) (v : value) : req := ((e_cpu e, e_row e, e_type e), e_flags e, v).

Definition chan_reqs (b : bay) (c : nat) : list req :=
  match chan_at b c with
  | Some ch => map (fun e => req_of e (chan_read ch)) (ecbs_of b c)
  | None => []
  end.

Lemma emit_all_app a : forall last b,
  emit_all last (a ++ b) =
  match emit_all last a with
  | Err e => Err e
  | Ok (l1, ls1) => match emit_all l1 b with Err e => Err e | Ok (l2, ls2) => Ok (l2, ls1 ++ ls2) end
  end.
Proof.
  induction a as [|[[[[cpu row] ty] f] v] a IH]; intros last b.
  - cbn. destruct (emit_all last b) as [[l2 ls2]|]; reflexivity.
  - cbn [app emit_all]. destruct (emit last cpu row ty f v) as [[l1 ls1]|]; [|reflexivity].
    rewrite IH. destruct (emit_all l1 a) as [[l2 ls2]|]; [|reflexivity].
    destruct (emit_all l2 b) as [[l3 ls3]|]; [|reflexivity]. rewrite app_assoc. reflexivity.
Qed.

Lemma emit_cbs_emit_all v es : forall last, emit_cbs last v es = emit_all last (map (fun e => req_of e v) es).
Proof.
  induction es as [|e es IH]; intros last; [reflexivity|].
  cbn [emit_cbs map emit_all req_of]. destruct (emit last (e_cpu e) (e_row e) (e_type e) (e_flags e) v) as [[l1 ls1]|]; [|reflexivity].
  rewrite IH. reflexivity.
Qed.

Lemma emit_phase_emit_all b ds : forall last,
  (forall c, In c ds -> chan_at b c <> None) ->
  emit_phase b last ds = emit_all last (flat_map (chan_reqs b) ds).
Proof.
  induction ds as [|c ds IH]; intros last H; [reflexivity|].
  cbn [emit_phase flat_map]. rewrite emit_all_app. unfold chan_reqs at 1.
  specialize (H c (or_introl eq_refl)) as Hc. unfold chan_at in *.
  destruct (nth_error (b_chans b) c) as [ch|]; [|congruence].
  rewrite emit_cbs_emit_all.
  destruct (emit_all last (map (fun e => req_of e (chan_read ch)) (ecbs_of b c))) as [[l1 ls1]|]; [|reflexivity].
  rewrite IH; [reflexivity|]. intros c' Hc'. apply H. right. exact Hc'.
Qed.

(* ---------------------------------------------------------------- flush phase *)

Lemma flush_all_spec ds : forall b,
  NoDup ds -> (forall c, In c ds -> exists ch, chan_at b c = Some ch /\ c_dirty ch = true) ->
  exists b', flush_all b ds = Ok b' /\ b_muxes b' = b_muxes b /\ b_dcbs b' = b_dcbs b /\ b_dirty b' = b_dirty b /\
    (forall c ch, In c ds -> chan_at b c = Some ch -> chan_at b' c = Some (flushed ch)) /\
    (forall c, ~ In c ds -> chan_at b' c = chan_at b c).
Proof.
  induction ds as [|c ds IH]; intros b Hnd H.
  - exists b. repeat split; try reflexivity. intros c ch [].
  - inversion Hnd as [|? ? Hc Hnd']; subst.
    destruct (H c (or_introl eq_refl)) as (ch & Hch & Hd). cbn [flush_all]. unfold chan_at in Hch. rewrite Hch, Hd.
    assert (Hlt : c < length (b_chans b)) by (apply (nth_error_Some_lt _ _ ch); exact Hch).
    destruct (IH (set_chan b c (flushed ch)) Hnd') as (b' & E & Em & Ed & Edl & Hin & Hout).
    { intros c' Hc'. assert (c <> c') by (intros ->; contradiction).
      rewrite chan_at_set_chan_other by exact H0. apply H. right. exact Hc'. }
    exists b'. split; [exact E|]. split; [exact Em|]. split; [exact Ed|]. split; [exact Edl|]. split.
    + intros c' ch' [<-|Hc'] Hch'.
      * rewrite Hout by exact Hc. rewrite chan_at_set_chan_same by exact Hlt. unfold chan_at in Hch'. congruence.
      * assert (c <> c') by (intros ->; contradiction).
        apply Hin; [exact Hc'|]. rewrite chan_at_set_chan_other by exact H0. exact Hch'.
    + intros c' Hn. rewrite Hout by (intros Hx; apply Hn; right; exact Hx).
      apply chan_at_set_chan_other. intros ->. apply Hn. left. reflexivity.
Qed.

(* ---------------------------------------------------------------- the whole propagation *)

(* what must hold when bay_propagate starts (after the handler's writes) *)
Record Pre (b0 : bay) : Prop := {
  pre_shape : Shape b0;
  pre_cbs : Cbs b0;
  pre_outs : forall m mx, imux b0 m mx ->
    exists och, chan_at b0 (mx_out mx) = Some och /\ c_dirty och = false /\ ~ In (mx_out mx) (b_dirty b0);
  pre_sel : forall m mx, imux b0 m mx -> In (mx_sel mx) (b_dirty b0) -> exists oi, sel_res b0 mx = Ok oi;
  pre_nodup : NoDup (b_dirty b0);
  pre_lvl0 : forall c, In c (b_dirty b0) -> c < length (b_chans b0) /\ ~ is_out b0 c;
  pre_flag : forall c ch, chan_at b0 c = Some ch -> ~ is_out b0 c -> (c_dirty ch = true <-> In c (b_dirty b0));
  (* muxes whose select was not written still have exactly the input chosen by the select function enabled *)
  pre_en : forall m mx, imux b0 m mx -> ~ In (mx_sel mx) (b_dirty b0) ->
    exists oi, sel_res b0 mx = Ok oi /\ forall j, en_at mx j <-> oi = Some j
}.

(* the emission rule for one mux: its output is written iff its select channel or its selected input was written *)
Definition mux_written (b0 : bay) (mx : mux) (oi : option nat) : Prop :=
  In (mx_sel mx) (b_dirty b0) \/
  exists j c, oi = Some j /\ nth_error (mx_ins mx) j = Some c /\ In c (b_dirty b0).

Lemma mux_written_dec b0 mx oi : {mux_written b0 mx oi} + {~ mux_written b0 mx oi}.
Proof.
  unfold mux_written. destruct (in_dec Nat.eq_dec (mx_sel mx) (b_dirty b0)) as [H|H]; [left; left; exact H|].
  destruct oi as [j|].
  - destruct (nth_error (mx_ins mx) j) as [c|] eqn:E.
    + destruct (in_dec Nat.eq_dec c (b_dirty b0)) as [Hc|Hc].
      * left. right. exists j, c. auto.
      * right. intros [A|(j' & c' & A & B & Cc)]; [contradiction|]. inversion A; subst. rewrite E in B. inversion B; subst. contradiction.
    + right. intros [A|(j' & c' & A & B & Cc)]; [contradiction|]. inversion A; subst. congruence.
  - right. intros [A|(j' & c' & A & B & Cc)]; [contradiction|discriminate].
Qed.

Section Spec.
  Variable b0 : bay.
  Hypothesis P : Pre b0.

  Lemma touched_written Q m mx oi :
    Link b0 (b_dirty b0) Q -> (forall m i, In (DInput m i) Q -> In (DSelect m) Q \/ (exists mx, imux b0 m mx /\ en_at mx i)) ->
    imux b0 m mx -> sel_res b0 mx = Ok oi ->
    (touched Q m <-> mux_written b0 mx oi) /\ (In (DSelect m) Q <-> In (mx_sel mx) (b_dirty b0)).
  Proof.
    intros L Hqin Hi Hoi.
    assert (Hsel : In (DSelect m) Q <-> In (mx_sel mx) (b_dirty b0)).
    { split.
      - intros H. destruct (l_qsel _ _ _ L m H) as (mx' & Hi' & Hp). pose proof (imux_fun _ _ _ _ Hi Hi'). subst. exact Hp.
      - intros H. apply (l_sel _ _ _ L m mx Hi H). }
    split; [|exact Hsel]. unfold touched, mux_written. split.
    - intros [H|(j & H)]; [left; apply Hsel; exact H|].
      destruct (in_dec Nat.eq_dec (mx_sel mx) (b_dirty b0)) as [Hs|Hs]; [left; exact Hs|]. right.
      destruct (l_qin _ _ _ L m j H) as (mx' & c & Hi' & Hn & Hp). pose proof (imux_fun _ _ _ _ Hi Hi'). subst mx'.
      destruct (Hqin m j H) as [A|(mx' & Hi'' & He)]; [exfalso; apply Hs; apply Hsel; exact A|].
      pose proof (imux_fun _ _ _ _ Hi Hi''). subst mx'.
      destruct (pre_en _ P m mx Hi Hs) as (oi' & Hoi' & Hen). assert (Eo : oi' = oi) by congruence. rewrite Eo in *. clear Eo.
      exists j, c. split; [apply Hen; exact He|]. split; assumption.
    - intros [H|(j & c & A & B & Cc)]; [left; apply Hsel; exact H|].
      destruct (in_dec Nat.eq_dec (mx_sel mx) (b_dirty b0)) as [Hs|Hs]; [left; apply Hsel; exact Hs|].
      destruct (pre_en _ P m mx Hi Hs) as (oi' & Hoi' & Hen). assert (Eo : oi' = oi) by congruence. rewrite Eo in *. clear Eo.
      assert (He : en_at mx j) by (apply Hen; exact A).
      destruct (l_in _ _ _ L m mx j c Hi B Cc He) as [X|X]; [left; exact X|right; exists j; exact X].
  Qed.

  (* every initialised mux has a defined selection *)
  Lemma sel_defined m mx : imux b0 m mx -> exists oi, sel_res b0 mx = Ok oi.
  Proof.
    intros Hi. destruct (in_dec Nat.eq_dec (mx_sel mx) (b_dirty b0)) as [Hs|Hs].
    - apply (pre_sel _ P m mx Hi Hs).
    - destruct (pre_en _ P m mx Hi Hs) as (oi & H & _). exists oi. exact H.
  Qed.

  (* the state after the dirty phase, mux by mux *)
  Record Mid (b1 : bay) : Prop := {
    m_skel : skel b1 = skel b0;
    m_len : length (b_dcbs b1) = length (b_dcbs b0);
    m_cbs : Cbs b1;
    m_lvl0 : forall c, ~ is_out b0 c -> chan_at b1 c = chan_at b0 c;
    m_mux : forall m mx oi, imux b0 m mx -> sel_res b0 mx = Ok oi ->
      exists mx1, imux b1 m mx1 /\ mstat mx1 = mstat mx /\ (forall j, en_at mx1 j <-> oi = Some j) /\
                  (In (mx_sel mx) (b_dirty b0) -> mx_selected mx1 = oi) /\
                  (~ In (mx_sel mx) (b_dirty b0) -> mx1 = mx);
    m_out : forall m mx oi och, imux b0 m mx -> sel_res b0 mx = Ok oi -> chan_at b0 (mx_out mx) = Some och ->
      chan_at b1 (mx_out mx) = Some (if mux_written_dec b0 mx oi then out_written och (mux_value b0 mx oi) else och);
    m_dirty : exists O, b_dirty b1 = b_dirty b0 ++ O /\ NoDup O /\
      forall c, In c O <-> exists m mx oi, imux b0 m mx /\ mx_out mx = c /\ sel_res b0 mx = Ok oi /\ mux_written b0 mx oi
  }.

  Theorem dirty_phase_spec : exists b1, dirty_phase (S (length (b_chans b0))) 0 b0 = Ok b1 /\ Mid b1.
  Proof.
    destruct (dirty_phase_inv b0 (pre_shape _ P) (pre_cbs _ P) (pre_outs _ P) (pre_sel _ P) (pre_nodup _ P) (pre_lvl0 _ P))
      as (b1 & Q & E & I & L).
    exists b1. split; [exact E|].
    pose proof (i_qin _ _ _ I) as Hqin.
    constructor.
    - apply (i_skel _ _ _ I).
    - apply (i_len _ _ _ I).
    - apply (i_cbs _ _ _ I).
    - apply (i_lvl0 _ _ _ I).
    - intros m mx oi Hi Hoi. destruct (touched_written Q m mx oi L Hqin Hi Hoi) as [_ Hsel].
      destruct (i_mux _ _ _ I m mx Hi) as (mx1 & Hi1 & Es & A & B). exists mx1. split; [exact Hi1|]. split; [exact Es|].
      destruct (in_dec Nat.eq_dec (mx_sel mx) (b_dirty b0)) as [Hs|Hs].
      + destruct (A (proj2 Hsel Hs)) as (oi' & Hoi' & Hen & Hse). assert (Eo : oi' = oi) by congruence. rewrite Eo in *. clear Eo.
        split; [exact Hen|]. split; [intros _; exact Hse|intros Hn; contradiction].
      + assert (Hq : ~ In (DSelect m) Q) by (intros H; apply Hs; apply Hsel; exact H).
        pose proof (B Hq). subst mx1.
        destruct (pre_en _ P m mx Hi Hs) as (oi' & Hoi' & Hen). assert (Eo : oi' = oi) by congruence. rewrite Eo in *. clear Eo.
        split; [exact Hen|]. split; [intros Hn; contradiction|reflexivity].
    - intros m mx oi och Hi Hoi Ho. destruct (touched_written Q m mx oi L Hqin Hi Hoi) as [Ht Hsel].
      destruct (i_out _ _ _ I m mx och Hi Ho) as [A B].
      destruct (mux_written_dec b0 mx oi) as [W|W].
      + destruct (A (proj2 Ht W)) as (v & Hc & V1 & V2). rewrite Hc. f_equal. f_equal.
        destruct (in_dec_dcb (DSelect m) Q) as [Hq|Hq].
        * destruct (V1 Hq) as (oi' & Hoi' & ->). assert (Eo : oi' = oi) by congruence. rewrite Eo in *. clear Eo. reflexivity.
        * assert (Hs : ~ In (mx_sel mx) (b_dirty b0)) by (intros H; apply Hq; apply Hsel; exact H).
          destruct W as [W|(j & c & Ej & Hn & Hc')]; [contradiction|]. subst oi.
          destruct (pre_en _ P m mx Hi Hs) as (oi' & Hoi' & Hen). assert (Eo : oi' = Some j) by congruence.
          assert (He : en_at mx j) by (apply Hen; exact Eo).
          destruct (l_in _ _ _ L m mx j c Hi Hn Hc' He) as [X|X]; [contradiction|].
          apply (V2 Hq j X).
      + apply B. intros T. apply W. apply Ht. exact T.
    - destruct (i_dirty _ _ _ I) as (O & EO & HndO & HO). exists O. split; [exact EO|]. split; [exact HndO|].
      intros c. rewrite (HO c). split.
      + intros (m & mx & Hi & Ho & T). destruct (sel_defined m mx Hi) as (oi & Hoi).
        exists m, mx, oi. split; [exact Hi|]. split; [exact Ho|]. split; [exact Hoi|].
        apply (touched_written Q m mx oi L Hqin Hi Hoi). exact T.
      + intros (m & mx & oi & Hi & Ho & Hoi & W). exists m, mx. split; [exact Hi|]. split; [exact Ho|].
        apply (touched_written Q m mx oi L Hqin Hi Hoi). exact W.
  Qed.

  (* the state after bay_propagate *)
  Record Post (b2 : bay) : Prop := {
    p_skel : skel b2 = skel b0;
    p_len : length (b_dcbs b2) = length (b_dcbs b0);
    p_cbs : Cbs b2;
    p_dirty : b_dirty b2 = [];
    p_lvl0 : forall c ch, ~ is_out b0 c -> chan_at b0 c = Some ch -> chan_at b2 c = Some (if c_dirty ch then flushed ch else ch);
    p_mux : forall m mx oi, imux b0 m mx -> sel_res b0 mx = Ok oi ->
      exists mx2, imux b2 m mx2 /\ mstat mx2 = mstat mx /\ (forall j, en_at mx2 j <-> oi = Some j) /\
                  (In (mx_sel mx) (b_dirty b0) -> mx_selected mx2 = oi) /\
                  (~ In (mx_sel mx) (b_dirty b0) -> mx2 = mx);
    p_out : forall m mx oi och, imux b0 m mx -> sel_res b0 mx = Ok oi -> chan_at b0 (mx_out mx) = Some och ->
      chan_at b2 (mx_out mx) = Some (if mux_written_dec b0 mx oi then flushed (out_written och (mux_value b0 mx oi)) else och)
  }.

  Theorem propagate_spec last :
    exists b1 b2, Mid b1 /\ Post b2 /\
      propagate b0 last =
      match emit_all last (flat_map (chan_reqs b1) (b_dirty b1)) with
      | Err e => Err e
      | Ok (last', ls) => Ok (b2, last', ls)
      end.
  Proof.
    destruct dirty_phase_spec as (b1 & E1 & M).
    destruct (m_dirty _ M) as (O & EO & HndO & HO).
    pose proof (pre_shape _ P) as S0.
    assert (Hl0 : forall c, In c (b_dirty b0) -> exists ch, chan_at b1 c = Some ch /\ c_dirty ch = true).
    { intros c Hc. destruct (pre_lvl0 _ P c Hc) as [Hlt Hno]. rewrite (m_lvl0 _ M c Hno).
      destruct (nth_error (b_chans b0) c) as [ch|] eqn:Hch; [|apply nth_error_None in Hch; lia].
      exists ch. split; [exact Hch|]. apply (pre_flag _ P c ch Hch Hno). exact Hc. }
    assert (HlO : forall c, In c O -> exists ch, chan_at b1 c = Some ch /\ c_dirty ch = true).
    { intros c Hc. apply (HO c) in Hc. destruct Hc as (m & mx & oi & Hi & Ho & Hoi & W).
      destruct (pre_outs _ P m mx Hi) as (och & Hoc & _). rewrite <- Ho.
      rewrite (m_out _ M m mx oi och Hi Hoi Hoc). destruct (mux_written_dec b0 mx oi) as [_|N]; [|contradiction].
      eexists. split; reflexivity. }
    assert (Hall : forall c, In c (b_dirty b1) -> exists ch, chan_at b1 c = Some ch /\ c_dirty ch = true).
    { intros c Hc. rewrite EO in Hc. apply in_app_or in Hc. destruct Hc as [H|H]; [apply Hl0|apply HlO]; exact H. }
    assert (Hnd1 : NoDup (b_dirty b1)).
    { rewrite EO. apply NoDup_app_disjoint'; [apply (pre_nodup _ P)|exact HndO|].
      intros c H1 H2. apply (HO c) in H2. destruct H2 as (m & mx & oi & Hi & Ho & _).
      destruct (pre_lvl0 _ P c H1) as [_ Hno]. apply Hno. exists m, mx. split; assumption. }
    destruct (flush_all_spec (b_dirty b1) b1 Hnd1 Hall) as (b2 & E2 & Em & Ed & Edl & Hin & Hout).
    exists b1, (set_dirty_list b2 []). split; [exact M|]. split.
    - assert (Sk2 : skel b2 = skel b1) by (apply (skel_flush_all _ _ _ E2)).
      constructor.
      + rewrite skel_set_dirty_list, Sk2. apply (m_skel _ M).
      + cbn. rewrite Ed. apply (m_len _ M).
      + apply (Cbs_same b1); [exact Ed|exact Em|apply (m_cbs _ M)].
      + reflexivity.
      + intros c ch Hno Hch. change (chan_at b2 c = Some (if c_dirty ch then flushed ch else ch)).
        pose proof (m_lvl0 _ M c Hno) as H1. rewrite Hch in H1.
        destruct (c_dirty ch) eqn:Hd.
        * apply Hin; [|exact H1]. rewrite EO. apply in_or_app. left. apply (pre_flag _ P c ch Hch Hno). exact Hd.
        * rewrite Hout; [exact H1|]. rewrite EO. intros Hc. apply in_app_or in Hc. destruct Hc as [Hc|Hc].
          -- apply (pre_flag _ P c ch Hch Hno) in Hc. congruence.
          -- apply (HO c) in Hc. destruct Hc as (m & mx & oi & Hi & Ho & _). apply Hno. exists m, mx. split; assumption.
      + intros m mx oi Hi Hoi. destruct (m_mux _ M m mx oi Hi Hoi) as (mx1 & [A1 A2] & B). exists mx1. split; [|exact B].
        split; [|exact A2]. unfold mux_at. cbn. rewrite Em. exact A1.
      + intros m mx oi och Hi Hoi Ho. change (chan_at b2 (mx_out mx) = Some (if mux_written_dec b0 mx oi then flushed (out_written och (mux_value b0 mx oi)) else och)).
        pose proof (m_out _ M m mx oi och Hi Hoi Ho) as H1.
        destruct (mux_written_dec b0 mx oi) as [W|W].
        * apply Hin; [|exact H1]. rewrite EO. apply in_or_app. right. apply (HO (mx_out mx)).
          exists m, mx, oi. split; [exact Hi|]. split; [reflexivity|]. split; [exact Hoi|exact W].
        * rewrite Hout; [exact H1|]. rewrite EO. intros Hc. apply in_app_or in Hc. destruct Hc as [Hc|Hc].
          -- destruct (pre_outs _ P m mx Hi) as (_ & _ & _ & Hn). contradiction.
          -- apply (HO (mx_out mx)) in Hc. destruct Hc as (m' & mx' & oi' & Hi' & Ho' & Hoi' & W').
             assert (m' = m) by (apply (sh_out_inj _ S0 m' m mx' mx Hi' Hi Ho')). subst m'.
             pose proof (imux_fun _ _ _ _ Hi Hi'). subst mx'. assert (Eo : oi' = oi) by congruence. rewrite Eo in *. clear Eo. contradiction.
    - unfold propagate. rewrite E1.
      rewrite emit_phase_emit_all.
      2:{ intros c Hc. destruct (Hall c Hc) as (ch & Hch & _). congruence. }
      destruct (emit_all last (flat_map (chan_reqs b1) (b_dirty b1))) as [[last' ls]|]; [|reflexivity].
      rewrite E2. reflexivity.
  Qed.
End Spec.

Lemma chan_read_written ch v : c_stack ch = false -> chan_read (out_written ch v) = v.
Proof. intros H. unfold chan_read. cbn. rewrite H. reflexivity. Qed.

(* ---------------------------------------------------------------- single-mux refinement *)

(* For any well-formed two-level wiring and any batch of accepted writes: after bay_propagate, for
   every mux, the enabled input callback is exactly the one chosen by the select function on the
   current select value (and `selected` is that input when the select was written); the output was
   written, hence entered the dirty list and had its emit callbacks run with that value, iff the
   select channel or the selected input was written; the value written is the mux function of the
   select and input values; an output that was not written is untouched. *)
Theorem mux_refines_emission_rule b0 last b2 last' ls m mx :
  Pre b0 -> propagate b0 last = Ok (b2, last', ls) -> imux b0 m mx ->
  exists oi mx2 och och2 b1,
    sel_res b0 mx = Ok oi /\
    imux b2 m mx2 /\ mstat mx2 = mstat mx /\ (forall j, en_at mx2 j <-> oi = Some j) /\
    (In (mx_sel mx) (b_dirty b0) -> mx_selected mx2 = oi) /\
    chan_at b0 (mx_out mx) = Some och /\ chan_at b2 (mx_out mx) = Some och2 /\ c_dirty och2 = false /\
    (mux_written b0 mx oi -> chan_read och2 = mux_value b0 mx oi /\ c_last och2 = mux_value b0 mx oi) /\
    (~ mux_written b0 mx oi -> och2 = och) /\
    (* emission: the output's emit callbacks run iff written, with the mux value *)
    emit_all last (flat_map (chan_reqs b1) (b_dirty b1)) = Ok (last', ls) /\
    (In (mx_out mx) (b_dirty b1) <-> mux_written b0 mx oi) /\
    (mux_written b0 mx oi -> chan_reqs b1 (mx_out mx) = map (fun e => req_of e (mux_value b0 mx oi)) (ecbs_of b0 (mx_out mx))).
Proof.
  intros P E Hi. destruct (sel_defined b0 P m mx Hi) as (oi & Hoi).
  destruct (propagate_spec b0 P last) as (b1 & b2' & M & Po & Ep). rewrite E in Ep.
  destruct (emit_all last (flat_map (chan_reqs b1) (b_dirty b1))) as [[l1 ls1]|] eqn:Ee; [|discriminate].
  inversion Ep; subst b2' l1 ls1. clear Ep.
  destruct (pre_outs _ P m mx Hi) as (och & Ho & Hcl & Hnd).
  destruct (p_mux _ _ Po m mx oi Hi Hoi) as (mx2 & Hi2 & Es & Hen & Hsel & _).
  pose proof (p_out _ _ Po m mx oi och Hi Hoi Ho) as Ho2.
  pose proof (m_out _ _ M m mx oi och Hi Hoi Ho) as Ho1.
  exists oi, mx2. exists och. eexists. exists b1. split; [exact Hoi|]. split; [exact Hi2|]. split; [exact Es|].
  split; [exact Hen|]. split; [exact Hsel|]. split; [exact Ho|]. split; [exact Ho2|].
  destruct (mux_written_dec b0 mx oi) as [W|W].
  - assert (Hst : c_stack och = false).
    { destruct (sh_out _ (pre_shape _ P) m mx Hi) as (och' & Ho' & Hs' & _). rewrite Ho in Ho'. inversion Ho'; subst. exact Hs'. }
    split; [reflexivity|]. split; [intros _; split; [unfold chan_read; cbn; rewrite Hst; reflexivity|cbn [c_last flushed]; apply chan_read_written; exact Hst]|]. split; [intros N; contradiction|].
    split; [exact Ee|]. split.
    + split; [intros _; exact W|]. intros _. destruct (m_dirty _ _ M) as (O & EO & _ & HO). rewrite EO. apply in_or_app. right.
      apply (HO (mx_out mx)). exists m, mx, oi. split; [exact Hi|]. split; [reflexivity|]. split; [exact Hoi|exact W].
    + intros _. unfold chan_reqs. rewrite Ho1. unfold ecbs_of. rewrite (skel_ecbs _ _ (m_skel _ _ M)).
      rewrite chan_read_written by exact Hst. reflexivity.
  - split; [exact Hcl|]. split; [intros N; contradiction|]. split; [intros _; reflexivity|]. split; [exact Ee|]. split.
    + split; [|intros N; contradiction]. intros Hin. exfalso. destruct (m_dirty _ _ M) as (O & EO & _ & HO). rewrite EO in Hin.
      apply in_app_or in Hin. destruct Hin as [H|H]; [contradiction|]. apply (HO (mx_out mx)) in H.
      destruct H as (m' & mx' & oi' & Hi' & Ho' & Hoi' & W').
      assert (m' = m) by (apply (sh_out_inj _ (pre_shape _ P) m' m mx' mx Hi' Hi Ho')). subst m'.
      pose proof (imux_fun _ _ _ _ Hi Hi'). subst mx'. assert (Eo : oi' = oi) by congruence. rewrite Eo in *. clear Eo. contradiction.
    + intros N. contradiction.
Qed.

(* the worklist fuel never runs out *)
Theorem propagate_fuel b0 last : Pre b0 -> propagate b0 last <> Err E_FUEL.
Proof.
  intros P. destruct (propagate_spec b0 P last) as (b1 & b2 & _ & _ & E). rewrite E.
  destruct (emit_all last (flat_map (chan_reqs b1) (b_dirty b1))) as [[l ls]|e] eqn:Ee; [discriminate|].
  intros H. inversion H; subst e. clear H E.
  (* emit never fails with E_FUEL *)
  revert last Ee. generalize (flat_map (chan_reqs b1) (b_dirty b1)). intros rs.
  induction rs as [|[[[[cpu row] ty] f] v] rs IH]; intros last Ee; cbn in Ee; [discriminate|].
  destruct (emit last cpu row ty f v) as [[l1 ls1]|e] eqn:E1.
  - destruct (emit_all l1 rs) as [[l2 ls2]|e] eqn:E2; [discriminate|]. inversion Ee; subst. apply (IH l1 E2).
  - inversion Ee; subst. unfold emit in E1.
    repeat match type of E1 with
           | (if ?c then _ else _) = _ => destruct c; try discriminate
           | match ?v with Some _ => _ | None => _ end = _ => destruct v; try discriminate
           end.
Qed.
